/-
  C09, fourth wave — the INSTRUMENTED EVALUATOR.

  `ievalT root n cur env : T (Res Val)` is `evaluator.evaluate(node, current, variables)` of
  /repo/internal/evaluator/evaluator.go in the tick-writer monad of `Jmes/Proofs/C09CTick.lean`: the model's `ieval`
  (`Jmes/Model/Eval.lean`) with
    * ONE tick for every call of `evaluate` (every node visited, for every value it is visited at);
    * the instrumented loops of the third wave (`Jmes/Proofs/C09CTick*.lean`: slices, projections, filters, flatten,
      `sort_by`/`max_by`/`min_by` key collection, the rows of `zip`, `find_*`, `pad_*`, `split`, `replace`, `join`,
      `reverse`) and of `Jmes/Proofs/C09ELemmas.lean` (`objectValues`, `projectObject`, `group_by`) where the model
      calls the corresponding function, the sub-expression being `ievalT` itself;
    * one tick per element of a multi-select list / per argument evaluated, two per member of a multi-select hash or
      `let` binding (iteration + map store) plus `make`, one per key copied by `merge`;
    * `==`, `!=` and `contains` are the instrumented deep comparison (`equalT`, `containsT`);
    * ONE tick, and no more, for what is NOT instrumented: the other binary operators (decimal arithmetic,
      ordering) and the builtins listed by `uninstrumented`; NOTHING beyond the tick of the node for unary minus,
      `sort.Stable` inside `sort_by`, and the walk up the scope chain of a variable reference (at most the `let`
      nesting depth).

  Proved: `(ievalT root n cur env).1 = ieval root n cur env` (`ievalT_fst`: same result, every node, every value), and
  `(ievalT root n cur env).2 ≤ 12 · ievalS root n cur env` (`ievalT_cost`), where `ievalS` — defined below by the same
  recursion, from the RESULTS of the model's `ieval` only — adds up, over the nodes visited, one plus the sizes of the
  values the node's own loops run over (the operand, the result).  No integer literal of the expression (index,
  slice bound or step) and no numeric argument (offset, count) occurs in `ievalS`; the only integers that can occur
  are the width of a `pad` whose result the model declines to build, through `fnExtra`.
-/
import Jmes.Proofs.C09ELemmas
set_option linter.unusedSimpArgs false
set_option linter.unusedVariables false
namespace Jmes.C09E
open Jmes Jmes.C09C

/-- one member of a multi-select hash / one binding of a `let` (evaluator.go:99, :789): the model combines the
    outcomes of ALL members (Go's map order is unspecified); charged: the evaluation, the iteration, the map store -/
def fieldStepT (k : Bytes) (r : T (Res (List (Bytes × Val)))) (x : T (Res Val)) : T (Res (List (Bytes × Val))) :=
  ⟨combineUnordered r.1 k x.1, r.2 + x.2 + 2⟩

mutual
/-- `evaluator.evaluate(node, current, variables)` with its ticks -/
def ievalT (root : Val) : INode → Val → Env → T (Res Val)
  | .lit v, _, _ => chg 1 (pure (.ok v))
  | .current, cur, _ => chg 1 (pure (.ok cur))
  | .root, _, _ => chg 1 (pure (.ok root))
  | .field k, cur, _ => chg 1 (pure (.ok (field k cur)))
  | .variable name, _, env =>
    chg 1 (pure (match env.get name with
     | some v => .ok v
     | none => .err [Cat.undefinedVariable]))
  | .binop op l r, cur, env =>
    chg 1 (bindR (ievalT root l cur env) fun a => bindR (ievalT root r cur env) fun b => applyBinOpT op a b)
  | .and l r, cur, env =>
    chg 1 (bindR (ievalT root l cur env) fun a => if !isTrue a then pure (.ok a) else ievalT root r cur env)
  | .or l r, cur, env =>
    chg 1 (bindR (ievalT root l cur env) fun a => if isTrue a then pure (.ok a) else ievalT root r cur env)
  | .not c, cur, env => chg 1 (bindR (ievalT root c cur env) fun a => pure (.ok (.bool (!isTrue a))))
  | .negate c, cur, env => chg 1 (bindR (ievalT root c cur env) fun a => pure (.ok (negateVal a)))
  | .assertNumber c, cur, env =>
    chg 1 (bindR (ievalT root c cur env) fun a => pure (.ok (if isNumber a then a else .null)))
  | .call f args, cur, env => chg 1 (bindR (ievalListT root args cur env) fun vs => applyFnT f vs)
  | .defineVariables vars child, cur, env =>
    chg (1 + vars.length) (bindR (ievalFieldsT root vars cur env) fun bs => ievalT root child cur (bs ++ env))
  | .filter c f, cur, env =>
    chg 1 (bindR (ievalT root c cur env) fun a => filterArrayT (fun v => ievalT root f v env) a)
  | .filterCurrent f, cur, env => chg 1 (filterArrayT (fun v => ievalT root f v env) cur)
  | .filterAndProject l f r, cur, env =>
    chg 1 (bindR (ievalT root l cur env) fun a =>
      filterAndProjectArrayT (fun v => ievalT root f v env) (fun v => ievalT root r v env) a)
  | .filterAndProjectCurrent f c, cur, env =>
    chg 1 (filterAndProjectArrayT (fun v => ievalT root f v env) (fun v => ievalT root c v env) cur)
  | .flatten c, cur, env => chg 1 (bindR (ievalT root c cur env) fun a => okT (flattenT a))
  | .flattenCurrent, cur, _ => chg 1 (okT (flattenT cur))
  | .flattenAndProject l r, cur, env =>
    chg 1 (bindR (ievalT root l cur env) fun a => flattenAndProjectArrayT (fun v => ievalT root r v env) a)
  | .flattenAndProjectCurrent c, cur, env => chg 1 (flattenAndProjectArrayT (fun v => ievalT root c v env) cur)
  | .index c i, cur, env => chg 1 (bindR (ievalT root c cur env) fun a => indexT a i)
  | .indexCurrent i, cur, _ => chg 1 (indexT cur i)
  | .smallIndexCurrent i, cur, _ => chg 1 (indexT cur i)
  | .objectValues c, cur, env => chg 1 (bindR (ievalT root c cur env) fun a => okT (objectValuesT a))
  | .objectValuesCurrent, cur, _ => chg 1 (okT (objectValuesT cur))
  | .pipe l r, cur, env => chg 1 (bindR (ievalT root l cur env) fun a => ievalT root r a env)
  | .projectArray l r, cur, env =>
    chg 1 (bindR (ievalT root l cur env) fun a =>
      match a with
      | .str _ => if l.isSlice then ievalT root r a env else projectArrayT (fun v => ievalT root r v env) a
      | _ => projectArrayT (fun v => ievalT root r v env) a)
  | .projectArrayCurrent c, cur, env => chg 1 (projectArrayT (fun v => ievalT root c v env) cur)
  | .projectObject l r, cur, env =>
    chg 1 (bindR (ievalT root l cur env) fun a => projectObjectT (fun v => ievalT root r v env) a)
  | .projectObjectCurrent c, cur, env => chg 1 (projectObjectT (fun v => ievalT root c v env) cur)
  | .pruneArray c, cur, env => chg 1 (bindR (ievalT root c cur env) fun a => okT (pruneArrayT a))
  | .pruneArrayCurrent, cur, _ => chg 1 (okT (pruneArrayT cur))
  | .selectArray c fs, cur, env =>
    chg 1 (bindR (ievalT root c cur env) fun a =>
      if a.isNull then pure (.ok .null)
      else chg fs.length (bindR (ievalListT root fs a env) fun vs => pure (.ok (.arr .plain vs))))
  | .selectArrayCurrent fs, cur, env =>
    chg 1 (if cur.isNull then pure (.ok .null)
      else chg fs.length (bindR (ievalListT root fs cur env) fun vs => pure (.ok (.arr .plain vs))))
  | .selectArraySingle c f, cur, env =>
    chg 1 (bindR (ievalT root c cur env) fun a =>
      if a.isNull then pure (.ok .null)
      else chg 1 (bindR (ievalT root f a env) fun v => pure (.ok (.arr .plain [v]))))
  | .selectArraySingleCurrent f, cur, env =>
    chg 2 (bindR (ievalT root f cur env) fun v => pure (.ok (.arr .plain [v])))
  | .selectObject c fs, cur, env =>
    chg 1 (bindR (ievalT root c cur env) fun a =>
      if a.isNull then pure (.ok .null)
      else chg fs.length (bindR (ievalFieldsT root fs a env) fun kvs => pure (.ok (.obj kvs))))
  | .selectObjectCurrent fs, cur, env =>
    chg 1 (if cur.isNull then pure (.ok .null)
      else chg fs.length (bindR (ievalFieldsT root fs cur env) fun kvs => pure (.ok (.obj kvs))))
  | .selectObjectSingle c k f, cur, env =>
    chg 1 (bindR (ievalT root c cur env) fun a =>
      if a.isNull then pure (.ok .null)
      else chg 1 (bindR (ievalT root f a env) fun v => pure (.ok (.obj [(k, v)]))))
  | .selectObjectSingleCurrent k f, cur, env =>
    chg 2 (bindR (ievalT root f cur env) fun v => pure (.ok (.obj [(k, v)])))
  | .slice c a b, cur, env => chg 1 (bindR (ievalT root c cur env) fun v => sliceT v a b)
  | .sliceCurrent a b, cur, _ => chg 1 (sliceT cur a b)
  | .sliceStep c a b s, cur, env => chg 1 (bindR (ievalT root c cur env) fun v => sliceStepT v a b s)
  | .sliceStepCurrent a b s, cur, _ => chg 1 (sliceStepT cur a b s)
  | .groupBy a e, cur, env =>
    chg 1 (bindR (ievalT root a cur env) fun v => groupByT (fun x => ievalT root e x env) v)
  | .map e a, cur, env =>
    chg 1 (bindR (ievalT root a cur env) fun v => mapArrayT (fun x => ievalT root e x env) v)
  | .maxBy a e, cur, env =>
    chg 1 (bindR (ievalT root a cur env) fun v => arrayMaxByT (fun x => ievalT root e x env) v)
  | .minBy a e, cur, env =>
    chg 1 (bindR (ievalT root a cur env) fun v => arrayMinByT (fun x => ievalT root e x env) v)
  | .sortBy a e, cur, env =>
    chg 1 (bindR (ievalT root a cur env) fun v => sortArrayByT (fun x => ievalT root e x env) v)
  | .merge args, cur, env =>
    chg 1 (bindR (ievalMergeT root args cur env []) fun kvs => pure (.ok (.obj kvs)))
  | .notNull args, cur, env => chg 1 (ievalNotNullT root args cur env)
  | .zip args, cur, env =>
    chg (1 + args.length) (bindR (ievalZipT root args cur env) fun vs => zipTailT vs)
/-- arguments / multi-select elements, left to right, stopping at the first failure: one tick per element evaluated -/
def ievalListT (root : Val) : List INode → Val → Env → T (Res (List Val))
  | [], _, _ => pure (.ok [])
  | n :: ns, cur, env =>
    chg 1 (bindR (ievalT root n cur env) fun v => bindR (ievalListT root ns cur env) fun vs => pure (.ok (v :: vs)))
/-- members of a multi-select hash / bindings of a `let` -/
def ievalFieldsT (root : Val) : List (Bytes × INode) → Val → Env → T (Res (List (Bytes × Val)))
  | [], _, _ => pure (.ok [])
  | (k, n) :: rest, cur, env => fieldStepT k (ievalFieldsT root rest cur env) (ievalT root n cur env)
/-- the argument loop of `merge` (evaluator.go:438): evaluation, type check, and `for k, v := range m { result[k] = v }` -/
def ievalMergeT (root : Val) : List INode → Val → Env → List (Bytes × Val) → T (Res (List (Bytes × Val)))
  | [], _, _, acc => pure (.ok acc)
  | n :: ns, cur, env, acc =>
    chg 1 (bindR (ievalT root n cur env) fun v =>
      match v with
      | .obj kvs => chg kvs.length (ievalMergeT root ns cur env (kvs.foldl (fun a kv => objInsert kv.1 kv.2 a) acc))
      | _ => pure errType)
/-- the argument loop of `not_null` (evaluator.go:536) -/
def ievalNotNullT (root : Val) : List INode → Val → Env → T (Res Val)
  | [], _, _ => pure (.ok .null)
  | n :: ns, cur, env =>
    chg 1 (bindR (ievalT root n cur env) fun v => if v.isNull then ievalNotNullT root ns cur env else pure (.ok v))
/-- the argument loop of `zip` (evaluator.go:1049) -/
def ievalZipT (root : Val) : List INode → Val → Env → T (Res (List Val))
  | [], _, _ => pure (.ok [])
  | n :: ns, cur, env =>
    chg 1 (bindR (ievalT root n cur env) fun v =>
      match v with
      | .arr _ _ => bindR (ievalZipT root ns cur env) fun vs => pure (.ok (v :: vs))
      | _ => pure errType)
end

/-! ## the size measure `ievalS` -/

/-- a loop over `xs` that evaluates a sub-expression of measure `g` on each element: one per element plus the sum -/
def loopS (g : Val → Nat) (xs : List Val) : Nat := xs.length + sumMap g xs

/-- the elements `flattenAndProjectArray` visits -/
def flatElems : Val → List Val
  | .arr _ xs => flattenForProject xs
  | _ => []

/-- the own share of a builtin call: one, the sizes of its arguments, the size of its result, and `fnExtra` -/
def fnS (f : Fn) (vs : List Val) : Nat := 1 + vsizeL vs + outSize (applyFn f vs) + fnExtra f vs

mutual
/-- the measure that bounds the ticks of `ievalT`: the sum, over the nodes visited (each for every value it is
    visited at), of one plus the sizes of the values the node's own loops run over.  Defined from the RESULTS of the
    model's `ieval`; it overcounts where `ievalT` stops early (elements after a failing one, the right operand of a
    short-circuit).  No integer literal of the expression occurs in it. -/
def ievalS (root : Val) : INode → Val → Env → Nat
  | .lit _, _, _ => 1
  | .current, _, _ => 1
  | .root, _, _ => 1
  | .field _, _, _ => 1
  | .variable _, _, _ => 1
  | .binop _ l r, cur, env =>
    1 + ievalS root l cur env + ievalS root r cur env + onOk (ieval root l cur env) vsize
  | .and l r, cur, env => 1 + ievalS root l cur env + ievalS root r cur env
  | .or l r, cur, env => 1 + ievalS root l cur env + ievalS root r cur env
  | .not c, cur, env => 1 + ievalS root c cur env
  | .negate c, cur, env => 1 + ievalS root c cur env
  | .assertNumber c, cur, env => 1 + ievalS root c cur env
  | .call f args, cur, env =>
    1 + ievalListS root args cur env + onOk (ievalList root args cur env) (fun vs => fnS f vs)
  | .defineVariables vars child, cur, env =>
    1 + vars.length + ievalFieldsS root vars cur env
      + onOk (ievalFields root vars cur env) (fun bs => ievalS root child cur (bs ++ env))
  | .filter c f, cur, env =>
    1 + ievalS root c cur env + onOk (ieval root c cur env) (fun a => loopS (fun v => ievalS root f v env) (elems a))
  | .filterCurrent f, cur, env => 1 + loopS (fun v => ievalS root f v env) (elems cur)
  | .filterAndProject l f r, cur, env =>
    1 + ievalS root l cur env
      + onOk (ieval root l cur env) (fun a => loopS (fun v => ievalS root f v env + ievalS root r v env) (elems a))
  | .filterAndProjectCurrent f c, cur, env =>
    1 + loopS (fun v => ievalS root f v env + ievalS root c v env) (elems cur)
  | .flatten c, cur, env => 1 + ievalS root c cur env + onOk (ieval root c cur env) vsize
  | .flattenCurrent, cur, _ => 1 + vsize cur
  | .flattenAndProject l r, cur, env =>
    1 + ievalS root l cur env
      + onOk (ieval root l cur env) (fun a => vsize a + sumMap (fun v => ievalS root r v env) (flatElems a))
  | .flattenAndProjectCurrent c, cur, env => 1 + vsize cur + sumMap (fun v => ievalS root c v env) (flatElems cur)
  | .index c _, cur, env => 1 + ievalS root c cur env
  | .indexCurrent _, _, _ => 1
  | .smallIndexCurrent _, _, _ => 1
  | .objectValues c, cur, env => 1 + ievalS root c cur env + onOk (ieval root c cur env) vsize
  | .objectValuesCurrent, cur, _ => 1 + vsize cur
  | .pipe l r, cur, env => 1 + ievalS root l cur env + onOk (ieval root l cur env) (fun a => ievalS root r a env)
  | .projectArray l r, cur, env =>
    1 + ievalS root l cur env + onOk (ieval root l cur env) (fun a =>
      match a with
      | .str _ => if l.isSlice then ievalS root r a env else 0
      | _ => loopS (fun v => ievalS root r v env) (elems a))
  | .projectArrayCurrent c, cur, env => 1 + loopS (fun v => ievalS root c v env) (elems cur)
  | .projectObject l r, cur, env =>
    1 + ievalS root l cur env + onOk (ieval root l cur env) (fun a => loopS (fun v => ievalS root r v env) (members a))
  | .projectObjectCurrent c, cur, env => 1 + loopS (fun v => ievalS root c v env) (members cur)
  | .pruneArray c, cur, env => 1 + ievalS root c cur env + onOk (ieval root c cur env) vsize
  | .pruneArrayCurrent, cur, _ => 1 + vsize cur
  | .selectArray c fs, cur, env =>
    1 + ievalS root c cur env + onOk (ieval root c cur env) (fun a => fs.length + ievalListS root fs a env)
  | .selectArrayCurrent fs, cur, env => 1 + fs.length + ievalListS root fs cur env
  | .selectArraySingle c f, cur, env =>
    2 + ievalS root c cur env + onOk (ieval root c cur env) (fun a => ievalS root f a env)
  | .selectArraySingleCurrent f, cur, env => 2 + ievalS root f cur env
  | .selectObject c fs, cur, env =>
    1 + ievalS root c cur env + onOk (ieval root c cur env) (fun a => fs.length + ievalFieldsS root fs a env)
  | .selectObjectCurrent fs, cur, env => 1 + fs.length + ievalFieldsS root fs cur env
  | .selectObjectSingle c _ f, cur, env =>
    2 + ievalS root c cur env + onOk (ieval root c cur env) (fun a => ievalS root f a env)
  | .selectObjectSingleCurrent _ f, cur, env => 2 + ievalS root f cur env
  | .slice c _ _, cur, env => 1 + ievalS root c cur env + onOk (ieval root c cur env) vsize
  | .sliceCurrent _ _, cur, _ => 1 + vsize cur
  | .sliceStep c _ _ _, cur, env => 1 + ievalS root c cur env + onOk (ieval root c cur env) vsize
  | .sliceStepCurrent _ _ _, cur, _ => 1 + vsize cur
  | .groupBy a e, cur, env =>
    1 + ievalS root a cur env + onOk (ieval root a cur env) (fun v => loopS (fun x => ievalS root e x env) (elems v))
  | .map e a, cur, env =>
    1 + ievalS root a cur env + onOk (ieval root a cur env) (fun v => loopS (fun x => ievalS root e x env) (elems v))
  | .maxBy a e, cur, env =>
    1 + ievalS root a cur env + onOk (ieval root a cur env) (fun v => loopS (fun x => ievalS root e x env) (elems v))
  | .minBy a e, cur, env =>
    1 + ievalS root a cur env + onOk (ieval root a cur env) (fun v => loopS (fun x => ievalS root e x env) (elems v))
  | .sortBy a e, cur, env =>
    1 + ievalS root a cur env + onOk (ieval root a cur env) (fun v => loopS (fun x => ievalS root e x env) (elems v))
  | .merge args, cur, env => 1 + ievalMergeS root args cur env
  | .notNull args, cur, env => 1 + ievalListS root args cur env
  | .zip args, cur, env =>
    1 + args.length + ievalListS root args cur env + onOk (ievalZip root args cur env) vsizeL
/-- a list of sub-expressions evaluated at the same value: one per element plus its measure -/
def ievalListS (root : Val) : List INode → Val → Env → Nat
  | [], _, _ => 0
  | n :: ns, cur, env => 1 + ievalS root n cur env + ievalListS root ns cur env
/-- the members of a multi-select hash / the bindings of a `let`: two per member plus its measure -/
def ievalFieldsS (root : Val) : List (Bytes × INode) → Val → Env → Nat
  | [], _, _ => 0
  | (_, n) :: rest, cur, env => 2 + ievalS root n cur env + ievalFieldsS root rest cur env
/-- the arguments of `merge`: one per argument, its measure, and the number of keys it contributes -/
def ievalMergeS (root : Val) : List INode → Val → Env → Nat
  | [], _, _ => 0
  | n :: ns, cur, env =>
    1 + ievalS root n cur env + onOk (ieval root n cur env) (fun v => (members v).length) + ievalMergeS root ns cur env
end

/-! ## (1) the result is the model's -/

set_option maxRecDepth 2000 in
mutual
/-- the instrumented evaluator returns EXACTLY the model's result: every node, every current value, every root
    document, every environment -/
theorem ievalT_fst (root : Val) : (n : INode) → (cur : Val) → (env : Env) →
    (ievalT root n cur env).1 = ieval root n cur env
  | .lit v, cur, env => by simp only [ievalT, ieval, chg_fst, pure_fst]
  | .current, cur, env => by simp only [ievalT, ieval, chg_fst, pure_fst]
  | .root, cur, env => by simp only [ievalT, ieval, chg_fst, pure_fst]
  | .field k, cur, env => by simp only [ievalT, ieval, chg_fst, pure_fst]
  | .variable x, cur, env => by
    simp only [ievalT, ieval, chg_fst, pure_fst]
    cases env.get x <;> rfl
  | .binop op l r, cur, env => by
    simp only [ievalT, ieval, chg_fst, bindR_fst, applyBinOpT_fst, ievalT_fst root l, ievalT_fst root r]
  | .and l r, cur, env => by
    simp only [ievalT, ieval, chg_fst, bindR_fst, apply_ite T.val, pure_fst, ievalT_fst root l, ievalT_fst root r]; rfl
  | .or l r, cur, env => by
    simp only [ievalT, ieval, chg_fst, bindR_fst, apply_ite T.val, pure_fst, ievalT_fst root l, ievalT_fst root r]; rfl
  | .not c, cur, env => by
    simp only [ievalT, ieval, chg_fst, bindR_fst, pure_fst, ievalT_fst root c]; rfl
  | .negate c, cur, env => by
    simp only [ievalT, ieval, chg_fst, bindR_fst, pure_fst, ievalT_fst root c]; rfl
  | .assertNumber c, cur, env => by
    simp only [ievalT, ieval, chg_fst, bindR_fst, pure_fst, ievalT_fst root c]; rfl
  | .call f args, cur, env => by
    simp only [ievalT, ieval, chg_fst, bindR_fst, applyFnT_fst, ievalListT_fst root args]
  | .defineVariables vars child, cur, env => by
    simp only [ievalT, ieval, chg_fst, bindR_fst, ievalFieldsT_fst root vars, ievalT_fst root child]
  | .filter c f, cur, env => by
    simp only [ievalT, ieval, chg_fst, bindR_fst, filterArrayT_fst, ievalT_fst root c, ievalT_fst root f]
  | .filterCurrent f, cur, env => by
    simp only [ievalT, ieval, chg_fst, filterArrayT_fst, ievalT_fst root f]
  | .filterAndProject l f r, cur, env => by
    simp only [ievalT, ieval, chg_fst, bindR_fst, filterAndProjectArrayT_fst, ievalT_fst root l, ievalT_fst root f,
      ievalT_fst root r]
  | .filterAndProjectCurrent f c, cur, env => by
    simp only [ievalT, ieval, chg_fst, filterAndProjectArrayT_fst, ievalT_fst root f, ievalT_fst root c]
  | .flatten c, cur, env => by
    simp only [ievalT, ieval, chg_fst, bindR_fst, okT_fst, flattenT_fst, ievalT_fst root c]; rfl
  | .flattenCurrent, cur, env => by simp only [ievalT, ieval, chg_fst, okT_fst, flattenT_fst]
  | .flattenAndProject l r, cur, env => by
    simp only [ievalT, ieval, chg_fst, bindR_fst, flattenAndProjectArrayT_fst, ievalT_fst root l, ievalT_fst root r]
  | .flattenAndProjectCurrent c, cur, env => by
    simp only [ievalT, ieval, chg_fst, flattenAndProjectArrayT_fst, ievalT_fst root c]
  | .index c i, cur, env => by
    simp only [ievalT, ieval, chg_fst, bindR_fst, indexT_fst, ievalT_fst root c]
  | .indexCurrent i, cur, env => by simp only [ievalT, ieval, chg_fst, indexT_fst]
  | .smallIndexCurrent i, cur, env => by simp only [ievalT, ieval, chg_fst, indexT_fst]
  | .objectValues c, cur, env => by
    simp only [ievalT, ieval, chg_fst, bindR_fst, okT_fst, objectValuesT_fst, ievalT_fst root c]; rfl
  | .objectValuesCurrent, cur, env => by simp only [ievalT, ieval, chg_fst, okT_fst, objectValuesT_fst]
  | .pipe l r, cur, env => by
    simp only [ievalT, ieval, chg_fst, bindR_fst, ievalT_fst root l, ievalT_fst root r]
  | .projectArray l r, cur, env => by
    simp only [ievalT, ieval, chg_fst, bindR_fst, ievalT_fst root l]
    apply Res.bind_congr
    intro a
    cases a <;> simp only [apply_ite T.val, projectArrayT_fst, ievalT_fst root r]
  | .projectArrayCurrent c, cur, env => by
    simp only [ievalT, ieval, chg_fst, projectArrayT_fst, ievalT_fst root c]
  | .projectObject l r, cur, env => by
    simp only [ievalT, ieval, chg_fst, bindR_fst, projectObjectT_fst, ievalT_fst root l, ievalT_fst root r]
  | .projectObjectCurrent c, cur, env => by
    simp only [ievalT, ieval, chg_fst, projectObjectT_fst, ievalT_fst root c]
  | .pruneArray c, cur, env => by
    simp only [ievalT, ieval, chg_fst, bindR_fst, okT_fst, pruneArrayT_fst, ievalT_fst root c]; rfl
  | .pruneArrayCurrent, cur, env => by simp only [ievalT, ieval, chg_fst, okT_fst, pruneArrayT_fst]
  | .selectArray c fs, cur, env => by
    simp only [ievalT, ieval, chg_fst, bindR_fst, apply_ite T.val, pure_fst, ievalT_fst root c,
      ievalListT_fst root fs]; rfl
  | .selectArrayCurrent fs, cur, env => by
    simp only [ievalT, ieval, chg_fst, bindR_fst, apply_ite T.val, pure_fst, ievalListT_fst root fs]; rfl
  | .selectArraySingle c f, cur, env => by
    simp only [ievalT, ieval, chg_fst, bindR_fst, apply_ite T.val, pure_fst, ievalT_fst root c, ievalT_fst root f]; rfl
  | .selectArraySingleCurrent f, cur, env => by
    simp only [ievalT, ieval, chg_fst, bindR_fst, pure_fst, ievalT_fst root f]; rfl
  | .selectObject c fs, cur, env => by
    simp only [ievalT, ieval, chg_fst, bindR_fst, apply_ite T.val, pure_fst, ievalT_fst root c,
      ievalFieldsT_fst root fs]; rfl
  | .selectObjectCurrent fs, cur, env => by
    simp only [ievalT, ieval, chg_fst, bindR_fst, apply_ite T.val, pure_fst, ievalFieldsT_fst root fs]; rfl
  | .selectObjectSingle c k f, cur, env => by
    simp only [ievalT, ieval, chg_fst, bindR_fst, apply_ite T.val, pure_fst, ievalT_fst root c, ievalT_fst root f]; rfl
  | .selectObjectSingleCurrent k f, cur, env => by
    simp only [ievalT, ieval, chg_fst, bindR_fst, pure_fst, ievalT_fst root f]; rfl
  | .slice c a b, cur, env => by
    simp only [ievalT, ieval, chg_fst, bindR_fst, sliceT_fst, ievalT_fst root c]
  | .sliceCurrent a b, cur, env => by simp only [ievalT, ieval, chg_fst, sliceT_fst]
  | .sliceStep c a b s, cur, env => by
    simp only [ievalT, ieval, chg_fst, bindR_fst, sliceStepT_fst, ievalT_fst root c]
  | .sliceStepCurrent a b s, cur, env => by simp only [ievalT, ieval, chg_fst, sliceStepT_fst]
  | .groupBy a e, cur, env => by
    simp only [ievalT, ieval, chg_fst, bindR_fst, groupByT_fst, ievalT_fst root a, ievalT_fst root e]
  | .map e a, cur, env => by
    simp only [ievalT, ieval, chg_fst, bindR_fst, mapArrayT_fst, ievalT_fst root a, ievalT_fst root e]
  | .maxBy a e, cur, env => by
    simp only [ievalT, ieval, chg_fst, bindR_fst, arrayMaxByT_fst, ievalT_fst root a, ievalT_fst root e]
  | .minBy a e, cur, env => by
    simp only [ievalT, ieval, chg_fst, bindR_fst, arrayMinByT_fst, ievalT_fst root a, ievalT_fst root e]
  | .sortBy a e, cur, env => by
    simp only [ievalT, ieval, chg_fst, bindR_fst, sortArrayByT_fst, ievalT_fst root a, ievalT_fst root e]
  | .merge args, cur, env => by
    simp only [ievalT, ieval, chg_fst, bindR_fst, pure_fst, ievalMergeT_fst root args]; rfl
  | .notNull args, cur, env => by
    simp only [ievalT, ieval, chg_fst, ievalNotNullT_fst root args]
  | .zip args, cur, env => by
    simp only [ievalT, ieval, chg_fst, bindR_fst, zipTailT_fst, ievalZipT_fst root args]
    apply Res.bind_congr
    intro vs
    apply Res.bind_congr
    intro cols
    cases cols <;> rfl
theorem ievalListT_fst (root : Val) : (ns : List INode) → (cur : Val) → (env : Env) →
    (ievalListT root ns cur env).1 = ievalList root ns cur env
  | [], cur, env => by simp only [ievalListT, ievalList, pure_fst]
  | n :: ns, cur, env => by
    simp only [ievalListT, ievalList, chg_fst, bindR_fst, pure_fst, ievalT_fst root n, ievalListT_fst root ns]; rfl
theorem ievalFieldsT_fst (root : Val) : (fs : List (Bytes × INode)) → (cur : Val) → (env : Env) →
    (ievalFieldsT root fs cur env).1 = ievalFields root fs cur env
  | [], cur, env => by simp only [ievalFieldsT, ievalFields, pure_fst]
  | (k, n) :: rest, cur, env => by
    simp only [ievalFieldsT, ievalFields, fieldStepT, ievalT_fst root n, ievalFieldsT_fst root rest]
theorem ievalMergeT_fst (root : Val) : (ns : List INode) → (cur : Val) → (env : Env) → (acc : List (Bytes × Val)) →
    (ievalMergeT root ns cur env acc).1 = ievalMerge root ns cur env acc
  | [], cur, env, acc => by simp only [ievalMergeT, ievalMerge, pure_fst]
  | n :: ns, cur, env, acc => by
    simp only [ievalMergeT, ievalMerge, chg_fst, bindR_fst, ievalT_fst root n]
    apply Res.bind_congr
    intro v
    cases v <;> simp only [chg_fst, pure_fst, ievalMergeT_fst root ns]
theorem ievalNotNullT_fst (root : Val) : (ns : List INode) → (cur : Val) → (env : Env) →
    (ievalNotNullT root ns cur env).1 = ievalNotNull root ns cur env
  | [], cur, env => by simp only [ievalNotNullT, ievalNotNull, pure_fst]
  | n :: ns, cur, env => by
    simp only [ievalNotNullT, ievalNotNull, chg_fst, bindR_fst, apply_ite T.val, pure_fst, ievalT_fst root n,
      ievalNotNullT_fst root ns]; rfl
theorem ievalZipT_fst (root : Val) : (ns : List INode) → (cur : Val) → (env : Env) →
    (ievalZipT root ns cur env).1 = ievalZip root ns cur env
  | [], cur, env => by simp only [ievalZipT, ievalZip, pure_fst]
  | n :: ns, cur, env => by
    simp only [ievalZipT, ievalZip, chg_fst, bindR_fst, ievalT_fst root n]
    apply Res.bind_congr
    intro v
    cases v <;> simp only [bindR_fst, pure_fst, ievalZipT_fst root ns] <;> rfl
end


/-! ## (2) the ticks are bounded by the measure -/

theorem evalCost_le (fT : Val → T (Res Val)) (g : Val → Nat) (h : ∀ x, (fT x).2 ≤ 12 * g x) (xs : List Val) :
    evalCost fT xs ≤ 12 * sumMap g xs := sumMap_le _ _ 12 xs h

theorem filterArrayT_S (cT : Val → T (Res Val)) (g : Val → Nat) (v : Val) (h : ∀ x, (cT x).2 ≤ 12 * g x) :
    (filterArrayT cT v).2 ≤ 12 * loopS g (elems v) := by
  have h2 := evalCost_le cT g h (elems v)
  cases v <;> simp only [filterArrayT, elems, loopS, pure_snd, Nat.zero_le]
  rename_i t xs
  have := filterArrayT_snd_le cT t xs
  simp only [filterArrayT, elems] at this h2; omega

theorem filterAndProjectArrayT_S (cT fT : Val → T (Res Val)) (g1 g2 : Val → Nat) (v : Val)
    (h1 : ∀ x, (cT x).2 ≤ 12 * g1 x) (h2 : ∀ x, (fT x).2 ≤ 12 * g2 x) :
    (filterAndProjectArrayT cT fT v).2 ≤ 12 * loopS (fun x => g1 x + g2 x) (elems v) := by
  have e1 := evalCost_le cT g1 h1 (elems v)
  have e2 := evalCost_le fT g2 h2 (elems v)
  have e3 : sumMap (fun x => g1 x + g2 x) (elems v) = sumMap g1 (elems v) + sumMap g2 (elems v) := by
    induction (elems v) with
    | nil => rfl
    | cons x xs ih => simp only [sumMap_cons, ih]; omega
  cases v <;> simp only [filterAndProjectArrayT, elems, loopS, pure_snd, Nat.zero_le]
  rename_i t xs
  have := filterAndProjectArrayT_snd_le cT fT t xs
  simp only [filterAndProjectArrayT, elems] at this e1 e2 e3; omega

theorem projectArrayT_S (fT : Val → T (Res Val)) (g : Val → Nat) (v : Val) (h : ∀ x, (fT x).2 ≤ 12 * g x) :
    (projectArrayT fT v).2 ≤ 12 * loopS g (elems v) := by
  have h2 := evalCost_le fT g h (elems v)
  cases v <;> simp only [projectArrayT, elems, loopS, pure_snd, Nat.zero_le]
  rename_i t xs
  have := projectArrayT_snd_le fT t xs
  simp only [projectArrayT, elems] at this h2; omega

theorem projectObjectT_S (fT : Val → T (Res Val)) (g : Val → Nat) (v : Val) (h : ∀ x, (fT x).2 ≤ 12 * g x) :
    (projectObjectT fT v).2 ≤ 12 * loopS g (members v) := by
  have h2 := evalCost_le fT g h (members v)
  have := projectObjectT_snd_le fT v
  simp only [loopS]; omega

theorem mapArrayT_S (fT : Val → T (Res Val)) (g : Val → Nat) (v : Val) (h : ∀ x, (fT x).2 ≤ 12 * g x) :
    (mapArrayT fT v).2 ≤ 12 * loopS g (elems v) := by
  have h2 := evalCost_le fT g h (elems v)
  cases v <;> simp only [mapArrayT, elems, loopS, pure_snd, Nat.zero_le]
  rename_i t xs
  have := mapArrayT_snd_le fT t xs
  simp only [mapArrayT, elems] at this h2; omega

theorem groupByT_S (fT : Val → T (Res Val)) (g : Val → Nat) (v : Val) (h : ∀ x, (fT x).2 ≤ 12 * g x) :
    (groupByT fT v).2 ≤ 12 * loopS g (elems v) := by
  have h2 := evalCost_le fT g h (elems v)
  have := groupByT_snd_le fT v
  simp only [loopS]; omega

theorem sortArrayByT_S (fT : Val → T (Res Val)) (g : Val → Nat) (v : Val) (h : ∀ x, (fT x).2 ≤ 12 * g x) :
    (sortArrayByT fT v).2 ≤ 12 * loopS g (elems v) := by
  have h2 := evalCost_le fT g h (elems v)
  cases v <;> simp only [sortArrayByT, elems, loopS, pure_snd, Nat.zero_le]
  rename_i t xs
  have := sortArrayByT_snd_le fT t xs
  simp only [sortArrayByT, elems] at this h2; omega

theorem arrayPickByT_S (better : Key → Key → Bool) (fT : Val → T (Res Val)) (g : Val → Nat) (v : Val)
    (h : ∀ x, (fT x).2 ≤ 12 * g x) : (arrayPickByT better fT v).2 ≤ 12 * loopS g (elems v) := by
  have h2 := evalCost_le fT g h (elems v)
  cases v <;> simp only [arrayPickByT, elems, loopS, pure_snd, Nat.zero_le]
  rename_i t xs
  have := arrayPickByT_snd_le better fT t xs
  simp only [arrayPickByT, elems] at this h2; omega

theorem flattenForProject_length_le : ∀ xs : List Val, xs.length + (flattenForProject xs).length ≤ 2 * vsizeL xs
  | [] => by simp [flattenForProject, vsizeL]
  | x :: xs => by
    have ih := flattenForProject_length_le xs
    have := vsize_pos x
    cases x <;> simp only [flattenForProject, List.length_cons, List.length_append, vsizeL] <;> try omega
    rename_i t ys
    have := length_le_vsizeL ys
    simp only [vsize]; omega

theorem flattenAndProjectArrayT_S (fT : Val → T (Res Val)) (g : Val → Nat) (v : Val) (h : ∀ x, (fT x).2 ≤ 12 * g x) :
    (flattenAndProjectArrayT fT v).2 ≤ 12 * (vsize v + sumMap g (flatElems v)) := by
  have h2 := evalCost_le fT g h (flatElems v)
  cases v <;> simp only [flattenAndProjectArrayT, flatElems, pure_snd, Nat.zero_le]
  rename_i t xs
  have := flattenAndProjectArrayT_snd_le fT t xs
  have h3 := flattenForProject_length_le xs
  simp only [flattenAndProjectArrayT, flatElems, vsize] at this h2 ⊢; omega

theorem flattenInnerCount_le : ∀ xs : List Val, xs.length + flattenInnerCount xs ≤ vsizeL xs
  | [] => by simp [flattenInnerCount, vsizeL]
  | x :: xs => by
    have ih := flattenInnerCount_le xs
    have := vsize_pos x
    cases x <;> simp only [flattenInnerCount, List.length_cons, vsizeL] <;> try omega
    rename_i t ys
    have := length_le_vsizeL ys
    simp only [vsize]; omega

theorem flattenT_S (v : Val) : (flattenT v).2 ≤ 3 * vsize v := by
  cases v <;> simp only [flattenT, pure_snd, Nat.zero_le]
  rename_i t xs
  have := flattenT_snd_le t xs
  have := flattenInnerCount_le xs
  simp only [flattenT, vsize] at *; omega

theorem pruneArrayT_S (v : Val) : (pruneArrayT v).2 ≤ 2 * vsize v := by
  cases v <;> simp only [pruneArrayT, pure_snd, Nat.zero_le]
  rename_i t xs
  have := pruneArrayT_snd_le t xs
  have := length_le_vsizeL xs
  simp only [pruneArrayT, vsize] at *; omega

theorem objectValuesT_S (v : Val) : (objectValuesT v).2 ≤ 3 * vsize v := by
  have := objectValuesT_snd_le v
  have := members_length_le v
  omega

theorem sliceT_S (v : Val) (a b : Int) : (sliceT v a b).2 ≤ 3 * vsize v := by
  have := sliceT_snd_le v a b
  cases v <;> simp only [vsize] at * <;> try omega
  rename_i s
  have := C09.runeCount_le_length _ s (Nat.le_refl _); omega

theorem sliceStepT_S (v : Val) (a b c : Int) : (sliceStepT v a b c).2 ≤ 9 * vsize v := by
  have := sliceStepT_snd_le v a b c
  cases v <;> simp only [vsize] at * <;> try omega
  rename_i t xs
  have := length_le_vsizeL xs; omega

set_option maxRecDepth 2000 in
mutual
/-- THE COST BOUND: the ticks of the instrumented evaluator are at most `12 · ievalS` — every node, every current
    value, every root document, every environment, every integer literal in the expression -/
theorem ievalT_cost (root : Val) : (n : INode) → (cur : Val) → (env : Env) →
    (ievalT root n cur env).2 ≤ 12 * ievalS root n cur env
  | .lit v, cur, env => by simp [ievalT, ievalS]
  | .current, cur, env => by simp [ievalT, ievalS]
  | .root, cur, env => by simp [ievalT, ievalS]
  | .field k, cur, env => by simp [ievalT, ievalS]
  | .variable x, cur, env => by simp [ievalT, ievalS]
  | .binop op l r, cur, env => by
    simp only [ievalT, ievalS, chg_snd, bindR_snd, ievalT_fst]
    have h1 := ievalT_cost root l cur env
    have h2 := ievalT_cost root r cur env
    cases ieval root l cur env <;> simp only [onOk] <;> try omega
    rename_i a
    cases ieval root r cur env <;> simp only [onOk] <;> try omega
    rename_i b
    have := applyBinOpT_cost op a b
    omega
  | .and l r, cur, env => by
    simp only [ievalT, ievalS, chg_snd, bindR_snd, ievalT_fst, apply_ite T.cost, pure_snd]
    have h1 := ievalT_cost root l cur env
    have h2 := ievalT_cost root r cur env
    cases ieval root l cur env <;> simp only [onOk] <;> try omega
    split <;> omega
  | .or l r, cur, env => by
    simp only [ievalT, ievalS, chg_snd, bindR_snd, ievalT_fst, apply_ite T.cost, pure_snd]
    have h1 := ievalT_cost root l cur env
    have h2 := ievalT_cost root r cur env
    cases ieval root l cur env <;> simp only [onOk] <;> try omega
    split <;> omega
  | .not c, cur, env => by
    simp only [ievalT, ievalS, chg_snd, bindR_snd, ievalT_fst, pure_snd]
    have h1 := ievalT_cost root c cur env
    cases ieval root c cur env <;> simp only [onOk] <;> omega
  | .negate c, cur, env => by
    simp only [ievalT, ievalS, chg_snd, bindR_snd, ievalT_fst, pure_snd]
    have h1 := ievalT_cost root c cur env
    cases ieval root c cur env <;> simp only [onOk] <;> omega
  | .assertNumber c, cur, env => by
    simp only [ievalT, ievalS, chg_snd, bindR_snd, ievalT_fst, pure_snd]
    have h1 := ievalT_cost root c cur env
    cases ieval root c cur env <;> simp only [onOk] <;> omega
  | .call f args, cur, env => by
    simp only [ievalT, ievalS, chg_snd, bindR_snd, ievalListT_fst]
    have h1 := ievalListT_cost root args cur env
    cases ievalList root args cur env <;> simp only [onOk] <;> try omega
    rename_i vs
    have := applyFnT_cost f vs
    simp only [fnS]; omega
  | .defineVariables vars child, cur, env => by
    simp only [ievalT, ievalS, chg_snd, bindR_snd, ievalFieldsT_fst]
    have h1 := ievalFieldsT_cost root vars cur env
    cases ievalFields root vars cur env <;> simp only [onOk] <;> try omega
    rename_i bs
    have := ievalT_cost root child cur (bs ++ env)
    omega
  | .filter c f, cur, env => by
    simp only [ievalT, ievalS, chg_snd, bindR_snd, ievalT_fst]
    have h1 := ievalT_cost root c cur env
    cases ieval root c cur env <;> simp only [onOk] <;> try omega
    rename_i a
    have := filterArrayT_S (fun v => ievalT root f v env) (fun v => ievalS root f v env) a
      (fun v => ievalT_cost root f v env)
    omega
  | .filterCurrent f, cur, env => by
    simp only [ievalT, ievalS, chg_snd]
    have := filterArrayT_S (fun v => ievalT root f v env) (fun v => ievalS root f v env) cur
      (fun v => ievalT_cost root f v env)
    omega
  | .filterAndProject l f r, cur, env => by
    simp only [ievalT, ievalS, chg_snd, bindR_snd, ievalT_fst]
    have h1 := ievalT_cost root l cur env
    cases ieval root l cur env <;> simp only [onOk] <;> try omega
    rename_i a
    have := filterAndProjectArrayT_S (fun v => ievalT root f v env) (fun v => ievalT root r v env)
      (fun v => ievalS root f v env) (fun v => ievalS root r v env) a
      (fun v => ievalT_cost root f v env) (fun v => ievalT_cost root r v env)
    omega
  | .filterAndProjectCurrent f c, cur, env => by
    simp only [ievalT, ievalS, chg_snd]
    have := filterAndProjectArrayT_S (fun v => ievalT root f v env) (fun v => ievalT root c v env)
      (fun v => ievalS root f v env) (fun v => ievalS root c v env) cur
      (fun v => ievalT_cost root f v env) (fun v => ievalT_cost root c v env)
    omega
  | .flatten c, cur, env => by
    simp only [ievalT, ievalS, chg_snd, bindR_snd, ievalT_fst, okT_snd]
    have h1 := ievalT_cost root c cur env
    cases ieval root c cur env <;> simp only [onOk] <;> try omega
    rename_i a
    have := flattenT_S a
    omega
  | .flattenCurrent, cur, env => by
    simp only [ievalT, ievalS, chg_snd, okT_snd]
    have := flattenT_S cur
    omega
  | .flattenAndProject l r, cur, env => by
    simp only [ievalT, ievalS, chg_snd, bindR_snd, ievalT_fst]
    have h1 := ievalT_cost root l cur env
    cases ieval root l cur env <;> simp only [onOk] <;> try omega
    rename_i a
    have := flattenAndProjectArrayT_S (fun v => ievalT root r v env) (fun v => ievalS root r v env) a
      (fun v => ievalT_cost root r v env)
    omega
  | .flattenAndProjectCurrent c, cur, env => by
    simp only [ievalT, ievalS, chg_snd]
    have := flattenAndProjectArrayT_S (fun v => ievalT root c v env) (fun v => ievalS root c v env) cur
      (fun v => ievalT_cost root c v env)
    omega
  | .index c i, cur, env => by
    simp only [ievalT, ievalS, chg_snd, bindR_snd, ievalT_fst, indexT_snd]
    have h1 := ievalT_cost root c cur env
    cases ieval root c cur env <;> simp only [onOk] <;> omega
  | .indexCurrent i, cur, env => by simp [ievalT, ievalS, indexT_snd]
  | .smallIndexCurrent i, cur, env => by simp [ievalT, ievalS, indexT_snd]
  | .objectValues c, cur, env => by
    simp only [ievalT, ievalS, chg_snd, bindR_snd, ievalT_fst, okT_snd]
    have h1 := ievalT_cost root c cur env
    cases ieval root c cur env <;> simp only [onOk] <;> try omega
    rename_i a
    have := objectValuesT_S a
    omega
  | .objectValuesCurrent, cur, env => by
    simp only [ievalT, ievalS, chg_snd, okT_snd]
    have := objectValuesT_S cur
    omega
  | .pipe l r, cur, env => by
    simp only [ievalT, ievalS, chg_snd, bindR_snd, ievalT_fst]
    have h1 := ievalT_cost root l cur env
    cases ieval root l cur env <;> simp only [onOk] <;> try omega
    rename_i a
    have := ievalT_cost root r a env
    omega
  | .projectArray l r, cur, env => by
    simp only [ievalT, ievalS, chg_snd, bindR_snd, ievalT_fst]
    have h1 := ievalT_cost root l cur env
    cases ieval root l cur env <;> simp only [onOk] <;> try omega
    rename_i a
    have h2 := projectArrayT_S (fun v => ievalT root r v env) (fun v => ievalS root r v env) a
      (fun v => ievalT_cost root r v env)
    have h3 := ievalT_cost root r a env
    cases a <;> simp only [apply_ite T.cost] <;> try omega
    split
    · omega
    · simp only [projectArrayT, pure_snd]; omega
  | .projectArrayCurrent c, cur, env => by
    simp only [ievalT, ievalS, chg_snd]
    have := projectArrayT_S (fun v => ievalT root c v env) (fun v => ievalS root c v env) cur
      (fun v => ievalT_cost root c v env)
    omega
  | .projectObject l r, cur, env => by
    simp only [ievalT, ievalS, chg_snd, bindR_snd, ievalT_fst]
    have h1 := ievalT_cost root l cur env
    cases ieval root l cur env <;> simp only [onOk] <;> try omega
    rename_i a
    have := projectObjectT_S (fun v => ievalT root r v env) (fun v => ievalS root r v env) a
      (fun v => ievalT_cost root r v env)
    omega
  | .projectObjectCurrent c, cur, env => by
    simp only [ievalT, ievalS, chg_snd]
    have := projectObjectT_S (fun v => ievalT root c v env) (fun v => ievalS root c v env) cur
      (fun v => ievalT_cost root c v env)
    omega
  | .pruneArray c, cur, env => by
    simp only [ievalT, ievalS, chg_snd, bindR_snd, ievalT_fst, okT_snd]
    have h1 := ievalT_cost root c cur env
    cases ieval root c cur env <;> simp only [onOk] <;> try omega
    rename_i a
    have := pruneArrayT_S a
    omega
  | .pruneArrayCurrent, cur, env => by
    simp only [ievalT, ievalS, chg_snd, okT_snd]
    have := pruneArrayT_S cur
    omega
  | .selectArray c fs, cur, env => by
    simp only [ievalT, ievalS, chg_snd, bindR_snd, ievalT_fst, apply_ite T.cost, pure_snd, ievalListT_fst]
    have h1 := ievalT_cost root c cur env
    cases ieval root c cur env <;> simp only [onOk] <;> try omega
    rename_i a
    have h2 := ievalListT_cost root fs a env
    split
    · omega
    · cases ievalList root fs a env <;> simp only [onOk] <;> omega
  | .selectArrayCurrent fs, cur, env => by
    simp only [ievalT, ievalS, chg_snd, bindR_snd, apply_ite T.cost, pure_snd, ievalListT_fst]
    have h2 := ievalListT_cost root fs cur env
    split
    · omega
    · cases ievalList root fs cur env <;> simp only [onOk] <;> omega
  | .selectArraySingle c f, cur, env => by
    simp only [ievalT, ievalS, chg_snd, bindR_snd, ievalT_fst, apply_ite T.cost, pure_snd]
    have h1 := ievalT_cost root c cur env
    cases ieval root c cur env <;> simp only [onOk] <;> try omega
    rename_i a
    have h2 := ievalT_cost root f a env
    split
    · omega
    · cases ieval root f a env <;> simp only [onOk] <;> omega
  | .selectArraySingleCurrent f, cur, env => by
    simp only [ievalT, ievalS, chg_snd, bindR_snd, ievalT_fst, pure_snd]
    have h2 := ievalT_cost root f cur env
    cases ieval root f cur env <;> simp only [onOk] <;> omega
  | .selectObject c fs, cur, env => by
    simp only [ievalT, ievalS, chg_snd, bindR_snd, ievalT_fst, apply_ite T.cost, pure_snd, ievalFieldsT_fst]
    have h1 := ievalT_cost root c cur env
    cases ieval root c cur env <;> simp only [onOk] <;> try omega
    rename_i a
    have h2 := ievalFieldsT_cost root fs a env
    split
    · omega
    · cases ievalFields root fs a env <;> simp only [onOk] <;> omega
  | .selectObjectCurrent fs, cur, env => by
    simp only [ievalT, ievalS, chg_snd, bindR_snd, apply_ite T.cost, pure_snd, ievalFieldsT_fst]
    have h2 := ievalFieldsT_cost root fs cur env
    split
    · omega
    · cases ievalFields root fs cur env <;> simp only [onOk] <;> omega
  | .selectObjectSingle c k f, cur, env => by
    simp only [ievalT, ievalS, chg_snd, bindR_snd, ievalT_fst, apply_ite T.cost, pure_snd]
    have h1 := ievalT_cost root c cur env
    cases ieval root c cur env <;> simp only [onOk] <;> try omega
    rename_i a
    have h2 := ievalT_cost root f a env
    split
    · omega
    · cases ieval root f a env <;> simp only [onOk] <;> omega
  | .selectObjectSingleCurrent k f, cur, env => by
    simp only [ievalT, ievalS, chg_snd, bindR_snd, ievalT_fst, pure_snd]
    have h2 := ievalT_cost root f cur env
    cases ieval root f cur env <;> simp only [onOk] <;> omega
  | .slice c a b, cur, env => by
    simp only [ievalT, ievalS, chg_snd, bindR_snd, ievalT_fst]
    have h1 := ievalT_cost root c cur env
    cases ieval root c cur env <;> simp only [onOk] <;> try omega
    rename_i v
    have := sliceT_S v a b
    omega
  | .sliceCurrent a b, cur, env => by
    simp only [ievalT, ievalS, chg_snd]
    have := sliceT_S cur a b
    omega
  | .sliceStep c a b s, cur, env => by
    simp only [ievalT, ievalS, chg_snd, bindR_snd, ievalT_fst]
    have h1 := ievalT_cost root c cur env
    cases ieval root c cur env <;> simp only [onOk] <;> try omega
    rename_i v
    have := sliceStepT_S v a b s
    omega
  | .sliceStepCurrent a b s, cur, env => by
    simp only [ievalT, ievalS, chg_snd]
    have := sliceStepT_S cur a b s
    omega
  | .groupBy a e, cur, env => by
    simp only [ievalT, ievalS, chg_snd, bindR_snd, ievalT_fst]
    have h1 := ievalT_cost root a cur env
    cases ieval root a cur env <;> simp only [onOk] <;> try omega
    rename_i v
    have := groupByT_S (fun x => ievalT root e x env) (fun x => ievalS root e x env) v
      (fun x => ievalT_cost root e x env)
    omega
  | .map e a, cur, env => by
    simp only [ievalT, ievalS, chg_snd, bindR_snd, ievalT_fst]
    have h1 := ievalT_cost root a cur env
    cases ieval root a cur env <;> simp only [onOk] <;> try omega
    rename_i v
    have := mapArrayT_S (fun x => ievalT root e x env) (fun x => ievalS root e x env) v
      (fun x => ievalT_cost root e x env)
    omega
  | .maxBy a e, cur, env => by
    simp only [ievalT, ievalS, chg_snd, bindR_snd, ievalT_fst]
    have h1 := ievalT_cost root a cur env
    cases ieval root a cur env <;> simp only [onOk] <;> try omega
    rename_i v
    have := arrayPickByT_S Key.gtMax (fun x => ievalT root e x env) (fun x => ievalS root e x env) v
      (fun x => ievalT_cost root e x env)
    simp only [arrayMaxByT]; omega
  | .minBy a e, cur, env => by
    simp only [ievalT, ievalS, chg_snd, bindR_snd, ievalT_fst]
    have h1 := ievalT_cost root a cur env
    cases ieval root a cur env <;> simp only [onOk] <;> try omega
    rename_i v
    have := arrayPickByT_S Key.ltMin (fun x => ievalT root e x env) (fun x => ievalS root e x env) v
      (fun x => ievalT_cost root e x env)
    simp only [arrayMinByT]; omega
  | .sortBy a e, cur, env => by
    simp only [ievalT, ievalS, chg_snd, bindR_snd, ievalT_fst]
    have h1 := ievalT_cost root a cur env
    cases ieval root a cur env <;> simp only [onOk] <;> try omega
    rename_i v
    have := sortArrayByT_S (fun x => ievalT root e x env) (fun x => ievalS root e x env) v
      (fun x => ievalT_cost root e x env)
    omega
  | .merge args, cur, env => by
    simp only [ievalT, ievalS, chg_snd, bindR_snd, pure_snd, ievalMergeT_fst]
    have h1 := ievalMergeT_cost root args cur env []
    cases ievalMerge root args cur env [] <;> simp only [onOk] <;> omega
  | .notNull args, cur, env => by
    simp only [ievalT, ievalS, chg_snd]
    have h1 := ievalNotNullT_cost root args cur env
    omega
  | .zip args, cur, env => by
    simp only [ievalT, ievalS, chg_snd, bindR_snd, ievalZipT_fst]
    have h1 := ievalZipT_cost root args cur env
    cases ievalZip root args cur env <;> simp only [onOk] <;> try omega
    rename_i vs
    have := zipTailT_snd_le vs
    omega
theorem ievalListT_cost (root : Val) : (ns : List INode) → (cur : Val) → (env : Env) →
    (ievalListT root ns cur env).2 ≤ 12 * ievalListS root ns cur env
  | [], cur, env => by simp [ievalListT, ievalListS]
  | n :: ns, cur, env => by
    simp only [ievalListT, ievalListS, chg_snd, bindR_snd, pure_snd, ievalT_fst, ievalListT_fst]
    have h1 := ievalT_cost root n cur env
    have h2 := ievalListT_cost root ns cur env
    cases ieval root n cur env <;> simp only [onOk] <;> try omega
    cases ievalList root ns cur env <;> simp only [onOk] <;> omega
theorem ievalFieldsT_cost (root : Val) : (fs : List (Bytes × INode)) → (cur : Val) → (env : Env) →
    (ievalFieldsT root fs cur env).2 ≤ 12 * ievalFieldsS root fs cur env
  | [], cur, env => by simp [ievalFieldsT, ievalFieldsS]
  | (k, n) :: rest, cur, env => by
    simp only [ievalFieldsT, ievalFieldsS, fieldStepT, mk_snd]
    have h1 := ievalT_cost root n cur env
    have h2 := ievalFieldsT_cost root rest cur env
    omega
theorem ievalMergeT_cost (root : Val) : (ns : List INode) → (cur : Val) → (env : Env) → (acc : List (Bytes × Val)) →
    (ievalMergeT root ns cur env acc).2 ≤ 12 * ievalMergeS root ns cur env
  | [], cur, env, acc => by simp [ievalMergeT, ievalMergeS]
  | n :: ns, cur, env, acc => by
    simp only [ievalMergeT, ievalMergeS, chg_snd, bindR_snd, ievalT_fst]
    have h1 := ievalT_cost root n cur env
    cases ieval root n cur env <;> simp only [onOk] <;> try omega
    rename_i v
    cases v <;> simp only [pure_snd, chg_snd, members, List.length_map] <;> try omega
    rename_i kvs
    have := ievalMergeT_cost root ns cur env (kvs.foldl (fun a kv => objInsert kv.1 kv.2 a) acc)
    omega
theorem ievalNotNullT_cost (root : Val) : (ns : List INode) → (cur : Val) → (env : Env) →
    (ievalNotNullT root ns cur env).2 ≤ 12 * ievalListS root ns cur env
  | [], cur, env => by simp [ievalNotNullT, ievalListS]
  | n :: ns, cur, env => by
    simp only [ievalNotNullT, ievalListS, chg_snd, bindR_snd, ievalT_fst, apply_ite T.cost, pure_snd]
    have h1 := ievalT_cost root n cur env
    have h2 := ievalNotNullT_cost root ns cur env
    cases ieval root n cur env <;> simp only [onOk] <;> try omega
    split <;> omega
theorem ievalZipT_cost (root : Val) : (ns : List INode) → (cur : Val) → (env : Env) →
    (ievalZipT root ns cur env).2 ≤ 12 * ievalListS root ns cur env
  | [], cur, env => by simp [ievalZipT, ievalListS]
  | n :: ns, cur, env => by
    simp only [ievalZipT, ievalListS, chg_snd, bindR_snd, ievalT_fst]
    have h1 := ievalT_cost root n cur env
    have h2 := ievalZipT_cost root ns cur env
    cases ieval root n cur env <;> simp only [onOk] <;> try omega
    rename_i v
    cases v <;> simp only [pure_snd, bindR_snd, ievalZipT_fst] <;> try omega
    cases ievalZip root ns cur env <;> simp only [onOk] <;> omega
end

end Jmes.C09E
