/-
  Helper lemmas for Jmes/Properties/C15B.lean, part 5: the oracle semantics against the model for expressions that
  enumerate object members — the mutual induction over the evaluator.

  `ieval_simE`: if the model's outcome is a value `r`, every run `ievalO π` yields a value that concretises `r`
  (`Conc`: equal up to the order of the arrays the model tagged `enum`), for every covered expression.
-/
import Jmes.Proofs.C15BKeysLemmas
namespace Jmes
open Invar

/-- constructs for which the oracle theorem is proved: every node type; among the eager builtins everything except
    those excluded by `Fn.coveredM` (`sum`, `avg`, `max`, `min`). -/
def INode.coveredE : INode → Bool
  | .call f _ => f.coveredM
  | _ => true

/-- per-node requirement: literals without map-ordered arrays, distinct member keys, a covered construct -/
def nodeOkE (n : INode) : Bool := INode.litOk (Val.Good true) n && INode.keysNodup n && INode.coveredE n

theorem nodeOkE_lit {v : Val} (h : nodeOkE (.lit v) = true) : v.Good true = true := by
  simpa [nodeOkE, INode.litOk, INode.keysNodup, INode.coveredE] using h
theorem nodeOkE_call {f : Fn} {args : List INode} (h : nodeOkE (.call f args) = true) : Fn.coveredM f = true := by
  simpa [nodeOkE, INode.litOk, INode.keysNodup, INode.coveredE] using h
theorem nodeOkE_selectObject {c : INode} {fs : List (Bytes × INode)} (h : nodeOkE (.selectObject c fs) = true) :
    (fs.map Prod.fst).Nodup := by
  simpa [nodeOkE, INode.litOk, INode.keysNodup, INode.coveredE] using h
theorem nodeOkE_selectObjectCurrent {fs : List (Bytes × INode)} (h : nodeOkE (.selectObjectCurrent fs) = true) :
    (fs.map Prod.fst).Nodup := by
  simpa [nodeOkE, INode.litOk, INode.keysNodup, INode.coveredE] using h
theorem nodeOkE_defineVariables {c : INode} {fs : List (Bytes × INode)}
    (h : nodeOkE (.defineVariables fs c) = true) : (fs.map Prod.fst).Nodup := by
  simpa [nodeOkE, INode.litOk, INode.keysNodup, INode.coveredE] using h

mutual
theorem ieval_simE {root root' : Val} (hroot : Conc root root') :
    ∀ (n : INode) (cur cur' : Val) (env env' : Env), n.all nodeOkE = true → Conc cur cur' → ConcF env env' →
      ∀ π : Oracle, SimE (ieval root n cur env) (ievalO π root' n cur' env')
  | .lit v, cur, cur', env, env', h, hc, hv, π => by
    simp only [INode.all] at h
    exact SimG.ok (conc_refl v (nodeOkE_lit h))
  | .current, cur, cur', env, env', h, hc, hv, π => SimG.ok hc
  | .root, cur, cur', env, env', h, hc, hv, π => SimG.ok hroot
  | .field k, cur, cur', env, env', h, hc, hv, π => SimG.ok (conc_field k hc)
  | .variable name, cur, cur', env, env', h, hc, hv, π => by
    simp only [ieval, ievalO, Env.get]
    rcases conc_objLookup name hv with ⟨h1, h2⟩ | ⟨x, x', h1, h2, hx⟩
    · rw [h1, h2]; exact SimG.err
    · rw [h1, h2]; exact SimG.ok hx
  | .binop op l r, cur, cur', env, env', h, hc, hv, π => by
    simp only [INode.all, Bool.and_eq_true] at h
    simp only [ieval, ievalO]
    exact SimG.bind (ieval_simE hroot l cur cur' env env' h.1.2 hc hv _) fun a a' ha =>
      SimG.bind (ieval_simE hroot r cur cur' env env' h.2 hc hv _) fun b b' hb => applyBinOp_simE op ha hb
  | .and l r, cur, cur', env, env', h, hc, hv, π => by
    simp only [INode.all, Bool.and_eq_true] at h
    simp only [ieval, ievalO]
    refine SimG.bind (ieval_simE hroot l cur cur' env env' h.1.2 hc hv _) fun a a' ha => ?_
    rw [conc_isTrue ha]
    cases hb : isTrue a <;> simp only [Bool.not_false, Bool.not_true, if_true, Bool.false_eq_true, if_false]
    · exact SimG.pure ha
    · exact ieval_simE hroot r cur cur' env env' h.2 hc hv _
  | .or l r, cur, cur', env, env', h, hc, hv, π => by
    simp only [INode.all, Bool.and_eq_true] at h
    simp only [ieval, ievalO]
    refine SimG.bind (ieval_simE hroot l cur cur' env env' h.1.2 hc hv _) fun a a' ha => ?_
    rw [conc_isTrue ha]
    cases hb : isTrue a <;> simp only [if_true, Bool.false_eq_true, if_false]
    · exact ieval_simE hroot r cur cur' env env' h.2 hc hv _
    · exact SimG.pure ha
  | .not c, cur, cur', env, env', h, hc, hv, π => by
    simp only [INode.all, Bool.and_eq_true] at h
    simp only [ieval, ievalO]
    refine SimG.bind (ieval_simE hroot c cur cur' env env' h.2 hc hv _) fun a a' ha => ?_
    rw [conc_isTrue ha]
    exact SimG.pure (conc_bool _)
  | .negate c, cur, cur', env, env', h, hc, hv, π => by
    simp only [INode.all, Bool.and_eq_true] at h
    simp only [ieval, ievalO]
    exact SimG.bind (ieval_simE hroot c cur cur' env env' h.2 hc hv _) fun a a' ha => SimG.pure (negateVal_conc ha)
  | .assertNumber c, cur, cur', env, env', h, hc, hv, π => by
    simp only [INode.all, Bool.and_eq_true] at h
    simp only [ieval, ievalO]
    refine SimG.bind (ieval_simE hroot c cur cur' env env' h.2 hc hv _) fun a a' ha => ?_
    rw [conc_isNumber ha]
    cases isNumber a
    · exact SimG.pure conc_null
    · exact SimG.pure ha
  | .call f args, cur, cur', env, env', h, hc, hv, π => by
    simp only [INode.all, Bool.and_eq_true] at h
    simp only [ieval, ievalO]
    exact SimG.bind (ievalList_simE hroot args cur cur' env env' h.2 hc hv _) fun vs vs' hvs =>
      applyFn_simM _ f (nodeOkE_call h.1) hvs
  | .defineVariables vars child, cur, cur', env, env', h, hc, hv, π => by
    simp only [INode.all, Bool.and_eq_true] at h
    simp only [ieval, ievalO]
    rw [ievalFields_eq_combineAll]
    refine SimG.bind (members_simE (ievalMembers_simE hroot vars cur cur' env env' h.1.2 hc hv _)
      (by rw [memberOutcomes_keys]; exact nodeOkE_defineVariables h.1.1) (Oracle.order_perm _ _)) fun bs bs' hbs =>
      ieval_simE hroot child cur cur' (bs ++ env) (bs' ++ env') h.2 hc (concF_append hbs hv) _
  | .filter c f, cur, cur', env, env', h, hc, hv, π => by
    simp only [INode.all, Bool.and_eq_true] at h
    simp only [ieval, ievalO]
    exact SimG.bind (ieval_simE hroot c cur cur' env env' h.1.2 hc hv _) fun a a' ha =>
      filterArray_simE (fun i x x' hx => ieval_simE hroot f x x' env env' h.2 hx hv _) ha
  | .filterCurrent f, cur, cur', env, env', h, hc, hv, π => by
    simp only [INode.all, Bool.and_eq_true] at h
    simp only [ieval, ievalO]
    exact filterArray_simE (fun i x x' hx => ieval_simE hroot f x x' env env' h.2 hx hv _) hc
  | .filterAndProject l f r, cur, cur', env, env', h, hc, hv, π => by
    simp only [INode.all, Bool.and_eq_true] at h
    simp only [ieval, ievalO]
    exact SimG.bind (ieval_simE hroot l cur cur' env env' h.1.1.2 hc hv _) fun a a' ha =>
      filterAndProjectArray_simE (fun i x x' hx => ieval_simE hroot f x x' env env' h.1.2 hx hv _)
        (fun i x x' hx => ieval_simE hroot r x x' env env' h.2 hx hv _) ha
  | .filterAndProjectCurrent f c, cur, cur', env, env', h, hc, hv, π => by
    simp only [INode.all, Bool.and_eq_true] at h
    simp only [ieval, ievalO]
    exact filterAndProjectArray_simE (fun i x x' hx => ieval_simE hroot f x x' env env' h.1.2 hx hv _)
        (fun i x x' hx => ieval_simE hroot c x x' env env' h.2 hx hv _) hc
  | .flatten c, cur, cur', env, env', h, hc, hv, π => by
    simp only [INode.all, Bool.and_eq_true] at h
    simp only [ieval, ievalO]
    exact SimG.bind (ieval_simE hroot c cur cur' env env' h.2 hc hv _) fun a a' ha => SimG.pure (conc_flatten ha)
  | .flattenCurrent, cur, cur', env, env', h, hc, hv, π => SimG.ok (conc_flatten hc)
  | .flattenAndProject l r, cur, cur', env, env', h, hc, hv, π => by
    simp only [INode.all, Bool.and_eq_true] at h
    simp only [ieval, ievalO]
    exact SimG.bind (ieval_simE hroot l cur cur' env env' h.1.2 hc hv _) fun a a' ha =>
      flattenAndProjectArray_simE (fun i x x' hx => ieval_simE hroot r x x' env env' h.2 hx hv _) ha
  | .flattenAndProjectCurrent c, cur, cur', env, env', h, hc, hv, π => by
    simp only [INode.all, Bool.and_eq_true] at h
    simp only [ieval, ievalO]
    exact flattenAndProjectArray_simE (fun i x x' hx => ieval_simE hroot c x x' env env' h.2 hx hv _) hc
  | .index c i, cur, cur', env, env', h, hc, hv, π => by
    simp only [INode.all, Bool.and_eq_true] at h
    simp only [ieval, ievalO]
    exact SimG.bind (ieval_simE hroot c cur cur' env env' h.2 hc hv _) fun a a' ha => index_simE ha i
  | .indexCurrent i, cur, cur', env, env', h, hc, hv, π => index_simE hc i
  | .smallIndexCurrent i, cur, cur', env, env', h, hc, hv, π => index_simE hc _
  | .objectValues c, cur, cur', env, env', h, hc, hv, π => by
    simp only [INode.all, Bool.and_eq_true] at h
    simp only [ieval, ievalO]
    exact SimG.bind (ieval_simE hroot c cur cur' env env' h.2 hc hv _) fun a a' ha =>
      SimG.pure (conc_objectValues _ ha)
  | .objectValuesCurrent, cur, cur', env, env', h, hc, hv, π => SimG.ok (conc_objectValues _ hc)
  | .pipe l r, cur, cur', env, env', h, hc, hv, π => by
    simp only [INode.all, Bool.and_eq_true] at h
    simp only [ieval, ievalO]
    exact SimG.bind (ieval_simE hroot l cur cur' env env' h.1.2 hc hv _) fun a a' ha =>
      ieval_simE hroot r a a' env env' h.2 ha hv _
  | .projectArray l r, cur, cur', env, env', h, hc, hv, π => by
    simp only [INode.all, Bool.and_eq_true] at h
    simp only [ieval, ievalO]
    refine SimG.bind (ieval_simE hroot l cur cur' env env' h.1.2 hc hv _) fun a a' ha => ?_
    cases a with
    | str s =>
      have e : a' = .str s := by simpa [Conc] using ha
      subst e
      cases hs : l.isSlice <;> simp only [if_true, Bool.false_eq_true, if_false]
      · exact projectArray_simE (fun i x x' hx => ieval_simE hroot r x x' env env' h.2 hx hv _) ha
      · exact ieval_simE hroot r _ _ env env' h.2 ha hv _
    | arr t xs =>
      obtain ⟨t', xs', rfl, _⟩ := conc_arr ha
      exact projectArray_simE (fun i x x' hx => ieval_simE hroot r x x' env env' h.2 hx hv _) ha
    | obj kvs =>
      obtain ⟨kvs', rfl, _⟩ := conc_obj ha
      exact projectArray_simE (fun i x x' hx => ieval_simE hroot r x x' env env' h.2 hx hv _) ha
    | null | bool _ | num _ | foreign _ =>
      have e := conc_flat ha (by intro t xs; simp) (by intro kvs; simp)
      subst e
      exact projectArray_simE (fun i x x' hx => ieval_simE hroot r x x' env env' h.2 hx hv _) ha
  | .projectArrayCurrent c, cur, cur', env, env', h, hc, hv, π => by
    simp only [INode.all, Bool.and_eq_true] at h
    simp only [ieval, ievalO]
    exact projectArray_simE (fun i x x' hx => ieval_simE hroot c x x' env env' h.2 hx hv _) hc
  | .projectObject l r, cur, cur', env, env', h, hc, hv, π => by
    simp only [INode.all, Bool.and_eq_true] at h
    simp only [ieval, ievalO]
    exact SimG.bind (ieval_simE hroot l cur cur' env env' h.1.2 hc hv _) fun a a' ha =>
      projectObject_simE _ (fun i x x' hx => ieval_simE hroot r x x' env env' h.2 hx hv _) ha
  | .projectObjectCurrent c, cur, cur', env, env', h, hc, hv, π => by
    simp only [INode.all, Bool.and_eq_true] at h
    simp only [ieval, ievalO]
    exact projectObject_simE _ (fun i x x' hx => ieval_simE hroot c x x' env env' h.2 hx hv _) hc
  | .pruneArray c, cur, cur', env, env', h, hc, hv, π => by
    simp only [INode.all, Bool.and_eq_true] at h
    simp only [ieval, ievalO]
    exact SimG.bind (ieval_simE hroot c cur cur' env env' h.2 hc hv _) fun a a' ha => SimG.pure (conc_pruneArray ha)
  | .pruneArrayCurrent, cur, cur', env, env', h, hc, hv, π => SimG.ok (conc_pruneArray hc)
  | .selectArray c fs, cur, cur', env, env', h, hc, hv, π => by
    simp only [INode.all, Bool.and_eq_true] at h
    simp only [ieval, ievalO]
    refine SimG.bind (ieval_simE hroot c cur cur' env env' h.1.2 hc hv _) fun a a' ha => ?_
    rw [conc_isNull ha]
    cases hn : a.isNull <;> simp only [if_true, Bool.false_eq_true, if_false]
    · exact SimG.bind (ievalList_simE hroot fs a a' env env' h.2 ha hv _) fun vs vs' hvs =>
        SimG.pure (conc_plainArr hvs)
    · exact SimG.pure conc_null
  | .selectArrayCurrent fs, cur, cur', env, env', h, hc, hv, π => by
    simp only [INode.all, Bool.and_eq_true] at h
    simp only [ieval, ievalO]
    rw [conc_isNull hc]
    cases hn : cur.isNull <;> simp only [if_true, Bool.false_eq_true, if_false]
    · exact SimG.bind (ievalList_simE hroot fs cur cur' env env' h.2 hc hv _) fun vs vs' hvs =>
        SimG.pure (conc_plainArr hvs)
    · exact SimG.ok conc_null
  | .selectArraySingle c f, cur, cur', env, env', h, hc, hv, π => by
    simp only [INode.all, Bool.and_eq_true] at h
    simp only [ieval, ievalO]
    refine SimG.bind (ieval_simE hroot c cur cur' env env' h.1.2 hc hv _) fun a a' ha => ?_
    rw [conc_isNull ha]
    cases hn : a.isNull <;> simp only [if_true, Bool.false_eq_true, if_false]
    · exact SimG.bind (ieval_simE hroot f a a' env env' h.2 ha hv _) fun v v' hv' =>
        SimG.pure (conc_plainArr (concL_cons hv' concL_nil))
    · exact SimG.pure conc_null
  | .selectArraySingleCurrent f, cur, cur', env, env', h, hc, hv, π => by
    simp only [INode.all, Bool.and_eq_true] at h
    simp only [ieval, ievalO]
    exact SimG.bind (ieval_simE hroot f cur cur' env env' h.2 hc hv _) fun v v' hv' =>
      SimG.pure (conc_plainArr (concL_cons hv' concL_nil))
  | .selectObject c fs, cur, cur', env, env', h, hc, hv, π => by
    simp only [INode.all, Bool.and_eq_true] at h
    simp only [ieval, ievalO]
    refine SimG.bind (ieval_simE hroot c cur cur' env env' h.1.2 hc hv _) fun a a' ha => ?_
    rw [conc_isNull ha]
    cases hn : a.isNull <;> simp only [if_true, Bool.false_eq_true, if_false]
    · rw [ievalFields_eq_combineAll]
      exact SimG.bind (members_simE (ievalMembers_simE hroot fs a a' env env' h.2 ha hv _)
        (by rw [memberOutcomes_keys]; exact nodeOkE_selectObject h.1.1) (Oracle.order_perm _ _)) fun kvs kvs' hk =>
        SimG.pure (conc_objOf hk)
    · exact SimG.pure conc_null
  | .selectObjectCurrent fs, cur, cur', env, env', h, hc, hv, π => by
    simp only [INode.all, Bool.and_eq_true] at h
    simp only [ieval, ievalO]
    rw [conc_isNull hc]
    cases hn : cur.isNull <;> simp only [if_true, Bool.false_eq_true, if_false]
    · rw [ievalFields_eq_combineAll]
      exact SimG.bind (members_simE (ievalMembers_simE hroot fs cur cur' env env' h.2 hc hv _)
        (by rw [memberOutcomes_keys]; exact nodeOkE_selectObjectCurrent h.1) (Oracle.order_perm _ _)) fun kvs kvs' hk =>
        SimG.pure (conc_objOf hk)
    · exact SimG.ok conc_null
  | .selectObjectSingle c k f, cur, cur', env, env', h, hc, hv, π => by
    simp only [INode.all, Bool.and_eq_true] at h
    simp only [ieval, ievalO]
    refine SimG.bind (ieval_simE hroot c cur cur' env env' h.1.2 hc hv _) fun a a' ha => ?_
    rw [conc_isNull ha]
    cases hn : a.isNull <;> simp only [if_true, Bool.false_eq_true, if_false]
    · exact SimG.bind (ieval_simE hroot f a a' env env' h.2 ha hv _) fun v v' hv' =>
        SimG.pure (conc_objOf (concF_cons hv' concF_nil))
    · exact SimG.pure conc_null
  | .selectObjectSingleCurrent k f, cur, cur', env, env', h, hc, hv, π => by
    simp only [INode.all, Bool.and_eq_true] at h
    simp only [ieval, ievalO]
    exact SimG.bind (ieval_simE hroot f cur cur' env env' h.2 hc hv _) fun v v' hv' =>
      SimG.pure (conc_objOf (concF_cons hv' concF_nil))
  | .slice c a b, cur, cur', env, env', h, hc, hv, π => by
    simp only [INode.all, Bool.and_eq_true] at h
    simp only [ieval, ievalO]
    exact SimG.bind (ieval_simE hroot c cur cur' env env' h.2 hc hv _) fun v v' hv' => slice_simE hv' a b
  | .sliceCurrent a b, cur, cur', env, env', h, hc, hv, π => slice_simE hc a b
  | .sliceStep c a b st, cur, cur', env, env', h, hc, hv, π => by
    simp only [INode.all, Bool.and_eq_true] at h
    simp only [ieval, ievalO]
    exact SimG.bind (ieval_simE hroot c cur cur' env env' h.2 hc hv _) fun v v' hv' => sliceStep_simE hv' a b st
  | .sliceStepCurrent a b st, cur, cur', env, env', h, hc, hv, π => sliceStep_simE hc a b st
  | .groupBy a e, cur, cur', env, env', h, hc, hv, π => by
    simp only [INode.all, Bool.and_eq_true] at h
    simp only [ieval, ievalO]
    exact SimG.bind (ieval_simE hroot a cur cur' env env' h.1.2 hc hv _) fun v v' hv' =>
      groupBy_simE (fun i x x' hx => ieval_simE hroot e x x' env env' h.2 hx hv _) hv'
  | .map e a, cur, cur', env, env', h, hc, hv, π => by
    simp only [INode.all, Bool.and_eq_true] at h
    simp only [ieval, ievalO]
    exact SimG.bind (ieval_simE hroot a cur cur' env env' h.2 hc hv _) fun v v' hv' =>
      mapArray_simE (fun i x x' hx => ieval_simE hroot e x x' env env' h.1.2 hx hv _) hv'
  | .maxBy a e, cur, cur', env, env', h, hc, hv, π => by
    simp only [INode.all, Bool.and_eq_true] at h
    simp only [ieval, ievalO]
    exact SimG.bind (ieval_simE hroot a cur cur' env env' h.1.2 hc hv _) fun v v' hv' =>
      arrayPickBy_simE Key.gtMax_irrefl (fun a b c => Key.gtMax_trans) (fun i x x' hx => ieval_simE hroot e x x' env env' h.2 hx hv _) hv'
  | .minBy a e, cur, cur', env, env', h, hc, hv, π => by
    simp only [INode.all, Bool.and_eq_true] at h
    simp only [ieval, ievalO]
    exact SimG.bind (ieval_simE hroot a cur cur' env env' h.1.2 hc hv _) fun v v' hv' =>
      arrayPickBy_simE Key.ltMin_irrefl (fun a b c => Key.ltMin_trans) (fun i x x' hx => ieval_simE hroot e x x' env env' h.2 hx hv _) hv'
  | .sortBy a e, cur, cur', env, env', h, hc, hv, π => by
    simp only [INode.all, Bool.and_eq_true] at h
    simp only [ieval, ievalO]
    exact SimG.bind (ieval_simE hroot a cur cur' env env' h.1.2 hc hv _) fun v v' hv' =>
      sortArrayBy_simE (fun i x x' hx => ieval_simE hroot e x x' env env' h.2 hx hv _) hv'
  | .merge args, cur, cur', env, env', h, hc, hv, π => by
    simp only [INode.all, Bool.and_eq_true] at h
    simp only [ieval, ievalO]
    exact SimG.bind (ievalMerge_simE hroot args cur cur' env env' [] [] h.2 hc hv concF_nil _) fun kvs kvs' hk =>
      SimG.pure (conc_objOf hk)
  | .notNull args, cur, cur', env, env', h, hc, hv, π => by
    simp only [INode.all, Bool.and_eq_true] at h
    simp only [ieval, ievalO]
    exact ievalNotNull_simE hroot args cur cur' env env' h.2 hc hv _
  | .zip args, cur, cur', env, env', h, hc, hv, π => by
    simp only [INode.all, Bool.and_eq_true] at h
    simp only [ieval, ievalO]
    refine SimG.bind (ievalZip_simE hroot args cur cur' env env' h.2 hc hv _) fun vs vs' hvs =>
      SimG.bind (zipArgs_simE hvs) fun cols cols' hcols => ?_
    cases hcols with
    | nil => exact SimG.pure (conc_plainArr concL_nil)
    | cons hab t =>
      simp only
      rw [zip_count_eq _ t, ← concL_length hab]
      exact SimG.pure (conc_plainArr (zipRows_conc _ (.cons hab t)))
theorem ievalList_simE {root root' : Val} (hroot : Conc root root') :
    ∀ (ns : List INode) (cur cur' : Val) (env env' : Env), INode.allL nodeOkE ns = true → Conc cur cur' →
      ConcF env env' → ∀ π : Oracle, SimG ConcL (ievalList root ns cur env) (ievalListO π root' ns cur' env')
  | [], cur, cur', env, env', h, hc, hv, π => SimG.ok concL_nil
  | n :: ns, cur, cur', env, env', h, hc, hv, π => by
    simp only [INode.allL, Bool.and_eq_true] at h
    simp only [ievalList, ievalListO]
    exact SimG.bind (ieval_simE hroot n cur cur' env env' h.1 hc hv _) fun v v' hv' =>
      SimG.bind (ievalList_simE hroot ns cur cur' env env' h.2 hc hv _) fun vs vs' hvs =>
        SimG.pure (concL_cons hv' hvs)
theorem ievalMembers_simE {root root' : Val} (hroot : Conc root root') :
    ∀ (fs : List (Bytes × INode)) (cur cur' : Val) (env env' : Env), INode.allF nodeOkE fs = true → Conc cur cur' →
      ConcF env env' → ∀ π : Oracle,
      All₂ MemberSimE (memberOutcomes root fs cur env) (ievalMembersO π root' fs cur' env')
  | [], cur, cur', env, env', h, hc, hv, π => .nil
  | (k, n) :: rest, cur, cur', env, env', h, hc, hv, π => by
    simp only [INode.allF, Bool.and_eq_true] at h
    simp only [memberOutcomes, List.map_cons, ievalMembersO]
    exact .cons ⟨rfl, ieval_simE hroot n cur cur' env env' h.1 hc hv _⟩
      (ievalMembers_simE hroot rest cur cur' env env' h.2 hc hv _)
theorem ievalMerge_simE {root root' : Val} (hroot : Conc root root') :
    ∀ (ns : List INode) (cur cur' : Val) (env env' : Env) (acc acc' : List (Bytes × Val)),
      INode.allL nodeOkE ns = true → Conc cur cur' → ConcF env env' → ConcF acc acc' →
      ∀ π : Oracle, SimG ConcF (ievalMerge root ns cur env acc) (ievalMergeO π root' ns cur' env' acc')
  | [], cur, cur', env, env', acc, acc', h, hc, hv, ha, π => SimG.ok ha
  | n :: ns, cur, cur', env, env', acc, acc', h, hc, hv, ha, π => by
    simp only [INode.allL, Bool.and_eq_true] at h
    simp only [ievalMerge, ievalMergeO]
    refine SimG.bind (ieval_simE hroot n cur cur' env env' h.1 hc hv _) fun v v' hv' => ?_
    cases v with
    | obj kvs =>
      obtain ⟨kvs', rfl, hk⟩ := conc_obj hv'
      exact ievalMerge_simE hroot ns cur cur' env env' _ _ h.2 hc hv (concF_foldInsert hk ha) _
    | _ => exact SimG.errType
theorem ievalZip_simE {root root' : Val} (hroot : Conc root root') :
    ∀ (ns : List INode) (cur cur' : Val) (env env' : Env), INode.allL nodeOkE ns = true → Conc cur cur' →
      ConcF env env' → ∀ π : Oracle, SimG ConcL (ievalZip root ns cur env) (ievalZipO π root' ns cur' env')
  | [], cur, cur', env, env', h, hc, hv, π => SimG.ok concL_nil
  | n :: ns, cur, cur', env, env', h, hc, hv, π => by
    simp only [INode.allL, Bool.and_eq_true] at h
    simp only [ievalZip, ievalZipO]
    refine SimG.bind (ieval_simE hroot n cur cur' env env' h.1 hc hv _) fun v v' hv' => ?_
    cases v with
    | arr t xs =>
      obtain ⟨t', xs', rfl, _⟩ := conc_arr hv'
      exact SimG.bind (ievalZip_simE hroot ns cur cur' env env' h.2 hc hv _) fun vs vs' hvs =>
        SimG.pure (concL_cons hv' hvs)
    | _ => exact SimG.errType
theorem ievalNotNull_simE {root root' : Val} (hroot : Conc root root') :
    ∀ (ns : List INode) (cur cur' : Val) (env env' : Env), INode.allL nodeOkE ns = true → Conc cur cur' →
      ConcF env env' → ∀ π : Oracle, SimE (ievalNotNull root ns cur env) (ievalNotNullO π root' ns cur' env')
  | [], cur, cur', env, env', h, hc, hv, π => SimG.ok conc_null
  | n :: ns, cur, cur', env, env', h, hc, hv, π => by
    simp only [INode.allL, Bool.and_eq_true] at h
    simp only [ievalNotNull, ievalNotNullO]
    refine SimG.bind (ieval_simE hroot n cur cur' env env' h.1 hc hv _) fun v v' hv' => ?_
    rw [conc_isNull hv']
    cases hn : v.isNull <;> simp only [if_true, Bool.false_eq_true, if_false]
    · exact SimG.pure hv'
    · exact ievalNotNull_simE hroot ns cur cur' env env' h.2 hc hv _
end

/-! ### a value without map-ordered arrays has exactly one concretisation -/

mutual
theorem conc_eq_of_good : ∀ (v v' : Val), Conc v v' → v.Good true = true → v' = v
  | .null, v', h, _ | .bool _, v', h, _ | .str _, v', h, _ | .num _, v', h, _ | .foreign _, v', h, _ => by
    simpa [Conc] using h
  | .arr t xs, v', h, hg => by
    have ⟨ht, hx⟩ := good_arr.mp hg
    have hne : t ≠ .enum := by cases t <;> simp_all [tagOk]
    obtain ⟨t', xs', rfl, _, _, h1, _⟩ := conc_arr h
    obtain ⟨rfl, hl⟩ := h1 hne
    rw [concL_eq_of_good xs xs' hl hx]
  | .obj kvs, v', h, hg => by
    obtain ⟨kvs', rfl, hf⟩ := conc_obj h
    rw [concF_eq_of_good kvs kvs' hf (good_obj.mp hg)]
theorem concL_eq_of_good : ∀ (xs xs' : List Val), ConcL xs xs' → Val.GoodL true xs = true → xs' = xs
  | [], xs', h, _ => by simpa [ConcL] using h
  | x :: xs, xs', h, hg => by
    simp only [ConcL] at h
    obtain ⟨x', t1, hx, ht, rfl⟩ := h
    have ⟨g1, g2⟩ := goodL_cons.mp hg
    rw [conc_eq_of_good x x' hx g1, concL_eq_of_good xs t1 ht g2]
theorem concF_eq_of_good : ∀ (xs xs' : List (Bytes × Val)), ConcF xs xs' → Val.GoodF true xs = true → xs' = xs
  | [], xs', h, _ => by simpa [ConcF] using h
  | (k, x) :: xs, xs', h, hg => by
    simp only [ConcF] at h
    obtain ⟨x', t1, hx, ht, rfl⟩ := h
    have ⟨g1, g2⟩ := goodF_cons.mp hg
    rw [conc_eq_of_good x x' hx g1, concF_eq_of_good xs t1 ht g2]
end

/-! ### the error half for projections over map-ordered arrays

  `widen` (the model's treatment of "which element fails first") answers `nondet` for a map-ordered array as soon as
  the outcome of some element is `nondet`, `panic` or `unmodelled` (see `C15B.widen_unsettled_nondet`). So an error
  outcome `projectArray … = .err cs` over a map-ordered array implies that every element outcome is a value or an
  error (`Settled`, `widen_enum_mem`), which is what the any-order argument (`collect_err_perm`) needs. -/

/-- element-level agreement including errors -/
def SimX (r r' : Res Val) : Prop :=
  (∀ v, r = .ok v → ∃ v', r' = .ok v' ∧ Conc v v') ∧ (∀ cl, r = .err cl → ∃ c ∈ cl, r' = .err [c])

/-- agreement of the sub-expression on the elements of `xs` -/
abbrev SimFnX (xs : List Val) (f : Val → Res Val) (g : Nat → Val → Res Val) : Prop :=
  ∀ (i : Nat) (x x' : Val), x ∈ xs → Conc x x' → SimX (f x) (g i x')

theorem SimX.simE {r r' : Res Val} (h : SimX r r') : SimE r r' := h.1

/-- a strict-class sub-expression on an element without map-ordered arrays -/
theorem SimX.of_simS {r r' : Res Val} (h : SimR r r') : SimX r r' := by
  obtain ⟨_, h2, h3⟩ := SimS.iff.mp h
  exact ⟨fun v hv => ⟨v, (h2 v hv).1, conc_refl v (h2 v hv).2⟩, h3⟩

theorem mapPruneH_err {f : Val → Res Val} {x : Val} {cl : List Cat} :
    mapPruneH f x = .err cl ↔ f x = .err cl := by
  simp only [mapPruneH]
  cases f x <;> simp [Res.pure_eq]

theorem mapPruneH_settled {f : Val → Res Val} {x : Val} (h : (f x).Settled) : (mapPruneH f x).Settled := by
  simp only [mapPruneH]
  cases hf : f x <;> rw [hf] at h <;> first | exact h | trivial

/-- positional: the run fails at the same element as the model -/
theorem collect_err_pos {β β'} {D : β → β' → Prop} {h : Val → Res (List β)} {h' : Nat → Val → Res (List β')} :
    ∀ (i : Nat) {xs xs' : List Val},
      (∀ i x x', x ∈ xs → Conc x x' → SimG (All₂ D) (h x) (h' i x')) →
      (∀ i x x', x ∈ xs → Conc x x' → ∀ cl, h x = .err cl → ∃ c ∈ cl, h' i x' = .err [c]) →
      ConcL xs xs' → ∀ {cs : List Cat}, collect h xs = .err cs → ∃ c ∈ cs, collectO h' i xs' = .err [c]
  | _, [], xs', _, _, hl, cs, e => by simp [collect] at e
  | i, x :: xs, xs', hok, herr, hl, cs, e => by
    simp only [ConcL] at hl
    obtain ⟨x', t1, hx, ht, rfl⟩ := hl
    simp only [collect] at e
    simp only [collectO]
    cases hhx : h x with
    | err cl =>
      rw [hhx] at e
      cases e
      obtain ⟨c, hc, e'⟩ := herr i x x' (by simp) hx _ hhx
      exact ⟨c, hc, by rw [e']; rfl⟩
    | ok r =>
      rw [hhx] at e
      obtain ⟨r', e', _⟩ := hok i x x' (by simp) hx r hhx
      rw [e']
      simp only [Res.ok_bind] at e ⊢
      cases hrest : collect h xs with
      | err cl =>
        rw [hrest] at e
        cases e
        obtain ⟨c, hc, e''⟩ := collect_err_pos (i + 1)
          (fun i z z' hz => hok i z z' (List.mem_cons_of_mem _ hz))
          (fun i z z' hz => herr i z z' (List.mem_cons_of_mem _ hz)) ht hrest
        exact ⟨c, hc, by rw [e'']; rfl⟩
      | ok rest => rw [hrest] at e; cases e
      | panic w => rw [hrest] at e; cases e
      | nondet => rw [hrest] at e; cases e
      | unmodelled w => rw [hrest] at e; cases e
    | panic w => rw [hhx] at e; cases e
    | nondet => rw [hhx] at e; cases e
    | unmodelled w => rw [hhx] at e; cases e

/-- any order: among settled element outcomes one of which is an error, the run fails at some failing element -/
theorem collect_err_perm {β β'} {D : β → β' → Prop} {h : Val → Res (List β)} {h' : Nat → Val → Res (List β')}
    {ys xs' : List Val} (hall : All₂ Conc ys xs') :
    ∀ (i : Nat),
      (∀ i x x', x ∈ ys → Conc x x' → SimG (All₂ D) (h x) (h' i x')) →
      (∀ i x x', x ∈ ys → Conc x x' → ∀ cl, h x = .err cl → ∃ c ∈ cl, h' i x' = .err [c]) →
      (∀ y ∈ ys, (h y).Settled) →
      (∃ y ∈ ys, ∃ cl, h y = .err cl) → ∃ y ∈ ys, ∃ cl, h y = .err cl ∧ ∃ c ∈ cl, collectO h' i xs' = .err [c] := by
  induction hall with
  | nil =>
    intro i _ _ _ hex
    obtain ⟨_, hy, _⟩ := hex
    cases hy
  | @cons y x' ys0 xs0 hx ht ih =>
    intro i hok herr hset hex
    simp only [collectO]
    have hs := hset y (by simp)
    cases hhy : h y with
    | err cl =>
      obtain ⟨c, hc, e'⟩ := herr i y x' (by simp) hx cl hhy
      exact ⟨y, by simp, cl, hhy, c, hc, by rw [e']; rfl⟩
    | ok r =>
      obtain ⟨r', e', _⟩ := hok i y x' (by simp) hx r hhy
      have hex' : ∃ z ∈ ys0, ∃ cl, h z = .err cl := by
        obtain ⟨z, hz, cl, hcl⟩ := hex
        rcases List.mem_cons.mp hz with rfl | hz
        · rw [hhy] at hcl; cases hcl
        · exact ⟨z, hz, cl, hcl⟩
      obtain ⟨z, hz, cl, hcl, c, hc, e''⟩ :=
        ih (i + 1) (fun i z z' hz => hok i z z' (List.mem_cons_of_mem _ hz))
          (fun i z z' hz => herr i z z' (List.mem_cons_of_mem _ hz))
          (fun z hz => hset z (List.mem_cons_of_mem _ hz)) hex'
      exact ⟨z, List.mem_cons_of_mem _ hz, cl, hcl, c, hc, by rw [e', e'']; rfl⟩
    | panic w => rw [hhy] at hs; exact hs.elim
    | nondet => rw [hhy] at hs; exact hs.elim
    | unmodelled w => rw [hhy] at hs; exact hs.elim

/-- the model's loop fails iff some element does -/
theorem collect_err_exists {β} {h : Val → Res (List β)} : ∀ {xs : List Val} {cs : List Cat},
    collect h xs = .err cs → ∃ x ∈ xs, h x = .err cs
  | [], cs, e => by simp [collect] at e
  | x :: xs, cs, e => by
    simp only [collect] at e
    cases hhx : h x with
    | err cl => rw [hhx] at e; cases e; exact ⟨x, by simp, hhx⟩
    | ok r =>
      rw [hhx] at e
      simp only [Res.ok_bind] at e
      cases hrest : collect h xs with
      | err cl =>
        rw [hrest] at e; cases e
        obtain ⟨z, hz, e'⟩ := collect_err_exists hrest
        exact ⟨z, List.mem_cons_of_mem _ hz, e'⟩
      | ok rest => rw [hrest] at e; cases e
      | panic w => rw [hrest] at e; cases e
      | nondet => rw [hrest] at e; cases e
      | unmodelled w => rw [hrest] at e; cases e
    | panic w => rw [hhx] at e; cases e
    | nondet => rw [hhx] at e; cases e
    | unmodelled w => rw [hhx] at e; cases e

/-- what `widen` adds for a map-ordered array: the categories of every failing element; and an error outcome means
    that every element outcome is settled -/
theorem widen_enum_mem {α} {t : ATag} {xs : List Val} {f : Val → Res Val} {extra cs0 cs : List Cat}
    (he : enum2 t xs = true) (h : widen (α := α) t xs [f] extra (.err cs0) = .err cs) :
    (∀ c ∈ cs0, c ∈ cs) ∧ (∀ x ∈ xs, ∀ cl, f x = .err cl → ∀ c ∈ cl, c ∈ cs) ∧ ∀ x ∈ xs, (f x).Settled := by
  simp only [widen, he, if_true] at h
  split at h
  · cases h
  rename_i hu
  simp only [Res.err.injEq] at h
  subst h
  refine ⟨fun c hc => Cat.mem_dedup.mpr (by simp [hc]), fun x hx cl hcl c hc => Cat.mem_dedup.mpr ?_, fun x hx => ?_⟩
  · simp only [List.mem_append, List.mem_flatMap]
    refine .inr ⟨x, hx, f, by simp, ?_⟩
    rw [hcl]
    exact hc
  · cases hfx : f x with
    | ok v => trivial
    | err cl => trivial
    | _ => exact absurd (List.any_eq_true.mpr ⟨x, hx, by simp [hfx]⟩) hu

/-- the shared core: a loop over the elements of `xs` (model) / `xs'` (run) below `widen` -/
theorem loop_err_any_order {t : ATag} {xs xs' : List Val} {f : Val → Res Val} {g : Nat → Val → Res Val}
    {T : List Val → Val} {T' : List Val → Val}
    (hp : ConcP xs xs') (hpos : enum2 t xs = false → ConcL xs xs') (hf : SimFnX xs f g) {cs : List Cat}
    (h : widen t xs [f] [] (collect (mapPruneH f) xs >>= fun r => pure (T r)) = .err cs) :
    ∃ c ∈ cs, (collectO (fun i => mapPruneH (g i)) 0 xs' >>= fun r => pure (T' r)) = .err [c] := by
  have hok : ∀ i x x', x ∈ xs → Conc x x' → SimG (All₂ Conc) (mapPruneH f x) (mapPruneH (g i) x') := by
    intro i x x' hm hx
    refine SimG.bind (hf i x x' hm hx).simE fun p p' hp => ?_
    rw [conc_isNull hp]
    cases p.isNull
    · exact SimG.pure (.cons hp .nil)
    · exact SimG.pure .nil
  have herr : ∀ i x x', x ∈ xs → Conc x x' → ∀ cl, mapPruneH f x = .err cl →
      ∃ c ∈ cl, mapPruneH (g i) x' = .err [c] := by
    intro i x x' hm hx cl hcl
    obtain ⟨c, hc, e⟩ := (hf i x x' hm hx).2 cl (mapPruneH_err.mp hcl)
    exact ⟨c, hc, mapPruneH_err.mpr e⟩
  -- the loop itself failed
  cases hloop : collect (mapPruneH f) xs with
  | ok r => rw [hloop] at h; simp [widen, Res.pure_eq] at h
  | panic w => rw [hloop] at h; simp [widen] at h
  | nondet => rw [hloop] at h; simp [widen] at h
  | unmodelled w => rw [hloop] at h; simp [widen] at h
  | err cs0 =>
    rw [hloop] at h
    simp only [Res.err_bind] at h
    cases he : enum2 t xs with
    | false =>
      simp only [widen, he, Bool.false_eq_true, if_false, Res.err.injEq] at h
      subst h
      obtain ⟨c, hc, e⟩ := collect_err_pos 0 hok herr (hpos he) hloop
      exact ⟨c, hc, by rw [e]; rfl⟩
    | true =>
      obtain ⟨-, hmem, hset⟩ := widen_enum_mem he h
      obtain ⟨ys, hys, hl⟩ := concP_iff.mp hp
      obtain ⟨x0, hx0, e0⟩ := collect_err_exists hloop
      obtain ⟨y, hy, cl, hcl, c, hc, e⟩ := collect_err_perm (concL_iff.mp hl) 0
        (fun i z z' hz => hok i z z' (hys.mem_iff.mp hz)) (fun i z z' hz => herr i z z' (hys.mem_iff.mp hz))
        (fun y hy => mapPruneH_settled (hset y (hys.mem_iff.mp hy)))
        ⟨x0, hys.mem_iff.mpr hx0, cs0, e0⟩
      exact ⟨c, hmem y (hys.mem_iff.mp hy) cl (mapPruneH_err.mp hcl) c hc, by rw [e]; rfl⟩

/-- **Error half for `[*]` / projections over a (possibly map-ordered) array.** An error set `cs` of the model
    contains the category that every run reports. -/
theorem projectArray_err_any_order {f : Val → Res Val} {g : Nat → Val → Res Val} {t : ATag} {xs : List Val} {v' : Val}
    (hv : Conc (.arr t xs) v') (hf : SimFnX xs f g) {cs : List Cat}
    (h : projectArray f (.arr t xs) = .err cs) : ∃ c ∈ cs, projectArrayO g v' = .err [c] := by
  obtain ⟨t', xs', rfl, _, hp, _, _⟩ := conc_arr hv
  simp only [projectArray, mapPrune_eq_collect] at h
  simp only [projectArrayO, mapPruneO_eq_collect]
  refine loop_err_any_order hp (fun he => ?_) hf h
  obtain ⟨t'', xs'', e, _, hl, _⟩ := conc_arr_pos hv he
  cases e
  exact hl

/-- **Error half for `*` on objects.** -/
theorem projectObject_err_any_order (π : Oracle) {f : Val → Res Val} {g : Nat → Val → Res Val}
    {kvs : List (Bytes × Val)} {v' : Val} (hv : Conc (.obj kvs) v') (hf : SimFnX (kvs.map Prod.snd) f g)
    {cs : List Cat}
    (h : projectObject f (.obj kvs) = .err cs) : ∃ c ∈ cs, projectObjectO π g v' = .err [c] := by
  obtain ⟨kvs', rfl, hkv⟩ := conc_obj hv
  simp only [projectObject, mapPrune_eq_collect] at h
  simp only [projectObjectO, mapPruneO_eq_collect]
  have hp : ConcP (kvs.map Prod.snd) ((π.members kvs').map Prod.snd) :=
    (concF_values hkv).concP.of_perm_right ((π.members_perm kvs').map _)
  refine loop_err_any_order hp (fun he => ?_) hf h
  -- fewer than two members: only one order
  apply hp.concL_of_short
  simp only [enum2, beq_self_eq_true, Bool.true_and, decide_eq_false_iff_not] at he
  omega

end Jmes
