/-
  Helper for property C05: values without binary floating point numbers (`NoFloat`), and the fact that the numeric
  functions of the evaluator, applied to such values, only ever use the decimal functions of `Jmes.Dec`.
-/
import Jmes.Proofs.Equal
namespace Jmes

def Num.NoFloat : Num → Prop
  | .f64 _ => False
  | .f32 _ => False
  | _ => True

mutual
/-- no `float64` / `float32` anywhere in the value -/
def Val.NoFloat : Val → Prop
  | .null => True
  | .bool _ => True
  | .str _ => True
  | .num n => n.NoFloat
  | .arr _ xs => Val.NoFloatL xs
  | .obj kvs => Val.NoFloatF kvs
  | .foreign _ => True
def Val.NoFloatL : List Val → Prop
  | [] => True
  | x :: xs => Val.NoFloat x ∧ Val.NoFloatL xs
def Val.NoFloatF : List (Bytes × Val) → Prop
  | [] => True
  | (_, x) :: kvs => Val.NoFloat x ∧ Val.NoFloatF kvs
end

namespace Val

theorem NoFloatL_iff : ∀ {xs : List Val}, NoFloatL xs ↔ ∀ x ∈ xs, NoFloat x
  | [] => by simp [NoFloatL]
  | x :: xs => by simp [NoFloatL, NoFloatL_iff (xs := xs)]

theorem NoFloatF_iff : ∀ {kvs : List (Bytes × Val)}, NoFloatF kvs ↔ ∀ k x, (k, x) ∈ kvs → NoFloat x
  | [] => by simp [NoFloatF]
  | (k, x) :: kvs => by
    simp only [NoFloatF, NoFloatF_iff (kvs := kvs), List.mem_cons, Prod.mk.injEq]
    constructor
    · rintro ⟨h1, h2⟩ k' x' (⟨_, rfl⟩ | hm)
      · exact h1
      · exact h2 k' x' hm
    · intro h
      exact ⟨h k x (Or.inl ⟨rfl, rfl⟩), fun k' x' hm => h k' x' (Or.inr hm)⟩

@[simp] theorem noFloat_null : NoFloat .null := by simp [NoFloat]
@[simp] theorem noFloat_bool (b : Bool) : NoFloat (.bool b) := by simp [NoFloat]
@[simp] theorem noFloat_str (s : Bytes) : NoFloat (.str s) := by simp [NoFloat]
@[simp] theorem noFloat_foreign (t : Nat) : NoFloat (.foreign t) := by simp [NoFloat]
@[simp] theorem noFloat_dec (d : Dec) : NoFloat (.num (.dec d)) := by simp [NoFloat, Num.NoFloat]
@[simp] theorem noFloat_jnum (t : Bytes) : NoFloat (.num (.jnum t)) := by simp [NoFloat, Num.NoFloat]
@[simp] theorem noFloat_int (k : IntKind) (i : Int) : NoFloat (.num (.int k i)) := by simp [NoFloat, Num.NoFloat]
@[simp] theorem noFloat_f64 (f : F64) : ¬ NoFloat (.num (.f64 f)) := by simp [NoFloat, Num.NoFloat]
@[simp] theorem noFloat_f32 (f : F64) : ¬ NoFloat (.num (.f32 f)) := by simp [NoFloat, Num.NoFloat]
theorem noFloat_arr {t : ATag} {xs : List Val} : NoFloat (.arr t xs) ↔ ∀ x ∈ xs, NoFloat x := by
  simp [NoFloat, NoFloatL_iff]
theorem noFloat_obj {kvs : List (Bytes × Val)} : NoFloat (.obj kvs) ↔ ∀ k x, (k, x) ∈ kvs → NoFloat x := by
  simp [NoFloat, NoFloatF_iff]

end Val

/-! ### value level: the numeric functions on `NoFloat` operands -/

theorem toFloat_none {x : Val} (h : x.NoFloat) : toFloat x = none := by
  cases x with
  | num n =>
    cases n with
    | f64 f => exact absurd h (Val.noFloat_f64 f)
    | f32 f => exact absurd h (Val.noFloat_f32 f)
    | _ => rfl
  | _ => rfl

theorem toFloatPair_none_left {x : Val} (y : Val) (h : x.NoFloat) : toFloatPair x y = none := by
  simp [toFloatPair, toFloat_none h]

theorem toFloatPair_none_right (x : Val) {y : Val} (h : y.NoFloat) : toFloatPair x y = none := by
  unfold toFloatPair
  rw [toFloat_none h]
  cases toFloat x <;> rfl

/-- `toDecimal` of a `NoFloat` value never touches `F64` -/
theorem toDecimal_noFloat {x : Val} (h : x.NoFloat) :
    toDecimal x = (match x with
      | .num (.dec d) => some d
      | .num (.jnum t) => (match Dec.parse t with | .ok d => some d | _ => none)
      | .num (.int _ v) => some (Dec.ofInt v)
      | _ => none) := by
  cases x with
  | num n =>
    cases n with
    | f64 f => exact absurd h (Val.noFloat_f64 f)
    | f32 f => exact absurd h (Val.noFloat_f32 f)
    | jnum t => simp only [toDecimal]; cases Dec.parse t <;> rfl
    | _ => rfl
  | _ => rfl

theorem arith_noFloat (fop : F64 → F64 → F64) (dop : Dec → Dec → Dec) {x y : Val} (h : x.NoFloat ∨ y.NoFloat) :
    arith fop dop x y =
      (match toDecimal x, toDecimal y with
       | some a, some b => checkD (dop a b)
       | _, _ => errType) := by
  have hf : toFloatPair x y = none := by
    rcases h with h | h
    · exact toFloatPair_none_left y h
    · exact toFloatPair_none_right x h
  unfold arith
  rw [hf]
  cases toDecimal x <;> cases toDecimal y <;> rfl

theorem checkD_noFloat {r : Dec} {v : Val} (h : checkD r = .ok v) : v.NoFloat := by
  unfold checkD at h
  split at h
  · simp [errNaN] at h
  · split at h
    · simp [errNaN] at h
    · cases h; simp

theorem arith_result_noFloat {fop : F64 → F64 → F64} {dop : Dec → Dec → Dec} {x y v : Val} (h : x.NoFloat ∨ y.NoFloat)
    (hv : arith fop dop x y = .ok v) : v.NoFloat := by
  rw [arith_noFloat fop dop h] at hv
  split at hv
  · exact checkD_noFloat hv
  · simp [errType] at hv

theorem numAbs_noFloat {x : Val} (h : x.NoFloat) :
    numAbs x = (match toDecimal x with | some d => .ok (.num (.dec d.abs)) | none => errType) := by
  unfold numAbs; rw [toFloat_none h]; cases toDecimal x <;> rfl

theorem numCeil_noFloat {x : Val} (h : x.NoFloat) :
    numCeil x = (match toDecimal x with | some d => .ok (.num (.dec d.ceil)) | none => errType) := by
  unfold numCeil; rw [toFloat_none h]; cases toDecimal x <;> rfl

theorem numFloor_noFloat {x : Val} (h : x.NoFloat) :
    numFloor x = (match toDecimal x with | some d => .ok (.num (.dec d.floor)) | none => errType) := by
  unfold numFloor; rw [toFloat_none h]; cases toDecimal x <;> rfl

theorem negateVal_noFloat {x : Val} (h : x.NoFloat) :
    negateVal x = (match toDecimal x with
      | none => .null
      | some d => if d.isZero then .num (.dec d) else .num (.dec d.neg)) := by
  unfold negateVal; rw [toFloat_none h]; cases toDecimal x <;> rfl

theorem numAbs_result_noFloat {x v : Val} (h : x.NoFloat) (hv : numAbs x = .ok v) : v.NoFloat := by
  rw [numAbs_noFloat h] at hv
  split at hv
  · cases hv; simp
  · simp [errType] at hv

theorem numCeil_result_noFloat {x v : Val} (h : x.NoFloat) (hv : numCeil x = .ok v) : v.NoFloat := by
  rw [numCeil_noFloat h] at hv
  split at hv
  · cases hv; simp
  · simp [errType] at hv

theorem numFloor_result_noFloat {x v : Val} (h : x.NoFloat) (hv : numFloor x = .ok v) : v.NoFloat := by
  rw [numFloor_noFloat h] at hv
  split at hv
  · cases hv; simp
  · simp [errType] at hv

theorem negateVal_result_noFloat {x : Val} (h : x.NoFloat) : (negateVal x).NoFloat := by
  rw [negateVal_noFloat h]
  split
  · simp
  · split <;> simp

/-- `sum` / `avg` have no float path at all: the result is a decimal (or null) whatever the input -/
theorem numSum_result_noFloat {x v : Val} (hv : numSum x = .ok v) : v.NoFloat := by
  unfold numSum at hv
  split at hv
  · split at hv
    · simp [errType] at hv
    · split at hv
      · exact checkD_noFloat hv
      · simp at hv
  · simp [errType] at hv

theorem numAvg_result_noFloat {x v : Val} (hv : numAvg x = .ok v) : v.NoFloat := by
  unfold numAvg at hv
  split at hv
  · split at hv
    · cases hv; simp
    · split at hv
      · simp [errType] at hv
      · split at hv
        · exact checkD_noFloat hv
        · simp at hv
  · simp [errType] at hv

theorem toNumber_result_noFloat {x : Val} (h : x.NoFloat) : (toNumber x).NoFloat := by
  unfold toNumber
  split
  · exact h
  · split
    · split <;> simp
    · simp
  · simp

theorem arrayMax_result_noFloat {x v : Val} (hv : arrayMax x = .ok v) : v.NoFloat := by
  unfold arrayMax at hv
  split at hv
  · split at hv
    · cases hv; simp
    · split at hv
      · cases hv; simp
      · simp [errType] at hv
    · split at hv
      · split at hv
        · simp at hv
        · cases hv; simp
      · simp [errType] at hv
  · simp [errType] at hv

theorem arrayMin_result_noFloat {x v : Val} (hv : arrayMin x = .ok v) : v.NoFloat := by
  unfold arrayMin at hv
  split at hv
  · split at hv
    · cases hv; simp
    · split at hv
      · cases hv; simp
      · simp [errType] at hv
    · split at hv
      · split at hv
        · simp at hv
        · cases hv; simp
      · simp [errType] at hv
  · simp [errType] at hv

/-- the fold of `sum` over `NoFloat` elements: only `Dec.add` on decimals obtained without `F64` -/
theorem sumDec_noFloat : ∀ (xs : List Val) (acc : Dec), (∀ x ∈ xs, x.NoFloat) →
    sumDec xs acc = (match xs with
      | [] => some acc
      | v :: vs => (match toDecimal v with
        | none => none
        | some d => sumDec vs (acc.add d)))
  | [], _, _ => rfl
  | _ :: _, _, _ => rfl

end Jmes
