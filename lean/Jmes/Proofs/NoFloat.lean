/-
  Helper for property C05: values without binary floating point numbers (`NoFloat`), and the fact that the numeric
  functions of the evaluator, applied to such values, only ever use the decimal functions of `Jmes.Dec`.
-/
import Jmes.Proofs.Equal
import Jmes.Proofs.Refine
import Jmes.Model.Literal
namespace Jmes

def Num.NoFloat : Num → Prop
  | .f64 _ => False
  | .f32 _ => False
  | _ => True

mutual
/-- no `float64` / `float32` anywhere in the value -/
def Val.NoFloat : Val → Prop
  | .null => True
  | .bool _ => True
  | .str _ => True
  | .num n => n.NoFloat
  | .arr _ xs => Val.NoFloatL xs
  | .obj kvs => Val.NoFloatF kvs
  | .foreign _ => True
def Val.NoFloatL : List Val → Prop
  | [] => True
  | x :: xs => Val.NoFloat x ∧ Val.NoFloatL xs
def Val.NoFloatF : List (Bytes × Val) → Prop
  | [] => True
  | (_, x) :: kvs => Val.NoFloat x ∧ Val.NoFloatF kvs
end

namespace Val

theorem NoFloatL_iff : ∀ {xs : List Val}, NoFloatL xs ↔ ∀ x ∈ xs, NoFloat x
  | [] => by simp [NoFloatL]
  | x :: xs => by simp [NoFloatL, NoFloatL_iff (xs := xs)]

theorem NoFloatF_iff : ∀ {kvs : List (Bytes × Val)}, NoFloatF kvs ↔ ∀ k x, (k, x) ∈ kvs → NoFloat x
  | [] => by simp [NoFloatF]
  | (k, x) :: kvs => by
    simp only [NoFloatF, NoFloatF_iff (kvs := kvs), List.mem_cons, Prod.mk.injEq]
    constructor
    · rintro ⟨h1, h2⟩ k' x' (⟨_, rfl⟩ | hm)
      · exact h1
      · exact h2 k' x' hm
    · intro h
      exact ⟨h k x (Or.inl ⟨rfl, rfl⟩), fun k' x' hm => h k' x' (Or.inr hm)⟩

@[simp] theorem noFloat_null : NoFloat .null := by simp [NoFloat]
@[simp] theorem noFloat_bool (b : Bool) : NoFloat (.bool b) := by simp [NoFloat]
@[simp] theorem noFloat_str (s : Bytes) : NoFloat (.str s) := by simp [NoFloat]
@[simp] theorem noFloat_foreign (t : Nat) : NoFloat (.foreign t) := by simp [NoFloat]
@[simp] theorem noFloat_dec (d : Dec) : NoFloat (.num (.dec d)) := by simp [NoFloat, Num.NoFloat]
@[simp] theorem noFloat_jnum (t : Bytes) : NoFloat (.num (.jnum t)) := by simp [NoFloat, Num.NoFloat]
@[simp] theorem noFloat_int (k : IntKind) (i : Int) : NoFloat (.num (.int k i)) := by simp [NoFloat, Num.NoFloat]
@[simp] theorem noFloat_f64 (f : F64) : ¬ NoFloat (.num (.f64 f)) := by simp [NoFloat, Num.NoFloat]
@[simp] theorem noFloat_f32 (f : F64) : ¬ NoFloat (.num (.f32 f)) := by simp [NoFloat, Num.NoFloat]
theorem noFloat_arr {t : ATag} {xs : List Val} : NoFloat (.arr t xs) ↔ ∀ x ∈ xs, NoFloat x := by
  simp [NoFloat, NoFloatL_iff]
theorem noFloat_obj {kvs : List (Bytes × Val)} : NoFloat (.obj kvs) ↔ ∀ k x, (k, x) ∈ kvs → NoFloat x := by
  simp [NoFloat, NoFloatF_iff]

end Val

/-! ### value level: the numeric functions on `NoFloat` operands -/

theorem toFloat_none {x : Val} (h : x.NoFloat) : toFloat x = none := by
  cases x with
  | num n =>
    cases n with
    | f64 f => exact absurd h (Val.noFloat_f64 f)
    | f32 f => exact absurd h (Val.noFloat_f32 f)
    | _ => rfl
  | _ => rfl

theorem toFloatPair_none_left {x : Val} (y : Val) (h : x.NoFloat) : toFloatPair x y = none := by
  simp [toFloatPair, toFloat_none h]

theorem toFloatPair_none_right (x : Val) {y : Val} (h : y.NoFloat) : toFloatPair x y = none := by
  unfold toFloatPair
  rw [toFloat_none h]
  cases toFloat x <;> rfl

/-- `toDecimal` of a `NoFloat` value never touches `F64` -/
theorem toDecimal_noFloat {x : Val} (h : x.NoFloat) :
    toDecimal x = (match x with
      | .num (.dec d) => some d
      | .num (.jnum t) => (match Dec.parse t with | .ok d => some d | _ => none)
      | .num (.int _ v) => some (Dec.ofInt v)
      | _ => none) := by
  cases x with
  | num n =>
    cases n with
    | f64 f => exact absurd h (Val.noFloat_f64 f)
    | f32 f => exact absurd h (Val.noFloat_f32 f)
    | jnum t => simp only [toDecimal]; cases Dec.parse t <;> rfl
    | _ => rfl
  | _ => rfl

theorem arith_noFloat (fop : F64 → F64 → F64) (dop : Dec → Dec → Dec) {x y : Val} (h : x.NoFloat ∨ y.NoFloat) :
    arith fop dop x y =
      (match toDecimal x, toDecimal y with
       | some a, some b => checkD (dop a b)
       | _, _ => errType) := by
  have hf : toFloatPair x y = none := by
    rcases h with h | h
    · exact toFloatPair_none_left y h
    · exact toFloatPair_none_right x h
  unfold arith
  rw [hf]
  cases toDecimal x <;> cases toDecimal y <;> rfl

theorem checkD_noFloat {r : Dec} {v : Val} (h : checkD r = .ok v) : v.NoFloat := by
  unfold checkD at h
  split at h
  · simp [errNaN] at h
  · split at h
    · simp [errNaN] at h
    · cases h; simp

theorem arith_result_noFloat {fop : F64 → F64 → F64} {dop : Dec → Dec → Dec} {x y v : Val} (h : x.NoFloat ∨ y.NoFloat)
    (hv : arith fop dop x y = .ok v) : v.NoFloat := by
  rw [arith_noFloat fop dop h] at hv
  split at hv
  · exact checkD_noFloat hv
  · simp [errType] at hv

theorem numAbs_noFloat {x : Val} (h : x.NoFloat) :
    numAbs x = (match toDecimal x with | some d => .ok (.num (.dec d.abs)) | none => errType) := by
  unfold numAbs; rw [toFloat_none h]; cases toDecimal x <;> rfl

theorem numCeil_noFloat {x : Val} (h : x.NoFloat) :
    numCeil x = (match toDecimal x with | some d => .ok (.num (.dec d.ceil)) | none => errType) := by
  unfold numCeil; rw [toFloat_none h]; cases toDecimal x <;> rfl

theorem numFloor_noFloat {x : Val} (h : x.NoFloat) :
    numFloor x = (match toDecimal x with | some d => .ok (.num (.dec d.floor)) | none => errType) := by
  unfold numFloor; rw [toFloat_none h]; cases toDecimal x <;> rfl

theorem negateVal_noFloat {x : Val} (h : x.NoFloat) :
    negateVal x = (match toDecimal x with
      | none => .null
      | some d => if d.isZero then .num (.dec d) else .num (.dec d.neg)) := by
  unfold negateVal; rw [toFloat_none h]; cases toDecimal x <;> rfl

theorem numAbs_result_noFloat {x v : Val} (h : x.NoFloat) (hv : numAbs x = .ok v) : v.NoFloat := by
  rw [numAbs_noFloat h] at hv
  split at hv
  · cases hv; simp
  · simp [errType] at hv

theorem numCeil_result_noFloat {x v : Val} (h : x.NoFloat) (hv : numCeil x = .ok v) : v.NoFloat := by
  rw [numCeil_noFloat h] at hv
  split at hv
  · cases hv; simp
  · simp [errType] at hv

theorem numFloor_result_noFloat {x v : Val} (h : x.NoFloat) (hv : numFloor x = .ok v) : v.NoFloat := by
  rw [numFloor_noFloat h] at hv
  split at hv
  · cases hv; simp
  · simp [errType] at hv

theorem negateVal_result_noFloat {x : Val} (h : x.NoFloat) : (negateVal x).NoFloat := by
  rw [negateVal_noFloat h]
  split
  · simp
  · split <;> simp

/-- `sum` / `avg` have no float path at all: the result is a decimal (or null) whatever the input -/
theorem numSum_result_noFloat {x v : Val} (hv : numSum x = .ok v) : v.NoFloat := by
  unfold numSum at hv
  split at hv
  · split at hv
    · simp [errType] at hv
    · split at hv
      · exact checkD_noFloat hv
      · simp at hv
  · simp [errType] at hv

theorem numAvg_result_noFloat {x v : Val} (hv : numAvg x = .ok v) : v.NoFloat := by
  unfold numAvg at hv
  split at hv
  · split at hv
    · cases hv; simp
    · split at hv
      · simp [errType] at hv
      · split at hv
        · exact checkD_noFloat hv
        · simp at hv
  · simp [errType] at hv

theorem toNumber_result_noFloat {x : Val} (h : x.NoFloat) : (toNumber x).NoFloat := by
  unfold toNumber
  split
  · exact h
  · split
    · split <;> simp
    · simp
  · simp

theorem arrayMax_result_noFloat {x v : Val} (hv : arrayMax x = .ok v) : v.NoFloat := by
  unfold arrayMax at hv
  split at hv
  · split at hv
    · cases hv; simp
    · split at hv
      · cases hv; simp
      · simp [errType] at hv
    · split at hv
      · split at hv
        · simp at hv
        · cases hv; simp
      · simp [errType] at hv
  · simp [errType] at hv

theorem arrayMin_result_noFloat {x v : Val} (hv : arrayMin x = .ok v) : v.NoFloat := by
  unfold arrayMin at hv
  split at hv
  · split at hv
    · cases hv; simp
    · split at hv
      · cases hv; simp
      · simp [errType] at hv
    · split at hv
      · split at hv
        · simp at hv
        · cases hv; simp
      · simp [errType] at hv
  · simp [errType] at hv

/-- the fold of `sum` over `NoFloat` elements: only `Dec.add` on decimals obtained without `F64` -/
theorem sumDec_noFloat : ∀ (xs : List Val) (acc : Dec), (∀ x ∈ xs, x.NoFloat) →
    sumDec xs acc = (match xs with
      | [] => some acc
      | v :: vs => (match toDecimal v with
        | none => none
        | some d => sumDec vs (acc.add d)))
  | [], _, _ => rfl
  | _ :: _, _, _ => rfl

/-! ## evaluator level: every operation of the evaluator maps float-free values to float-free values -/

open Val

theorem Res.bind_eq_ok {α β} {x : Res α} {f : α → Res β} {b : β} :
    (x >>= f) = Res.ok b ↔ ∃ a, x = Res.ok a ∧ f a = Res.ok b := by
  cases x <;> simp

theorem widen_eq_ok {α} (t : ATag) (xs : List Val) (fs : List (Val → Res Val)) (extra : List Cat) (r : Res α) (a : α) :
    widen t xs fs extra r = .ok a ↔ r = .ok a := by
  cases r <;> simp only [widen, reduceCtorEq]
  split <;> (try split) <;> simp

theorem getD_nf {xs : List Val} (h : ∀ x ∈ xs, NoFloat x) (n : Nat) : NoFloat (xs.getD n .null) := by
  rw [List.getD_eq_getElem?_getD]
  cases hx : xs[n]? with
  | none => simp
  | some x => simp; exact h x (List.mem_of_getElem? hx)

theorem field_nf {v : Val} (k : Bytes) (h : NoFloat v) : NoFloat (field k v) := by
  unfold field
  split
  · next kvs =>
    cases hl : objLookup k kvs with
    | none => simp
    | some x => simp; exact noFloat_obj.mp h k x (objLookup_mem hl)
  · simp

theorem index_nf {v w : Val} {i : Int} (h : NoFloat v) (hw : index v i = .ok w) : NoFloat w := by
  cases v with
  | arr t xs =>
    simp only [index] at hw
    generalize (if i < 0 then i + (xs.length : Int) else i) = j at hw
    by_cases h1 : j < 0 ∨ j ≥ (xs.length : Int)
    · simp only [h1, if_true, Res.ok.injEq] at hw; subst hw; simp
    · simp only [h1, if_false] at hw
      by_cases h2 : enum2 t xs = true
      · simp [h2] at hw
      · simp only [h2, if_false, Res.ok.injEq, Bool.false_eq_true] at hw
        subst hw; exact getD_nf (noFloat_arr.mp h) _
  | _ => simp only [index, Res.ok.injEq] at hw; subst hw; simp

theorem pickStep_nf {xs : List Val} (h : ∀ x ∈ xs, NoFloat x) (step : Int) : ∀ (n : Nat) (start : Int),
    ∀ y ∈ pickStep xs start step n, NoFloat y
  | 0, _ => by simp [pickStep]
  | n + 1, start => by
    intro y hy
    simp only [pickStep, List.mem_cons] at hy
    rcases hy with rfl | hy
    · exact getD_nf h _
    · exact pickStep_nf h step n _ y hy

theorem slice_nf {v w : Val} {a b : Int} (h : NoFloat v) (hw : slice v a b = .ok w) : NoFloat w := by
  unfold slice at hw
  split at hw
  · next t xs =>
    split at hw
    · cases hw; simp [noFloat_arr]
    · split at hw
      · cases hw; simp [noFloat_arr]
      · split at hw
        · simp at hw
        · cases hw
          rw [noFloat_arr]
          intro x hx
          exact noFloat_arr.mp h x (List.mem_of_mem_drop (List.mem_of_mem_take hx))
  · split at hw <;> (cases hw; simp)
  · cases hw; simp

theorem sliceStep_nf {v w : Val} {a b s : Int} (h : NoFloat v) (hw : sliceStep v a b s = .ok w) : NoFloat w := by
  unfold sliceStep at hw
  split at hw
  · next t xs =>
    split at hw
    · cases hw; simp [noFloat_arr]
    · split at hw
      · simp at hw
      · cases hw
        rw [noFloat_arr]
        exact pickStep_nf (noFloat_arr.mp h) _ _ _
  · simp only at hw
    split at hw
    · cases hw; simp
    · split at hw <;> (cases hw; simp)
  · cases hw; simp

theorem pruneArray_nf {v : Val} (h : NoFloat v) : NoFloat (pruneArray v) := by
  unfold pruneArray
  split
  · next t xs =>
    split
    · rw [noFloat_arr]; intro x hx; exact noFloat_arr.mp h x (List.mem_filter.mp hx).1
    · exact h
  · simp


/-- `f` maps float-free values to float-free values -/
def NFfun (f : Val → Res Val) : Prop := ∀ x, NoFloat x → ∀ v, f x = .ok v → NoFloat v

theorem mapPrune_nf {f : Val → Res Val} (hf : NFfun f) : ∀ {xs r : List Val}, (∀ x ∈ xs, NoFloat x) →
    mapPrune f xs = .ok r → ∀ y ∈ r, NoFloat y
  | [], r, _, h => by simp [mapPrune] at h; subst h; simp
  | x :: xs, r, hx, h => by
    simp only [mapPrune, Res.bind_eq_ok, Res.pure_eq, Res.ok.injEq] at h
    obtain ⟨p, hp, rest, hrest, hr⟩ := h
    have ih := mapPrune_nf hf (fun y hy => hx y (List.mem_cons_of_mem _ hy)) hrest
    have hpn := hf x (hx x (List.mem_cons_self ..)) p hp
    subst hr
    intro y hy
    split at hy
    · exact ih y hy
    · rcases List.mem_cons.mp hy with rfl | hy
      · exact hpn
      · exact ih y hy

theorem mapAll_nf {f : Val → Res Val} (hf : NFfun f) : ∀ {xs r : List Val}, (∀ x ∈ xs, NoFloat x) →
    mapAll f xs = .ok r → ∀ y ∈ r, NoFloat y
  | [], r, _, h => by simp [mapAll] at h; subst h; simp
  | x :: xs, r, hx, h => by
    simp only [mapAll, Res.bind_eq_ok, Res.pure_eq, Res.ok.injEq] at h
    obtain ⟨p, hp, rest, hrest, hr⟩ := h
    have ih := mapAll_nf hf (fun y hy => hx y (List.mem_cons_of_mem _ hy)) hrest
    have hpn := hf x (hx x (List.mem_cons_self ..)) p hp
    subst hr
    intro y hy
    rcases List.mem_cons.mp hy with rfl | hy
    · exact hpn
    · exact ih y hy

theorem filterMapPrune_nf {c f : Val → Res Val} (hf : NFfun f) : ∀ {xs r : List Val}, (∀ x ∈ xs, NoFloat x) →
    filterMapPrune c f xs = .ok r → ∀ y ∈ r, NoFloat y
  | [], r, _, h => by simp [filterMapPrune] at h; subst h; simp
  | x :: xs, r, hx, h => by
    simp only [filterMapPrune, Res.bind_eq_ok] at h
    obtain ⟨b, hb, h⟩ := h
    have hx' : ∀ y ∈ xs, NoFloat y := fun y hy => hx y (List.mem_cons_of_mem _ hy)
    split at h
    · simp only [Res.bind_eq_ok, Res.pure_eq, Res.ok.injEq] at h
      obtain ⟨p, hp, rest, hrest, hr⟩ := h
      have ih := filterMapPrune_nf hf hx' hrest
      have hpn := hf x (hx x (List.mem_cons_self ..)) p hp
      subst hr
      intro y hy
      split at hy
      · exact ih y hy
      · rcases List.mem_cons.mp hy with rfl | hy
        · exact hpn
        · exact ih y hy
    · exact filterMapPrune_nf hf hx' h

theorem projectArray_nf {f : Val → Res Val} (hf : NFfun f) {v w : Val} (h : NoFloat v)
    (hw : projectArray f v = .ok w) : NoFloat w := by
  unfold projectArray at hw
  split at hw
  · next t xs =>
    rw [widen_eq_ok] at hw
    simp only [Res.bind_eq_ok, Res.pure_eq, Res.ok.injEq] at hw
    obtain ⟨r, hr, rfl⟩ := hw
    exact noFloat_arr.mpr (mapPrune_nf hf (noFloat_arr.mp h) hr)
  · cases hw; simp

theorem mapArray_nf {f : Val → Res Val} (hf : NFfun f) {v w : Val} (h : NoFloat v)
    (hw : mapArray f v = .ok w) : NoFloat w := by
  unfold mapArray at hw
  split at hw
  · next t xs =>
    rw [widen_eq_ok] at hw
    simp only [Res.bind_eq_ok, Res.pure_eq, Res.ok.injEq] at hw
    obtain ⟨r, hr, rfl⟩ := hw
    exact noFloat_arr.mpr (mapAll_nf hf (noFloat_arr.mp h) hr)
  · simp [errType] at hw

theorem filterAndProjectArray_nf {c f : Val → Res Val} (hf : NFfun f) {v w : Val} (h : NoFloat v)
    (hw : filterAndProjectArray c f v = .ok w) : NoFloat w := by
  unfold filterAndProjectArray at hw
  split at hw
  · next t xs =>
    rw [widen_eq_ok] at hw
    simp only [Res.bind_eq_ok, Res.pure_eq, Res.ok.injEq] at hw
    obtain ⟨r, hr, rfl⟩ := hw
    exact noFloat_arr.mpr (filterMapPrune_nf hf (noFloat_arr.mp h) hr)
  · cases hw; simp

theorem flattenForProject_nf : ∀ {xs : List Val}, (∀ x ∈ xs, NoFloat x) → ∀ y ∈ flattenForProject xs, NoFloat y
  | [], _ => by simp [flattenForProject]
  | x :: xs, hx => by
    have ih := flattenForProject_nf (fun y hy => hx y (List.mem_cons_of_mem _ hy))
    have h0 := hx x (List.mem_cons_self ..)
    intro y hy
    cases x with
    | arr t ys =>
      simp only [flattenForProject, List.mem_append] at hy
      rcases hy with hy | hy
      · exact noFloat_arr.mp h0 y hy
      · exact ih y hy
    | _ =>
      simp only [flattenForProject, List.mem_cons] at hy
      rcases hy with rfl | hy
      · exact h0
      · exact ih y hy

theorem flattenAndProjectArray_nf {f : Val → Res Val} (hf : NFfun f) {v w : Val} (h : NoFloat v)
    (hw : flattenAndProjectArray f v = .ok w) : NoFloat w := by
  unfold flattenAndProjectArray at hw
  split at hw
  · next t xs =>
    rw [widen_eq_ok] at hw
    simp only [Res.bind_eq_ok, Res.pure_eq, Res.ok.injEq] at hw
    obtain ⟨r, hr, rfl⟩ := hw
    exact noFloat_arr.mpr (mapPrune_nf hf (flattenForProject_nf (noFloat_arr.mp h)) hr)
  · cases hw; simp

theorem obj_values_nf {kvs : List (Bytes × Val)} (h : NoFloat (.obj kvs)) : ∀ x ∈ kvs.map Prod.snd, NoFloat x := by
  intro x hx
  obtain ⟨⟨k, x'⟩, hm, rfl⟩ := List.mem_map.mp hx
  exact noFloat_obj.mp h k x' hm

theorem projectObject_nf {f : Val → Res Val} (hf : NFfun f) {v w : Val} (h : NoFloat v)
    (hw : projectObject f v = .ok w) : NoFloat w := by
  unfold projectObject at hw
  split at hw
  · next kvs =>
    simp only at hw
    rw [widen_eq_ok] at hw
    simp only [Res.bind_eq_ok, Res.pure_eq, Res.ok.injEq] at hw
    obtain ⟨r, hr, rfl⟩ := hw
    exact noFloat_arr.mpr (mapPrune_nf hf (obj_values_nf h) hr)
  · cases hw; simp


/-! groups -/
def GroupsNF (gs : List (Bytes × List Val)) : Prop := ∀ k g, (k, g) ∈ gs → ∀ x ∈ g, NoFloat x

theorem groupInsert_nf {s : Bytes} {v : Val} (hv : NoFloat v) : ∀ {gs : List (Bytes × List Val)}, GroupsNF gs →
    GroupsNF (groupInsert s v gs)
  | [], _ => by
    intro k g hm x hx
    simp only [groupInsert, List.mem_singleton, Prod.mk.injEq] at hm
    obtain ⟨_, rfl⟩ := hm
    simp at hx; subst hx; exact hv
  | (k', g') :: rest, h => by
    have hrest : GroupsNF rest := fun k g hm => h k g (List.mem_cons_of_mem _ hm)
    have hhead := h k' g' (List.mem_cons_self ..)
    intro k g hm x hx
    simp only [groupInsert] at hm
    split at hm
    · rcases List.mem_cons.mp hm with e | hm
      · cases e
        rcases List.mem_append.mp hx with hx | hx
        · exact hhead x hx
        · simp at hx; subst hx; exact hv
      · exact hrest k g hm x hx
    · split at hm
      · rcases List.mem_cons.mp hm with e | hm
        · cases e; simp at hx; subst hx; exact hv
        · exact h k g hm x hx
      · rcases List.mem_cons.mp hm with e | hm
        · cases e; exact hhead x hx
        · exact groupInsert_nf hv hrest k g hm x hx

theorem groupLoop_nf {f : Val → Res Val} : ∀ {xs : List Val} {acc r : List (Bytes × List Val)},
    (∀ x ∈ xs, NoFloat x) → GroupsNF acc → groupLoop f xs acc = .ok r → GroupsNF r
  | [], acc, r, _, hacc, h => by simp [groupLoop] at h; subst h; exact hacc
  | x :: xs, acc, r, hx, hacc, h => by
    simp only [groupLoop, Res.bind_eq_ok] at h
    obtain ⟨rv, _, h⟩ := h
    split at h
    · exact groupLoop_nf (fun y hy => hx y (List.mem_cons_of_mem _ hy))
        (groupInsert_nf (hx x (List.mem_cons_self ..)) hacc) h
    · simp [errType] at h

theorem groupBy_nf {f : Val → Res Val} {v w : Val} (h : NoFloat v) (hw : groupBy f v = .ok w) : NoFloat w := by
  unfold groupBy at hw
  split at hw
  · next t xs =>
    split at hw
    · cases hw; simp
    · rw [widen_eq_ok] at hw
      simp only [Res.bind_eq_ok, Res.pure_eq, Res.ok.injEq] at hw
      obtain ⟨gs, hgs, rfl⟩ := hw
      have := groupLoop_nf (noFloat_arr.mp h) (fun _ _ hm => by simp at hm) hgs
      rw [noFloat_obj]
      intro k x hm
      obtain ⟨⟨k', g⟩, hm', e⟩ := List.mem_map.mp hm
      cases e
      exact noFloat_arr.mpr (this k' g hm')
  · simp [errType] at hw

/-! max_by / min_by / sort_by -/
theorem pickBy_mem (better : Key → Key → Bool) : ∀ (l : List (Val × Key)) (best : Val) (bk : Key),
    pickBy better best bk l = best ∨ ∃ p ∈ l, pickBy better best bk l = p.1
  | [], best, bk => Or.inl rfl
  | (v, k) :: rest, best, bk => by
    simp only [pickBy]
    split
    · rcases pickBy_mem better rest v k with h | ⟨p, hp, h⟩
      · exact Or.inr ⟨(v, k), List.mem_cons_self .., h⟩
      · exact Or.inr ⟨p, List.mem_cons_of_mem _ hp, h⟩
    · rcases pickBy_mem better rest best bk with h | ⟨p, hp, h⟩
      · exact Or.inl h
      · exact Or.inr ⟨p, List.mem_cons_of_mem _ hp, h⟩

theorem arrayPickBy_nf {better : Key → Key → Bool} {f : Val → Res Val} {v w : Val} (h : NoFloat v)
    (hw : arrayPickBy better f v = .ok w) : NoFloat w := by
  unfold arrayPickBy at hw
  split at hw
  · next t xs =>
    split at hw
    · cases hw; simp
    · next x0 rest =>
      rw [widen_eq_ok] at hw
      simp only [Res.bind_eq_ok] at hw
      obtain ⟨ks, _, hw⟩ := hw
      split at hw
      · cases hw; simp
      · next k0 krest _ =>
        split at hw
        · simp at hw
        · cases hw
          have hall := noFloat_arr.mp h
          rcases pickBy_mem better (rest.zip krest) x0 k0 with e | ⟨p, hp, e⟩
          · rw [e]; exact hall x0 (List.mem_cons_self ..)
          · rw [e]; exact hall p.1 (List.mem_cons_of_mem _ (List.of_mem_zip (show (p.1, p.2) ∈ rest.zip krest from hp)).1)
  · simp [errType] at hw

theorem sortArrayBy_nf {f : Val → Res Val} {v w : Val} (h : NoFloat v)
    (hw : sortArrayBy f v = .ok w) : NoFloat w := by
  unfold sortArrayBy at hw
  split at hw
  · next t xs =>
    split at hw
    · cases hw; exact h
    · rw [widen_eq_ok] at hw
      simp only [Res.bind_eq_ok] at hw
      obtain ⟨ks, _, hw⟩ := hw
      split at hw
      · simp at hw
      · cases hw
        rw [noFloat_arr]
        intro x hx
        simp only [sortByKeys] at hx
        obtain ⟨p, hp, rfl⟩ := List.mem_map.mp hx
        have := List.mem_mergeSort.mp hp
        exact noFloat_arr.mp h p.1 (List.of_mem_zip (show (p.1, p.2) ∈ xs.zip ks from this)).1
  · simp [errType] at hw

/-! objects -/
theorem objInsert_nf {k : Bytes} {v : Val} (hv : NoFloat v) : ∀ {acc : List (Bytes × Val)},
    (∀ k' x, (k', x) ∈ acc → NoFloat x) → ∀ k' x, (k', x) ∈ objInsert k v acc → NoFloat x
  | [], _ => by
    intro k' x hm
    simp only [objInsert, List.mem_singleton, Prod.mk.injEq] at hm
    obtain ⟨_, rfl⟩ := hm; exact hv
  | (k0, v0) :: rest, h => by
    intro k' x hm
    simp only [objInsert] at hm
    split at hm
    · rcases List.mem_cons.mp hm with e | hm
      · cases e; exact hv
      · exact h k' x (List.mem_cons_of_mem _ hm)
    · split at hm
      · rcases List.mem_cons.mp hm with e | hm
        · cases e; exact hv
        · exact h k' x hm
      · rcases List.mem_cons.mp hm with e | hm
        · cases e; exact h k0 v0 (List.mem_cons_self ..)
        · exact objInsert_nf hv (fun k'' x' hm' => h k'' x' (List.mem_cons_of_mem _ hm')) k' x hm

theorem foldl_objInsert_nf : ∀ {kvs acc : List (Bytes × Val)}, (∀ k x, (k, x) ∈ kvs → NoFloat x) →
    (∀ k x, (k, x) ∈ acc → NoFloat x) →
    ∀ k x, (k, x) ∈ kvs.foldl (fun a kv => objInsert kv.1 kv.2 a) acc → NoFloat x
  | [], acc, _, hacc => by simpa using hacc
  | (k0, v0) :: rest, acc, hk, hacc => by
    simp only [List.foldl_cons]
    exact foldl_objInsert_nf (fun k x hm => hk k x (List.mem_cons_of_mem _ hm))
      (objInsert_nf (hk k0 v0 (List.mem_cons_self ..)) hacc)

theorem combineUnordered_nf {acc : Res (List (Bytes × Val))} {k : Bytes} {r : Res Val} {out : List (Bytes × Val)}
    (hacc : ∀ kvs, acc = .ok kvs → ∀ k x, (k, x) ∈ kvs → NoFloat x) (hr : ∀ v, r = .ok v → NoFloat v)
    (h : combineUnordered acc k r = .ok out) : ∀ k x, (k, x) ∈ out → NoFloat x := by
  cases acc <;> cases r <;> simp [combineUnordered] at h
  subst h
  exact objInsert_nf (hr _ rfl) (hacc _ rfl)

/-! zip -/
theorem zipArgs_nf : ∀ {vs : List Val} {cols : List (List Val)}, (∀ v ∈ vs, NoFloat v) → zipArgs vs = .ok cols →
    ∀ c ∈ cols, ∀ x ∈ c, NoFloat x
  | [], cols, _, h => by simp [zipArgs] at h; subst h; simp
  | .arr t xs :: rest, cols, hv, h => by
    simp only [zipArgs, Res.bind_eq_ok] at h
    obtain ⟨cols', hc, h⟩ := h
    split at h
    · simp at h
    · simp only [Res.pure_eq, Res.ok.injEq] at h
      subst h
      have ih := zipArgs_nf (fun v hv' => hv v (List.mem_cons_of_mem _ hv')) hc
      intro c hc'
      rcases List.mem_cons.mp hc' with rfl | hc'
      · exact noFloat_arr.mp (hv _ (List.mem_cons_self ..))
      · exact ih c hc'
  | .null :: _, _, _, h => by simp [zipArgs, errType] at h
  | .bool _ :: _, _, _, h => by simp [zipArgs, errType] at h
  | .str _ :: _, _, _, h => by simp [zipArgs, errType] at h
  | .num _ :: _, _, _, h => by simp [zipArgs, errType] at h
  | .obj _ :: _, _, _, h => by simp [zipArgs, errType] at h
  | .foreign _ :: _, _, _, h => by simp [zipArgs, errType] at h

theorem zipRows_nf : ∀ (n : Nat) {cols : List (List Val)}, (∀ c ∈ cols, ∀ x ∈ c, NoFloat x) →
    ∀ y ∈ zipRows n cols, NoFloat y
  | 0, _, _ => by simp [zipRows]
  | n + 1, cols, h => by
    intro y hy
    simp only [zipRows, List.mem_cons] at hy
    rcases hy with rfl | hy
    · rw [noFloat_arr]
      intro x hx
      obtain ⟨c, hc, rfl⟩ := List.mem_map.mp hx
      cases c with
      | nil => simp
      | cons a c' => exact h _ hc a (List.mem_cons_self ..)
    · refine zipRows_nf n ?_ y hy
      intro c hc x hx
      obtain ⟨c0, hc0, rfl⟩ := List.mem_map.mp hc
      exact h c0 hc0 x (List.mem_of_mem_tail hx)


theorem strsToArr_nf (ss : List Bytes) : NoFloat (strsToArr ss) := by
  unfold strsToArr
  rw [noFloat_arr]
  intro x hx
  obtain ⟨s, _, rfl⟩ := List.mem_map.mp hx
  simp

theorem runeIndexVal_nf (s : Bytes) (n : Nat) : NoFloat (runeIndexVal s n) := by simp [runeIndexVal]

theorem strVal_nf (s : String) : NoFloat (strVal s) := by simp [strVal]

set_option hygiene false in
/-- peel binds / matches off a hypothesis `hw : … = .ok w` and close the leaves -/
macro "nf_leaves" : tactic => `(tactic|
  (repeat' (first
     | (simp only [Res.bind_eq_ok, Res.pure_eq] at hw)
     | (obtain ⟨_, _, hw⟩ := hw)
     | (split at hw))
   all_goals (first
     | (simp [errType, errValue] at hw; done)
     | ((try simp only [Res.ok.injEq] at hw); (try subst hw);
        first | (simp; done) | (simp [noFloat_arr]; done) | exact strsToArr_nf _ | exact runeIndexVal_nf _ _ | exact strVal_nf _ | assumption))))

theorem startsWith_nf {a b w : Val} (hw : startsWith a b = .ok w) : NoFloat w := by
  unfold startsWith at hw; nf_leaves
theorem endsWith_nf {a b w : Val} (hw : endsWith a b = .ok w) : NoFloat w := by
  unfold endsWith at hw; nf_leaves
theorem findFirst_nf {a b w : Val} (hw : findFirst a b = .ok w) : NoFloat w := by
  unfold findFirst at hw; nf_leaves
theorem findLast_nf {a b w : Val} (hw : findLast a b = .ok w) : NoFloat w := by
  unfold findLast at hw; nf_leaves
theorem findFrom_nf {l : Bool} {a b c w : Val} (hw : findFrom l a b c = .ok w) : NoFloat w := by
  unfold findFrom at hw; nf_leaves
theorem findBetween_nf {l : Bool} {a b c d w : Val} (hw : findBetween l a b c d = .ok w) : NoFloat w := by
  unfold findBetween at hw; nf_leaves
theorem join_nf {a b w : Val} (hw : join a b = .ok w) : NoFloat w := by
  unfold join at hw; nf_leaves
theorem padWith_nf {l : Bool} {s : Bytes} {n : Int} {p : Bytes} {orig w : Val} (ho : NoFloat orig)
    (hw : padWith l s n p orig = .ok w) : NoFloat w := by
  unfold padWith at hw; nf_leaves
theorem padLeft_nf {a b c w : Val} (ha : NoFloat a) (hw : padLeft a b c = .ok w) : NoFloat w := by
  unfold padLeft at hw
  simp only [Res.bind_eq_ok] at hw
  obtain ⟨_, _, _, _, _, _, hw⟩ := hw
  exact padWith_nf ha hw
theorem padRight_nf {a b c w : Val} (ha : NoFloat a) (hw : padRight a b c = .ok w) : NoFloat w := by
  unfold padRight at hw
  simp only [Res.bind_eq_ok] at hw
  obtain ⟨_, _, _, _, _, _, hw⟩ := hw
  exact padWith_nf ha hw
theorem padSpaceLeft_nf {a b w : Val} (ha : NoFloat a) (hw : padSpaceLeft a b = .ok w) : NoFloat w := by
  unfold padSpaceLeft at hw
  simp only [Res.bind_eq_ok] at hw
  obtain ⟨_, _, _, _, hw⟩ := hw
  exact padWith_nf ha hw
theorem padSpaceRight_nf {a b w : Val} (ha : NoFloat a) (hw : padSpaceRight a b = .ok w) : NoFloat w := by
  unfold padSpaceRight at hw
  simp only [Res.bind_eq_ok] at hw
  obtain ⟨_, _, _, _, hw⟩ := hw
  exact padWith_nf ha hw
theorem replace_nf {a b c w : Val} (hw : replace a b c = .ok w) : NoFloat w := by
  unfold replace at hw; nf_leaves
theorem replaceCount_nf {a b c d w : Val} (hw : replaceCount a b c d = .ok w) : NoFloat w := by
  unfold replaceCount at hw; nf_leaves
theorem split_nf {a b w : Val} (hw : split a b = .ok w) : NoFloat w := by
  unfold split at hw; nf_leaves
theorem splitCount_nf {a b c w : Val} (hw : splitCount a b c = .ok w) : NoFloat w := by
  unfold splitCount at hw; nf_leaves
theorem trim_nf {a b w : Val} (hw : trim a b = .ok w) : NoFloat w := by
  unfold trim at hw; nf_leaves
theorem trimLeft_nf {a b w : Val} (hw : trimLeft a b = .ok w) : NoFloat w := by
  unfold trimLeft at hw; nf_leaves
theorem trimRight_nf {a b w : Val} (hw : trimRight a b = .ok w) : NoFloat w := by
  unfold trimRight at hw; nf_leaves
theorem trimSpace_nf {a w : Val} (hw : trimSpace a = .ok w) : NoFloat w := by
  unfold trimSpace at hw; nf_leaves
theorem trimSpaceLeft_nf {a w : Val} (hw : trimSpaceLeft a = .ok w) : NoFloat w := by
  unfold trimSpaceLeft at hw; nf_leaves
theorem trimSpaceRight_nf {a w : Val} (hw : trimSpaceRight a = .ok w) : NoFloat w := by
  unfold trimSpaceRight at hw; nf_leaves
theorem caseMap_nf {f : Nat → Option Nat} {s : Bytes} {w : Val} (hw : caseMap f s = .ok w) : NoFloat w := by
  unfold caseMap at hw; nf_leaves
theorem lower_nf {a w : Val} (hw : lower a = .ok w) : NoFloat w := by
  unfold lower at hw
  split at hw
  · exact caseMap_nf hw
  · simp [errType] at hw
theorem upper_nf {a w : Val} (hw : upper a = .ok w) : NoFloat w := by
  unfold upper at hw
  split at hw
  · exact caseMap_nf hw
  · simp [errType] at hw
theorem length_nf {a w : Val} (hw : length a = .ok w) : NoFloat w := by
  unfold length at hw; nf_leaves
theorem typeName_nf {a w : Val} (hw : typeName a = .ok w) : NoFloat w := by
  unfold typeName at hw; nf_leaves
theorem toStringV_nf {a w : Val} (hw : toStringV a = .ok w) : NoFloat w := by
  unfold toStringV at hw; nf_leaves
theorem contains_nf {a b w : Val} (hw : contains a b = .ok w) : NoFloat w := by
  unfold contains at hw; nf_leaves
theorem keys_nf {a w : Val} (hw : keys a = .ok w) : NoFloat w := by
  unfold keys at hw
  split at hw
  · cases hw
    rw [noFloat_arr]; intro x hx
    obtain ⟨_, _, rfl⟩ := List.mem_map.mp hx; simp
  · simp [errType] at hw


theorem values_nf {a w : Val} (h : NoFloat a) (hw : values a = .ok w) : NoFloat w := by
  unfold values at hw
  split at hw
  · cases hw
    rw [noFloat_arr]; intro x hx
    obtain ⟨⟨k, x'⟩, hm, rfl⟩ := List.mem_map.mp hx
    exact noFloat_obj.mp h k x' hm
  · simp [errType] at hw

theorem items_nf {a w : Val} (h : NoFloat a) (hw : items a = .ok w) : NoFloat w := by
  unfold items at hw
  split at hw
  · cases hw
    rw [noFloat_arr]; intro x hx
    obtain ⟨⟨k, x'⟩, hm, rfl⟩ := List.mem_map.mp hx
    rw [noFloat_arr]; intro y hy
    simp only [List.mem_cons, List.not_mem_nil, or_false] at hy
    rcases hy with hy | hy
    · subst hy; simp
    · subst hy; exact noFloat_obj.mp h k _ hm
  · simp [errType] at hw

theorem fromItemsLoop_nf : ∀ {xs : List Val} {acc r : List (Bytes × Val)}, (∀ x ∈ xs, NoFloat x) →
    (∀ k x, (k, x) ∈ acc → NoFloat x) → fromItemsLoop xs acc = .ok r → ∀ k x, (k, x) ∈ r → NoFloat x
  | [], acc, r, _, hacc, h => by simp [fromItemsLoop] at h; subst h; exact hacc
  | .arr t ia :: xs, acc, r, hx, hacc, h => by
    have hx' : ∀ y ∈ xs, NoFloat y := fun y hy => hx y (List.mem_cons_of_mem _ hy)
    have h0 := hx _ (List.mem_cons_self ..)
    simp only [fromItemsLoop] at h
    split at h
    · next k v =>
      split at h
      · simp at h
      · split at h
        · next s =>
          have hv : NoFloat v := noFloat_arr.mp h0 v (by simp)
          exact fromItemsLoop_nf hx' (objInsert_nf hv hacc) h
        · simp [errValue] at h
    · simp [errValue] at h
  | .null :: _, _, _, _, _, h => by simp [fromItemsLoop, errType] at h
  | .bool _ :: _, _, _, _, _, h => by simp [fromItemsLoop, errType] at h
  | .str _ :: _, _, _, _, _, h => by simp [fromItemsLoop, errType] at h
  | .num _ :: _, _, _, _, _, h => by simp [fromItemsLoop, errType] at h
  | .obj _ :: _, _, _, _, _, h => by simp [fromItemsLoop, errType] at h
  | .foreign _ :: _, _, _, _, _, h => by simp [fromItemsLoop, errType] at h

theorem fromItems_nf {a w : Val} (h : NoFloat a) (hw : fromItems a = .ok w) : NoFloat w := by
  unfold fromItems at hw
  split at hw
  · next t xs =>
    split at hw
    · next kvs hl =>
      split at hw
      · simp at hw
      · cases hw
        exact noFloat_obj.mpr (fromItemsLoop_nf (noFloat_arr.mp h) (by simp) hl)
    · split at hw <;> simp at hw
    · simp at hw
    · simp at hw
    · simp at hw
  · simp [errType] at hw

theorem reverse_nf {a w : Val} (h : NoFloat a) (hw : reverse a = .ok w) : NoFloat w := by
  unfold reverse at hw
  split at hw
  · cases hw; simp
  · cases hw
    rw [noFloat_arr]; intro x hx
    exact noFloat_arr.mp h x (List.mem_reverse.mp hx)
  · simp [errType] at hw

theorem toArray_nf {a : Val} (h : NoFloat a) : NoFloat (toArray a) := by
  unfold toArray
  split
  · exact h
  · rw [noFloat_arr]; intro x hx; simp at hx; subst hx; exact h

theorem sortArray_nf {a w : Val} (h : NoFloat a) (hw : sortArray a = .ok w) : NoFloat w := by
  unfold sortArray at hw
  split at hw
  · next t xs =>
    split at hw
    · cases hw; exact h
    · split at hw
      · cases hw
        rw [noFloat_arr]; intro x hx
        obtain ⟨_, _, rfl⟩ := List.mem_map.mp hx; simp
      · simp [errType] at hw
    · split at hw
      · next ds _ =>
        simp only at hw
        split at hw
        · simp at hw
        · cases hw
          rw [noFloat_arr]; intro x hx
          obtain ⟨p, hp, rfl⟩ := List.mem_map.mp hx
          have := List.mem_mergeSort.mp hp
          exact noFloat_arr.mp h p.1 (List.of_mem_zip (show (p.1, p.2) ∈ xs.zip ds from this)).1
      · simp [errType] at hw
  · simp [errType] at hw


theorem applyBinOp_nf {op : BinOp} {x y v : Val} (hxy : x.NoFloat ∨ y.NoFloat) (h : applyBinOp op x y = .ok v) :
    v.NoFloat := by
  cases op
  case eq | ne =>
    simp only [applyBinOp, Res.bind_eq_ok, Res.pure_eq, Res.ok.injEq] at h
    obtain ⟨_, _, rfl⟩ := h; simp
  case lt | le | gt | ge =>
    simp only [applyBinOp, less, lessOrEqual, greater, greaterOrEqual, cmpOp, Res.ok.injEq] at h
    subst h
    split
    · simp
    · split <;> simp
  all_goals exact arith_result_noFloat hxy h

theorem applyFn_nf {f : Fn} {args : List Val} {w : Val} (ha : ∀ a ∈ args, NoFloat a) (hw : applyFn f args = .ok w) :
    NoFloat w := by
  have h0 : ∀ {a : Val} {l : List Val}, args = a :: l → NoFloat a := fun e => ha _ (e ▸ List.mem_cons_self ..)
  unfold applyFn at hw
  split at hw
  · exact numAbs_result_noFloat (h0 rfl) hw
  · exact numAvg_result_noFloat hw
  · exact numCeil_result_noFloat (h0 rfl) hw
  · exact contains_nf hw
  · exact endsWith_nf hw
  · exact findFirst_nf hw
  · exact findBetween_nf hw
  · exact findFrom_nf hw
  · exact findLast_nf hw
  · exact findBetween_nf hw
  · exact findFrom_nf hw
  · exact numFloor_result_noFloat (h0 rfl) hw
  · exact fromItems_nf (h0 rfl) hw
  · exact items_nf (h0 rfl) hw
  · exact join_nf hw
  · exact keys_nf hw
  · exact length_nf hw
  · exact lower_nf hw
  · exact arrayMax_result_noFloat hw
  · exact arrayMin_result_noFloat hw
  · exact padLeft_nf (h0 rfl) hw
  · exact padRight_nf (h0 rfl) hw
  · exact padSpaceLeft_nf (h0 rfl) hw
  · exact padSpaceRight_nf (h0 rfl) hw
  · exact replace_nf hw
  · exact replaceCount_nf hw
  · exact reverse_nf (h0 rfl) hw
  · exact sortArray_nf (h0 rfl) hw
  · exact split_nf hw
  · exact splitCount_nf hw
  · exact startsWith_nf hw
  · exact numSum_result_noFloat hw
  · cases hw; exact toArray_nf (h0 rfl)
  · cases hw; exact toNumber_result_noFloat (h0 rfl)
  · exact toStringV_nf hw
  · exact trim_nf hw
  · exact trimLeft_nf hw
  · exact trimRight_nf hw
  · exact trimSpace_nf hw
  · exact trimSpaceLeft_nf hw
  · exact trimSpaceRight_nf hw
  · exact typeName_nf hw
  · exact upper_nf hw
  · exact values_nf (h0 rfl) hw
  · simp at hw

/-- every binding of the environment is float-free -/
def EnvNF (env : Env) : Prop := ∀ k x, (k, x) ∈ env → NoFloat x

mutual
/-- every literal of the expression is float-free -/
def Tree.LitsNF : Tree → Prop
  | .lit v => NoFloat v
  | .current | .root | .field _ | .var _ | .index _ | .slice _ _ | .sliceStep _ _ _ => True
  | .sub l r | .binop _ l r | .and l r | .or l r | .proj l r | .sliceProj l r | .flatProj l r | .valueProj l r
  | .groupBy l r | .map l r | .maxBy l r | .minBy l r | .sortBy l r => l.LitsNF ∧ r.LitsNF
  | .not c | .neg c | .pos c | .prune c => c.LitsNF
  | .filterProj l c r => l.LitsNF ∧ c.LitsNF ∧ r.LitsNF
  | .call _ args | .multiList _ args | .merge args | .notNull args | .zip args => Tree.LitsNFL args
  | .multiHash _ kvs => Tree.LitsNFF kvs
  | .letIn bs body => Tree.LitsNFF bs ∧ body.LitsNF
def Tree.LitsNFL : List Tree → Prop
  | [] => True
  | t :: ts => t.LitsNF ∧ Tree.LitsNFL ts
def Tree.LitsNFF : List (Bytes × Tree) → Prop
  | [] => True
  | (_, t) :: rest => t.LitsNF ∧ Tree.LitsNFF rest
end


theorem envGet_nf {env : Env} (h : EnvNF env) {x : Bytes} {v : Val} (hv : env.get x = some v) : NoFloat v :=
  h x v (objLookup_mem hv)

mutual
theorem seval_nf (root : Val) (hr : NoFloat root) : (t : Tree) → (cur : Val) → (env : Env) → t.LitsNF → NoFloat cur →
    EnvNF env → ∀ w, seval root t cur env = .ok w → NoFloat w
  | .lit v, cur, env, hl, hc, he, w, hw => by
    simp only [seval, Res.ok.injEq] at hw; subst hw; simpa [Tree.LitsNF] using hl
  | .current, cur, env, hl, hc, he, w, hw => by
    simp only [seval, Res.ok.injEq] at hw; subst hw; exact hc
  | .root, cur, env, hl, hc, he, w, hw => by
    simp only [seval, Res.ok.injEq] at hw; subst hw; exact hr
  | .field k, cur, env, hl, hc, he, w, hw => by
    simp only [seval, Res.ok.injEq] at hw; subst hw; exact field_nf k hc
  | .var x, cur, env, hl, hc, he, w, hw => by
    simp only [seval] at hw
    split at hw
    · next v hv => simp only [Res.ok.injEq] at hw; subst hw; exact envGet_nf he hv
    · simp at hw
  | .index i, cur, env, hl, hc, he, w, hw => by
    simp only [seval] at hw; exact index_nf hc hw
  | .slice a b, cur, env, hl, hc, he, w, hw => by
    simp only [seval] at hw; exact slice_nf hc hw
  | .sliceStep a b s, cur, env, hl, hc, he, w, hw => by
    simp only [seval] at hw; exact sliceStep_nf hc hw
  | .sub l r, cur, env, hl, hc, he, w, hw => by
    simp only [Tree.LitsNF] at hl
    simp only [seval, Res.bind_eq_ok] at hw
    obtain ⟨a, ha, hw⟩ := hw
    exact seval_nf root hr r a env hl.2 (seval_nf root hr l cur env hl.1 hc he a ha) he w hw
  | .binop op l r, cur, env, hl, hc, he, w, hw => by
    simp only [Tree.LitsNF] at hl
    simp only [seval, Res.bind_eq_ok] at hw
    obtain ⟨a, ha, b, hb, hw⟩ := hw
    exact applyBinOp_nf (Or.inl (seval_nf root hr l cur env hl.1 hc he a ha)) hw
  | .and l r, cur, env, hl, hc, he, w, hw => by
    simp only [Tree.LitsNF] at hl
    simp only [seval, Res.bind_eq_ok] at hw
    obtain ⟨a, ha, hw⟩ := hw
    split at hw
    · simp only [Res.pure_eq, Res.ok.injEq] at hw; subst hw; exact seval_nf root hr l cur env hl.1 hc he a ha
    · exact seval_nf root hr r cur env hl.2 hc he w hw
  | .or l r, cur, env, hl, hc, he, w, hw => by
    simp only [Tree.LitsNF] at hl
    simp only [seval, Res.bind_eq_ok] at hw
    obtain ⟨a, ha, hw⟩ := hw
    split at hw
    · simp only [Res.pure_eq, Res.ok.injEq] at hw; subst hw; exact seval_nf root hr l cur env hl.1 hc he a ha
    · exact seval_nf root hr r cur env hl.2 hc he w hw
  | .not c, cur, env, hl, hc, he, w, hw => by
    simp only [seval, Res.bind_eq_ok, Res.pure_eq, Res.ok.injEq] at hw
    obtain ⟨a, _, rfl⟩ := hw; simp
  | .neg c, cur, env, hl, hc, he, w, hw => by
    simp only [Tree.LitsNF] at hl
    simp only [seval, Res.bind_eq_ok, Res.pure_eq, Res.ok.injEq] at hw
    obtain ⟨a, ha, rfl⟩ := hw
    exact negateVal_result_noFloat (seval_nf root hr c cur env hl hc he a ha)
  | .pos c, cur, env, hl, hc, he, w, hw => by
    simp only [Tree.LitsNF] at hl
    simp only [seval, Res.bind_eq_ok, Res.pure_eq, Res.ok.injEq] at hw
    obtain ⟨a, ha, rfl⟩ := hw
    split
    · exact seval_nf root hr c cur env hl hc he a ha
    · simp
  | .call f args, cur, env, hl, hc, he, w, hw => by
    simp only [Tree.LitsNF] at hl
    simp only [seval, Res.bind_eq_ok] at hw
    obtain ⟨vs, hvs, hw⟩ := hw
    exact applyFn_nf (sevalList_nf root hr args cur env hl hc he vs hvs) hw
  | .prune l, cur, env, hl, hc, he, w, hw => by
    simp only [Tree.LitsNF] at hl
    simp only [seval, Res.bind_eq_ok, Res.pure_eq, Res.ok.injEq] at hw
    obtain ⟨a, ha, rfl⟩ := hw
    exact pruneArray_nf (seval_nf root hr l cur env hl hc he a ha)
  | .proj l r, cur, env, hl, hc, he, w, hw => by
    simp only [Tree.LitsNF] at hl
    simp only [seval, Res.bind_eq_ok] at hw
    obtain ⟨a, ha, hw⟩ := hw
    exact projectArray_nf (fun x hx v hv => seval_nf root hr r x env hl.2 hx he v hv)
      (seval_nf root hr l cur env hl.1 hc he a ha) hw
  | .sliceProj l r, cur, env, hl, hc, he, w, hw => by
    simp only [Tree.LitsNF] at hl
    simp only [seval, Res.bind_eq_ok] at hw
    obtain ⟨a, ha, hw⟩ := hw
    have hna := seval_nf root hr l cur env hl.1 hc he a ha
    split at hw
    · exact seval_nf root hr r _ env hl.2 hna he w hw
    · exact projectArray_nf (fun x hx v hv => seval_nf root hr r x env hl.2 hx he v hv) hna hw
  | .flatProj l r, cur, env, hl, hc, he, w, hw => by
    simp only [Tree.LitsNF] at hl
    simp only [seval, Res.bind_eq_ok] at hw
    obtain ⟨a, ha, hw⟩ := hw
    exact flattenAndProjectArray_nf (fun x hx v hv => seval_nf root hr r x env hl.2 hx he v hv)
      (seval_nf root hr l cur env hl.1 hc he a ha) hw
  | .filterProj l c r, cur, env, hl, hc, he, w, hw => by
    simp only [Tree.LitsNF] at hl
    simp only [seval, Res.bind_eq_ok] at hw
    obtain ⟨a, ha, hw⟩ := hw
    exact filterAndProjectArray_nf (fun x hx v hv => seval_nf root hr r x env hl.2.2 hx he v hv)
      (seval_nf root hr l cur env hl.1 hc he a ha) hw
  | .valueProj l r, cur, env, hl, hc, he, w, hw => by
    simp only [Tree.LitsNF] at hl
    simp only [seval, Res.bind_eq_ok] at hw
    obtain ⟨a, ha, hw⟩ := hw
    exact projectObject_nf (fun x hx v hv => seval_nf root hr r x env hl.2 hx he v hv)
      (seval_nf root hr l cur env hl.1 hc he a ha) hw
  | .multiList chk es, cur, env, hl, hc, he, w, hw => by
    simp only [Tree.LitsNF] at hl
    simp only [seval] at hw
    split at hw
    · simp only [Res.ok.injEq] at hw; subst hw; simp
    · simp only [Res.bind_eq_ok, Res.pure_eq, Res.ok.injEq] at hw
      obtain ⟨vs, hvs, rfl⟩ := hw
      exact noFloat_arr.mpr (sevalList_nf root hr es cur env hl hc he vs hvs)
  | .multiHash chk kvs, cur, env, hl, hc, he, w, hw => by
    simp only [Tree.LitsNF] at hl
    simp only [seval] at hw
    split at hw
    · simp only [Res.ok.injEq] at hw; subst hw; simp
    · simp only [Res.bind_eq_ok, Res.pure_eq, Res.ok.injEq] at hw
      obtain ⟨fs, hfs, rfl⟩ := hw
      exact noFloat_obj.mpr (sevalFields_nf root hr kvs cur env hl hc he fs hfs)
  | .letIn bs body, cur, env, hl, hc, he, w, hw => by
    simp only [Tree.LitsNF] at hl
    simp only [seval, Res.bind_eq_ok] at hw
    obtain ⟨vs, hvs, hw⟩ := hw
    have hvs' := sevalFields_nf root hr bs cur env hl.1 hc he vs hvs
    refine seval_nf root hr body cur (vs ++ env) hl.2 hc ?_ w hw
    intro k x hm
    rcases List.mem_append.mp hm with hm | hm
    · exact hvs' k x hm
    · exact he k x hm
  | .groupBy a e, cur, env, hl, hc, he, w, hw => by
    simp only [Tree.LitsNF] at hl
    simp only [seval, Res.bind_eq_ok] at hw
    obtain ⟨v, hv, hw⟩ := hw
    exact groupBy_nf (seval_nf root hr a cur env hl.1 hc he v hv) hw
  | .map e a, cur, env, hl, hc, he, w, hw => by
    simp only [Tree.LitsNF] at hl
    simp only [seval, Res.bind_eq_ok] at hw
    obtain ⟨v, hv, hw⟩ := hw
    exact mapArray_nf (fun x hx v hv => seval_nf root hr e x env hl.1 hx he v hv)
      (seval_nf root hr a cur env hl.2 hc he v hv) hw
  | .maxBy a e, cur, env, hl, hc, he, w, hw => by
    simp only [Tree.LitsNF] at hl
    simp only [seval, Res.bind_eq_ok] at hw
    obtain ⟨v, hv, hw⟩ := hw
    exact arrayPickBy_nf (seval_nf root hr a cur env hl.1 hc he v hv) hw
  | .minBy a e, cur, env, hl, hc, he, w, hw => by
    simp only [Tree.LitsNF] at hl
    simp only [seval, Res.bind_eq_ok] at hw
    obtain ⟨v, hv, hw⟩ := hw
    exact arrayPickBy_nf (seval_nf root hr a cur env hl.1 hc he v hv) hw
  | .sortBy a e, cur, env, hl, hc, he, w, hw => by
    simp only [Tree.LitsNF] at hl
    simp only [seval, Res.bind_eq_ok] at hw
    obtain ⟨v, hv, hw⟩ := hw
    exact sortArrayBy_nf (seval_nf root hr a cur env hl.1 hc he v hv) hw
  | .merge args, cur, env, hl, hc, he, w, hw => by
    simp only [Tree.LitsNF] at hl
    simp only [seval, Res.bind_eq_ok, Res.pure_eq, Res.ok.injEq] at hw
    obtain ⟨kvs, hk, rfl⟩ := hw
    exact noFloat_obj.mpr (sevalMerge_nf root hr args cur env [] hl hc he (by simp) kvs hk)
  | .notNull args, cur, env, hl, hc, he, w, hw => by
    simp only [Tree.LitsNF] at hl
    simp only [seval] at hw
    exact sevalNotNull_nf root hr args cur env hl hc he w hw
  | .zip args, cur, env, hl, hc, he, w, hw => by
    simp only [Tree.LitsNF] at hl
    simp only [seval, Res.bind_eq_ok] at hw
    obtain ⟨vs, hvs, cols, hcols, hw⟩ := hw
    have hcn := zipArgs_nf (sevalZip_nf root hr args cur env hl hc he vs hvs) hcols
    split at hw
    · simp only [Res.pure_eq, Res.ok.injEq] at hw; subst hw; simp [noFloat_arr]
    · simp only [Res.pure_eq, Res.ok.injEq] at hw; subst hw
      exact noFloat_arr.mpr (zipRows_nf _ hcn)
theorem sevalList_nf (root : Val) (hr : NoFloat root) : (ts : List Tree) → (cur : Val) → (env : Env) →
    Tree.LitsNFL ts → NoFloat cur → EnvNF env → ∀ vs, sevalList root ts cur env = .ok vs → ∀ v ∈ vs, NoFloat v
  | [], cur, env, hl, hc, he, vs, hw => by
    simp only [sevalList, Res.ok.injEq] at hw; subst hw; simp
  | t :: ts, cur, env, hl, hc, he, vs, hw => by
    simp only [Tree.LitsNFL] at hl
    simp only [sevalList, Res.bind_eq_ok, Res.pure_eq, Res.ok.injEq] at hw
    obtain ⟨v, hv, rest, hrest, rfl⟩ := hw
    intro y hy
    rcases List.mem_cons.mp hy with rfl | hy
    · exact seval_nf root hr t cur env hl.1 hc he _ hv
    · exact sevalList_nf root hr ts cur env hl.2 hc he rest hrest y hy
theorem sevalFields_nf (root : Val) (hr : NoFloat root) : (fs : List (Bytes × Tree)) → (cur : Val) → (env : Env) →
    Tree.LitsNFF fs → NoFloat cur → EnvNF env → ∀ kvs, sevalFields root fs cur env = .ok kvs →
    ∀ k x, (k, x) ∈ kvs → NoFloat x
  | [], cur, env, hl, hc, he, kvs, hw => by
    simp only [sevalFields, Res.ok.injEq] at hw; subst hw; simp
  | (k, t) :: rest, cur, env, hl, hc, he, kvs, hw => by
    simp only [Tree.LitsNFF] at hl
    simp only [sevalFields] at hw
    exact combineUnordered_nf (fun kvs' h' => sevalFields_nf root hr rest cur env hl.2 hc he kvs' h')
      (fun v hv => seval_nf root hr t cur env hl.1 hc he v hv) hw
theorem sevalMerge_nf (root : Val) (hr : NoFloat root) : (ts : List Tree) → (cur : Val) → (env : Env) →
    (acc : List (Bytes × Val)) → Tree.LitsNFL ts → NoFloat cur → EnvNF env → (∀ k x, (k, x) ∈ acc → NoFloat x) →
    ∀ kvs, sevalMerge root ts cur env acc = .ok kvs → ∀ k x, (k, x) ∈ kvs → NoFloat x
  | [], cur, env, acc, hl, hc, he, hacc, kvs, hw => by
    simp only [sevalMerge, Res.ok.injEq] at hw; subst hw; exact hacc
  | t :: ts, cur, env, acc, hl, hc, he, hacc, kvs, hw => by
    simp only [Tree.LitsNFL] at hl
    simp only [sevalMerge, Res.bind_eq_ok] at hw
    obtain ⟨v, hv, hw⟩ := hw
    have hvn := seval_nf root hr t cur env hl.1 hc he v hv
    split at hw
    · exact sevalMerge_nf root hr ts cur env _ hl.2 hc he
        (foldl_objInsert_nf (noFloat_obj.mp hvn) hacc) kvs hw
    · simp [errType] at hw
theorem sevalNotNull_nf (root : Val) (hr : NoFloat root) : (ts : List Tree) → (cur : Val) → (env : Env) →
    Tree.LitsNFL ts → NoFloat cur → EnvNF env → ∀ w, sevalNotNull root ts cur env = .ok w → NoFloat w
  | [], cur, env, hl, hc, he, w, hw => by
    simp only [sevalNotNull, Res.ok.injEq] at hw; subst hw; simp
  | t :: ts, cur, env, hl, hc, he, w, hw => by
    simp only [Tree.LitsNFL] at hl
    simp only [sevalNotNull, Res.bind_eq_ok] at hw
    obtain ⟨v, hv, hw⟩ := hw
    split at hw
    · exact sevalNotNull_nf root hr ts cur env hl.2 hc he w hw
    · simp only [Res.pure_eq, Res.ok.injEq] at hw; subst hw
      exact seval_nf root hr t cur env hl.1 hc he _ hv
theorem sevalZip_nf (root : Val) (hr : NoFloat root) : (ts : List Tree) → (cur : Val) → (env : Env) →
    Tree.LitsNFL ts → NoFloat cur → EnvNF env → ∀ vs, sevalZip root ts cur env = .ok vs → ∀ v ∈ vs, NoFloat v
  | [], cur, env, hl, hc, he, vs, hw => by
    simp only [sevalZip, Res.ok.injEq] at hw; subst hw; simp
  | t :: ts, cur, env, hl, hc, he, vs, hw => by
    simp only [Tree.LitsNFL] at hl
    simp only [sevalZip, Res.bind_eq_ok] at hw
    obtain ⟨v, hv, hw⟩ := hw
    have hvn := seval_nf root hr t cur env hl.1 hc he v hv
    split at hw
    · simp only [Res.bind_eq_ok, Res.pure_eq, Res.ok.injEq] at hw
      obtain ⟨rest, hrest, rfl⟩ := hw
      intro y hy
      rcases List.mem_cons.mp hy with rfl | hy
      · exact hvn
      · exact sevalZip_nf root hr ts cur env hl.2 hc he rest hrest y hy
    · simp [errType] at hw
end


/-! ### the same for the Go-shaped evaluator `ieval` over `INode` -/

mutual
/-- every literal of the expression is float-free -/
def INode.LitsNF : INode → Prop
  | .lit v => NoFloat v
  | .current | .root | .field _ | .variable _ | .flattenCurrent | .indexCurrent _ | .smallIndexCurrent _
  | .objectValuesCurrent | .pruneArrayCurrent | .sliceCurrent _ _ | .sliceStepCurrent _ _ _ => True
  | .binop _ l r | .and l r | .or l r | .filter l r | .filterAndProjectCurrent l r | .flattenAndProject l r
  | .pipe l r | .projectArray l r | .projectObject l r | .selectArraySingle l r | .selectObjectSingle l _ r
  | .groupBy l r | .map l r | .maxBy l r | .minBy l r | .sortBy l r => l.LitsNF ∧ r.LitsNF
  | .not c | .negate c | .assertNumber c | .filterCurrent c | .flatten c | .flattenAndProjectCurrent c | .index c _
  | .objectValues c | .projectArrayCurrent c | .projectObjectCurrent c | .pruneArray c | .selectArraySingleCurrent c
  | .selectObjectSingleCurrent _ c | .slice c _ _ | .sliceStep c _ _ _ => c.LitsNF
  | .filterAndProject l f r => l.LitsNF ∧ f.LitsNF ∧ r.LitsNF
  | .call _ args | .selectArrayCurrent args | .merge args | .notNull args | .zip args => INode.LitsNFL args
  | .selectArray c fs => c.LitsNF ∧ INode.LitsNFL fs
  | .selectObject c fs => c.LitsNF ∧ INode.LitsNFF fs
  | .selectObjectCurrent fs => INode.LitsNFF fs
  | .defineVariables vars child => INode.LitsNFF vars ∧ child.LitsNF
def INode.LitsNFL : List INode → Prop
  | [] => True
  | n :: ns => n.LitsNF ∧ INode.LitsNFL ns
def INode.LitsNFF : List (Bytes × INode) → Prop
  | [] => True
  | (_, n) :: rest => n.LitsNF ∧ INode.LitsNFF rest
end

mutual
theorem desugar_litsNF : (n : INode) → n.LitsNF → (desugar n).LitsNF
  | .lit v, h => by simpa [desugar, INode.LitsNF, Tree.LitsNF] using h
  | .current, _ | .root, _ | .field _, _ | .variable _, _ | .flattenCurrent, _ | .indexCurrent _, _
  | .smallIndexCurrent _, _ | .objectValuesCurrent, _ | .pruneArrayCurrent, _ | .sliceCurrent _ _, _
  | .sliceStepCurrent _ _ _, _ => by simp [desugar, Tree.LitsNF]
  | .binop _ l r, h | .and l r, h | .or l r, h | .flattenAndProject l r, h | .pipe l r, h | .projectObject l r, h
  | .groupBy l r, h | .map l r, h | .maxBy l r, h | .minBy l r, h | .sortBy l r, h => by
    simp only [INode.LitsNF] at h
    simp only [desugar, Tree.LitsNF]
    exact ⟨desugar_litsNF l h.1, desugar_litsNF r h.2⟩
  | .projectArray l r, h => by
    simp only [INode.LitsNF] at h
    simp only [desugar]
    split <;> (simp only [Tree.LitsNF]; exact ⟨desugar_litsNF l h.1, desugar_litsNF r h.2⟩)
  | .filter l r, h => by
    simp only [INode.LitsNF] at h
    simp only [desugar, Tree.LitsNF]
    exact ⟨desugar_litsNF l h.1, desugar_litsNF r h.2, trivial⟩
  | .filterAndProjectCurrent l r, h => by
    simp only [INode.LitsNF] at h
    simp only [desugar, Tree.LitsNF]
    exact ⟨trivial, desugar_litsNF l h.1, desugar_litsNF r h.2⟩
  | .filterAndProject l f r, h => by
    simp only [INode.LitsNF] at h
    simp only [desugar, Tree.LitsNF]
    exact ⟨desugar_litsNF l h.1, desugar_litsNF f h.2.1, desugar_litsNF r h.2.2⟩
  | .filterCurrent c, h => by
    simp only [INode.LitsNF] at h
    simp only [desugar, Tree.LitsNF]
    exact ⟨trivial, desugar_litsNF c h, trivial⟩
  | .selectArraySingle l r, h => by
    simp only [INode.LitsNF] at h
    simp only [desugar, Tree.LitsNF, Tree.LitsNFL]
    exact ⟨desugar_litsNF l h.1, desugar_litsNF r h.2, trivial⟩
  | .selectObjectSingle l _ r, h => by
    simp only [INode.LitsNF] at h
    simp only [desugar, Tree.LitsNF, Tree.LitsNFF]
    exact ⟨desugar_litsNF l h.1, desugar_litsNF r h.2, trivial⟩
  | .not c, h | .negate c, h | .assertNumber c, h | .pruneArray c, h => by
    simp only [INode.LitsNF] at h
    simp only [desugar, Tree.LitsNF]
    exact desugar_litsNF c h
  | .flatten c, h | .objectValues c, h | .index c _, h | .slice c _ _, h | .sliceStep c _ _ _, h => by
    simp only [INode.LitsNF] at h
    simp only [desugar, Tree.LitsNF]
    exact ⟨desugar_litsNF c h, trivial⟩
  | .flattenAndProjectCurrent c, h | .projectArrayCurrent c, h | .projectObjectCurrent c, h => by
    simp only [INode.LitsNF] at h
    simp only [desugar, Tree.LitsNF]
    exact ⟨trivial, desugar_litsNF c h⟩
  | .selectArraySingleCurrent c, h => by
    simp only [INode.LitsNF] at h
    simp only [desugar, Tree.LitsNF, Tree.LitsNFL]
    exact ⟨desugar_litsNF c h, trivial⟩
  | .selectObjectSingleCurrent _ c, h => by
    simp only [INode.LitsNF] at h
    simp only [desugar, Tree.LitsNF, Tree.LitsNFF]
    exact ⟨desugar_litsNF c h, trivial⟩
  | .call _ args, h | .selectArrayCurrent args, h | .merge args, h | .notNull args, h | .zip args, h => by
    simp only [INode.LitsNF] at h
    simp only [desugar, Tree.LitsNF]
    exact desugarList_litsNF args h
  | .selectArray c fs, h => by
    simp only [INode.LitsNF] at h
    simp only [desugar, Tree.LitsNF]
    exact ⟨desugar_litsNF c h.1, desugarList_litsNF fs h.2⟩
  | .selectObject c fs, h => by
    simp only [INode.LitsNF] at h
    simp only [desugar, Tree.LitsNF]
    exact ⟨desugar_litsNF c h.1, desugarFields_litsNF fs h.2⟩
  | .selectObjectCurrent fs, h => by
    simp only [INode.LitsNF] at h
    simp only [desugar, Tree.LitsNF]
    exact desugarFields_litsNF fs h
  | .defineVariables vars child, h => by
    simp only [INode.LitsNF] at h
    simp only [desugar, Tree.LitsNF]
    exact ⟨desugarFields_litsNF vars h.1, desugar_litsNF child h.2⟩
theorem desugarList_litsNF : (ns : List INode) → INode.LitsNFL ns → Tree.LitsNFL (desugarList ns)
  | [], _ => by simp [desugarList, Tree.LitsNFL]
  | n :: ns, h => by
    simp only [INode.LitsNFL] at h
    simp only [desugarList, Tree.LitsNFL]
    exact ⟨desugar_litsNF n h.1, desugarList_litsNF ns h.2⟩
theorem desugarFields_litsNF : (fs : List (Bytes × INode)) → INode.LitsNFF fs → Tree.LitsNFF (desugarFields fs)
  | [], _ => by simp [desugarFields, Tree.LitsNFF]
  | (k, n) :: rest, h => by
    simp only [INode.LitsNFF] at h
    simp only [desugarFields, Tree.LitsNFF]
    exact ⟨desugar_litsNF n h.1, desugarFields_litsNF rest h.2⟩
end

/-- **the evaluator never introduces a binary float**: on a float-free document, current value and environment, an
    expression whose literals are float-free evaluates to a float-free value -/
theorem ieval_noFloat {root : Val} (hr : NoFloat root) {n : INode} (hl : n.LitsNF) {cur : Val} (hc : NoFloat cur)
    {env : Env} (he : EnvNF env) {w : Val} (hw : ieval root n cur env = .ok w) : NoFloat w := by
  rw [ieval_desugar] at hw
  exact seval_nf root hr (desugar n) cur env (desugar_litsNF n hl) hc he w hw

theorem evaluate_noFloat {n : INode} (hl : n.LitsNF) {data : Val} (hd : NoFloat data) {w : Val}
    (hw : evaluate n data = .ok w) : NoFloat w :=
  ieval_noFloat hd hl hd (fun _ _ hm => by simp at hm) hw

/-! ### JSON text gives float-free values -/

mutual
theorem parseValue_nf : ∀ (fuel depth : Nat) (s : Bytes) (v : Val) (r : Bytes),
    Json.parseValue fuel depth s = some (v, r) → NoFloat v
  | 0, _, _, _, _, h => by simp [Json.parseValue] at h
  | fuel + 1, depth, s, v, r, h => by
    unfold Json.parseValue at h
    split at h
    · simp at h
    · simp at h; obtain ⟨rfl, _⟩ := h; simp
    · simp at h; obtain ⟨rfl, _⟩ := h; simp
    · simp at h; obtain ⟨rfl, _⟩ := h; simp
    · simp only [Option.map_eq_some_iff] at h
      obtain ⟨⟨b, r'⟩, _, h⟩ := h
      simp at h; obtain ⟨rfl, _⟩ := h; simp
    · split at h
      · simp at h
      · split at h
        · simp at h; obtain ⟨rfl, _⟩ := h; simp [noFloat_arr]
        · simp only [Option.map_eq_some_iff] at h
          obtain ⟨⟨xs, r'⟩, hx, h⟩ := h
          simp at h; obtain ⟨rfl, _⟩ := h
          exact noFloat_arr.mpr (parseElems_nf fuel _ _ [] xs r' (by simp) hx)
    · split at h
      · simp at h
      · split at h
        · simp at h; obtain ⟨rfl, _⟩ := h; simp [noFloat_obj]
        · simp only [Option.map_eq_some_iff] at h
          obtain ⟨⟨kvs, r'⟩, hx, h⟩ := h
          simp at h; obtain ⟨rfl, _⟩ := h
          exact noFloat_obj.mpr (parseMembers_nf fuel _ _ [] kvs r' (by simp) hx)
    · split at h
      · simp only [Option.map_eq_some_iff] at h
        obtain ⟨⟨n, r'⟩, _, h⟩ := h
        simp at h; obtain ⟨rfl, _⟩ := h; simp
      · simp at h
theorem parseElems_nf : ∀ (fuel depth : Nat) (s : Bytes) (acc xs : List Val) (r : Bytes),
    (∀ x ∈ acc, NoFloat x) → Json.parseElems fuel depth s acc = some (xs, r) → ∀ x ∈ xs, NoFloat x
  | 0, _, _, _, _, _, _, h => by simp [Json.parseElems] at h
  | fuel + 1, depth, s, acc, xs, r, hacc, h => by
    unfold Json.parseElems at h
    split at h
    · simp at h
    · next v r0 hv =>
      have hvn := parseValue_nf fuel depth s v r0 hv
      have hacc' : ∀ x ∈ acc ++ [v], NoFloat x := by
        intro x hx
        rcases List.mem_append.mp hx with hx | hx
        · exact hacc x hx
        · simp at hx; subst hx; exact hvn
      split at h
      · exact parseElems_nf fuel depth _ _ xs r hacc' h
      · simp at h; obtain ⟨rfl, _⟩ := h; exact hacc'
      · simp at h
theorem parseMembers_nf : ∀ (fuel depth : Nat) (s : Bytes) (acc kvs : List (Bytes × Val)) (r : Bytes),
    (∀ k x, (k, x) ∈ acc → NoFloat x) → Json.parseMembers fuel depth s acc = some (kvs, r) →
    ∀ k x, (k, x) ∈ kvs → NoFloat x
  | 0, _, _, _, _, _, _, h => by simp [Json.parseMembers] at h
  | fuel + 1, depth, s, acc, kvs, r, hacc, h => by
    unfold Json.parseMembers at h
    split at h
    · split at h
      · simp at h
      · split at h
        · split at h
          · simp at h
          · next v r2 hv =>
            have hvn := parseValue_nf fuel depth _ v r2 hv
            split at h
            · exact parseMembers_nf fuel depth _ _ kvs r (objInsert_nf hvn hacc) h
            · simp at h; obtain ⟨rfl, _⟩ := h; exact objInsert_nf hvn hacc
            · simp at h
        · simp at h
    · simp at h
end

/-- a decoded JSON document (or JSON literal) contains no binary float: numbers are kept as their text -/
theorem decode_noFloat {s : Bytes} {v : Val} (h : Json.decode s = some v) : NoFloat v := by
  unfold Json.decode at h
  split at h
  · next v' r hv =>
    split at h
    · simp at h; subst h; exact parseValue_nf _ _ _ _ _ hv
    · simp at h
  · simp at h

theorem parseJSONLiteral_noFloat {s : Bytes} {v : Val} (h : parseJSONLiteral s = some v) : NoFloat v := by
  unfold parseJSONLiteral at h
  simp only at h
  split at h
  · simp at h
  · exact decode_noFloat h

end Jmes
