/-
  C18 (third wave), helper: the number texts `json.Marshal` writes are JSON numbers in the sense of the declarative
  RFC 8259 grammar `Jmes.Lexical.JNumber`.

  * `jnumber_intToBytes`   — the text of a Go integer (`strconv.AppendInt`) is a JSON number;
  * `jnumber_marshalJSON`  — the text `Decimal.MarshalJSON` writes for a finite decimal is a JSON number;
  * `marshalJSON_isSome`   — a finite decimal always marshals.

  The key new fact is `digitsOf_lead`: the decimal digits of a non-zero natural number start with a digit `1`..`9`
  (no leading zero).  Nothing here is about *parsing* decimals.
-/
import Jmes.Proofs.Repr
import Jmes.Proofs.JsonGrammar
namespace Jmes.C18CRN
open Jmes Jmes.Lexical

/-! ## digits of a natural number: no leading zero -/

theorem isDigitB_iff (b : Nat) : isDigitB b = true ↔ 0x30 ≤ b ∧ b ≤ 0x39 := by simp [isDigitB]

/-- the digit loop stops at once on `0` -/
theorem digitsOfAux_zero (fuel : Nat) (acc : List Nat) : Dec.digitsOfAux fuel 0 acc = acc := by
  cases fuel <;> simp [Dec.digitsOfAux]

example : Dec.digitsOfAux 7 0 [0x31] = [0x31] := digitsOfAux_zero _ _

/-- the digit loop on a non-zero `n` (with enough fuel) puts a digit `1`..`9` in front, followed by digits, followed
    by the accumulator -/
theorem digitsOfAux_lead : ∀ (fuel n : Nat) (acc : List Nat), n ≠ 0 → n < 10 ^ fuel →
    ∃ d ds, Dec.digitsOfAux fuel n acc = d :: (ds ++ acc) ∧ 0x31 ≤ d ∧ d ≤ 0x39 ∧ DigitStar ds
  | 0, n, acc, hn, h => by
    have : n = 0 := by simpa using h
    exact absurd this hn
  | fuel + 1, n, acc, hn, h => by
    unfold Dec.digitsOfAux
    simp only [hn, if_false]
    by_cases h10 : n / 10 = 0
    · rw [h10, digitsOfAux_zero]
      exact ⟨0x30 + n % 10, [], by simp, by omega, by omega, by intro b hb; cases hb⟩
    · obtain ⟨d, ds, h1, h2, h3, h4⟩ := digitsOfAux_lead fuel (n / 10) ((0x30 + n % 10) :: acc) h10
        (by rw [Nat.pow_succ] at h; omega)
      refine ⟨d, ds ++ [0x30 + n % 10], by rw [h1]; simp, h2, h3, ?_⟩
      intro x hx
      rcases List.mem_append.mp hx with hx | hx
      · exact h4 x hx
      · have : x = 0x30 + n % 10 := by simpa using hx
        rw [this, isDigitB_iff]; omega

example : ∃ d ds, Dec.digitsOfAux 3 907 [0x2E] = d :: (ds ++ [0x2E]) ∧ 0x31 ≤ d ∧ d ≤ 0x39 ∧ DigitStar ds :=
  digitsOfAux_lead 3 907 _ (by decide) (by decide)

/-- **no leading zero**: the digits of a non-zero number start with `1`..`9`, the others are digits -/
theorem digitsOf_lead {n : Nat} (hn : n ≠ 0) :
    ∃ d ds, Dec.digitsOf n = d :: ds ∧ 0x31 ≤ d ∧ d ≤ 0x39 ∧ DigitStar ds := by
  obtain ⟨d, ds, h1, h2, h3, h4⟩ := digitsOfAux_lead (Nat.log2 n + 2) n [] hn (Dec.lt_pow10_log2' n)
  exact ⟨d, ds, by simpa [Dec.digitsOf] using h1, h2, h3, h4⟩

example : Dec.digitsOf 1050 = [0x31, 0x30, 0x35, 0x30] := by decide
example : ∃ d ds, Dec.digitsOf 1050 = d :: ds ∧ 0x31 ≤ d ∧ d ≤ 0x39 ∧ DigitStar ds := digitsOf_lead (by decide)

/-- the text of a natural number is a JSON `int` (`0`, or `1`..`9` followed by digits) -/
theorem jint_natToBytes (n : Nat) : JInt (Dec.natToBytes n) := by
  unfold Dec.natToBytes
  by_cases hn : n = 0
  · simp [hn, JInt]
  · simp only [hn, if_false]
    obtain ⟨d, ds, h1, h2, h3, h4⟩ := digitsOf_lead hn
    exact Or.inr ⟨d, ds, h1, h2, h3, h4⟩

example : JInt (Dec.natToBytes 0) := jint_natToBytes 0
example : JInt (Dec.natToBytes 120) := jint_natToBytes 120

/-- the text of a natural number is a non-empty run of digits -/
theorem digits_natToBytes (n : Nat) : Digits (Dec.natToBytes n) := by
  obtain ⟨b, ds, h1, h2, _⟩ := Dec.natToBytes_spec n
  rw [h1]
  exact ⟨by simp, h2⟩

example : Digits (Dec.natToBytes 21) := digits_natToBytes 21

/-! ## Go integers -/

/-- **the text of a Go integer is a JSON number** (`[-] int`, no fraction, no exponent) -/
theorem jnumber_intToBytes (v : Int) : JNumber (Json.intToBytes v) := by
  unfold Json.intToBytes
  by_cases hneg : v < 0
  · simp only [hneg, if_true]
    exact ⟨[0x2D], Dec.natToBytes v.natAbs, [], [], by simp, Or.inr rfl, jint_natToBytes _, Or.inl rfl, Or.inl rfl⟩
  · simp only [hneg, if_false]
    exact ⟨[], Dec.natToBytes v.natAbs, [], [], by simp, Or.inl rfl, jint_natToBytes _, Or.inl rfl, Or.inl rfl⟩

example : JNumber (Json.intToBytes (-42)) := jnumber_intToBytes _
example : Json.intToBytes (-42) = [0x2D, 0x34, 0x32] := by decide
example : JNumber [0x32, 0x2E, 0x35] :=
  ⟨[], [0x32], [0x2E, 0x35], [], by simp, Or.inl rfl,
    Or.inr ⟨0x32, [], rfl, by decide, by decide, by intro b hb; cases hb⟩,
    Or.inr ⟨[0x35], rfl, by simp, by simp [isDigitB]⟩, Or.inl rfl⟩

/-- the text of a Go integer passes the decoder's number check -/
theorem isValidNumber_intToBytes (v : Int) : Json.isValidNumber (Json.intToBytes v) = true :=
  (JsonGrammar.isValidNumber_iff _).2 (jnumber_intToBytes v)

example : Json.isValidNumber (Json.intToBytes 9223372036854775807) = true := isValidNumber_intToBytes _

/-! ## the shapes `Decimal.MarshalJSON` writes -/

theorem sign_ok (neg : Bool) : (if neg then [0x2D] else ([] : Bytes)) = [] ∨ (if neg then [0x2D] else ([] : Bytes)) = [0x2D] := by
  cases neg <;> simp

theorem digitStar_append {a b : Bytes} (ha : DigitStar a) (hb : DigitStar b) : DigitStar (a ++ b) := by
  intro x hx
  rcases List.mem_append.mp hx with hx | hx
  · exact ha x hx
  · exact hb x hx

theorem digitStar_zeros (k : Nat) : DigitStar (List.replicate k 0x30) := by
  intro x hx
  have : x = 0x30 := (List.mem_replicate.mp hx).2
  subst this; rfl

theorem digitStar_lead {d : Nat} {ds : Bytes} (h2 : 0x31 ≤ d) (h3 : d ≤ 0x39) (h4 : DigitStar ds) :
    DigitStar (d :: ds) := by
  intro x hx
  rcases List.mem_cons.mp hx with hx | hx
  · subst hx; rw [isDigitB_iff]; omega
  · exact h4 x hx

/-- scientific form `d[.ddd]e±X` -/
theorem jnumber_sci (sg : Bytes) (hsg : sg = [] ∨ sg = [0x2D]) (d : Nat) (rest : Bytes) (h2 : 0x31 ≤ d)
    (h3 : d ≤ 0x39) (h4 : DigitStar rest) (sci : Int) :
    JNumber (sg ++ (if rest.isEmpty then [d] else d :: 0x2E :: rest) ++ [0x65] ++
      (if sci < 0 then 0x2D :: Dec.natToBytes sci.natAbs else 0x2B :: Dec.natToBytes sci.natAbs)) := by
  have hint : JInt [d] := Or.inr ⟨d, [], rfl, h2, h3, by intro b hb; cases hb⟩
  have hexp : JExp ([0x65] ++
      (if sci < 0 then 0x2D :: Dec.natToBytes sci.natAbs else 0x2B :: Dec.natToBytes sci.natAbs)) := by
    by_cases hs : sci < 0
    · simp only [hs, if_true]
      exact Or.inr ⟨0x65, [0x2D], _, rfl, Or.inl rfl, Or.inr (Or.inr rfl), digits_natToBytes _⟩
    · simp only [hs, if_false]
      exact Or.inr ⟨0x65, [0x2B], _, rfl, Or.inl rfl, Or.inr (Or.inl rfl), digits_natToBytes _⟩
  cases rest with
  | nil =>
    exact ⟨sg, [d], [], _, by simp, hsg, hint, Or.inl rfl, hexp⟩
  | cons r rs =>
    refine ⟨sg, [d], 0x2E :: r :: rs, _, by simp, hsg, hint, Or.inr ⟨r :: rs, rfl, by simp, h4⟩, hexp⟩

example : JNumber ([0x2D] ++ (if ([0x35] : Bytes).isEmpty then [0x31] else 0x31 :: 0x2E :: [0x35]) ++ [0x65] ++
    (if (-7 : Int) < 0 then 0x2D :: Dec.natToBytes (-7 : Int).natAbs else 0x2B :: Dec.natToBytes (-7 : Int).natAbs)) :=
  jnumber_sci _ (Or.inr rfl) 0x31 [0x35] (by decide) (by decide) (by simp [DigitStar, isDigitB]) (-7)

/-- integer form `ddd000` -/
theorem jnumber_intform (sg : Bytes) (hsg : sg = [] ∨ sg = [0x2D]) (d : Nat) (rest : Bytes) (h2 : 0x31 ≤ d)
    (h3 : d ≤ 0x39) (h4 : DigitStar rest) (k : Nat) :
    JNumber (sg ++ d :: rest ++ List.replicate k 0x30) :=
  ⟨sg, d :: (rest ++ List.replicate k 0x30), [], [], by simp, hsg,
    Or.inr ⟨d, _, rfl, h2, h3, digitStar_append h4 (digitStar_zeros k)⟩, Or.inl rfl, Or.inl rfl⟩

example : JNumber ([] ++ 0x31 :: [0x32] ++ List.replicate 3 0x30) :=
  jnumber_intform _ (Or.inl rfl) 0x31 [0x32] (by decide) (by decide) (by simp [DigitStar, isDigitB]) 3

/-- fixed form with the point inside the digits `dd.ddd` -/
theorem jnumber_pointin (sg : Bytes) (hsg : sg = [] ∨ sg = [0x2D]) (d : Nat) (rest : Bytes) (h2 : 0x31 ≤ d)
    (h3 : d ≤ 0x39) (h4 : DigitStar rest) (p : Nat) (hp0 : 0 < p) (hp : p < (d :: rest).length) :
    JNumber (sg ++ (d :: rest).take p ++ [0x2E] ++ (d :: rest).drop p) := by
  obtain ⟨q, rfl⟩ : ∃ q, p = q + 1 := ⟨p - 1, by omega⟩
  have hall := digitStar_lead h2 h3 h4
  refine ⟨sg, d :: rest.take q, 0x2E :: rest.drop q, [], by simp, hsg,
    Or.inr ⟨d, _, rfl, h2, h3, fun x hx => h4 x (List.mem_of_mem_take hx)⟩,
    Or.inr ⟨rest.drop q, rfl, ?_, fun x hx => h4 x (List.mem_of_mem_drop hx)⟩, Or.inl rfl⟩
  intro hnil
  have := congrArg List.length hnil
  simp at this hp
  omega

example : JNumber ([0x2D] ++ (0x31 :: [0x32, 0x35]).take 2 ++ [0x2E] ++ (0x31 :: [0x32, 0x35]).drop 2) :=
  jnumber_pointin _ (Or.inr rfl) 0x31 [0x32, 0x35] (by decide) (by decide) (by simp [DigitStar, isDigitB]) 2
    (by decide) (by decide)

/-- fixed form `0.000ddd` -/
theorem jnumber_zeropoint (sg : Bytes) (hsg : sg = [] ∨ sg = [0x2D]) (d : Nat) (rest : Bytes) (h2 : 0x31 ≤ d)
    (h3 : d ≤ 0x39) (h4 : DigitStar rest) (k : Nat) :
    JNumber (sg ++ [0x30, 0x2E] ++ List.replicate k 0x30 ++ d :: rest) :=
  ⟨sg, [0x30], 0x2E :: (List.replicate k 0x30 ++ d :: rest), [], by simp, hsg, Or.inl rfl,
    Or.inr ⟨_, rfl, by simp, digitStar_append (digitStar_zeros k) (digitStar_lead h2 h3 h4)⟩, Or.inl rfl⟩

example : JNumber ([] ++ [0x30, 0x2E] ++ List.replicate 2 0x30 ++ 0x37 :: [0x35]) :=
  jnumber_zeropoint _ (Or.inl rfl) 0x37 [0x35] (by decide) (by decide) (by simp [DigitStar, isDigitB]) 2

/-! ## `Decimal.MarshalJSON` -/

/-- **the text `MarshalJSON` writes for a finite decimal is a JSON number** -/
theorem jnumber_marshalJSON {d : Dec} {b : Bytes} (h : d.marshalJSON = some b) : JNumber b := by
  cases d with
  | nan => simp [Dec.marshalJSON] at h
  | inf n => simp [Dec.marshalJSON] at h
  | fin neg c e =>
    have hsg := sign_ok neg
    by_cases hc0 : c = 0
    · simp only [Dec.marshalJSON, hc0, if_true, Option.some.injEq] at h
      subst h
      exact ⟨_, [0x30], [], [], by simp, hsg, Or.inl rfl, Or.inl rfl, Or.inl rfl⟩
    · obtain ⟨c', k, hnorm, hck, hc'⟩ := Dec.normalize_spec neg c e hc0
      have hc'0 : c' ≠ 0 := by intro h0; rw [h0] at hc'; exact hc' rfl
      obtain ⟨d0, rest, hds, h2, h3, h4⟩ := digitsOf_lead hc'0
      simp only [Dec.marshalJSON, hc0, if_false, hnorm, hds] at h
      split at h
      · simp only [Option.some.injEq] at h
        subst h
        exact jnumber_sci _ hsg d0 rest h2 h3 h4 _
      · split at h
        · simp only [Option.some.injEq] at h
          subst h
          exact jnumber_intform _ hsg d0 rest h2 h3 h4 _
        · split at h
          · rename_i hneg hdp
            simp only [Option.some.injEq] at h
            subst h
            refine jnumber_pointin _ hsg d0 rest h2 h3 h4 _ ?_ ?_
            · omega
            · simp only [List.length_cons] at hdp hneg ⊢; omega
          · simp only [Option.some.injEq] at h
            subst h
            exact jnumber_zeropoint _ hsg d0 rest h2 h3 h4 _

example : (Dec.fin true 1250 (-3)).marshalJSON = some [0x2D, 0x31, 0x2E, 0x32, 0x35] := by decide
example : JNumber [0x2D, 0x31, 0x2E, 0x32, 0x35] :=
  jnumber_marshalJSON (d := .fin true 1250 (-3)) (by decide)
example : (Dec.fin false 15 30).marshalJSON = some [0x31, 0x2E, 0x35, 0x65, 0x2B, 0x33, 0x31] := by decide
example : JNumber [0x31, 0x2E, 0x35, 0x65, 0x2B, 0x33, 0x31] :=
  jnumber_marshalJSON (d := .fin false 15 30) (by decide)

/-- the text `MarshalJSON` writes passes the decoder's number check -/
theorem isValidNumber_marshalJSON {d : Dec} {b : Bytes} (h : d.marshalJSON = some b) :
    Json.isValidNumber b = true :=
  (JsonGrammar.isValidNumber_iff _).2 (jnumber_marshalJSON h)

example : Json.isValidNumber [0x30, 0x2E, 0x30, 0x30, 0x35] = true :=
  isValidNumber_marshalJSON (d := .fin false 5 (-3)) (by decide)

/-- **a finite decimal always marshals** (`MarshalJSON` fails on NaN and ±Inf only) -/
theorem marshalJSON_isSome {d : Dec} (h : d.isSpecial = false) : ∃ b, d.marshalJSON = some b := by
  cases d with
  | nan => cases h
  | inf n => cases h
  | fin neg c e =>
    by_cases hc0 : c = 0
    · simp only [Dec.marshalJSON, hc0, if_true]
      exact ⟨_, rfl⟩
    · obtain ⟨c', k, hnorm, _, _⟩ := Dec.normalize_spec neg c e hc0
      simp only [Dec.marshalJSON, hc0, if_false, hnorm]
      split
      · exact ⟨_, rfl⟩
      · split
        · exact ⟨_, rfl⟩
        · split
          · exact ⟨_, rfl⟩
          · exact ⟨_, rfl⟩

example : ∃ b, (Dec.fin true 5 (-1)).marshalJSON = some b := marshalJSON_isSome rfl

/-- a finite decimal marshals to a JSON number -/
theorem marshalJSON_jnumber {d : Dec} (h : d.isSpecial = false) : ∃ b, d.marshalJSON = some b ∧ JNumber b := by
  obtain ⟨b, hb⟩ := marshalJSON_isSome h
  exact ⟨b, hb, jnumber_marshalJSON hb⟩

example : ∃ b, (Dec.fin false 0 7).marshalJSON = some b ∧ JNumber b := marshalJSON_jnumber rfl


end Jmes.C18CRN
