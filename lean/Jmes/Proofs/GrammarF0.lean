/-
  Parser ⟷ grammar (`Spec/Grammar.lean`), part 1: the infrastructure shared by both directions and the completeness
  steps of the fragment without projections (atoms, parentheses, prefix and binary operators, `.name`, `[n]`,
  multi-select lists and hashes, function calls, `let`).

  Completeness is proved in continuation style (DESIGN Appendix F.1): `Reach b t` says "reading the tokens of the
  well-formed tree `t` at a power below its left level reaches the operator loop with `erase t` as left operand",
  for `t` in primary position (`b = false`, read by `expression`) and in right-hand-side position (`b = true`, read by
  `projection`).  Every form with a left operand contributes one *step* of the operator loop (`reach_of_step`).
-/
import Jmes.Spec.Grammar
import Jmes.Proofs.Pratt
namespace Jmes.GrammarF0
open Jmes Jmes.Parser Jmes.Pratt Jmes.Grammar

/-! ## An induction principle for the nested inductive `PTree` -/

section Ind
set_option linter.unusedSectionVars false
variable {P : PTree → Prop}
  (h_icur : P .icur) (h_atom : ∀ t, P (.atom t)) (h_paren : ∀ t, P t → P (.paren t)) (h_not : ∀ t, P t → P (.not t))
  (h_neg : ∀ tok t, P t → P (.neg tok t)) (h_pos : ∀ t, P t → P (.pos t))
  (h_bin : ∀ op l r, P l → P r → P (.bin op l r)) (h_dotId : ∀ l r, P l → P r → P (.dotId l r))
  (h_dotList : ∀ l es, P l → (∀ e ∈ es, P e) → P (.dotList l es))
  (h_dotHash : ∀ l kvs, P l → (∀ kv ∈ kvs, P kv.2) → P (.dotHash l kvs))
  (h_dotStarList : ∀ l, P l → P (.dotStarList l)) (h_index : ∀ l n, P l → P (.index l n))
  (h_call : ∀ name args, (∀ e ∈ args, P e) → P (.call name args)) (h_ref : ∀ t, P t → P (.ref t))
  (h_letIn : ∀ bs body, (∀ kv ∈ bs, P kv.2) → P body → P (.letIn bs body))
  (h_multiList : ∀ es, (∀ e ∈ es, P e) → P (.multiList es))
  (h_multiHash : ∀ kvs, (∀ kv ∈ kvs, P kv.2) → P (.multiHash kvs))
  (h_star : ∀ l rhs, P l → P rhs → P (.star l rhs)) (h_ostar : ∀ l rhs, P l → P rhs → P (.ostar l rhs))
  (h_flat : ∀ l rhs, P l → P rhs → P (.flat l rhs)) (h_filt : ∀ l c rhs, P l → P c → P rhs → P (.filt l c rhs))
  (h_slice : ∀ l a b c rhs, P l → P rhs → P (.slice l a b c rhs))

include h_icur h_atom h_paren h_not h_neg h_pos h_bin h_dotId h_dotList h_dotHash h_dotStarList h_index h_call h_ref h_letIn h_multiList h_multiHash h_star h_ostar h_flat h_filt h_slice

mutual
theorem PTree.ind : ∀ t, P t
  | .icur => h_icur
  | .atom t => h_atom t
  | .paren t => h_paren t (PTree.ind t)
  | .not t => h_not t (PTree.ind t)
  | .neg tok t => h_neg tok t (PTree.ind t)
  | .pos t => h_pos t (PTree.ind t)
  | .bin op l r => h_bin op l r (PTree.ind l) (PTree.ind r)
  | .dotId l r => h_dotId l r (PTree.ind l) (PTree.ind r)
  | .dotList l es => h_dotList l es (PTree.ind l) (PTree.indL es)
  | .dotHash l kvs => h_dotHash l kvs (PTree.ind l) (PTree.indKV kvs)
  | .dotStarList l => h_dotStarList l (PTree.ind l)
  | .index l n => h_index l n (PTree.ind l)
  | .call name args => h_call name args (PTree.indL args)
  | .ref t => h_ref t (PTree.ind t)
  | .letIn bs body => h_letIn bs body (PTree.indKV bs) (PTree.ind body)
  | .multiList es => h_multiList es (PTree.indL es)
  | .multiHash kvs => h_multiHash kvs (PTree.indKV kvs)
  | .star l rhs => h_star l rhs (PTree.ind l) (PTree.ind rhs)
  | .ostar l rhs => h_ostar l rhs (PTree.ind l) (PTree.ind rhs)
  | .flat l rhs => h_flat l rhs (PTree.ind l) (PTree.ind rhs)
  | .filt l c rhs => h_filt l c rhs (PTree.ind l) (PTree.ind c) (PTree.ind rhs)
  | .slice l a b c rhs => h_slice l a b c rhs (PTree.ind l) (PTree.ind rhs)
theorem PTree.indL : ∀ es : List PTree, ∀ e ∈ es, P e
  | [], _, h => by cases h
  | x :: xs, e, h => by
    rcases List.mem_cons.1 h with rfl | h
    · exact PTree.ind e
    · exact PTree.indL xs e h
theorem PTree.indKV : ∀ kvs : List (Token × PTree), ∀ kv ∈ kvs, P kv.2
  | [], _, h => by cases h
  | (k, x) :: xs, kv, h => by
    rcases List.mem_cons.1 h with rfl | h
    · exact PTree.ind x
    · exact PTree.indKV xs kv h
end
end Ind


/-! ## Small facts about the grammar's definitions -/

theorem isIcur_eq {l : PTree} (h : l.isIcur = true) : l = .icur := by
  cases l <;> first | rfl | cases h

theorem optNode_icur (n : INode) : optNode .icur n = none := rfl

theorem optNode_of_ne {l : PTree} (h : l.isIcur = false) (n : INode) : optNode l n = some n := by
  simp [optNode, h]

theorem lmin_of_ne {l : PTree} (h : l.isIcur = false) (lvl ll : Nat) : lmin lvl l ll = min lvl ll := by
  simp [lmin, h]

theorem binLevel_mkBin {t : TokenType} {l : Nat} (h : binLevel t = some l) : mkBin t = some (binNode t) := by
  cases t <;> simp [binLevel] at h <;> rfl

theorem binLevel_range {t : TokenType} {l : Nat} (h : binLevel t = some l) : 2 ≤ l ∧ l ≤ 7 := by
  cases t <;> simp [binLevel] at h <;> subst h <;> decide

/-- every level of a well-formed tree is at least 2 (so every tree can be read at power 1) -/
theorem llevel_ge : ∀ (b : Bool) (t : PTree), wp b t = true → 2 ≤ llevel t
  | b, .bin op l r, h => by
    simp only [wp] at h
    split at h
    · cases h
    · rename_i lvl hl
      simp only [Bool.and_eq_true, Bool.not_eq_true', decide_eq_true_eq] at h
      have := llevel_ge b l h.1.1.1.2
      simp only [llevel, hl, Option.getD_some, lmin_of_ne h.1.1.1.1]
      have := (binLevel_range hl).1
      omega
  | b, .dotId l r, h => by
    simp only [llevel, lmin]
    split
    · decide
    · rename_i hi
      simp only [wp, hi, Bool.false_eq_true, if_false, Bool.and_eq_true] at h
      have := llevel_ge b l h.1.1.1.1
      simp only [lvlDot]; omega
  | b, .dotList l es, h => by
    simp only [llevel, lmin]
    split
    · decide
    · rename_i hi
      simp only [wp, hi, Bool.false_eq_true, if_false, Bool.and_eq_true] at h
      have := llevel_ge b l h.1.1.1
      simp only [lvlDot]; omega
  | b, .dotHash l kvs, h => by
    simp only [llevel, lmin]
    split
    · decide
    · rename_i hi
      simp only [wp, hi, Bool.false_eq_true, if_false, Bool.and_eq_true] at h
      have := llevel_ge b l h.1.1.1
      simp only [lvlDot]; omega
  | b, .dotStarList l, h => by
    simp only [llevel, lmin]
    split
    · decide
    · rename_i hi
      simp only [wp, hi, Bool.false_eq_true, if_false, Bool.and_eq_true] at h
      have := llevel_ge b l h.1
      simp only [lvlDot]; omega
  | b, .index l n, h => by
    simp only [llevel, lmin]
    split
    · decide
    · rename_i hi
      simp only [wp, hi, Bool.false_eq_true, if_false, Bool.and_eq_true] at h
      have := llevel_ge b l h.1.1
      simp only [lvlBracket]; omega
  | b, .star l rhs, h => by
    simp only [llevel, lmin]
    split
    · decide
    · rename_i hi
      simp only [wp, hi, Bool.false_eq_true, if_false, Bool.and_eq_true] at h
      have := llevel_ge b l h.1.1
      simp only [lvlBracket]; omega
  | b, .ostar l rhs, h => by
    simp only [llevel, lmin]
    split
    · decide
    · rename_i hi
      simp only [wp, hi, Bool.false_eq_true, if_false, Bool.and_eq_true] at h
      have := llevel_ge b l h.1.1
      simp only [lvlDot]; omega
  | b, .flat l rhs, h => by
    simp only [llevel, lmin]
    split
    · decide
    · rename_i hi
      simp only [wp, hi, Bool.false_eq_true, if_false, Bool.and_eq_true] at h
      have := llevel_ge b l h.1.1
      simp only [lvlFlatten]; omega
  | b, .filt l c rhs, h => by
    simp only [llevel, lmin]
    split
    · decide
    · rename_i hi
      simp only [wp, hi, Bool.false_eq_true, if_false, Bool.and_eq_true] at h
      have := llevel_ge b l h.1.1.1
      simp only [lvlFilter]; omega
  | b, .slice l a bb c rhs, h => by
    simp only [llevel, lmin]
    split
    · decide
    · rename_i hi
      simp only [wp, hi, Bool.false_eq_true, if_false, Bool.and_eq_true] at h
      have := llevel_ge b l h.1.1.1
      simp only [lvlBracket]; omega
  | _, .icur, _ => by decide
  | _, .atom _, _ => by decide
  | _, .paren _, _ => by decide
  | _, .not _, _ => by decide
  | _, .neg _ _, _ => by decide
  | _, .pos _, _ => by decide
  | _, .call _ _, _ => by decide
  | _, .ref _, _ => by decide
  | _, .letIn _ _, _ => by decide
  | _, .multiList _, _ => by decide
  | _, .multiHash _, _ => by decide

end Jmes.GrammarF0
