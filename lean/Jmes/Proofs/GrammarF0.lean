/-
  Parser ⟷ grammar (`Spec/Grammar.lean`), part 1: the infrastructure shared by both directions (an induction principle
  for `PTree`, the evaluator tactic `pm_eval` for the parser's `do` blocks on `stOf` states), the evaluation lemmas for
  every case of `exprLoop`, `primaryExpression`, `projection` and `indexP`, and the completeness of the sequence parsers
  and of the fragment without projections (atoms, parentheses, prefix and binary operators, `.name`, `[n]`,
  multi-select lists and hashes, function calls, `let`).

  Completeness is proved in continuation style (DESIGN Appendix F.1): `Reach b t` says "reading the tokens of the
  well-formed tree `t` at a power below its left level reaches the operator loop with `erase t` as left operand",
  for `t` in primary position (`b = false`, read by `expression`) and in right-hand-side position (`b = true`, read by
  `projection`).  Every form with a left operand contributes one *step* of the operator loop (`reach_of_step`).
-/
import Jmes.Spec.Grammar
import Jmes.Proofs.Pratt
namespace Jmes.GrammarF0
open Jmes Jmes.Parser Jmes.Pratt Jmes.Grammar

/-! ## An induction principle for the nested inductive `PTree` -/

section Ind
set_option linter.unusedSectionVars false
variable {P : PTree → Prop}
  (h_icur : P .icur) (h_atom : ∀ t, P (.atom t)) (h_paren : ∀ t, P t → P (.paren t)) (h_not : ∀ t, P t → P (.not t))
  (h_neg : ∀ tok t, P t → P (.neg tok t)) (h_pos : ∀ t, P t → P (.pos t))
  (h_bin : ∀ op l r, P l → P r → P (.bin op l r)) (h_dotId : ∀ l r, P l → P r → P (.dotId l r))
  (h_dotList : ∀ l es, P l → (∀ e ∈ es, P e) → P (.dotList l es))
  (h_dotHash : ∀ l kvs, P l → (∀ kv ∈ kvs, P kv.2) → P (.dotHash l kvs))
  (h_dotStarList : ∀ l, P l → P (.dotStarList l)) (h_index : ∀ l n, P l → P (.index l n))
  (h_call : ∀ name args, (∀ e ∈ args, P e) → P (.call name args)) (h_ref : ∀ t, P t → P (.ref t))
  (h_letIn : ∀ bs body, (∀ kv ∈ bs, P kv.2) → P body → P (.letIn bs body))
  (h_multiList : ∀ es, (∀ e ∈ es, P e) → P (.multiList es))
  (h_multiHash : ∀ kvs, (∀ kv ∈ kvs, P kv.2) → P (.multiHash kvs))
  (h_star : ∀ l rhs, P l → P rhs → P (.star l rhs)) (h_ostar : ∀ l rhs, P l → P rhs → P (.ostar l rhs))
  (h_flat : ∀ l rhs, P l → P rhs → P (.flat l rhs)) (h_filt : ∀ l c rhs, P l → P c → P rhs → P (.filt l c rhs))
  (h_slice : ∀ l a b c rhs, P l → P rhs → P (.slice l a b c rhs))

include h_icur h_atom h_paren h_not h_neg h_pos h_bin h_dotId h_dotList h_dotHash h_dotStarList h_index h_call h_ref h_letIn h_multiList h_multiHash h_star h_ostar h_flat h_filt h_slice

mutual
theorem PTree.ind : ∀ t, P t
  | .icur => h_icur
  | .atom t => h_atom t
  | .paren t => h_paren t (PTree.ind t)
  | .not t => h_not t (PTree.ind t)
  | .neg tok t => h_neg tok t (PTree.ind t)
  | .pos t => h_pos t (PTree.ind t)
  | .bin op l r => h_bin op l r (PTree.ind l) (PTree.ind r)
  | .dotId l r => h_dotId l r (PTree.ind l) (PTree.ind r)
  | .dotList l es => h_dotList l es (PTree.ind l) (PTree.indL es)
  | .dotHash l kvs => h_dotHash l kvs (PTree.ind l) (PTree.indKV kvs)
  | .dotStarList l => h_dotStarList l (PTree.ind l)
  | .index l n => h_index l n (PTree.ind l)
  | .call name args => h_call name args (PTree.indL args)
  | .ref t => h_ref t (PTree.ind t)
  | .letIn bs body => h_letIn bs body (PTree.indKV bs) (PTree.ind body)
  | .multiList es => h_multiList es (PTree.indL es)
  | .multiHash kvs => h_multiHash kvs (PTree.indKV kvs)
  | .star l rhs => h_star l rhs (PTree.ind l) (PTree.ind rhs)
  | .ostar l rhs => h_ostar l rhs (PTree.ind l) (PTree.ind rhs)
  | .flat l rhs => h_flat l rhs (PTree.ind l) (PTree.ind rhs)
  | .filt l c rhs => h_filt l c rhs (PTree.ind l) (PTree.ind c) (PTree.ind rhs)
  | .slice l a b c rhs => h_slice l a b c rhs (PTree.ind l) (PTree.ind rhs)
theorem PTree.indL : ∀ es : List PTree, ∀ e ∈ es, P e
  | [], _, h => by cases h
  | x :: xs, e, h => (List.mem_cons.1 h).elim (fun he => he ▸ PTree.ind x) (fun h => PTree.indL xs e h)
theorem PTree.indKV : ∀ kvs : List (Token × PTree), ∀ kv ∈ kvs, P kv.2
  | [], _, h => by cases h
  | (k, x) :: xs, kv, h => (List.mem_cons.1 h).elim (fun he => he ▸ PTree.ind x) (fun h => PTree.indKV xs kv h)
end
end Ind


/-! ## Small facts about the grammar's definitions -/

theorem isIcur_eq {l : PTree} (h : l.isIcur = true) : l = .icur := by
  cases l <;> first | rfl | cases h

theorem optNode_icur (n : INode) : optNode .icur n = none := rfl

theorem optNode_of_ne {l : PTree} (h : l.isIcur = false) (n : INode) : optNode l n = some n := by
  simp [optNode, h]

theorem lmin_of_ne {l : PTree} (h : l.isIcur = false) (lvl ll : Nat) : lmin lvl l ll = min lvl ll := by
  simp [lmin, h]

theorem binLevel_mkBin {t : TokenType} {l : Nat} (h : binLevel t = some l) : mkBin t = some (binNode t) := by
  cases t <;> simp [binLevel] at h <;> rfl

theorem binLevel_range {t : TokenType} {l : Nat} (h : binLevel t = some l) : 2 ≤ l ∧ l ≤ 7 := by
  cases t <;> simp [binLevel] at h <;> subst h <;> decide

/-- every level of a well-formed tree is at least 2 (so every tree can be read at power 1) -/
theorem llevel_ge : ∀ (b : Bool) (t : PTree), wp b t = true → 2 ≤ llevel t
  | b, .bin op l r, h => by
    simp only [wp] at h
    split at h
    · cases h
    · rename_i lvl hl
      simp only [Bool.and_eq_true, Bool.not_eq_true', decide_eq_true_eq] at h
      have := llevel_ge b l h.1.1.1.2
      simp only [llevel, hl, Option.getD_some, lmin_of_ne h.1.1.1.1]
      have := (binLevel_range hl).1
      omega
  | b, .dotId l r, h => by
    simp only [llevel, lmin]
    split
    · decide
    · rename_i hi
      simp only [wp, hi, Bool.false_eq_true, if_false, Bool.and_eq_true] at h
      have := llevel_ge b l h.1.1.1.1
      simp only [lvlDot]; omega
  | b, .dotList l es, h => by
    simp only [llevel, lmin]
    split
    · decide
    · rename_i hi
      simp only [wp, hi, Bool.false_eq_true, if_false, Bool.and_eq_true] at h
      have := llevel_ge b l h.1.1.1
      simp only [lvlDot]; omega
  | b, .dotHash l kvs, h => by
    simp only [llevel, lmin]
    split
    · decide
    · rename_i hi
      simp only [wp, hi, Bool.false_eq_true, if_false, Bool.and_eq_true] at h
      have := llevel_ge b l h.1.1.1
      simp only [lvlDot]; omega
  | b, .dotStarList l, h => by
    simp only [llevel, lmin]
    split
    · decide
    · rename_i hi
      simp only [wp, hi, Bool.false_eq_true, if_false, Bool.and_eq_true] at h
      have := llevel_ge b l h.1
      simp only [lvlDot]; omega
  | b, .index l n, h => by
    simp only [llevel, lmin]
    split
    · decide
    · rename_i hi
      simp only [wp, hi, Bool.false_eq_true, if_false, Bool.and_eq_true] at h
      have := llevel_ge b l h.1.1
      simp only [lvlBracket]; omega
  | b, .star l rhs, h => by
    simp only [llevel, lmin]
    split
    · decide
    · rename_i hi
      simp only [wp, hi, Bool.false_eq_true, if_false, Bool.and_eq_true] at h
      have := llevel_ge b l h.1.1
      simp only [lvlBracket]; omega
  | b, .ostar l rhs, h => by
    simp only [llevel, lmin]
    split
    · decide
    · rename_i hi
      simp only [wp, hi, Bool.false_eq_true, if_false, Bool.and_eq_true] at h
      have := llevel_ge b l h.1.1
      simp only [lvlDot]; omega
  | b, .flat l rhs, h => by
    simp only [llevel, lmin]
    split
    · decide
    · rename_i hi
      simp only [wp, hi, Bool.false_eq_true, if_false, Bool.and_eq_true] at h
      have := llevel_ge b l h.1.1
      simp only [lvlFlatten]; omega
  | b, .filt l c rhs, h => by
    simp only [llevel, lmin]
    split
    · decide
    · rename_i hi
      simp only [wp, hi, Bool.false_eq_true, if_false, Bool.and_eq_true] at h
      have := llevel_ge b l h.1.1.1
      simp only [lvlFilter]; omega
  | b, .slice l a bb c rhs, h => by
    simp only [llevel, lmin]
    split
    · decide
    · rename_i hi
      simp only [wp, hi, Bool.false_eq_true, if_false, Bool.and_eq_true] at h
      have := llevel_ge b l h.1.1.1
      simp only [lvlBracket]; omega
  | _, .icur, _ => by decide
  | _, .atom _, _ => by show 2 ≤ top; decide
  | _, .paren _, _ => by show 2 ≤ top; decide
  | _, .not _, _ => by show 2 ≤ top; decide
  | _, .neg _ _, _ => by show 2 ≤ top; decide
  | _, .pos _, _ => by show 2 ≤ top; decide
  | _, .call _ _, _ => by show 2 ≤ top; decide
  | _, .ref _, _ => by show 2 ≤ top; decide
  | _, .letIn _ _, _ => by show 2 ≤ top; decide
  | _, .multiList _, _ => by show 2 ≤ top; decide
  | _, .multiHash _, _ => by show 2 ≤ top; decide


/-! ## Completeness: the continuation-style statement -/

/-- what reading a tree's tokens must achieve: `expression` in primary position, `projection` (with a right-hand
    side present) in right-hand-side position -/
def Goal (b : Bool) (f prec : Nat) (ts : List Token) (n : INode) (s' : PState) : Prop :=
  match b with
  | false => expression f prec (stOf ts) = .ok (n, s')
  | true => projection f prec (stOf ts) = .ok (some n, s')

theorem Goal.mono {b f g prec ts n s'} (h : Goal b f prec ts n s') (hfg : f ≤ g) : Goal b g prec ts n s' := by
  cases b
  · exact expression_mono hfg h
  · exact projection_mono hfg h

/-- **the key statement**: reading the tokens of `t` at a power below its left level reaches the operator loop with
    `erase t` as left operand -/
def Reach (b : Bool) (t : PTree) : Prop :=
  ∀ prec, prec < llevel t → (b = true → prec ≤ lvlDot) → ∀ rest, Follow (rlevel t) rest → ∀ g n s',
    exprLoop g (erase t) prec (stOf rest) = .ok (n, s') → ∃ f, Goal b f prec (flat b t ++ rest) n s'

/-- a tree in primary position is an operand at every power below its left level -/
theorem Reach.operand {t : PTree} (h : Reach false t) {p : Nat} (hp : p < llevel t) {rest : List Token}
    (hr : Follow (min p (rlevel t)) rest) :
    ∃ f, expression f p (stOf (flat false t ++ rest)) = .ok (erase t, stOf rest) :=
  h p hp (fun h => by cases h) rest (hr.mono (Nat.min_le_right _ _)) 1 _ _
    (exprLoop_stop (Nat.le_trans hr.1 (Nat.min_le_left _ _)))

/-- a right-hand side is read by `projection` at every power below its left level -/
theorem Reach.rhs {t : PTree} (h : Reach true t) {p : Nat} (hp : p < llevel t) (hp' : p ≤ lvlDot)
    {rest : List Token} (hr : Follow (min p (rlevel t)) rest) :
    ∃ f, projection f p (stOf (flat true t ++ rest)) = .ok (some (erase t), stOf rest) :=
  h p hp (fun _ => hp') rest (hr.mono (Nat.min_le_right _ _)) 1 _ _
    (exprLoop_stop (Nat.le_trans hr.1 (Nat.min_le_left _ _)))

/-- a form read by `primaryExpression` -/
theorem reach_of_prim {t : PTree}
    (h : ∀ rest, Follow (rlevel t) rest →
      ∃ f, primaryExpression f (stOf (flat false t ++ rest)) = .ok (erase t, stOf rest)) : Reach false t := by
  intro prec _ _ rest hr g n s' hk
  obtain ⟨f, hf⟩ := h rest hr
  refine ⟨max f g + 1, ?_⟩
  show expression _ _ _ = _
  rw [expression_of_prim (primaryExpression_mono (Nat.le_max_left f g) hf)]
  exact exprLoop_mono (Nat.le_max_right f g) hk

/-- a form with a left operand `l`: one step of the operator loop -/
theorem reach_of_step {b : Bool} {l t : PTree} {toks : List Token} (hl : Reach b l)
    (hflat : flat b t = flat b l ++ toks) (hll : llevel t ≤ llevel l)
    (hfol : ∀ rest, Follow (rlevel l) (toks ++ rest))
    (hstep : ∀ prec, prec < llevel t → ∀ rest, Follow (rlevel t) rest → ∃ F0, ∀ F, F0 ≤ F →
      exprLoop (F + 1) (erase l) prec (stOf (toks ++ rest)) = exprLoop F (erase t) prec (stOf rest)) :
    Reach b t := by
  intro prec hp hb rest hr g n s' hk
  obtain ⟨F0, hF⟩ := hstep prec hp rest hr
  have h1 := hF (max F0 g) (Nat.le_max_left _ _)
  rw [exprLoop_mono (Nat.le_max_right F0 g) hk] at h1
  obtain ⟨f, hf⟩ := hl prec (Nat.lt_of_lt_of_le hp hll) hb (toks ++ rest) (hfol rest) _ n s' h1
  exact ⟨f, by rw [hflat, List.append_assoc]; exact hf⟩

/-! ## Running the parser's primitives on `stOf` -/

theorem currValue_run (s : PState) : currValue s = .ok (s.curr.value, s) := rfl

theorem follow_of_prec0 {q : Nat} {t : Token} {ts : List Token} (h0 : precedence t.type = 0)
    (hne : t.type ≠ .openParen) : Follow q (t :: ts) :=
  ⟨by show precedence t.type ≤ q; omega, hne⟩

theorem follow_cons_of {q : Nat} {t : Token} {ts : List Token} (h0 : precedence t.type ≤ q)
    (hne : t.type ≠ .openParen) : Follow q (t :: ts) := ⟨h0, hne⟩

/-! ## Primary forms -/

theorem prim_atom {t : Token} {n : INode} (h : atomNode t = some n) (rest : List Token)
    (hr : (stOf rest).curr.type ≠ .openParen) :
    primaryExpression 1 (stOf (t :: rest)) = .ok (n, stOf rest) := by
  rw [primaryExpression.eq_2, bind_ok (get_run _)]
  unfold atomNode at h
  split at h
  · rename_i ht
    cases h
    have hn : ((stOf (t :: rest)).next.type == TokenType.openParen) = false := by
      rw [stOf_next_eq]; simpa using hr
    simp only [stOf_curr, ht, hn, Bool.false_eq_true, if_false]
    rw [bind_ok (advance_stOf _ _)]; rfl
  · rename_i ht
    simp only [Option.map_eq_some_iff] at h
    obtain ⟨k, hk, rfl⟩ := h
    simp only [stOf_curr, ht, hk]
    rw [bind_ok (advance_stOf _ _)]; rfl
  · rename_i ht
    cases h
    simp only [stOf_curr, ht]
    rw [bind_ok (advance_stOf _ _)]; rfl
  · rename_i ht
    simp only [Option.map_eq_some_iff] at h
    obtain ⟨k, hk, rfl⟩ := h
    simp only [stOf_curr, ht, hk]
    rw [bind_ok (advance_stOf _ _)]; rfl
  · rename_i ht
    cases h
    simp only [stOf_curr, ht]
    rw [bind_ok (advance_stOf _ _)]; rfl
  · rename_i ht
    cases h
    simp only [stOf_curr, ht]
    rw [bind_ok (advance_stOf _ _)]; rfl
  · rename_i ht
    cases h
    simp only [stOf_curr, ht]
    rw [bind_ok (advance_stOf _ _)]; rfl
  · cases h

theorem reach_atom {t : Token} (h : wp false (.atom t) = true) : Reach false (.atom t) := by
  apply reach_of_prim
  intro rest hr
  simp only [wp, Bool.not_false, Bool.true_and, Option.isSome_iff_exists] at h
  obtain ⟨n, hn⟩ := h
  exact ⟨1, by simp only [flat, erase, hn, Option.getD_some, List.singleton_append]; exact prim_atom hn rest hr.2⟩

theorem follow_rparen (q : Nat) (rest : List Token) : Follow q (tRParen :: rest) :=
  follow_of_prec0 rfl (by decide)

theorem reach_paren {t : PTree} (ht : Reach false t) (h : wp false (.paren t) = true) : Reach false (.paren t) := by
  apply reach_of_prim
  intro rest _
  simp only [wp, Bool.not_false, Bool.true_and] at h
  obtain ⟨f, hf⟩ := ht.operand (p := 1) (by have := llevel_ge _ _ h; omega) (rest := tRParen :: rest)
    (follow_rparen _ _)
  refine ⟨f + 1, ?_⟩
  rw [primaryExpression.eq_2, bind_ok (get_run _)]
  simp only [flat, erase, List.cons_append, List.append_assoc, List.nil_append, stOf_curr, tLParen]
  rw [bind_ok (advance_stOf _ _), bind_ok hf, bind_ok (currType_run _)]
  simp only [stOf_curr, tRParen, bne_self_eq_false, Bool.false_eq_true, if_false]
  rw [bind_ok (advance_stOf _ _)]
  rfl

theorem reach_not {t : PTree} (ht : Reach false t) (h : wp false (.not t) = true) : Reach false (.not t) := by
  apply reach_of_prim
  intro rest hr
  simp only [wp, Bool.not_false, Bool.true_and, Bool.and_eq_true, decide_eq_true_eq] at h
  obtain ⟨f, hf⟩ := ht.operand (p := precedence .not) h.2 (rest := rest) hr
  refine ⟨f + 1, ?_⟩
  rw [primaryExpression.eq_2, bind_ok (get_run _)]
  simp only [flat, erase, List.cons_append, stOf_curr, tNot]
  rw [bind_ok (advance_stOf _ _), bind_ok hf]
  rfl

theorem reach_neg {tok : Token} {t : PTree} (ht : Reach false t) (h : wp false (.neg tok t) = true) :
    Reach false (.neg tok t) := by
  apply reach_of_prim
  intro rest hr
  simp only [wp, Bool.not_false, Bool.true_and, Bool.and_eq_true, decide_eq_true_eq, beq_iff_eq] at h
  obtain ⟨f, hf⟩ := ht.operand (p := precedence .multiply) h.2 (rest := rest) hr
  refine ⟨f + 1, ?_⟩
  rw [primaryExpression.eq_2, bind_ok (get_run _)]
  simp only [flat, erase, List.cons_append, stOf_curr, h.1.1]
  rw [bind_ok (advance_stOf _ _), bind_ok hf]
  rfl

theorem reach_pos {t : PTree} (ht : Reach false t) (h : wp false (.pos t) = true) : Reach false (.pos t) := by
  apply reach_of_prim
  intro rest hr
  simp only [wp, Bool.not_false, Bool.true_and, Bool.and_eq_true, decide_eq_true_eq] at h
  obtain ⟨f, hf⟩ := ht.operand (p := precedence .multiply) h.2 (rest := rest) hr
  refine ⟨f + 1, ?_⟩
  rw [primaryExpression.eq_2, bind_ok (get_run _)]
  simp only [flat, erase, List.cons_append, stOf_curr, tPlus]
  rw [bind_ok (advance_stOf _ _), bind_ok hf]
  rfl

/-! ## Evaluating the parser on token lists -/

set_option linter.unusedSimpArgs false

theorem fail_run {α} (e : PErr) (s : PState) : (fail e : PM α) s = .error e := rfl
theorem ite_run {α} (c : Prop) [Decidable c] (a b : PM α) (s : PState) :
    (if c then a else b) s = if c then a s else b s := by split <;> rfl

theorem tLParen_type : tLParen.type = .openParen := rfl
theorem tRParen_type : tRParen.type = .closeParen := rfl
theorem tLBracket_type : tLBracket.type = .openSqBrace := rfl
theorem tRBracket_type : tRBracket.type = .closeSqBrace := rfl
theorem tLBrace_type : tLBrace.type = .openBrace := rfl
theorem tRBrace_type : tRBrace.type = .closeBrace := rfl
theorem tComma_type : tComma.type = .comma := rfl
theorem tColon_type : tColon.type = .colon := rfl
theorem tDot_type : tDot.type = .dot := rfl
theorem tDotStar_type : tDotStar.type = .objectWildcard := rfl
theorem tStar_type : tStar.type = .asterisk := rfl
theorem tArrayStar_type : tArrayStar.type = .arrayWildcard := rfl
theorem tFlatten_type : tFlatten.type = .flatten := rfl
theorem tFilter_type : tFilter.type = .filter := rfl
theorem tNot_type : tNot.type = .not := rfl
theorem tPlus_type : tPlus.type = .add := rfl
theorem tAmp_type : tAmp.type = .expression := rfl
theorem tLet_type : tLet.type = .«let» := rfl
theorem tIn_type : tIn.type = .«in» := rfl
theorem tAssign_type : tAssign.type = .assign := rfl

/-- evaluate a `do` block of the parser on a state of the form `stOf (t :: …)` -/
macro "pm_eval" "[" ts:Lean.Parser.Tactic.simpLemma,* "]" : tactic => `(tactic|
  simp only [bind_run, ite_run, currType_run, nextType_run, currValue_run, get_run, pure_run, fail_run, stOf_curr,
    stOf_next_eq, advance2_stOf, advance_stOf, if_true, if_false, beq_iff_eq, bne_iff_ne, ne_eq, reduceCtorEq,
    not_true_eq_false, not_false_eq_true, Bool.not_true, Bool.not_false, Bool.false_eq_true, beq_self_eq_true,
    List.nil_append, List.cons_append, List.append_assoc,
    tLParen_type, tRParen_type, tLBracket_type, tRBracket_type, tLBrace_type, tRBrace_type, tComma_type, tColon_type, tDot_type, tDotStar_type, tStar_type, tArrayStar_type, tFlatten_type, tFilter_type, tNot_type, tPlus_type, tAmp_type, tLet_type, tIn_type, tAssign_type, $ts,*])

/-- … in a hypothesis -/
macro "pm_at" h:ident "[" ts:Lean.Parser.Tactic.simpLemma,* "]" : tactic => `(tactic|
  simp only [bind_run, ite_run, currType_run, nextType_run, currValue_run, get_run, pure_run, fail_run, stOf_curr,
    stOf_next_eq, advance2_stOf, advance_stOf, if_true, if_false, beq_iff_eq, bne_iff_ne, ne_eq, reduceCtorEq,
    not_true_eq_false, not_false_eq_true, Bool.not_true, Bool.not_false, Bool.false_eq_true, beq_self_eq_true,
    List.nil_append, List.cons_append, List.append_assoc,
    tLParen_type, tRParen_type, tLBracket_type, tRBracket_type, tLBrace_type, tRBrace_type, tComma_type, tColon_type, tDot_type, tDotStar_type, tStar_type, tArrayStar_type, tFlatten_type, tFilter_type, tNot_type, tPlus_type, tAmp_type, tLet_type, tIn_type, tAssign_type, $ts,*] at $h:ident)

/-- … using all hypotheses -/
macro "pm_eval_star" "[" ts:Lean.Parser.Tactic.simpLemma,* "]" : tactic => `(tactic|
  simp only [bind_run, ite_run, currType_run, nextType_run, currValue_run, get_run, pure_run, fail_run, stOf_curr,
    stOf_next_eq, advance2_stOf, advance_stOf, if_true, if_false, beq_iff_eq, bne_iff_ne, ne_eq, reduceCtorEq,
    not_true_eq_false, not_false_eq_true, Bool.not_true, Bool.not_false, Bool.false_eq_true, beq_self_eq_true,
    List.nil_append, List.cons_append, List.append_assoc,
    tLParen_type, tRParen_type, tLBracket_type, tRBracket_type, tLBrace_type, tRBrace_type, tComma_type, tColon_type, tDot_type, tDotStar_type, tStar_type, tArrayStar_type, tFlatten_type, tFilter_type, tNot_type, tPlus_type, tAmp_type, tLet_type, tIn_type, tAssign_type, $ts,*, *])

theorem indexP_index (child : Option INode) {n : Token} {i : Int} (hn : n.type = .integerLiteral)
    (hi : parseInt64 n.value = some i) (rest : List Token) :
    indexP child (stOf (n :: tRBracket :: rest)) = .ok ((indexNode child i, false), stOf rest) := by
  unfold indexP
  pm_eval [hn, hi]
  cases child <;> simp only [indexNode, pure_run]
  split <;> rfl

theorem loop_bin {o : Token} {lvl : Nat} (hl : binLevel o.type = some lvl) {p F : Nat} (hp : p < lvl)
    {l r : INode} {ts1 ts2 : List Token} (hr : expression F lvl (stOf ts1) = .ok (r, stOf ts2)) :
    exprLoop (F + 1) l p (stOf (o :: ts1)) = exprLoop F (binNode o.type l r) p (stOf ts2) := by
  have hprec := binLevel_precedence hl
  rw [exprLoop_bin (s := stOf (o :: ts1)) (binLevel_mkBin hl) (by simpa [hprec] using hp),
    bind_ok (advance_stOf _ _)]
  simp only [stOf_curr, hprec]
  rw [bind_ok hr]

theorem loop_dotId {p F : Nat} (hp : p < lvlDot) {l r : INode} {t : Token}
    (ht : t.type = .unquotedIdentifier ∨ t.type = .quotedIdentifier) {ts1 ts2 : List Token}
    (hr : expression F lvlDot (stOf (t :: ts1)) = .ok (r, stOf ts2)) :
    exprLoop (F + 1) l p (stOf (tDot :: t :: ts1)) = exprLoop F (.pipe l r) p (stOf ts2) := by
  rw [exprLoop_dot_ident (s := stOf (tDot :: t :: ts1)) rfl (by simpa using ht) hp, bind_ok (advance_stOf _ _)]
  show (expression F lvlDot >>= _) _ = _
  rw [bind_ok hr]

theorem loop_dotStarList {p F : Nat} (hp : p < lvlDot) {l : INode} {rest : List Token} :
    exprLoop (F + 1) l p (stOf (tDot :: tArrayStar :: rest)) =
      exprLoop F (.selectArraySingle l .objectValuesCurrent) p (stOf rest) := by
  have hn : ¬ precedence TokenType.dot ≤ p := by simp only [precedence, lvlDot] at *; omega
  rw [exprLoop.eq_2]
  pm_eval [hn, binOpOf]

theorem loop_index {p F : Nat} (hp : p < lvlBracket) {l : INode} {n : Token} {i : Int} (hn' : n.type = .integerLiteral)
    (hi : parseInt64 n.value = some i) {rest : List Token} :
    exprLoop (F + 1) l p (stOf (tLBracket :: n :: tRBracket :: rest)) = exprLoop F (.index l i) p (stOf rest) := by
  have hn : ¬ precedence TokenType.openSqBrace ≤ p := by simp only [precedence, lvlBracket] at *; omega
  rw [exprLoop.eq_2]
  pm_eval [hn, binOpOf]
  rw [indexP_index (some l) hn' hi rest]
  rfl


theorem isIntTok_iff {t : Token} :
    isIntTok t = true ↔ t.type = .integerLiteral ∧ ∃ i, parseInt64 t.value = some i := by
  simp [isIntTok, intOf, Option.isSome_iff_exists]

theorem indexP_slice (child : Option INode) {a b : Option Token} {c : Option (Option Token)}
    (h : sliceOK a b c = true) (rest : List Token) :
    indexP child (stOf (sliceToks a b c ++ tRBracket :: rest)) =
      .ok ((sliceNode child (a.bind intOf) (b.bind intOf) (c.bind fun s => s.bind intOf), true), stOf rest) := by
  unfold sliceOK at h
  simp only [Bool.and_eq_true] at h
  obtain ⟨⟨ha, hb⟩, hc⟩ := h
  rcases a with _ | a <;> rcases b with _ | b <;> rcases c with _ | _ | c
  all_goals simp only [optIntTok, isIntTok_iff, Bool.and_eq_true, bne_iff_ne, ne_eq] at ha hb hc
  all_goals try obtain ⟨ha, ia, hia⟩ := ha
  all_goals try obtain ⟨hb, ib, hib⟩ := hb
  all_goals try obtain ⟨⟨hc, ic, hic⟩, hc0⟩ := hc
  all_goals unfold indexP
  all_goals pm_eval_star [sliceToks, Option.toList, List.append_nil]
  all_goals simp only [intOf, Option.bind_some, Option.bind_none, Option.some.injEq, *] at *
  all_goals cases child <;> simp only [sliceNode, Option.getD_some, Option.getD_none, indexP.MaxIntP,
    indexP.MinIntP, maxInt, minInt, pure_run]
  all_goals (try split) <;> (try split) <;> (try split) <;> (try split) <;> (try split) <;>
    first | rfl | omega | (exfalso; simp_all; done)

theorem loop_slice {p F : Nat} (hp : p < lvlBracket) {l : INode} {a b : Option Token} {c : Option (Option Token)}
    (h : sliceOK a b c = true) {ts1 ts2 : List Token} {o : Option INode}
    (hr : projection F projectionPrecedence (stOf ts1) = .ok (o, stOf ts2)) :
    exprLoop (F + 1) l p (stOf (tLBracket :: (sliceToks a b c ++ tRBracket :: ts1))) =
      exprLoop F (.projectArray (sliceNode (some l) (a.bind intOf) (b.bind intOf) (c.bind fun s => s.bind intOf))
        (o.getD .current)) p (stOf ts2) := by
  have hn : ¬ precedence TokenType.openSqBrace ≤ p := by simp only [precedence, lvlBracket] at *; omega
  rw [exprLoop.eq_2]
  pm_eval [hn, binOpOf]
  rw [indexP_slice (some l) h ts1]
  pm_eval [hr]

theorem loop_dotList {p F : Nat} (hp : p < lvlDot) {l n : INode} {ts1 ts2 : List Token}
    (hr : selectArray F (some l) (stOf ts1) = .ok (n, stOf ts2)) :
    exprLoop (F + 1) l p (stOf (tDot :: tLBracket :: ts1)) = exprLoop F n p (stOf ts2) := by
  have hn : ¬ precedence TokenType.dot ≤ p := by simp only [precedence, lvlDot] at *; omega
  rw [exprLoop.eq_2]
  pm_eval [hn, binOpOf, hr]

theorem loop_dotHash {p F : Nat} (hp : p < lvlDot) {l n : INode} {ts1 ts2 : List Token}
    (hr : selectObject F (some l) (stOf ts1) = .ok (n, stOf ts2)) :
    exprLoop (F + 1) l p (stOf (tDot :: tLBrace :: ts1)) = exprLoop F n p (stOf ts2) := by
  have hn : ¬ precedence TokenType.dot ≤ p := by simp only [precedence, lvlDot] at *; omega
  rw [exprLoop.eq_2]
  pm_eval [hn, binOpOf, hr]

theorem loop_star {p F : Nat} (hp : p < lvlBracket) {l : INode} {ts1 ts2 : List Token} {o : Option INode}
    (hr : projection F projectionPrecedence (stOf ts1) = .ok (o, stOf ts2)) :
    exprLoop (F + 1) l p (stOf (tArrayStar :: ts1)) = exprLoop F (starNode (some l) o) p (stOf ts2) := by
  have hn : ¬ precedence TokenType.arrayWildcard ≤ p := by simp only [precedence, lvlBracket] at *; omega
  rw [exprLoop.eq_2]
  pm_eval [hn, binOpOf, hr]
  cases o <;> rfl

theorem loop_ostar {p F : Nat} (hp : p < lvlDot) {l : INode} {ts1 ts2 : List Token} {o : Option INode}
    (hr : projection F projectionPrecedence (stOf ts1) = .ok (o, stOf ts2)) :
    exprLoop (F + 1) l p (stOf (tDotStar :: ts1)) = exprLoop F (ostarNode (some l) o) p (stOf ts2) := by
  have hn : ¬ precedence TokenType.objectWildcard ≤ p := by simp only [precedence, lvlDot] at *; omega
  rw [exprLoop.eq_2]
  pm_eval [hn, binOpOf, hr]
  cases o <;> rfl

theorem loop_flat {p F : Nat} (hp : p < lvlFlatten) {l : INode} {ts1 ts2 : List Token} {o : Option INode}
    (hr : projection F projectionPrecedence (stOf ts1) = .ok (o, stOf ts2)) :
    exprLoop (F + 1) l p (stOf (tFlatten :: ts1)) = exprLoop F (flatNode (some l) o) p (stOf ts2) := by
  have hn : ¬ precedence TokenType.flatten ≤ p := by simp only [precedence, lvlFlatten] at *; omega
  rw [exprLoop.eq_2]
  pm_eval [hn, binOpOf, hr]
  cases o <;> rfl

theorem loop_filt {p F : Nat} (hp : p < lvlFilter) {l c : INode} {ts1 ts2 ts3 : List Token} {o : Option INode}
    (hc : filterP F (stOf ts1) = .ok (c, stOf ts2))
    (hr : projection F projectionPrecedence (stOf ts2) = .ok (o, stOf ts3)) :
    exprLoop (F + 1) l p (stOf (tFilter :: ts1)) = exprLoop F (filtNode (some l) c o) p (stOf ts3) := by
  have hn : ¬ precedence TokenType.filter ≤ p := by simp only [precedence, lvlFilter] at *; omega
  rw [exprLoop.eq_2]
  pm_eval [hn, binOpOf, hc, hr]
  cases o <;> rfl

theorem filterP_run {F : Nat} {c : INode} {ts1 ts2 : List Token}
    (hc : expression F 1 (stOf ts1) = .ok (c, stOf (tRBracket :: ts2))) :
    filterP (F + 1) (stOf ts1) = .ok (c, stOf ts2) := by
  rw [filterP.eq_2]
  pm_eval [hc]


/-! ## Sequences -/

theorem follow_prec0 {q : Nat} {t : Token} (ts : List Token) (h0 : precedence t.type = 0 := by rfl)
    (hne : t.type ≠ .openParen := by decide) : Follow q (t :: ts) := follow_of_prec0 h0 hne

/-- an element of a list, a member, an argument, a binding: read at power 1, followed by a closing token or comma -/
theorem Reach.elem {e : PTree} (h : Reach false e) (hw : wp false e = true) {t : Token} (ts : List Token)
    (h0 : precedence t.type = 0) (hne : t.type ≠ .openParen) :
    ∃ f, expression f 1 (stOf (flat false e ++ t :: ts)) = .ok (erase e, stOf (t :: ts)) :=
  h.operand (by have := llevel_ge _ _ hw; omega) (follow_of_prec0 h0 hne)

theorem flatSep_cons2 (e e' : PTree) (es : List PTree) :
    flatSep (e :: e' :: es) = flat false e ++ tComma :: flatSep (e' :: es) := by
  simp only [flatSep]

theorem listNode_snoc (child : Option INode) (acc : List INode) (x : INode) :
    listNode child (acc ++ [x]) =
      if acc.isEmpty then (match child with | none => .selectArraySingleCurrent x | some c => .selectArraySingle c x)
      else (match child with | none => .selectArrayCurrent (acc ++ [x]) | some c => .selectArray c (acc ++ [x])) := by
  rcases acc with _ | ⟨a, _ | ⟨b, acc⟩⟩ <;> cases child <;> rfl

theorem sarrl_complete (child : Option INode) (rest : List Token) :
    ∀ (es : List PTree), es ≠ [] → (∀ e ∈ es, Reach false e) → (∀ e ∈ es, wp false e = true) → ∀ acc,
      ∃ f, selectArrayLoop f child acc (stOf (flatSep es ++ tRBracket :: rest)) =
        .ok (listNode child (acc ++ eraseL es), stOf rest)
  | [], h, _, _, _ => absurd rfl h
  | [e], _, hR, hw, acc => by
    obtain ⟨f, hf⟩ := (hR e (by simp)).elem (hw e (by simp)) (t := tRBracket) rest rfl (by decide)
    refine ⟨f + 1, ?_⟩
    rw [selectArrayLoop.eq_2]
    pm_eval [flatSep, eraseL, hf, listNode_snoc]
    split <;> rfl
  | e :: e' :: es, _, hR, hw, acc => by
    obtain ⟨f, hf⟩ := (hR e (by simp)).elem (hw e (by simp)) (t := tComma) (flatSep (e' :: es) ++ tRBracket :: rest)
      rfl (by decide)
    obtain ⟨g, hg⟩ := sarrl_complete child rest (e' :: es) (by simp) (fun x hx => hR x (by simp [hx]))
      (fun x hx => hw x (by simp [hx])) (acc ++ [erase e])
    refine ⟨max f g + 1, ?_⟩
    rw [selectArrayLoop.eq_2, flatSep_cons2]
    have hf' := expression_mono (Nat.le_max_left f g) hf
    have hg' := ((mono_le (Nat.le_max_right f g)).sarrl _ _).ok hg
    pm_eval [hf', hg']
    simp only [eraseL, List.append_assoc, List.singleton_append]

theorem sarr_complete (child : Option INode) (rest : List Token) (es : List PTree) (hne : es ≠ [])
    (hR : ∀ e ∈ es, Reach false e) (hw : ∀ e ∈ es, wp false e = true) :
    ∃ f, selectArray f child (stOf (flatSep es ++ tRBracket :: rest)) = .ok (listNode child (eraseL es), stOf rest) := by
  obtain ⟨f, hf⟩ := sarrl_complete child rest es hne hR hw []
  exact ⟨f + 1, by rw [selectArray.eq_2]; exact hf⟩


theorem flatKVs_cons2 (sep : Token) (k : Token) (e : PTree) (kv : Token × PTree) (kvs : List (Token × PTree)) :
    flatKVs sep ((k, e) :: kv :: kvs) = k :: sep :: flat false e ++ tComma :: flatKVs sep (kv :: kvs) := by
  simp only [flatKVs]

theorem assocInsert_ne_nil (k : Bytes) (v : INode) (l : List (Bytes × INode)) : assocInsert k v l ≠ [] := by
  cases l with
  | nil => simp [assocInsert]
  | cons a l =>
    obtain ⟨k', v'⟩ := a
    simp only [assocInsert]
    split
    · simp
    · split <;> simp

theorem assocOf_snoc (ps : List (Bytes × INode)) (k : Bytes) (v : INode) :
    assocOf (ps ++ [(k, v)]) = assocInsert k v (assocOf ps) := by
  simp [assocOf, List.foldl_append]

theorem assocOf_isEmpty (ps : List (Bytes × INode)) : (assocOf ps).isEmpty = ps.isEmpty := by
  rcases List.eq_nil_or_concat ps with rfl | ⟨l, a, rfl⟩
  · rfl
  · obtain ⟨k, v⟩ := a
    simp only [List.concat_eq_append]
    rw [assocOf_snoc]
    have := assocInsert_ne_nil k v (assocOf l)
    cases h : assocInsert k v (assocOf l) with
    | nil => exact absurd h this
    | cons _ _ => simp

theorem hashNode_snoc (child : Option INode) (ps : List (Bytes × INode)) (k : Bytes) (x : INode) :
    hashNode child (ps ++ [(k, x)]) =
      if (assocOf ps).isEmpty then
        (match child with | none => .selectObjectSingleCurrent k x | some c => .selectObjectSingle c k x)
      else (match child with
        | none => .selectObjectCurrent (assocInsert k x (assocOf ps))
        | some c => .selectObject c (assocInsert k x (assocOf ps))) := by
  rw [assocOf_isEmpty, ← assocOf_snoc]
  rcases ps with _ | ⟨a, _ | ⟨b, ps⟩⟩ <;> cases child <;> rfl

theorem keyOK_cases {k : Token} (h : keyOK k = true) :
    k.type = .unquotedIdentifier ∨ (k.type = .quotedIdentifier ∧ ∃ v, parseQuotedIdentifier k.value = some v) := by
  simpa [keyOK, Option.isSome_iff_exists] using h

theorem sobjl_complete (child : Option INode) (rest : List Token) :
    ∀ (kvs : List (Token × PTree)), kvs ≠ [] → (∀ kv ∈ kvs, Reach false kv.2) →
      (∀ kv ∈ kvs, keyOK kv.1 = true ∧ wp false kv.2 = true) → ∀ ps,
      ∃ f, selectObjectLoop f child (assocOf ps) (stOf (flatKVs tColon kvs ++ tRBrace :: rest)) =
        .ok (hashNode child (ps ++ eraseKVs keyOf kvs), stOf rest)
  | [], h, _, _, _ => absurd rfl h
  | [(k, e)], _, hR, hw, ps => by
    obtain ⟨f, hf⟩ := (hR (k, e) (by simp)).elem (hw (k, e) (by simp)).2 (t := tRBrace) rest rfl (by decide)
    refine ⟨f + 1, ?_⟩
    rw [selectObjectLoop.eq_2]
    have hkey : keyOK k = true := (hw (k, e) (by simp)).1
    rcases keyOK_cases hkey with hk | ⟨hk, v, hv⟩
    · pm_eval [flatKVs, eraseKVs, hf, hashNode_snoc, hk, keyOf]
      split <;> rfl
    · pm_eval [flatKVs, eraseKVs, hf, hashNode_snoc, hk, hv, keyOf, Option.getD_some]
      split <;> rfl
  | (k, e) :: kv :: kvs, _, hR, hw, ps => by
    obtain ⟨f, hf⟩ := (hR (k, e) (by simp)).elem (hw (k, e) (by simp)).2 (t := tComma)
      (flatKVs tColon (kv :: kvs) ++ tRBrace :: rest) rfl (by decide)
    obtain ⟨g, hg⟩ := sobjl_complete child rest (kv :: kvs) (by simp) (fun x hx => hR x (by simp [hx]))
      (fun x hx => hw x (by simp [hx])) (ps ++ [(keyOf k, erase e)])
    refine ⟨max f g + 1, ?_⟩
    rw [selectObjectLoop.eq_2, flatKVs_cons2]
    have hf' := expression_mono (Nat.le_max_left f g) hf
    have hg' := ((mono_le (Nat.le_max_right f g)).sobjl _ _).ok hg
    rw [assocOf_snoc] at hg'
    have hkey : keyOK k = true := (hw (k, e) (by simp)).1
    rcases keyOK_cases hkey with hk | ⟨hk, v, hv⟩
    · simp only [keyOf, hk] at hg'
      pm_eval [hf', hg', hk]
      simp only [eraseKVs, keyOf, hk, List.append_assoc, List.singleton_append]
    · simp only [keyOf, hk, hv, Option.getD_some] at hg'
      pm_eval [hf', hg', hk, hv]
      simp only [eraseKVs, keyOf, hk, hv, Option.getD_some, List.append_assoc, List.singleton_append]

theorem sobj_complete (child : Option INode) (rest : List Token) (kvs : List (Token × PTree)) (hne : kvs ≠ [])
    (hR : ∀ kv ∈ kvs, Reach false kv.2) (hw : ∀ kv ∈ kvs, keyOK kv.1 = true ∧ wp false kv.2 = true) :
    ∃ f, selectObject f child (stOf (flatKVs tColon kvs ++ tRBrace :: rest)) =
      .ok (hashNode child (eraseKVs keyOf kvs), stOf rest) := by
  obtain ⟨f, hf⟩ := sobjl_complete child rest kvs hne hR hw []
  exact ⟨f + 1, by rw [selectObject.eq_2]; exact hf⟩


theorem fnArgs_complete (mn mx : Nat) (rest : List Token) :
    ∀ (es : List PTree), es ≠ [] → (∀ e ∈ es, Reach false e) → (∀ e ∈ es, wp false e = true) → ∀ acc : List INode,
      mn ≤ acc.length + es.length → acc.length + es.length ≤ mx →
      ∃ f, fnArgs f mn mx acc (stOf (flatSep es ++ tRParen :: rest)) = .ok (acc ++ eraseL es, stOf rest)
  | [], h, _, _, _, _, _ => absurd rfl h
  | [e], _, hR, hw, acc, h1, h2 => by
    obtain ⟨f, hf⟩ := (hR e (by simp)).elem (hw e (by simp)) (t := tRParen) rest rfl (by decide)
    refine ⟨f + 1, ?_⟩
    rw [fnArgs.eq_2]
    simp only [List.length_singleton] at h1 h2
    have h1' : ¬ acc.length + 1 < mn := by omega
    pm_eval [flatSep, eraseL, hf, List.length_append, List.length_singleton, h1']
    split <;> rfl
  | e :: e' :: es, _, hR, hw, acc, h1, h2 => by
    obtain ⟨f, hf⟩ := (hR e (by simp)).elem (hw e (by simp)) (t := tComma) (flatSep (e' :: es) ++ tRParen :: rest)
      rfl (by decide)
    simp only [List.length_cons] at h1 h2
    obtain ⟨g, hg⟩ := fnArgs_complete mn mx rest (e' :: es) (by simp) (fun x hx => hR x (by simp [hx]))
      (fun x hx => hw x (by simp [hx])) (acc ++ [erase e])
      (by simp only [List.length_append, List.length_cons, List.length_nil]; omega)
      (by simp only [List.length_append, List.length_cons, List.length_nil]; omega)
    refine ⟨max f g + 1, ?_⟩
    rw [fnArgs.eq_2, flatSep_cons2]
    have hf' := expression_mono (Nat.le_max_left f g) hf
    have hg' := ((mono_le (Nat.le_max_right f g)).args _ _ _).ok hg
    have h3 : acc.length + 1 < mx := by omega
    pm_eval [hf', hg', List.length_append, List.length_singleton, h3]
    split <;> simp only [eraseL, List.append_assoc, List.singleton_append]

theorem fnVarArgs_complete (rest : List Token) :
    ∀ (es : List PTree), es ≠ [] → (∀ e ∈ es, Reach false e) → (∀ e ∈ es, wp false e = true) → ∀ acc : List INode,
      ∃ f, fnVarArgs f acc (stOf (flatSep es ++ tRParen :: rest)) = .ok (acc ++ eraseL es, stOf rest)
  | [], h, _, _, _ => absurd rfl h
  | [e], _, hR, hw, acc => by
    obtain ⟨f, hf⟩ := (hR e (by simp)).elem (hw e (by simp)) (t := tRParen) rest rfl (by decide)
    refine ⟨f + 1, ?_⟩
    rw [fnVarArgs.eq_2]
    pm_eval [flatSep, eraseL, hf]
  | e :: e' :: es, _, hR, hw, acc => by
    obtain ⟨f, hf⟩ := (hR e (by simp)).elem (hw e (by simp)) (t := tComma) (flatSep (e' :: es) ++ tRParen :: rest)
      rfl (by decide)
    obtain ⟨g, hg⟩ := fnVarArgs_complete rest (e' :: es) (by simp) (fun x hx => hR x (by simp [hx]))
      (fun x hx => hw x (by simp [hx])) (acc ++ [erase e])
    refine ⟨max f g + 1, ?_⟩
    rw [fnVarArgs.eq_2, flatSep_cons2]
    have hf' := expression_mono (Nat.le_max_left f g) hf
    have hg' := ((mono_le (Nat.le_max_right f g)).vargs _).ok hg
    pm_eval [hf', hg']
    simp only [eraseL, List.append_assoc, List.singleton_append]


theorem expression_ok_ne_rparen {f p : Nat} {s : PState} {r} (h : expression f p s = .ok r) :
    s.curr.type ≠ .closeParen := by
  intro hc
  cases f with
  | zero => rw [expression.eq_1] at h; cases h
  | succ f =>
    rw [expression_succ_run] at h
    cases f with
    | zero => rw [primaryExpression.eq_1] at h; cases h
    | succ f =>
      rw [primaryExpression.eq_2, bind_ok (get_run _)] at h
      simp only [hc] at h
      cases h

theorem function_fixed {F mn mx : Nat} {mk} {name : Token} {ts1 ts2 : List Token} {args : List INode}
    (hl : lookupBuiltin name.value = some (.fixed mn mx mk)) (hne : (stOf ts1).curr.type ≠ .closeParen)
    (ha : fnArgs F mn mx [] (stOf ts1) = .ok (args, stOf ts2)) :
    function (F + 1) (stOf (name :: tLParen :: ts1)) = .ok (mk args, stOf ts2) := by
  rw [function.eq_2]
  pm_eval [hl, hne, ha]

theorem function_varArg {F : Nat} {mk} {name : Token} {ts1 ts2 : List Token} {args : List INode}
    (hl : lookupBuiltin name.value = some (.varArg mk)) (hne : (stOf ts1).curr.type ≠ .closeParen)
    (ha : fnVarArgs F [] (stOf ts1) = .ok (args, stOf ts2)) :
    function (F + 1) (stOf (name :: tLParen :: ts1)) = .ok (mk args, stOf ts2) := by
  rw [function.eq_2]
  pm_eval [hl, hne, ha]

theorem function_expArg {F : Nat} {mk} {name : Token} {ts1 ts2 ts3 : List Token} {a e : INode}
    (hl : lookupBuiltin name.value = some (.expArg mk))
    (ha : expression F 1 (stOf ts1) = .ok (a, stOf (tComma :: tAmp :: ts2)))
    (he : expression F 1 (stOf ts2) = .ok (e, stOf (tRParen :: ts3))) :
    function (F + 1) (stOf (name :: tLParen :: ts1)) = .ok (mk a e, stOf ts3) := by
  rw [function.eq_2]
  have hne := expression_ok_ne_rparen ha
  pm_eval [hl, hne, ha, he]

theorem function_mapArg {F : Nat} {mk} {name : Token} {ts1 ts2 ts3 : List Token} {a e : INode}
    (hl : lookupBuiltin name.value = some (.mapArg mk))
    (he : expression F 1 (stOf ts1) = .ok (e, stOf (tComma :: ts2)))
    (ha : expression F 1 (stOf ts2) = .ok (a, stOf (tRParen :: ts3))) :
    function (F + 1) (stOf (name :: tLParen :: tAmp :: ts1)) = .ok (mk e a, stOf ts3) := by
  rw [function.eq_2]
  pm_eval [hl, he, ha]

theorem prim_function {F : Nat} {name : Token} (hn : name.type = .unquotedIdentifier) {ts : List Token} :
    primaryExpression (F + 1) (stOf (name :: tLParen :: ts)) = function F (stOf (name :: tLParen :: ts)) := by
  rw [primaryExpression.eq_2]
  pm_eval [hn, eq_self, ↓reduceIte]

theorem letP_complete (rest : List Token) (body : PTree) (hb : Reach false body) (hwb : wp false body = true)
    (hr : Follow lvlLet rest) :
    ∀ (bs : List (Token × PTree)), bs ≠ [] → (∀ kv ∈ bs, Reach false kv.2) →
      (∀ kv ∈ bs, isVarTok kv.1 = true ∧ wp false kv.2 = true) → ∀ ps,
      ∃ f, letP f (assocOf ps) (stOf (flatKVs tAssign bs ++ tIn :: flat false body ++ rest)) =
        .ok (.defineVariables (assocOf (ps ++ eraseKVs Token.value bs)) (erase body), stOf rest)
  | [], h, _, _, _ => absurd rfl h
  | [(k, e)], _, hR, hw, ps => by
    have hRe : Reach false e := hR (k, e) (by simp)
    have hwe : wp false e = true := (hw (k, e) (by simp)).2
    obtain ⟨f, hf⟩ := hRe.elem hwe (t := tIn) (flat false body ++ rest) rfl (by decide)
    have hr' : Follow (min 1 (rlevel body)) rest := by
      refine ⟨?_, hr.2⟩
      have h1 := hr.1
      have : precedence (stOf rest).curr.type = 0 := by
        generalize (stOf rest).curr.type = t at h1
        cases t <;> simp [precedence, lvlLet] at h1 ⊢
      omega
    obtain ⟨g, hg⟩ := hb.operand (p := 1) (by have := llevel_ge _ _ hwb; omega) hr'
    have hk : k.type = .variable := by simpa [isVarTok] using (hw (k, e) (by simp)).1
    refine ⟨max f g + 1, ?_⟩
    rw [letP.eq_2]
    have hf' := expression_mono (Nat.le_max_left f g) hf
    have hg' := expression_mono (Nat.le_max_right f g) hg
    pm_eval [flatKVs, eraseKVs, hf', hg', hk, assocOf_snoc]
  | (k, e) :: kv :: kvs, _, hR, hw, ps => by
    have hRe : Reach false e := hR (k, e) (by simp)
    have hwe : wp false e = true := (hw (k, e) (by simp)).2
    obtain ⟨f, hf⟩ := hRe.elem hwe (t := tComma)
      (flatKVs tAssign (kv :: kvs) ++ tIn :: (flat false body ++ rest)) rfl (by decide)
    obtain ⟨g, hg⟩ := letP_complete rest body hb hwb hr (kv :: kvs) (by simp) (fun x hx => hR x (by simp [hx]))
      (fun x hx => hw x (by simp [hx])) (ps ++ [(k.value, erase e)])
    have hk : k.type = .variable := by simpa [isVarTok] using (hw (k, e) (by simp)).1
    refine ⟨max f g + 1, ?_⟩
    rw [letP.eq_2, flatKVs_cons2]
    have hf' := expression_mono (Nat.le_max_left f g) hf
    have hg' := ((mono_le (Nat.le_max_right f g)).letp _).ok hg
    rw [assocOf_snoc] at hg'
    pm_eval [hf', hk]
    simp only [eraseKVs, List.append_assoc, List.singleton_append, List.cons_append, List.nil_append] at hg' ⊢
    exact hg'


/-! ## Leading forms, read by `primaryExpression` -/

theorem prim_multiHash {F : Nat} {ts : List Token} :
    primaryExpression (F + 1) (stOf (tLBrace :: ts)) = selectObject F none (stOf ts) := by
  rw [primaryExpression.eq_2]
  pm_eval []

theorem prim_multiList {F : Nat} {ts : List Token} (h1 : (stOf ts).curr.type ≠ .integerLiteral)
    (h2 : (stOf ts).curr.type ≠ .colon) :
    primaryExpression (F + 1) (stOf (tLBracket :: ts)) = selectArray F none (stOf ts) := by
  rw [primaryExpression.eq_2]
  pm_eval [h1, h2, Bool.or_self, Bool.or_eq_true, or_self]

theorem prim_star0 {F : Nat} {ts1 ts2 : List Token} {o : Option INode}
    (hr : projection F projectionPrecedence (stOf ts1) = .ok (o, stOf ts2)) :
    primaryExpression (F + 1) (stOf (tArrayStar :: ts1)) = .ok (starNode none o, stOf ts2) := by
  rw [primaryExpression.eq_2]
  pm_eval [hr]
  cases o <;> rfl

theorem prim_ostar0 {F : Nat} {ts1 ts2 : List Token} {o : Option INode}
    (hr : projection F projectionPrecedence (stOf ts1) = .ok (o, stOf ts2)) :
    primaryExpression (F + 1) (stOf (tStar :: ts1)) = .ok (ostarNode none o, stOf ts2) := by
  rw [primaryExpression.eq_2]
  pm_eval [hr]
  cases o <;> rfl

theorem prim_flat0 {F : Nat} {ts1 ts2 : List Token} {o : Option INode}
    (hr : projection F projectionPrecedence (stOf ts1) = .ok (o, stOf ts2)) :
    primaryExpression (F + 1) (stOf (tFlatten :: ts1)) = .ok (flatNode none o, stOf ts2) := by
  rw [primaryExpression.eq_2]
  pm_eval [hr]
  cases o <;> rfl

theorem prim_filt0 {F : Nat} {c : INode} {ts1 ts2 ts3 : List Token} {o : Option INode}
    (hc : filterP F (stOf ts1) = .ok (c, stOf ts2))
    (hr : projection F projectionPrecedence (stOf ts2) = .ok (o, stOf ts3)) :
    primaryExpression (F + 1) (stOf (tFilter :: ts1)) = .ok (filtNode none c o, stOf ts3) := by
  rw [primaryExpression.eq_2]
  pm_eval [hc, hr]
  cases o <;> rfl

theorem prim_index0 {F : Nat} {n : Token} {i : Int} (hn : n.type = .integerLiteral)
    (hi : parseInt64 n.value = some i) {rest : List Token} :
    primaryExpression (F + 1) (stOf (tLBracket :: n :: tRBracket :: rest)) = .ok (indexNode none i, stOf rest) := by
  rw [primaryExpression.eq_2]
  pm_eval [hn, Bool.true_or]
  rw [indexP_index none hn hi rest]
  rfl

theorem sliceToks_head {a b : Option Token} {c : Option (Option Token)} (h : sliceOK a b c = true)
    (rest : List Token) :
    (stOf (sliceToks a b c ++ rest)).curr.type = .integerLiteral ∨
      (stOf (sliceToks a b c ++ rest)).curr.type = .colon := by
  cases a with
  | none => right; rfl
  | some a =>
    left
    simp only [sliceOK, optIntTok, Bool.and_eq_true, isIntTok_iff] at h
    exact h.1.1.1

theorem prim_slice0 {F : Nat} {a b : Option Token} {c : Option (Option Token)}
    (h : sliceOK a b c = true) {ts1 ts2 : List Token} {o : Option INode}
    (hr : projection F projectionPrecedence (stOf ts1) = .ok (o, stOf ts2)) :
    primaryExpression (F + 1) (stOf (tLBracket :: (sliceToks a b c ++ tRBracket :: ts1))) =
      .ok (.projectArray (sliceNode none (a.bind intOf) (b.bind intOf) (c.bind fun s => s.bind intOf))
        (o.getD .current), stOf ts2) := by
  rw [primaryExpression.eq_2]
  have hh : ((stOf (sliceToks a b c ++ tRBracket :: ts1)).curr.type == TokenType.integerLiteral ||
      (stOf (sliceToks a b c ++ tRBracket :: ts1)).curr.type == TokenType.colon) = true := by
    rcases sliceToks_head h (tRBracket :: ts1) with h' | h' <;> simp [h']
  rw [bind_ok (get_run _)]
  simp only [stOf_curr, tLBracket_type]
  rw [bind_ok (advance_stOf _ _), bind_ok (currType_run _), if_pos hh, bind_ok (indexP_slice none h ts1)]
  pm_eval [hr]

/-! ## The first selector of a right-hand side, read by `projection` -/

theorem proj_none {F p : Nat} {s : PState} (h : precedence s.curr.type ≤ lvlProj) :
    projection (F + 1) p s = .ok (none, s) := by
  rw [projection.eq_2, bind_ok (get_run _)]
  cases ht : s.curr.type <;> rw [ht] at h <;> simp [precedence, lvlProj] at h <;> rfl

theorem proj_dotStarList {F p : Nat} {ts : List Token} {n : INode} {s' : PState}
    (hk : exprLoop F (.selectArraySingleCurrent .objectValuesCurrent) p (stOf ts) = .ok (n, s')) :
    projection (F + 1) p (stOf (tDot :: tArrayStar :: ts)) = .ok (some n, s') := by
  rw [projection.eq_2]
  pm_eval [hk]

theorem proj_dotHash {F p : Nat} {ts1 ts2 : List Token} {m n : INode} {s' : PState}
    (hm : selectObject F none (stOf ts1) = .ok (m, stOf ts2)) (hk : exprLoop F m p (stOf ts2) = .ok (n, s')) :
    projection (F + 1) p (stOf (tDot :: tLBrace :: ts1)) = .ok (some n, s') := by
  rw [projection.eq_2]
  pm_eval [hm, hk]

theorem proj_dotList {F p : Nat} {ts1 ts2 : List Token} {m n : INode} {s' : PState}
    (hm : selectArray F none (stOf ts1) = .ok (m, stOf ts2)) (hk : exprLoop F m p (stOf ts2) = .ok (n, s')) :
    projection (F + 1) p (stOf (tDot :: tLBracket :: ts1)) = .ok (some n, s') := by
  rw [projection.eq_2]
  pm_eval [hm, hk]

theorem proj_dotId {F p : Nat} {t : Token} (ht : t.type = .unquotedIdentifier ∨ t.type = .quotedIdentifier)
    {ts : List Token} {n : INode} {s' : PState} (hk : expression F p (stOf (t :: ts)) = .ok (n, s')) :
    projection (F + 1) p (stOf (tDot :: t :: ts)) = .ok (some n, s') := by
  rw [projection.eq_2]
  rcases ht with ht | ht <;> pm_eval [ht, hk]

theorem proj_prim {F p : Nat} {ts ts2 : List Token}
    (ht : (stOf ts).curr.type = .arrayWildcard ∨ (stOf ts).curr.type = .filter) {m n : INode} {s' : PState}
    (hm : primaryExpression F (stOf ts) = .ok (m, stOf ts2)) (hk : exprLoop F m p (stOf ts2) = .ok (n, s')) :
    projection (F + 1) p (stOf ts) = .ok (some n, s') := by
  rw [projection.eq_2]
  rcases ht with ht | ht <;> pm_eval [ht, hm, hk]

theorem proj_ostar {F p : Nat} {ts1 ts2 : List Token} {o : Option INode} {n : INode} {s' : PState}
    (hr : projection F projectionPrecedence (stOf ts1) = .ok (o, stOf ts2))
    (hk : exprLoop F (ostarNode none o) p (stOf ts2) = .ok (n, s')) :
    projection (F + 1) p (stOf (tDotStar :: ts1)) = .ok (some n, s') := by
  rw [projection.eq_2]
  pm_eval [hr]
  cases o <;> pm_eval [ostarNode, hk] <;> simp only [ostarNode] at hk <;> pm_eval [hk]

theorem proj_index {F p : Nat} {nt : Token} {i : Int} (hn : nt.type = .integerLiteral)
    (hi : parseInt64 nt.value = some i) {rest : List Token} {n : INode} {s' : PState}
    (hk : exprLoop F (indexNode none i) p (stOf rest) = .ok (n, s')) :
    projection (F + 1) p (stOf (tLBracket :: nt :: tRBracket :: rest)) = .ok (some n, s') := by
  rw [projection.eq_2]
  pm_eval []
  rw [indexP_index none hn hi rest]
  pm_eval [hk]

theorem proj_slice {F p : Nat} {a b : Option Token} {c : Option (Option Token)}
    (h : sliceOK a b c = true) {ts1 ts2 : List Token} {o : Option INode} {n : INode} {s' : PState}
    (hr : projection F projectionPrecedence (stOf ts1) = .ok (o, stOf ts2))
    (hk : exprLoop F (.projectArray (sliceNode none (a.bind intOf) (b.bind intOf) (c.bind fun s => s.bind intOf))
        (o.getD .current)) p (stOf ts2) = .ok (n, s')) :
    projection (F + 1) p (stOf (tLBracket :: (sliceToks a b c ++ tRBracket :: ts1))) = .ok (some n, s') := by
  rw [projection.eq_2]
  pm_eval []
  rw [indexP_slice none h ts1]
  pm_eval [hr, hk]


end Jmes.GrammarF0
