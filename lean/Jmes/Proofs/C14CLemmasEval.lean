/-
  Helper for property C14 (third round): the two inductions over expressions for documents with float leaves that
  hold small integers.

   * `adepth t`: the arithmetic depth of the expression along the flow of values (a sub-expression, a projection, a
     `let` body … sees the results of what feeds it; the operands of one operator are evaluated side by side).
   * `seval_fb`: if every float of the inputs holds an integer `< 2^k` and `k · 2^(adepth t) ≤ 53`, every float of the
     result holds an integer `< 2^(k · 2^(adepth t))`: all intermediate values are exactly representable.
   * `seval_rrq`: under the same bound, evaluation on two related inputs (`VR false`: same values, any mix of
     representations) gives related outcomes.
-/
import Jmes.Proofs.C14CLemmasHo
namespace Jmes
namespace C14C
open C14 C14B

/-! ## 1. arithmetic depth and the grade `k · 2^d` -/

mutual
/-- how many arithmetic operators (`+ - * / // %`) a value can pass through, one after the other, on its way through
    the expression -/
def adepth : Tree → Nat
  | .lit _ | .current | .root | .field _ | .var _ | .index _ | .slice _ _ | .sliceStep _ _ _ => 0
  | .binop op l r => max (adepth l) (adepth r) + (if op.isCmp then 0 else 1)
  | .sub l r | .proj l r | .sliceProj l r | .flatProj l r | .valueProj l r => adepth l + adepth r
  | .groupBy l r | .maxBy l r | .minBy l r | .sortBy l r => adepth l + adepth r
  | .map l r => adepth r + adepth l
  | .and l r | .or l r => max (adepth l) (adepth r)
  | .not c | .neg c | .pos c | .prune c => adepth c
  | .filterProj l c r => adepth l + max (adepth c) (adepth r)
  | .call _ args | .multiList _ args | .merge args | .notNull args | .zip args => adepthL args
  | .multiHash _ kvs => adepthF kvs
  | .letIn bs body => adepthF bs + adepth body
def adepthL : List Tree → Nat
  | [] => 0
  | t :: ts => max (adepth t) (adepthL ts)
def adepthF : List (Bytes × Tree) → Nat
  | [] => 0
  | (_, t) :: rest => max (adepth t) (adepthF rest)
end

/-- the bound on the bits of an integer after `d` levels of arithmetic on `k`-bit integers: each level at most doubles
    the number of bits (`*`: `k₁ + k₂`; `+`, `-`: `max + 1`; `//`, `%`: no growth) -/
def gr (k d : Nat) : Nat := k * 2 ^ d

theorem gr_zero (k : Nat) : gr k 0 = k := by simp [gr]
theorem gr_gr (k a b : Nat) : gr (gr k a) b = gr k (a + b) := by
  simp only [gr, Nat.pow_add, Nat.mul_assoc]
theorem gr_mono {k a b : Nat} (h : a ≤ b) : gr k a ≤ gr k b :=
  Nat.mul_le_mul_left _ (Nat.pow_le_pow_right (by decide) h)
theorem le_gr {k d : Nat} : k ≤ gr k d := Nat.le_mul_of_pos_right _ (Nat.pow_pos (by decide))
theorem gr_succ (k d : Nat) : gr k (d + 1) = 2 * gr k d := by
  simp only [gr, Nat.pow_succ]; rw [Nat.mul_comm 2, Nat.mul_assoc]

example : adepth (.binop .add (.field [0x61]) (.binop .mul (.field [0x62]) (.lit .null))) = 2 ∧ gr 13 2 = 52 := by
  decide

/-- the float-free fragment of `C14B` (`Tree.NoDiv`), spelled out -/
abbrev ND (t : Tree) : Prop :=
  t.Ops (fun op => op ≠ .div) (fun f => f.plain = true ∨ f.isRound = true) True (fun v => v.Valued ∧ v.NoFloat)
abbrev NDL (ts : List Tree) : Prop :=
  Tree.OpsL (fun op => op ≠ .div) (fun f => f.plain = true ∨ f.isRound = true) True (fun v => v.Valued ∧ v.NoFloat) ts
abbrev NDF (fs : List (Bytes × Tree)) : Prop :=
  Tree.OpsF (fun op => op ≠ .div) (fun f => f.plain = true ∨ f.isRound = true) True (fun v => v.Valued ∧ v.NoFloat) fs

theorem nd_iff (t : Tree) : ND t ↔ t.NoDiv := Iff.rfl

/-- every binding of the environment has floats satisfying `P` -/
def EnvAF (P : F64 → Prop) (env : Env) : Prop := ∀ k x, (k, x) ∈ env → AllF P x

theorem up {a b : Nat} (h : a ≤ b) {v : Val} (hv : AllF (IntF a) v) : AllF (IntF b) v :=
  AllF.mono (fun _ hf => hf.mono h) v hv

theorem envUp {a b : Nat} (h : a ≤ b) {env : Env} (he : EnvAF (IntF a) env) : EnvAF (IntF b) env :=
  fun k x hm => up h (he k x hm)

theorem applyBinOp_cmp_af {P : F64 → Prop} {op : BinOp} (hop : op.isCmp = true) {a b w : Val}
    (h : applyBinOp op a b = .ok w) : AllF P w := by
  cases op <;> first | exact absurd hop (by decide) | skip
  case eq | ne =>
    simp only [applyBinOp, Res.bind_eq_ok, Res.pure_eq, Res.ok.injEq] at h
    obtain ⟨_, _, rfl⟩ := h; simp
  case lt | le | gt | ge =>
    simp only [applyBinOp, less, lessOrEqual, greater, greaterOrEqual, cmpOp, Res.ok.injEq] at h
    subst h
    split
    · simp
    · split <;> simp

/-! ## 2. the unary invariant: every intermediate value is exactly representable -/

mutual
theorem seval_fb (B : Nat) (root : Val) (hr : AllF (IntF B) root) : (t : Tree) → (cur : Val) → (env : Env) →
    (k : Nat) → ND t → B ≤ k → gr k (adepth t) ≤ 53 → AllF (IntF k) cur → EnvAF (IntF k) env →
    ∀ w, seval root t cur env = .ok w → AllF (IntF (gr k (adepth t))) w
  | .lit v, cur, env, k, hl, hB, hb, hc, he, w, hw => by
    simp only [Tree.Ops] at hl
    simp only [seval, Res.ok.injEq] at hw; subst hw
    exact allF_of_noFloat _ hl.2
  | .current, cur, env, k, hl, hB, hb, hc, he, w, hw => by
    simp only [seval, Res.ok.injEq] at hw; subst hw
    simp only [adepth, gr_zero]; exact hc
  | .root, cur, env, k, hl, hB, hb, hc, he, w, hw => by
    simp only [seval, Res.ok.injEq] at hw; subst hw
    simp only [adepth, gr_zero]; exact up hB hr
  | .field x, cur, env, k, hl, hB, hb, hc, he, w, hw => by
    simp only [seval, Res.ok.injEq] at hw; subst hw
    simp only [adepth, gr_zero]; exact field_af x hc
  | .var x, cur, env, k, hl, hB, hb, hc, he, w, hw => by
    simp only [seval] at hw
    simp only [adepth, gr_zero]
    split at hw
    · next v hv => simp only [Res.ok.injEq] at hw; subst hw; exact he x _ (objLookup_mem hv)
    · simp at hw
  | .index i, cur, env, k, hl, hB, hb, hc, he, w, hw => by
    simp only [seval] at hw; simp only [adepth, gr_zero]; exact index_af hc hw
  | .slice a b, cur, env, k, hl, hB, hb, hc, he, w, hw => by
    simp only [seval] at hw; simp only [adepth, gr_zero]; exact slice_af hc hw
  | .sliceStep a b s, cur, env, k, hl, hB, hb, hc, he, w, hw => by
    simp only [seval] at hw; simp only [adepth, gr_zero]; exact sliceStep_af hc hw
  | .sub l r, cur, env, k, hl, hB, hb, hc, he, w, hw => by
    simp only [Tree.Ops] at hl
    simp only [adepth] at hb ⊢
    simp only [seval, Res.bind_eq_ok] at hw
    obtain ⟨a, ha, hw⟩ := hw
    have h1 := seval_fb B root hr l cur env k hl.1 hB (Nat.le_trans (gr_mono (Nat.le_add_right _ _)) hb) hc he a ha
    have h2 := seval_fb B root hr r a env (gr k (adepth l)) hl.2 (Nat.le_trans hB le_gr)
      (by rw [gr_gr]; exact hb) h1 (envUp le_gr he) w hw
    rw [gr_gr] at h2; exact h2
  | .binop op l r, cur, env, k, hl, hB, hb, hc, he, w, hw => by
    simp only [Tree.Ops] at hl
    simp only [adepth] at hb ⊢
    simp only [seval, Res.bind_eq_ok] at hw
    obtain ⟨a, ha, b, hb', hw⟩ := hw
    by_cases hcmp : op.isCmp = true
    · exact applyBinOp_cmp_af hcmp hw
    · rw [if_neg hcmp] at hb ⊢
      have hm : gr k (max (adepth l) (adepth r)) ≤ 53 := Nat.le_trans (gr_mono (Nat.le_succ _)) hb
      have h1 := seval_fb B root hr l cur env k hl.2.1 hB (Nat.le_trans (gr_mono (Nat.le_max_left _ _)) hm) hc he a ha
      have h2 := seval_fb B root hr r cur env k hl.2.2 hB (Nat.le_trans (gr_mono (Nat.le_max_right _ _)) hm) hc he b hb'
      have hK : 2 * gr k (max (adepth l) (adepth r)) ≤ 53 := by rw [← gr_succ]; exact hb
      have := applyBinOp_small_fb hl.1 hK (up (gr_mono (Nat.le_max_left _ _)) h1)
        (up (gr_mono (Nat.le_max_right _ _)) h2) hw
      rw [gr_succ]; exact this
  | .and l r, cur, env, k, hl, hB, hb, hc, he, w, hw => by
    simp only [Tree.Ops] at hl
    simp only [adepth] at hb ⊢
    simp only [seval, Res.bind_eq_ok] at hw
    obtain ⟨a, ha, hw⟩ := hw
    split at hw
    · simp only [Res.pure_eq, Res.ok.injEq] at hw; subst hw
      exact up (gr_mono (Nat.le_max_left _ _))
        (seval_fb B root hr l cur env k hl.1 hB (Nat.le_trans (gr_mono (Nat.le_max_left _ _)) hb) hc he a ha)
    · exact up (gr_mono (Nat.le_max_right _ _))
        (seval_fb B root hr r cur env k hl.2 hB (Nat.le_trans (gr_mono (Nat.le_max_right _ _)) hb) hc he w hw)
  | .or l r, cur, env, k, hl, hB, hb, hc, he, w, hw => by
    simp only [Tree.Ops] at hl
    simp only [adepth] at hb ⊢
    simp only [seval, Res.bind_eq_ok] at hw
    obtain ⟨a, ha, hw⟩ := hw
    split at hw
    · simp only [Res.pure_eq, Res.ok.injEq] at hw; subst hw
      exact up (gr_mono (Nat.le_max_left _ _))
        (seval_fb B root hr l cur env k hl.1 hB (Nat.le_trans (gr_mono (Nat.le_max_left _ _)) hb) hc he a ha)
    · exact up (gr_mono (Nat.le_max_right _ _))
        (seval_fb B root hr r cur env k hl.2 hB (Nat.le_trans (gr_mono (Nat.le_max_right _ _)) hb) hc he w hw)
  | .not c, cur, env, k, hl, hB, hb, hc, he, w, hw => by
    simp only [seval, Res.bind_eq_ok, Res.pure_eq, Res.ok.injEq] at hw
    obtain ⟨a, _, rfl⟩ := hw; simp
  | .neg c, cur, env, k, hl, hB, hb, hc, he, w, hw => by
    simp only [Tree.Ops] at hl
    simp only [adepth] at hb ⊢
    simp only [seval, Res.bind_eq_ok, Res.pure_eq, Res.ok.injEq] at hw
    obtain ⟨a, ha, rfl⟩ := hw
    exact negateVal_af (fun _ h => h.neg) (seval_fb B root hr c cur env k hl.2 hB hb hc he a ha)
  | .pos c, cur, env, k, hl, hB, hb, hc, he, w, hw => by
    simp only [Tree.Ops] at hl
    simp only [adepth] at hb ⊢
    simp only [seval, Res.bind_eq_ok, Res.pure_eq, Res.ok.injEq] at hw
    obtain ⟨a, ha, rfl⟩ := hw
    split
    · exact seval_fb B root hr c cur env k hl hB hb hc he a ha
    · simp
  | .call f args, cur, env, k, hl, hB, hb, hc, he, w, hw => by
    simp only [Tree.Ops] at hl
    simp only [adepth] at hb ⊢
    simp only [seval, Res.bind_eq_ok] at hw
    obtain ⟨vs, hvs, hw⟩ := hw
    exact applyFn_af (unClosed_intF _) (sevalList_fb B root hr args cur env k hl.2 hB hb hc he vs hvs) hw
  | .prune l, cur, env, k, hl, hB, hb, hc, he, w, hw => by
    simp only [Tree.Ops] at hl
    simp only [adepth] at hb ⊢
    simp only [seval, Res.bind_eq_ok, Res.pure_eq, Res.ok.injEq] at hw
    obtain ⟨a, ha, rfl⟩ := hw
    exact pruneArray_af (seval_fb B root hr l cur env k hl hB hb hc he a ha)
  | .proj l r, cur, env, k, hl, hB, hb, hc, he, w, hw => by
    simp only [Tree.Ops] at hl
    simp only [adepth] at hb ⊢
    simp only [seval, Res.bind_eq_ok] at hw
    obtain ⟨a, ha, hw⟩ := hw
    have h1 := seval_fb B root hr l cur env k hl.1 hB (Nat.le_trans (gr_mono (Nat.le_add_right _ _)) hb) hc he a ha
    have := projectArray_af (P' := IntF (gr (gr k (adepth l)) (adepth r)))
      (fun x hx v hv => seval_fb B root hr r x env (gr k (adepth l)) hl.2 (Nat.le_trans hB le_gr)
        (by rw [gr_gr]; exact hb) hx (envUp le_gr he) v hv) h1 hw
    rw [gr_gr] at this; exact this
  | .sliceProj l r, cur, env, k, hl, hB, hb, hc, he, w, hw => by
    simp only [Tree.Ops] at hl
    simp only [adepth] at hb ⊢
    simp only [seval, Res.bind_eq_ok] at hw
    obtain ⟨a, ha, hw⟩ := hw
    have h1 := seval_fb B root hr l cur env k hl.1 hB (Nat.le_trans (gr_mono (Nat.le_add_right _ _)) hb) hc he a ha
    have hf : PF (IntF (gr k (adepth l))) (IntF (gr (gr k (adepth l)) (adepth r))) (fun x => seval root r x env) :=
      fun x hx v hv => seval_fb B root hr r x env (gr k (adepth l)) hl.2 (Nat.le_trans hB le_gr)
        (by rw [gr_gr]; exact hb) hx (envUp le_gr he) v hv
    rw [← gr_gr]
    split at hw
    · exact hf _ h1 w hw
    · exact projectArray_af hf h1 hw
  | .flatProj l r, cur, env, k, hl, hB, hb, hc, he, w, hw => by
    simp only [Tree.Ops] at hl
    simp only [adepth] at hb ⊢
    simp only [seval, Res.bind_eq_ok] at hw
    obtain ⟨a, ha, hw⟩ := hw
    have h1 := seval_fb B root hr l cur env k hl.1 hB (Nat.le_trans (gr_mono (Nat.le_add_right _ _)) hb) hc he a ha
    have := flattenAndProjectArray_af (P' := IntF (gr (gr k (adepth l)) (adepth r)))
      (fun x hx v hv => seval_fb B root hr r x env (gr k (adepth l)) hl.2 (Nat.le_trans hB le_gr)
        (by rw [gr_gr]; exact hb) hx (envUp le_gr he) v hv) h1 hw
    rw [gr_gr] at this; exact this
  | .filterProj l c r, cur, env, k, hl, hB, hb, hc, he, w, hw => by
    simp only [Tree.Ops] at hl
    simp only [adepth] at hb ⊢
    simp only [seval, Res.bind_eq_ok] at hw
    obtain ⟨a, ha, hw⟩ := hw
    have h1 := seval_fb B root hr l cur env k hl.1 hB (Nat.le_trans (gr_mono (Nat.le_add_right _ _)) hb) hc he a ha
    have hbr : gr (gr k (adepth l)) (adepth r) ≤ 53 := by
      rw [gr_gr]; exact Nat.le_trans (gr_mono (Nat.add_le_add_left (Nat.le_max_right _ _) _)) hb
    have := filterAndProjectArray_af (c := fun v => seval root c v env)
      (P' := IntF (gr (gr k (adepth l)) (max (adepth c) (adepth r))))
      (fun x hx v hv => up (gr_mono (Nat.le_max_right _ _))
        (seval_fb B root hr r x env (gr k (adepth l)) hl.2.2 (Nat.le_trans hB le_gr) hbr hx (envUp le_gr he) v hv))
      h1 hw
    rw [gr_gr] at this; exact this
  | .valueProj l r, cur, env, k, hl, hB, hb, hc, he, w, hw => by
    simp only [Tree.Ops] at hl
    simp only [adepth] at hb ⊢
    simp only [seval, Res.bind_eq_ok] at hw
    obtain ⟨a, ha, hw⟩ := hw
    have h1 := seval_fb B root hr l cur env k hl.1 hB (Nat.le_trans (gr_mono (Nat.le_add_right _ _)) hb) hc he a ha
    have := projectObject_af (P' := IntF (gr (gr k (adepth l)) (adepth r)))
      (fun x hx v hv => seval_fb B root hr r x env (gr k (adepth l)) hl.2 (Nat.le_trans hB le_gr)
        (by rw [gr_gr]; exact hb) hx (envUp le_gr he) v hv) h1 hw
    rw [gr_gr] at this; exact this
  | .multiList chk es, cur, env, k, hl, hB, hb, hc, he, w, hw => by
    simp only [Tree.Ops] at hl
    simp only [adepth] at hb ⊢
    simp only [seval] at hw
    split at hw
    · simp only [Res.ok.injEq] at hw; subst hw; simp
    · simp only [Res.bind_eq_ok, Res.pure_eq, Res.ok.injEq] at hw
      obtain ⟨vs, hvs, rfl⟩ := hw
      exact allF_arr.mpr (sevalList_fb B root hr es cur env k hl hB hb hc he vs hvs)
  | .multiHash chk kvs, cur, env, k, hl, hB, hb, hc, he, w, hw => by
    simp only [Tree.Ops] at hl
    simp only [adepth] at hb ⊢
    simp only [seval] at hw
    split at hw
    · simp only [Res.ok.injEq] at hw; subst hw; simp
    · simp only [Res.bind_eq_ok, Res.pure_eq, Res.ok.injEq] at hw
      obtain ⟨fs, hfs, rfl⟩ := hw
      exact allF_obj.mpr (sevalFields_fb B root hr kvs cur env k hl hB hb hc he fs hfs)
  | .letIn bs body, cur, env, k, hl, hB, hb, hc, he, w, hw => by
    simp only [Tree.Ops] at hl
    simp only [adepth] at hb ⊢
    simp only [seval, Res.bind_eq_ok] at hw
    obtain ⟨vs, hvs, hw⟩ := hw
    have hvs' := sevalFields_fb B root hr bs cur env k hl.1 hB
      (Nat.le_trans (gr_mono (Nat.le_add_right _ _)) hb) hc he vs hvs
    have := seval_fb B root hr body cur (vs ++ env) (gr k (adepthF bs)) hl.2 (Nat.le_trans hB le_gr)
      (by rw [gr_gr]; exact hb) (up le_gr hc) (by
        intro k' x hm
        rcases List.mem_append.mp hm with hm | hm
        · exact hvs' k' x hm
        · exact up le_gr (he k' x hm)) w hw
    rw [gr_gr] at this; exact this
  | .groupBy a e, cur, env, k, hl, hB, hb, hc, he, w, hw => by
    simp only [Tree.Ops] at hl
    simp only [adepth] at hb ⊢
    simp only [seval, Res.bind_eq_ok] at hw
    obtain ⟨v, hv, hw⟩ := hw
    exact up (gr_mono (Nat.le_add_right _ _)) (groupBy_af
      (seval_fb B root hr a cur env k hl.1 hB (Nat.le_trans (gr_mono (Nat.le_add_right _ _)) hb) hc he v hv) hw)
  | .map e a, cur, env, k, hl, hB, hb, hc, he, w, hw => by
    simp only [Tree.Ops] at hl
    simp only [adepth] at hb ⊢
    simp only [seval, Res.bind_eq_ok] at hw
    obtain ⟨v, hv, hw⟩ := hw
    have h1 := seval_fb B root hr a cur env k hl.2 hB (Nat.le_trans (gr_mono (Nat.le_add_right _ _)) hb) hc he v hv
    have := mapArray_af (P' := IntF (gr (gr k (adepth a)) (adepth e)))
      (fun x hx v hv => seval_fb B root hr e x env (gr k (adepth a)) hl.1 (Nat.le_trans hB le_gr)
        (by rw [gr_gr]; exact hb) hx (envUp le_gr he) v hv) h1 hw
    rw [gr_gr] at this; exact this
  | .maxBy a e, cur, env, k, hl, hB, hb, hc, he, w, hw => by
    simp only [Tree.Ops] at hl
    simp only [adepth] at hb ⊢
    simp only [seval, Res.bind_eq_ok] at hw
    obtain ⟨v, hv, hw⟩ := hw
    exact up (gr_mono (Nat.le_add_right _ _)) (arrayPickBy_af
      (seval_fb B root hr a cur env k hl.1 hB (Nat.le_trans (gr_mono (Nat.le_add_right _ _)) hb) hc he v hv) hw)
  | .minBy a e, cur, env, k, hl, hB, hb, hc, he, w, hw => by
    simp only [Tree.Ops] at hl
    simp only [adepth] at hb ⊢
    simp only [seval, Res.bind_eq_ok] at hw
    obtain ⟨v, hv, hw⟩ := hw
    exact up (gr_mono (Nat.le_add_right _ _)) (arrayPickBy_af
      (seval_fb B root hr a cur env k hl.1 hB (Nat.le_trans (gr_mono (Nat.le_add_right _ _)) hb) hc he v hv) hw)
  | .sortBy a e, cur, env, k, hl, hB, hb, hc, he, w, hw => by
    simp only [Tree.Ops] at hl
    simp only [adepth] at hb ⊢
    simp only [seval, Res.bind_eq_ok] at hw
    obtain ⟨v, hv, hw⟩ := hw
    exact up (gr_mono (Nat.le_add_right _ _)) (sortArrayBy_af
      (seval_fb B root hr a cur env k hl.1 hB (Nat.le_trans (gr_mono (Nat.le_add_right _ _)) hb) hc he v hv) hw)
  | .merge args, cur, env, k, hl, hB, hb, hc, he, w, hw => by
    simp only [Tree.Ops] at hl
    simp only [adepth] at hb ⊢
    simp only [seval, Res.bind_eq_ok, Res.pure_eq, Res.ok.injEq] at hw
    obtain ⟨kvs, hk, rfl⟩ := hw
    exact allF_obj.mpr (sevalMerge_fb B root hr args cur env [] k (adepthL args) hl hB (Nat.le_refl _) hb hc he
      (by simp) kvs hk)
  | .notNull args, cur, env, k, hl, hB, hb, hc, he, w, hw => by
    simp only [Tree.Ops] at hl
    simp only [adepth] at hb ⊢
    simp only [seval] at hw
    exact sevalNotNull_fb B root hr args cur env k hl hB hb hc he w hw
  | .zip args, cur, env, k, hl, hB, hb, hc, he, w, hw => by
    simp only [Tree.Ops] at hl
    simp only [adepth] at hb ⊢
    simp only [seval, Res.bind_eq_ok] at hw
    obtain ⟨vs, hvs, cols, hcols, hw⟩ := hw
    have hcn := zipArgs_af (sevalZip_fb B root hr args cur env k hl hB hb hc he vs hvs) hcols
    split at hw
    · simp only [Res.pure_eq, Res.ok.injEq] at hw; subst hw; simp [allF_arr]
    · simp only [Res.pure_eq, Res.ok.injEq] at hw; subst hw
      exact allF_arr.mpr (zipRows_af _ hcn)
theorem sevalList_fb (B : Nat) (root : Val) (hr : AllF (IntF B) root) : (ts : List Tree) → (cur : Val) → (env : Env) →
    (k : Nat) → NDL ts → B ≤ k → gr k (adepthL ts) ≤ 53 → AllF (IntF k) cur → EnvAF (IntF k) env →
    ∀ vs, sevalList root ts cur env = .ok vs → ∀ v ∈ vs, AllF (IntF (gr k (adepthL ts))) v
  | [], cur, env, k, hl, hB, hb, hc, he, vs, hw => by
    simp only [sevalList, Res.ok.injEq] at hw; subst hw; simp
  | t :: ts, cur, env, k, hl, hB, hb, hc, he, vs, hw => by
    simp only [Tree.OpsL] at hl
    simp only [adepthL] at hb ⊢
    simp only [sevalList, Res.bind_eq_ok, Res.pure_eq, Res.ok.injEq] at hw
    obtain ⟨v, hv, rest, hrest, rfl⟩ := hw
    intro y hy
    rcases List.mem_cons.mp hy with rfl | hy
    · exact up (gr_mono (Nat.le_max_left _ _))
        (seval_fb B root hr t cur env k hl.1 hB (Nat.le_trans (gr_mono (Nat.le_max_left _ _)) hb) hc he _ hv)
    · exact up (gr_mono (Nat.le_max_right _ _))
        (sevalList_fb B root hr ts cur env k hl.2 hB (Nat.le_trans (gr_mono (Nat.le_max_right _ _)) hb) hc he
          rest hrest y hy)
theorem sevalFields_fb (B : Nat) (root : Val) (hr : AllF (IntF B) root) : (fs : List (Bytes × Tree)) → (cur : Val) →
    (env : Env) → (k : Nat) → NDF fs → B ≤ k → gr k (adepthF fs) ≤ 53 → AllF (IntF k) cur → EnvAF (IntF k) env →
    ∀ kvs, sevalFields root fs cur env = .ok kvs → ∀ k' x, (k', x) ∈ kvs → AllF (IntF (gr k (adepthF fs))) x
  | [], cur, env, k, hl, hB, hb, hc, he, kvs, hw => by
    simp only [sevalFields, Res.ok.injEq] at hw; subst hw; simp
  | (k0, t) :: rest, cur, env, k, hl, hB, hb, hc, he, kvs, hw => by
    simp only [Tree.OpsF] at hl
    simp only [adepthF] at hb ⊢
    simp only [sevalFields] at hw
    exact combineUnordered_af
      (fun kvs' h' k' x hm => up (gr_mono (Nat.le_max_right _ _))
        (sevalFields_fb B root hr rest cur env k hl.2 hB (Nat.le_trans (gr_mono (Nat.le_max_right _ _)) hb) hc he
          kvs' h' k' x hm))
      (fun v hv => up (gr_mono (Nat.le_max_left _ _))
        (seval_fb B root hr t cur env k hl.1 hB (Nat.le_trans (gr_mono (Nat.le_max_left _ _)) hb) hc he v hv)) hw
theorem sevalMerge_fb (B : Nat) (root : Val) (hr : AllF (IntF B) root) : (ts : List Tree) → (cur : Val) → (env : Env) →
    (acc : List (Bytes × Val)) → (k d : Nat) → NDL ts → B ≤ k → adepthL ts ≤ d → gr k d ≤ 53 → AllF (IntF k) cur →
    EnvAF (IntF k) env → (∀ k' x, (k', x) ∈ acc → AllF (IntF (gr k d)) x) →
    ∀ kvs, sevalMerge root ts cur env acc = .ok kvs → ∀ k' x, (k', x) ∈ kvs → AllF (IntF (gr k d)) x
  | [], cur, env, acc, k, d, hl, hB, hd, hb, hc, he, hacc, kvs, hw => by
    simp only [sevalMerge, Res.ok.injEq] at hw; subst hw; exact hacc
  | t :: ts, cur, env, acc, k, d, hl, hB, hd, hb, hc, he, hacc, kvs, hw => by
    simp only [Tree.OpsL] at hl
    simp only [adepthL] at hd
    simp only [sevalMerge, Res.bind_eq_ok] at hw
    obtain ⟨v, hv, hw⟩ := hw
    have h1 : adepth t ≤ d := Nat.le_trans (Nat.le_max_left _ _) hd
    have h2 : adepthL ts ≤ d := Nat.le_trans (Nat.le_max_right _ _) hd
    have hvn := up (gr_mono h1) (seval_fb B root hr t cur env k hl.1 hB (Nat.le_trans (gr_mono h1) hb) hc he v hv)
    split at hw
    · exact sevalMerge_fb B root hr ts cur env _ k d hl.2 hB h2 hb hc he
        (foldl_objInsert_af (allF_obj.mp hvn) hacc) kvs hw
    · simp [errType] at hw
theorem sevalNotNull_fb (B : Nat) (root : Val) (hr : AllF (IntF B) root) : (ts : List Tree) → (cur : Val) →
    (env : Env) → (k : Nat) → NDL ts → B ≤ k → gr k (adepthL ts) ≤ 53 → AllF (IntF k) cur → EnvAF (IntF k) env →
    ∀ w, sevalNotNull root ts cur env = .ok w → AllF (IntF (gr k (adepthL ts))) w
  | [], cur, env, k, hl, hB, hb, hc, he, w, hw => by
    simp only [sevalNotNull, Res.ok.injEq] at hw; subst hw; simp
  | t :: ts, cur, env, k, hl, hB, hb, hc, he, w, hw => by
    simp only [Tree.OpsL] at hl
    simp only [adepthL] at hb ⊢
    simp only [sevalNotNull, Res.bind_eq_ok] at hw
    obtain ⟨v, hv, hw⟩ := hw
    split at hw
    · exact up (gr_mono (Nat.le_max_right _ _))
        (sevalNotNull_fb B root hr ts cur env k hl.2 hB (Nat.le_trans (gr_mono (Nat.le_max_right _ _)) hb) hc he w hw)
    · simp only [Res.pure_eq, Res.ok.injEq] at hw; subst hw
      exact up (gr_mono (Nat.le_max_left _ _))
        (seval_fb B root hr t cur env k hl.1 hB (Nat.le_trans (gr_mono (Nat.le_max_left _ _)) hb) hc he _ hv)
theorem sevalZip_fb (B : Nat) (root : Val) (hr : AllF (IntF B) root) : (ts : List Tree) → (cur : Val) → (env : Env) →
    (k : Nat) → NDL ts → B ≤ k → gr k (adepthL ts) ≤ 53 → AllF (IntF k) cur → EnvAF (IntF k) env →
    ∀ vs, sevalZip root ts cur env = .ok vs → ∀ v ∈ vs, AllF (IntF (gr k (adepthL ts))) v
  | [], cur, env, k, hl, hB, hb, hc, he, vs, hw => by
    simp only [sevalZip, Res.ok.injEq] at hw; subst hw; simp
  | t :: ts, cur, env, k, hl, hB, hb, hc, he, vs, hw => by
    simp only [Tree.OpsL] at hl
    simp only [adepthL] at hb ⊢
    simp only [sevalZip, Res.bind_eq_ok] at hw
    obtain ⟨v, hv, hw⟩ := hw
    have hvn : AllF (IntF (gr k (max (adepth t) (adepthL ts)))) v := up (gr_mono (Nat.le_max_left _ _))
      (seval_fb B root hr t cur env k hl.1 hB (Nat.le_trans (gr_mono (Nat.le_max_left _ _)) hb) hc he v hv)
    split at hw
    · simp only [Res.bind_eq_ok, Res.pure_eq, Res.ok.injEq] at hw
      obtain ⟨rest, hrest, rfl⟩ := hw
      intro y hy
      rcases List.mem_cons.mp hy with rfl | hy
      · exact hvn
      · exact up (gr_mono (Nat.le_max_right _ _))
          (sevalZip_fb B root hr ts cur env k hl.2 hB (Nat.le_trans (gr_mono (Nat.le_max_right _ _)) hb) hc he
            rest hrest y hy)
    · simp [errType] at hw
end

/-! ## 3. the binary induction: related inputs give related outcomes -/

theorem envGet_rr' {env env' : Env} (h : VRF false env env') (x : Bytes) :
    RR (VR false) (match env.get x with | some v => Res.ok v | none => Res.err [Cat.undefinedVariable])
      (match env'.get x with | some v => Res.ok v | none => Res.err [Cat.undefinedVariable]) :=
  envGet_rr h x

/-- the hypotheses on the two runs that the induction carries along -/
structure Inp (B k : Nat) (root root' cur cur' : Val) (env env' : Env) : Prop where
  hB : B ≤ k
  c : VR false cur cur'
  fc : AllF (IntF k) cur
  fc' : AllF (IntF k) cur'
  e : VRF false env env'
  fe : EnvAF (IntF k) env
  fe' : EnvAF (IntF k) env'

theorem Inp.lift {B k k' : Nat} {root root' cur cur' a a' : Val} {env env' : Env}
    (I : Inp B k root root' cur cur' env env') (hk : k ≤ k') (h : VR false a a') (f : AllF (IntF k') a)
    (f' : AllF (IntF k') a') : Inp B k' root root' a a' env env' :=
  ⟨Nat.le_trans I.hB hk, h, f, f', I.e, envUp hk I.fe, envUp hk I.fe'⟩

mutual
theorem seval_rrq (B : Nat) {root root' : Val} (hroot : VR false root root') (hr : AllF (IntF B) root)
    (hr' : AllF (IntF B) root') : (t : Tree) → ND t → ∀ (k : Nat) (cur cur' : Val) (env env' : Env),
      Inp B k root root' cur cur' env env' → gr k (adepth t) ≤ 53 →
      RR (VR false) (seval root t cur env) (seval root' t cur' env')
  | .lit v, hl, _, _, _, _, _, _, _ => by
    simp only [Tree.Ops] at hl
    simp only [seval]; exact RR.ok' (vr_self v hl.1 (fun e => by cases e))
  | .current, _, _, _, _, _, _, I, _ => by simp only [seval]; exact RR.ok' I.c
  | .root, _, _, _, _, _, _, _, _ => by simp only [seval]; exact RR.ok' hroot
  | .field x, _, _, _, _, _, _, I, _ => by simp only [seval]; exact RR.ok' (field_vr x I.c)
  | .var x, _, _, _, _, env, env', I, _ => by simp only [seval]; exact envGet_rr' I.e x
  | .index i, _, _, _, _, _, _, I, _ => by simp only [seval]; exact index_rr I.c i
  | .slice a b, _, _, _, _, _, _, I, _ => by simp only [seval]; exact slice_rr I.c a b
  | .sliceStep a b s, _, _, _, _, _, _, I, _ => by simp only [seval]; exact sliceStep_rr I.c a b s
  | .sub l r, hl, k, cur, cur', env, env', I, hb => by
    simp only [Tree.Ops] at hl
    simp only [adepth] at hb
    simp only [seval]
    have hbl : gr k (adepth l) ≤ 53 := Nat.le_trans (gr_mono (Nat.le_add_right _ _)) hb
    refine rr_bind_eq (seval_rrq B hroot hr hr' l hl.1 k cur cur' env env' I hbl) (fun a a' ea ea' ha => ?_)
    have f1 := seval_fb B root hr l cur env k hl.1 I.hB hbl I.fc I.fe a ea
    have f1' := seval_fb B root' hr' l cur' env' k hl.1 I.hB hbl I.fc' I.fe' a' ea'
    exact seval_rrq B hroot hr hr' r hl.2 (gr k (adepth l)) a a' env env' (I.lift le_gr ha f1 f1')
      (by rw [gr_gr]; exact hb)
  | .binop op l r, hl, k, cur, cur', env, env', I, hb => by
    simp only [Tree.Ops] at hl
    simp only [adepth] at hb
    simp only [seval]
    have hm : gr k (max (adepth l) (adepth r)) ≤ 53 := Nat.le_trans (gr_mono (Nat.le_add_right _ _)) hb
    have hbl : gr k (adepth l) ≤ 53 := Nat.le_trans (gr_mono (Nat.le_max_left _ _)) hm
    have hbr : gr k (adepth r) ≤ 53 := Nat.le_trans (gr_mono (Nat.le_max_right _ _)) hm
    refine rr_bind_eq (seval_rrq B hroot hr hr' l hl.2.1 k cur cur' env env' I hbl) (fun a a' ea ea' ha => ?_)
    refine rr_bind_eq (seval_rrq B hroot hr hr' r hl.2.2 k cur cur' env env' I hbr) (fun b b' eb eb' hb2 => ?_)
    by_cases hcmp : op.isCmp = true
    · exact opCongr_cmp hcmp a a' b b' ha hb2
    · rw [if_neg hcmp] at hb
      have hK : 2 * gr k (max (adepth l) (adepth r)) ≤ 53 := by rw [← gr_succ]; exact hb
      have f1 := up (gr_mono (Nat.le_max_left _ (adepth r))) (seval_fb B root hr l cur env k hl.2.1 I.hB hbl I.fc I.fe a ea)
      have f1' := up (gr_mono (Nat.le_max_left _ (adepth r)))
        (seval_fb B root' hr' l cur' env' k hl.2.1 I.hB hbl I.fc' I.fe' a' ea')
      have f2 := up (gr_mono (Nat.le_max_right (adepth l) _)) (seval_fb B root hr r cur env k hl.2.2 I.hB hbr I.fc I.fe b eb)
      have f2' := up (gr_mono (Nat.le_max_right (adepth l) _))
        (seval_fb B root' hr' r cur' env' k hl.2.2 I.hB hbr I.fc' I.fe' b' eb')
      exact applyBinOp_small_rr hl.1 hK ha hb2 f1 f1' f2 f2'
  | .and l r, hl, k, cur, cur', env, env', I, hb => by
    simp only [Tree.Ops] at hl
    simp only [adepth] at hb
    simp only [seval]
    refine RR.bind (seval_rrq B hroot hr hr' l hl.1 k cur cur' env env' I
      (Nat.le_trans (gr_mono (Nat.le_max_left _ _)) hb)) (fun a a' ha => ?_)
    rw [isTrue_vr ha]
    split
    · exact RR.ok' ha
    · exact seval_rrq B hroot hr hr' r hl.2 k cur cur' env env' I (Nat.le_trans (gr_mono (Nat.le_max_right _ _)) hb)
  | .or l r, hl, k, cur, cur', env, env', I, hb => by
    simp only [Tree.Ops] at hl
    simp only [adepth] at hb
    simp only [seval]
    refine RR.bind (seval_rrq B hroot hr hr' l hl.1 k cur cur' env env' I
      (Nat.le_trans (gr_mono (Nat.le_max_left _ _)) hb)) (fun a a' ha => ?_)
    rw [isTrue_vr ha]
    split
    · exact RR.ok' ha
    · exact seval_rrq B hroot hr hr' r hl.2 k cur cur' env env' I (Nat.le_trans (gr_mono (Nat.le_max_right _ _)) hb)
  | .not c, hl, k, cur, cur', env, env', I, hb => by
    simp only [Tree.Ops] at hl
    simp only [adepth] at hb
    simp only [seval]
    refine RR.bind (seval_rrq B hroot hr hr' c hl k cur cur' env env' I hb) (fun a a' ha => ?_)
    rw [isTrue_vr ha]; exact RR.ok' (vr_bool _)
  | .neg c, hl, k, cur, cur', env, env', I, hb => by
    simp only [Tree.Ops] at hl
    simp only [adepth] at hb
    simp only [seval]
    exact RR.bind (seval_rrq B hroot hr hr' c hl.2 k cur cur' env env' I hb)
      (fun a a' ha => RR.ok' (negCongr a a' ha))
  | .pos c, hl, k, cur, cur', env, env', I, hb => by
    simp only [Tree.Ops] at hl
    simp only [adepth] at hb
    simp only [seval]
    refine RR.bind (seval_rrq B hroot hr hr' c hl k cur cur' env env' I hb) (fun a a' ha => ?_)
    simp only [Res.pure_eq, isNumber_vr ha]
    split
    · exact RR.ok' ha
    · exact RR.ok' vr_null
  | .call f args, hl, k, cur, cur', env, env', I, hb => by
    simp only [Tree.Ops] at hl
    simp only [adepth] at hb
    simp only [seval]
    exact RR.bind (sevalList_rrq B hroot hr hr' args hl.2 k cur cur' env env' I hb)
      (fun vs vs' hvs => hl.1.elim (fun h => fnCongr_plain h vs vs' hvs) (fun h => fnCongr_round h vs vs' hvs))
  | .prune l, hl, k, cur, cur', env, env', I, hb => by
    simp only [Tree.Ops] at hl
    simp only [adepth] at hb
    simp only [seval]
    exact RR.bind (seval_rrq B hroot hr hr' l hl k cur cur' env env' I hb) (fun a a' ha => RR.ok' (pruneArray_vr ha))
  | .proj l r, hl, k, cur, cur', env, env', I, hb => by
    simp only [Tree.Ops] at hl
    simp only [adepth] at hb
    simp only [seval]
    have hbl : gr k (adepth l) ≤ 53 := Nat.le_trans (gr_mono (Nat.le_add_right _ _)) hb
    refine rr_bind_eq (seval_rrq B hroot hr hr' l hl.1 k cur cur' env env' I hbl) (fun a a' ea ea' ha => ?_)
    have f1 := seval_fb B root hr l cur env k hl.1 I.hB hbl I.fc I.fe a ea
    have f1' := seval_fb B root' hr' l cur' env' k hl.1 I.hB hbl I.fc' I.fe' a' ea'
    exact projectArray_rrp (P := IntF (gr k (adepth l)))
      (fun x x' hx fx fx' => seval_rrq B hroot hr hr' r hl.2 (gr k (adepth l)) x x' env env'
        (I.lift le_gr hx fx fx') (by rw [gr_gr]; exact hb)) ha f1 f1'
  | .sliceProj l r, hl, k, cur, cur', env, env', I, hb => by
    simp only [Tree.Ops] at hl
    simp only [adepth] at hb
    simp only [seval]
    have hbl : gr k (adepth l) ≤ 53 := Nat.le_trans (gr_mono (Nat.le_add_right _ _)) hb
    refine rr_bind_eq (seval_rrq B hroot hr hr' l hl.1 k cur cur' env env' I hbl) (fun a a' ea ea' ha => ?_)
    have f1 := seval_fb B root hr l cur env k hl.1 I.hB hbl I.fc I.fe a ea
    have f1' := seval_fb B root' hr' l cur' env' k hl.1 I.hB hbl I.fc' I.fe' a' ea'
    have hf : FRp false (IntF (gr k (adepth l))) (fun x => seval root r x env) (fun x => seval root' r x env') :=
      fun x x' hx fx fx' => seval_rrq B hroot hr hr' r hl.2 (gr k (adepth l)) x x' env env'
        (I.lift le_gr hx fx fx') (by rw [gr_gr]; exact hb)
    have hp := projectArray_rrp hf ha f1 f1'
    cases a <;> cases a' <;> simp only [VR] at ha <;> try exact hp
    exact hf _ _ (by simp only [VR]; exact ha) f1 f1'
  | .flatProj l r, hl, k, cur, cur', env, env', I, hb => by
    simp only [Tree.Ops] at hl
    simp only [adepth] at hb
    simp only [seval]
    have hbl : gr k (adepth l) ≤ 53 := Nat.le_trans (gr_mono (Nat.le_add_right _ _)) hb
    refine rr_bind_eq (seval_rrq B hroot hr hr' l hl.1 k cur cur' env env' I hbl) (fun a a' ea ea' ha => ?_)
    have f1 := seval_fb B root hr l cur env k hl.1 I.hB hbl I.fc I.fe a ea
    have f1' := seval_fb B root' hr' l cur' env' k hl.1 I.hB hbl I.fc' I.fe' a' ea'
    exact flattenAndProjectArray_rrp (P := IntF (gr k (adepth l)))
      (fun x x' hx fx fx' => seval_rrq B hroot hr hr' r hl.2 (gr k (adepth l)) x x' env env'
        (I.lift le_gr hx fx fx') (by rw [gr_gr]; exact hb)) ha f1 f1'
  | .filterProj l c r, hl, k, cur, cur', env, env', I, hb => by
    simp only [Tree.Ops] at hl
    simp only [adepth] at hb
    simp only [seval]
    have hbl : gr k (adepth l) ≤ 53 := Nat.le_trans (gr_mono (Nat.le_add_right _ _)) hb
    refine rr_bind_eq (seval_rrq B hroot hr hr' l hl.1 k cur cur' env env' I hbl) (fun a a' ea ea' ha => ?_)
    have f1 := seval_fb B root hr l cur env k hl.1 I.hB hbl I.fc I.fe a ea
    have f1' := seval_fb B root' hr' l cur' env' k hl.1 I.hB hbl I.fc' I.fe' a' ea'
    exact filterAndProjectArray_rrp (P := IntF (gr k (adepth l)))
      (fun x x' hx fx fx' => seval_rrq B hroot hr hr' c hl.2.1 (gr k (adepth l)) x x' env env'
        (I.lift le_gr hx fx fx') (by
          rw [gr_gr]; exact Nat.le_trans (gr_mono (Nat.add_le_add_left (Nat.le_max_left _ _) _)) hb))
      (fun x x' hx fx fx' => seval_rrq B hroot hr hr' r hl.2.2 (gr k (adepth l)) x x' env env'
        (I.lift le_gr hx fx fx') (by
          rw [gr_gr]; exact Nat.le_trans (gr_mono (Nat.add_le_add_left (Nat.le_max_right _ _) _)) hb))
      ha f1 f1'
  | .valueProj l r, hl, k, cur, cur', env, env', I, hb => by
    simp only [Tree.Ops] at hl
    simp only [adepth] at hb
    simp only [seval]
    have hbl : gr k (adepth l) ≤ 53 := Nat.le_trans (gr_mono (Nat.le_add_right _ _)) hb
    refine rr_bind_eq (seval_rrq B hroot hr hr' l hl.1 k cur cur' env env' I hbl) (fun a a' ea ea' ha => ?_)
    have f1 := seval_fb B root hr l cur env k hl.1 I.hB hbl I.fc I.fe a ea
    have f1' := seval_fb B root' hr' l cur' env' k hl.1 I.hB hbl I.fc' I.fe' a' ea'
    exact projectObject_rrp (P := IntF (gr k (adepth l)))
      (fun x x' hx fx fx' => seval_rrq B hroot hr hr' r hl.2 (gr k (adepth l)) x x' env env'
        (I.lift le_gr hx fx fx') (by rw [gr_gr]; exact hb)) ha f1 f1'
  | .multiList chk es, hl, k, cur, cur', env, env', I, hb => by
    simp only [Tree.Ops] at hl
    simp only [adepth] at hb
    simp only [seval, isNull_vr I.c]
    split
    · exact RR.ok' vr_null
    · exact RR.bind (sevalList_rrq B hroot hr hr' es hl k cur cur' env env' I hb)
        (fun vs vs' hvs => RR.ok' (vr_arr hvs))
  | .multiHash chk kvs, hl, k, cur, cur', env, env', I, hb => by
    simp only [Tree.Ops] at hl
    simp only [adepth] at hb
    simp only [seval, isNull_vr I.c]
    split
    · exact RR.ok' vr_null
    · exact RR.bind (sevalFields_rrq B hroot hr hr' kvs hl k cur cur' env env' I hb)
        (fun fs fs' hfs => RR.ok' (vr_obj hfs))
  | .letIn bs body, hl, k, cur, cur', env, env', I, hb => by
    simp only [Tree.Ops] at hl
    simp only [adepth] at hb
    simp only [seval]
    have hbl : gr k (adepthF bs) ≤ 53 := Nat.le_trans (gr_mono (Nat.le_add_right _ _)) hb
    refine rr_bind_eq (sevalFields_rrq B hroot hr hr' bs hl.1 k cur cur' env env' I hbl) (fun vs vs' e1 e1' hvs => ?_)
    have f1 := sevalFields_fb B root hr bs cur env k hl.1 I.hB hbl I.fc I.fe vs e1
    have f1' := sevalFields_fb B root' hr' bs cur' env' k hl.1 I.hB hbl I.fc' I.fe' vs' e1'
    refine seval_rrq B hroot hr hr' body hl.2 (gr k (adepthF bs)) cur cur' (vs ++ env) (vs' ++ env')
      ⟨Nat.le_trans I.hB le_gr, I.c, up le_gr I.fc, up le_gr I.fc', vrf_append hvs I.e, ?_, ?_⟩
      (by rw [gr_gr]; exact hb)
    · intro k' x hm
      rcases List.mem_append.mp hm with hm | hm
      · exact f1 k' x hm
      · exact up le_gr (I.fe k' x hm)
    · intro k' x hm
      rcases List.mem_append.mp hm with hm | hm
      · exact f1' k' x hm
      · exact up le_gr (I.fe' k' x hm)
  | .groupBy a e, hl, k, cur, cur', env, env', I, hb => by
    simp only [Tree.Ops] at hl
    simp only [adepth] at hb
    simp only [seval]
    have hbl : gr k (adepth a) ≤ 53 := Nat.le_trans (gr_mono (Nat.le_add_right _ _)) hb
    refine rr_bind_eq (seval_rrq B hroot hr hr' a hl.1 k cur cur' env env' I hbl) (fun v v' ev ev' hv => ?_)
    have f1 := seval_fb B root hr a cur env k hl.1 I.hB hbl I.fc I.fe v ev
    have f1' := seval_fb B root' hr' a cur' env' k hl.1 I.hB hbl I.fc' I.fe' v' ev'
    exact groupBy_rrp (P := IntF (gr k (adepth a)))
      (fun x x' hx fx fx' => seval_rrq B hroot hr hr' e hl.2 (gr k (adepth a)) x x' env env'
        (I.lift le_gr hx fx fx') (by rw [gr_gr]; exact hb)) hv f1 f1'
  | .map e a, hl, k, cur, cur', env, env', I, hb => by
    simp only [Tree.Ops] at hl
    simp only [adepth] at hb
    simp only [seval]
    have hbl : gr k (adepth a) ≤ 53 := Nat.le_trans (gr_mono (Nat.le_add_right _ _)) hb
    refine rr_bind_eq (seval_rrq B hroot hr hr' a hl.2 k cur cur' env env' I hbl) (fun v v' ev ev' hv => ?_)
    have f1 := seval_fb B root hr a cur env k hl.2 I.hB hbl I.fc I.fe v ev
    have f1' := seval_fb B root' hr' a cur' env' k hl.2 I.hB hbl I.fc' I.fe' v' ev'
    exact mapArray_rrp (P := IntF (gr k (adepth a)))
      (fun x x' hx fx fx' => seval_rrq B hroot hr hr' e hl.1 (gr k (adepth a)) x x' env env'
        (I.lift le_gr hx fx fx') (by rw [gr_gr]; exact hb)) hv f1 f1'
  | .maxBy a e, hl, k, cur, cur', env, env', I, hb => by
    simp only [Tree.Ops] at hl
    simp only [adepth] at hb
    simp only [seval]
    have hbl : gr k (adepth a) ≤ 53 := Nat.le_trans (gr_mono (Nat.le_add_right _ _)) hb
    refine rr_bind_eq (seval_rrq B hroot hr hr' a hl.1 k cur cur' env env' I hbl) (fun v v' ev ev' hv => ?_)
    have f1 := seval_fb B root hr a cur env k hl.1 I.hB hbl I.fc I.fe v ev
    have f1' := seval_fb B root' hr' a cur' env' k hl.1 I.hB hbl I.fc' I.fe' v' ev'
    exact arrayMaxBy_rrp (P := IntF (gr k (adepth a)))
      (fun x x' hx fx fx' => seval_rrq B hroot hr hr' e hl.2 (gr k (adepth a)) x x' env env'
        (I.lift le_gr hx fx fx') (by rw [gr_gr]; exact hb)) hv f1 f1'
  | .minBy a e, hl, k, cur, cur', env, env', I, hb => by
    simp only [Tree.Ops] at hl
    simp only [adepth] at hb
    simp only [seval]
    have hbl : gr k (adepth a) ≤ 53 := Nat.le_trans (gr_mono (Nat.le_add_right _ _)) hb
    refine rr_bind_eq (seval_rrq B hroot hr hr' a hl.1 k cur cur' env env' I hbl) (fun v v' ev ev' hv => ?_)
    have f1 := seval_fb B root hr a cur env k hl.1 I.hB hbl I.fc I.fe v ev
    have f1' := seval_fb B root' hr' a cur' env' k hl.1 I.hB hbl I.fc' I.fe' v' ev'
    exact arrayMinBy_rrp (P := IntF (gr k (adepth a)))
      (fun x x' hx fx fx' => seval_rrq B hroot hr hr' e hl.2 (gr k (adepth a)) x x' env env'
        (I.lift le_gr hx fx fx') (by rw [gr_gr]; exact hb)) hv f1 f1'
  | .sortBy a e, hl, k, cur, cur', env, env', I, hb => by
    simp only [Tree.Ops] at hl
    simp only [adepth] at hb
    simp only [seval]
    have hbl : gr k (adepth a) ≤ 53 := Nat.le_trans (gr_mono (Nat.le_add_right _ _)) hb
    refine rr_bind_eq (seval_rrq B hroot hr hr' a hl.1 k cur cur' env env' I hbl) (fun v v' ev ev' hv => ?_)
    have f1 := seval_fb B root hr a cur env k hl.1 I.hB hbl I.fc I.fe v ev
    have f1' := seval_fb B root' hr' a cur' env' k hl.1 I.hB hbl I.fc' I.fe' v' ev'
    exact sortArrayBy_rrp (P := IntF (gr k (adepth a)))
      (fun x x' hx fx fx' => seval_rrq B hroot hr hr' e hl.2 (gr k (adepth a)) x x' env env'
        (I.lift le_gr hx fx fx') (by rw [gr_gr]; exact hb)) hv f1 f1'
  | .merge args, hl, k, cur, cur', env, env', I, hb => by
    simp only [Tree.Ops] at hl
    simp only [adepth] at hb
    simp only [seval]
    exact RR.bind (sevalMerge_rrq B hroot hr hr' args hl k cur cur' env env' [] [] I hb vrf_nil)
      (fun kvs kvs' hk => RR.ok' (vr_obj hk))
  | .notNull args, hl, k, cur, cur', env, env', I, hb => by
    simp only [Tree.Ops] at hl
    simp only [adepth] at hb
    simp only [seval]
    exact sevalNotNull_rrq B hroot hr hr' args hl k cur cur' env env' I hb
  | .zip args, hl, k, cur, cur', env, env', I, hb => by
    simp only [Tree.Ops] at hl
    simp only [adepth] at hb
    simp only [seval]
    refine RR.bind (sevalZip_rrq B hroot hr hr' args hl k cur cur' env env' I hb) (fun vs vs' hvs =>
      RR.bind (zipArgs_rr hvs) (fun cols cols' hcols => ?_))
    cases cols with
    | nil => cases cols' with
      | nil => exact RR.ok' (vr_arr vrl_nil)
      | cons _ _ => simp [L2] at hcols
    | cons c cs => cases cols' with
      | nil => simp [L2] at hcols
      | cons c' cs' =>
        have hcols' := hcols
        simp only [L2] at hcols
        simp only [vrl_length hcols.1, minLen_cols _ hcols.2]
        exact RR.ok' (vr_arr (zipRows_vrl _ hcols'))
theorem sevalList_rrq (B : Nat) {root root' : Val} (hroot : VR false root root') (hr : AllF (IntF B) root)
    (hr' : AllF (IntF B) root') : (ts : List Tree) → NDL ts → ∀ (k : Nat) (cur cur' : Val) (env env' : Env),
      Inp B k root root' cur cur' env env' → gr k (adepthL ts) ≤ 53 →
      RR (VRL false) (sevalList root ts cur env) (sevalList root' ts cur' env')
  | [], _, _, _, _, _, _, _, _ => by simp only [sevalList]; exact RR.ok' vrl_nil
  | t :: ts, hl, k, cur, cur', env, env', I, hb => by
    simp only [Tree.OpsL] at hl
    simp only [adepthL] at hb
    simp only [sevalList]
    exact RR.bind (seval_rrq B hroot hr hr' t hl.1 k cur cur' env env' I
        (Nat.le_trans (gr_mono (Nat.le_max_left _ _)) hb))
      (fun v v' hv => RR.bind (sevalList_rrq B hroot hr hr' ts hl.2 k cur cur' env env' I
          (Nat.le_trans (gr_mono (Nat.le_max_right _ _)) hb))
        (fun vs vs' hvs => RR.ok' (vrl_cons hv hvs)))
theorem sevalFields_rrq (B : Nat) {root root' : Val} (hroot : VR false root root') (hr : AllF (IntF B) root)
    (hr' : AllF (IntF B) root') : (fs : List (Bytes × Tree)) → NDF fs → ∀ (k : Nat) (cur cur' : Val) (env env' : Env),
      Inp B k root root' cur cur' env env' → gr k (adepthF fs) ≤ 53 →
      RR (VRF false) (sevalFields root fs cur env) (sevalFields root' fs cur' env')
  | [], _, _, _, _, _, _, _, _ => by simp only [sevalFields]; exact RR.ok' vrf_nil
  | (k0, t) :: rest, hl, k, cur, cur', env, env', I, hb => by
    simp only [Tree.OpsF] at hl
    simp only [adepthF] at hb
    simp only [sevalFields]
    exact combineUnordered_rr k0
      (sevalFields_rrq B hroot hr hr' rest hl.2 k cur cur' env env' I (Nat.le_trans (gr_mono (Nat.le_max_right _ _)) hb))
      (seval_rrq B hroot hr hr' t hl.1 k cur cur' env env' I (Nat.le_trans (gr_mono (Nat.le_max_left _ _)) hb))
theorem sevalMerge_rrq (B : Nat) {root root' : Val} (hroot : VR false root root') (hr : AllF (IntF B) root)
    (hr' : AllF (IntF B) root') : (ts : List Tree) → NDL ts → ∀ (k : Nat) (cur cur' : Val) (env env' : Env)
      (acc acc' : List (Bytes × Val)), Inp B k root root' cur cur' env env' → gr k (adepthL ts) ≤ 53 →
      VRF false acc acc' → RR (VRF false) (sevalMerge root ts cur env acc) (sevalMerge root' ts cur' env' acc')
  | [], _, _, _, _, _, _, _, _, _, _, ha => by simp only [sevalMerge]; exact RR.ok' ha
  | t :: ts, hl, k, cur, cur', env, env', acc, acc', I, hb, ha => by
    simp only [Tree.OpsL] at hl
    simp only [adepthL] at hb
    simp only [sevalMerge]
    refine RR.bind (seval_rrq B hroot hr hr' t hl.1 k cur cur' env env' I
      (Nat.le_trans (gr_mono (Nat.le_max_left _ _)) hb)) (fun v v' hv => ?_)
    cases v <;> cases v' <;> simp only [VR] at hv <;> try exact rr_errType
    exact sevalMerge_rrq B hroot hr hr' ts hl.2 k cur cur' env env' _ _ I
      (Nat.le_trans (gr_mono (Nat.le_max_right _ _)) hb) (foldInsert_vrf hv ha)
theorem sevalNotNull_rrq (B : Nat) {root root' : Val} (hroot : VR false root root') (hr : AllF (IntF B) root)
    (hr' : AllF (IntF B) root') : (ts : List Tree) → NDL ts → ∀ (k : Nat) (cur cur' : Val) (env env' : Env),
      Inp B k root root' cur cur' env env' → gr k (adepthL ts) ≤ 53 →
      RR (VR false) (sevalNotNull root ts cur env) (sevalNotNull root' ts cur' env')
  | [], _, _, _, _, _, _, _, _ => by simp only [sevalNotNull]; exact RR.ok' vr_null
  | t :: ts, hl, k, cur, cur', env, env', I, hb => by
    simp only [Tree.OpsL] at hl
    simp only [adepthL] at hb
    simp only [sevalNotNull]
    refine RR.bind (seval_rrq B hroot hr hr' t hl.1 k cur cur' env env' I
      (Nat.le_trans (gr_mono (Nat.le_max_left _ _)) hb)) (fun v v' hv => ?_)
    rw [isNull_vr hv]
    split
    · exact sevalNotNull_rrq B hroot hr hr' ts hl.2 k cur cur' env env' I
        (Nat.le_trans (gr_mono (Nat.le_max_right _ _)) hb)
    · exact RR.ok' hv
theorem sevalZip_rrq (B : Nat) {root root' : Val} (hroot : VR false root root') (hr : AllF (IntF B) root)
    (hr' : AllF (IntF B) root') : (ts : List Tree) → NDL ts → ∀ (k : Nat) (cur cur' : Val) (env env' : Env),
      Inp B k root root' cur cur' env env' → gr k (adepthL ts) ≤ 53 →
      RR (VRL false) (sevalZip root ts cur env) (sevalZip root' ts cur' env')
  | [], _, _, _, _, _, _, _, _ => by simp only [sevalZip]; exact RR.ok' vrl_nil
  | t :: ts, hl, k, cur, cur', env, env', I, hb => by
    simp only [Tree.OpsL] at hl
    simp only [adepthL] at hb
    simp only [sevalZip]
    refine RR.bind (seval_rrq B hroot hr hr' t hl.1 k cur cur' env env' I
      (Nat.le_trans (gr_mono (Nat.le_max_left _ _)) hb)) (fun v v' hv => ?_)
    have hv' := hv
    cases v <;> cases v' <;> simp only [VR] at hv <;> try exact rr_errType
    exact RR.bind (sevalZip_rrq B hroot hr hr' ts hl.2 k cur cur' env env' I
      (Nat.le_trans (gr_mono (Nat.le_max_right _ _)) hb)) (fun vs vs' hvs => RR.ok' (vrl_cons hv' hvs))
end

end C14C
end Jmes
