/-
  Property C16, third part — the depth limit is exact for EVERY JSON text: a JSON text (valid UTF-8) whose brackets
  nest more than 10000 deep (`textDepth`, the byte scan of `C16CTotal.lean`) is rejected by Go's decoder.
  With soundness and totality this characterises the decoder completely (`decode_iff`).
-/
import Jmes.Proofs.C16CTotal
namespace Jmes.C16C
open Jmes Jmes.Utf8 Jmes.Literals Jmes.C16 Jmes.C16BL Jmes.Lexical Jmes.JsonGrammar

/-- depth of the elements / members of a container, the container's own bracket not counted -/
def innerDepth (p : Bytes) : Nat := (scan ⟨.out, 1, 1⟩ p).mx - 1

theorem textDepth_of_scan {p : Bytes} {m : Nat}
    (h : ∀ c mx, c ≤ mx → scan ⟨.out, c, mx⟩ p = ⟨.out, c, max mx (c + m)⟩) : textDepth p = m := by
  unfold textDepth; rw [h 0 0 (Nat.le_refl _)]; simp

theorem innerDepth_of_scan {p : Bytes} {m : Nat}
    (h : ∀ c mx, c + 1 ≤ mx → scan ⟨.out, c + 1, mx⟩ p = ⟨.out, c, max mx (c + 1 + m)⟩) : innerDepth p = m := by
  unfold innerDepth; rw [h 0 1 (Nat.le_refl _)]; simp <;> omega

theorem textDepth_cons_open {es : Bytes} {m : Nat} (b : Nat) (hb : b = 0x5B ∨ b = 0x7B)
    (h : ∀ c mx, c + 1 ≤ mx → scan ⟨.out, c + 1, mx⟩ es = ⟨.out, c, max mx (c + 1 + m)⟩) :
    textDepth (b :: es) = m + 1 := by
  unfold textDepth
  rw [scan_cons]
  have : step ⟨.out, 0, 0⟩ b = ⟨.out, 1, 1⟩ := by rcases hb with rfl | rfl <;> rfl
  rw [this, h 0 1 (Nat.le_refl _)]; simp <;> omega

/-- a non-empty element list does not begin (after white space) with the closing bracket -/
theorem jelems_not_close {es : Bytes} (hes : JElems es) (rest r : Bytes) : Json.skipWs (es ++ rest) ≠ 0x5D :: r := by
  cases hes with
  | last w1 v w2 hw1 hv hw2 =>
    obtain ⟨c, t, rfl, hc1, hc2, _⟩ := jvalue_head hv
    simp only [List.append_assoc, List.cons_append]
    rw [skipWs_ws_cons hw1 c _ hc1]
    intro h; simp at h; omega
  | cons w1 v w2 q hw1 hv hw2 hq =>
    obtain ⟨c, t, rfl, hc1, hc2, _⟩ := jvalue_head hv
    simp only [List.append_assoc, List.cons_append]
    rw [skipWs_ws_cons hw1 c _ hc1]
    intro h; simp at h; omega

/-- a non-empty member list does not begin (after white space) with the closing brace -/
theorem jmembers_not_close {ms : Bytes} (hms : JMembers ms) (rest r : Bytes) :
    Json.skipWs (ms ++ rest) ≠ 0x7D :: r := by
  cases hms with
  | last w1 k w2 w3 v w4 hw1 hk hw2 hw3 hv hw4 =>
    simp only [List.append_assoc, List.cons_append]
    rw [skipWs_ws_cons hw1 0x22 _ (by decide)]
    intro h; simp at h
  | cons w1 k w2 w3 v w4 q hw1 hk hw2 hw3 hv hw4 hq =>
    simp only [List.append_assoc, List.cons_append]
    rw [skipWs_ws_cons hw1 0x22 _ (by decide)]
    intro h; simp at h

mutual
/-- a value text nested too deep for the depth at which it stands is rejected -/
theorem deep_value : {p : Bytes} → JValue p → ∀ rest, V (p ++ rest) → ∀ (f d : Nat), Delim rest →
    2 * p.length + 1 ≤ f → d ≤ Json.maxDepth → Json.maxDepth < d + textDepth p →
    Json.parseValue f d (p ++ rest) = none
  | _, .null, rest, hv, f, d, _, _, hd, hdeep => by
    have : textDepth [0x6E, 0x75, 0x6C, 0x6C] = 0 := by decide
    omega
  | _, .true, rest, hv, f, d, _, _, hd, hdeep => by
    have : textDepth [0x74, 0x72, 0x75, 0x65] = 0 := by decide
    omega
  | _, .false, rest, hv, f, d, _, _, hd, hdeep => by
    have : textDepth [0x66, 0x61, 0x6C, 0x73, 0x65] = 0 := by decide
    omega
  | _, .num t hn, rest, hv, f, d, _, _, hd, hdeep => by
    have : textDepth t = 0 := by
      unfold textDepth; rw [scan_plain _ 0 0 (fun x hx => (jnumber_bytes hn x hx).2)]
    omega
  | _, .str b hb, rest, hv, f, d, _, _, hd, hdeep => by
    have : textDepth (0x22 :: b) = 0 := by
      unfold textDepth
      rw [scan_cons]
      have s1 : step ⟨.out, 0, 0⟩ 0x22 = ⟨.str, 0, 0⟩ := rfl
      rw [s1, scan_str hb]
    omega
  | _, .arrEmpty w hw, rest, hv, f, d, _, hf, hd, hdeep => by
    obtain ⟨f', rfl⟩ : ∃ f', f = f' + 1 := ⟨f - 1, by omega⟩
    obtain ⟨m, v, hden, _, hsc⟩ := den_total (.arrEmpty w hw) rest hv
    have h1 := textDepth_of_scan hsc
    have hm : m = 1 := by
      have := hsc 0 0 (Nat.le_refl _)
      rw [scan_cons, scan_append] at this
      have s1 : step ⟨.out, 0, 0⟩ 0x5B = ⟨.out, 1, 1⟩ := rfl
      rw [s1, scan_ws hw] at this
      have := congrArg St.mx this
      simp [scan, step] at this
      omega
    rw [List.cons_append, JsonGrammar.parseValue_arr, if_pos (by omega)]
  | _, .arr es he, rest, hv, f, d, hr, hf, hd, hdeep => by
    obtain ⟨f', rfl⟩ : ∃ f', f = f' + 1 := ⟨f - 1, by omega⟩
    have hv' : V (es ++ rest) := V.tail_ascii (x := 0x5B) (by omega) hv
    obtain ⟨m, xs, _, _, hsc⟩ := elems_total he rest hv'
    have h1 := textDepth_cons_open 0x5B (Or.inl rfl) hsc
    have h2 := innerDepth_of_scan hsc
    simp only [List.length_cons] at hf
    rw [List.cons_append, JsonGrammar.parseValue_arr]
    by_cases hc : d + 1 > Json.maxDepth
    · rw [if_pos hc]
    · rw [if_neg hc]
      have := deep_elems he rest hv' f' (d + 1) [] (by omega) (by omega) (by omega)
      rw [this]
      split
      · rename_i r heq; exact absurd heq (jelems_not_close he rest r)
      · rfl
  | _, .objEmpty w hw, rest, hv, f, d, _, hf, hd, hdeep => by
    obtain ⟨f', rfl⟩ : ∃ f', f = f' + 1 := ⟨f - 1, by omega⟩
    obtain ⟨m, v, hden, _, hsc⟩ := den_total (.objEmpty w hw) rest hv
    have h1 := textDepth_of_scan hsc
    have hm : m = 1 := by
      have := hsc 0 0 (Nat.le_refl _)
      rw [scan_cons, scan_append] at this
      have s1 : step ⟨.out, 0, 0⟩ 0x7B = ⟨.out, 1, 1⟩ := rfl
      rw [s1, scan_ws hw] at this
      have := congrArg St.mx this
      simp [scan, step] at this
      omega
    rw [List.cons_append, JsonGrammar.parseValue_obj, if_pos (by omega)]
  | _, .obj ms hm, rest, hv, f, d, hr, hf, hd, hdeep => by
    obtain ⟨f', rfl⟩ : ∃ f', f = f' + 1 := ⟨f - 1, by omega⟩
    have hv' : V (ms ++ rest) := V.tail_ascii (x := 0x7B) (by omega) hv
    obtain ⟨m, xs, _, _, hsc⟩ := members_total hm rest hv'
    have h1 := textDepth_cons_open 0x7B (Or.inr rfl) hsc
    have h2 := innerDepth_of_scan hsc
    simp only [List.length_cons] at hf
    rw [List.cons_append, JsonGrammar.parseValue_obj]
    by_cases hc : d + 1 > Json.maxDepth
    · rw [if_pos hc]
    · rw [if_neg hc]
      have := deep_members hm rest hv' f' (d + 1) [] (by omega) (by omega) (by omega)
      rw [this]
      split
      · rename_i r heq; exact absurd heq (jmembers_not_close hm rest r)
      · rfl
/-- the same for the elements of an array -/
theorem deep_elems : {p : Bytes} → JElems p → ∀ rest, V (p ++ rest) → ∀ (f d : Nat) (acc : List Val),
    2 * p.length ≤ f → d ≤ Json.maxDepth → Json.maxDepth < d + innerDepth p →
    Json.parseElems f d (p ++ rest) acc = none
  | _, .last w1 v w2 h1 hv h2, rest, hV, f, d, acc, hf, hd, hdeep => by
    have e : w1 ++ v ++ w2 ++ [0x5D] ++ rest = w1 ++ (v ++ (w2 ++ 0x5D :: rest)) := by simp
    obtain ⟨m, xs, _, _, hsc⟩ := elems_total (.last w1 v w2 h1 hv h2) rest hV
    have hin := innerDepth_of_scan hsc
    rw [e] at hV ⊢
    have hV1 := V.strip_ascii w1 (ws_ascii h1) hV
    obtain ⟨m1, x, hden, hr, hsc1⟩ := den_total hv _ hV1
    have ht := textDepth_of_scan hsc1
    have hmm : m = m1 := by
      have a := hsc 0 1 (Nat.le_refl _)
      rw [scan_append, scan_append, scan_append, scan_ws h1, hsc1 _ _ (by omega), scan_ws h2] at a
      have := congrArg St.mx a
      simp [scan, step] at this
      omega
    simp only [List.length_append, List.length_cons, List.length_nil] at hf
    have hpos := jvalue_length_pos hv
    obtain ⟨g, rfl⟩ : ∃ g, f = g + 2 := ⟨f - 2, by omega⟩
    have := deep_value hv (w2 ++ 0x5D :: rest) hV1 (g + 1) d (Delim.ws_append h2 0x5D (Or.inr (Or.inl rfl)))
      (by omega) hd (by omega)
    rw [Json.parseElems, parseValue_ws h1, this]
  | _, .cons w1 v w2 q h1 hv h2 hq, rest, hV, f, d, acc, hf, hd, hdeep => by
    have e : w1 ++ v ++ w2 ++ 0x2C :: q ++ rest = w1 ++ (v ++ (w2 ++ 0x2C :: (q ++ rest))) := by simp
    obtain ⟨m, xs, _, _, hsc⟩ := elems_total (.cons w1 v w2 q h1 hv h2 hq) rest hV
    have hin := innerDepth_of_scan hsc
    rw [e] at hV ⊢
    have hV1 := V.strip_ascii w1 (ws_ascii h1) hV
    obtain ⟨m1, x, hden, hr, hsc1⟩ := den_total hv _ hV1
    have ht := textDepth_of_scan hsc1
    have hV2 : V (q ++ rest) := V.tail_ascii (x := 0x2C) (by omega) (V.strip_ascii w2 (ws_ascii h2) hr)
    obtain ⟨m2, xs2, _, _, hsc2⟩ := elems_total hq rest hV2
    have hin2 := innerDepth_of_scan hsc2
    have hmm : m = max m1 m2 := by
      have a := hsc 0 1 (Nat.le_refl _)
      rw [scan_append, scan_append, scan_append, scan_ws h1, hsc1 _ _ (by omega), scan_ws h2, scan_cons] at a
      have s : step ⟨.out, 0 + 1, max 1 (0 + 1 + m1)⟩ 0x2C = ⟨.out, 0 + 1, max 1 (0 + 1 + m1)⟩ := rfl
      rw [s, hsc2 0 _ (by omega)] at a
      have := congrArg St.mx a
      simp at this
      omega
    simp only [List.length_append, List.length_cons] at hf
    have hpos := jvalue_length_pos hv
    obtain ⟨g, rfl⟩ : ∃ g, f = g + 2 := ⟨f - 2, by omega⟩
    by_cases hfirst : Json.maxDepth < d + m1
    · have := deep_value hv (w2 ++ 0x2C :: (q ++ rest)) hV1 (g + 1) d (Delim.ws_append h2 0x2C (Or.inl rfl))
        (by omega) hd (by omega)
      rw [Json.parseElems, parseValue_ws h1, this]
    · have hval := pv_den hden (g + 1) d (w2 ++ 0x2C :: (q ++ rest)) (by omega) (by omega)
        (Delim.ws_append h2 0x2C (Or.inl rfl))
      rw [pe_more acc (by rw [parseValue_ws h1]; exact hval) (skipWs_ws_cons h2 0x2C _ (by decide))]
      exact deep_elems hq rest hV2 (g + 1) d _ (by omega) hd (by omega)
/-- the same for the members of an object -/
theorem deep_members : {p : Bytes} → JMembers p → ∀ rest, V (p ++ rest) → ∀ (f d : Nat) (acc : List (Bytes × Val)),
    2 * p.length ≤ f → d ≤ Json.maxDepth → Json.maxDepth < d + innerDepth p →
    Json.parseMembers f d (p ++ rest) acc = none
  | _, .last w1 k w2 w3 v w4 h1 hk h2 h3 hv h4, rest, hV, f, d, acc, hf, hd, hdeep => by
    have e : w1 ++ 0x22 :: k ++ w2 ++ 0x3A :: w3 ++ v ++ w4 ++ [0x7D] ++ rest
        = w1 ++ 0x22 :: (k ++ (w2 ++ 0x3A :: (w3 ++ (v ++ (w4 ++ 0x7D :: rest))))) := by simp
    obtain ⟨m, xs, _, _, hsc⟩ := members_total (.last w1 k w2 w3 v w4 h1 hk h2 h3 hv h4) rest hV
    have hin := innerDepth_of_scan hsc
    have e3 : w1 ++ 0x22 :: k ++ w2 ++ 0x3A :: w3 ++ v ++ w4 ++ [0x7D]
        = w1 ++ (0x22 :: (k ++ (w2 ++ (0x3A :: (w3 ++ (v ++ (w4 ++ [0x7D]))))))) := by simp
    rw [e] at hV ⊢
    obtain ⟨ks, kw, rfl, hks, hr1⟩ := strden_total k.length k (Nat.le_refl _) hk _
      (V.tail_ascii (x := 0x22) (by omega) (V.strip_ascii w1 (ws_ascii h1) hV))
    have hV1 := V.strip_ascii w3 (ws_ascii h3) (V.tail_ascii (x := 0x3A) (by omega) (V.strip_ascii w2 (ws_ascii h2) hr1))
    obtain ⟨m1, x, hden, hr, hsc1⟩ := den_total hv _ hV1
    have ht := textDepth_of_scan hsc1
    have hmm : m = m1 := by
      have a := hsc 0 1 (Nat.le_refl _)
      rw [e3, scan_append, scan_ws h1, scan_cons] at a
      have s1 : step ⟨.out, 0 + 1, 1⟩ 0x22 = ⟨.str, 0 + 1, 1⟩ := rfl
      rw [s1, scan_append, scan_str hk, scan_append, scan_ws h2, scan_cons] at a
      have s2 : step ⟨.out, 0 + 1, 1⟩ 0x3A = ⟨.out, 0 + 1, 1⟩ := rfl
      rw [s2, scan_append, scan_ws h3, scan_append, hsc1 _ _ (by omega), scan_append, scan_ws h4] at a
      have := congrArg St.mx a
      simp [scan, step] at this
      omega
    simp only [List.length_append, List.length_cons, List.length_nil] at hf
    have hpos := jvalue_length_pos hv
    obtain ⟨g, rfl⟩ : ∃ g, f = g + 2 := ⟨f - 2, by omega⟩
    have := deep_value hv (w4 ++ 0x7D :: rest) hV1 (g + 1) d (Delim.ws_append h4 0x7D (Or.inr (Or.inr rfl)))
      (by omega) hd (by omega)
    have hkey := psb_strden0 hks ((kw ++ 0x22 :: (w2 ++ 0x3A :: (w3 ++ (v ++ (w4 ++ 0x7D :: rest))))).length + 1)
      (w2 ++ 0x3A :: (w3 ++ (v ++ (w4 ++ 0x7D :: rest)))) (by simp; omega)
    have e4 : (kw ++ [0x22]) ++ (w2 ++ 0x3A :: (w3 ++ (v ++ (w4 ++ 0x7D :: rest))))
        = kw ++ 0x22 :: (w2 ++ 0x3A :: (w3 ++ (v ++ (w4 ++ 0x7D :: rest)))) := by simp
    rw [e4, Json.parseMembers, skipWs_ws_cons h1 0x22 _ (by decide)]
    simp only []
    rw [hkey]
    simp only []
    rw [skipWs_ws_cons h2 0x3A _ (by decide)]
    simp only []
    rw [parseValue_ws h3, this]
  | _, .cons w1 k w2 w3 v w4 q h1 hk h2 h3 hv h4 hq, rest, hV, f, d, acc, hf, hd, hdeep => by
    have e : w1 ++ 0x22 :: k ++ w2 ++ 0x3A :: w3 ++ v ++ w4 ++ 0x2C :: q ++ rest
        = w1 ++ 0x22 :: (k ++ (w2 ++ 0x3A :: (w3 ++ (v ++ (w4 ++ 0x2C :: (q ++ rest)))))) := by simp
    obtain ⟨m, xs, _, _, hsc⟩ := members_total (.cons w1 k w2 w3 v w4 q h1 hk h2 h3 hv h4 hq) rest hV
    have hin := innerDepth_of_scan hsc
    have e3 : w1 ++ 0x22 :: k ++ w2 ++ 0x3A :: w3 ++ v ++ w4 ++ 0x2C :: q
        = w1 ++ (0x22 :: (k ++ (w2 ++ (0x3A :: (w3 ++ (v ++ (w4 ++ (0x2C :: q)))))))) := by simp
    rw [e] at hV ⊢
    obtain ⟨ks, kw, rfl, hks, hr1⟩ := strden_total k.length k (Nat.le_refl _) hk _
      (V.tail_ascii (x := 0x22) (by omega) (V.strip_ascii w1 (ws_ascii h1) hV))
    have hV1 := V.strip_ascii w3 (ws_ascii h3) (V.tail_ascii (x := 0x3A) (by omega) (V.strip_ascii w2 (ws_ascii h2) hr1))
    obtain ⟨m1, x, hden, hr, hsc1⟩ := den_total hv _ hV1
    have ht := textDepth_of_scan hsc1
    have hV2 : V (q ++ rest) := V.tail_ascii (x := 0x2C) (by omega) (V.strip_ascii w4 (ws_ascii h4) hr)
    obtain ⟨m2, ms2, _, _, hsc2⟩ := members_total hq rest hV2
    have hin2 := innerDepth_of_scan hsc2
    have hmm : m = max m1 m2 := by
      have a := hsc 0 1 (Nat.le_refl _)
      rw [e3, scan_append, scan_ws h1, scan_cons] at a
      have s1 : step ⟨.out, 0 + 1, 1⟩ 0x22 = ⟨.str, 0 + 1, 1⟩ := rfl
      rw [s1, scan_append, scan_str hk, scan_append, scan_ws h2, scan_cons] at a
      have s2 : step ⟨.out, 0 + 1, 1⟩ 0x3A = ⟨.out, 0 + 1, 1⟩ := rfl
      rw [s2, scan_append, scan_ws h3, scan_append, hsc1 _ _ (by omega), scan_append, scan_ws h4, scan_cons] at a
      have s3 : step ⟨.out, 0 + 1, max 1 (0 + 1 + m1)⟩ 0x2C = ⟨.out, 0 + 1, max 1 (0 + 1 + m1)⟩ := rfl
      rw [s3, hsc2 0 _ (by omega)] at a
      have := congrArg St.mx a
      simp at this
      omega
    simp only [List.length_append, List.length_cons] at hf
    have hpos := jvalue_length_pos hv
    obtain ⟨g, rfl⟩ : ∃ g, f = g + 2 := ⟨f - 2, by omega⟩
    have hkey := psb_strden0 hks
      ((kw ++ 0x22 :: (w2 ++ 0x3A :: (w3 ++ (v ++ (w4 ++ 0x2C :: (q ++ rest)))))).length + 1)
      (w2 ++ 0x3A :: (w3 ++ (v ++ (w4 ++ 0x2C :: (q ++ rest))))) (by simp; omega)
    have e4 : (kw ++ [0x22]) ++ (w2 ++ 0x3A :: (w3 ++ (v ++ (w4 ++ 0x2C :: (q ++ rest)))))
        = kw ++ 0x22 :: (w2 ++ 0x3A :: (w3 ++ (v ++ (w4 ++ 0x2C :: (q ++ rest))))) := by simp
    rw [e4]
    by_cases hfirst : Json.maxDepth < d + m1
    · have := deep_value hv (w4 ++ 0x2C :: (q ++ rest)) hV1 (g + 1) d (Delim.ws_append h4 0x2C (Or.inl rfl))
        (by omega) hd (by omega)
      rw [Json.parseMembers, skipWs_ws_cons h1 0x22 _ (by decide)]
      simp only []
      rw [hkey]
      simp only []
      rw [skipWs_ws_cons h2 0x3A _ (by decide)]
      simp only []
      rw [parseValue_ws h3, this]
    · have hval := pv_den hden (g + 1) d (w4 ++ 0x2C :: (q ++ rest)) (by omega) (by omega)
        (Delim.ws_append h4 0x2C (Or.inl rfl))
      rw [pm_more acc (skipWs_ws_cons h1 0x22 _ (by decide)) hkey (skipWs_ws_cons h2 0x3A _ (by decide))
        (by rw [parseValue_ws h3]; exact hval) (skipWs_ws_cons h4 0x2C _ (by decide))]
      exact deep_members hq rest hV2 (g + 1) d _ (by omega) hd (by omega)
end

/-- **the depth limit, for every JSON text**: a JSON text (valid UTF-8) whose brackets nest more than 10000 deep is
    rejected by Go's decoder -/
theorem decode_too_deep {t : Bytes} (h : JsonText t) (hu : validUTF8 t = true) (hd : Json.maxDepth < textDepth t) :
    Json.decode t = none := by
  obtain ⟨w1, p, w2, rfl, h1, hp, h2⟩ := h
  have hV : V (w1 ++ (p ++ w2)) := by rw [← List.append_assoc]; exact (V_iff _).2 hu
  have hV1 := V.strip_ascii w1 (ws_ascii h1) hV
  obtain ⟨m, v, _, _, hsc⟩ := den_total hp w2 hV1
  have htd : textDepth (w1 ++ p ++ w2) = textDepth p := by
    rw [textDepth_of_scan hsc]
    unfold textDepth
    rw [scan_append, scan_append, scan_ws h1, hsc 0 0 (Nat.le_refl _), scan_ws h2]
    simp
  rw [htd] at hd
  unfold Json.decode
  obtain ⟨f, hf⟩ : ∃ f, 2 * (w1 ++ p ++ w2).length + 2 = f + 1 := ⟨_, rfl⟩
  rw [hf, List.append_assoc, parseValue_ws h1,
    deep_value hp w2 hV1 (f + 1) 0 (Delim.of_ws h2) (by simp only [List.length_append] at hf; omega) (by omega)
      (by omega)]

end Jmes.C16C
