/-
  Evaluator refinement: the Go-shaped evaluator `ieval` over `INode` computes exactly the reference semantics
  `seval` of the desugared tree, for every node, current value, root document and environment.

  Part 1: monad laws for `Res`.
  Part 2: value-level lemmas relating the fused helpers (`filterArray`, `flatten`, `objectValues`) to the general
          projections with the identity right-hand side.
  Part 3: the mutual refinement theorems.
-/
import Jmes.Spec.Desugar
import Jmes.Spec.Sem
namespace Jmes

/-! ## Part 1: `Res` is a lawful-enough monad -/

@[simp] theorem Res.ok_bind {α β} (a : α) (f : α → Res β) : (Res.ok a >>= f) = f a := rfl
@[simp] theorem Res.err_bind {α β} (c : List Cat) (f : α → Res β) : ((Res.err c : Res α) >>= f) = Res.err c := rfl
@[simp] theorem Res.panic_bind {α β} (w : String) (f : α → Res β) : ((Res.panic w : Res α) >>= f) = Res.panic w := rfl
@[simp] theorem Res.nondet_bind {α β} (f : α → Res β) : ((Res.nondet : Res α) >>= f) = Res.nondet := rfl
@[simp] theorem Res.unmodelled_bind {α β} (w : String) (f : α → Res β) :
    ((Res.unmodelled w : Res α) >>= f) = Res.unmodelled w := rfl
@[simp] theorem Res.pure_eq {α} (a : α) : (pure a : Res α) = Res.ok a := rfl

theorem Res.bind_congr {α β} {x : Res α} {f g : α → Res β} (h : ∀ a, f a = g a) : (x >>= f) = (x >>= g) := by
  have : f = g := funext h
  rw [this]

@[simp] theorem Res.bind_ok {α} (x : Res α) : (x >>= fun a => Res.ok a) = x := by
  cases x <;> rfl

theorem Res.bind_assoc {α β γ} (x : Res α) (f : α → Res β) (g : β → Res γ) :
    (x >>= f >>= g) = (x >>= fun a => f a >>= g) := by
  cases x <;> rfl

/-! ## Part 2: value-level lemmas -/

/-- the filter loop is the filter-and-project loop with the identity projection -/
theorem filterLoop_eq (c : Val → Res Val) (xs : List Val) :
    filterLoop c xs = filterMapPrune c (fun v => Res.ok v) xs := by
  induction xs with
  | nil => rfl
  | cons x xs ih =>
    simp only [filterLoop, filterMapPrune]
    cases hc : c x <;> simp only [Res.ok_bind, Res.err_bind, Res.panic_bind, Res.nondet_bind, Res.unmodelled_bind]
    rename_i b
    rw [ih]
    cases hb : isTrue b
    · simp
    · cases hn : x.isNull <;> simp

/-- the identity function contributes no error category to `widen` -/
theorem widen_ok_right {α} (t : ATag) (xs : List Val) (c : Val → Res Val) (extra : List Cat) (r : Res α) :
    widen t xs [c, fun v => Res.ok v] extra r = widen t xs [c] extra r := by
  cases r <;> simp [widen]

theorem filterArray_eq (c : Val → Res Val) (v : Val) :
    filterArray c v = filterAndProjectArray c (fun v => Res.ok v) v := by
  cases v <;> simp only [filterArray, filterAndProjectArray]
  rw [widen_ok_right, filterLoop_eq]

theorem mapPrune_ok (xs : List Val) :
    mapPrune (fun v => Res.ok v) xs = Res.ok (xs.filter (fun x => !x.isNull)) := by
  induction xs with
  | nil => rfl
  | cons x xs ih =>
    simp only [mapPrune, ih, Res.ok_bind, Res.pure_eq, List.filter_cons]
    cases x.isNull <;> simp

theorem flattenForProject_filter (xs : List Val) :
    (flattenForProject xs).filter (fun x => !x.isNull) = flattenElems xs := by
  induction xs with
  | nil => rfl
  | cons x xs ih =>
    cases x <;> simp [flattenForProject, flattenElems, ih,
      show Val.null.isNull = true from rfl, show ∀ b, (Val.bool b).isNull = false from fun _ => rfl,
      show ∀ b, (Val.str b).isNull = false from fun _ => rfl, show ∀ b, (Val.num b).isNull = false from fun _ => rfl,
      show ∀ b, (Val.obj b).isNull = false from fun _ => rfl,
      show ∀ b, (Val.foreign b).isNull = false from fun _ => rfl]

theorem flatten_eq (v : Val) : Res.ok (flatten v) = flattenAndProjectArray (fun v => Res.ok v) v := by
  cases v <;> simp only [flatten, flattenAndProjectArray]
  rw [mapPrune_ok, flattenForProject_filter]
  rfl

theorem objectValues_eq (v : Val) : Res.ok (objectValues v) = projectObject (fun v => Res.ok v) v := by
  cases v <;> simp only [objectValues, projectObject]
  rw [mapPrune_ok]
  rfl

/-- a one-member hash: the unordered combination with the empty accumulator is just a map -/
theorem combineUnordered_nil (k : Bytes) (r : Res Val) :
    combineUnordered (Res.ok []) k r = (r >>= fun v => Res.ok [(k, v)]) := by
  cases r <;> rfl

/-! ## Part 3: refinement -/

mutual
theorem ieval_desugar (root : Val) : (n : INode) → (cur : Val) → (env : Env) →
    ieval root n cur env = seval root (desugar n) cur env
  | .lit v, cur, env => by simp only [ieval, desugar, seval]
  | .current, cur, env => by simp only [ieval, desugar, seval]
  | .root, cur, env => by simp only [ieval, desugar, seval]
  | .field k, cur, env => by simp only [ieval, desugar, seval]
  | .variable x, cur, env => by
    simp only [ieval, desugar, seval]
    cases env.get x <;> rfl
  | .binop op l r, cur, env => by
    simp only [ieval, desugar, seval, ieval_desugar root l, ieval_desugar root r]
  | .and l r, cur, env => by
    simp only [ieval, desugar, seval, ieval_desugar root l, ieval_desugar root r]
  | .or l r, cur, env => by
    simp only [ieval, desugar, seval, ieval_desugar root l, ieval_desugar root r]
  | .not c, cur, env => by
    simp only [ieval, desugar, seval, ieval_desugar root c]
  | .negate c, cur, env => by
    simp only [ieval, desugar, seval, ieval_desugar root c]
  | .assertNumber c, cur, env => by
    simp only [ieval, desugar, seval, ieval_desugar root c]
  | .call f args, cur, env => by
    simp only [ieval, desugar, seval, ievalList_desugar root args]
  | .defineVariables vars child, cur, env => by
    simp only [ieval, desugar, seval, ievalFields_desugar root vars, ieval_desugar root child]
  | .filter c f, cur, env => by
    simp only [ieval, desugar, seval, ieval_desugar root c, ieval_desugar root f, filterArray_eq]
  | .filterCurrent f, cur, env => by
    simp only [ieval, desugar, seval, ieval_desugar root f, filterArray_eq, Res.ok_bind]
  | .filterAndProject l f r, cur, env => by
    simp only [ieval, desugar, seval, ieval_desugar root l, ieval_desugar root f, ieval_desugar root r]
  | .filterAndProjectCurrent f c, cur, env => by
    simp only [ieval, desugar, seval, ieval_desugar root f, ieval_desugar root c, Res.ok_bind]
  | .flatten c, cur, env => by
    simp only [ieval, desugar, seval, ieval_desugar root c, Res.pure_eq, flatten_eq]
  | .flattenCurrent, cur, env => by
    simp only [ieval, desugar, seval, flatten_eq, Res.ok_bind]
  | .flattenAndProject l r, cur, env => by
    simp only [ieval, desugar, seval, ieval_desugar root l, ieval_desugar root r]
  | .flattenAndProjectCurrent c, cur, env => by
    simp only [ieval, desugar, seval, ieval_desugar root c, Res.ok_bind]
  | .index c i, cur, env => by
    simp only [ieval, desugar, seval, ieval_desugar root c]
  | .indexCurrent i, cur, env => by simp only [ieval, desugar, seval]
  | .smallIndexCurrent i, cur, env => by simp only [ieval, desugar, seval]
  | .objectValues c, cur, env => by
    simp only [ieval, desugar, seval, ieval_desugar root c, Res.pure_eq, objectValues_eq]
  | .objectValuesCurrent, cur, env => by
    simp only [ieval, desugar, seval, objectValues_eq, Res.ok_bind]
  | .pipe l r, cur, env => by
    simp only [ieval, desugar, seval, ieval_desugar root l, ieval_desugar root r]
  | .projectArray l r, cur, env => by
    simp only [ieval, desugar, ieval_desugar root l, ieval_desugar root r]
    cases hs : l.isSlice
    · simp only [seval, Bool.false_eq_true, if_false]
      apply Res.bind_congr
      intro a
      cases a <;> rfl
    · simp only [seval, if_true]
      apply Res.bind_congr
      intro a
      cases a <;> rfl
  | .projectArrayCurrent c, cur, env => by
    simp only [ieval, desugar, seval, ieval_desugar root c, Res.ok_bind]
  | .projectObject l r, cur, env => by
    simp only [ieval, desugar, seval, ieval_desugar root l, ieval_desugar root r]
  | .projectObjectCurrent c, cur, env => by
    simp only [ieval, desugar, seval, ieval_desugar root c, Res.ok_bind]
  | .pruneArray c, cur, env => by
    simp only [ieval, desugar, seval, ieval_desugar root c]
  | .pruneArrayCurrent, cur, env => by
    simp only [ieval, desugar, seval, Res.ok_bind, Res.pure_eq]
  | .selectArray c fs, cur, env => by
    simp only [ieval, desugar, seval, ieval_desugar root c, ievalList_desugar root fs, Bool.true_and,
      Res.pure_eq]
  | .selectArrayCurrent fs, cur, env => by
    simp only [ieval, desugar, seval, ievalList_desugar root fs, Bool.true_and]
  | .selectArraySingle c f, cur, env => by
    simp only [ieval, desugar, seval, sevalList, ieval_desugar root c, ieval_desugar root f, Bool.true_and,
      Res.pure_eq, Res.ok_bind, Res.bind_assoc]
  | .selectArraySingleCurrent f, cur, env => by
    simp only [ieval, desugar, seval, sevalList, ieval_desugar root f, Bool.false_and, Bool.false_eq_true, if_false,
      Res.pure_eq, Res.ok_bind, Res.bind_assoc]
  | .selectObject c fs, cur, env => by
    simp only [ieval, desugar, seval, ieval_desugar root c, ievalFields_desugar root fs, Bool.true_and,
      Res.pure_eq]
  | .selectObjectCurrent fs, cur, env => by
    simp only [ieval, desugar, seval, ievalFields_desugar root fs, Bool.true_and]
  | .selectObjectSingle c k f, cur, env => by
    simp only [ieval, desugar, seval, sevalFields, combineUnordered_nil, ieval_desugar root c, ieval_desugar root f,
      Bool.true_and, Res.pure_eq, Res.ok_bind, Res.bind_assoc]
  | .selectObjectSingleCurrent k f, cur, env => by
    simp only [ieval, desugar, seval, sevalFields, combineUnordered_nil, ieval_desugar root f, Bool.false_and,
      Bool.false_eq_true, if_false, Res.pure_eq, Res.ok_bind, Res.bind_assoc]
  | .slice c a b, cur, env => by
    simp only [ieval, desugar, seval, ieval_desugar root c]
  | .sliceCurrent a b, cur, env => by simp only [ieval, desugar, seval]
  | .sliceStep c a b s, cur, env => by
    simp only [ieval, desugar, seval, ieval_desugar root c]
  | .sliceStepCurrent a b s, cur, env => by simp only [ieval, desugar, seval]
  | .groupBy a e, cur, env => by
    simp only [ieval, desugar, seval, ieval_desugar root a, ieval_desugar root e]
  | .map e a, cur, env => by
    simp only [ieval, desugar, seval, ieval_desugar root a, ieval_desugar root e]
  | .maxBy a e, cur, env => by
    simp only [ieval, desugar, seval, ieval_desugar root a, ieval_desugar root e]
  | .minBy a e, cur, env => by
    simp only [ieval, desugar, seval, ieval_desugar root a, ieval_desugar root e]
  | .sortBy a e, cur, env => by
    simp only [ieval, desugar, seval, ieval_desugar root a, ieval_desugar root e]
  | .merge args, cur, env => by
    simp only [ieval, desugar, seval, ievalMerge_desugar root args]
  | .notNull args, cur, env => by
    simp only [ieval, desugar, seval, ievalNotNull_desugar root args]
  | .zip args, cur, env => by
    simp only [ieval, desugar, seval, ievalZip_desugar root args]
    apply Res.bind_congr
    intro vs
    apply Res.bind_congr
    intro cols
    cases cols <;> rfl
theorem ievalList_desugar (root : Val) : (ns : List INode) → (cur : Val) → (env : Env) →
    ievalList root ns cur env = sevalList root (desugarList ns) cur env
  | [], cur, env => by simp only [ievalList, desugarList, sevalList]
  | n :: ns, cur, env => by
    simp only [ievalList, desugarList, sevalList, ieval_desugar root n, ievalList_desugar root ns]
theorem ievalFields_desugar (root : Val) : (fs : List (Bytes × INode)) → (cur : Val) → (env : Env) →
    ievalFields root fs cur env = sevalFields root (desugarFields fs) cur env
  | [], cur, env => by simp only [ievalFields, desugarFields, sevalFields]
  | (k, n) :: rest, cur, env => by
    simp only [ievalFields, desugarFields, sevalFields, ieval_desugar root n, ievalFields_desugar root rest]
theorem ievalMerge_desugar (root : Val) : (ns : List INode) → (cur : Val) → (env : Env) →
    (acc : List (Bytes × Val)) →
    ievalMerge root ns cur env acc = sevalMerge root (desugarList ns) cur env acc
  | [], cur, env, acc => by simp only [ievalMerge, desugarList, sevalMerge]
  | n :: ns, cur, env, acc => by
    simp only [ievalMerge, desugarList, sevalMerge, ieval_desugar root n, ievalMerge_desugar root ns]
    apply Res.bind_congr
    intro v
    cases v <;> rfl
theorem ievalNotNull_desugar (root : Val) : (ns : List INode) → (cur : Val) → (env : Env) →
    ievalNotNull root ns cur env = sevalNotNull root (desugarList ns) cur env
  | [], cur, env => by simp only [ievalNotNull, desugarList, sevalNotNull]
  | n :: ns, cur, env => by
    simp only [ievalNotNull, desugarList, sevalNotNull, ieval_desugar root n, ievalNotNull_desugar root ns]
theorem ievalZip_desugar (root : Val) : (ns : List INode) → (cur : Val) → (env : Env) →
    ievalZip root ns cur env = sevalZip root (desugarList ns) cur env
  | [], cur, env => by simp only [ievalZip, desugarList, sevalZip]
  | n :: ns, cur, env => by
    simp only [ievalZip, desugarList, sevalZip, ieval_desugar root n, ievalZip_desugar root ns]
    apply Res.bind_congr
    intro v
    cases v <;> rfl
end

end Jmes

