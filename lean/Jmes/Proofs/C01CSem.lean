/-
  C01 (third wave) — an independent reference semantics of the JMESPath core language, defined directly on the parse
  trees of the declarative grammar (`Spec/Grammar.lean`: `PTree`).

  `Sem t root cur env` is the outcome of evaluating the tree `t` on the current node `cur`, in a document `root`, with
  the variable bindings `env`.  The core language (fields, indices, array slices, the five projections, multi-select,
  pipes, boolean operators, ordering comparisons, `let`) is written with `List.map`, `List.filterMap`, `List.flatMap`,
  `List.find?`, … only: none of the evaluator model's helpers for these constructs (`projectArray`,
  `flattenAndProjectArray`, `pruneArray`, `index`, `field`, `combineUnordered`, `widen`, …) occurs in it, and `desugar`
  does not either; the null rule of multi-select is a commented clause about the *text* ("written without a left operand
  and with exactly one member").

  Two things of the model / of the Go parser DO occur, beyond the list below (earlier versions of this comment said
  they did not):
    * `modelSlice` calls the model's `slice` / `sliceStep` with the parser's encoding of absent bounds
      (`C12.encStart` / `C12.encStop`).  `sliceOf` uses it for *strings* (their slices are the subject of C12B), and for
      arrays of more than `MaxInt` elements (no Go slice is that long); the slice of an array of a JSON document is the
      Python walk `pyWalk`, without the model.
    * `callSem` finds out WHICH builtin a name denotes by applying the parser's node constructor of the builtin table
      (`Parser.ArgSpec`) to dummy arguments and matching the result against the node types `INode.sortBy`, `.maxBy`,
      `.minBy`, `.groupBy`, `.call`, `.merge`, `.notNull`, `.zip`.  So node types of the Go parser are mentioned, as
      tags of the builtin table only: no node is ever evaluated, `ieval` does not occur.

  What IS shared with the model, on purpose (each is the subject of its own property):
    * the value type `Val` / outcome type `Res`, `objInsert` (the constructor of objects: members listed by key),
      `bytesLt` (the order of keys), `Cat.dedup` (a list of error categories without repetition);
    * the reading of tokens fixed by the grammar: `intOf` (integer literal), `keyOf` (member key),
      `Parser.lookupBuiltin` (which names are builtins and how they take their arguments);
    * number conversion and arithmetic: `toDecimal`, `Dec.less …`, `applyBinOp` for `+ - * / // %` and `==`/`!=` (C05, C20),
      `negateVal`, `isNumber`;
    * builtin functions: `applyFn`, and `sortArrayBy`, `arrayMaxBy`, `arrayMinBy`, `groupBy`, `mapArray`, `zipArgs`,
      `zipRows` (C02, C13);
    * literal decoding: `parseJSONLiteral`, `parseStringLiteral`, `parseQuotedIdentifier` (C18, C11);
    * slices of *strings* (C12B: `slice_string_spec`) through `slice` / `sliceStep`, and the Python walk `pyWalk` of
      `Spec/Slice.lean` for arrays.

  Clauses of `Sem` that follow the Go program where a reader of the JMESPath specification might expect something else
  are listed as theorems, each with the observed Go behaviour, in `Properties/C01E.lean` (section "Decisions"); the
  relation to a semantics with the null rule of the specification (`SemSpec`) is `C01E.search_eq_SemSpec`.

  Arrays whose element order is unspecified (Go ranges over a map: tag `.enum`): the semantics follows the convention
  of the model.  The tag is propagated; selecting by position from such an array of two or more elements is `.nondet`;
  an error met while ranging over one is widened to every category some element could report (`overOrders`).  On JSON
  documents (`.plain` arrays) none of this is visible until an object projection `*` or `keys`/`values`/`items` is used.
-/
import Jmes.Spec.Grammar
import Jmes.Spec.Slice
import Jmes.Model.Api
import Jmes.Properties.C12
namespace Jmes.C01C
open Jmes Jmes.Grammar Jmes.Spec

/-! ## Outcomes -/

/-- the outcome is a value -/
def isOk {α} : Res α → Bool
  | .ok _ => true
  | _ => false

def val? {α} : Res α → Option α
  | .ok a => some a
  | _ => none

def isPanic {α} : Res α → Bool
  | .panic _ => true
  | _ => false

def isUnmodelled {α} : Res α → Bool
  | .unmodelled _ => true
  | _ => false

def isNondet {α} : Res α → Bool
  | .nondet => true
  | _ => false

def errCats? {α} : Res α → Option (List Cat)
  | .err c => some c
  | _ => none

/-- the error categories of an outcome (none when it is not an error) -/
def errCats {α} (r : Res α) : List Cat := (errCats? r).getD []

/-- an outcome that does not depend on anything the model leaves open -/
def settled {α} : Res α → Bool
  | .ok _ => true
  | .err _ => true
  | _ => false

/-- a failure is a failure whatever type of value was expected (never applied to `.ok`) -/
def failAs {α β} : Res α → Res β
  | .ok _ => .nondet
  | .err c => .err c
  | .panic w => .panic w
  | .nondet => .nondet
  | .unmodelled w => .unmodelled w

/-- sub-expressions evaluated one after the other (elements of a multi-select list, arguments of a function, the
    elements of an array in a projection): all the values, or else the first failure -/
def inOrder {α} (rs : List (Res α)) : Res (List α) :=
  match rs.find? (fun r => !isOk r) with
  | some r => failAs r
  | none => .ok (rs.filterMap val?)

/-- the object with the given members -/
def objectOf (kvs : List (Bytes × Val)) : List (Bytes × Val) := kvs.foldr (fun kv acc => objInsert kv.1 kv.2 acc) []

/-- sub-expressions that Go keeps in a map and evaluates in map order, stopping at the first failure (the members of a
    multi-select hash, the bindings of a `let`): all the values, as an object; when some of them fail, *which* failure
    is met first depends on the order, and the convention of the model is: a panic if there is one (the last in key
    order), else a declined case, else `.nondet` if some outcome is, else the error categories of all failing members
    together. -/
def anyOrder (ms : List (Bytes × Res Val)) : Res (List (Bytes × Val)) :=
  let outs := ms.reverse.map Prod.snd
  match outs.find? isPanic with
  | some r => failAs r
  | none =>
    match outs.find? isUnmodelled with
    | some r => failAs r
    | none =>
      if outs.any isNondet then .nondet
      else
        match outs.filterMap errCats? with
        | [] => .ok (objectOf (ms.filterMap fun m => (val? m.2).map fun v => (m.1, v)))
        | [cs] => .err cs
        | c1 :: c2 :: css => .err (Cat.dedup (c1 :: c2 :: css).flatten)

/-- insert a member into a list kept by key; a key that is there already gets the new member -/
def insertLast {α} (k : Bytes) (a : α) : List (Bytes × α) → List (Bytes × α)
  | [] => [(k, a)]
  | (k', a') :: rest =>
    if k = k' then (k, a) :: rest
    else if bytesLt k k' then (k, a) :: (k', a') :: rest
    else (k', a') :: insertLast k a rest

/-- the members of a multi-select hash (the bindings of a `let`) as a map: listed by key, and a key written twice keeps
    what was written last -/
def byKey {α} (ms : List (Bytes × α)) : List (Bytes × α) := ms.foldl (fun acc m => insertLast m.1 m.2 acc) []

/-! ## Values -/

/-- JMESPath truth: `null`, `false`, the empty string, the empty array and the empty object are false, everything
    else is true (a `json.Number` with empty text is not JSON; Go's zero value of that type counts as false) -/
def truthy : Val → Bool
  | .null => false
  | .bool b => b
  | .str s => !s.isEmpty
  | .arr _ xs => !xs.isEmpty
  | .obj kvs => !kvs.isEmpty
  | .num (.jnum t) => !t.isEmpty
  | _ => true

/-- the member `k` of an association list -/
def lookup (k : Bytes) (kvs : List (Bytes × Val)) : Option Val := (kvs.find? fun kv => kv.1 == k).map Prod.snd

/-- `cur.k`: the member `k` of an object; `null` when there is none or `cur` is not an object -/
def fieldOf (k : Bytes) (cur : Val) : Val :=
  match cur with
  | .obj kvs => (lookup k kvs).getD .null
  | _ => .null

/-- the order of the elements is unspecified, and there are at least two of them -/
def unordered (t : ATag) (n : Nat) : Bool := t == .enum && decide (2 ≤ n)

/-- `cur[i]`: the element at `i`, counted from the end when `i` is negative; `null` when out of range or `cur` is not
    an array -/
def indexOf (cur : Val) (i : Int) : Res Val :=
  match cur with
  | .arr t xs =>
    let j := if i < 0 then i + xs.length else i
    if j < 0 ∨ (xs.length : Int) ≤ j then .ok .null
    else if unordered t xs.length then .nondet
    else .ok (xs.getD j.toNat .null)
  | _ => .ok .null

/-- the slice of the MODEL (`slice` / `sliceStep`), with the parser's encoding of absent bounds; used by `sliceOf` for
    strings, and for arrays longer than `MaxInt` (which no Go slice is) -/
def modelSlice (v : Val) (a b : Option Int) (step : Int) : Res Val :=
  if step = 1 then slice v (C12.encStart 1 a) (C12.encStop 1 b)
  else sliceStep v (C12.encStart step a) (C12.encStop step b) step

/-- `cur[a:b:step]`: on an array, the elements at the indices of the Python walk `range(*slice(a,b,step).indices(n))`,
    in a new array; on a string, the string of the code points at those indices (C12B); `null` otherwise -/
def sliceOf (cur : Val) (a b : Option Int) (step : Int) : Res Val :=
  match cur with
  | .arr t xs =>
    if (xs.length : Int) ≤ MaxInt then
      let is := pyWalk xs.length a b step
      if is.isEmpty then .ok (.arr .plain [])
      else if unordered t xs.length then .nondet
      else .ok (.arr .plain (is.map fun i => xs.getD i.toNat .null))
    else modelSlice cur a b step   -- a Go slice never has more than `MaxInt` elements
  | .str _ => modelSlice cur a b step
  | _ => .ok .null

/-- the ordering operators `< <= > >=`: defined on two numbers, `null` otherwise (strings are not ordered) -/
def orderOp (f : Dec → Dec → Bool) (a b : Val) : Val :=
  match toDecimal a, toDecimal b with
  | some x, some y => .bool (f x y)
  | _, _ => .null

def dropNulls (vs : List Val) : List Val := vs.filter fun v => !v.isNull

/-- the tag of an array computed element by element from an array tagged `t` -/
def elemTag : ATag → ATag
  | .enum => .enum
  | _ => .plain

/-- the member values of an object (nulls dropped), in unspecified order; `null` for anything else -/
def valuesOf : Val → Val
  | .obj kvs => .arr .enum (dropNulls (kvs.map Prod.snd))
  | _ => .null

/-- An error met while ranging over elements: when their order is unspecified (`unord`), another order could have met
    another failing element first, so the outcome is widened to the categories of all `cands` (the outcomes of the
    sub-expressions on the elements), or to `.nondet` when one of those is not settled itself. -/
def overOrders {α} (unord : Bool) (cands : List (Res Val)) (r : Res α) : Res α :=
  match r with
  | .err cs =>
    if unord then
      if cands.all settled then .err (Cat.dedup (cs ++ cands.flatMap errCats)) else .nondet
    else .err cs
  | r => r

/-- **projection**: apply `f` to every element, drop the nulls -/
def project (t : ATag) (xs : List Val) (f : Val → Res Val) : Res Val :=
  overOrders (unordered t xs.length) (xs.map f)
    (inOrder (xs.map f) >>= fun vs => .ok (.arr (elemTag t) (dropNulls vs)))

/-- **filter projection**: keep the elements on which `c` is true, apply `f` to them, drop the nulls.
    (The candidates for widening are, as in the model, `c` and `f` on every element.) -/
def filterProject (t : ATag) (xs : List Val) (c f : Val → Res Val) : Res Val :=
  overOrders (unordered t xs.length) (xs.flatMap fun x => [c x, f x])
    (inOrder (xs.map fun x => c x >>= fun b => if truthy b then (f x >>= fun p => .ok (some p)) else .ok none)
      >>= fun os => .ok (.arr (elemTag t) (dropNulls (os.filterMap id))))

/-- one level of flattening: an element that is an array is replaced by its elements -/
def flatOnce (xs : List Val) : List Val :=
  xs.flatMap fun x => match x with
    | .arr _ ys => ys
    | _ => [x]

/-- the order of the flattened elements is unspecified when that of the array or of one of its elements is -/
def flatUnordered (t : ATag) (xs : List Val) : Bool :=
  unordered t xs.length || xs.any fun x => match x with
    | .arr t' ys => unordered t' ys.length
    | _ => false

/-- **flatten projection**: flatten one level, apply `f` to every element, drop the nulls.
    (The candidates for widening are, as in the model, `f` on every element and on `null`.) -/
def flatProject (t : ATag) (xs : List Val) (f : Val → Res Val) : Res Val :=
  let tag : ATag := if flatUnordered t xs then .enum else .plain
  overOrders (flatUnordered t xs) ((flatOnce xs ++ [Val.null, Val.null]).map f)
    (inOrder ((flatOnce xs).map f) >>= fun vs => .ok (.arr tag (dropNulls vs)))

/-! ## Tokens -/

/-- the arithmetic and equality operators, which are specified elsewhere (C05, C20) -/
def arithOp : TokenType → Option BinOp
  | .equal => some .eq
  | .notEqual => some .ne
  | .add => some .add
  | .subtract => some .sub
  | .asterisk | .multiply => some .mul
  | .divide => some .div
  | .integerDivide => some .idiv
  | .modulo => some .mod
  | _ => none

/-- the ordering operators -/
def orderTok : TokenType → Option (Dec → Dec → Bool)
  | .less => some Dec.less
  | .lessOrEqual => some Dec.lessEq
  | .greater => some Dec.greater
  | .greaterOrEqual => some Dec.greaterEq
  | _ => none

/-- identifiers, literals, `@`, `$`, `$name` -/
def atomSem (tok : Token) (root cur : Val) (env : Env) : Res Val :=
  match tok.type with
  | .unquotedIdentifier => .ok (fieldOf tok.value cur)
  | .quotedIdentifier =>
    (match parseQuotedIdentifier tok.value with
     | some k => .ok (fieldOf k cur)
     | none => .ok cur)
  | .stringLiteral => .ok (.str (parseStringLiteral tok.value))
  | .jsonLiteral =>
    (match parseJSONLiteral tok.value with
     | some v => .ok v
     | none => .ok cur)
  | .variable =>
    (match lookup tok.value env with
     | some v => .ok v
     | none => .err [Cat.undefinedVariable])
  | .current => .ok cur
  | .root => .ok root
  | _ => .ok cur

/-! ## Function calls

  `fs` are the meanings of the argument expressions (functions of the current node).  The functions themselves are those
  of the model. -/

/-- `merge`: the arguments one after the other, each of which must be an object -/
def mergeSem (rs : List (Res Val)) : Res Val :=
  inOrder (rs.map fun r => r >>= fun v => match v with
    | .obj kvs => .ok kvs
    | _ => errType)
  >>= fun os => .ok (.obj (os.foldl (fun acc kvs => kvs.foldl (fun a kv => objInsert kv.1 kv.2 a) acc) []))

/-- `not_null`: the first argument that is not null; arguments after it are not evaluated -/
def notNullSem (rs : List (Res Val)) : Res Val :=
  match rs.find? (fun r => match r with
    | .ok v => !v.isNull
    | _ => true) with
  | some r => r
  | none => .ok .null

/-- `zip`: the arguments one after the other, each of which must be an array; then the rows -/
def zipSem (rs : List (Res Val)) : Res Val :=
  inOrder (rs.map fun r => r >>= fun v => match v with
    | .arr _ _ => .ok v
    | _ => errType)
  >>= fun vs => zipArgs vs >>= fun cols =>
    match cols with
    | [] => .ok (.arr .plain [])
    | c :: cs => .ok (.arr .plain (zipRows (cs.foldl (fun m x => min m x.length) c.length) cols))

/-- a builtin applied to its arguments -/
def callSem (spec : Parser.ArgSpec) (fs : List (Val → Res Val)) (cur : Val) : Res Val :=
  match spec, fs with
  | .expArg mk, [a, e] =>
    a cur >>= fun v =>
      (match mk .current .current with
       | .sortBy _ _ => sortArrayBy e v
       | .maxBy _ _ => arrayMaxBy e v
       | .minBy _ _ => arrayMinBy e v
       | .groupBy _ _ => groupBy e v
       | _ => .ok cur)
  | .mapArg _, [e, a] => a cur >>= fun v => mapArray e v
  | .fixed _ _ mk, fs | .varArg mk, fs =>
    (match mk (fs.map fun _ => .current) with
     | .call f _ => inOrder (fs.map (· cur)) >>= applyFn f
     | .merge _ => mergeSem (fs.map (· cur))
     | .notNull _ => notNullSem (fs.map (· cur))
     | .zip _ => zipSem (fs.map (· cur))
     | _ => .ok cur)
  | _, _ => .ok cur

/-! ## The semantics -/

mutual
/-- **`Sem t root cur env`**: the outcome of the expression `t` on the current node `cur` -/
def Sem : PTree → Val → Val → Env → Res Val
  -- the implicit current node at the start of a right-hand side; `@`
  | .icur, _, cur, _ => .ok cur
  | .atom tok, root, cur, env => atomSem tok root cur env
  | .paren t, root, cur, env => Sem t root cur env
  | .not t, root, cur, env => Sem t root cur env >>= fun a => .ok (.bool (!truthy a))
  | .neg _ t, root, cur, env => Sem t root cur env >>= fun a => .ok (negateVal a)
  | .pos t, root, cur, env => Sem t root cur env >>= fun a => .ok (if isNumber a then a else .null)
  | .bin op l r, root, cur, env =>
    (match op.type with
     -- `l | r`: `r` on the value of `l`
     | .pipe => Sem l root cur env >>= fun a => Sem r root a env
     -- `l || r`: `l` if it is true, else `r`;  `l && r`: `l` if it is false, else `r`
     | .or => Sem l root cur env >>= fun a => if truthy a then .ok a else Sem r root cur env
     | .and => Sem l root cur env >>= fun a => if truthy a then Sem r root cur env else .ok a
     | ty =>
       Sem l root cur env >>= fun a => Sem r root cur env >>= fun b =>
         (match orderTok ty with
          | some f => .ok (orderOp f a b)
          | none =>
            match arithOp ty with
            | some o => applyBinOp o a b
            | none => .ok a))
  -- `l.r`: `r` on the value of `l`
  | .dotId l r, root, cur, env => Sem l root cur env >>= fun a => Sem r root a env
  -- `l.[e, …]`, and `[e, …]` below: the list of the values of the members, on the value of `l`.
  -- NULL RULE, as the Go code has it (known finding KF10): a multi-select on `null` is `null` — except when it is
  -- written without a left operand AND has exactly one member (`[e]`, and `x[*].[e]` in a right-hand side): then the
  -- member is evaluated on `null` as on any other value.
  | .dotList l es, root, cur, env =>
    Sem l root cur env >>= fun a =>
      if a.isNull && !(l.isIcur && es.length == 1) then .ok .null
      else inOrder ((SemL es root env).map (· a)) >>= fun vs => .ok (.arr .plain vs)
  | .multiList es, root, cur, env =>
    if cur.isNull && !(es.length == 1) then .ok .null
    else inOrder ((SemL es root env).map (· cur)) >>= fun vs => .ok (.arr .plain vs)
  -- `l.{k: e, …}`, `{k: e, …}`: the object of the values of the members; the same null rule
  | .dotHash l kvs, root, cur, env =>
    Sem l root cur env >>= fun a =>
      if a.isNull && !(l.isIcur && kvs.length == 1) then .ok .null
      else anyOrder (byKey (SemKVs keyOf kvs root a env)) >>= fun ms => .ok (.obj ms)
  | .multiHash kvs, root, cur, env =>
    if cur.isNull && !(kvs.length == 1) then .ok .null
    else anyOrder (byKey (SemKVs keyOf kvs root cur env)) >>= fun ms => .ok (.obj ms)
  -- `l.[*]`: the one-member list of `*`; the same null rule
  | .dotStarList l, root, cur, env =>
    Sem l root cur env >>= fun a =>
      if a.isNull && !l.isIcur then .ok .null
      else
        .ok (.arr .plain [valuesOf a])
  | .index l n, root, cur, env => Sem l root cur env >>= fun a => indexOf a ((intOf n).getD 0)
  | .call name args, root, cur, env =>
    (match Parser.lookupBuiltin name.value with
     | some spec => callSem spec (SemL args root env) cur
     | none => .ok cur)
  -- `&e`: the expression itself, handed to the builtin
  | .ref t, root, cur, env => Sem t root cur env
  -- `let $x = e, … in body`: the bindings are evaluated in the scope of the `let` (they do not see each other), the body
  -- in the scope extended by them; inner bindings shadow outer ones
  | .letIn bs body, root, cur, env =>
    anyOrder (byKey (SemKVs Token.value bs root cur env)) >>= fun vs => Sem body root cur (vs ++ env)
  -- `l[*] rhs`: if the value of `l` is an array, `rhs` on every element, nulls dropped; else null.
  | .star l rhs, root, cur, env =>
    Sem l root cur env >>= fun a =>
      match a with
      | .arr t xs =>
        -- nothing after `[*]`: Go hands back the array itself when there is no null to drop (this matters for the tag)
        if rhs.isIcur && !xs.any Val.isNull then .ok (.arr t xs)
        else project t xs fun x => Sem rhs root x env
      | _ => .ok .null
  -- `l.* rhs`: if the value of `l` is an object, `rhs` on every member value, nulls dropped; else null
  | .ostar l rhs, root, cur, env =>
    Sem l root cur env >>= fun a =>
      match a with
      | .obj kvs => project .enum (kvs.map Prod.snd) fun x => Sem rhs root x env
      | _ => .ok .null
  -- `l[] rhs`: if the value of `l` is an array, flatten it one level, then `rhs` on every element, nulls dropped
  | .flat l rhs, root, cur, env =>
    Sem l root cur env >>= fun a =>
      match a with
      | .arr t xs => flatProject t xs fun x => Sem rhs root x env
      | _ => .ok .null
  -- `l[?c] rhs`: if the value of `l` is an array, `rhs` on every element on which `c` is true, nulls dropped
  | .filt l c rhs, root, cur, env =>
    Sem l root cur env >>= fun a =>
      match a with
      | .arr t xs => filterProject t xs (fun x => Sem c root x env) (fun x => Sem rhs root x env)
      | _ => .ok .null
  -- `l[a:b:c] rhs`: the slice of the value of `l`; a slice of an array is projected, a slice of a string is handed to
  -- `rhs` as it is
  | .slice l a b c rhs, root, cur, env =>
    Sem l root cur env >>= fun v =>
      sliceOf v (a.bind intOf) (b.bind intOf) ((c.bind fun s => s.bind intOf).getD 1) >>= fun s =>
        match s with
        | .arr t xs => project t xs fun x => Sem rhs root x env
        | .str _ => Sem rhs root s env
        | _ => .ok .null
/-- the meanings of a list of expressions, as functions of the current node -/
def SemL : List PTree → Val → Env → List (Val → Res Val)
  | [], _, _ => []
  | e :: es, root, env => (fun x => Sem e root x env) :: SemL es root env
/-- the outcomes of the members of a multi-select hash / of the bindings of a `let`, in the order written -/
def SemKVs (key : Token → Bytes) : List (Token × PTree) → Val → Val → Env → List (Bytes × Res Val)
  | [], _, _, _ => []
  | (k, e) :: rest, root, cur, env => (key k, Sem e root cur env) :: SemKVs key rest root cur env
end

end Jmes.C01C
