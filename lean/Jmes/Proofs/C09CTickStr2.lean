/-
  C09, third wave — continuation of `C09CTickStr.lean`: `reverse` (functions.go) and `join` (string.go) in the
  tick-writer monad.  Same conventions: every Go loop is a `forT` with the Go loop's trip count and guard (file:line as of
  the current /repo in the doc comment), `make`/`Grow` is `allocT`, builder writes are `writeT`/`writeRuneT`;
  `fT_fst : (fT x).1 = f x` for the existing model function `f`, `fT_snd_le` for the ticks.
-/
import Jmes.Proofs.C09CTickStr
set_option linter.unusedSimpArgs false
set_option linter.unusedVariables false
namespace Jmes.C09C
open Jmes

/-! ## `reverse` -/

/-- the body of functions.go:96: `r, sz := utf8.DecodeLastRuneInString(s); b.WriteRune(r); s = s[:len(s)-sz]`;
    the state is `(s, b)` -/
def revStrBody (st : Bytes × Bytes) : T (Bytes × Bytes) := do
  let (r, sz) := decodeLastRune st.1
  let b ← writeRuneT st.2 r
  pure (st.1.take (st.1.length - sz), b)

/-- functions.go:96 `for len(s) > 0 { … }`: a guard-only loop; the counter bound of `forT` is any `f ≥ len(s)` and is
    never the reason the loop ends (`revStrLoop`: the final state has `s = ""`) -/
def revStrLoopT (f : Nat) (s b : Bytes) : T (Bytes × Bytes) :=
  forT (fun st => decide (st.1.length > 0)) revStrBody f (s, b)

/-- the string branch of `reverse`, functions.go:92-103 -/
def revStrT (s : Bytes) : T Bytes := do
  allocT s.length                                          -- functions.go:94 `b.Grow(len(s))`
  let st ← revStrLoopT s.length s []                       -- functions.go:96
  pure st.2

theorem revStrBody_eq (s b : Bytes) : revStrBody (s, b) =
    ⟨(s.take (s.length - (decodeLastRune s).2), b ++ encodeRune (decodeLastRune s).1),
     (encodeRune (decodeLastRune s).1).length⟩ := by
  apply T.ext <;> simp [revStrBody]

/-- for every counter bound `f ≥ len(s)`: the loop ends with `s` exhausted (so by its guard), has appended the
    model's `reverseRunes`, and cost one tick per code point decoded from the back plus the bytes written -/
theorem revStrLoop : ∀ (f : Nat) (s b : Bytes), s.length ≤ f →
    revStrLoopT f s b = ⟨([], b ++ reverseRunes f s), Cost.backCount s + (reverseRunes f s).length⟩ := by
  intro f
  induction f with
  | zero =>
    intro s b h
    have : s = [] := List.eq_nil_of_length_eq_zero (by omega)
    subst this; simp [revStrLoopT, forT, reverseRunes, C09.backCount_nil]; rfl
  | succ f ih =>
    intro s b h
    unfold revStrLoopT at ih ⊢
    by_cases hne : s = []
    · subst hne
      rw [forT_stop _ _ _ _ (by simp), Utf8.reverseRunes_nil]; simp [C09.backCount_nil]; rfl
    · have hl := C09.length_pos_of_ne_nil hne
      have hp := C09.decodeLastRune_pos s hne
      have hg : (fun (st : Bytes × Bytes) => decide (st.1.length > 0)) (s, b) = true := by simp; omega
      have hlen : (s.take (s.length - (decodeLastRune s).2)).length ≤ f := by rw [List.length_take]; omega
      apply T.ext
      · rw [forT_succ_fst (fun (st : Bytes × Bytes) => decide (st.1.length > 0)) _ _ _ hg, revStrBody_eq, mk_fst,
          ih _ _ hlen, Utf8.reverseRunes_succ _ _ hne]
        simp
      · rw [forT_succ_snd (fun (st : Bytes × Bytes) => decide (st.1.length > 0)) _ _ _ hg, revStrBody_eq, mk_fst,
          mk_snd, ih _ _ hlen, Utf8.reverseRunes_succ _ _ hne, C09.backCount_step s hne]
        simp only [mk_snd, List.length_append]; omega

/-- the reversed string never has more than four bytes per code point decoded -/
theorem revStr_length_le : ∀ (f : Nat) (s : Bytes), s.length ≤ f → (reverseRunes f s).length ≤ 4 * Cost.backCount s := by
  intro f
  induction f with
  | zero => intro s h; simp [reverseRunes]
  | succ f ih =>
    intro s h
    by_cases hne : s = []
    · subst hne; rw [Utf8.reverseRunes_nil]; simp
    · have hp := C09.decodeLastRune_pos s hne
      have hl := C09.length_pos_of_ne_nil hne
      rw [Utf8.reverseRunes_succ _ _ hne, C09.backCount_step s hne, List.length_append]
      have := ih (s.take (s.length - (decodeLastRune s).2)) (by rw [List.length_take]; omega)
      have := Utf8.encodeRune_length_le (decodeLastRune s).1
      omega

theorem revStrT_fst (s : Bytes) : (revStrT s).1 = reverseRunes s.length s := by
  simp [revStrT, revStrLoop s.length s [] (Nat.le_refl _)]

/-- `Grow(len(s))`, one tick per code point, the bytes of the result -/
theorem revStrT_snd (s : Bytes) :
    (revStrT s).2 = s.length + (Cost.backCount s + (reverseRunes s.length s).length) := by
  simp [revStrT, revStrLoop s.length s [] (Nat.le_refl _)]

theorem revStrT_snd_le (s : Bytes) : (revStrT s).2 ≤ 6 * s.length := by
  rw [revStrT_snd]
  have := revStr_length_le s.length s (Nat.le_refl _)
  have := C09.backCount_le_length _ s (Nat.le_refl _)
  omega

example : revStrT [0x68, 0xC3, 0xA9] = ⟨[0xC3, 0xA9, 0x68], 3 + (2 + 3)⟩ := by decide

/-- the body of functions.go:108: `r[j] = a[i]`; the state is `(i, j, r)` -/
def revArrBody (a : List Val) (st : Nat × Int × List Val) : T (Nat × Int × List Val) :=
  pure (st.1 + 1, st.2.1 - 1, st.2.2.set st.2.1.toNat (a.getD st.1 .null))

/-- functions.go:108 `for i, j := 0, l-1; i < l; i, j = i+1, j-1 { r[j] = a[i] }`: `n` iterations from `(i, j, r)` -/
def revArrLoopT (a : List Val) (n : Nat) (i : Nat) (j : Int) (r : List Val) : T (Nat × Int × List Val) :=
  forT (fun _ => true) (revArrBody a) n (i, j, r)

/-- the array branch of `reverse`, functions.go:105-113 -/
def revArrT (a : List Val) : T (List Val) := do
  let l := a.length
  allocT l                                                 -- functions.go:107 `r := make([]any, l)`
  let st ← revArrLoopT a l 0 ((l : Int) - 1) (List.replicate l .null)   -- functions.go:108
  pure st.2.2

theorem revArr_set (x y : Val) (X : List Val) : ∀ m : Nat,
    (List.replicate (m + 1) x ++ X).set m y = List.replicate m x ++ y :: X := by
  intro m
  induction m with
  | zero => rfl
  | succ m ih =>
    rw [List.replicate_succ, List.cons_append, List.set_cons_succ, ih]; rfl

theorem revArr_take_succ (a : List Val) (k : Nat) (h : k < a.length) :
    (a.take (k + 1)).reverse = a.getD k .null :: (a.take k).reverse := by
  rw [List.take_add_one, List.reverse_append]
  have : a[k]? = some (a.getD k .null) := by
    rw [List.getD_eq_getElem?_getD, List.getElem?_eq_getElem h]; rfl
  rw [this]; rfl

/-- the loop invariant: after `k` iterations the last `k` cells hold the first `k` elements reversed; after the
    remaining `n = l - k` iterations the slice is the reversed array, `n` ticks later -/
theorem revArrLoop (a : List Val) : ∀ (n k : Nat), k + n = a.length →
    revArrLoopT a n k ((a.length : Int) - 1 - k) (List.replicate n .null ++ (a.take k).reverse)
      = ⟨(a.length, -1, a.reverse), n⟩ := by
  intro n
  induction n with
  | zero =>
    intro k h
    have hk : k = a.length := by omega
    subst hk
    have e1 : ((a.length : Int) - 1 - (a.length : Nat)) = -1 := by omega
    rw [e1, List.take_length]
    rfl
  | succ n ih =>
    intro k h
    unfold revArrLoopT at ih ⊢
    have hj : ((a.length : Int) - 1 - k).toNat = n := by omega
    have hb : revArrBody a (k, (a.length : Int) - 1 - k, List.replicate (n + 1) .null ++ (a.take k).reverse)
        = ⟨(k + 1, (a.length : Int) - 1 - (k + 1 : Nat), List.replicate n .null ++ (a.take (k + 1)).reverse), 0⟩ := by
      unfold revArrBody
      simp only [hj, revArr_set, revArr_take_succ a k (by omega)]
      apply T.ext
      · simp only [pure_fst, mk_fst, Prod.mk.injEq, true_and, and_true]; omega
      · rfl
    apply T.ext
    · rw [forT_succ_fst _ _ _ _ rfl, hb, mk_fst, ih (k + 1) (by omega)]
    · rw [forT_succ_snd _ _ _ _ rfl, hb, mk_fst, mk_snd, ih (k + 1) (by omega)]
      simp only [mk_snd]; omega

theorem revArrT_eq (a : List Val) : revArrT a = ⟨a.reverse, 2 * a.length⟩ := by
  have h := revArrLoop a a.length 0 (by omega)
  simp only [List.take_zero, List.reverse_nil, List.append_nil, Int.natCast_zero, Int.sub_zero] at h
  apply T.ext
  · simp only [revArrT, bind_fst, pure_fst, h]
  · simp only [revArrT, bind_snd, bind_fst, allocT_snd, pure_snd, h]; omega

example : revArrT [.null, .bool true, .str [0x61]] = ⟨[.str [0x61], .bool true, .null], 6⟩ := by
  rw [revArrT_eq]; rfl

/-- `reverse(v)`, all of functions.go:91-119 -/
def reverseT (v : Val) : T (Res Val) :=
  match v with
  | .str s => do let r ← revStrT s; pure (.ok (.str r))             -- functions.go:92-103
  | .arr t xs => do let r ← revArrT xs; pure (.ok (.arr t.derived r))   -- functions.go:105-113
  | _ => pure errType                                                -- functions.go:115

/-- the instrumented `reverse` returns exactly the model's `reverse`, on ALL values -/
theorem reverseT_fst (v : Val) : (reverseT v).1 = reverse v := by
  cases v with
  | str s => simp [reverseT, reverse, revStrT_fst]
  | arr t xs => simp [reverseT, reverse, revArrT_eq]
  | _ => rfl

/-- size of the subject of `reverse`: bytes of a string, length of an array -/
def revSize : Val → Nat
  | .str s => s.length
  | .arr _ xs => xs.length
  | _ => 0

/-- `reverse(v)`: at most `6·|s|` ticks on a string (`Grow`, one iteration per code point — it is the guard
    `len(s) > 0` that ends the loop —, at most 4 bytes written per code point), exactly `2·length` on an array
    (`make` and one iteration per element) -/
theorem reverseT_snd_le (v : Val) : (reverseT v).2 ≤ 6 * (revSize v + 1) := by
  cases v with
  | str s =>
    simp only [reverseT, bind_snd, pure_snd, revSize]
    have := revStrT_snd_le s; omega
  | arr t xs =>
    simp only [reverseT, bind_snd, pure_snd, revSize, revArrT_eq, mk_snd]; omega
  | _ => simp [reverseT]

/-- reverse("hé") = "éh": Grow 3, two iterations, 3 bytes written -/
example : reverseT (.str [0x68, 0xC3, 0xA9]) = ⟨.ok (.str [0xC3, 0xA9, 0x68]), 3 + (2 + 3)⟩ :=
  T.ext (by rfl) (by decide)
example : reverseT (.num (.int .i64 (2 ^ 62))) = ⟨errType, 0⟩ := rfl

/-- NOT a Go-expressible mutant.  functions.go:96 `for len(s) > 0 { … }` has no counter: its guard is its only loop
    condition, and without it the loop is `for { … }`, which does not terminate.  `revNoGuardT f` is that
    non-terminating loop CUT OFF after `f` iterations by the mirror's own counter (a counter Go does not have).  What
    `revNoGuardT_cost_ge` says about the unguarded loop: it performs every number `f` of iterations on every string,
    so it has no finite cost (`C09E.revNoGuard_no_finite_cost`: `∀ c, ∃ f, c < cost`) — the guard is what ties the
    loop to `|s|`. -/
def revNoGuardT (f : Nat) (s b : Bytes) : T (Bytes × Bytes) :=
  forT (fun _ => true) revStrBody f (s, b)

theorem revNoGuardT_cost_ge : ∀ (f : Nat) (s b : Bytes), f ≤ (revNoGuardT f s b).2 := by
  intro f
  induction f with
  | zero => intro s b; exact Nat.zero_le _
  | succ f ih =>
    intro s b
    unfold revNoGuardT at ih ⊢
    rw [forT_succ_snd _ _ _ _ rfl, revStrBody_eq, mk_fst, mk_snd]
    have := ih (s.take (s.length - (decodeLastRune s).2)) (b ++ encodeRune (decodeLastRune s).1)
    omega

example : 2 ^ 62 ≤ (revNoGuardT (2 ^ 62) [] []).2 := revNoGuardT_cost_ge _ _ _

/-! ## `join` -/

/-- what the loop of `join` appends after the first element: separator, element, separator, element … -/
def joinTail (sep : Bytes) : List Bytes → Bytes
  | [] => []
  | e :: rest => sep ++ e ++ joinTail sep rest

theorem joinStrs_cons (sep : Bytes) : ∀ (ss : List Bytes) (e : Bytes),
    joinStrs sep (e :: ss) = e ++ joinTail sep ss := by
  intro ss
  induction ss with
  | nil => intro e; simp [joinStrs, joinTail]
  | cons e1 ss ih =>
    intro e
    rw [joinStrs, ih e1]
    · simp [joinTail, List.append_assoc]
    · intro h; cases h

/-- the body of string.go:488: `e, ok := i.(string); if !ok { return nil, err }; b.WriteString(s); b.WriteString(e)`;
    the state is (elements still to visit, builder) -/
def joinBody (s : Bytes) (st : List Val × Bytes) : T (Ctl (List Val × Bytes)) :=
  match st.1 with
  | .str e :: t => do
    let b ← writeT st.2 s                                  -- string.go:497
    let b ← writeT b e                                     -- string.go:498
    pure (.next (t, b))
  | _ => pure (.brk st)                                    -- string.go:490-495

/-- string.go:488 `for _, i := range a[1:] { … }`: `len(a) - 1` iterations unless a non-string is met -/
def joinLoopT (s : Bytes) (rest : List Val) (b : Bytes) : T (Ctl (List Val × Bytes)) :=
  forBrkT (joinBody s) rest.length (rest, b)

/-- the builder, when the loop ran to its end -/
def joinOut : Ctl (List Val × Bytes) → Option Bytes
  | .next st => some st.2
  | .brk _ => none

/-- bytes of the string elements of an array -/
def joinStrBytes : List Val → Nat
  | [] => 0
  | x :: rest => strLen x + joinStrBytes rest

theorem joinBody_str (s e : Bytes) (t : List Val) (b : Bytes) :
    joinBody s (.str e :: t, b) = ⟨.next (t, b ++ s ++ e), s.length + e.length⟩ := by
  apply T.ext <;> simp [joinBody]

/-- the loop runs to its end exactly when the model's `allStrings` succeeds, and then the builder holds the model's
    separators and elements, `len` iterations and the bytes written later; in any case the ticks are bounded by the
    elements visited and the bytes of the inputs -/
theorem joinLoop (s : Bytes) : ∀ (rest : List Val) (b : Bytes),
    joinOut (joinLoopT s rest b).1 = (allStrings rest).map (fun ss => b ++ joinTail s ss) ∧
    (∀ ss, allStrings rest = some ss → (joinLoopT s rest b).2 = rest.length + (joinTail s ss).length) ∧
    (joinLoopT s rest b).2 ≤ rest.length * (1 + s.length) + joinStrBytes rest := by
  intro rest
  induction rest with
  | nil =>
    intro b
    refine ⟨?_, ?_, ?_⟩
    · simp [joinLoopT, forBrkT, joinOut, allStrings, joinTail]
    · intro ss h; simp [allStrings] at h; subst h; rfl
    · simp [joinLoopT, forBrkT]
  | cons x t ih =>
    intro b
    unfold joinLoopT at ih ⊢
    rw [List.length_cons, forBrkT_succ_fst, forBrkT_succ_snd]
    cases x with
    | str e =>
      rw [joinBody_str]
      simp only [mk_fst, mk_snd]
      obtain ⟨h1, h2, h3⟩ := ih (b ++ s ++ e)
      refine ⟨?_, ?_, ?_⟩
      · rw [h1]; simp only [allStrings]
        cases allStrings t with
        | none => rfl
        | some ss => simp [joinTail, List.append_assoc]
      · intro ss h
        simp only [allStrings] at h
        cases ht : allStrings t with
        | none => rw [ht] at h; cases h
        | some ss' =>
          rw [ht] at h; simp at h; subst h
          rw [h2 ss' ht]; simp [joinTail]; omega
      · simp only [joinStrBytes, strLen]
        rw [Nat.succ_mul]; omega
    | _ =>
      refine ⟨?_, ?_, ?_⟩
      · simp [joinBody, joinOut, allStrings]
      · intro ss h; simp [allStrings] at h
      · simp only [joinBody, pure_snd, pure_fst]
        rw [Nat.succ_mul]; omega

/-- `join(sep, value)`, string.go:456-502 -/
def joinT (sep value : Val) : T (Res Val) :=
  match value with
  | .arr t xs =>
    match sep with
    | .str s =>
      match xs with
      | [] => pure (.ok (.str []))                         -- string.go:473
      | .str e :: rest => do
        let b ← writeT [] e                                -- string.go:486
        let r ← joinLoopT s rest b                         -- string.go:488
        pure (match r with
          | .next st => if enum2 t xs then .nondet else .ok (.str st.2)   -- string.go:501
          | .brk _ => errType)                             -- string.go:491
      | _ :: _ => pure errType                             -- string.go:477-483
    | _ => pure errType                                    -- string.go:465
  | _ => pure errType                                      -- string.go:457

/-- the instrumented `join` returns exactly the model's `join`, on ALL values.  (Go tests the element types inside
    the loop and leaves at the first non-string, so does `joinLoopT`; the model asks `allStrings` first: same answer.) -/
theorem joinT_fst (sep value : Val) : (joinT sep value).1 = join sep value := by
  cases value with
  | arr t xs =>
    cases sep with
    | str s =>
      cases xs with
      | nil => cases t <;> rfl
      | cons x rest =>
        cases x with
        | str e =>
          simp only [joinT, join, bind_fst, pure_fst, writeT_fst, List.nil_append, allStrings]
          have h := (joinLoop s rest e).1
          cases hr : (joinLoopT s rest e).1 with
          | next st =>
            rw [hr] at h; simp only [joinOut] at h
            cases ha : allStrings rest with
            | none => rw [ha] at h; simp at h
            | some ss =>
              rw [ha] at h; simp at h
              simp only [Option.map, joinStrs_cons, h]
          | brk st =>
            rw [hr] at h; simp only [joinOut] at h
            cases ha : allStrings rest with
            | none => rfl
            | some ss => rw [ha] at h; simp at h
        | _ => rfl
    | _ => rfl
  | _ => rfl

/-- the cost of a `join` whose elements are all strings, exactly: the bytes of the result (every byte is written
    once) plus one tick per element after the first -/
theorem joinT_snd_ok (t : ATag) (s : Bytes) (xs : List Val) (ss : List Bytes) (h : allStrings xs = some ss) :
    (joinT (.str s) (.arr t xs)).2 = (xs.length - 1) + (joinStrs s ss).length := by
  cases xs with
  | nil => simp [allStrings] at h; subst h; rfl
  | cons x rest =>
    cases x with
    | str e =>
      simp only [allStrings] at h
      cases ha : allStrings rest with
      | none => rw [ha] at h; cases h
      | some ss' =>
        rw [ha] at h; simp at h; subst h
        simp only [joinT, bind_snd, bind_fst, writeT_snd, writeT_fst, pure_snd, List.nil_append]
        rw [(joinLoop s rest e).2.1 ss' ha, joinStrs_cons]
        simp
        omega
    | _ => simp [allStrings] at h

/-- `join(sep, value)` that returns a string `r`: at most (number of elements) + (bytes of the result) ticks -/
theorem joinT_snd_le_result (t : ATag) (s : Bytes) (xs : List Val) (r : Bytes)
    (h : join (.str s) (.arr t xs) = .ok (.str r)) :
    (joinT (.str s) (.arr t xs)).2 ≤ xs.length + r.length + 1 := by
  unfold join at h
  simp only at h
  cases ha : allStrings xs with
  | none => rw [ha] at h; cases h
  | some ss =>
    rw [ha] at h
    simp only at h
    split at h
    · cases h
    · cases h
      rw [joinT_snd_ok t s xs ss ha]; omega

/-- size of the inputs of `join`: one cell and one separator per element, plus the bytes of the string elements -/
def joinInputSize (sep value : Val) : Nat :=
  match value with
  | .arr _ xs => xs.length * (1 + strLen sep) + joinStrBytes xs
  | _ => 0

/-- `join(sep, value)`, ANY two values, whatever it returns (a string, the type error at the first non-string, the
    model's `nondet` on a map-ordered array): the ticks are bounded by the size of the inputs — elements visited,
    separators and string elements written -/
theorem joinT_snd_le (sep value : Val) : (joinT sep value).2 ≤ joinInputSize sep value + 1 := by
  cases value with
  | arr t xs =>
    cases sep with
    | str s =>
      cases xs with
      | nil => simp [joinT]
      | cons x rest =>
        cases x with
        | str e =>
          simp only [joinT, bind_snd, bind_fst, writeT_snd, writeT_fst, pure_snd, List.nil_append, joinInputSize,
            joinStrBytes, strLen, List.length_cons]
          have := (joinLoop s rest e).2.2
          rw [Nat.succ_mul]; omega
        | _ => simp [joinT]
    | _ => simp [joinT]
  | _ => simp [joinT]

/-- join("-", ["a", "bc", "d"]) = "a-bc-d": 1 byte, then 2 iterations writing 3 and 2 bytes -/
example : joinT (.str [0x2D]) (.arr .plain [.str [0x61], .str [0x62, 0x63], .str [0x64]])
    = ⟨.ok (.str [0x61, 0x2D, 0x62, 0x63, 0x2D, 0x64]), 1 + ((1 + 3) + (1 + 2))⟩ := T.ext (by rfl) (by decide)
/-- the loop leaves at the first non-string: 1 byte, one full iteration, one iteration that returns the error -/
example : joinT (.str [0x2D]) (.arr .plain [.str [0x61], .str [0x62], .null, .str [0x64]])
    = ⟨errType, 1 + ((1 + 2) + 1)⟩ := T.ext (by rfl) (by decide)
example : join (.str [0x2D]) (.arr .plain [.str [0x61], .str [0x62], .null, .str [0x64]]) = errType := rfl

end Jmes.C09C
