/-
  C01 (third wave) — the evaluator model on the node of a parse tree is the independent semantics of the tree:
  `ieval root (erase t) cur env = Sem t root cur env` for every well-formed tree, by induction on the tree.
-/
import Jmes.Proofs.C01CLemmas
import Jmes.Proofs.C17BLemmas
set_option linter.unusedSimpArgs false
namespace Jmes.C01C
open Jmes Jmes.Grammar Jmes.Spec

/-! ## The node formers of the grammar, evaluated -/

section
variable (root : Val)

theorem subNode_eval (c : Option INode) (r : INode) (cur : Val) (env : Env) :
    ieval root (subNode c r) cur env = (childVal root c cur env >>= fun a => ieval root r a env) := by
  cases c <;> simp only [subNode, ieval, childVal, Res.ok_bind]

theorem indexNode_eval (c : Option INode) (i : Int) (cur : Val) (env : Env) :
    ieval root (indexNode c i) cur env = (childVal root c cur env >>= fun a => indexOf a i) := by
  cases c with
  | none =>
    simp only [indexNode, childVal, Res.ok_bind]
    split
    · rename_i h
      simp only [ieval, index_eq]
      congr 1
      omega
    · simp only [ieval, index_eq]
  | some l => simp only [indexNode, ieval, childVal, index_eq]

theorem listNode_eval (c : Option INode) (fs : List INode) (cur : Val) (env : Env) :
    ieval root (listNode c fs) cur env =
      (childVal root c cur env >>= fun a =>
        if a.isNull && !(c.isNone && fs.length == 1) then Res.ok .null
        else ievalList root fs a env >>= fun vs => Res.ok (.arr .plain vs)) := by
  match c, fs with
  | none, [] => simp only [listNode, ieval, childVal, Res.ok_bind, Res.pure_eq]; cases cur.isNull <;> rfl
  | none, [f] =>
    simp only [listNode, ieval, childVal, Res.ok_bind, Res.pure_eq, ievalList, Res.bind_assoc, Option.isNone_none,
      List.length_cons, List.length_nil, Nat.zero_add, beq_self_eq_true, Bool.and_self, Bool.not_true, Bool.and_false,
      Bool.false_eq_true, if_false]
  | none, f :: g :: fs =>
    simp only [listNode, ieval, childVal, Res.ok_bind, Res.pure_eq]
    cases cur.isNull <;> rfl
  | some l, [] =>
    simp only [listNode, ieval, childVal, Res.pure_eq]
    apply Res.bind_congr; intro a
    cases a.isNull <;> rfl
  | some l, [f] =>
    simp only [listNode, ieval, childVal, Res.pure_eq, ievalList, Res.bind_assoc, Res.ok_bind]
    apply Res.bind_congr; intro a
    cases a.isNull <;> rfl
  | some l, f :: g :: fs =>
    simp only [listNode, ieval, childVal, Res.pure_eq]
    apply Res.bind_congr; intro a
    cases a.isNull <;> rfl

theorem anyOrder_single (k : Bytes) (r : Res Val) : anyOrder [(k, r)] = (r >>= fun v => Res.ok [(k, v)]) := by
  rw [anyOrder_cons, anyOrder_nil, combineUnordered_nil]

theorem hashNode_eval (c : Option INode) (ps : List (Bytes × INode)) (cur : Val) (env : Env) :
    ieval root (hashNode c ps) cur env =
      (childVal root c cur env >>= fun a =>
        if a.isNull && !(c.isNone && ps.length == 1) then Res.ok .null
        else anyOrder (byKey (ps.map fun kn => (kn.1, ieval root kn.2 a env))) >>= fun ms => Res.ok (.obj ms)) := by
  have hs : ∀ (k : Bytes) (f : INode) (a : Val),
      (anyOrder (byKey ([(k, f)].map fun kn => (kn.1, ieval root kn.2 a env))) >>= fun ms => Res.ok (Val.obj ms)) =
        (ieval root f a env >>= fun v => Res.ok (.obj [(k, v)])) := by
    intro k f a
    simp only [List.map_cons, List.map_nil, byKey, List.foldl_cons, List.foldl_nil, insertLast, anyOrder_single,
      Res.bind_assoc, Res.ok_bind]
  match c, ps with
  | none, [] =>
    simp only [hashNode, ieval, childVal, Res.ok_bind, Res.pure_eq, ievalFields_eq, assocOf_map]
    cases cur.isNull <;> rfl
  | none, [(k, f)] =>
    simp only [hashNode, ieval, childVal, Res.ok_bind, Res.pure_eq, hs, Option.isNone_none,
      List.length_cons, List.length_nil, Nat.zero_add, beq_self_eq_true, Bool.and_self, Bool.not_true, Bool.and_false,
      Bool.false_eq_true, if_false]
  | none, p :: q :: ps =>
    simp only [hashNode, ieval, childVal, Res.ok_bind, Res.pure_eq, ievalFields_eq,
      assocOf_map (fun n => ieval root n cur env)]
    cases cur.isNull <;> rfl
  | some l, [] =>
    simp only [hashNode, ieval, childVal, Res.pure_eq, ievalFields_eq, assocOf_map]
    apply Res.bind_congr; intro a
    cases a.isNull <;> rfl
  | some l, [(k, f)] =>
    simp only [hashNode, ieval, childVal, Res.pure_eq, hs]
    apply Res.bind_congr; intro a
    cases a.isNull <;> rfl
  | some l, p :: q :: ps =>
    simp only [hashNode, ieval, childVal, Res.pure_eq, ievalFields_eq]
    apply Res.bind_congr; intro a
    simp only [assocOf_map (fun n => ieval root n a env)]
    cases a.isNull <;> rfl

/-- the right-hand side of a projection as a function of the element: the identity when there is none -/
def rhsFn (r : Option INode) (env : Env) : Val → Res Val :=
  match r with
  | none => Res.ok
  | some n => fun v => ieval root n v env

theorem projectArray_nonarr (f : Val → Res Val) (a : Val) (h : ∀ t xs, a ≠ .arr t xs) : projectArray f a = .ok .null := by
  cases a <;> first | rfl | exact absurd rfl (h _ _)

theorem starNode_eval (l : Option INode) (r : Option INode) (hl : ∀ n, l = some n → n.isSlice = false) (cur : Val) (env : Env) :
    ieval root (starNode l r) cur env =
      (childVal root l cur env >>= fun a =>
        match a with
        | .arr t xs =>
          if r.isNone && !xs.any Val.isNull then Res.ok (.arr t xs) else project t xs (rhsFn root r env)
        | _ => Res.ok .null) := by
  have hp : ∀ (a : Val), Res.ok (pruneArray a) = (match a with
      | .arr t xs => if (none : Option INode).isNone && !xs.any Val.isNull then Res.ok (.arr t xs) else project t xs Res.ok
      | _ => Res.ok .null) := by
    intro a
    cases a with
    | arr t xs => simp only [pruneArray_arr, Option.isNone_none, Bool.true_and]; cases xs.any Val.isNull <;> rfl
    | _ => rfl
  have hq : ∀ (n : INode) (a : Val), projectArray (fun v => ieval root n v env) a = (match a with
      | .arr t xs =>
        if (some n).isNone && !xs.any Val.isNull then Res.ok (.arr t xs) else project t xs (fun v => ieval root n v env)
      | _ => Res.ok .null) := by
    intro n a
    cases a with
    | arr t xs => simp only [projectArray_arr, Option.isNone_some, Bool.false_and, Bool.false_eq_true, if_false]
    | _ => rfl
  match l, r with
  | none, none => simp only [starNode, ieval, childVal, Res.ok_bind, rhsFn, hp]
  | none, some n => simp only [starNode, ieval, childVal, Res.ok_bind, rhsFn, hq]
  | some m, none => simp only [starNode, ieval, childVal, rhsFn, Res.pure_eq, hp]
  | some m, some n =>
    simp only [starNode, ieval, childVal, rhsFn, hl m rfl, Bool.false_eq_true, if_false]
    apply Res.bind_congr; intro a
    rw [← hq]
    cases a <;> rfl

theorem ostarNode_eval (l : Option INode) (r : Option INode) (cur : Val) (env : Env) :
    ieval root (ostarNode l r) cur env =
      (childVal root l cur env >>= fun a =>
        match a with
        | .obj kvs => project .enum (kvs.map Prod.snd) (rhsFn root r env)
        | _ => Res.ok .null) := by
  have hq : ∀ (f : Val → Res Val) (a : Val), projectObject f a = (match a with
      | .obj kvs => project .enum (kvs.map Prod.snd) f
      | _ => Res.ok .null) := by
    intro f a
    cases a with
    | obj kvs => simp only [projectObject_obj]
    | _ => rfl
  match l, r with
  | none, none => simp only [ostarNode, ieval, childVal, Res.ok_bind, rhsFn, objectValues_eq, hq]
  | none, some n => simp only [ostarNode, ieval, childVal, Res.ok_bind, rhsFn, hq]
  | some m, none => simp only [ostarNode, ieval, childVal, rhsFn, Res.pure_eq, objectValues_eq, hq]
  | some m, some n => simp only [ostarNode, ieval, childVal, rhsFn, hq]

theorem flatNode_eval (l : Option INode) (r : Option INode) (cur : Val) (env : Env) :
    ieval root (flatNode l r) cur env =
      (childVal root l cur env >>= fun a =>
        match a with
        | .arr t xs => flatProject t xs (rhsFn root r env)
        | _ => Res.ok .null) := by
  have hq : ∀ (f : Val → Res Val) (a : Val), flattenAndProjectArray f a = (match a with
      | .arr t xs => flatProject t xs f
      | _ => Res.ok .null) := by
    intro f a
    cases a with
    | arr t xs => simp only [flattenAndProjectArray_arr]
    | _ => rfl
  match l, r with
  | none, none => simp only [flatNode, ieval, childVal, Res.ok_bind, rhsFn, flatten_eq, hq]
  | none, some n => simp only [flatNode, ieval, childVal, Res.ok_bind, rhsFn, hq]
  | some m, none => simp only [flatNode, ieval, childVal, rhsFn, Res.pure_eq, flatten_eq, hq]
  | some m, some n => simp only [flatNode, ieval, childVal, rhsFn, hq]

theorem filtNode_eval (l : Option INode) (c : INode) (r : Option INode) (cur : Val) (env : Env) :
    ieval root (filtNode l c r) cur env =
      (childVal root l cur env >>= fun a =>
        match a with
        | .arr t xs => filterProject t xs (fun v => ieval root c v env) (rhsFn root r env)
        | _ => Res.ok .null) := by
  have hq : ∀ (g f : Val → Res Val) (a : Val), filterAndProjectArray g f a = (match a with
      | .arr t xs => filterProject t xs g f
      | _ => Res.ok .null) := by
    intro g f a
    cases a with
    | arr t xs => simp only [filterAndProjectArray_arr]
    | _ => rfl
  match l, r with
  | none, none => simp only [filtNode, ieval, childVal, Res.ok_bind, rhsFn, filterArray_eq, hq]
  | none, some n => simp only [filtNode, ieval, childVal, Res.ok_bind, rhsFn, hq]
  | some m, none => simp only [filtNode, ieval, childVal, rhsFn, filterArray_eq, hq]
  | some m, some n => simp only [filtNode, ieval, childVal, rhsFn, hq]

theorem sliceProj_eval (l : Option INode) (a b c : Option Int) (r : Option INode) (h0 : c.getD 1 ≠ 0)
    (hmin : MinInt ≤ c.getD 1) (cur : Val) (env : Env) :
    ieval root (.projectArray (sliceNode l a b c) (r.getD .current)) cur env =
      (childVal root l cur env >>= fun v => sliceOf v a b (c.getD 1) >>= fun s =>
        match s with
        | .arr t xs => project t xs (rhsFn root r env)
        | .str _ => rhsFn root r env s
        | _ => Res.ok .null) := by
  have hr : (fun v => ieval root (r.getD .current) v env) = rhsFn root r env := by
    cases r <;> funext v <;> simp only [Option.getD_none, Option.getD_some, ieval, rhsFn]
  simp only [ieval, sliceNode_eval root env l cur a b c h0 hmin, sliceNode_isSlice, if_true, Res.bind_assoc, hr]
  apply Res.bind_congr; intro v
  apply Res.bind_congr; intro s
  cases s with
  | arr t xs => simp only [projectArray_arr]
  | str s => exact congrFun hr _
  | _ => rfl

end

/-! ## The induction -/

section
variable (root : Val)

/-- the model agrees with the semantics on `t` -/
def Ev (t : PTree) : Prop := ∀ cur env, ieval root (erase t) cur env = Sem t root cur env
def Q (t : PTree) : Prop := ∀ b, wp b t = true → Ev root t
def P (x : PTree) : Prop := Q root x ∧ ∀ t, x = .ref t → Q root t

theorem ev_icur : Ev root .icur := fun _ _ => rfl

theorem ev_of {l : PTree} (h : Q root l) (hw : l.isIcur = true ∨ ∃ b, wp b l = true) : Ev root l := by
  rcases hw with hi | ⟨b, hb⟩
  · rw [GrammarF0.isIcur_eq hi]; exact ev_icur root
  · exact h b hb

/-- the value of the left operand -/
theorem childVal_opt {l : PTree} (h : Ev root l) (cur : Val) (env : Env) :
    childVal root (optNode l (erase l)) cur env = Sem l root cur env := by
  cases hi : l.isIcur
  · simp only [optNode, hi, Bool.false_eq_true, if_false, childVal, h cur env]
  · rw [GrammarF0.isIcur_eq hi]; rfl

/-- the right-hand side -/
theorem rhsFn_opt {r : PTree} (h : Ev root r) (env : Env) :
    rhsFn root (optNode r (erase r)) env = fun x => Sem r root x env := by
  cases hi : r.isIcur
  · simp only [optNode, hi, Bool.false_eq_true, if_false, rhsFn]; funext x; exact h x env
  · rw [GrammarF0.isIcur_eq hi]; rfl

theorem optNode_isNone (l : PTree) (n : INode) : (optNode l n).isNone = l.isIcur := by
  cases hi : l.isIcur <;> simp only [optNode, hi, Bool.false_eq_true, if_false, if_true, Option.isNone_none,
    Option.isNone_some]

theorem optNode_notSlice (l : PTree) : ∀ n, optNode l (erase l) = some n → n.isSlice = false := by
  intro n h
  cases hi : l.isIcur
  · simp only [optNode, hi, Bool.false_eq_true, if_false, Option.some.injEq] at h
    rw [← h]; exact C17B.erase_not_slice l
  · simp only [optNode, hi, if_true] at h; cases h

theorem wp_left {l : PTree} {b c d : Bool} (h : (if l.isIcur = true then c else wp b l && d) = true) :
    l.isIcur = true ∨ ∃ b, wp b l = true := by
  cases hi : l.isIcur
  · simp only [hi, Bool.false_eq_true, if_false, Bool.and_eq_true] at h
    exact Or.inr ⟨b, h.1⟩
  · exact Or.inl rfl

theorem wp_rhs {r : PTree} {d : Bool} (h : (r.isIcur || (wp true r && d)) = true) :
    r.isIcur = true ∨ ∃ b, wp b r = true := by
  simp only [Bool.or_eq_true, Bool.and_eq_true] at h
  rcases h with h | h
  · exact Or.inl h
  · exact Or.inr ⟨true, h.1⟩

theorem eraseL_fns (env : Env) : ∀ es : List PTree, (∀ e ∈ es, Ev root e) →
    FnsAgree root env (eraseL es) (SemL es root env)
  | [], _ => rfl
  | e :: es, h => by
    have ih := eraseL_fns env es fun e he => h e (List.mem_cons_of_mem _ he)
    simp only [FnsAgree] at ih ⊢
    simp only [eraseL, SemL, List.map_cons, ih]
    congr 1
    funext x
    exact h e List.mem_cons_self x env

theorem eraseL_length : ∀ es : List PTree, (eraseL es).length = es.length
  | [] => rfl
  | _ :: es => by simp only [eraseL, List.length_cons, eraseL_length es]

theorem eraseKVs_length (key : Token → Bytes) : ∀ kvs : List (Token × PTree), (eraseKVs key kvs).length = kvs.length
  | [] => rfl
  | (_, _) :: kvs => by simp only [eraseKVs, List.length_cons, eraseKVs_length key kvs]

theorem eraseKVs_sem (key : Token → Bytes) (cur : Val) (env : Env) : ∀ kvs : List (Token × PTree),
    (∀ kv ∈ kvs, Ev root kv.2) →
    (eraseKVs key kvs).map (fun kn => (kn.1, ieval root kn.2 cur env)) = SemKVs key kvs root cur env
  | [], _ => rfl
  | (k, e) :: kvs, h => by
    have ih := eraseKVs_sem key cur env kvs fun kv hkv => h kv (List.mem_cons_of_mem _ hkv)
    simp only [eraseKVs, SemKVs, List.map_cons, ih]
    congr 2
    exact h (k, e) List.mem_cons_self cur env

theorem wpL_all : ∀ es : List PTree, wpL es = true → ∀ e ∈ es, wp false e = true
  | [], _, _, h => by cases h
  | x :: xs, hw, e, h => by
    simp only [wpL, Bool.and_eq_true] at hw
    rcases List.mem_cons.1 h with rfl | h
    · exact hw.1
    · exact wpL_all xs hw.2 e h

theorem wpKVs_all (ok : Token → Bool) : ∀ kvs : List (Token × PTree), wpKVs ok kvs = true → ∀ kv ∈ kvs, wp false kv.2 = true
  | [], _, _, h => by cases h
  | (k, x) :: xs, hw, e, h => by
    simp only [wpKVs, Bool.and_eq_true] at hw
    rcases List.mem_cons.1 h with rfl | h
    · exact hw.1.2
    · exact wpKVs_all ok xs hw.2 e h

theorem wpArgs_ev : ∀ args : List PTree, wpArgs args = true → (∀ e ∈ args, P root e) → ∀ e ∈ args, Ev root e
  | [], _, _, _, h => by cases h
  | x :: xs, hw, hp, e, h => by
    rw [GrammarF2.wpArgs_cons, Bool.and_eq_true] at hw
    rcases List.mem_cons.1 h with rfl | h
    · have hpe := hp e List.mem_cons_self
      by_cases hr : ∃ t, e = .ref t
      · obtain ⟨t, rfl⟩ := hr
        have := hpe.2 t rfl false hw.1
        exact fun cur env => this cur env
      · have hu : GrammarF2.unref e = e := by
          cases e <;> first | rfl | exact absurd ⟨_, rfl⟩ hr
        rw [hu] at hw
        exact hpe.1 false hw.1
    · exact wpArgs_ev xs hw.2 (fun e he => hp e (List.mem_cons_of_mem _ he)) e h


/-! ### The cases -/

theorem objectValues_eq_valuesOf (a : Val) : objectValues a = valuesOf a := by cases a <;> rfl

theorem q_atom (t : Token) : Q root (.atom t) := by
  intro b _ cur env
  obtain ⟨ty, v⟩ := t
  cases ty <;> simp only [erase, atomNode, Sem, atomSem, Option.getD_some, Option.getD_none, ieval, field_eq]
  · cases parseJSONLiteral v <;> simp only [Option.map_none, Option.map_some, Option.getD_none, Option.getD_some, ieval]
  · cases parseQuotedIdentifier v <;>
      simp only [Option.map_none, Option.map_some, Option.getD_none, Option.getD_some, ieval, field_eq]
  · simp only [Env.get, objLookup_eq]
    cases lookup v env <;> rfl

theorem q_paren {t : PTree} (h : Q root t) : Q root (.paren t) := by
  intro b hw cur env
  simp only [wp, Bool.and_eq_true] at hw
  simp only [erase, Sem, h false hw.2 cur env]

theorem q_not {t : PTree} (h : Q root t) : Q root (.not t) := by
  intro b hw cur env
  simp only [wp, Bool.and_eq_true] at hw
  simp only [erase, Sem, ieval, h false hw.1.2 cur env, isTrue_eq_truthy, Res.pure_eq]

theorem q_neg {tok : Token} {t : PTree} (h : Q root t) : Q root (.neg tok t) := by
  intro b hw cur env
  simp only [wp, Bool.and_eq_true] at hw
  simp only [erase, Sem, ieval, h false hw.1.2 cur env, Res.pure_eq]

theorem q_pos {t : PTree} (h : Q root t) : Q root (.pos t) := by
  intro b hw cur env
  simp only [wp, Bool.and_eq_true] at hw
  simp only [erase, Sem, ieval, h false hw.1.2 cur env, Res.pure_eq]

theorem q_bin {op : Token} {l r : PTree} (hl : Q root l) (hr : Q root r) : Q root (.bin op l r) := by
  intro b hw cur env
  simp only [wp] at hw
  split at hw
  · cases hw
  · rename_i lvl hlvl
    simp only [Bool.and_eq_true] at hw
    have el : ∀ cur env, ieval root (erase l) cur env = Sem l root cur env := hl b hw.1.1.1.2
    have er : ∀ cur env, ieval root (erase r) cur env = Sem r root cur env := hr false hw.1.2
    obtain ⟨ty, v⟩ := op
    simp only at hlvl
    cases ty <;> first
      | (simp [binLevel] at hlvl; done)
      | (simp only [erase, binNode, Sem, ieval, el, er, orderTok, arithOp, applyBinOp, less, lessOrEqual, greater,
          greaterOrEqual, cmpOp_eq, Res.pure_eq, isTrue_eq_truthy]
         try (apply Res.bind_congr; intro a; cases truthy a <;> rfl))

theorem q_dotId {l r : PTree} (hl : Q root l) (hr : Q root r) : Q root (.dotId l r) := by
  intro b hw cur env
  simp only [wp, Bool.and_eq_true] at hw
  have el := ev_of root hl (wp_left hw.1.1.1)
  have er := hr false hw.1.1.2
  simp only [erase, Sem, subNode_eval, childVal_opt root el]
  apply Res.bind_congr; intro a
  exact er a env

theorem ievalList_sem {es : List PTree} (h : ∀ e ∈ es, Ev root e) (a : Val) (env : Env) :
    ievalList root (eraseL es) a env = inOrder ((SemL es root env).map (· a)) := by
  rw [ievalList_eq, (eraseL_fns root env es h).at a]

theorem q_dotList {l : PTree} {es : List PTree} (hl : Q root l) (hes : ∀ e ∈ es, Q root e) : Q root (.dotList l es) := by
  intro b hw cur env
  simp only [wp, Bool.and_eq_true] at hw
  have el := ev_of root hl (wp_left hw.1.1)
  have ees : ∀ e ∈ es, Ev root e := fun e he => hes e he false (wpL_all es hw.2 e he)
  simp only [erase, Sem, listNode_eval, childVal_opt root el, optNode_isNone, eraseL_length, ievalList_sem root ees]

theorem q_multiList {es : List PTree} (hes : ∀ e ∈ es, Q root e) : Q root (.multiList es) := by
  intro b hw cur env
  simp only [wp, Bool.and_eq_true] at hw
  have ees : ∀ e ∈ es, Ev root e := fun e he => hes e he false (wpL_all es hw.2 e he)
  simp only [erase, Sem, listNode_eval, childVal, Res.ok_bind, Option.isNone_none, Bool.true_and, eraseL_length,
    ievalList_sem root ees]

theorem q_dotHash {l : PTree} {kvs : List (Token × PTree)} (hl : Q root l) (hes : ∀ kv ∈ kvs, Q root kv.2) :
    Q root (.dotHash l kvs) := by
  intro b hw cur env
  simp only [wp, Bool.and_eq_true] at hw
  have el := ev_of root hl (wp_left hw.1.1)
  have ees : ∀ kv ∈ kvs, Ev root kv.2 := fun kv he => hes kv he false (wpKVs_all _ kvs hw.2 kv he)
  simp only [erase, Sem, hashNode_eval, childVal_opt root el, optNode_isNone, eraseKVs_length, eraseKVs_sem root _ _ _ kvs ees]

theorem q_multiHash {kvs : List (Token × PTree)} (hes : ∀ kv ∈ kvs, Q root kv.2) : Q root (.multiHash kvs) := by
  intro b hw cur env
  simp only [wp, Bool.and_eq_true] at hw
  have ees : ∀ kv ∈ kvs, Ev root kv.2 := fun kv he => hes kv he false (wpKVs_all _ kvs hw.2 kv he)
  simp only [erase, Sem, hashNode_eval, childVal, Res.ok_bind, Option.isNone_none, Bool.true_and, eraseKVs_length,
    eraseKVs_sem root _ _ _ kvs ees]

theorem q_dotStarList {l : PTree} (hl : Q root l) : Q root (.dotStarList l) := by
  intro b hw cur env
  simp only [wp] at hw
  have el := ev_of root hl (wp_left hw)
  simp only [erase, Sem, listNode_eval, childVal_opt root el, optNode_isNone, List.length_cons, List.length_nil,
    Nat.zero_add, beq_self_eq_true, Bool.and_true, ievalList, ieval, Res.ok_bind, Res.pure_eq, objectValues_eq_valuesOf]

theorem q_index {l : PTree} {n : Token} (hl : Q root l) : Q root (.index l n) := by
  intro b hw cur env
  simp only [wp, Bool.and_eq_true] at hw
  have el := ev_of root hl (wp_left hw.1)
  simp only [erase, Sem, indexNode_eval, childVal_opt root el]

theorem q_call {name : Token} {args : List PTree} (hargs : ∀ e ∈ args, P root e) : Q root (.call name args) := by
  intro b hw cur env
  simp only [wp, Bool.and_eq_true] at hw
  obtain ⟨⟨_, hspec⟩, hwa⟩ := hw
  cases hl : Parser.lookupBuiltin name.value with
  | none => simp only [hl] at hspec; cases hspec
  | some spec =>
    simp only [hl] at hspec
    have eargs := wpArgs_ev root args hwa hargs
    simp only [erase, Sem, hl]
    exact callNode_eval root cur env hl args (eraseL args) (SemL args root env) (eraseL_length args).symm hspec
      (eraseL_fns root env args eargs)

theorem q_letIn {bs : List (Token × PTree)} {body : PTree} (hbs : ∀ kv ∈ bs, Q root kv.2) (hb : Q root body) :
    Q root (.letIn bs body) := by
  intro b hw cur env
  simp only [wp, Bool.and_eq_true] at hw
  have ees : ∀ kv ∈ bs, Ev root kv.2 := fun kv he => hbs kv he false (wpKVs_all _ bs hw.1.2 kv he)
  have eb := hb false hw.2
  simp only [erase, Sem, ieval, ievalFields_eq, assocOf_map (fun n => ieval root n cur env),
    eraseKVs_sem root _ _ _ bs ees]
  apply Res.bind_congr; intro vs
  exact eb cur _

theorem q_star {l rhs : PTree} (hl : Q root l) (hr : Q root rhs) : Q root (.star l rhs) := by
  intro b hw cur env
  simp only [wp, Bool.and_eq_true] at hw
  have el := ev_of root hl (wp_left hw.1)
  have er := ev_of root hr (wp_rhs hw.2)
  simp only [erase, Sem, starNode_eval root _ _ (optNode_notSlice l), childVal_opt root el, rhsFn_opt root er,
    optNode_isNone]
  apply Res.bind_congr; intro a
  cases a <;> rfl

theorem q_ostar {l rhs : PTree} (hl : Q root l) (hr : Q root rhs) : Q root (.ostar l rhs) := by
  intro b hw cur env
  simp only [wp, Bool.and_eq_true] at hw
  have el := ev_of root hl (wp_left hw.1)
  have er := ev_of root hr (wp_rhs hw.2)
  simp only [erase, Sem, ostarNode_eval, childVal_opt root el, rhsFn_opt root er]
  apply Res.bind_congr; intro a
  cases a <;> rfl

theorem q_flat {l rhs : PTree} (hl : Q root l) (hr : Q root rhs) : Q root (.flat l rhs) := by
  intro b hw cur env
  simp only [wp, Bool.and_eq_true] at hw
  have el := ev_of root hl (wp_left hw.1)
  have er := ev_of root hr (wp_rhs hw.2)
  simp only [erase, Sem, flatNode_eval, childVal_opt root el, rhsFn_opt root er]
  apply Res.bind_congr; intro a
  cases a <;> rfl

theorem q_filt {l c rhs : PTree} (hl : Q root l) (hc : Q root c) (hr : Q root rhs) : Q root (.filt l c rhs) := by
  intro b hw cur env
  simp only [wp, Bool.and_eq_true] at hw
  have el := ev_of root hl (wp_left hw.1.1)
  have ec := hc false hw.1.2
  have er := ev_of root hr (wp_rhs hw.2)
  have : (fun v => ieval root (erase c) v env) = fun v => Sem c root v env := funext fun v => ec v env
  simp only [erase, Sem, filtNode_eval, childVal_opt root el, rhsFn_opt root er, this]
  apply Res.bind_congr; intro a
  cases a <;> rfl

theorem sliceOK_step {a b : Option Token} {c : Option (Option Token)} (h : sliceOK a b c = true) :
    (c.bind fun s => s.bind intOf).getD 1 ≠ 0 ∧ MinInt ≤ (c.bind fun s => s.bind intOf).getD 1 := by
  simp only [sliceOK, Bool.and_eq_true] at h
  match c, h.2 with
  | none, _ => exact ⟨by decide, by decide⟩
  | some none, _ => exact ⟨by decide, by decide⟩
  | some (some s), hs =>
    simp only [Bool.and_eq_true, isIntTok, bne_iff_ne, ne_eq] at hs
    simp only [Option.bind_some]
    cases hv : intOf s with
    | none => simp only [hv, Option.isSome_none, Bool.false_eq_true, and_false, false_and] at hs
    | some v =>
      simp only [hv, Option.some.injEq] at hs
      simp only [Option.getD_some]
      exact ⟨hs.2, (C09.parseInt64_in_range _ _ hv).1⟩

theorem q_slice {l rhs : PTree} {a bb : Option Token} {c : Option (Option Token)} (hl : Q root l) (hr : Q root rhs) :
    Q root (.slice l a bb c rhs) := by
  intro b hw cur env
  simp only [wp, Bool.and_eq_true] at hw
  have el := ev_of root hl (wp_left hw.1.1)
  have er := ev_of root hr (wp_rhs hw.2)
  obtain ⟨h0, hmin⟩ := sliceOK_step hw.1.2
  simp only [erase, Sem, sliceProj_eval root _ _ _ _ _ h0 hmin, childVal_opt root el, rhsFn_opt root er]
  apply Res.bind_congr; intro v
  apply Res.bind_congr; intro s
  cases s <;> rfl

/-! ### The induction -/

theorem p_of_q {t : PTree} (h : Q root t) (hn : ∀ x, t ≠ .ref x) : P root t := ⟨h, fun x hx => absurd hx (hn x)⟩

theorem main_P : ∀ t, P root t := by
  apply GrammarF0.PTree.ind
  · exact p_of_q root (fun b h => by simp [wp] at h) (fun _ h => by cases h)
  · exact fun t => p_of_q root (q_atom root t) (fun _ h => by cases h)
  · exact fun t h => p_of_q root (q_paren root h.1) (fun _ h => by cases h)
  · exact fun t h => p_of_q root (q_not root h.1) (fun _ h => by cases h)
  · exact fun tok t h => p_of_q root (q_neg root h.1) (fun _ h => by cases h)
  · exact fun t h => p_of_q root (q_pos root h.1) (fun _ h => by cases h)
  · exact fun op l r hl hr => p_of_q root (q_bin root hl.1 hr.1) (fun _ h => by cases h)
  · exact fun l r hl hr => p_of_q root (q_dotId root hl.1 hr.1) (fun _ h => by cases h)
  · exact fun l es hl hes => p_of_q root (q_dotList root hl.1 fun e he => (hes e he).1) (fun _ h => by cases h)
  · exact fun l kvs hl hes => p_of_q root (q_dotHash root hl.1 fun e he => (hes e he).1) (fun _ h => by cases h)
  · exact fun l hl => p_of_q root (q_dotStarList root hl.1) (fun _ h => by cases h)
  · exact fun l n hl => p_of_q root (q_index root hl.1) (fun _ h => by cases h)
  · exact fun name args hargs => p_of_q root (q_call root hargs) (fun _ h => by cases h)
  · exact fun t h => ⟨fun b hw => by simp [wp] at hw, fun x hx => by cases hx; exact h.1⟩
  · exact fun bs body hbs hb => p_of_q root (q_letIn root (fun e he => (hbs e he).1) hb.1) (fun _ h => by cases h)
  · exact fun es hes => p_of_q root (q_multiList root fun e he => (hes e he).1) (fun _ h => by cases h)
  · exact fun kvs hes => p_of_q root (q_multiHash root fun e he => (hes e he).1) (fun _ h => by cases h)
  · exact fun l rhs hl hr => p_of_q root (q_star root hl.1 hr.1) (fun _ h => by cases h)
  · exact fun l rhs hl hr => p_of_q root (q_ostar root hl.1 hr.1) (fun _ h => by cases h)
  · exact fun l rhs hl hr => p_of_q root (q_flat root hl.1 hr.1) (fun _ h => by cases h)
  · exact fun l c rhs hl hc hr => p_of_q root (q_filt root hl.1 hc.1 hr.1) (fun _ h => by cases h)
  · exact fun l a b c rhs hl hr => p_of_q root (q_slice root hl.1 hr.1) (fun _ h => by cases h)

/-- **the model on the node of a well-formed tree is the semantics of the tree** (any position, any current node, any
    bindings) -/
theorem ieval_erase_eq_Sem {t : PTree} {b : Bool} (h : wp b t = true) (cur : Val) (env : Env) :
    ieval root (erase t) cur env = Sem t root cur env :=
  (main_P root t).1 b h cur env

end

end Jmes.C01C
