/-
  C09, third wave — ONE definition for result and cost.

  `Jmes/Spec/Cost.lean` (first wave) counts ticks with a second family of hand-written functions next to the model.
  Here the cost is not a second artefact: every Go loop of the integer-parameterised operations is written ONCE, in
  the tick-writer monad `T α = α × Nat`, with the loop combinators `forT` / `forBrkT` below, which charge one tick per
  loop iteration *by construction*.  The first component of an instrumented function is proved equal to the existing
  model function (`Jmes/Model/*.lean` — the one the differential run ties to Go), the second component is bounded.

  Units.  One tick = one iteration of a Go loop (one `utf8.DecodeRuneInString`, one candidate offset of a substring
  search, one element visited); `allocT n` / `writeT b x` charge `n` resp. `|x|` ticks for `make([]any, n)` /
  `Builder.Grow(n)` resp. for the bytes appended by `b.WriteString(x)` / `b.WriteRune(r)` (the amortised constant of
  `append`/`strings.Builder` growth is the Go runtime's and is not modelled).

  The tie of an instrumented loop to the Go loop it mirrors is BY READING: each definition names the file:line of the
  Go loop header (as of the current /repo) and has the same trip count expression and the same guard.  Where the Go
  loop has a guard that bounds it by the input (`len(s) > 0`) the mirror has that guard and the bound theorem uses it:
  see `skipNoGuardT` at the end of the slice section for what the theorems say about the loop WITHOUT the guard.
-/
import Jmes.Properties.C09
set_option linter.unusedSimpArgs false
namespace Jmes.C09C
open Jmes

/-! ## The tick-writer monad -/

/-- a value together with the number of ticks spent computing it -/
structure T (α : Type) where
  /-- the result -/
  val : α
  /-- the ticks spent -/
  cost : Nat
  deriving DecidableEq, Repr

instance : Monad T where
  pure a := ⟨a, 0⟩
  bind x f := ⟨(f x.1).1, x.2 + (f x.1).2⟩

/-- spend `k` ticks -/
def tick (k : Nat := 1) : T Unit := ⟨(), k⟩

/-- `make([]any, n)`, `b.Grow(n)`: one tick per cell reserved -/
def allocT (n : Nat) : T Unit := tick n

/-- `b.WriteString(x)`: one tick per byte appended to the builder `b` -/
def writeT (b x : Bytes) : T Bytes := do tick x.length; pure (b ++ x)

/-- `b.WriteRune(r)`: appends the (1 to 4 byte) encoding of `r` -/
def writeRuneT (b : Bytes) (r : Nat) : T Bytes := writeT b (encodeRune r)

@[simp] theorem pure_fst {α} (a : α) : (pure a : T α).1 = a := rfl
@[simp] theorem pure_snd {α} (a : α) : (pure a : T α).2 = 0 := rfl
@[simp] theorem bind_fst {α β} (x : T α) (f : α → T β) : (x >>= f).1 = (f x.1).1 := rfl
@[simp] theorem bind_snd {α β} (x : T α) (f : α → T β) : (x >>= f).2 = x.2 + (f x.1).2 := rfl
@[simp] theorem tick_fst (k : Nat) : (tick k).1 = () := rfl
@[simp] theorem tick_snd (k : Nat) : (tick k).2 = k := rfl
@[simp] theorem allocT_snd (k : Nat) : (allocT k).2 = k := rfl
@[simp] theorem writeT_fst (b x : Bytes) : (writeT b x).1 = b ++ x := rfl
@[simp] theorem writeT_snd (b x : Bytes) : (writeT b x).2 = x.length := by simp [writeT]
@[simp] theorem writeRuneT_fst (b : Bytes) (r : Nat) : (writeRuneT b r).1 = b ++ encodeRune r := rfl
@[simp] theorem writeRuneT_snd (b : Bytes) (r : Nat) : (writeRuneT b r).2 = (encodeRune r).length := by
  simp [writeRuneT]
theorem writeRuneT_snd_le (b : Bytes) (r : Nat) : (writeRuneT b r).2 ≤ 4 := by
  rw [writeRuneT_snd]; exact Utf8.encodeRune_length_le r
@[simp] theorem map_fst {α β} (f : α → β) (x : T α) : (f <$> x).1 = f x.1 := rfl
@[simp] theorem map_snd {α β} (f : α → β) (x : T α) : (f <$> x).2 = x.2 := rfl

theorem T.ext {α} {x y : T α} (h1 : x.1 = y.1) (h2 : x.2 = y.2) : x = y := by
  cases x; cases y; simp only at h1 h2; subst h1; subst h2; rfl

@[simp] theorem mk_fst {α} (a : α) (n : Nat) : (T.mk a n).1 = a := rfl
@[simp] theorem mk_snd {α} (a : α) (n : Nat) : (T.mk a n).2 = n := rfl

example : ((do tick 2; let b ← writeT [1] [2, 3]; pure b.length : T Nat)) = ⟨3, 4⟩ := rfl

/-! ## Loop combinators: one tick per iteration entered -/

/-- the Go loop `for k := 0; k < n && guard(state); k++ { state = body(state) }` (any counter running over `n`
    values; a `for cond { … }` loop is the case where `n` is a bound that is never reached).
    ONE TICK IS CHARGED HERE for every iteration entered, plus whatever the body charges. -/
def forT {σ : Type} (guard : σ → Bool) (body : σ → T σ) : Nat → σ → T σ
  | 0, s => pure s
  | n + 1, s =>
    if guard s then do
      tick
      let s' ← body s
      forT guard body n s'
    else pure s

/-- what a loop body that may leave the loop returns -/
inductive Ctl (σ : Type) where
  | next (s : σ)
  | brk (s : σ)

/-- the Go loop `for k := 0; k < n; k++ { … if c { break / return } … }`: the iteration that leaves the loop is
    charged like any other -/
def forBrkT {σ : Type} (body : σ → T (Ctl σ)) : Nat → σ → T (Ctl σ)
  | 0, s => pure (.next s)
  | n + 1, s => do
    tick
    match ← body s with
    | .next s' => forBrkT body n s'
    | .brk s' => pure (.brk s')

theorem forT_zero {σ} (g : σ → Bool) (b : σ → T σ) (s : σ) : forT g b 0 s = pure s := rfl

theorem forT_stop {σ} (g : σ → Bool) (b : σ → T σ) (n : Nat) (s : σ) (h : g s = false) :
    forT g b n s = pure s := by
  cases n with
  | zero => rfl
  | succ n => simp [forT, h]

theorem forT_succ_fst {σ} (g : σ → Bool) (b : σ → T σ) (n : Nat) (s : σ) (h : g s = true) :
    (forT g b (n + 1) s).1 = (forT g b n (b s).1).1 := by
  simp [forT, h]

theorem forT_succ_snd {σ} (g : σ → Bool) (b : σ → T σ) (n : Nat) (s : σ) (h : g s = true) :
    (forT g b (n + 1) s).2 = 1 + ((b s).2 + (forT g b n (b s).1).2) := by
  simp [forT, h]

/-- a counted loop costs at most `n` iterations of the dearest body: linear in the TRIP COUNT — useful only where
    the trip count has been clamped to the size of the input beforehand -/
theorem forT_snd_le_count {σ} (g : σ → Bool) (b : σ → T σ) (c : Nat) (hb : ∀ s, (b s).2 ≤ c) :
    ∀ (n : Nat) (s : σ), (forT g b n s).2 ≤ n * (1 + c) := by
  intro n
  induction n with
  | zero => intro s; simp [forT]
  | succ n ih =>
    intro s
    cases h : g s with
    | false => rw [forT_stop g b _ s h]; simp
    | true =>
      rw [forT_succ_snd g b n s h]
      have := ih (b s).1
      have := hb s
      rw [Nat.succ_mul]; omega

/-- a guarded loop costs at most `μ(state)` iterations whatever the counter bound `n` is, when the guard implies
    `μ > 0` and the body decreases `μ`: THIS is the lemma that makes the magnitude of `n` irrelevant, and its
    hypothesis `hg` is false for the trivial guard -/
theorem forT_snd_le_measure {σ} (g : σ → Bool) (b : σ → T σ) (μ : σ → Nat) (c : Nat)
    (hg : ∀ s, g s = true → 0 < μ s)
    (hb : ∀ s, g s = true → (b s).2 ≤ c ∧ μ (b s).1 < μ s) :
    ∀ (n : Nat) (s : σ), (forT g b n s).2 ≤ min n (μ s) * (1 + c) := by
  intro n
  induction n with
  | zero => intro s; simp [forT]
  | succ n ih =>
    intro s
    cases h : g s with
    | false => rw [forT_stop g b _ s h]; simp
    | true =>
      rw [forT_succ_snd g b n s h]
      have h1 := ih (b s).1
      have h2 := hb s h
      have h3 := hg s h
      have h4 : min n (μ (b s).1) + 1 ≤ min (n + 1) (μ s) := by omega
      have h5 := Nat.mul_le_mul_right (1 + c) h4
      rw [Nat.succ_mul] at h5
      omega

theorem forBrkT_succ_fst {σ} (b : σ → T (Ctl σ)) (n : Nat) (s : σ) :
    (forBrkT b (n + 1) s).1 = (match (b s).1 with
      | .next s' => (forBrkT b n s').1
      | .brk s' => .brk s') := by
  simp only [forBrkT, bind_fst]
  cases (b s).1 <;> rfl

theorem forBrkT_succ_snd {σ} (b : σ → T (Ctl σ)) (n : Nat) (s : σ) :
    (forBrkT b (n + 1) s).2 = 1 + ((b s).2 + (match (b s).1 with
      | .next s' => (forBrkT b n s').2
      | .brk _ => 0)) := by
  simp only [forBrkT, bind_snd, tick_snd, tick_fst]
  cases (b s).1 <;> rfl

/-! ## `utf8.RuneCountInString` -/

/-- `utf8.RuneCountInString(s)` (unicode/utf8: `for i := 0; i < ns; n++ { … i += size }`, one iteration per code
    point; `len(s)` is an upper bound on the iterations that is never the reason the loop ends) -/
def runeCountT (s : Bytes) : T Nat := do
  let r ← forT (fun (p : Bytes × Nat) => decide (p.1.length > 0))
    (fun p => pure (p.1.drop (decodeRune p.1).2, p.2 + 1)) s.length (s, 0)
  pure r.2

theorem runeCountLoop (f : Nat) : ∀ (s : Bytes) (n : Nat), s.length ≤ f →
    forT (fun (p : Bytes × Nat) => decide (p.1.length > 0))
      (fun p => pure (p.1.drop (decodeRune p.1).2, p.2 + 1)) f (s, n) = ⟨([], n + runeCount s), runeCount s⟩ := by
  induction f with
  | zero =>
    intro s n h
    have : s = [] := List.eq_nil_of_length_eq_zero (by omega)
    subst this; rfl
  | succ f ih =>
    intro s n h
    by_cases hne : s = []
    · subst hne; rw [forT_stop _ _ _ _ (by simp)]; rfl
    · have hp := C09.decodeRune_pos s hne
      have hl := C09.length_pos_of_ne_nil hne
      have hg : (fun (p : Bytes × Nat) => decide (p.1.length > 0)) (s, n) = true := by simp; omega
      apply T.ext
      · rw [forT_succ_fst (fun (p : Bytes × Nat) => decide (p.1.length > 0)) _ _ _ hg]
        simp only [pure_fst]
        rw [ih _ _ (by rw [List.length_drop]; omega), C09.runeCount_step s hne]
        simp only [Prod.mk.injEq, true_and]; omega
      · rw [forT_succ_snd (fun (p : Bytes × Nat) => decide (p.1.length > 0)) _ _ _ hg]
        simp only [pure_fst, pure_snd]
        rw [ih _ _ (by rw [List.length_drop]; omega), C09.runeCount_step s hne]
        simp only; omega

/-- the counting pass returns `runeCount s` … -/
theorem runeCountT_fst (s : Bytes) : (runeCountT s).1 = runeCount s := by
  simp [runeCountT, runeCountLoop s.length s 0 (Nat.le_refl _)]
/-- … in `runeCount s ≤ |s|` iterations -/
theorem runeCountT_snd (s : Bytes) : (runeCountT s).2 = runeCount s := by
  simp [runeCountT, runeCountLoop s.length s 0 (Nat.le_refl _)]

example : runeCountT [0x68, 0xC3, 0xA9] = ⟨2, 2⟩ := by decide

/-! ## slice.go — the rune-skipping and selecting loops -/

/-- slice.go:76 and slice.go:240 `for i := 0; i < start; i++ { _, sz := utf8.DecodeRuneInString(s); s = s[sz:] }`.
    NO guard in Go, none here: it costs `k` ticks whatever the string, and is only ever called with the clamped
    `start ≤ l`. -/
def dropFwdT (k : Nat) (s : Bytes) : T Bytes :=
  forT (fun _ => true) (fun s => pure (s.drop (decodeRune s).2)) k s

/-- slice.go:256 `for i := l - 1; i > start; i-- { _, sz := utf8.DecodeLastRuneInString(s); s = s[:len(s)-sz] }`
    (no guard; `l - 1 - start` iterations with the clamped `start`) -/
def dropBwdT (k : Nat) (s : Bytes) : T Bytes :=
  forT (fun _ => true) (fun s => pure (s.take (s.length - (decodeLastRune s).2))) k s

/-- slice.go:82 `for i := start; i < stop; i++ { _, sz := utf8.DecodeRuneInString(s[idx:]); idx += sz }`
    (no guard; `stop - start` iterations with the clamped bounds); the state is `idx` -/
def measureT (k : Nat) (s : Bytes) : T Nat :=
  forT (fun _ => true) (fun idx => pure (idx + (decodeRune (s.drop idx)).2)) k 0

/-- slice.go:250 `for j := 1; j < step && len(s) > 0; j++ { _, sz = utf8.DecodeRuneInString(s); s = s[sz:] }`:
    `k = step - 1` values of the counter, AND THE GUARD `len(s) > 0` -/
def skipFwdT (k : Nat) (s : Bytes) : T Bytes :=
  forT (fun s => decide (s.length > 0)) (fun s => pure (s.drop (decodeRune s).2)) k s

/-- slice.go:266 `for j := -1; j > step && len(s) > 0; j-- { _, sz = utf8.DecodeLastRuneInString(s);
    s = s[:len(s)-sz] }`: `k = -step - 1` values of the counter, and the guard `len(s) > 0` -/
def skipBwdT (k : Nat) (s : Bytes) : T Bytes :=
  forT (fun s => decide (s.length > 0)) (fun s => pure (s.take (s.length - (decodeLastRune s).2))) k s

/-- the body of slice.go:245: `r, sz := utf8.DecodeRuneInString(s); s = s[sz:]; b.WriteRune(r); <slice.go:250>`;
    the state is `(s, b)` -/
def walkFwdBody (step : Nat) (p : Bytes × Bytes) : T (Bytes × Bytes) := do
  let (r, sz) := decodeRune p.1
  let s := p.1.drop sz
  let b ← writeRuneT p.2 r
  let s ← skipFwdT (step - 1) s                          -- slice.go:250
  pure (s, b)

/-- slice.go:245 `for i := 0; i < n; i++ { … }` -/
def walkFwdT (step : Nat) (n : Nat) (s b : Bytes) : T (Bytes × Bytes) :=
  forT (fun _ => true) (walkFwdBody step) n (s, b)

/-- the body of slice.go:261: `r, sz := utf8.DecodeLastRuneInString(s); s = s[:len(s)-sz]; b.WriteRune(r);
    <slice.go:266>` -/
def walkBwdBody (step : Nat) (p : Bytes × Bytes) : T (Bytes × Bytes) := do
  let (r, sz) := decodeLastRune p.1
  let s := p.1.take (p.1.length - sz)
  let b ← writeRuneT p.2 r
  let s ← skipBwdT (step - 1) s                          -- slice.go:266
  pure (s, b)

/-- slice.go:261 `for i := 0; i < n; i++ { … }` -/
def walkBwdT (step : Nat) (n : Nat) (s b : Bytes) : T (Bytes × Bytes) :=
  forT (fun _ => true) (walkBwdBody step) n (s, b)

/-- slice.go:162 `for i, j := 0, start; i < n; i, j = i+1, j+step { r[i] = a[j] }`; the state is `(j, r)` -/
def copyStepT (xs : List Val) (step : Int) (n : Nat) (j : Int) (r : List Val) : T (Int × List Val) :=
  forT (fun _ => true) (fun (p : Int × List Val) => pure (p.1 + step, p.2 ++ [xs.getD p.1.toNat .null])) n (j, r)

/-! ### the unguarded loops: result and exact cost -/

theorem dropFwdT_eq : ∀ (k : Nat) (s : Bytes), dropFwdT k s = ⟨dropRunes k s, k⟩ := by
  intro k
  induction k with
  | zero => intro s; rfl
  | succ k ih =>
    intro s
    have e : dropRunes (k + 1) s = dropRunes k (s.drop (decodeRune s).2) := by
      by_cases hne : s = []
      · subst hne; rw [Utf8.dropRunes_nil]; simp [decodeRune, Utf8.dropRunes_nil]
      · exact Utf8.dropRunes_succ _ _ hne
    unfold dropFwdT at ih ⊢
    apply T.ext
    · rw [forT_succ_fst _ _ _ _ rfl, pure_fst, ih, e]
    · rw [forT_succ_snd _ _ _ _ rfl, pure_fst, pure_snd, ih]; simp only; omega

theorem dropBwdT_eq : ∀ (k : Nat) (s : Bytes), dropBwdT k s = ⟨dropLastRunes k s, k⟩ := by
  intro k
  induction k with
  | zero => intro s; rfl
  | succ k ih =>
    intro s
    have e : dropLastRunes (k + 1) s = dropLastRunes k (s.take (s.length - (decodeLastRune s).2)) := by
      by_cases hne : s = []
      · subst hne; rw [Utf8.dropLastRunes_nil]; simp [Utf8.dropLastRunes_nil]
      · exact Utf8.dropLastRunes_succ _ _ hne
    unfold dropBwdT at ih ⊢
    apply T.ext
    · rw [forT_succ_fst _ _ _ _ rfl, pure_fst, ih, e]
    · rw [forT_succ_snd _ _ _ _ rfl, pure_fst, pure_snd, ih]; simp only; omega

theorem measureLoop (s : Bytes) : ∀ (k idx : Nat),
    forT (fun _ => true) (fun idx => pure (idx + (decodeRune (s.drop idx)).2)) k idx
      = ⟨idx + runesLen k (s.drop idx), k⟩ := by
  intro k
  induction k with
  | zero => intro idx; rfl
  | succ k ih =>
    intro idx
    have e : runesLen (k + 1) (s.drop idx)
        = (decodeRune (s.drop idx)).2 + runesLen k (s.drop (idx + (decodeRune (s.drop idx)).2)) := by
      by_cases hne : s.drop idx = []
      · rw [hne, Utf8.runesLen_nil]
        have : s.drop (idx + (decodeRune ([] : Bytes)).2) = [] := by
          have : (decodeRune ([] : Bytes)).2 = 0 := rfl
          rw [this]; exact hne
        rw [this, Utf8.runesLen_nil]; rfl
      · rw [Utf8.runesLen_succ _ _ hne, List.drop_drop]
    apply T.ext
    · rw [forT_succ_fst _ _ _ _ rfl, pure_fst, ih, e]; simp only; omega
    · rw [forT_succ_snd _ _ _ _ rfl, pure_fst, pure_snd, ih]; simp only; omega

theorem measureT_eq (k : Nat) (s : Bytes) : measureT k s = ⟨runesLen k s, k⟩ := by
  unfold measureT; rw [measureLoop]; simp

theorem copyStepT_eq (xs : List Val) (step : Int) : ∀ (n : Nat) (j : Int) (r : List Val),
    copyStepT xs step n j r = ⟨(j + step * n, r ++ pickStep xs j step n), n⟩ := by
  intro n
  induction n with
  | zero => intro j r; simp [copyStepT, forT, pickStep]; rfl
  | succ n ih =>
    intro j r
    unfold copyStepT at ih ⊢
    apply T.ext
    · rw [forT_succ_fst _ _ _ _ rfl, pure_fst, ih]
      simp only [pickStep, List.append_assoc, List.singleton_append, Prod.mk.injEq, and_true]
      rw [Int.natCast_succ, Int.mul_add]; omega
    · rw [forT_succ_snd _ _ _ _ rfl, pure_fst, pure_snd, ih]; simp only; omega

/-! ### the guarded loops: result, and a cost that does not depend on the counter bound -/

/-- slice.go:250: the skipping loop returns what the model's `dropRunes` returns, in exactly
    `min k (runeCount s)` iterations — `k = step - 1` may be `2^63 - 2` -/
theorem skipFwdT_eq : ∀ (k : Nat) (s : Bytes), skipFwdT k s = ⟨dropRunes k s, min k (runeCount s)⟩ := by
  intro k
  induction k with
  | zero => intro s; simp [skipFwdT, forT, dropRunes]; rfl
  | succ k ih =>
    intro s
    unfold skipFwdT at ih ⊢
    by_cases hne : s = []
    · subst hne; rw [forT_stop _ _ _ _ (by simp)]; rfl
    · have hl := C09.length_pos_of_ne_nil hne
      have hg : (fun (s : Bytes) => decide (s.length > 0)) s = true := by simp; omega
      apply T.ext
      · rw [forT_succ_fst (fun (s : Bytes) => decide (s.length > 0)) _ _ _ hg, pure_fst, ih, Utf8.dropRunes_succ _ _ hne]
      · rw [forT_succ_snd (fun (s : Bytes) => decide (s.length > 0)) _ _ _ hg, pure_fst, pure_snd, ih, C09.runeCount_step s hne]; simp only; omega

/-- the same bound from the generic measure lemma: it is the guard `len(s) > 0` (hypothesis `hg` of
    `forT_snd_le_measure`) that bounds the loop by the length of the string -/
theorem skipFwdT_snd_le_length (k : Nat) (s : Bytes) : (skipFwdT k s).2 ≤ s.length := by
  have := forT_snd_le_measure (fun (s : Bytes) => decide (s.length > 0))
    (fun s => pure (s.drop (decodeRune s).2)) List.length 0
    (fun s h => by simpa using h)
    (fun s h => by
      have hl : 0 < s.length := by simpa using h
      have hne : s ≠ [] := by intro c; subst c; simp at hl
      have := C09.decodeRune_pos s hne
      simp only [pure_snd, pure_fst, List.length_drop]; omega) k s
  unfold skipFwdT
  omega

/-- slice.go:266: the same from the end of the string; `backCount s` is the number of
    `utf8.DecodeLastRuneInString` steps that exhaust `s` (`= runeCount s` on valid UTF-8, `≤ |s|` always) -/
theorem skipBwdT_eq : ∀ (k : Nat) (s : Bytes),
    skipBwdT k s = ⟨dropLastRunes k s, min k (Cost.backCount s)⟩ := by
  intro k
  induction k with
  | zero => intro s; simp [skipBwdT, forT, dropLastRunes]; rfl
  | succ k ih =>
    intro s
    unfold skipBwdT at ih ⊢
    by_cases hne : s = []
    · subst hne; rw [forT_stop _ _ _ _ (by simp)]; rfl
    · have hl := C09.length_pos_of_ne_nil hne
      have hg : (fun (s : Bytes) => decide (s.length > 0)) s = true := by simp; omega
      apply T.ext
      · rw [forT_succ_fst (fun (s : Bytes) => decide (s.length > 0)) _ _ _ hg, pure_fst, ih, Utf8.dropLastRunes_succ _ _ hne]
      · rw [forT_succ_snd (fun (s : Bytes) => decide (s.length > 0)) _ _ _ hg, pure_fst, pure_snd, ih, C09.backCount_step s hne]; simp only; omega

example : skipFwdT (2 ^ 63 - 2) [0x61, 0x62, 0x63] = ⟨[], 3⟩ := by
  rw [skipFwdT_eq, C09.dropRunes_clamp]; decide
example : skipBwdT (2 ^ 63 - 1) [0x61, 0x62, 0x63] = ⟨[], 3⟩ := by
  rw [skipBwdT_eq, C09.dropLastRunes_clamp]; decide

theorem walkFwdBody_eq (step : Nat) (s b : Bytes) : walkFwdBody step (s, b) =
    ⟨(dropRunes (step - 1) (s.drop (decodeRune s).2), b ++ encodeRune (decodeRune s).1),
     (encodeRune (decodeRune s).1).length + min (step - 1) (runeCount (s.drop (decodeRune s).2))⟩ := by
  apply T.ext <;> simp [walkFwdBody, skipFwdT_eq]

theorem walkBwdBody_eq (step : Nat) (s b : Bytes) : walkBwdBody step (s, b) =
    ⟨(dropLastRunes (step - 1) (s.take (s.length - (decodeLastRune s).2)), b ++ encodeRune (decodeLastRune s).1),
     (encodeRune (decodeLastRune s).1).length
       + min (step - 1) (Cost.backCount (s.take (s.length - (decodeLastRune s).2)))⟩ := by
  apply T.ext <;> simp [walkBwdBody, skipBwdT_eq]

/-- slice.go:245: the selecting loop appends to the builder what the model's `walkFwd` produces … -/
theorem walkFwdT_fst (step : Nat) : ∀ (n : Nat) (s b : Bytes),
    (walkFwdT step n s b).1.2 = b ++ walkFwd step n s := by
  intro n
  induction n with
  | zero => intro s b; simp [walkFwdT, forT, walkFwd]
  | succ n ih =>
    intro s b
    unfold walkFwdT at ih ⊢
    rw [forT_succ_fst _ _ _ _ rfl, walkFwdBody_eq, mk_fst, ih, Utf8.walkFwd_succ, List.append_assoc]

/-- … in at most `5` ticks per selected code point (iteration + up to 4 bytes written) plus ONE tick per code point
    of the string skipped: never more than `5 n + runeCount s`, whatever `step` -/
theorem walkFwdT_snd_le (step : Nat) : ∀ (n : Nat) (s b : Bytes),
    (walkFwdT step n s b).2 ≤ 5 * n + runeCount s := by
  intro n
  induction n with
  | zero => intro s b; simp [walkFwdT, forT]
  | succ n ih =>
    intro s b
    unfold walkFwdT at ih ⊢
    rw [forT_succ_snd _ _ _ _ rfl, walkFwdBody_eq, mk_fst, mk_snd]
    have h1 := ih (dropRunes (step - 1) (s.drop (decodeRune s).2)) (b ++ encodeRune (decodeRune s).1)
    rw [C09.runeCount_dropRunes] at h1
    have h2 := Utf8.encodeRune_length_le (decodeRune s).1
    have h3 : n = 0 ∨ s ≠ [] → 1 + runeCount (s.drop (decodeRune s).2) ≤ runeCount s ∨ n = 0 := by
      intro _
      by_cases hne : s = []
      · subst hne; right; rename_i h; cases h with
        | inl h => exact h
        | inr h => exact absurd rfl h
      · left; rw [C09.runeCount_step s hne]; omega
    have h4 : runeCount (s.drop (decodeRune s).2) ≤ runeCount s := by
      by_cases hne : s = []
      · subst hne; exact Nat.le_refl _
      · rw [C09.runeCount_step s hne]; omega
    omega

theorem walkBwdT_fst (step : Nat) : ∀ (n : Nat) (s b : Bytes),
    (walkBwdT step n s b).1.2 = b ++ walkBwd step n s := by
  intro n
  induction n with
  | zero => intro s b; simp [walkBwdT, forT, walkBwd]
  | succ n ih =>
    intro s b
    unfold walkBwdT at ih ⊢
    rw [forT_succ_fst _ _ _ _ rfl, walkBwdBody_eq, mk_fst, ih, Utf8.walkBwd_succ, List.append_assoc]

theorem walkBwdT_snd_le (step : Nat) : ∀ (n : Nat) (s b : Bytes),
    (walkBwdT step n s b).2 ≤ 5 * n + Cost.backCount s := by
  intro n
  induction n with
  | zero => intro s b; simp [walkBwdT, forT]
  | succ n ih =>
    intro s b
    unfold walkBwdT at ih ⊢
    rw [forT_succ_snd _ _ _ _ rfl, walkBwdBody_eq, mk_fst, mk_snd]
    have h1 := ih (dropLastRunes (step - 1) (s.take (s.length - (decodeLastRune s).2)))
      (b ++ encodeRune (decodeLastRune s).1)
    rw [C09.backCount_dropLastRunes] at h1
    have h2 := Utf8.encodeRune_length_le (decodeLastRune s).1
    have h4 : Cost.backCount (s.take (s.length - (decodeLastRune s).2)) ≤ Cost.backCount s := by
      by_cases hne : s = []
      · subst hne; exact Nat.le_refl _
      · rw [C09.backCount_step s hne]; omega
    omega

/-! ### `slice` and `sliceStep`, instrumented

  The clamping prologues (slice.go:26-48, 56-74, 97-159, 172-234) are branches and 64-bit arithmetic without any
  loop; the model's `clamp1` / `clampStep` are used for them as they are. -/

/-- `slice(v, start, stop)` on a string (slice.go:53-88) -/
def sliceStrT (s : Bytes) (start stop : Int) : T Bytes := do
  let l ← runeCountT s                                   -- slice.go:54
  match clamp1 l start stop with                         -- slice.go:56-74
  | none => pure []
  | some (a, b) => do
    let s ← dropFwdT a.toNat s                           -- slice.go:76
    let idx ← measureT (b - a).toNat s                   -- slice.go:82
    pure (s.take idx)                                    -- slice.go:87: a substring, nothing is copied

/-- `slice(v, start, stop)`, all of slice.go:22-91.  The array branch has no loop and allocates nothing
    (`a[start:stop]` shares the backing array, slice.go:50): it is `pure`. -/
def sliceT (v : Val) (start stop : Int) : T (Res Val) :=
  match v with
  | .arr _ _ => pure (slice v start stop)
  | .str s => do let r ← sliceStrT s start stop; pure (.ok (.str r))
  | _ => pure (.ok .null)

/-- `sliceStep(v, start, stop, step)` on an array (slice.go:94-167) -/
def sliceStepArrT (xs : List Val) (start stop step : Int) : T (List Val) :=
  match clampStep xs.length start stop step with         -- slice.go:97-159
  | none => pure []
  | some (a, n) => do
    allocT n.toNat                                       -- slice.go:161 `r := make([]any, n)`
    let p ← copyStepT xs step n.toNat a []               -- slice.go:162
    pure p.2

/-- `sliceStep(v, start, stop, step)` on a string (slice.go:169-274) -/
def sliceStepStrT (s : Bytes) (start stop step : Int) : T Bytes := do
  let l ← runeCountT s                                   -- slice.go:170
  match clampStep l start stop step with                 -- slice.go:172-234
  | none => pure []
  | some (a, n) => do
    allocT n.toNat                                       -- slice.go:237 `b.Grow(n)`
    if step > 0 then do
      let s ← dropFwdT a.toNat s                         -- slice.go:240
      let p ← walkFwdT step.toNat n.toNat s []           -- slice.go:245 (inner loop slice.go:250)
      pure p.2
    else do
      let s ← dropBwdT ((l : Int) - 1 - a).toNat s       -- slice.go:256
      let p ← walkBwdT (-step).toNat n.toNat s []        -- slice.go:261 (inner loop slice.go:266)
      pure p.2

/-- all of slice.go:93-277; on a map-ordered array the model answers `nondet` AFTER the same work -/
def sliceStepT (v : Val) (start stop step : Int) : T (Res Val) :=
  match v with
  | .arr t xs => do
    let r ← sliceStepArrT xs start stop step
    pure (match clampStep xs.length start stop step with
      | none => .ok (.arr .plain r)
      | some _ => if enum2 t xs then .nondet else .ok (.arr .plain r))
  | .str s => do let r ← sliceStepStrT s start stop step; pure (.ok (.str r))
  | _ => pure (.ok .null)

/-! ### (1) results: the instrumented functions compute what the model computes -/

theorem sliceStrT_fst (s : Bytes) (start stop : Int) :
    Res.ok (Val.str (sliceStrT s start stop).1) = slice (.str s) start stop := by
  simp only [sliceStrT, slice, bind_fst, runeCountT_fst]
  cases clamp1 (runeCount s) start stop with
  | none => rfl
  | some p => obtain ⟨a, b⟩ := p; simp [dropFwdT_eq, measureT_eq]

/-- the instrumented `slice` returns exactly the model's `slice` -/
theorem sliceT_fst (v : Val) (start stop : Int) : (sliceT v start stop).1 = slice v start stop := by
  cases v with
  | str s => simp only [sliceT, bind_fst, pure_fst]; exact sliceStrT_fst s start stop
  | arr t xs => rfl
  | _ => rfl

theorem sliceStepArrT_fst (xs : List Val) (start stop step : Int) :
    (sliceStepArrT xs start stop step).1 = (match clampStep xs.length start stop step with
      | none => []
      | some (a, n) => pickStep xs a step n.toNat) := by
  unfold sliceStepArrT
  cases clampStep xs.length start stop step with
  | none => rfl
  | some p => obtain ⟨a, n⟩ := p; simp [copyStepT_eq]

theorem sliceStepStrT_fst (s : Bytes) (start stop step : Int) :
    Res.ok (Val.str (sliceStepStrT s start stop step).1) = sliceStep (.str s) start stop step := by
  simp only [sliceStepStrT, sliceStep, bind_fst, runeCountT_fst]
  cases clampStep (runeCount s) start stop step with
  | none => rfl
  | some p =>
    obtain ⟨a, n⟩ := p
    simp only
    by_cases hp : step > 0
    · simp [hp, dropFwdT_eq, walkFwdT_fst]
    · simp [hp, dropBwdT_eq, walkBwdT_fst]

/-- the instrumented `sliceStep` returns exactly the model's `sliceStep` -/
theorem sliceStepT_fst (v : Val) (start stop step : Int) :
    (sliceStepT v start stop step).1 = sliceStep v start stop step := by
  cases v with
  | str s => simp only [sliceStepT, bind_fst, pure_fst]; exact sliceStepStrT_fst s start stop step
  | arr t xs =>
    simp only [sliceStepT, bind_fst, pure_fst, sliceStepArrT_fst, sliceStep]
    cases clampStep xs.length start stop step with
    | none => rfl
    | some p => obtain ⟨a, n⟩ := p; rfl
  | _ => rfl

/-! ### (2) costs: linear in the subject for ALL integers -/

/-- `slice` on a string of `n` code points: at most `3 n` ticks (count, skip, measure), ∀ start stop : Int -/
theorem sliceStrT_snd_le (s : Bytes) : ∀ start stop : Int, (sliceStrT s start stop).2 ≤ 3 * runeCount s := by
  intro start stop
  simp only [sliceStrT, bind_snd, bind_fst, runeCountT_fst, runeCountT_snd]
  cases h : clamp1 (runeCount s) start stop with
  | none => simp only [pure_snd]; omega
  | some p =>
    obtain ⟨a, b⟩ := p
    have := C09.clamp1_bounds _ start stop a b (by omega) h
    simp only [bind_snd, bind_fst, dropFwdT_eq, measureT_eq, mk_fst, mk_snd, pure_snd]; omega

/-- `slice`, any value: `≤ 3 n` ticks for a string of `n` code points, no tick at all for an array -/
theorem sliceT_snd_le (v : Val) : ∀ start stop : Int,
    (sliceT v start stop).2 ≤ (match v with | .str s => 3 * runeCount s | _ => 0) := by
  intro start stop
  cases v with
  | str s => simp only [sliceT, bind_snd, pure_snd]; have := sliceStrT_snd_le s start stop; omega
  | arr t xs => simp [sliceT]
  | _ => simp [sliceT]

/-- `sliceStep` on an array of length `n`: `make` and the copy loop are `≤ n` each, ∀ start stop step : Int -/
theorem sliceStepArrT_snd_le (xs : List Val) : ∀ start stop step : Int,
    (sliceStepArrT xs start stop step).2 ≤ 2 * xs.length := by
  intro start stop step
  unfold sliceStepArrT
  cases h : clampStep xs.length start stop step with
  | none => simp
  | some p =>
    obtain ⟨a, n⟩ := p
    have := C09.clampStep_bounds _ start stop step a n h
    simp only [bind_snd, bind_fst, allocT_snd, copyStepT_eq, mk_snd, pure_snd]; omega

/-- the cost of the string branch of `sliceStep`, spelled out -/
theorem sliceStepStrT_snd (s : Bytes) (start stop step : Int) :
    (sliceStepStrT s start stop step).2 = runeCount s + (match clampStep (runeCount s) start stop step with
      | none => 0
      | some (a, n) => n.toNat +
        (if step > 0 then a.toNat + (walkFwdT step.toNat n.toNat (dropRunes a.toNat s) []).2
         else ((runeCount s : Int) - 1 - a).toNat
           + (walkBwdT (-step).toNat n.toNat (dropLastRunes ((runeCount s : Int) - 1 - a).toNat s) []).2)) := by
  simp only [sliceStepStrT, bind_snd, bind_fst, runeCountT_fst, runeCountT_snd]
  cases clampStep (runeCount s) start stop step with
  | none => rfl
  | some p =>
    obtain ⟨a, n⟩ := p
    simp only [bind_snd, allocT_snd]
    by_cases hp : step > 0
    · simp only [hp, if_true, bind_snd, bind_fst, dropFwdT_eq, mk_fst, mk_snd, pure_snd]; omega
    · simp only [hp, if_false, bind_snd, bind_fst, dropBwdT_eq, mk_fst, mk_snd, pure_snd]; omega

/-- `sliceStep` on a string of `n` code points and `|s|` bytes, ANY bytes, ∀ start stop step : Int:
    at most `8 n + |s|` ticks (count `n`, `Grow ≤ n`, lead-in `≤ n`, `≤ 5` per selected code point, `≤ |s|` skips) -/
theorem sliceStepStrT_snd_le (s : Bytes) : ∀ start stop step : Int,
    (sliceStepStrT s start stop step).2 ≤ 8 * runeCount s + s.length := by
  intro start stop step
  have hr := C09.runeCount_le_length _ s (Nat.le_refl _)
  rw [sliceStepStrT_snd]
  cases h : clampStep (runeCount s) start stop step with
  | none => simp only; omega
  | some p =>
    obtain ⟨a, n⟩ := p
    have hb := C09.clampStep_bounds _ start stop step a n h
    simp only
    by_cases hp : step > 0
    · simp only [hp, if_true]
      have h1 := walkFwdT_snd_le step.toNat n.toNat (dropRunes a.toNat s) []
      rw [C09.runeCount_dropRunes] at h1
      omega
    · simp only [hp, if_false]
      have h1 := walkBwdT_snd_le (-step).toNat n.toNat (dropLastRunes ((runeCount s : Int) - 1 - a).toNat s) []
      rw [C09.backCount_dropLastRunes] at h1
      have h2 := C09.backCount_le_length _ s (Nat.le_refl _)
      omega

/-- in code points only: `≤ 8 n` for a positive step, and for a negative step when decoding from the back finds as
    many code points as decoding from the front (`C09.backCount_valid`: always so on valid UTF-8) -/
theorem sliceStepStrT_snd_le_runes (s : Bytes) (start stop step : Int)
    (hv : step > 0 ∨ Cost.backCount s = runeCount s) :
    (sliceStepStrT s start stop step).2 ≤ 8 * runeCount s := by
  rw [sliceStepStrT_snd]
  cases h : clampStep (runeCount s) start stop step with
  | none => simp only; omega
  | some p =>
    obtain ⟨a, n⟩ := p
    have hb := C09.clampStep_bounds _ start stop step a n h
    simp only
    by_cases hp : step > 0
    · simp only [hp, if_true]
      have h1 := walkFwdT_snd_le step.toNat n.toNat (dropRunes a.toNat s) []
      rw [C09.runeCount_dropRunes] at h1
      omega
    · have hv' : Cost.backCount s = runeCount s := by
        cases hv with
        | inl h => exact absurd h hp
        | inr h => exact h
      simp only [hp, if_false]
      have h1 := walkBwdT_snd_le (-step).toNat n.toNat (dropLastRunes ((runeCount s : Int) - 1 - a).toNat s) []
      rw [C09.backCount_dropLastRunes, hv'] at h1
      omega

/-- `sliceStep`, any value, ∀ start stop step : Int: `≤ 2·length` for an array, `≤ 9·|s|` for a string -/
theorem sliceStepT_snd_le (v : Val) : ∀ start stop step : Int,
    (sliceStepT v start stop step).2 ≤ (match v with
      | .arr _ xs => 2 * xs.length
      | .str s => 9 * s.length
      | _ => 0) := by
  intro start stop step
  cases v with
  | str s =>
    simp only [sliceStepT, bind_snd, pure_snd]
    have := sliceStepStrT_snd_le s start stop step
    have := C09.runeCount_le_length _ s (Nat.le_refl _)
    omega
  | arr t xs =>
    simp only [sliceStepT, bind_snd, pure_snd]
    have := sliceStepArrT_snd_le xs start stop step
    omega
  | _ => simp [sliceStepT]

/-- "héllo"[::2^62], "héllo"[::-2^63] (6 bytes, 5 code points) -/
example : sliceStepStrT [0x68, 0xC3, 0xA9, 0x6C, 0x6C, 0x6F] 0 (2 ^ 63 - 1) (2 ^ 62) = ⟨[0x68], 5 + 1 + 0 + (1 + 1 + 4)⟩ := by
  apply T.ext
  · have := sliceStepStrT_fst [0x68, 0xC3, 0xA9, 0x6C, 0x6C, 0x6F] 0 (2 ^ 63 - 1) (2 ^ 62)
    have e : sliceStep (.str [0x68, 0xC3, 0xA9, 0x6C, 0x6C, 0x6F]) 0 (2 ^ 63 - 1) (2 ^ 62) = .ok (.str [0x68]) := by rfl
    rw [e] at this; injection this with this; injection this
  · simp only [sliceStepStrT, bind_snd, bind_fst, runeCountT_fst, runeCountT_snd]
    have e1 : runeCount [0x68, 0xC3, 0xA9, 0x6C, 0x6C, 0x6F] = 5 := by decide
    have e2 : clampStep (5 : Nat) 0 (2 ^ 63 - 1) (2 ^ 62) = some (0, 1) := by decide
    rw [e1, e2]
    simp [dropFwdT_eq, walkFwdT, forT, skipFwdT_eq, dropRunes]
    decide

/-! ### what the theorems say when the guard is deleted

  `skipNoGuardT` is slice.go:250 with `j < step && len(s) > 0` replaced by `j < step`.  It returns the same string
  (decoding the empty string yields size 0), so no test on results can tell the two apart — but its cost is `k`, the
  magnitude of `step`, and `skipFwdT_eq` / `forT_snd_le_measure` have no counterpart for it. -/

/-- slice.go:250 WITHOUT its guard -/
def skipNoGuardT (k : Nat) (s : Bytes) : T Bytes :=
  forT (fun _ => true) (fun s => pure (s.drop (decodeRune s).2)) k s

/-- the mutant computes the same result at a cost equal to the magnitude of the step -/
theorem skipNoGuardT_eq (k : Nat) (s : Bytes) : skipNoGuardT k s = ⟨dropRunes k s, k⟩ := dropFwdT_eq k s

/-- so no bound in the size of the string exists for it: on the empty string it still costs `k`.
    (The witness is the EXHAUSTED string, which slice.go:250 does see — after the last code point of the subject.  For a
    fixed non-empty subject, for the mutant carried through the whole of `sliceStep` on "ab", and for the backward loop
    slice.go:266, see `Jmes/Proofs/C09EMutants.lean`: `skipNoGuard_unbounded_nonempty`, `sliceStep_fwd_guard_matters`,
    `sliceStep_bwd_guard_matters`.) -/
theorem skipNoGuardT_unbounded : ¬ ∃ c : Nat, ∀ (k : Nat) (s : Bytes), (skipNoGuardT k s).2 ≤ c * (s.length + 1) := by
  intro ⟨c, h⟩
  have := h (c + 1) []
  rw [skipNoGuardT_eq] at this
  simp at this
  omega

example : (skipNoGuardT (2 ^ 62) []).1 = (skipFwdT (2 ^ 62) []).1 ∧
    (skipNoGuardT (2 ^ 62) []).2 = 2 ^ 62 ∧ (skipFwdT (2 ^ 62) []).2 = 0 := by
  rw [skipNoGuardT_eq, skipFwdT_eq]; exact ⟨rfl, rfl, by decide⟩

end Jmes.C09C
