/-
  Helpers for Jmes/Properties/C05E.lean: the EXACT RATIONAL reading (core `Rat`).

  `qOf n c e = (-1)^n · c · 10^e : Rat`; `valQ v` the rational a number value denotes; `opQ` the exact operations on
  rationals (`//` truncates toward zero); `ratVal` the exact value of an arithmetic expression; `RepQ q`: `q` is a number
  of the format.  `opNum_exact`: when the exact result is `RepQ` the correctly rounded operation returns it;
  `arithSem_exact`: the same for whole expressions.
-/
import Jmes.Proofs.C05ELemmas
namespace Jmes.C05ERat
open Jmes.Dec Jmes.C05ELemmas Jmes.C05CLemmas

/-- the sign `±1` -/
def sgn (n : Bool) : Rat := if n then -1 else 1

/-- the rational number `(-1)^n · c · 10^e` -/
def qOf (n : Bool) (c : Nat) (e : Int) : Rat := sgn n * (c : Rat) * (10 : Rat) ^ e

theorem ten_ne : (10 : Rat) ≠ 0 := by decide
theorem ten_pos : (0 : Rat) < 10 := by decide
theorem p10_pos (e : Int) : (0 : Rat) < (10 : Rat) ^ e := Rat.zpow_pos ten_pos
theorem p10_ne (e : Int) : (10 : Rat) ^ e ≠ 0 := Rat.ne_of_gt (p10_pos e)

theorem p10_add (a b : Int) : (10 : Rat) ^ (a + b) = 10 ^ a * 10 ^ b := Rat.zpow_add ten_ne a b

theorem p10_nat (k : Nat) : ((10 ^ k : Nat) : Rat) = (10 : Rat) ^ (k : Int) := by
  rw [Rat.zpow_natCast, Rat.natCast_pow]; rfl

theorem qOf_zero (n : Bool) (e : Int) : qOf n 0 e = 0 := by simp [qOf]

theorem qOf_shift (n : Bool) (c k : Nat) (e : Int) : qOf n (c * 10 ^ k) e = qOf n c (e + k) := by
  unfold qOf
  rw [Rat.natCast_mul, p10_nat, Int.add_comm, p10_add]
  grind

theorem sgn_sq (n : Bool) : sgn n * sgn n = 1 := by cases n <;> simp [sgn] <;> grind
theorem sgn_ne (n : Bool) : sgn n ≠ 0 := by cases n <;> simp [sgn] <;> grind
theorem sgn_not (n : Bool) : sgn (!n) = - sgn n := by cases n <;> simp [sgn] 
theorem sgn_xor (a b : Bool) : sgn (a != b) = sgn a * sgn b := by cases a <;> cases b <;> simp [sgn] <;> grind

theorem qOf_neg (n : Bool) (c : Nat) (e : Int) : qOf (!n) c e = - qOf n c e := by
  unfold qOf; rw [sgn_not]; grind

theorem sgn_int (n : Bool) : (((if n then -1 else 1 : Int)) : Rat) = sgn n := by cases n <;> simp [sgn] <;> rfl

theorem qOf_sval (n : Bool) (c : Nat) (e m : Int) (h : m ≤ e) : qOf n c e = ((sval n c e m : Int) : Rat) * (10 : Rat) ^ m := by
  unfold sval pow10
  rw [Rat.intCast_mul, sgn_int, Rat.intCast_natCast]
  show qOf n c e = qOf n (c * 10 ^ (e - m).toNat) m
  have : m + ((e - m).toNat : Int) = e := by omega
  rw [qOf_shift, this]

theorem cancel_p10 {a b : Rat} (e : Int) (h : a * (10 : Rat) ^ e = b * (10 : Rat) ^ e) : a = b := by
  have := congrArg (· * ((10 : Rat) ^ e)⁻¹) h
  simp only [Rat.mul_assoc, Rat.mul_inv_cancel _ (p10_ne e), Rat.mul_one] at this
  exact this

/-- from an equation between decimal fractions to the natural numbers -/
theorem nat_of_q {c c' : Nat} {e e' : Int} (h : (c : Rat) * (10 : Rat) ^ e = (c' : Rat) * (10 : Rat) ^ e') (hle : e ≤ e') :
    c = c' * 10 ^ (e' - e).toNat := by
  have he : e' = ((e' - e).toNat : Int) + e := by omega
  rw [he, p10_add, ← Rat.mul_assoc, ← p10_nat, ← Rat.natCast_mul] at h
  have := cancel_p10 e h
  exact Rat.natCast_inj.mp this

theorem qOf_eq_zero {n : Bool} {c : Nat} {e : Int} : qOf n c e = 0 ↔ c = 0 := by
  constructor
  · intro h
    unfold qOf at h
    have h1 : sgn n * (c : Rat) * (10 : Rat) ^ e = 0 * (10 : Rat) ^ e := by rw [h]; simp
    have h2 := cancel_p10 e h1
    have h3 : (c : Rat) = 0 := by
      have := congrArg (sgn n * ·) h2
      simp only [← Rat.mul_assoc, sgn_sq, Rat.one_mul, Rat.mul_zero] at this
      exact this
    exact Rat.natCast_inj.mp h3
  · intro h; subst h; exact qOf_zero n e

theorem qOf_abs {n n' : Bool} {c c' : Nat} {e e' : Int} (h : qOf n c e = qOf n' c' e') :
    (c = 0 ∧ c' = 0) ∨ ((c : Rat) * (10 : Rat) ^ e = (c' : Rat) * (10 : Rat) ^ e') := by
  by_cases hn : n = n'
  · subst hn
    right
    unfold qOf at h
    have := congrArg (sgn n * ·) h
    simp only [← Rat.mul_assoc, sgn_sq, Rat.one_mul] at this
    exact this
  · left
    have h1 : 0 ≤ (c : Rat) * (10 : Rat) ^ e := Rat.mul_nonneg Rat.natCast_nonneg (Rat.le_of_lt (p10_pos e))
    have h2 : 0 ≤ (c' : Rat) * (10 : Rat) ^ e' := Rat.mul_nonneg Rat.natCast_nonneg (Rat.le_of_lt (p10_pos e'))
    have h3 : (c : Rat) * (10 : Rat) ^ e = - ((c' : Rat) * (10 : Rat) ^ e') := by
      unfold qOf at h
      cases n <;> cases n' <;> simp [sgn] at h hn <;> grind
    have h4 : (c : Rat) * (10 : Rat) ^ e = 0 := by grind
    have h5 : (c' : Rat) * (10 : Rat) ^ e' = 0 := by grind
    have z1 : qOf false c e = 0 := by unfold qOf; simp [sgn]; exact h4
    have z2 : qOf false c' e' = 0 := by unfold qOf; simp [sgn]; exact h5
    exact ⟨qOf_eq_zero.mp z1, qOf_eq_zero.mp z2⟩

/-- **`Representable` is a property of the value** -/
theorem rep_by_value {n n' : Bool} {c c' : Nat} {e e' : Int} (h : qOf n c e = qOf n' c' e') (hr : Representable c e) :
    Representable c' e' := by
  rcases qOf_abs h with ⟨_, rfl⟩ | hq
  · exact fits_zero e'
  · by_cases hle : e ≤ e'
    · have hc := nat_of_q hq hle
      rw [hc, C05B.fits_value] at hr
      have : e + ((e' - e).toNat : Int) = e' := by omega
      rwa [this] at hr
    · have hc := nat_of_q hq.symm (by omega : e' ≤ e)
      rw [hc, C05B.fits_value]
      have : e' + ((e - e').toNat : Int) = e := by omega
      rwa [this]

theorem qOf_denotes {d : Dec} {n : Bool} {C : Nat} {E : Int} (h : Denotes d n C E) :
    ∃ c e, d = .fin n c e ∧ qOf n c e = qOf n C E := by
  obtain ⟨c, e, rfl, h | ⟨k, he, hC⟩⟩ := h
  · obtain ⟨rfl, rfl⟩ := h
    exact ⟨0, e, rfl, by rw [qOf_zero, qOf_zero]⟩
  · exact ⟨c, e, rfl, by rw [hC, qOf_shift, he]⟩

/-! ### the exact value of a value -/

/-- the exact rational value of a value that is a finite number -/
def valQ (v : Val) : Option Rat := (numOf v).map (fun p => qOf p.1 p.2.1 p.2.2)

theorem valQ_of_toDecimal {v : Val} {n : Bool} {c : Nat} {e : Int} (h : toDecimal v = some (.fin n c e)) :
    valQ v = some (qOf n c e) := by simp [valQ, numOf_some h]

theorem valQ_dec_denotes {d : Dec} {n : Bool} {C : Nat} {E : Int} (h : Denotes d n C E) :
    valQ (.num (.dec d)) = some (qOf n C E) := by
  obtain ⟨c, e, rfl, hq⟩ := qOf_denotes h
  rw [valQ_of_toDecimal (v := .num (.dec (.fin n c e))) rfl, hq]

theorem valQ_zeroV (b : Bool) : valQ (zeroV b) = some 0 := by
  rw [zeroV, valQ_of_toDecimal (v := .num (.dec (.fin b 0 0))) rfl, qOf_zero]

/-- a representable exact result is returned exactly -/
theorem roundedRes_exact_q (neg : Bool) (c : Nat) (e : Int) (h : Representable c e) :
    ∃ v, C05C.roundedRes neg c e = .ok v ∧ valQ v = some (qOf neg c e) :=
  ⟨_, C05C.roundedRes_exact neg c e h, valQ_dec_denotes (denotes_normalize neg c e)⟩

/-- the rational `q` is a number of the format -/
def RepQ (q : Rat) : Prop := ∃ (n : Bool) (c : Nat) (e : Int), Representable c e ∧ q = qOf n c e

theorem rep_of_repQ {q : Rat} (h : RepQ q) {n : Bool} {c : Nat} {e : Int} (hq : q = qOf n c e) : Representable c e := by
  obtain ⟨n', c', e', hr, hq'⟩ := h
  exact rep_by_value (hq'.symm.trans hq) hr

theorem int_q (S : Int) (m : Int) : ((S : Int) : Rat) * (10 : Rat) ^ m = qOf (decide (S < 0)) S.natAbs m := by
  unfold qOf
  by_cases hneg : S < 0
  · have hS : S = -((S.natAbs : Nat) : Int) := by omega
    have : (S : Rat) = -((S.natAbs : Nat) : Rat) := by
      rw [← Rat.intCast_natCast, ← Rat.intCast_neg]; congr 1
    simp only [hneg, decide_true, sgn, if_true]
    rw [this]; grind
  · have hS : S = ((S.natAbs : Nat) : Int) := by omega
    have : (S : Rat) = ((S.natAbs : Nat) : Rat) := by
      rw [← Rat.intCast_natCast]; congr 1
    simp only [hneg, decide_false, sgn]
    rw [this]; simp

theorem addNum_exact {n1 n2 : Bool} {c1 c2 : Nat} {e1 e2 : Int} {q : Rat} (hq : qOf n1 c1 e1 + qOf n2 c2 e2 = q) (hr : RepQ q) :
    ∃ v, addNum n1 c1 e1 n2 c2 e2 = .ok v ∧ valQ v = some q := by
  have hsum : q = ((sval n1 c1 e1 (min e1 e2) + sval n2 c2 e2 (min e1 e2) : Int) : Rat) * (10 : Rat) ^ (min e1 e2) := by
    rw [← hq, qOf_sval n1 c1 e1 (min e1 e2) (Int.min_le_left ..), qOf_sval n2 c2 e2 (min e1 e2) (Int.min_le_right ..),
      Rat.intCast_add, Rat.add_mul]
  unfold addNum
  generalize sval n1 c1 e1 (min e1 e2) + sval n2 c2 e2 (min e1 e2) = S at hsum
  by_cases hS : S = 0
  · rw [if_pos hS]
    refine ⟨_, rfl, ?_⟩
    rw [valQ_zeroV, hsum, hS]; simp
  · rw [if_neg hS]
    rw [int_q] at hsum
    obtain ⟨v, h1, h2⟩ := roundedRes_exact_q (decide (S < 0)) S.natAbs (min e1 e2) (rep_of_repQ hr hsum)
    exact ⟨v, h1, by rw [h2, hsum]⟩

theorem qOf_mul (n1 n2 : Bool) (c1 c2 : Nat) (e1 e2 : Int) :
    qOf n1 c1 e1 * qOf n2 c2 e2 = qOf (n1 != n2) (c1 * c2) (e1 + e2) := by
  unfold qOf
  rw [sgn_xor, Rat.natCast_mul, p10_add]
  grind

theorem mulNum_exact {n1 n2 : Bool} {c1 c2 : Nat} {e1 e2 : Int} {q : Rat} (hq : qOf n1 c1 e1 * qOf n2 c2 e2 = q) (hr : RepQ q) :
    ∃ v, opNum .mul n1 c1 e1 n2 c2 e2 = .ok v ∧ valQ v = some q := by
  rw [qOf_mul] at hq
  obtain ⟨v, h1, h2⟩ := roundedRes_exact_q (n1 != n2) (c1 * c2) (e1 + e2) (rep_of_repQ hr hq.symm)
  exact ⟨v, h1, by rw [h2, hq]⟩

/-- truncation toward zero -/
def qtrunc (q : Rat) : Int := if 0 ≤ q then q.floor else -((-q).floor)

theorem floor_natdiv (A B : Nat) (hB : 0 < B) : ((A : Rat) / (B : Rat)).floor = ((A / B : Nat) : Int) := by
  have hB' : (0 : Rat) < (B : Rat) := Rat.natCast_pos.mpr hB
  have h1 : ((A / B : Nat) : Int) ≤ ((A : Rat) / (B : Rat)).floor := by
    rw [Rat.le_floor_iff, Rat.intCast_natCast]
    apply Rat.not_lt.mp
    intro h
    rw [Rat.div_lt_iff hB', ← Rat.natCast_mul, Rat.natCast_lt_natCast] at h
    have := Nat.div_mul_le_self A B
    omega
  have h2 : ((A : Rat) / (B : Rat)).floor < ((A / B : Nat) : Int) + 1 := by
    rw [Rat.floor_lt_iff, Rat.div_lt_iff hB']
    have : (((A / B : Nat) : Int) + 1 : Int) = (((A / B + 1 : Nat) : Nat) : Int) := by simp
    rw [this, Rat.intCast_natCast, ← Rat.natCast_mul, Rat.natCast_lt_natCast]
    have h3 := Nat.div_add_mod A B
    have h4 := Nat.mod_lt A hB
    rw [Nat.add_mul, Nat.one_mul, Nat.mul_comm (A / B) B]
    omega
  omega

theorem qtrunc_neg (x : Rat) : qtrunc (-x) = - qtrunc x := by
  unfold qtrunc
  by_cases h1 : 0 ≤ x
  · by_cases h2 : 0 ≤ -x
    · have : x = 0 := Rat.nonneg_antisymm h1 h2
      subst this
      have : Rat.floor 0 = 0 := Rat.floor_intCast 0
      simp [this]
    · simp [h1, h2]
  · have h2 : 0 ≤ -x := by
      rcases Rat.nonneg_total x with h | h
      · exact absurd h h1
      · exact h
    simp [h1, h2]

theorem qtrunc_natdiv (s : Bool) (A B : Nat) (hB : 0 < B) :
    qtrunc (sgn s * ((A : Rat) / (B : Rat))) = (if s then -1 else 1) * ((A / B : Nat) : Int) := by
  have hB' : (0 : Rat) < (B : Rat) := Rat.natCast_pos.mpr hB
  have hnn : (0 : Rat) ≤ (A : Rat) / (B : Rat) := by
    rw [Rat.div_def]; exact Rat.mul_nonneg Rat.natCast_nonneg (Rat.le_of_lt (Rat.inv_pos.mpr hB'))
  have h0 : qtrunc ((A : Rat) / (B : Rat)) = ((A / B : Nat) : Int) := by
    unfold qtrunc; rw [if_pos hnn, floor_natdiv A B hB]
  cases s
  · simp only [sgn, Bool.false_eq_true, if_false, Rat.one_mul, Int.one_mul]; exact h0
  · have : sgn true * ((A : Rat) / (B : Rat)) = -((A : Rat) / (B : Rat)) := by simp [sgn]; grind
    rw [this, qtrunc_neg, h0]; simp

theorem qOf_aligned (n : Bool) (c : Nat) (e m : Int) (h : m ≤ e) : qOf n c e = qOf n (aligned c e m) m := by
  unfold aligned
  rw [qOf_shift]; congr 1; omega

/-- the exact quotient of two numbers, through the coefficients aligned at a common exponent -/
theorem q_div (n1 n2 : Bool) (A B : Nat) (m : Int) (hB : B ≠ 0) :
    qOf n1 A m / qOf n2 B m = sgn (n1 != n2) * ((A : Rat) / (B : Rat)) := by
  have hB' : (B : Rat) ≠ 0 := fun h => hB (Rat.natCast_inj.mp h)
  have hy : qOf n2 B m ≠ 0 := fun h => hB (qOf_eq_zero.mp h)
  have : qOf n1 A m = sgn (n1 != n2) * ((A : Rat) / (B : Rat)) * qOf n2 B m := by
    unfold qOf
    rw [sgn_xor]
    have := sgn_sq n2
    grind
  rw [this, Rat.mul_div_cancel hy]

/-- **the exact operation on rationals**: `//` is the quotient truncated toward zero, `%` the remainder
    `x − y·(x // y)` (it has the sign of the dividend); a zero divisor has no value -/
def opQ : AOp → Rat → Rat → Option Rat
  | .add, x, y => some (x + y)
  | .sub, x, y => some (x - y)
  | .mul, x, y => some (x * y)
  | .div, x, y => if y = 0 then none else some (x / y)
  | .idiv, x, y => if y = 0 then none else some ((qtrunc (x / y) : Int) : Rat)
  | .mod, x, y => if y = 0 then none else some (x - y * ((qtrunc (x / y) : Int) : Rat))

theorem idiv_q (n1 n2 : Bool) (c1 c2 : Nat) (e1 e2 : Int) (hc2 : c2 ≠ 0) :
    ((qtrunc (qOf n1 c1 e1 / qOf n2 c2 e2) : Int) : Rat) =
      qOf (n1 != n2) (aligned c1 e1 (min e1 e2) / aligned c2 e2 (min e1 e2)) 0 := by
  have hB := C05B.aligned_pos hc2 e2 (min e1 e2)
  rw [qOf_aligned n1 c1 e1 (min e1 e2) (Int.min_le_left ..), qOf_aligned n2 c2 e2 (min e1 e2) (Int.min_le_right ..),
    q_div _ _ _ _ _ (Nat.pos_iff_ne_zero.mp hB), qtrunc_natdiv _ _ _ hB, Rat.intCast_mul, sgn_int, Rat.intCast_natCast]
  unfold qOf
  simp

theorem mod_q (n1 n2 : Bool) (c1 c2 : Nat) (e1 e2 : Int) (hc2 : c2 ≠ 0) :
    qOf n1 c1 e1 - qOf n2 c2 e2 * ((qtrunc (qOf n1 c1 e1 / qOf n2 c2 e2) : Int) : Rat) =
      qOf n1 (aligned c1 e1 (min e1 e2) % aligned c2 e2 (min e1 e2)) (min e1 e2) := by
  have hB := C05B.aligned_pos hc2 e2 (min e1 e2)
  rw [idiv_q n1 n2 c1 c2 e1 e2 hc2]
  rw [qOf_aligned n1 c1 e1 (min e1 e2) (Int.min_le_left ..), qOf_aligned n2 c2 e2 (min e1 e2) (Int.min_le_right ..)]
  generalize aligned c1 e1 (min e1 e2) = A at *
  generalize aligned c2 e2 (min e1 e2) = B at *
  have hdm : (A : Rat) = (B : Rat) * ((A / B : Nat) : Rat) + ((A % B : Nat) : Rat) := by
    rw [← Rat.natCast_mul, ← Rat.natCast_add, Nat.div_add_mod]
  unfold qOf
  rw [sgn_xor, Rat.zpow_zero]
  have := sgn_sq n2
  generalize ((A / B : Nat) : Rat) = k at *
  generalize ((A % B : Nat) : Rat) = r at *
  grind

theorem roundedResD_dvd (neg : Bool) (Q D : Nat) (e : Int) (hD : 0 < D) :
    C05C.roundedResD neg (Q * D) D e = C05C.roundedRes neg Q e := by
  rw [← C05C.checkD_roundD, ← C05C.checkD_roundN]
  have : roundD neg (Q * D) D e = roundD neg (Q * D) (1 * D) e := by rw [Nat.one_mul]
  rw [this, roundD_common neg Q 1 D e hD]
  rfl

theorem repQ_canon {q : Rat} (h : RepQ q) : ∃ (n : Bool) (c0 : Nat) (e0 : Int), c0 ≤ MAXSIG ∧ EMIN ≤ e0 ∧ e0 ≤ EMAX ∧ q = qOf n c0 e0 := by
  obtain ⟨n, c, e, ⟨c0, i, j, heq, hc0, hlo, hhi⟩, hq⟩ := h
  refine ⟨n, c0, e - i + j, hc0, hlo, hhi, ?_⟩
  rw [hq, ← qOf_shift n c0 j, ← heq, qOf_shift]
  congr 1; omega

theorem divNum_exact {n1 n2 : Bool} {c1 c2 : Nat} {e1 e2 : Int} {q : Rat} (hc2 : c2 ≠ 0)
    (hq : qOf n1 c1 e1 / qOf n2 c2 e2 = q) (hr : RepQ q) :
    ∃ v, opNum .div n1 c1 e1 n2 c2 e2 = .ok v ∧ valQ v = some q := by
  unfold opNum
  simp only [hc2, if_false]
  by_cases hc1 : c1 = 0
  · subst hc1
    simp only [if_true]
    refine ⟨_, rfl, ?_⟩
    rw [valQ_zeroV, ← hq, qOf_zero, Rat.div_def, Rat.zero_mul]
  · simp only [hc1, if_false]
    have hy : qOf n2 c2 e2 ≠ 0 := fun h => hc2 (qOf_eq_zero.mp h)
    have hc2' : (c2 : Rat) ≠ 0 := fun h => hc2 (Rat.natCast_inj.mp h)
    generalize ha : 40 + ndigits c2 = a
    have hbig : MAXSIG < c1 * 10 ^ a / c2 := by rw [← ha]; exact quoFin_q_big c1 c2 hc1 hc2
    -- the exact quotient, as `± X / c2 · 10^E`
    have hx : q * (c2 : Rat) = qOf (n1 != n2) (c1 * 10 ^ a) (e1 - e2 - (a : Int)) := by
      rw [← hq, qOf_shift]
      have : qOf n1 c1 e1 = qOf (n1 != n2) c1 (e1 - e2 - (a : Int) + (a : Int)) / (c2 : Rat) * qOf n2 c2 e2 := by
        have he : e1 - e2 - (a : Int) + (a : Int) = e1 + (-e2) := by omega
        rw [he]
        unfold qOf
        rw [sgn_xor, p10_add, Rat.zpow_neg]
        have := sgn_sq n2
        have := Rat.mul_inv_cancel _ (p10_ne e2)
        grind
      rw [this, Rat.mul_div_cancel hy, Rat.div_mul_cancel hc2']
    obtain ⟨n, c0, e0, hc0, hlo, hhi, hq0⟩ := repQ_canon hr
    have hx2 : q * (c2 : Rat) = qOf n (c0 * c2) e0 := by
      rw [hq0]; unfold qOf; rw [Rat.natCast_mul]; grind
    have hXne : c1 * 10 ^ a ≠ 0 := Nat.mul_ne_zero hc1 (Nat.pos_iff_ne_zero.mp (pow_pos10 a))
    rcases qOf_abs (hx.symm.trans hx2) with ⟨h0, _⟩ | habs
    · exact absurd h0 hXne
    · by_cases hle : e1 - e2 - (a : Int) ≤ e0
      · have hX := nat_of_q habs hle
        obtain ⟨t, ht⟩ : ∃ t : Nat, (e0 - (e1 - e2 - (a : Int))).toNat = t := ⟨_, rfl⟩
        rw [ht] at hX
        have hXQ : c1 * 10 ^ a = c0 * 10 ^ t * c2 := by rw [hX]; simp only [Nat.mul_assoc, Nat.mul_comm]
        rw [hXQ, roundedResD_dvd _ _ _ _ (Nat.pos_of_ne_zero hc2)]
        have hrep : Representable (c0 * 10 ^ t) (e1 - e2 - (a : Int)) := by
          rw [C05B.fits_value]
          exact fits_of_le hc0 (by omega) (by omega)
        obtain ⟨v, h1, h2⟩ := roundedRes_exact_q (n1 != n2) (c0 * 10 ^ t) (e1 - e2 - (a : Int)) hrep
        refine ⟨v, h1, ?_⟩
        rw [h2]
        congr 1
        have : q = q * (c2 : Rat) / (c2 : Rat) := by rw [Rat.mul_div_cancel hc2']
        rw [this, hx, hXQ]
        unfold qOf
        rw [Rat.natCast_mul]
        grind
      · exfalso
        have hX := nat_of_q habs.symm (by omega : e0 ≤ e1 - e2 - (a : Int))
        have h1 : (MAXSIG + 1) * c2 ≤ c1 * 10 ^ a := (Nat.le_div_iff_mul_le (Nat.pos_of_ne_zero hc2)).mp hbig
        have h2 : c0 * c2 ≤ MAXSIG * c2 := Nat.mul_le_mul_right _ hc0
        have h3 : c1 * 10 ^ a ≤ c1 * 10 ^ a * 10 ^ (e1 - e2 - (a : Int) - e0).toNat :=
          Nat.le_mul_of_pos_right _ (pow_pos10 _)
        have h4 : 0 < c2 := Nat.pos_of_ne_zero hc2
        rw [Nat.add_mul, Nat.one_mul] at h1
        omega

/-- **one operator, exactly**: if the exact result of `x op y` is a number of the format, the correctly rounded
    operation returns it -/
theorem opNum_exact (op : AOp) {n1 n2 : Bool} {c1 c2 : Nat} {e1 e2 : Int} {q : Rat}
    (hq : opQ op (qOf n1 c1 e1) (qOf n2 c2 e2) = some q) (hr : RepQ q) :
    ∃ v, opNum op n1 c1 e1 n2 c2 e2 = .ok v ∧ valQ v = some q := by
  cases op
  case add =>
    simp only [opQ, Option.some.injEq] at hq
    exact addNum_exact hq hr
  case sub =>
    simp only [opQ, Option.some.injEq] at hq
    exact addNum_exact (by rw [qOf_neg, ← Rat.sub_eq_add_neg]; exact hq) hr
  case mul =>
    simp only [opQ, Option.some.injEq] at hq
    exact mulNum_exact hq hr
  case div =>
    simp only [opQ] at hq
    split at hq
    · cases hq
    · next hy =>
      simp only [Option.some.injEq] at hq
      exact divNum_exact (fun h => hy (by rw [h, qOf_zero])) hq hr
  case idiv =>
    simp only [opQ] at hq
    split at hq
    · cases hq
    · next hy =>
      simp only [Option.some.injEq] at hq
      have hc2 : c2 ≠ 0 := fun h => hy (by rw [h, qOf_zero])
      rw [idiv_q n1 n2 c1 c2 e1 e2 hc2] at hq
      obtain ⟨v, h1, h2⟩ := roundedRes_exact_q (n1 != n2) _ 0 (rep_of_repQ hr hq.symm)
      exact ⟨v, by simp only [opNum, hc2, if_false]; exact h1, by rw [h2, hq]⟩
  case mod =>
    simp only [opQ] at hq
    split at hq
    · cases hq
    · next hy =>
      simp only [Option.some.injEq] at hq
      have hc2 : c2 ≠ 0 := fun h => hy (by rw [h, qOf_zero])
      rw [mod_q n1 n2 c1 c2 e1 e2 hc2] at hq
      obtain ⟨v, h1, h2⟩ := roundedRes_exact_q n1 _ (min e1 e2) (rep_of_repQ hr hq.symm)
      exact ⟨v, by simp only [opNum, hc2, if_false]; exact h1, by rw [h2, hq]⟩

/-- the same on values -/
theorem binSpec_exact (op : AOp) {x y : Val} {qx qy q : Rat} (hx : valQ x = some qx) (hy : valQ y = some qy)
    (hq : opQ op qx qy = some q) (hr : RepQ q) : ∃ v, binSpec op x y = .ok v ∧ valQ v = some q := by
  unfold valQ at hx hy
  cases hnx : numOf x with
  | none => rw [hnx] at hx; cases hx
  | some p1 =>
    cases hny : numOf y with
    | none => rw [hny] at hy; cases hy
    | some p2 =>
      obtain ⟨n1, c1, e1⟩ := p1
      obtain ⟨n2, c2, e2⟩ := p2
      rw [hnx] at hx; rw [hny] at hy
      simp only [Option.map_some, Option.some.injEq] at hx hy
      simp only [binSpec, hnx, hny]
      exact opNum_exact op (by rw [hx, hy]; exact hq) hr

/-! ### whole expressions -/

/-- **the exact rational value of an arithmetic expression**: leaves are read as the rational numbers they denote, every
    operator is the exact operation on rationals (no rounding anywhere).  `none`: a leaf is not a finite number, or a
    divisor is zero. -/
def ratVal (root cur : Val) (env : Env) : AExp → Option Rat
  | .leaf n => (match ieval root n cur env with | .ok v => valQ v | _ => none)
  | .neg a => (ratVal root cur env a).map (fun q => -q)
  | .pos a => ratVal root cur env a
  | .bin op l r =>
    (match ratVal root cur env l, ratVal root cur env r with
     | some x, some y => opQ op x y
     | _, _ => none)

/-- every operator node's exact value is a number of the format -/
def AllRep (root cur : Val) (env : Env) : AExp → Prop
  | .leaf _ => True
  | .neg a => AllRep root cur env a
  | .pos a => AllRep root cur env a
  | .bin op l r => AllRep root cur env l ∧ AllRep root cur env r ∧ ∀ q, ratVal root cur env (.bin op l r) = some q → RepQ q

theorem valQ_negSpec {v : Val} {q : Rat} (h : valQ v = some q) : valQ (negSpec v) = some (-q) := by
  unfold valQ at h
  cases hn : numOf v with
  | none => rw [hn] at h; cases h
  | some p =>
    obtain ⟨n, c, e⟩ := p
    rw [hn] at h
    simp only [Option.map_some, Option.some.injEq] at h
    simp only [negSpec, hn]
    rw [valQ_of_toDecimal (v := .num (.dec (.fin (if c = 0 then n else !n) c e))) rfl, ← h]
    by_cases hc : c = 0
    · subst hc; simp [qOf_zero]
    · simp only [hc, if_false, qOf_neg]

theorem isNumber_of_valQ {v : Val} {q : Rat} (h : valQ v = some q) : isNumber v = true := by
  cases v with
  | num _ => rfl
  | _ => simp [valQ, numOf, toDecimal] at h

/-- **exactness of whole expressions**: if the exact value of every operator node is a number of the format, then
    `arithSem` returns a value whose exact rational value is the exact rational value of the expression — nothing was
    rounded anywhere -/
theorem arithSem_exact (root cur : Val) (env : Env) : ∀ (a : AExp) (q : Rat), AllRep root cur env a →
    ratVal root cur env a = some q → ∃ v, arithSem root cur env a = .ok v ∧ valQ v = some q := by
  intro a
  induction a with
  | leaf n =>
    intro q _ hq
    simp only [ratVal] at hq
    cases hi : ieval root n cur env with
    | ok v => rw [hi] at hq; exact ⟨v, by simp only [arithSem]; exact hi, hq⟩
    | _ => rw [hi] at hq; cases hq
  | neg a ih =>
    intro q hr hq
    simp only [ratVal] at hq
    cases hqa : ratVal root cur env a with
    | none => rw [hqa] at hq; cases hq
    | some q' =>
      rw [hqa] at hq
      simp only [Option.map_some, Option.some.injEq] at hq
      obtain ⟨v, h1, h2⟩ := ih q' hr hqa
      exact ⟨negSpec v, by simp only [arithSem, h1, Res.bind], by rw [← hq]; exact valQ_negSpec h2⟩
  | pos a ih =>
    intro q hr hq
    obtain ⟨v, h1, h2⟩ := ih q hr hq
    exact ⟨v, by simp only [arithSem, h1, Res.bind, posSpec, isNumber_of_valQ h2, if_true], h2⟩
  | bin op l r ihl ihr =>
    intro q hr hq
    obtain ⟨hr1, hr2, hr3⟩ := hr
    have hrq := hr3 q hq
    simp only [ratVal] at hq
    cases hx : ratVal root cur env l with
    | none => rw [hx] at hq; cases hq
    | some x =>
      cases hy : ratVal root cur env r with
      | none => rw [hx, hy] at hq; cases hq
      | some y =>
        rw [hx, hy] at hq
        obtain ⟨vx, hvx, hqx⟩ := ihl x hr1 hx
        obtain ⟨vy, hvy, hqy⟩ := ihr y hr2 hy
        simp only [arithSem, hvx, hvy, Res.bind]
        exact binSpec_exact op hqx hqy hq hrq

end Jmes.C05ERat
