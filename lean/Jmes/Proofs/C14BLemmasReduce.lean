/-
  Helper for property C14 (second round): decimal128's rounding `reduce` is a function of the *value* `c·10^e`, not
  of the way it is written (`reduce n (c·10^j) (e-j) = reduce n c e`).  Consequently `+`, `-`, `*`, `//`, `%` on
  decimals respect the value of their operands **without any exactness proviso**.
-/
import Jmes.Proofs.C14BLemmasNum
namespace Jmes
namespace Dec

theorem MAXSIG_lt_pow35 : MAXSIG < 10 ^ 35 := by decide
theorem MAXSIG_lt_pow39 : MAXSIG < 10 ^ 39 := by decide

theorem dropHigh_fuel : ∀ (f f' c : Nat) (e : Int) (dg : Nat) (st : Bool), c < 10 ^ f → c < 10 ^ f' →
    dropHigh f c e dg st = dropHigh f' c e dg st
  | 0, f', c, e, dg, st, h, _ => by
    have hc : c ≤ MAXSIG := by simp at h; subst h; exact Nat.zero_le _
    rw [dropHigh_id _ _ _ _ _ hc, dropHigh_id _ _ _ _ _ hc]
  | f + 1, f', c, e, dg, st, h, h' => by
    by_cases hgt : c > MAXSIG
    · cases f' with
      | zero => simp at h'; subst h'; exact absurd hgt (by decide)
      | succ f' =>
        have h1 : c / 10 < 10 ^ f := by
          rw [Nat.div_lt_iff_lt_mul (by decide)]; rw [Nat.pow_succ] at h; exact h
        have h2 : c / 10 < 10 ^ f' := by
          rw [Nat.div_lt_iff_lt_mul (by decide)]; rw [Nat.pow_succ] at h'; exact h'
        unfold dropHigh
        simp only [hgt, if_true]
        exact dropHigh_fuel f f' _ _ _ _ h1 h2
    · have hc : c ≤ MAXSIG := Nat.le_of_not_gt hgt
      rw [dropHigh_id _ _ _ _ _ hc, dropHigh_id _ _ _ _ _ hc]

/-- far below the smallest subnormal everything is dropped -/
theorem dropLow_vanish : ∀ (j f c : Nat) (e : Int) (dg : Nat) (st : Bool), c < 10 ^ j → j < f → e + j < EMIN →
    dropLow f c e dg st = (0, EMIN, 0, false)
  | j, 0, _, _, _, _, _, hf, _ => by omega
  | 0, f + 1, c, e, dg, st, h, _, he => by
    simp at h; subst h
    unfold dropLow
    have : e < EMIN := by omega
    simp [this]
  | j + 1, f + 1, c, e, dg, st, h, hf, he => by
    unfold dropLow
    have h1 : e < EMIN := by omega
    simp only [h1, if_true]
    split
    · rfl
    · have h2 : c / 10 < 10 ^ j := by
        rw [Nat.div_lt_iff_lt_mul (by decide)]; rw [Nat.pow_succ] at h; exact h
      exact dropLow_vanish j f _ _ _ _ h2 (by omega) (by omega)

theorem scaleUp_fuel : ∀ (f f' c : Nat) (e : Int), c ≠ 0 → MAXSIG < c * 10 ^ f → MAXSIG < c * 10 ^ f' →
    scaleUp f c e = scaleUp f' c e
  | 0, f', c, e, _, h, _ => by
    have hc : MAXSIG < c * 10 := by simp at h; omega
    rw [scaleUp_full 0 _ _ hc, scaleUp_full f' _ _ hc]
  | f + 1, f', c, e, hc, h, h' => by
    by_cases hcond : e > EMAX ∧ c * 10 ≤ MAXSIG ∧ c ≠ 0
    · cases f' with
      | zero => simp at h'; omega
      | succ f' =>
        unfold scaleUp
        rw [if_pos hcond, if_pos hcond]
        have h1 : MAXSIG < c * 10 * 10 ^ f := by rw [Nat.pow_succ, Nat.mul_comm (10 ^ f), ← Nat.mul_assoc] at h; exact h
        have h2 : MAXSIG < c * 10 * 10 ^ f' := by
          rw [Nat.pow_succ, Nat.mul_comm (10 ^ f'), ← Nat.mul_assoc] at h'; exact h'
        exact scaleUp_fuel f f' _ _ (by omega) h1 h2
    · have l : scaleUp (f + 1) c e = (c, e) := by unfold scaleUp; simp only [hcond, if_false]
      rw [l]
      cases f' with
      | zero => rfl
      | succ f' => unfold scaleUp; simp only [hcond, if_false]

theorem roundEven_zero_dg (fuel c : Nat) (e : Int) (st : Bool) : roundEven fuel c e 0 st = (c, e) := by
  cases fuel with
  | zero => rfl
  | succ fuel => unfold roundEven; cases st <;> simp

theorem lt_pow10_fuel (c : Nat) : c < 10 ^ (Nat.log2 (c + 1) + 1) := by
  have h1 : c + 1 < 2 ^ (Nat.log2 (c + 1) + 1) := Nat.lt_log2_self
  have h2 : 2 ^ (Nat.log2 (c + 1) + 1) ≤ 10 ^ (Nat.log2 (c + 1) + 1) := Nat.pow_le_pow_left (by decide) _
  omega

/-- **one trailing zero may be moved from the coefficient into the exponent** -/
theorem reduce_mul10 (n : Bool) (c : Nat) (e : Int) (st : Bool) (hc : c ≠ 0) :
    reduce n (c * 10) (e - 1) st = reduce n c e st := by
  have hc10 : c * 10 ≠ 0 := by omega
  rw [reduce_eq, reduce_eq]
  simp only [hc, hc10, false_and, if_false]
  by_cases hgt : c * 10 > MAXSIG
  · -- the first `dropHigh` step removes the zero
    have hstep : dropHigh (Nat.log2 (c * 10 + 1) + 2) (c * 10) (e - 1) 0 st =
        dropHigh (Nat.log2 (c + 1) + 2) c e 0 st := by
      rw [show Nat.log2 (c * 10 + 1) + 2 = (Nat.log2 (c * 10 + 1) + 1) + 1 from rfl]
      conv => lhs; unfold dropHigh
      simp only [hgt, if_true, Nat.mul_div_cancel _ (show 0 < 10 by decide), Nat.mul_mod_left, bne_self_eq_false,
        Bool.or_false, Int.sub_add_cancel]
      apply dropHigh_fuel
      · have := lt_pow10_fuel (c * 10); omega
      · exact lt_pow10_log2 c
    rw [hstep]
  · have hle10 : c * 10 ≤ MAXSIG := Nat.le_of_not_gt hgt
    have hle : c ≤ MAXSIG := by omega
    rw [dropHigh_id _ _ _ _ _ hle10, dropHigh_id _ _ _ _ _ hle]
    by_cases hlow : EMIN ≤ e - 1
    · -- no underflow
      simp only [reduceLow, dropLow_id _ _ _ _ _ hlow, dropLow_id _ _ _ _ _ (by omega : EMIN ≤ e)]
      have h1 : ¬ (e - 1 < EMIN) := by omega
      have h2 : ¬ (e < EMIN) := by omega
      simp only [h1, h2, if_false]
      unfold reduceTail
      simp only []
      by_cases hhi : e ≤ EMAX
      · rw [scaleUp_id _ _ _ (by omega : e - 1 ≤ EMAX), scaleUp_id _ _ _ hhi]
        simp only [roundEven_zero_dg]
        have h3 : ¬ (e - 1 > EMAX) := by omega
        have h4 : ¬ (e > EMAX) := by omega
        simp only [h3, h4, if_false]
        have := normalize_shift n c 1 (e - 1)
        rw [Nat.pow_one] at this
        rw [this]
        congr 2; omega
      · have hs : scaleUp 40 c e = scaleUp 39 (c * 10) (e - 1) := by
          conv => lhs; unfold scaleUp
          have : e > EMAX ∧ c * 10 ≤ MAXSIG ∧ c ≠ 0 := ⟨by omega, hle10, hc⟩
          rw [if_pos this]
        have hs' : scaleUp 40 (c * 10) (e - 1) = scaleUp 39 (c * 10) (e - 1) := by
          apply scaleUp_fuel _ _ _ _ hc10
          · have := MAXSIG_lt_pow39
            have : 10 ^ 39 ≤ c * 10 * 10 ^ 40 := by
              calc 10 ^ 39 ≤ 10 ^ 40 := Nat.pow_le_pow_right (by decide) (by decide)
                _ ≤ c * 10 * 10 ^ 40 := Nat.le_mul_of_pos_left _ (by omega)
            omega
          · have := MAXSIG_lt_pow39
            have : 10 ^ 39 ≤ c * 10 * 10 ^ 39 := Nat.le_mul_of_pos_left _ (by omega)
            omega
        rw [hs, hs']
    · -- gradual underflow: the first `dropLow` step removes the zero
      have he : e ≤ EMIN := by omega
      have hA : reduceLow (c * 10, e - 1, 0, st) = reduceLow (c, e, 0, st) := by
        simp only [reduceLow]
        have hfuel : min ((EMIN - (e - 1)).toNat + 1) 60 = (min ((EMIN - (e - 1)).toNat + 1) 60 - 1) + 1 := by omega
        rw [hfuel]
        conv => lhs; unfold dropLow
        have h1 : e - 1 < EMIN := by omega
        simp only [h1, if_true, Nat.mul_div_cancel _ (show 0 < 10 by decide), Nat.mul_mod_left, hc, false_and,
          if_false, bne_self_eq_false, Bool.or_false, Int.sub_add_cancel]
        by_cases hsmall : (EMIN - (e - 1)).toNat + 1 ≤ 60
        · congr 1; omega
        · have hc35 : c < 10 ^ 35 := by have := MAXSIG_lt_pow35; omega
          rw [dropLow_vanish 35 _ c e 0 st hc35 (by omega) (by omega),
            dropLow_vanish 35 _ c e 0 st hc35 (by omega) (by omega)]
      simp only [hA]

theorem reduce_mul_pow10 (n : Bool) (c : Nat) (e : Int) (st : Bool) (hc : c ≠ 0) :
    ∀ j : Nat, reduce n (c * 10 ^ j) (e - j) st = reduce n c e st
  | 0 => by simp
  | j + 1 => by
    have hne : c * 10 ^ j ≠ 0 := Nat.mul_ne_zero hc (Nat.ne_of_gt (Nat.pow_pos (by decide)))
    have := reduce_mul10 n (c * 10 ^ j) (e - j) st hne
    rw [Nat.pow_succ, ← Nat.mul_assoc, ← reduce_mul_pow10 n c e st hc j, ← this]
    congr 1; omega

/-- **`reduce` is a function of the value**: equal values, however written, are rounded to the same decimal -/
theorem reduce_value {n n' : Bool} {c c' : Nat} {e e' : Int} (st : Bool) (hc : c ≠ 0)
    (h : cmpFin n c e n' c' e' = 0) : reduce n c e st = reduce n' c' e' st := by
  have hc' : c' ≠ 0 := fun h' => hc ((cmpFin_coeff_zero h).mpr h')
  have hn := cmpFin_sign_eq h hc
  subst hn
  have hV := cmpFin_abs_eq h (min e e') (by omega) (by omega)
  have h1 := reduce_mul_pow10 n c e st hc (e - min e e').toNat
  have h2 := reduce_mul_pow10 n c' e' st hc' (e' - min e e').toNat
  rw [← h1, ← h2, hV]
  congr 1; omega

-- 1.50 + 0 written as 150e-2 or 15e-1; a 36-digit value written with and without trailing zeros rounds alike
example : reduce false 150 (-2) = reduce false 15 (-1) ∧
    reduce false (123456789012345678901234567890123456 * 1000) (-3) =
      reduce false 123456789012345678901234567890123456 0 := by decide


/-! ## the decimal operators respect the value of their operands, unconditionally -/

theorem same_self {a : Dec} (h : a ≠ .nan) : Same a a := .inr (cmp_self h)

/-- rounding two writings of the same value -/
theorem reduce_same {n n' : Bool} {c c' : Nat} {e e' : Int} (h : cmpFin n c e n' c' e' = 0) :
    Same (reduce n c e) (reduce n' c' e') := by
  by_cases hc : c = 0
  · have hc' := (cmpFin_coeff_zero h).mp hc
    subst hc; subst hc'
    right; simp only [reduce, Bool.false_eq_true, not_false_eq_true, and_self, if_true]; exact cmp_zero_zero ..
  · rw [reduce_value false hc h]; exact same_self (reduce_ne_nan _ _ _ _)

theorem addFin_same {n1 c1 e1 n2 c2 e2 n1' c1' e1' n2' c2' e2'}
    (ha : cmpFin n1 c1 e1 n1' c1' e1' = 0) (hb : cmpFin n2 c2 e2 n2' c2' e2' = 0) :
    Same (addFin n1 c1 e1 n2 c2 e2) (addFin n1' c1' e1' n2' c2' e2') := by
  have hz1 := cmpFin_coeff_zero ha
  have hz2 := cmpFin_coeff_zero hb
  unfold addFin
  by_cases h1 : c1 = 0
  · have h1' := hz1.mp h1
    subst h1; subst h1'
    simp only [if_true]
    by_cases h2 : c2 = 0
    · have h2' := hz2.mp h2
      subst h2; subst h2'
      simp only [if_true]; right; exact cmp_zero_zero ..
    · have h2' : c2' ≠ 0 := fun h => h2 (hz2.mpr h)
      simp only [h2, h2', if_false]
      right
      exact cmp_zero_trans (cmp_normalize ..) (cmp_zero_trans (by simpa [cmp] using hb) (cmp_normalize' ..))
  · have h1' : c1' ≠ 0 := fun h => h1 (hz1.mpr h)
    simp only [h1, h1', if_false]
    by_cases h2 : c2 = 0
    · have h2' := hz2.mp h2
      subst h2; subst h2'
      simp only [if_true]
      right
      exact cmp_zero_trans (cmp_normalize ..) (cmp_zero_trans (by simpa [cmp] using ha) (cmp_normalize' ..))
    · have h2' : c2' ≠ 0 := fun h => h2 (hz2.mpr h)
      simp only [h2, h2', if_false]
      have hR := addRaw_congr ha hb
      simp only [addRaw, cmp, Option.some.injEq] at hR
      show Same (if sval n1 c1 e1 (min e1 e2) + sval n2 c2 e2 (min e1 e2) = 0 then Dec.fin false 0 0
          else reduce (decide (sval n1 c1 e1 (min e1 e2) + sval n2 c2 e2 (min e1 e2) < 0))
            (sval n1 c1 e1 (min e1 e2) + sval n2 c2 e2 (min e1 e2)).natAbs (min e1 e2))
        (if sval n1' c1' e1' (min e1' e2') + sval n2' c2' e2' (min e1' e2') = 0 then Dec.fin false 0 0
          else reduce (decide (sval n1' c1' e1' (min e1' e2') + sval n2' c2' e2' (min e1' e2') < 0))
            (sval n1' c1' e1' (min e1' e2') + sval n2' c2' e2' (min e1' e2')).natAbs (min e1' e2'))
      generalize sval n1 c1 e1 (min e1 e2) + sval n2 c2 e2 (min e1 e2) = s at hR ⊢
      generalize sval n1' c1' e1' (min e1' e2') + sval n2' c2' e2' (min e1' e2') = s' at hR ⊢
      have hz := cmpFin_coeff_zero hR
      by_cases hs : s = 0
      · have hs' : s' = 0 := by have := hz.mp (by omega); omega
        simp only [hs, hs', if_true]; right; exact cmp_zero_zero ..
      · have hs' : s' ≠ 0 := fun h => hs (by have := hz.mpr (by omega); omega)
        simp only [hs, hs', if_false]
        exact reduce_same hR

/-- **`Add` respects the value of its operands** (no proviso) -/
theorem add_same {a a' b b' : Dec} (ha : cmp a a' = some 0) (hb : cmp b b' = some 0) : Same (add a b) (add a' b') := by
  cases a with
  | nan => simp [cmp_nan_left] at ha
  | inf n =>
    have := isSpecial_of_cmp_zero_left ha rfl
    subst this
    cases b with
    | nan => simp [cmp_nan_left] at hb
    | inf m =>
      have := isSpecial_of_cmp_zero_left hb rfl
      subst this
      left; simp only [add]; split <;> exact ⟨rfl, rfl⟩
    | fin m c e =>
      obtain ⟨m', c', e', rfl⟩ := fin_of_cmp_zero_fin hb
      left; exact ⟨rfl, rfl⟩
  | fin n1 c1 e1 =>
    obtain ⟨n1', c1', e1', rfl⟩ := fin_of_cmp_zero_fin ha
    cases b with
    | nan => simp [cmp_nan_left] at hb
    | inf m =>
      have := isSpecial_of_cmp_zero_left hb rfl
      subst this
      left; exact ⟨rfl, rfl⟩
    | fin n2 c2 e2 =>
      obtain ⟨n2', c2', e2', rfl⟩ := fin_of_cmp_zero_fin hb
      simp only [add]
      simp only [cmp, Option.some.injEq] at ha hb
      exact addFin_same ha hb

theorem sub_eq_add_neg (a b : Dec) : sub a b = add a (neg b) := by
  cases a with
  | nan => cases b <;> rfl
  | inf n => cases b with
    | nan => rfl
    | inf m => cases n <;> cases m <;> rfl
    | fin _ _ _ => rfl
  | fin n1 c1 e1 => cases b with
    | nan => rfl
    | inf m => rfl
    | fin n2 c2 e2 =>
      simp only [sub, add, neg]
      split
      · next h => simp [addFin, h.1, h.2]
      · rfl

/-- **`Sub` respects the value of its operands** (no proviso) -/
theorem sub_same {a a' b b' : Dec} (ha : cmp a a' = some 0) (hb : cmp b b' = some 0) : Same (sub a b) (sub a' b') := by
  rw [sub_eq_add_neg, sub_eq_add_neg]; exact add_same ha (neg_cmp hb)

/-- **`Mul` respects the value of its operands** (no proviso) -/
theorem mul_same {a a' b b' : Dec} (ha : cmp a a' = some 0) (hb : cmp b b' = some 0) : Same (mul a b) (mul a' b') := by
  cases a with
  | nan => simp [cmp_nan_left] at ha
  | inf n =>
    have := isSpecial_of_cmp_zero_left ha rfl
    subst this
    cases b with
    | nan => simp [cmp_nan_left] at hb
    | inf m =>
      have := isSpecial_of_cmp_zero_left hb rfl
      subst this
      left; exact ⟨rfl, rfl⟩
    | fin m c e =>
      obtain ⟨m', c', e', rfl⟩ := fin_of_cmp_zero_fin hb
      left; simp only [mul]; constructor <;> split <;> rfl
  | fin n1 c1 e1 =>
    obtain ⟨n1', c1', e1', rfl⟩ := fin_of_cmp_zero_fin ha
    cases b with
    | nan => simp [cmp_nan_left] at hb
    | inf m =>
      have := isSpecial_of_cmp_zero_left hb rfl
      subst this
      left; simp only [mul]; constructor <;> split <;> rfl
    | fin n2 c2 e2 =>
      obtain ⟨n2', c2', e2', rfl⟩ := fin_of_cmp_zero_fin hb
      simp only [cmp, Option.some.injEq] at ha hb
      have hz1 := cmpFin_coeff_zero ha
      have hz2 := cmpFin_coeff_zero hb
      have hR := mulRaw_congr ha hb
      simp only [cmp, Option.some.injEq] at hR
      simp only [mul]
      by_cases h0 : c1 = 0 ∨ c2 = 0
      · have h0' : c1' = 0 ∨ c2' = 0 := h0.elim (fun h => .inl (hz1.mp h)) (fun h => .inr (hz2.mp h))
        simp only [h0, h0', if_true]; right; exact cmp_zero_zero ..
      · have h0' : ¬ (c1' = 0 ∨ c2' = 0) := fun h => h0 (h.elim (fun h => .inl (hz1.mpr h)) (fun h => .inr (hz2.mpr h)))
        simp only [h0, h0', if_false]
        exact reduce_same hR

/-- **`//` respects the value of its operands** (no proviso) -/
theorem idiv_same {a a' b b' : Dec} (ha : cmp a a' = some 0) (hb : cmp b b' = some 0) :
    Same (quoRem a b).1 (quoRem a' b').1 := by
  apply quoRem_congr_aux ha hb Prod.fst (.inl rfl)
  intro n1 c1 e1 n2 c2 e2 n1' c1' e1' n2' c2' e2' ea eb ea' eb' h1 h2 h1' h2'
  subst ea; subst eb; subst ea'; subst eb'
  simp only [cmp, Option.some.injEq] at ha hb
  rw [quoRem_fin _ _ _ _ _ _ h1 h2, quoRem_fin _ _ _ _ _ _ h1' h2']
  obtain ⟨P, P', hP, hP', hA, hB, _, _⟩ := align_prop ha hb
  have hq : alignL c1 e1 e2 / alignR c2 e1 e2 = alignL c1' e1' e2' / alignR c2' e1' e2' := by
    rw [← Nat.mul_div_mul_right _ _ hP, hA, hB, Nat.mul_div_mul_right _ _ hP']
  simp only [hq, cmpFin_sign_eq ha h1, cmpFin_sign_eq hb h2]
  exact same_self (reduce_ne_nan _ _ _ _)

/-- **`%` respects the value of its operands** (no proviso) -/
theorem mod_same {a a' b b' : Dec} (ha : cmp a a' = some 0) (hb : cmp b b' = some 0) :
    Same (quoRem a b).2 (quoRem a' b').2 := by
  apply quoRem_congr_aux ha hb Prod.snd (.inr rfl)
  intro n1 c1 e1 n2 c2 e2 n1' c1' e1' n2' c2' e2' ea eb ea' eb' h1 h2 h1' h2'
  subst ea; subst eb; subst ea'; subst eb'
  simp only [cmp, Option.some.injEq] at ha hb
  rw [quoRem_fin _ _ _ _ _ _ h1 h2, quoRem_fin _ _ _ _ _ _ h1' h2']
  obtain ⟨P, P', hP, hP', hA, hB, eP, eP'⟩ := align_prop ha hb
  have hr : alignL c1 e1 e2 % alignR c2 e1 e2 * P = alignL c1' e1' e2' % alignR c2' e1' e2' * P' := by
    rw [← Nat.mul_mod_mul_right, hA, hB, Nat.mul_mod_mul_right]
  apply reduce_same
  rw [cmpFin_eq_zero_iff_value _ _ _ _ _ _ (min (min e1 e2) (min e1' e2')) (by omega) (by omega)]
  simp only [sval, pow10]
  rw [← eP, ← eP', hr, cmpFin_sign_eq ha h1]

/-! ### the results stay within the format -/

theorem ite_bounded {p : Prop} [Decidable p] {a b : Dec} (ha : a.Bounded) (hb : b.Bounded) :
    (if p then a else b).Bounded := by split <;> assumption

theorem add_inf_left_bounded (n : Bool) (b : Dec) : (add (.inf n) b).Bounded := by
  cases b <;> simp only [add] <;> first | trivial | exact ite_bounded trivial trivial

theorem fin_zero_bounded (n : Bool) (e : Int) : (Dec.fin n 0 e).Bounded := by simp [Bounded]

theorem add_bounded_or {a a' b b' : Dec} (ha : cmp a a' = some 0) (hb : cmp b b' = some 0)
    (ba : (a.Bounded ∧ a'.Bounded) ∨ a = a') (bb : (b.Bounded ∧ b'.Bounded) ∨ b = b') :
    ((add a b).Bounded ∧ (add a' b').Bounded) ∨ add a b = add a' b' := by
  cases a with
  | nan => simp [cmp_nan_left] at ha
  | inf n =>
    have := isSpecial_of_cmp_zero_left ha rfl
    subst this
    left; exact ⟨add_inf_left_bounded _ _, add_inf_left_bounded _ _⟩
  | fin n1 c1 e1 =>
    obtain ⟨n1', c1', e1', rfl⟩ := fin_of_cmp_zero_fin ha
    cases b with
    | nan => simp [cmp_nan_left] at hb
    | inf m =>
      have := isSpecial_of_cmp_zero_left hb rfl
      subst this
      left; exact ⟨trivial, trivial⟩
    | fin n2 c2 e2 =>
      obtain ⟨n2', c2', e2', rfl⟩ := fin_of_cmp_zero_fin hb
      simp only [cmp, Option.some.injEq] at ha hb
      have hz1 := cmpFin_coeff_zero ha
      have hz2 := cmpFin_coeff_zero hb
      simp only [add]
      unfold addFin
      by_cases h1 : c1 = 0
      · have h1' := hz1.mp h1
        subst h1; subst h1'
        simp only [if_true]
        by_cases h2 : c2 = 0
        · have h2' := hz2.mp h2
          subst h2; subst h2'
          left; simp [Bounded]
        · have h2' : c2' ≠ 0 := fun h => h2 (hz2.mpr h)
          simp only [h2, h2', if_false]
          rcases bb with ⟨b1, b2⟩ | e
          · left; exact ⟨normalize_bounded b1, normalize_bounded b2⟩
          · right; rw [e]
      · have h1' : c1' ≠ 0 := fun h => h1 (hz1.mpr h)
        simp only [h1, h1', if_false]
        by_cases h2 : c2 = 0
        · have h2' := hz2.mp h2
          subst h2; subst h2'
          simp only [if_true]
          rcases ba with ⟨b1, b2⟩ | e
          · left; exact ⟨normalize_bounded b1, normalize_bounded b2⟩
          · right; rw [e]
        · have h2' : c2' ≠ 0 := fun h => h2 (hz2.mpr h)
          simp only [h2, h2', if_false]
          left
          exact ⟨ite_bounded (fin_zero_bounded _ _) (reduce_bounded _ _ _ _),
            ite_bounded (fin_zero_bounded _ _) (reduce_bounded _ _ _ _)⟩

theorem mul_bounded (a b : Dec) : (mul a b).Bounded := by
  cases a <;> cases b <;> simp only [mul] <;> first | trivial | (split <;> first | trivial | (simp [Bounded]; done) | exact reduce_bounded _ _ _ _)

theorem idiv_bounded (a b : Dec) : (quoRem a b).1.Bounded := by
  cases a <;> cases b <;> simp only [quoRem] <;> first | trivial | (simp [Bounded]; done) | skip
  split
  · split <;> trivial
  · split
    · simp [Bounded]
    · exact reduce_bounded _ _ _ _

theorem mod_bounded_or {a a' : Dec} (b b' : Dec) (ba : (a.Bounded ∧ a'.Bounded) ∨ a = a') (hbb : b.isSpecial = b'.isSpecial)
    (hb : b.isSpecial = true → b = b') :
    ((quoRem a b).2.Bounded ∧ (quoRem a' b').2.Bounded) ∨ (quoRem a b).2 = (quoRem a' b').2 := by
  rcases ba with ⟨b1, b2⟩ | e
  · left
    constructor
    · cases a <;> cases b <;> simp only [quoRem] <;> first | trivial | exact normalize_bounded b1 | skip
      split
      · split <;> trivial
      · split
        · simp [Bounded]
        · exact reduce_bounded _ _ _ _
    · cases a' <;> cases b' <;> simp only [quoRem] <;> first | trivial | exact normalize_bounded b2 | skip
      split
      · split <;> trivial
      · split
        · simp [Bounded]
        · exact reduce_bounded _ _ _ _
  · subst e
    cases b with
    | nan => have := hb rfl; subst this; right; rfl
    | inf m => have := hb rfl; subst this; right; rfl
    | fin n2 c2 e2 =>
      cases b' with
      | nan => simp [isSpecial] at hbb
      | inf _ => simp [isSpecial] at hbb
      | fin n2' c2' e2' =>
        left
        constructor
        · cases a <;> simp only [quoRem] <;> first | trivial | skip
          split
          · split <;> trivial
          · split
            · simp [Bounded]
            · exact reduce_bounded _ _ _ _
        · cases a <;> simp only [quoRem] <;> first | trivial | skip
          split
          · split <;> trivial
          · split
            · simp [Bounded]
            · exact reduce_bounded _ _ _ _

end Dec
end Jmes
