/-
  Helpers for Jmes/Properties/C05E.lean (C05, fourth wave).

  A. the sign of an exact zero sum / difference (C05C leaves it open: `∃ b`)
  B. `opNum`: the six operators as ONE closed form on numbers given by value; `Good` values; `binSpec`
  C. `AExp` — arithmetic expression trees over arbitrary leaves; `arithSem`; the whole-tree induction
-/
import Jmes.Properties.C05C
import Jmes.Spec.Grammar
import Jmes.Proofs.C13BLemmas
namespace Jmes.C05ELemmas
open Jmes.Dec
open Jmes.C05B (NumIs arith_numIs numIs_dec numIs_int numIs_of_toDecimal)
open Jmes.C05CLemmas
open Jmes.C05C (roundedRes roundedResD checkD_roundN checkD_roundD)
open Jmes.C20B (rhe ndrop)

/-! ## A. the sign of an exact zero -/

/-- an exact zero sum is `+0`, except that `(-0) + (-0) = -0` -/
theorem add_zero_at (n1 n2 : Bool) (c1 c2 : Nat) (e1 e2 m : Int) (h1 : c1 = 0 ∨ m ≤ e1) (h2 : c2 = 0 ∨ m ≤ e2)
    (hS : sval n1 c1 e1 m + sval n2 c2 e2 m = 0) :
    Dec.add (.fin n1 c1 e1) (.fin n2 c2 e2) = .fin (decide (c1 = 0 ∧ c2 = 0) && n1 && n2) 0 0 := by
  show addFin n1 c1 e1 n2 c2 e2 = _
  by_cases hc1 : c1 = 0
  · subst hc1
    rw [sval_zero, Int.zero_add] at hS
    have hc2 : c2 = 0 := (sval_eq_zero_iff n2 c2 e2 m).mp hS
    subst hc2
    simp [addFin]
  · have hm1 : m ≤ e1 := by rcases h1 with h | h; exact absurd h hc1; exact h
    by_cases hc2 : c2 = 0
    · subst hc2
      rw [sval_zero, Int.add_zero] at hS
      exact absurd ((sval_eq_zero_iff n1 c1 e1 m).mp hS) hc1
    · have hm2 : m ≤ e2 := by rcases h2 with h | h; exact absurd h hc2; exact h
      have hem : m ≤ min e1 e2 := by omega
      have hs1 := sval_shift n1 c1 e1 (min e1 e2) m hem (by omega)
      have hs2 := sval_shift n2 c2 e2 (min e1 e2) m hem (by omega)
      generalize hT : ((10 ^ (min e1 e2 - m).toNat : Nat) : Int) = T at hs1 hs2
      have hTpos : 0 < T := by rw [← hT]; exact Int.natCast_pos.mpr (Nat.pow_pos (by decide))
      generalize hs' : sval n1 c1 e1 (min e1 e2) + sval n2 c2 e2 (min e1 e2) = s'
      have hS' : s' * T = 0 := by rw [← hs', Int.add_mul, ← hs1, ← hs2]; exact hS
      have h0 : s' = 0 := by
        rcases Int.mul_eq_zero.mp hS' with h | h
        · exact h
        · omega
      unfold addFin
      simp only [hc1, hc2, if_false]
      have := hs'
      unfold sval at this
      rw [this]
      simp [h0]

/-- the same for operands given by value -/
theorem add_zero_den {d1 d2 : Dec} {n1 n2 : Bool} {C1 C2 : Nat} {E1 E2 : Int} (h1 : Denotes d1 n1 C1 E1)
    (h2 : Denotes d2 n2 C2 E2) (m : Int) (hm1 : m ≤ E1) (hm2 : m ≤ E2)
    (hS : sval n1 C1 E1 m + sval n2 C2 E2 m = 0) :
    Dec.add d1 d2 = .fin (decide (C1 = 0 ∧ C2 = 0) && n1 && n2) 0 0 := by
  obtain ⟨c1, e1, rfl, hz1, hk1, hv1⟩ := h1.unpack
  obtain ⟨c2, e2, rfl, hz2, hk2, hv2⟩ := h2.unpack
  have hdec : decide (C1 = 0 ∧ C2 = 0) = decide (c1 = 0 ∧ c2 = 0) := by
    rw [decide_eq_decide]; exact and_congr hz1.symm hz2.symm
  rw [hdec]
  refine add_zero_at n1 n2 c1 c2 e1 e2 m ?_ ?_ (by rw [hv1 m hm1, hv2 m hm2]; exact hS)
  · rcases hk1 with h | ⟨k, he, _⟩
    · exact Or.inl h
    · exact Or.inr (by omega)
  · rcases hk2 with h | ⟨k, he, _⟩
    · exact Or.inl h
    · exact Or.inr (by omega)

/-- on finite operands `x - y` is `x + (-y)` -/
theorem sub_eq_add_neg (n1 n2 : Bool) (c1 c2 : Nat) (e1 e2 : Int) :
    Dec.sub (.fin n1 c1 e1) (.fin n2 c2 e2) = Dec.add (.fin n1 c1 e1) (.fin (!n2) c2 e2) := by
  by_cases h : c1 = 0 ∧ c2 = 0
  · obtain ⟨rfl, rfl⟩ := h; simp [Dec.sub, Dec.add, addFin]
  · simp [Dec.sub, Dec.add, h]

theorem denotes_neg {d : Dec} {n : Bool} {C : Nat} {E : Int} (h : Denotes d n C E) : Denotes d.neg (!n) C E := by
  obtain ⟨c, e, rfl, hk⟩ := h
  exact ⟨c, e, rfl, hk⟩

/-! ## B. the operators as one closed form on numbers given by value -/

/-- the six arithmetic operators -/
inductive AOp where
  | add | sub | mul | div | idiv | mod
  deriving DecidableEq, Repr, Inhabited

/-- the evaluator's operator tag -/
def AOp.bin : AOp → BinOp
  | .add => .add | .sub => .sub | .mul => .mul | .div => .div | .idiv => .idiv | .mod => .mod

/-- a zero of the given sign, as a value -/
def zeroV (b : Bool) : Val := .num (.dec (.fin b 0 0))

/-- **`x + y` by value.**  `S` is the exact sum in units of `10^m`, `m = min E1 E2`.  An exact zero is `+0` (`-0` only for
    `(-0) + (-0)`); anything else is the exact sum rounded ONCE by the rounding function of the format
    (`roundedRes`: half-even to the longest coefficient `≤ MAXSIG`, `not-a-number` when it overflows). -/
def addNum (n1 : Bool) (C1 : Nat) (E1 : Int) (n2 : Bool) (C2 : Nat) (E2 : Int) : Res Val :=
  if sval n1 C1 E1 (min E1 E2) + sval n2 C2 E2 (min E1 E2) = 0 then .ok (zeroV (decide (C1 = 0 ∧ C2 = 0) && n1 && n2))
  else roundedRes (decide (sval n1 C1 E1 (min E1 E2) + sval n2 C2 E2 (min E1 E2) < 0))
    (sval n1 C1 E1 (min E1 E2) + sval n2 C2 E2 (min E1 E2)).natAbs (min E1 E2)

/-- **the correctly rounded operation** `x op y` for `x = (-1)^n1·C1·10^E1`, `y = (-1)^n2·C2·10^E2`: the exact rational
    result (for `//` the truncated integer quotient, for `%` the remainder with the sign of the dividend), rounded once;
    `not-a-number` for a zero divisor and for a result that overflows. -/
def opNum (op : AOp) (n1 : Bool) (C1 : Nat) (E1 : Int) (n2 : Bool) (C2 : Nat) (E2 : Int) : Res Val :=
  match op with
  | .add => addNum n1 C1 E1 n2 C2 E2
  | .sub => addNum n1 C1 E1 (!n2) C2 E2
  | .mul => roundedRes (n1 != n2) (C1 * C2) (E1 + E2)
  | .div =>
    if C2 = 0 then .err [Cat.notANumber]
    else if C1 = 0 then .ok (zeroV (n1 != n2))
    else roundedResD (n1 != n2) (C1 * 10 ^ (40 + ndigits C2)) C2 (E1 - E2 - ((40 + ndigits C2 : Nat) : Int))
  | .idiv =>
    if C2 = 0 then .err [Cat.notANumber]
    else roundedRes (n1 != n2) (aligned C1 E1 (min E1 E2) / aligned C2 E2 (min E1 E2)) 0
  | .mod =>
    if C2 = 0 then .err [Cat.notANumber]
    else roundedRes n1 (aligned C1 E1 (min E1 E2) % aligned C2 E2 (min E1 E2)) (min E1 E2)

theorem checkD_add_den {d1 d2 : Dec} {n1 n2 : Bool} {C1 C2 : Nat} {E1 E2 : Int} (h1 : Denotes d1 n1 C1 E1)
    (h2 : Denotes d2 n2 C2 E2) (hr1 : Representable C1 E1) (hr2 : Representable C2 E2) :
    checkD (Dec.add d1 d2) = addNum n1 C1 E1 n2 C2 E2 := by
  unfold addNum
  by_cases hS : sval n1 C1 E1 (min E1 E2) + sval n2 C2 E2 (min E1 E2) = 0
  · rw [if_pos hS, add_zero_den h1 h2 (min E1 E2) (Int.min_le_left ..) (Int.min_le_right ..) hS]; rfl
  · rw [if_neg hS]
    rcases add_round_den h1 h2 (fun _ => hr1) (fun _ => hr2) (min E1 E2) (Int.min_le_left ..) (Int.min_le_right ..) _ rfl with
      ⟨h0, _⟩ | ⟨_, hr⟩
    · exact absurd h0 hS
    · rw [hr, checkD_roundN]

theorem denotes_is_fin {d : Dec} {n : Bool} {C : Nat} {E : Int} (h : Denotes d n C E) : ∃ c e, d = .fin n c e := by
  obtain ⟨c, e, hd, _⟩ := h; exact ⟨c, e, hd⟩

/-- **the evaluator's operator IS the correctly rounded operation**: for operands that are numbers of the format, given by
    value in any representation (not both binary floats) -/
theorem applyBinOp_eq_opNum {x y : Val} (hnf : x.NoFloat ∨ y.NoFloat) {n1 n2 : Bool} {C1 C2 : Nat} {E1 E2 : Int}
    (hx : NumIs x n1 C1 E1) (hy : NumIs y n2 C2 E2) (hr1 : Representable C1 E1) (hr2 : Representable C2 E2) (op : AOp) :
    applyBinOp op.bin x y = opNum op n1 C1 E1 n2 C2 E2 := by
  cases op
  case add =>
    obtain ⟨d1, hd1, hD1⟩ := hx
    obtain ⟨d2, hd2, hD2⟩ := hy
    have he : applyBinOp .add x y = checkD (Dec.add d1 d2) := arith_numIs hnf hd1 hd2
    exact he.trans (checkD_add_den hD1 hD2 hr1 hr2)
  case sub =>
    obtain ⟨d1, hd1, hD1⟩ := hx
    obtain ⟨d2, hd2, hD2⟩ := hy
    have he : applyBinOp .sub x y = checkD (Dec.sub d1 d2) := arith_numIs hnf hd1 hd2
    obtain ⟨c1, e1, rfl⟩ := denotes_is_fin hD1
    obtain ⟨c2, e2, rfl⟩ := denotes_is_fin hD2
    rw [sub_eq_add_neg] at he
    exact he.trans (checkD_add_den hD1 (denotes_neg hD2) hr1 hr2)
  case mul => exact C05C.mul_rounded_eval hnf hx hy
  case div =>
    show applyBinOp .div x y = _
    unfold opNum
    by_cases hC2 : C2 = 0
    · subst hC2; simp only [if_true]; exact (C05C.div_by_zero_eval hnf hx hy).1
    · by_cases hC1 : C1 = 0
      · subst hC1; simp only [hC2, if_false, if_true]; exact C05B.div_zero_left_eval hnf hx hy hC2
      · simp only [hC2, hC1, if_false]
        have h := C05C.div_rounded_eval_any hnf hx hy hC1 hC2 (40 + ndigits C2) 0
          (by rw [Nat.pow_zero, Nat.mul_one]; exact quoFin_q_big C1 C2 hC1 hC2)
        rw [h, Nat.pow_zero, Nat.mul_one]
        congr 1
        simp
  case idiv =>
    show applyBinOp .idiv x y = _
    unfold opNum
    by_cases hC2 : C2 = 0
    · subst hC2; simp only [if_true]; exact (C05C.div_by_zero_eval hnf hx hy).2.1
    · simp only [hC2, if_false]; exact (C05C.idiv_mod_rounded_eval hnf hx hy hC2).1
  case mod =>
    show applyBinOp .mod x y = _
    unfold opNum
    by_cases hC2 : C2 = 0
    · subst hC2; simp only [if_true]; exact (C05C.div_by_zero_eval hnf hx hy).2.2
    · simp only [hC2, if_false]; exact (C05C.idiv_mod_rounded_eval hnf hx hy hC2).2

/-! ### numbers of the format -/

/-- the stored sign, coefficient and exponent of a value that is a finite number -/
def numOf (v : Val) : Option (Bool × Nat × Int) :=
  match toDecimal v with
  | some (.fin n c e) => some (n, c, e)
  | _ => none

/-- **a value the arithmetic fragment may meet**: no binary float, and IF it is a number for `toDecimal` (a
    `decimal128.Decimal`, a Go integer, a `json.Number` whose text `decimal128.Parse` accepts) then it is a finite number of the
    format (`Representable`: some coefficient `≤ MAXSIG` at an exponent in `[EMIN, EMAX]` denotes it).  Non-numbers
    (null, strings, arrays, …) and number texts out of range are `Good`: the operators answer `invalid-type`. -/
def Good (v : Val) : Prop :=
  v.NoFloat ∧ ∀ d, toDecimal v = some d → ∃ n c e, d = .fin n c e ∧ Representable c e

/-- the operator applied to two values: the closed form `opNum` on two numbers, `invalid-type` otherwise -/
def binSpec (op : AOp) (x y : Val) : Res Val :=
  match numOf x, numOf y with
  | some (n1, c1, e1), some (n2, c2, e2) => opNum op n1 c1 e1 n2 c2 e2
  | _, _ => .err [Cat.invalidType]

theorem good_dec_of_denotes {d : Dec} {n : Bool} {C : Nat} {E : Int} (h : Denotes d n C E) (hr : Representable C E) :
    Good (.num (.dec d)) := by
  refine ⟨Val.noFloat_dec _, fun d' hd' => ?_⟩
  simp only [toDecimal, Option.some.injEq] at hd'
  subst hd'
  obtain ⟨c, e, rfl, hz, hk, _⟩ := h.unpack
  exact ⟨n, c, e, rfl, denotes_fits hk hz hr⟩

theorem good_zeroV (b : Bool) : Good (zeroV b) := good_dec_of_denotes (denotes_fin b 0 0) (fits_zero 0)

theorem good_of_notnum {v : Val} (hnf : v.NoFloat) (h : toDecimal v = none) : Good v :=
  ⟨hnf, fun d hd => by rw [h] at hd; cases hd⟩

theorem good_null : Good .null := good_of_notnum (by simp) rfl

theorem good_of_roundedRes {neg : Bool} {c : Nat} {e : Int} {v : Val} (h : roundedRes neg c e = .ok v) : Good v := by
  by_cases ho : OverflowsD c 1 e
  · unfold roundedRes at h; rw [if_pos ho] at h; cases h
  · obtain ⟨c', e', hv, hrep⟩ := C05C.round_result_representable neg c e ho
    rw [← checkD_roundN, hv, C05B.checkD_normalize] at h
    cases h
    exact good_dec_of_denotes (denotes_normalize neg c' e') hrep

theorem applyBinOp_arith (op : AOp) : ∃ fop dop, ∀ x y, applyBinOp op.bin x y = arith fop dop x y := by
  cases op <;> exact ⟨_, _, fun _ _ => rfl⟩

theorem numOf_some {v : Val} {n : Bool} {c : Nat} {e : Int} (h : toDecimal v = some (.fin n c e)) : numOf v = some (n, c, e) := by
  simp [numOf, h]

theorem numOf_none {v : Val} (h : toDecimal v = none) : numOf v = none := by simp [numOf, h]

/-- **the evaluator's operator on `Good` values is `binSpec`** -/
theorem applyBinOp_eq_binSpec {x y : Val} (hx : Good x) (hy : Good y) (op : AOp) :
    applyBinOp op.bin x y = binSpec op x y := by
  cases hdx : toDecimal x with
  | none =>
    obtain ⟨fop, dop, h⟩ := applyBinOp_arith op
    rw [h, arith_noFloat fop dop (Or.inl hx.1), hdx]
    simp only [binSpec, numOf_none hdx]; rfl
  | some d1 =>
    obtain ⟨n1, c1, e1, rfl, hr1⟩ := hx.2 d1 hdx
    cases hdy : toDecimal y with
    | none =>
      obtain ⟨fop, dop, h⟩ := applyBinOp_arith op
      rw [h, arith_noFloat fop dop (Or.inl hx.1), hdx, hdy]
      simp only [binSpec, numOf_some hdx, numOf_none hdy]; rfl
    | some d2 =>
      obtain ⟨n2, c2, e2, rfl, hr2⟩ := hy.2 d2 hdy
      simp only [binSpec, numOf_some hdx, numOf_some hdy]
      exact applyBinOp_eq_opNum (Or.inl hx.1) (numIs_of_toDecimal hdx) (numIs_of_toDecimal hdy) hr1 hr2 op

/-- **closure**: the result of an operator on `Good` values is `Good` — so the side conditions hold again at the next node -/
theorem good_of_binSpec {x y v : Val} (hx : Good x) (hy : Good y) (op : AOp) (h : binSpec op x y = .ok v) : Good v := by
  cases hdx : toDecimal x with
  | none => simp [binSpec, numOf_none hdx] at h
  | some d1 =>
    obtain ⟨n1, c1, e1, rfl, hr1⟩ := hx.2 d1 hdx
    cases hdy : toDecimal y with
    | none => simp [binSpec, numOf_some hdx, numOf_none hdy] at h
    | some d2 =>
      obtain ⟨n2, c2, e2, rfl, hr2⟩ := hy.2 d2 hdy
      have hb : binSpec op x y = opNum op n1 c1 e1 n2 c2 e2 := by simp only [binSpec, numOf_some hdx, numOf_some hdy]
      cases op
      case add =>
        rw [hb] at h; simp only [opNum, addNum] at h
        split at h
        · cases h; exact good_zeroV _
        · exact good_of_roundedRes h
      case sub =>
        rw [hb] at h; simp only [opNum, addNum] at h
        split at h
        · cases h; exact good_zeroV _
        · exact good_of_roundedRes h
      case mul => rw [hb] at h; exact good_of_roundedRes h
      case idiv =>
        rw [hb] at h; simp only [opNum] at h
        split at h
        · cases h
        · exact good_of_roundedRes h
      case mod =>
        rw [hb] at h; simp only [opNum] at h
        split at h
        · cases h
        · exact good_of_roundedRes h
      case div =>
        by_cases hc2 : c2 = 0
        · rw [hb] at h; simp [opNum, hc2] at h
        · by_cases hc1 : c1 = 0
          · rw [hb] at h; simp only [opNum, hc2, hc1, if_false, if_true] at h
            cases h; exact good_zeroV _
          · rw [← applyBinOp_eq_binSpec hx hy .div] at h
            obtain ⟨c4, k, _, hc4, _, hlo, _, hres⟩ := C05B.div_rounded_eval (Or.inl hx.1) hdx hdy hc1 hc2
            rw [show AOp.div.bin = BinOp.div from rfl, hres] at h
            split at h
            · cases h
            · next hhi =>
              cases h
              exact good_dec_of_denotes (denotes_normalize _ _ _) (fits_of_le hc4 hlo (by omega))

/-! ## C. arithmetic expression trees -/

/-- unary minus on a value: the sign of a non-zero number is flipped (a zero keeps its sign, as in Go), anything that is
    not a number gives null -/
def negSpec (v : Val) : Val :=
  match numOf v with
  | some (n, c, e) => .num (.dec (.fin (if c = 0 then n else !n) c e))
  | none => .null

/-- unary plus: a number is returned as it is, anything else gives null -/
def posSpec (v : Val) : Val := if isNumber v then v else .null

theorem negateVal_eq_negSpec {v : Val} (h : Good v) : negateVal v = negSpec v := by
  rw [(C05.no_float_unary h.1).1]
  cases hd : toDecimal v with
  | none => simp [negSpec, numOf_none hd]
  | some d =>
    obtain ⟨n, c, e, rfl, _⟩ := h.2 d hd
    simp only [negSpec, numOf_some hd]
    cases c with
    | zero => simp [Dec.isZero]
    | succ c => simp [Dec.isZero, Dec.neg]

theorem good_negSpec {v : Val} (h : Good v) : Good (negSpec v) := by
  cases hd : toDecimal v with
  | none => simp only [negSpec, numOf_none hd]; exact good_null
  | some d =>
    obtain ⟨n, c, e, rfl, hr⟩ := h.2 d hd
    simp only [negSpec, numOf_some hd]
    exact good_dec_of_denotes (denotes_fin _ c e) hr

theorem good_posSpec {v : Val} (h : Good v) : Good (posSpec v) := by
  unfold posSpec; split
  · exact h
  · exact good_null

/-- an arithmetic expression: the operators `+ - * / // %`, unary `-` and `+`, over leaves that are ANY expression nodes
    (number literals, fields of the document, `@`, function calls, …) -/
inductive AExp where
  | leaf (n : INode)
  | neg (a : AExp)
  | pos (a : AExp)
  | bin (op : AOp) (l r : AExp)
  deriving Inhabited

/-- the evaluator's node of an arithmetic expression -/
def AExp.node : AExp → INode
  | .leaf n => n
  | .neg a => .negate a.node
  | .pos a => .assertNumber a.node
  | .bin op l r => .binop op.bin l.node r.node

/-- the leaves, left to right -/
def AExp.leaves : AExp → List INode
  | .leaf n => [n]
  | .neg a => a.leaves
  | .pos a => a.leaves
  | .bin _ l r => l.leaves ++ r.leaves

/-- **the arithmetic semantics**: a leaf is evaluated by the evaluator; at every operator node the correctly rounded
    operation `binSpec` (= `opNum` on numbers: the exact rational result rounded once, half-even, to the format;
    `not-a-number` on a zero divisor or overflow; `invalid-type` if an operand is not a number) is applied to the values of
    the operands, left operand first; the first error ends the evaluation. -/
def arithSem (root cur : Val) (env : Env) : AExp → Res Val
  | .leaf n => ieval root n cur env
  | .neg a => Res.bind (arithSem root cur env a) (fun v => .ok (negSpec v))
  | .pos a => Res.bind (arithSem root cur env a) (fun v => .ok (posSpec v))
  | .bin op l r => Res.bind (arithSem root cur env l) (fun x => Res.bind (arithSem root cur env r) (fun y => binSpec op x y))

theorem ieval_binop (root : Val) (op : BinOp) (l r : INode) (cur : Val) (env : Env) :
    ieval root (.binop op l r) cur env =
      Res.bind (ieval root l cur env) (fun a => Res.bind (ieval root r cur env) (fun b => applyBinOp op a b)) := by
  rw [ieval]; rfl

theorem ieval_negate (root : Val) (c : INode) (cur : Val) (env : Env) :
    ieval root (.negate c) cur env = Res.bind (ieval root c cur env) (fun a => .ok (negateVal a)) := by
  rw [ieval]; rfl

theorem ieval_assertNumber (root : Val) (c : INode) (cur : Val) (env : Env) :
    ieval root (.assertNumber c) cur env = Res.bind (ieval root c cur env) (fun a => .ok (if isNumber a then a else .null)) := by
  rw [ieval]; rfl

/-- **the whole-tree induction**: on every arithmetic expression whose leaves evaluate to `Good` values (or fail), the
    evaluator computes `arithSem`, and the value is again `Good` -/
theorem ieval_eq_arithSem (root cur : Val) (env : Env) : ∀ a : AExp,
    (∀ n ∈ a.leaves, ∀ v, ieval root n cur env = .ok v → Good v) →
    ieval root a.node cur env = arithSem root cur env a ∧ ∀ v, arithSem root cur env a = .ok v → Good v := by
  intro a
  induction a with
  | leaf n => intro h; exact ⟨rfl, fun v hv => h n (by simp [AExp.leaves]) v hv⟩
  | neg a ih =>
    intro h
    obtain ⟨h1, h2⟩ := ih h
    simp only [AExp.node, arithSem, ieval_negate, h1]
    cases hs : arithSem root cur env a with
    | ok v =>
      have hg := h2 v hs
      simp only [Res.bind, negateVal_eq_negSpec hg, true_and]
      intro w hw; cases hw; exact good_negSpec hg
    | _ => simp [Res.bind]
  | pos a ih =>
    intro h
    obtain ⟨h1, h2⟩ := ih h
    simp only [AExp.node, arithSem, ieval_assertNumber, h1]
    cases hs : arithSem root cur env a with
    | ok v =>
      have hg := h2 v hs
      refine ⟨rfl, ?_⟩
      simp only [Res.bind]
      intro w hw; cases hw; exact good_posSpec hg
    | _ => simp [Res.bind]
  | bin op l r ihl ihr =>
    intro h
    obtain ⟨l1, l2⟩ := ihl (fun n hn => h n (by simp [AExp.leaves, hn]))
    obtain ⟨r1, r2⟩ := ihr (fun n hn => h n (by simp [AExp.leaves, hn]))
    simp only [AExp.node, arithSem, ieval_binop, l1, r1]
    cases hl : arithSem root cur env l with
    | ok x =>
      cases hr : arithSem root cur env r with
      | ok y =>
        have gx := l2 x hl
        have gy := r2 y hr
        simp only [Res.bind, applyBinOp_eq_binSpec gx gy op, true_and]
        exact fun v hv => good_of_binSpec gx gy op hv
      | _ => simp [Res.bind]
    | _ => simp [Res.bind]

/-! ### checking concrete outcomes (`Res Val` has no decidable equality) -/

/-- the outcome is the decimal `d` -/
def isOkDec (r : Res Val) (d : Dec) : Bool :=
  match r with
  | .ok (.num (.dec d')) => decide (d' = d)
  | _ => false

theorem of_isOkDec {r : Res Val} {d : Dec} (h : isOkDec r d = true) : r = .ok (.num (.dec d)) := by
  unfold isOkDec at h
  split at h
  · simp only [decide_eq_true_eq] at h; subst h; rfl
  · cases h

/-- the outcome is the error `cs` -/
def isErr (r : Res Val) (cs : List Cat) : Bool :=
  match r with
  | .err cs' => decide (cs' = cs)
  | _ => false

theorem of_isErr {r : Res Val} {cs : List Cat} (h : isErr r cs = true) : r = .err cs := by
  unfold isErr at h
  split at h
  · simp only [decide_eq_true_eq] at h; subst h; rfl
  · cases h

/-- the JSON text `s` decodes to `d` (checked by evaluation) -/
def decodesTo (s : Bytes) (d : Val) : Bool :=
  match Json.decode s with
  | some v => Val.same v d
  | none => false

theorem of_decodesTo {s : Bytes} {d : Val} (h : decodesTo s d = true) : Json.decode s = some d := by
  unfold decodesTo at h
  split at h
  · next v hv => rw [hv, Val.eq_of_same v d h]
  · cases h

/-! ### from parse trees -/

open Jmes.Grammar in
/-- the arithmetic operator of a token type (`-` and `−`, `/` and `÷` share a type; `*` and `×` do not) -/
def aopOf : TokenType → Option AOp
  | .add => some .add
  | .subtract => some .sub
  | .asterisk | .multiply => some .mul
  | .divide => some .div
  | .integerDivide => some .idiv
  | .modulo => some .mod
  | _ => none

open Jmes.Grammar in
theorem binNode_aop {ty : TokenType} {o : AOp} (h : aopOf ty = some o) (l r : INode) :
    binNode ty l r = .binop o.bin l r := by
  cases ty <;> simp [aopOf] at h <;> subst h <;> rfl

open Jmes.Grammar in
/-- **the arithmetic reading of a parse tree**: parentheses, unary signs and the six operators are followed; every other
    sub-tree (a literal, a field, `@`, a function call, a projection, a comparison, …) is a leaf -/
def ofPTree : PTree → AExp
  | .paren t => ofPTree t
  | .neg _ t => .neg (ofPTree t)
  | .pos t => .pos (ofPTree t)
  | .bin op l r =>
    match aopOf op.type with
    | some o => .bin o (ofPTree l) (ofPTree r)
    | none => .leaf (erase (.bin op l r))
  | t => .leaf (erase t)

open Jmes.Grammar in
/-- the node of the arithmetic reading is the node of the tree -/
theorem ofPTree_node : ∀ t : PTree, (ofPTree t).node = erase t
  | .paren t => by rw [ofPTree, erase]; exact ofPTree_node t
  | .neg _ t => by rw [ofPTree, erase, AExp.node, ofPTree_node t]
  | .pos t => by rw [ofPTree, erase, AExp.node, ofPTree_node t]
  | .bin op l r => by
    rw [ofPTree]
    cases h : aopOf op.type with
    | none => rfl
    | some o => simp only [AExp.node, erase, ofPTree_node l, ofPTree_node r, binNode_aop h]
  | .icur => rfl
  | .atom _ => rfl
  | .not _ => rfl
  | .dotId .. => rfl
  | .dotList .. => rfl
  | .dotHash .. => rfl
  | .dotStarList .. => rfl
  | .index .. => rfl
  | .call .. => rfl
  | .ref .. => rfl
  | .letIn .. => rfl
  | .multiList .. => rfl
  | .multiHash .. => rfl
  | .star .. => rfl
  | .ostar .. => rfl
  | .flat .. => rfl
  | .filt .. => rfl
  | .slice .. => rfl

end Jmes.C05ELemmas
