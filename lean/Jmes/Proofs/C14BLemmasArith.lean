/-
  Helper for property C14 (second round): the arithmetic operators, `sum`, `avg`, `sort` on related operands.
-/
import Jmes.Proofs.C14BLemmasReduce
import Jmes.Proofs.C14BLemmasFn
namespace Jmes

namespace Dec

theorem isSpecial_cmp {a b : Dec} (h : cmp a b = some 0) : a.isSpecial = b.isSpecial := by
  cases a with
  | nan => simp [cmp_nan_left] at h
  | inf n => have := isSpecial_of_cmp_zero_left h rfl; subst this; rfl
  | fin n c e => obtain ⟨_, _, _, rfl⟩ := fin_of_cmp_zero_fin h; rfl

theorem add_isSpecial_left {a : Dec} (b : Dec) (h : a.isSpecial = true) : (add a b).isSpecial = true := by
  cases a with
  | fin _ _ _ => simp [isSpecial] at h
  | nan => cases b <;> rfl
  | inf n => cases b <;> simp only [add] <;> first | rfl | (split <;> rfl)

theorem quo_bounded (a b : Dec) : (quo a b).Bounded := by
  cases a <;> cases b <;> simp only [quo] <;> first | trivial | exact fin_zero_bounded _ _ | skip
  split
  · split <;> trivial
  · split
    · exact fin_zero_bounded _ _
    · exact reduce_bounded _ _ _ _

end Dec

namespace C14B
open C14

section
variable {nf : Bool}

/-- the NaN/Inf check on two results of the same value -/
theorem checkD_rr {r r' : Dec} (h : Dec.Same r r') (hb : (r.Bounded ∧ r'.Bounded) ∨ r = r') :
    RR (VR nf) (checkD r) (checkD r') := by
  rcases h with ⟨h1, h2⟩ | h
  · have e1 : checkD r = errNaN := by
      cases r <;> simp [Dec.isSpecial] at h1 <;> simp [checkD, Dec.isInf, Dec.isNaN]
    have e2 : checkD r' = errNaN := by
      cases r' <;> simp [Dec.isSpecial] at h2 <;> simp [checkD, Dec.isInf, Dec.isNaN]
    rw [e1, e2]; exact rr_errNaN
  · cases r with
    | nan => simp [Dec.cmp_nan_left] at h
    | inf n =>
      have := Dec.isSpecial_of_cmp_zero_left h rfl
      subst this
      simp only [checkD, Dec.isInf, if_true]; exact rr_errNaN
    | fin n c e =>
      obtain ⟨n', c', e', rfl⟩ := Dec.fin_of_cmp_zero_fin h
      simp only [checkD, Dec.isInf, Dec.isNaN, Bool.false_eq_true, if_false]
      exact RR.ok' (vr_dec h hb)

/-- a binary decimal operator that respects value and boundedness, on float-free operands -/
theorem arith_rr_true (fop : F64 → F64 → F64) (dop : Dec → Dec → Dec)
    (hs : ∀ {a a' b b'}, Dec.cmp a a' = some 0 → Dec.cmp b b' = some 0 → Dec.Same (dop a b) (dop a' b'))
    (hbd : ∀ {a a' b b'}, DR a a' → DR b b' →
      ((dop a b).Bounded ∧ (dop a' b').Bounded) ∨ dop a b = dop a' b')
    {x x' y y' : Val} (hx : VR true x x') (hy : VR true y y') :
    RR (VR true) (arith fop dop x y) (arith fop dop x' y') := by
  rw [arith_noFloat fop dop (.inl (noFloat_of_vr _ _ hx).1), arith_noFloat fop dop (.inl (noFloat_of_vr _ _ hx).2)]
  rcases toDecimal_dr hx with ⟨e1, e2⟩ | ⟨d, d', e1, e2, e3⟩
  · simp only [e1, e2]; exact rr_errType
  · rcases toDecimal_dr hy with ⟨g1, g2⟩ | ⟨c, c', g1, g2, g3⟩
    · simp only [e1, e2, g1, g2]; exact rr_errType
    · simp only [e1, e2, g1, g2]
      exact checkD_rr (hs e3.1 g3.1) (hbd e3 g3)

theorem dr_neg {b b' : Dec} (h : DR b b') : DR b.neg b'.neg := by
  refine ⟨Dec.neg_cmp h.1, ?_⟩
  rcases h.2 with ⟨b1, b2⟩ | e
  · exact .inl ⟨Dec.neg_bounded b1, Dec.neg_bounded b2⟩
  · exact .inr (by rw [e])

/-- **`+` on float-free operands depends on the values only**, whatever the result (rounded or not) -/
theorem add_rr_true {x x' y y' : Val} (hx : VR true x x') (hy : VR true y y') :
    RR (VR true) (add x y) (add x' y') :=
  arith_rr_true _ _ Dec.add_same (fun ha hb => Dec.add_bounded_or ha.1 hb.1 ha.2 hb.2) hx hy

theorem subtract_rr_true {x x' y y' : Val} (hx : VR true x x') (hy : VR true y y') :
    RR (VR true) (subtract x y) (subtract x' y') :=
  arith_rr_true _ _ Dec.sub_same (fun ha hb => by
    rw [Dec.sub_eq_add_neg, Dec.sub_eq_add_neg]
    exact Dec.add_bounded_or ha.1 (dr_neg hb).1 ha.2 (dr_neg hb).2) hx hy

theorem multiply_rr_true {x x' y y' : Val} (hx : VR true x x') (hy : VR true y y') :
    RR (VR true) (multiply x y) (multiply x' y') :=
  arith_rr_true _ _ Dec.mul_same (fun _ _ => .inl ⟨Dec.mul_bounded _ _, Dec.mul_bounded _ _⟩) hx hy

theorem integerDivide_rr_true {x x' y y' : Val} (hx : VR true x x') (hy : VR true y y') :
    RR (VR true) (integerDivide x y) (integerDivide x' y') :=
  arith_rr_true _ _ Dec.idiv_same (fun _ _ => .inl ⟨Dec.idiv_bounded _ _, Dec.idiv_bounded _ _⟩) hx hy

theorem modulo_rr_true {x x' y y' : Val} (hx : VR true x x') (hy : VR true y y') :
    RR (VR true) (modulo x y) (modulo x' y') :=
  arith_rr_true _ _ Dec.mod_same (fun ha hb => Dec.mod_bounded_or _ _ ha.2 (Dec.isSpecial_cmp hb.1)
    (fun h => Dec.isSpecial_of_cmp_zero_left hb.1 h)) hx hy

/-- **`/` on float-free operands**: the values decide, provided both quotients are exact (`Dec.QuoFits`) -/
theorem divide_rr_true {x x' y y' : Val} (hx : VR true x x') (hy : VR true y y')
    (hfit : ∀ dx dy, toDecimal x = some dx → toDecimal y = some dy → Dec.QuoFits dx dy)
    (hfit' : ∀ dx dy, toDecimal x' = some dx → toDecimal y' = some dy → Dec.QuoFits dx dy) :
    RR (VR true) (divide x y) (divide x' y') := by
  unfold divide
  rw [arith_noFloat _ _ (.inl (noFloat_of_vr _ _ hx).1), arith_noFloat _ _ (.inl (noFloat_of_vr _ _ hx).2)]
  rcases toDecimal_dr hx with ⟨e1, e2⟩ | ⟨d, d', e1, e2, e3⟩
  · simp only [e1, e2]; exact rr_errType
  · rcases toDecimal_dr hy with ⟨g1, g2⟩ | ⟨c, c', g1, g2, g3⟩
    · simp only [e1, e2, g1, g2]; exact rr_errType
    · simp only [e1, e2, g1, g2]
      exact checkD_rr (Dec.quo_congr e3.1 g3.1 (hfit _ _ e1 g1) (hfit' _ _ e2 g2))
        (.inl ⟨Dec.quo_bounded _ _, Dec.quo_bounded _ _⟩)

/-! ## `sum`, `avg` -/

/-- accumulators of the same value (or both already NaN/Inf), both within the format or identical -/
def SR (a a' : Dec) : Prop := Dec.Same a a' ∧ ((a.Bounded ∧ a'.Bounded) ∨ a = a')

theorem sr_add {acc acc' d d' : Dec} (ha : SR acc acc') (hd : DR d d') : SR (acc.add d) (acc'.add d') := by
  rcases ha.1 with ⟨s1, s2⟩ | hc
  · have h1 := Dec.add_isSpecial_left d s1
    have h2 := Dec.add_isSpecial_left d' s2
    refine ⟨.inl ⟨h1, h2⟩, .inl ⟨?_, ?_⟩⟩
    · cases h : acc.add d <;> simp [h, Dec.isSpecial] at h1 <;> trivial
    · cases h : acc'.add d' <;> simp [h, Dec.isSpecial] at h2 <;> trivial
  · exact ⟨Dec.add_same hc hd.1, Dec.add_bounded_or hc hd.1 ha.2 hd.2⟩

theorem sumDec_sr : ∀ {xs xs' : List Val} {acc acc' : Dec}, VRL nf xs xs' → SR acc acc' →
    (sumDec xs acc = none ∧ sumDec xs' acc' = none) ∨
    ∃ r r', sumDec xs acc = some r ∧ sumDec xs' acc' = some r' ∧ SR r r'
  | [], [], _, _, _, ha => .inr ⟨_, _, rfl, rfl, ha⟩
  | [], _ :: _, _, _, h, _ => by simp [VRL] at h
  | _ :: _, [], _, _, h, _ => by simp [VRL] at h
  | x :: xs, x' :: xs', acc, acc', h, ha => by
    simp only [VRL] at h
    simp only [sumDec]
    rcases toDecimal_dr h.1 with ⟨e1, e2⟩ | ⟨d, d', e1, e2, e3⟩
    · left; simp only [e1, e2, and_self]
    · simp only [e1, e2]
      exact sumDec_sr h.2 (sr_add ha e3)

theorem sr_zero : SR Dec.zero Dec.zero :=
  ⟨.inr (by decide), .inr rfl⟩

/-- **`sum` on related arrays that are not map-ordered**: the same error or sums of equal value, whatever the
    rounding (for a map-ordered array of ≥ 2 elements the model may decline on either side) -/
theorem numSum_rr {t : ATag} {xs xs' : List Val} (h : VRL nf xs xs') (ht : enum2 t xs = false) :
    RR (VR nf) (numSum (.arr t xs)) (numSum (.arr t xs')) := by
  have ht' : enum2 t xs' = false := by rw [← enum2_vrl t h]; exact ht
  have ok : ∀ ys, enum2 t ys = false → enumSumOk t ys = true := by
    intro ys hy
    cases t <;> simp only [enumSumOk]
    simp only [enum2, beq_self_eq_true, Bool.true_and, decide_eq_false_iff_not, Nat.not_le] at hy
    simp [hy]
  simp only [numSum, ok xs ht, ok xs' ht', if_true]
  rcases sumDec_sr h sr_zero with ⟨e1, e2⟩ | ⟨r, r', e1, e2, e3⟩
  · simp only [e1, e2]; exact rr_errType
  · simp only [e1, e2]; exact checkD_rr e3.1 e3.2

/-- **`avg`** likewise, provided the final division is exact on both sides -/
theorem numAvg_rr {t : ATag} {xs xs' : List Val} (h : VRL nf xs xs') (ht : enum2 t xs = false)
    (hfit : ∀ r, sumDec xs Dec.zero = some r → Dec.QuoFits r (Dec.ofInt xs.length))
    (hfit' : ∀ r, sumDec xs' Dec.zero = some r → Dec.QuoFits r (Dec.ofInt xs'.length)) :
    RR (VR nf) (numAvg (.arr t xs)) (numAvg (.arr t xs')) := by
  have ht' : enum2 t xs' = false := by rw [← enum2_vrl t h]; exact ht
  have ok : ∀ ys, enum2 t ys = false → enumSumOk t ys = true := by
    intro ys hy
    cases t <;> simp only [enumSumOk]
    simp only [enum2, beq_self_eq_true, Bool.true_and, decide_eq_false_iff_not, Nat.not_le] at hy
    simp [hy]
  have he : xs.isEmpty = xs'.isEmpty := by
    have := vrl_length h
    cases xs <;> cases xs' <;> simp at this <;> rfl
  simp only [numAvg, ok xs ht, ok xs' ht', if_true, he]
  split
  · exact RR.ok' vr_null
  · rcases sumDec_sr h sr_zero with ⟨e1, e2⟩ | ⟨r, r', e1, e2, e3⟩
    · simp only [e1, e2]; exact rr_errType
    · simp only [e1, e2]
      have f1 := hfit r e1
      have f2 := hfit' r' e2
      rw [← vrl_length h] at f2 ⊢
      rcases e3.1 with ⟨s1, s2⟩ | hc
      · refine checkD_rr (.inl ⟨?_, ?_⟩) (.inl ⟨Dec.quo_bounded _ _, Dec.quo_bounded _ _⟩)
        · cases r <;> simp [Dec.isSpecial] at s1 <;> cases hl : Dec.ofInt (xs.length : Int) <;> simp [Dec.quo, Dec.isSpecial]
        · cases r' <;> simp [Dec.isSpecial] at s2 <;> cases hl : Dec.ofInt (xs.length : Int) <;> simp [Dec.quo, Dec.isSpecial]
      · exact checkD_rr (Dec.quo_congr hc (Dec.cmp_self (Dec.ofInt_ne_nan _)) f1 f2)
          (.inl ⟨Dec.quo_bounded _ _, Dec.quo_bounded _ _⟩)

/-! ## `sort` -/

/-- an element with its sort key, in the two representations -/
def PDR (nf : Bool) (p q : Val × Dec) : Prop := VR nf p.1 q.1 ∧ Dec.cmp p.2 q.2 = some 0

theorem zipDecs : ∀ {xs xs' : List Val} {ds ds' : List Dec}, VRL nf xs xs' → L2 DR ds ds' →
    ∃ L : List ((Val × Dec) × (Val × Dec)), L.map Prod.fst = xs.zip ds ∧ L.map Prod.snd = xs'.zip ds' ∧
      ∀ p ∈ L, PDR nf p.1 p.2
  | [], [], _, _, _, _ => ⟨[], by simp, by simp, by simp⟩
  | [], _ :: _, _, _, h, _ => by simp [VRL] at h
  | _ :: _, [], _, _, h, _ => by simp [VRL] at h
  | _ :: _, _ :: _, [], [], _, _ => ⟨[], by simp, by simp, by simp⟩
  | _ :: _, _ :: _, [], _ :: _, _, h => by simp [L2] at h
  | _ :: _, _ :: _, _ :: _, [], _, h => by simp [L2] at h
  | x :: xs, x' :: xs', d :: ds, d' :: ds', h, g => by
    simp only [VRL] at h
    simp only [L2] at g
    obtain ⟨L, l1, l2, l3⟩ := zipDecs h.2 g.2
    refine ⟨((x, d), (x', d')) :: L, by simp [l1], by simp [l2], ?_⟩
    intro p hp
    rcases List.mem_cons.mp hp with rfl | hp
    · exact ⟨h.1, g.1.1⟩
    · exact l3 p hp

theorem sortTail_rr {xs xs' : List Val} (h : VRL nf xs xs') :
    sortTail xs = .nondet ∨ sortTail xs' = .nondet ∨ RR (VR nf) (sortTail xs) (sortTail xs') := by
  unfold sortTail
  rcases allDecimals_dr h with ⟨g1, g2⟩ | ⟨ds, ds', g1, g2, g3⟩
  · simp only [g1, g2]; exact .inr (.inr rr_errType)
  · obtain ⟨L, l1, l2, l3⟩ := zipDecs h g3
    have s1 : (L.mergeSort (fun p q => decide (Dec.compare p.1.2 q.1.2 ≤ 0))).map Prod.fst =
        (L.map Prod.fst).mergeSort (fun a b => decide (Dec.compare a.2 b.2 ≤ 0)) :=
      List.map_mergeSort (r := fun p q => decide (Dec.compare p.1.2 q.1.2 ≤ 0))
        (s := fun a b => decide (Dec.compare a.2 b.2 ≤ 0)) (f := Prod.fst) (l := L) (fun _ _ _ _ => rfl)
    have hc : L.mergeSort (fun p q => decide (Dec.compare p.1.2 q.1.2 ≤ 0)) =
        L.mergeSort (fun p q => decide (Dec.compare p.2.2 q.2.2 ≤ 0)) := by
      apply mergeSort_congr
      intro a ha b hb
      simp only [Dec.compare_congr (l3 a ha).2 (l3 b hb).2]
    have s2 : (L.mergeSort (fun p q => decide (Dec.compare p.1.2 q.1.2 ≤ 0))).map Prod.snd =
        (L.map Prod.snd).mergeSort (fun a b => decide (Dec.compare a.2 b.2 ≤ 0)) := by
      rw [hc]
      exact List.map_mergeSort (r := fun p q => decide (Dec.compare p.2.2 q.2.2 ≤ 0))
        (s := fun a b => decide (Dec.compare a.2 b.2 ≤ 0)) (f := Prod.snd) (l := L) (fun _ _ _ _ => rfl)
    rw [l1] at s1
    rw [l2] at s2
    simp only [g1, g2, ← s1, ← s2]
    generalize hS : L.mergeSort (fun p q => decide (Dec.compare p.1.2 q.1.2 ≤ 0)) = S
    have hS' : ∀ p ∈ S, PDR nf p.1 p.2 := by
      intro p hp; rw [← hS] at hp; exact l3 p (List.mem_mergeSort.mp hp)
    by_cases t1 : hasAmbiguousTie (S.map Prod.fst) = true
    · left; simp [t1]
    · by_cases t2 : hasAmbiguousTie (S.map Prod.snd) = true
      · right; left; simp [t2]
      · right; right
        simp only [t1, t2, Bool.false_eq_true, if_false]
        refine RR.ok' (vr_arr ?_)
        clear hS s1 s2 hc t1 t2
        induction S with
        | nil => simp
        | cons p S ih =>
          simp only [List.map_cons]
          exact vrl_cons (hS' p (List.mem_cons_self ..)).1 (ih (fun q hq => hS' q (List.mem_cons_of_mem _ hq)))

/-- **`sort` on related arrays**: unless the model declines on either side because of a tie between values that are
    equal but not identical, the same error or element-wise related arrays -/
theorem sortArray_rr {x x' : Val} (h : VR nf x x') :
    sortArray x = .nondet ∨ sortArray x' = .nondet ∨ RR (VR nf) (sortArray x) (sortArray x') := by
  cases x <;> cases x' <;> simp only [VR] at h <;> try exact .inr (.inr rr_errType)
  next t xs u xs' =>
  obtain ⟨rfl, h⟩ := h
  cases xs with
  | nil => cases xs' with
    | nil => exact .inr (.inr (RR.ok' (vr_arr vrl_nil)))
    | cons _ _ => simp [VRL] at h
  | cons x0 rest => cases xs' with
    | nil => simp [VRL] at h
    | cons x0' rest' =>
      by_cases hs : ∃ s, x0 = .str s
      · obtain ⟨s, rfl⟩ := hs
        have h' := h
        simp only [VRL] at h
        obtain ⟨h0, h⟩ := h
        cases x0' <;> simp only [VR] at h0
        subst h0
        right; right
        simp only [sortArray]
        rw [allStrings_equiv (vrl_equiv _ _ h')]
        cases allStrings (.str s :: rest') with
        | none => exact rr_errType
        | some ss => exact RR.ok' (vr_arr (vrl_strs _))
      · have hx : ∀ s, x0 ≠ .str s := fun s e => hs ⟨s, e⟩
        have hx' := equiv_not_str (vr_equiv _ _ (by simp only [VRL] at h; exact h.1)) hx
        rw [sortArray_tail t x0 rest hx, sortArray_tail t x0' rest' hx']
        exact sortTail_rr h

end
end C14B
end Jmes
