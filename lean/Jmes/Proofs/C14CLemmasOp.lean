/-
  Helper for property C14 (third round): the predicate `AllF P` ("every float inside the value satisfies `P`") and
  the five arithmetic operators `+ - * // %` on operands whose floats hold small integers (`IntF K`, `2K ≤ 53`):
  related operands (`VR false`: same values, any mix of representations) give related outcomes, and a float result
  again holds an integer below `2^(2K)`.
-/
import Jmes.Proofs.C14CLemmas
namespace Jmes
namespace C14C
open C14 C14B

/-! ## 1. `AllF` -/

/-- the float carried by the number (if any) satisfies `P` -/
def NumF (P : F64 → Prop) : Num → Prop
  | .f64 f => P f
  | .f32 f => P f
  | _ => True

mutual
/-- every `float64` / `float32` inside the value satisfies `P` -/
def AllF (P : F64 → Prop) : Val → Prop
  | .num a => NumF P a
  | .arr _ xs => AllFL P xs
  | .obj kvs => AllFF P kvs
  | _ => True
def AllFL (P : F64 → Prop) : List Val → Prop
  | [] => True
  | x :: xs => AllF P x ∧ AllFL P xs
def AllFF (P : F64 → Prop) : List (Bytes × Val) → Prop
  | [] => True
  | (_, x) :: kvs => AllF P x ∧ AllFF P kvs
end

section
variable {P P' : F64 → Prop}

theorem allFL_iff : ∀ {xs : List Val}, AllFL P xs ↔ ∀ x ∈ xs, AllF P x
  | [] => by simp [AllFL]
  | x :: xs => by simp [AllFL, allFL_iff (xs := xs)]

theorem allFF_iff : ∀ {kvs : List (Bytes × Val)}, AllFF P kvs ↔ ∀ k x, (k, x) ∈ kvs → AllF P x
  | [] => by simp [AllFF]
  | (k, x) :: kvs => by
    simp only [AllFF, allFF_iff (kvs := kvs), List.mem_cons, Prod.mk.injEq]
    constructor
    · rintro ⟨h1, h2⟩ k' x' (⟨_, rfl⟩ | hm)
      · exact h1
      · exact h2 k' x' hm
    · intro h
      exact ⟨h k x (Or.inl ⟨rfl, rfl⟩), fun k' x' hm => h k' x' (Or.inr hm)⟩

@[simp] theorem allF_null : AllF P .null := by simp [AllF]
@[simp] theorem allF_bool (b : Bool) : AllF P (.bool b) := by simp [AllF]
@[simp] theorem allF_str (s : Bytes) : AllF P (.str s) := by simp [AllF]
@[simp] theorem allF_foreign (t : Nat) : AllF P (.foreign t) := by simp [AllF]
@[simp] theorem allF_dec (d : Dec) : AllF P (.num (.dec d)) := by simp [AllF, NumF]
@[simp] theorem allF_jnum (t : Bytes) : AllF P (.num (.jnum t)) := by simp [AllF, NumF]
@[simp] theorem allF_int (k : IntKind) (i : Int) : AllF P (.num (.int k i)) := by simp [AllF, NumF]
@[simp] theorem allF_f64 (f : F64) : AllF P (.num (.f64 f)) ↔ P f := by simp [AllF, NumF]
@[simp] theorem allF_f32 (f : F64) : AllF P (.num (.f32 f)) ↔ P f := by simp [AllF, NumF]
theorem allF_arr {t : ATag} {xs : List Val} : AllF P (.arr t xs) ↔ ∀ x ∈ xs, AllF P x := by
  simp [AllF, allFL_iff]
theorem allF_obj {kvs : List (Bytes × Val)} : AllF P (.obj kvs) ↔ ∀ k x, (k, x) ∈ kvs → AllF P x := by
  simp [AllF, allFF_iff]

mutual
/-- a float-free value satisfies `AllF P` for every `P` -/
theorem allF_of_noFloat : ∀ (v : Val), v.NoFloat → AllF P v
  | .null, _ | .bool _, _ | .str _, _ | .foreign _, _ => by simp
  | .num a, h => by cases a <;> simp_all [Val.NoFloat, Num.NoFloat]
  | .arr _ xs, h => by
    simp only [Val.NoFloat] at h
    simp only [AllF]; exact allFL_of_noFloat xs h
  | .obj kvs, h => by
    simp only [Val.NoFloat] at h
    simp only [AllF]; exact allFF_of_noFloat kvs h
theorem allFL_of_noFloat : ∀ (xs : List Val), Val.NoFloatL xs → AllFL P xs
  | [], _ => by simp [AllFL]
  | x :: xs, h => by
    simp only [Val.NoFloatL] at h
    exact ⟨allF_of_noFloat x h.1, allFL_of_noFloat xs h.2⟩
theorem allFF_of_noFloat : ∀ (kvs : List (Bytes × Val)), Val.NoFloatF kvs → AllFF P kvs
  | [], _ => by simp [AllFF]
  | (_, x) :: kvs, h => by
    simp only [Val.NoFloatF] at h
    exact ⟨allF_of_noFloat x h.1, allFF_of_noFloat kvs h.2⟩
end

mutual
theorem AllF.mono (hP : ∀ f, P f → P' f) : ∀ (v : Val), AllF P v → AllF P' v
  | .null, _ | .bool _, _ | .str _, _ | .foreign _, _ => by simp
  | .num a, h => by
    cases a <;> simp only [AllF, NumF] at h ⊢ <;> first | exact hP _ h | trivial
  | .arr _ xs, h => by
    simp only [AllF] at h ⊢; exact AllFL.mono hP xs h
  | .obj kvs, h => by
    simp only [AllF] at h ⊢; exact AllFF.mono hP kvs h
theorem AllFL.mono (hP : ∀ f, P f → P' f) : ∀ (xs : List Val), AllFL P xs → AllFL P' xs
  | [], _ => by simp [AllFL]
  | x :: xs, h => by
    simp only [AllFL] at h ⊢
    exact ⟨AllF.mono hP x h.1, AllFL.mono hP xs h.2⟩
theorem AllFF.mono (hP : ∀ f, P f → P' f) : ∀ (kvs : List (Bytes × Val)), AllFF P kvs → AllFF P' kvs
  | [], _ => by simp [AllFF]
  | (_, x) :: kvs, h => by
    simp only [AllFF] at h ⊢
    exact ⟨AllF.mono hP x h.1, AllFF.mono hP kvs h.2⟩
end

/-- the float carried by a value, with its decimal -/
theorem toFloat_cases (x : Val) :
    (∃ f, toFloat x = some f ∧ toDecimal x = some f.toDec ∧ ∀ Q : F64 → Prop, AllF Q x → Q f) ∨ toFloat x = none := by
  cases x with
  | num a =>
    cases a with
    | f64 f => exact .inl ⟨f, rfl, rfl, fun Q h => by simpa using h⟩
    | f32 f => exact .inl ⟨f, rfl, rfl, fun Q h => by simpa using h⟩
    | _ => exact .inr rfl
  | _ => exact .inr rfl

end

example : AllF (IntF 8) (.arr .plain [.num (.f64 (F64.mk true 200 0)), .num (.jnum [0x31, 0x2E, 0x35]), .str []]) := by
  simp only [AllF, AllFL, NumF, and_true]
  exact ⟨true, 200, by decide, rfl⟩

/-! ## 2. `VR` is symmetric -/

theorem nr_symm {nf : Bool} {a b : Num} (h : NR nf a b) : NR nf b a :=
  ⟨h.1.symm, h.2.1.elim (fun h => .inl ⟨h.2, h.1⟩) (fun e => .inr e.symm), fun e => ⟨(h.2.2 e).2, (h.2.2 e).1⟩⟩

mutual
theorem vr_symm {nf : Bool} : ∀ (x y : Val), VR nf x y → VR nf y x
  | .null, y, h => by cases y <;> simp_all [VR]
  | .bool _, y, h => by cases y <;> simp_all [VR]
  | .str _, y, h => by cases y <;> simp_all [VR]
  | .foreign _, y, h => by cases y <;> simp_all [VR]
  | .num a, y, h => by
    cases y <;> simp only [VR] at h ⊢
    exact nr_symm h
  | .arr t xs, y, h => by
    cases y <;> simp only [VR] at h ⊢
    exact ⟨h.1.symm, vrl_symm xs _ h.2⟩
  | .obj kvs, y, h => by
    cases y <;> simp only [VR] at h ⊢
    exact vrf_symm kvs _ h
theorem vrl_symm {nf : Bool} : ∀ (xs ys : List Val), VRL nf xs ys → VRL nf ys xs
  | [], ys, h => by cases ys <;> simp_all [VRL]
  | x :: xs, ys, h => by
    cases ys <;> simp only [VRL] at h ⊢
    exact ⟨vr_symm x _ h.1, vrl_symm xs _ h.2⟩
theorem vrf_symm {nf : Bool} : ∀ (xs ys : List (Bytes × Val)), VRF nf xs ys → VRF nf ys xs
  | [], ys, h => by cases ys <;> simp_all [VRF]
  | (k, x) :: xs, ys, h => by
    cases ys with
    | nil => simp only [VRF] at h
    | cons p ys =>
      obtain ⟨l, y⟩ := p
      simp only [VRF] at h ⊢
      exact ⟨h.1.symm, vr_symm x _ h.2.1, vrf_symm xs _ h.2.2⟩
end

theorem rr_symm {nf : Bool} {r r' : Res Val} (h : RR (VR nf) r r') : RR (VR nf) r' r := by
  cases r <;> cases r' <;> simp only [RR] at h ⊢ <;> first | exact vr_symm _ _ h | exact h.symm | trivial

/-! ## 3. the arithmetic operators on small integers -/

/-- what is needed of an arithmetic operator: on floats holding integers `< 2^K` its binary64 path `fop` returns the
    float holding the integer `g z₁ z₂` (or NaN/Inf where `g` is undefined: division by zero); on decimals of the same
    two integer values its decimal128 path `dop` returns a decimal of that value (or NaN/Inf); `dop` respects the value
    of its operands and stays within the format. -/
structure IntOp (fop : F64 → F64 → F64) (dop : Dec → Dec → Dec) (g : Int → Int → Option Int) (K : Nat) : Prop where
  fl_some : ∀ n1 v1 n2 v2 r, v1 < 2 ^ K → v2 < 2 ^ K → g (Dec.intVal n1 v1) (Dec.intVal n2 v2) = some r →
    ∃ n w, fop (F64.mk n1 v1 0) (F64.mk n2 v2 0) = F64.mk n w 0 ∧ Dec.intVal n w = r ∧ w < 2 ^ (2 * K)
  fl_none : ∀ n1 v1 n2 v2, v1 < 2 ^ K → v2 < 2 ^ K → g (Dec.intVal n1 v1) (Dec.intVal n2 v2) = none →
    checkF (fop (F64.mk n1 v1 0) (F64.mk n2 v2 0)) = errNaN
  de_some : ∀ a b z1 z2 r, IsInt a z1 → IsInt b z2 → z1.natAbs < 2 ^ K → z2.natAbs < 2 ^ K → g z1 z2 = some r →
    IsInt (dop a b) r
  de_none : ∀ a b z1 z2, IsInt a z1 → IsInt b z2 → g z1 z2 = none → (dop a b).isSpecial = true
  same : ∀ {a a' b b'}, Dec.cmp a a' = some 0 → Dec.cmp b b' = some 0 → Dec.Same (dop a b) (dop a' b')
  hbd : ∀ {a a' b b'}, DR a a' → DR b b' → ((dop a b).Bounded ∧ (dop a' b').Bounded) ∨ dop a b = dop a' b'
  bdd : ∀ {a b}, a.Bounded → b.Bounded → (dop a b).Bounded

theorem pow_bounds {K : Nat} (hK : 2 * K ≤ 53) {v1 v2 : Nat} (h1 : v1 < 2 ^ K) (h2 : v2 < 2 ^ K) :
    v1 + v2 < 2 ^ 53 ∧ v1 * v2 < 2 ^ (2 * K) ∧ 2 ^ (2 * K) ≤ 2 ^ 53 ∧ 2 ^ K ≤ 2 ^ (2 * K) ∧
      (∀ w, w ≤ v1 + v2 → w < 2 ^ (2 * K)) := by
  have e2 : 2 ^ (2 * K) = 2 ^ K * 2 ^ K := by rw [Nat.two_mul, Nat.pow_add]
  have hle : 2 ^ (2 * K) ≤ 2 ^ 53 := Nat.pow_le_pow_right (by decide) hK
  have hp : 0 < 2 ^ K := Nat.pow_pos (by decide)
  have hKK : 2 ^ K ≤ 2 ^ (2 * K) := Nat.pow_le_pow_right (by decide) (by omega)
  have hmul : v1 * v2 < 2 ^ (2 * K) := by
    rw [e2]
    exact Nat.lt_of_le_of_lt (Nat.mul_le_mul_right _ (Nat.le_of_lt h1))
      ((Nat.mul_lt_mul_left hp).mpr h2)
  have hsum : ∀ w, w ≤ v1 + v2 → w < 2 ^ (2 * K) := by
    intro w hw
    by_cases h0 : K = 0
    · subst h0; simp at h1 h2 ⊢; omega
    · have : 2 ^ (K + 1) ≤ 2 ^ (2 * K) := Nat.pow_le_pow_right (by decide) (by omega)
      rw [Nat.pow_succ] at this
      omega
  refine ⟨?_, hmul, hle, hKK, hsum⟩
  have := hsum (v1 + v2) (Nat.le_refl _)
  omega

theorem natAbs_bounds {z1 z2 : Int} {K : Nat} (hK : 2 * K ≤ 53) (h1 : z1.natAbs < 2 ^ K) (h2 : z2.natAbs < 2 ^ K) :
    (z1 + z2).natAbs ≤ Dec.MAXSIG ∧ (z1 - z2).natAbs ≤ Dec.MAXSIG ∧ (z1 * z2).natAbs ≤ Dec.MAXSIG ∧
      z1.natAbs ≤ Dec.MAXSIG := by
  obtain ⟨b1, b2, b3, b4, _⟩ := pow_bounds hK h1 h2
  have h53 := F64.two53_le_MAXSIG
  refine ⟨by omega, by omega, ?_, by omega⟩
  rw [Int.natAbs_mul]; omega

theorem intOp_add {K : Nat} (hK : 2 * K ≤ 53) : IntOp F64.add Dec.add (fun a b => some (a + b)) K where
  fl_some := by
    intro n1 v1 n2 v2 r h1 h2 hg
    cases hg
    obtain ⟨b1, _, _, _, b5⟩ := pow_bounds hK h1 h2
    obtain ⟨n, w, e1, e2, e3⟩ := add_mk n1 n2 v1 v2 b1
    exact ⟨n, w, e1, e2, b5 w e3⟩
  fl_none := by intro _ _ _ _ _ _ h; cases h
  de_some := by
    intro a b z1 z2 r ha hb h1 h2 hg
    cases hg
    exact isInt_add ha hb (natAbs_bounds hK h1 h2).1
  de_none := by intro _ _ _ _ _ _ h; cases h
  same := Dec.add_same
  hbd := fun ha hb => Dec.add_bounded_or ha.1 hb.1 ha.2 hb.2
  bdd := add_bounded

theorem intOp_sub {K : Nat} (hK : 2 * K ≤ 53) : IntOp F64.sub Dec.sub (fun a b => some (a - b)) K where
  fl_some := by
    intro n1 v1 n2 v2 r h1 h2 hg
    cases hg
    obtain ⟨b1, _, _, _, b5⟩ := pow_bounds hK h1 h2
    obtain ⟨n, w, e1, e2, e3⟩ := sub_mk n1 n2 v1 v2 b1
    exact ⟨n, w, e1, e2, b5 w e3⟩
  fl_none := by intro _ _ _ _ _ _ h; cases h
  de_some := by
    intro a b z1 z2 r ha hb h1 h2 hg
    cases hg
    exact isInt_sub ha hb (natAbs_bounds hK h1 h2).2.1
  de_none := by intro _ _ _ _ _ _ h; cases h
  same := Dec.sub_same
  hbd := fun ha hb => by
    rw [Dec.sub_eq_add_neg, Dec.sub_eq_add_neg]
    exact Dec.add_bounded_or ha.1 (dr_neg hb).1 ha.2 (dr_neg hb).2
  bdd := sub_bounded

theorem intOp_mul {K : Nat} (hK : 2 * K ≤ 53) : IntOp F64.mul Dec.mul (fun a b => some (a * b)) K where
  fl_some := by
    intro n1 v1 n2 v2 r h1 h2 hg
    cases hg
    obtain ⟨_, b2, b3, _, _⟩ := pow_bounds hK h1 h2
    exact ⟨_, _, mul_mk n1 n2 v1 v2 (by omega), intVal_mul n1 n2 v1 v2, b2⟩
  fl_none := by intro _ _ _ _ _ _ h; cases h
  de_some := by
    intro a b z1 z2 r ha hb h1 h2 hg
    cases hg
    exact isInt_mul ha hb (natAbs_bounds hK h1 h2).2.2.1
  de_none := by intro _ _ _ _ _ _ h; cases h
  same := Dec.mul_same
  hbd := fun _ _ => .inl ⟨Dec.mul_bounded _ _, Dec.mul_bounded _ _⟩
  bdd := fun _ _ => Dec.mul_bounded _ _

/-- the value of `a // b`, `a % b` on integers: undefined for `b = 0` -/
def gdiv (a b : Int) : Option Int := if b = 0 then none else some (a.tdiv b)
def gmod (a b : Int) : Option Int := if b = 0 then none else some (a.tmod b)

theorem intVal_eq_zero {n : Bool} {v : Nat} : Dec.intVal n v = 0 ↔ v = 0 := by
  cases n <;> simp [Dec.intVal]

theorem intOp_idiv {K : Nat} (hK : 2 * K ≤ 53) :
    IntOp (fun a b => (F64.div a b).trunc) (fun a b => (Dec.quoRem a b).1) gdiv K where
  fl_some := by
    intro n1 v1 n2 v2 r h1 h2 hg
    obtain ⟨_, _, b3, b4, _⟩ := pow_bounds hK h1 h2
    simp only [gdiv] at hg
    split at hg
    · cases hg
    · next hz =>
      cases hg
      have hz' : v2 ≠ 0 := fun e => hz (intVal_eq_zero.mpr e)
      refine ⟨_, _, idiv_mk n1 n2 v1 v2 (by omega) (by omega) hz', intVal_tdiv n1 n2 v1 v2, ?_⟩
      exact Nat.lt_of_le_of_lt (Nat.div_le_self _ _) (by omega)
  fl_none := by
    intro n1 v1 n2 v2 _ _ hg
    simp only [gdiv] at hg
    split at hg
    · next hz =>
      have := intVal_eq_zero.mp hz
      subst this
      exact checkF_idiv_zero n1 n2 v1
    · cases hg
  de_some := by
    intro a b z1 z2 r ha hb h1 h2 hg
    simp only [gdiv] at hg
    split at hg
    · cases hg
    · next hz => cases hg; exact isInt_idiv ha hb hz (natAbs_bounds hK h1 h2).2.2.2
  de_none := by
    intro a b z1 z2 _ hb hg
    simp only [gdiv] at hg
    split at hg
    · next hz => subst hz; exact (quoRem_zero_special hb).1
    · cases hg
  same := Dec.idiv_same
  hbd := fun _ _ => .inl ⟨Dec.idiv_bounded _ _, Dec.idiv_bounded _ _⟩
  bdd := fun _ _ => Dec.idiv_bounded _ _

theorem intOp_mod {K : Nat} (hK : 2 * K ≤ 53) : IntOp F64.mod (fun a b => (Dec.quoRem a b).2) gmod K where
  fl_some := by
    intro n1 v1 n2 v2 r h1 h2 hg
    obtain ⟨_, _, b3, b4, _⟩ := pow_bounds hK h1 h2
    simp only [gmod] at hg
    split at hg
    · cases hg
    · next hz =>
      cases hg
      have hz' : v2 ≠ 0 := fun e => hz (intVal_eq_zero.mpr e)
      refine ⟨_, _, mod_mk n1 n2 v1 v2 hz', intVal_tmod n1 n2 v1 v2, ?_⟩
      exact Nat.lt_of_le_of_lt (Nat.mod_le _ _) (by omega)
  fl_none := by
    intro n1 v1 n2 v2 _ _ hg
    simp only [gmod] at hg
    split at hg
    · next hz =>
      have := intVal_eq_zero.mp hz
      subst this
      exact checkF_mod_zero n1 n2 v1
    · cases hg
  de_some := by
    intro a b z1 z2 r ha hb h1 h2 hg
    simp only [gmod] at hg
    split at hg
    · cases hg
    · next hz => cases hg; exact isInt_mod ha hb hz (natAbs_bounds hK h1 h2).2.2.2
  de_none := by
    intro a b z1 z2 _ hb hg
    simp only [gmod] at hg
    split at hg
    · next hz => subst hz; exact (quoRem_zero_special hb).2
    · cases hg
  same := Dec.mod_same
  hbd := fun ha hb => Dec.mod_bounded_or _ _ ha.2 (Dec.isSpecial_cmp hb.1)
    (fun h => Dec.isSpecial_of_cmp_zero_left hb.1 h)
  bdd := fun ha _ => mod_bounded _ ha

/-! ### the operator on values -/

section
variable {fop : F64 → F64 → F64} {dop : Dec → Dec → Dec} {g : Int → Int → Option Int} {K : Nat}

theorem toFloat_toDecimal_none {x : Val} (h : toDecimal x = none) : toFloat x = none := by
  rcases toFloat_cases x with ⟨f, _, h2, _⟩ | h'
  · rw [h2] at h; cases h
  · exact h'

theorem arith_none_left (fop : F64 → F64 → F64) (dop : Dec → Dec → Dec) {x : Val} (y : Val) (h : toDecimal x = none) :
    arith fop dop x y = errType := by
  simp only [arith, toFloatPair, toFloat_toDecimal_none h, h]

theorem arith_none_right (fop : F64 → F64 → F64) (dop : Dec → Dec → Dec) (x : Val) {y : Val} (h : toDecimal y = none) :
    arith fop dop x y = errType := by
  have hp : toFloatPair x y = none := by
    simp only [toFloatPair, toFloat_toDecimal_none h]
    cases toFloat x <;> rfl
  simp only [arith, hp, h]
  cases toDecimal x <;> rfl

theorem arith_ff (fop : F64 → F64 → F64) (dop : Dec → Dec → Dec) {x y : Val} {f1 f2 : F64} (h1 : toFloat x = some f1)
    (h2 : toFloat y = some f2) : arith fop dop x y = checkF (fop f1 f2) := by
  simp only [arith, toFloatPair, h1, h2]

theorem toFloatPair_none_of {x y : Val} (h : toFloat x = none ∨ toFloat y = none) : toFloatPair x y = none := by
  rcases h with h | h <;> simp only [toFloatPair, h]
  cases toFloat x <;> rfl

theorem checkD_special {d : Dec} (h : d.isSpecial = true) : checkD d = errNaN := by
  cases d <;> simp [Dec.isSpecial] at h <;> simp [checkD, Dec.isInf, Dec.isNaN]

theorem checkD_isInt {d : Dec} {z : Int} (h : IsInt d z) : checkD d = .ok (.num (.dec d)) := by
  obtain ⟨n, c, e, rfl⟩ := fin_of_isInt h; rfl

/-- both operands floats (holding small integers) on the left; anything related on the right -/
theorem arith_ff_any (I : IntOp fop dop g K) (hK : 2 * K ≤ 53) {x x' y y' : Val} {f1 f2 : F64}
    (hx : VR false x x') (hy : VR false y y') (h1 : toFloat x = some f1) (h2 : toFloat y = some f2)
    (p1 : IntF K f1) (p2 : IntF K f2) (fx' : AllF (IntF K) x') (fy' : AllF (IntF K) y') :
    RR (VR false) (arith fop dop x y) (arith fop dop x' y') := by
  obtain ⟨n1, v1, hv1, rfl⟩ := p1
  obtain ⟨n2, v2, hv2, rfl⟩ := p2
  obtain ⟨_, _, b3, b4, _⟩ := pow_bounds hK hv1 hv2
  have dx : toDecimal x = some (F64.mk n1 v1 0).toDec := by
    rcases toFloat_cases x with ⟨f, e1, e2, _⟩ | e
    · rw [h1] at e1; cases e1; exact e2
    · rw [h1] at e; cases e
  have dy : toDecimal y = some (F64.mk n2 v2 0).toDec := by
    rcases toFloat_cases y with ⟨f, e1, e2, _⟩ | e
    · rw [h2] at e1; cases e1; exact e2
    · rw [h2] at e; cases e
  have i1 := isInt_toDec_mk n1 v1 (by omega)
  have i2 := isInt_toDec_mk n2 v2 (by omega)
  rw [arith_ff fop dop h1 h2]
  -- the right-hand decimals
  rcases toDecimal_dr hx with ⟨e1, _⟩ | ⟨d1, d1', e1, e1', r1⟩
  · rw [dx] at e1; cases e1
  rcases toDecimal_dr hy with ⟨e2, _⟩ | ⟨d2, d2', e2, e2', r2⟩
  · rw [dy] at e2; cases e2
  rw [dx] at e1; rw [dy] at e2
  cases e1; cases e2
  have i1' : IsInt d1' (Dec.intVal n1 v1) := i1.congr r1.1
  have i2' : IsInt d2' (Dec.intVal n2 v2) := i2.congr r2.1
  have bd1 : d1'.Bounded := by
    rcases r1.2 with ⟨_, b⟩ | e
    · exact b
    · rw [← e]; exact F64.toDec_bounded _
  have bd2 : d2'.Bounded := by
    rcases r2.2 with ⟨_, b⟩ | e
    · exact b
    · rw [← e]; exact F64.toDec_bounded _
  -- is the right-hand side a float pair?
  rcases toFloat_cases x' with ⟨f1', g1, g1d, q1⟩ | g1
  · rcases toFloat_cases y' with ⟨f2', g2, g2d, q2⟩ | g2
    · -- float pair on both sides
      obtain ⟨n1', v1', hv1', rfl⟩ := q1 _ fx'
      obtain ⟨n2', v2', hv2', rfl⟩ := q2 _ fy'
      rw [arith_ff fop dop g1 g2]
      rw [e1'] at g1d; rw [e2'] at g2d
      cases g1d; cases g2d
      have z1 : Dec.intVal n1' v1' = Dec.intVal n1 v1 := (isInt_toDec_mk n1' v1' (by omega)).unique i1'
      have z2 : Dec.intVal n2' v2' = Dec.intVal n2 v2 := (isInt_toDec_mk n2' v2' (by omega)).unique i2'
      cases hg : g (Dec.intVal n1 v1) (Dec.intVal n2 v2) with
      | none =>
        rw [I.fl_none _ _ _ _ hv1 hv2 hg, I.fl_none _ _ _ _ hv1' hv2' (by rw [z1, z2]; exact hg)]
        exact rr_errNaN
      | some r =>
        obtain ⟨n, w, ew, ev, hw⟩ := I.fl_some _ _ _ _ r hv1 hv2 hg
        obtain ⟨n', w', ew', ev', hw'⟩ := I.fl_some _ _ _ _ r hv1' hv2' (by rw [z1, z2]; exact hg)
        rw [ew, ew', C14BF.checkF_mk, C14BF.checkF_mk]
        refine RR.ok' ?_
        simp only [VR]
        refine ⟨⟨_, _, rfl, rfl, ?_⟩, .inl ⟨fok_mk_int n w (by omega), fok_mk_int n' w' (by omega)⟩,
          fun e => by cases e⟩
        have a1 := isInt_toDec_mk n w (by omega)
        have a2 := isInt_toDec_mk n' w' (by omega)
        rw [ev] at a1; rw [ev'] at a2
        exact Dec.cmp_zero_trans a1 (Dec.cmp_zero_symm a2)
    · -- right: decimal path
      rw [C14BF.arith_decimal fop dop (toFloatPair_none_of (.inr g2)) e1' e2']
      cases hg : g (Dec.intVal n1 v1) (Dec.intVal n2 v2) with
      | none =>
        rw [I.fl_none _ _ _ _ hv1 hv2 hg, checkD_special (I.de_none _ _ _ _ i1' i2' hg)]
        exact rr_errNaN
      | some r =>
        obtain ⟨n, w, ew, ev, hw⟩ := I.fl_some _ _ _ _ r hv1 hv2 hg
        have ir := I.de_some _ _ _ _ r i1' i2' (by rw [intVal_natAbs]; exact hv1) (by rw [intVal_natAbs]; exact hv2) hg
        rw [ew, C14BF.checkF_mk, checkD_isInt ir]
        refine RR.ok' ?_
        simp only [VR]
        refine ⟨⟨_, _, rfl, rfl, ?_⟩, .inl ⟨fok_mk_int n w (by omega), I.bdd bd1 bd2⟩, fun e => by cases e⟩
        have a1 := isInt_toDec_mk n w (by omega)
        rw [ev] at a1
        exact Dec.cmp_zero_trans a1 (Dec.cmp_zero_symm ir)
  · -- right: decimal path
    rw [C14BF.arith_decimal fop dop (toFloatPair_none_of (.inl g1)) e1' e2']
    cases hg : g (Dec.intVal n1 v1) (Dec.intVal n2 v2) with
    | none =>
      rw [I.fl_none _ _ _ _ hv1 hv2 hg, checkD_special (I.de_none _ _ _ _ i1' i2' hg)]
      exact rr_errNaN
    | some r =>
      obtain ⟨n, w, ew, ev, hw⟩ := I.fl_some _ _ _ _ r hv1 hv2 hg
      have ir := I.de_some _ _ _ _ r i1' i2' (by rw [intVal_natAbs]; exact hv1) (by rw [intVal_natAbs]; exact hv2) hg
      rw [ew, C14BF.checkF_mk, checkD_isInt ir]
      refine RR.ok' ?_
      simp only [VR]
      refine ⟨⟨_, _, rfl, rfl, ?_⟩, .inl ⟨fok_mk_int n w (by omega), I.bdd bd1 bd2⟩, fun e => by cases e⟩
      have a1 := isInt_toDec_mk n w (by omega)
      rw [ev] at a1
      exact Dec.cmp_zero_trans a1 (Dec.cmp_zero_symm ir)

/-- **an arithmetic operator on related operands whose floats hold integers `< 2^K`, `2K ≤ 53`**: the same error,
    or results of the same value — whatever mix of `float64`, `float32`, `json.Number`, decimal, integer kinds carries
    the operands on either side -/
theorem arith_small_rr (I : IntOp fop dop g K) (hK : 2 * K ≤ 53) {x x' y y' : Val}
    (hx : VR false x x') (hy : VR false y y') (fx : AllF (IntF K) x) (fx' : AllF (IntF K) x')
    (fy : AllF (IntF K) y) (fy' : AllF (IntF K) y') :
    RR (VR false) (arith fop dop x y) (arith fop dop x' y') := by
  rcases toDecimal_dr hx with ⟨e1, e1'⟩ | ⟨d1, d1', e1, e1', r1⟩
  · rw [arith_none_left fop dop y e1, arith_none_left fop dop y' e1']; exact rr_errType
  rcases toDecimal_dr hy with ⟨e2, e2'⟩ | ⟨d2, d2', e2, e2', r2⟩
  · rw [arith_none_right fop dop x e2, arith_none_right fop dop x' e2']; exact rr_errType
  rcases toFloat_cases x with ⟨f1, g1, _, q1⟩ | g1
  · rcases toFloat_cases y with ⟨f2, g2, _, q2⟩ | g2
    · exact arith_ff_any I hK hx hy g1 g2 (q1 _ fx) (q2 _ fy) fx' fy'
    · rcases toFloat_cases x' with ⟨f1', g1', _, q1'⟩ | g1'
      · rcases toFloat_cases y' with ⟨f2', g2', _, q2'⟩ | g2'
        · exact rr_symm (arith_ff_any I hK (vr_symm _ _ hx) (vr_symm _ _ hy) g1' g2' (q1' _ fx') (q2' _ fy') fx fy)
        · rw [C14BF.arith_decimal fop dop (toFloatPair_none_of (.inr g2)) e1 e2,
            C14BF.arith_decimal fop dop (toFloatPair_none_of (.inr g2')) e1' e2']
          exact checkD_rr (I.same r1.1 r2.1) (I.hbd r1 r2)
      · rw [C14BF.arith_decimal fop dop (toFloatPair_none_of (.inr g2)) e1 e2,
          C14BF.arith_decimal fop dop (toFloatPair_none_of (.inl g1')) e1' e2']
        exact checkD_rr (I.same r1.1 r2.1) (I.hbd r1 r2)
  · rcases toFloat_cases x' with ⟨f1', g1', _, q1'⟩ | g1'
    · rcases toFloat_cases y' with ⟨f2', g2', _, q2'⟩ | g2'
      · exact rr_symm (arith_ff_any I hK (vr_symm _ _ hx) (vr_symm _ _ hy) g1' g2' (q1' _ fx') (q2' _ fy') fx fy)
      · rw [C14BF.arith_decimal fop dop (toFloatPair_none_of (.inl g1)) e1 e2,
          C14BF.arith_decimal fop dop (toFloatPair_none_of (.inr g2')) e1' e2']
        exact checkD_rr (I.same r1.1 r2.1) (I.hbd r1 r2)
    · rw [C14BF.arith_decimal fop dop (toFloatPair_none_of (.inl g1)) e1 e2,
        C14BF.arith_decimal fop dop (toFloatPair_none_of (.inl g1')) e1' e2']
      exact checkD_rr (I.same r1.1 r2.1) (I.hbd r1 r2)

/-- … and a float result again holds an integer, now `< 2^(2K)`: the result is exactly representable -/
theorem arith_small_fb (I : IntOp fop dop g K) {x y w : Val} (fx : AllF (IntF K) x) (fy : AllF (IntF K) y)
    (h : arith fop dop x y = .ok w) : AllF (IntF (2 * K)) w := by
  rcases toFloat_cases x with ⟨f1, g1, _, q1⟩ | g1
  · rcases toFloat_cases y with ⟨f2, g2, _, q2⟩ | g2
    · obtain ⟨n1, v1, hv1, rfl⟩ := q1 _ fx
      obtain ⟨n2, v2, hv2, rfl⟩ := q2 _ fy
      rw [arith_ff fop dop g1 g2] at h
      cases hg : g (Dec.intVal n1 v1) (Dec.intVal n2 v2) with
      | none => rw [I.fl_none _ _ _ _ hv1 hv2 hg] at h; simp [errNaN] at h
      | some r =>
        obtain ⟨n, w0, ew, _, hw⟩ := I.fl_some _ _ _ _ r hv1 hv2 hg
        rw [ew, C14BF.checkF_mk] at h
        cases h
        simp only [allF_f64]; exact ⟨n, w0, hw, rfl⟩
    · exact allF_of_noFloat _ (arith_result_noFloat' (toFloatPair_none_of (.inr g2)) h)
  · exact allF_of_noFloat _ (arith_result_noFloat' (toFloatPair_none_of (.inl g1)) h)
where
  arith_result_noFloat' {x y w : Val} (hp : toFloatPair x y = none) (h : arith fop dop x y = .ok w) : w.NoFloat := by
    simp only [arith, hp] at h
    split at h
    · simp [errType] at h
    · split at h
      · simp [errType] at h
      · exact checkD_noFloat h

end

/-! ### the binary operators of the expression language -/

/-- **`+ - * // %` (and the comparisons) on related operands whose floats hold integers `< 2^K`, `2K ≤ 53`** -/
theorem applyBinOp_small_rr {op : BinOp} (hop : op ≠ .div) {K : Nat} (hK : 2 * K ≤ 53) {a a' b b' : Val}
    (ha : VR false a a') (hb : VR false b b') (fa : AllF (IntF K) a) (fa' : AllF (IntF K) a')
    (fb : AllF (IntF K) b) (fb' : AllF (IntF K) b') :
    RR (VR false) (applyBinOp op a b) (applyBinOp op a' b') := by
  cases op
  case add => exact arith_small_rr (intOp_add hK) hK ha hb fa fa' fb fb'
  case sub => exact arith_small_rr (intOp_sub hK) hK ha hb fa fa' fb fb'
  case mul => exact arith_small_rr (intOp_mul hK) hK ha hb fa fa' fb fb'
  case idiv => exact arith_small_rr (intOp_idiv hK) hK ha hb fa fa' fb fb'
  case mod => exact arith_small_rr (intOp_mod hK) hK ha hb fa fa' fb fb'
  case div => exact absurd rfl hop
  case eq => exact opCongr_eq a a' b b' ha hb
  case ne => exact opCongr_ne a a' b b' ha hb
  case lt => exact opCongr_lt a a' b b' ha hb
  case le => exact opCongr_le a a' b b' ha hb
  case gt => exact opCongr_gt a a' b b' ha hb
  case ge => exact opCongr_ge a a' b b' ha hb

/-- the result is exactly representable: its floats hold integers `< 2^(2K)` -/
theorem applyBinOp_small_fb {op : BinOp} (hop : op ≠ .div) {K : Nat} (hK : 2 * K ≤ 53) {a b w : Val}
    (fa : AllF (IntF K) a) (fb : AllF (IntF K) b) (h : applyBinOp op a b = .ok w) : AllF (IntF (2 * K)) w := by
  cases op
  case add => exact arith_small_fb (intOp_add hK) fa fb h
  case sub => exact arith_small_fb (intOp_sub hK) fa fb h
  case mul => exact arith_small_fb (intOp_mul hK) fa fb h
  case idiv => exact arith_small_fb (intOp_idiv hK) fa fb h
  case mod => exact arith_small_fb (intOp_mod hK) fa fb h
  case div => exact absurd rfl hop
  case eq | ne =>
    simp only [applyBinOp, Res.bind_eq_ok, Res.pure_eq, Res.ok.injEq] at h
    obtain ⟨_, _, rfl⟩ := h; simp
  case lt | le | gt | ge =>
    simp only [applyBinOp, less, lessOrEqual, greater, greaterOrEqual, cmpOp, Res.ok.injEq] at h
    subst h
    split
    · simp
    · split <;> simp

-- 1000000 (float64) * -3 (float32) and 1e6 (json.Number) * -3 (int8): the float -3000000 and a decimal of that value
example : RR (VR false)
    (applyBinOp .mul (.num (.f64 (F64.mk false 1000000 0))) (.num (.f32 (F64.mk true 3 0))))
    (applyBinOp .mul (.num (.jnum [0x31, 0x65, 0x36])) (.num (.int .i8 (-3)))) := by
  refine applyBinOp_small_rr (K := 26) (by decide) (by decide) ?_ ?_ ?_ ?_ ?_ ?_
  · simp only [VR]
    exact ⟨⟨_, .fin false 1 6, rfl, by decide, by decide⟩, .inl ⟨fok_mk_int _ _ (by decide), trivial⟩, fun e => by cases e⟩
  · simp only [VR]
    exact ⟨⟨_, _, rfl, rfl, by decide⟩, .inl ⟨fok_mk_int _ _ (by decide), by simp only [NumOK, IntKind.InRange]; decide⟩,
      fun e => by cases e⟩
  · simp only [allF_f64]; exact ⟨false, 1000000, by decide, rfl⟩
  · simp
  · simp only [allF_f32]; exact ⟨true, 3, by decide, rfl⟩
  · simp

end C14C
end Jmes
