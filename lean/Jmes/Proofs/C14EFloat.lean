/-
  Helper for property C14, fourth round: the float side of dyadic arithmetic.

  A float `F64.mk n v (-s)` is `±v·2^-s`.  As long as the numerators stay below `2^53` and the scale `s ≤ 1074`
  (no subnormal rounding: every multiple of `2^-1074` with a 53-bit numerator is a binary64 value), `+ - *` on such
  floats are exact (`add_dy`, `sub_dy`, `mul_dy`), the unary operations keep the grade (`unClosed_dyF`), and the
  conversion to decimal128 is exact when `v·5^s` fits the coefficient (`isDy_toDec_mk`, `fok_mk_dy`).
-/
import Jmes.Proofs.C14EDyDefs
namespace Jmes
namespace C14E
open C14 C14B C14C

/-! ## 1. `roundPos` on dyadics -/

/-- the common core: at exponent `-t` (`j ≤ t`) the quotient `num·2^(t-j)` is an integer below `2^53`, and either it is
    at least `2^52` or `t = 1074` (the smallest exponent), so `fixExp` stops at once and nothing is rounded -/
theorem roundPos_core (neg : Bool) (num j t : Nat) (h0 : num ≠ 0) (hjt : j ≤ t) (htpos : 0 < t)
    (hq2 : num * 2 ^ (t - j) < 2 ^ 53) (hq1 : 2 ^ 52 ≤ num * 2 ^ (t - j) ∨ t = 1074) (ht : t ≤ 1074)
    (he0 : (if ((Nat.log2 num : Int) - (j : Int) - 52) < -1074 then (-1074 : Int) else (Nat.log2 num : Int) - (j : Int) - 52)
      = -(t : Int)) :
    F64.roundPos neg num (2 ^ j) = F64.mk neg num (-(j : Int)) := by
  unfold F64.roundPos
  simp only [h0, if_false, Nat.log2_two_pow, he0]
  have hP : 0 < 2 ^ j := Nat.pow_pos (by decide)
  have hsplit : num * 2 ^ t = num * 2 ^ (t - j) * 2 ^ j := by
    rw [Nat.mul_assoc, ← Nat.pow_add]; congr 2; omega
  have hdiv : num * 2 ^ t / 2 ^ j = num * 2 ^ (t - j) := by
    rw [hsplit]; exact Nat.mul_div_cancel _ hP
  have hmod : num * 2 ^ t % 2 ^ j = 0 := by
    rw [hsplit]; exact Nat.mul_mod_left _ _
  have hnn : (-(-(t : Int))).toNat = t := by omega
  have hge : ¬ (-(t : Int) ≥ 0) := by omega
  have hfix : F64.fixExp 6 num (2 ^ j) (-(t : Int)) = -(t : Int) := by
    unfold F64.fixExp
    simp only [hge, if_false, hnn, hdiv]
    rw [if_neg (by omega), if_neg (by omega)]
  rw [hfix]
  simp only [hge, if_false, hnn, hdiv, hmod]
  have h1 : ¬ (2 * 0 > 2 ^ j ∨ 2 * 0 = 2 ^ j ∧ num * 2 ^ (t - j) % 2 = 1) := by omega
  simp only [h1, if_false]
  rw [if_neg (by omega), if_neg (by omega)]
  have := F64.mk_shift neg num (t - j) (-(j : Int))
  have h2 : -(j : Int) - ((t - j : Nat) : Int) = -(t : Int) := by omega
  rw [h2] at this
  exact this

/-- **`roundPos` is exact on dyadics** with a numerator of at most 53 bits and a denominator `2^j`, `j ≤ 1074` -/
theorem roundPos_exact_dy (neg : Bool) (num j : Nat) (h0 : num ≠ 0) (h : num < 2 ^ 53) (hj : j ≤ 1074) :
    F64.roundPos neg num (2 ^ j) = F64.mk neg num (-(j : Int)) := by
  have hL : Nat.log2 num < 53 := (Nat.log2_lt h0).mpr h
  have hlo : 2 ^ Nat.log2 num ≤ num := Nat.log2_self_le h0
  have hhi : num < 2 ^ (Nat.log2 num + 1) := Nat.lt_log2_self
  by_cases hz : Nat.log2 num = 52 ∧ j = 0
  · obtain ⟨_, rfl⟩ := hz
    exact F64.roundPos_exact neg num h0 h
  by_cases hc : ((Nat.log2 num : Int) - (j : Int) - 52) < -1074
  · -- clamped at the smallest exponent
    refine roundPos_core neg num j 1074 h0 hj (by decide) ?_ (.inr rfl) (Nat.le_refl _) (by rw [if_pos hc]; rfl)
    generalize Nat.log2 num = L at hL hlo hhi hc
    have h1 : num * 2 ^ (1074 - j) < 2 ^ (L + 1) * 2 ^ (1074 - j) :=
      Nat.mul_lt_mul_of_pos_right hhi (Nat.pow_pos (by decide))
    have h2 : 2 ^ (L + 1) * 2 ^ (1074 - j) ≤ 2 ^ 53 := by
      rw [← Nat.pow_add]; exact Nat.pow_le_pow_right (by decide) (by omega)
    omega
  · generalize hLL : Nat.log2 num = L at hL hlo hhi hc hz
    refine roundPos_core neg num j (52 + j - L) h0 (by omega) (by omega) ?_ (.inl ?_) (by omega)
      (by rw [hLL, if_neg hc]; omega)
    · have e : 52 + j - L - j = 52 - L := by omega
      rw [e]
      have : 2 ^ 53 = 2 ^ (L + 1) * 2 ^ (52 - L) := by rw [← Nat.pow_add]; congr 1; omega
      rw [this]; exact Nat.mul_lt_mul_of_pos_right hhi (Nat.pow_pos (by decide))
    · have e : 52 + j - L - j = 52 - L := by omega
      rw [e]
      have : 2 ^ 52 = 2 ^ L * 2 ^ (52 - L) := by rw [← Nat.pow_add]; congr 1; omega
      rw [this]; exact Nat.mul_le_mul_right _ hlo

-- 3/8 (by evaluation), and the smallest subnormal 2^-1074 (by the theorem: `j = 1074` is the last scale allowed)
example : F64.roundPos false 3 (2 ^ 3) = .fin false 3 (-3) := by decide
example : F64.roundPos false 1 (2 ^ 1074) = F64.mk false 1 (-1074) :=
  roundPos_exact_dy false 1 1074 (by decide) (by decide) (by decide)

/-- the `roundPos` call of `addFin` and `mul` at the exact exponent `e ≥ -1074`: nothing is rounded -/
theorem roundPos_at (neg : Bool) (num : Nat) (e : Int) (h0 : num ≠ 0) (he : -1074 ≤ e) (h : num * 2 ^ e.toNat < 2 ^ 53) :
    (if e ≥ 0 then F64.roundPos neg (num * 2 ^ e.toNat) 1 else F64.roundPos neg num (2 ^ (-e).toNat))
      = F64.mk neg num e := by
  by_cases hge : e ≥ 0
  · simp only [hge, if_true]
    have hP : 0 < 2 ^ e.toNat := Nat.pow_pos (by decide)
    rw [F64.roundPos_exact neg _ (Nat.mul_ne_zero h0 (by omega)) h]
    have := F64.mk_shift neg num e.toNat e
    have h2 : e - (e.toNat : Int) = 0 := by omega
    rw [h2] at this
    exact this
  · simp only [hge, if_false]
    have h2 : e.toNat = 0 := by omega
    rw [h2, Nat.pow_zero, Nat.mul_one] at h
    rw [roundPos_exact_dy neg num _ h0 h (by omega)]
    congr 1; omega

/-! ## 2. rescaling -/

theorem mk_rescale (n : Bool) (v s d : Nat) :
    F64.mk n (v * 2 ^ d) (-((s + d : Nat) : Int)) = F64.mk n v (-(s : Int)) := by
  have := F64.mk_shift n v d (-(s : Int))
  have h2 : -(s : Int) - (d : Int) = -((s + d : Nat) : Int) := by omega
  rw [h2] at this
  exact this

theorem DyF.mono {g g' : Gr} (h : Gr.le g g') {f : F64} (hf : DyF g f) : DyF g' f := by
  obtain ⟨n, v, hv, rfl⟩ := hf
  obtain ⟨hh, hs⟩ := h
  refine ⟨n, v * 2 ^ (g'.s - g.s), ?_, ?_⟩
  · have h1 : v * 2 ^ (g'.s - g.s) ≤ 2 ^ (g.h + g.s) * 2 ^ (g'.s - g.s) := Nat.mul_le_mul_right _ hv
    have h2 : 2 ^ (g.h + g.s) * 2 ^ (g'.s - g.s) ≤ 2 ^ (g'.h + g'.s) := by
      rw [← Nat.pow_add]; exact Nat.pow_le_pow_right (by decide) (by omega)
    omega
  · have := mk_rescale n v g.s (g'.s - g.s)
    have e : g.s + (g'.s - g.s) = g'.s := by omega
    rw [e] at this
    exact this.symm

example : DyF ⟨1, 3⟩ (F64.mk false 3 (-1)) := DyF.mono (g := ⟨1, 1⟩) (by decide) ⟨false, 3, by decide, rfl⟩

/-- the shape of `mk n v (-s)`: `fin n m e` with `m·2^(e+s) = v` (for `v = 0`: `m = 0`, `e = 0`) -/
theorem mk_rep (n : Bool) (v s : Nat) :
    ∃ (m : Nat) (e : Int), F64.mk n v (-(s : Int)) = .fin n m e ∧ 0 ≤ e + s ∧ m * 2 ^ (e + s).toNat = v ∧
      (m % 2 = 1 ∨ (m = 0 ∧ e = 0)) := by
  by_cases hv : v = 0
  · subst hv
    exact ⟨0, 0, by simp [F64.mk], by omega, by simp, .inr ⟨rfl, rfl⟩⟩
  · obtain ⟨m', k, h1, h2, h3⟩ := F64.mk_spec n v (-(s : Int)) hv
    refine ⟨m', -(s : Int) + k, h1, by omega, ?_, .inl h3⟩
    have : (-(s : Int) + (k : Int) + (s : Int)).toNat = k := by omega
    rw [this, ← h2]

/-! ## 3. `*` -/

theorem mul_dy (n1 n2 : Bool) (v1 v2 s1 s2 : Nat) (hs : s1 + s2 ≤ 1074) (h : v1 * v2 < 2 ^ 53) :
    F64.mul (F64.mk n1 v1 (-(s1 : Int))) (F64.mk n2 v2 (-(s2 : Int))) =
      F64.mk (n1 != n2) (v1 * v2) (-((s1 + s2 : Nat) : Int)) := by
  obtain ⟨m1, e1, r1, p1, q1, o1⟩ := mk_rep n1 v1 s1
  obtain ⟨m2, e2, r2, p2, q2, o2⟩ := mk_rep n2 v2 s2
  rw [r1, r2]
  by_cases hz : m1 = 0 ∨ m2 = 0
  · have : v1 * v2 = 0 := by
      rcases hz with hz | hz
      · rw [← q1, hz]; simp
      · rw [← q2, hz]; simp
    rw [this]
    simp [F64.mul, hz, F64.mk]
  · simp only [F64.mul, hz, if_false]
    have hm1 : m1 ≠ 0 := fun h => hz (.inl h)
    have hm2 : m2 ≠ 0 := fun h => hz (.inr h)
    have hval : m1 * m2 * 2 ^ ((e1 + e2) + ((s1 + s2 : Nat) : Int)).toNat = v1 * v2 := by
      have : ((e1 + e2) + ((s1 + s2 : Nat) : Int)).toNat = (e1 + s1).toNat + (e2 + s2).toNat := by omega
      rw [this, Nat.pow_add, Nat.mul_mul_mul_comm, q1, q2]
    have hes : 0 ≤ (e1 + e2) + ((s1 + s2 : Nat) : Int) := by omega
    generalize e1 + e2 = e at hval hes ⊢
    have hle : m1 * m2 * 2 ^ e.toNat ≤ v1 * v2 := by
      rw [← hval]
      exact Nat.mul_le_mul_left _ (Nat.pow_le_pow_right (by decide) (by omega))
    rw [roundPos_at (n1 != n2) (m1 * m2) e (Nat.mul_ne_zero hm1 hm2) (by omega) (by omega)]
    have := F64.mk_shift (n1 != n2) (m1 * m2) (e + ((s1 + s2 : Nat) : Int)).toNat e
    rw [hval] at this
    rw [← this]
    congr 1; omega

-- 1.5 · (−0.375) = −0.5625 = −9·2^-4
example : F64.mul (F64.mk false 3 (-1)) (F64.mk true 3 (-3)) = F64.mk true 9 (-4) := by decide

/-! ## 4. `+` and `-` -/

/-- `addFin` on two representations of `±v1·2^-s`, `±v2·2^-s` (not both with a zero significand): the exact sum -/
theorem addFin_dy (n1 n2 : Bool) (m1 m2 : Nat) (e1 e2 : Int) (v1 v2 s : Nat) (p1 : 0 ≤ e1 + s) (p2 : 0 ≤ e2 + s)
    (q1 : m1 * 2 ^ (e1 + s).toNat = v1) (q2 : m2 * 2 ^ (e2 + s).toNat = v2) (hs : s ≤ 1074) (h : v1 + v2 < 2 ^ 53)
    (hnz : ¬ (m1 = 0 ∧ m2 = 0)) :
    F64.addFin n1 m1 e1 n2 m2 e2 =
      F64.mk (decide (Dec.intVal n1 v1 + Dec.intVal n2 v2 < 0)) (Dec.intVal n1 v1 + Dec.intVal n2 v2).natAbs (-(s : Int)) := by
  simp only [F64.addFin, hnz, if_false]
  have hes : 0 ≤ min e1 e2 + s := by omega
  have hle1 : min e1 e2 ≤ e1 := by omega
  have hle2 : min e1 e2 ≤ e2 := by omega
  generalize min e1 e2 = e at hes hle1 hle2 ⊢
  have hs1 : (if n1 = true then (-1 : Int) else 1) * ((m1 * 2 ^ (e1 - e).toNat : Nat) : Int) *
      ((2 ^ (e + s).toNat : Nat) : Int) = Dec.intVal n1 v1 := by
    rw [Int.mul_assoc, ← Int.natCast_mul, Nat.mul_assoc, ← Nat.pow_add]
    have : (e1 - e).toNat + (e + s).toNat = (e1 + s).toNat := by omega
    rw [this, q1]
    cases n1 <;> simp [Dec.intVal]
  have hs2 : (if n2 = true then (-1 : Int) else 1) * ((m2 * 2 ^ (e2 - e).toNat : Nat) : Int) *
      ((2 ^ (e + s).toNat : Nat) : Int) = Dec.intVal n2 v2 := by
    rw [Int.mul_assoc, ← Int.natCast_mul, Nat.mul_assoc, ← Nat.pow_add]
    have : (e2 - e).toNat + (e + s).toNat = (e2 + s).toNat := by omega
    rw [this, q2]
    cases n2 <;> simp [Dec.intVal]
  have hb : (Dec.intVal n1 v1 + Dec.intVal n2 v2).natAbs < 2 ^ 53 := by
    have := intVal_natAbs n1 v1
    have := intVal_natAbs n2 v2
    omega
  generalize (if n1 = true then (-1 : Int) else 1) * ((m1 * 2 ^ (e1 - e).toNat : Nat) : Int) = A at hs1 ⊢
  generalize (if n2 = true then (-1 : Int) else 1) * ((m2 * 2 ^ (e2 - e).toNat : Nat) : Int) = B at hs2 ⊢
  generalize Dec.intVal n1 v1 = a at hs1 hb ⊢
  generalize Dec.intVal n2 v2 = b at hs2 hb ⊢
  have hsum : (A + B) * ((2 ^ (e + s).toNat : Nat) : Int) = a + b := by rw [Int.add_mul, hs1, hs2]
  have hP : (0 : Int) < ((2 ^ (e + s).toNat : Nat) : Int) := Int.natCast_pos.mpr (Nat.pow_pos (by decide))
  by_cases hz : A + B = 0
  · have : a + b = 0 := by rw [← hsum, hz, Int.zero_mul]
    simp [hz, this, F64.mk]
  · simp only [hz, if_false]
    have hsign : decide (A + B < 0) = decide (a + b < 0) := by
      have : A + B < 0 ↔ a + b < 0 := by
        rw [← hsum]
        constructor
        · intro h; exact Int.mul_neg_of_neg_of_pos h hP
        · intro h
          apply Classical.byContradiction
          intro hn
          have : 0 ≤ (A + B) * ((2 ^ (e + s).toNat : Nat) : Int) := Int.mul_nonneg (by omega) (by omega)
          omega
      simp only [this]
    have habs : (A + B).natAbs * 2 ^ (e + s).toNat = (a + b).natAbs := by
      rw [← hsum, Int.natAbs_mul, Int.natAbs_natCast]
    have hle : (A + B).natAbs * 2 ^ e.toNat ≤ (a + b).natAbs := by
      rw [← habs]
      exact Nat.mul_le_mul_left _ (Nat.pow_le_pow_right (by decide) (by omega))
    rw [roundPos_at _ (A + B).natAbs e (by omega) (by omega) (by omega), hsign]
    have := F64.mk_shift (decide (a + b < 0)) (A + B).natAbs (e + s).toNat e
    rw [habs] at this
    rw [← this]
    congr 1; omega

theorem add_dy (n1 n2 : Bool) (v1 v2 s : Nat) (hs : s ≤ 1074) (h : v1 + v2 < 2 ^ 53) :
    ∃ n w, F64.add (F64.mk n1 v1 (-(s : Int))) (F64.mk n2 v2 (-(s : Int))) = F64.mk n w (-(s : Int)) ∧
      Dec.intVal n w = Dec.intVal n1 v1 + Dec.intVal n2 v2 ∧ w ≤ v1 + v2 := by
  obtain ⟨m1, e1, r1, p1, q1, o1⟩ := mk_rep n1 v1 s
  obtain ⟨m2, e2, r2, p2, q2, o2⟩ := mk_rep n2 v2 s
  rw [r1, r2]
  simp only [F64.add]
  by_cases hnz : m1 = 0 ∧ m2 = 0
  · obtain ⟨rfl, rfl⟩ := hnz
    simp only [Nat.zero_mul] at q1 q2
    subst q1; subst q2
    refine ⟨n1 && n2, 0, by simp [F64.addFin, F64.mk], by simp [intVal_zero], by omega⟩
  · refine ⟨_, _, addFin_dy n1 n2 m1 m2 e1 e2 v1 v2 s p1 p2 q1 q2 hs h hnz, F64.signed_natAbs _, ?_⟩
    have := intVal_natAbs n1 v1
    have := intVal_natAbs n2 v2
    omega

theorem sub_dy (n1 n2 : Bool) (v1 v2 s : Nat) (hs : s ≤ 1074) (h : v1 + v2 < 2 ^ 53) :
    ∃ n w, F64.sub (F64.mk n1 v1 (-(s : Int))) (F64.mk n2 v2 (-(s : Int))) = F64.mk n w (-(s : Int)) ∧
      Dec.intVal n w = Dec.intVal n1 v1 - Dec.intVal n2 v2 ∧ w ≤ v1 + v2 := by
  unfold F64.sub
  rw [neg_mk]
  obtain ⟨n, w, e1, e2, e3⟩ := add_dy n1 (!n2) v1 v2 s hs h
  exact ⟨n, w, e1, by rw [e2, intVal_not, Int.sub_eq_add_neg], e3⟩

-- 0.375 + 1.5 = 1.875 (3·2^-3 + 12·2^-3 = 15·2^-3), 0.375 − 1.5 = −1.125, and a cancellation to +0
example : F64.add (F64.mk false 3 (-3)) (F64.mk false 12 (-3)) = F64.mk false 15 (-3) ∧
    F64.sub (F64.mk false 3 (-3)) (F64.mk false 12 (-3)) = F64.mk true 9 (-3) ∧
    F64.add (F64.mk true 3 (-3)) (F64.mk false 3 (-3)) = F64.mk false 0 (-3) := by decide

/-! ## 5. conversion to decimal128 -/

theorem dyc_intVal (n : Bool) (v s : Nat) (hv : v ≠ 0) : dyc (Dec.intVal n v) s = .fin n (v * 5 ^ s) (-(s : Int)) := by
  unfold dyc
  rw [intVal_neg_iff n v hv, intVal_natAbs]

/-- two finite decimals of the same sign: `C·10^E = X·10^-s` -/
theorem cmp_fin_scale (n : Bool) (C X s : Nat) (E : Int) (hE : 0 ≤ E + s) (h : C * 10 ^ (E + s).toNat = X) :
    Dec.cmp (.fin n C E) (.fin n X (-(s : Int))) = some 0 := by
  simp only [Dec.cmp, Option.some.injEq]
  rw [Dec.cmpFin_eq_zero_iff_value _ _ _ _ _ _ (-(s : Int)) (by omega) (by omega)]
  simp only [Dec.sval, Dec.pow10]
  have h1 : (E - -(s : Int)).toNat = (E + s).toNat := by omega
  have h2 : (-(s : Int) - -(s : Int)).toNat = 0 := by omega
  rw [h1, h2, h, Nat.pow_zero, Nat.mul_one]

/-- the float `±v·2^-s` converts to a decimal of exactly that value -/
theorem isDy_toDec_mk (n : Bool) (v s : Nat) (hx : v * 5 ^ s ≤ Dec.MAXSIG) (hs : s ≤ 1074) :
    IsDy (F64.mk n v (-(s : Int))).toDec (Dec.intVal n v) s := by
  unfold IsDy
  by_cases hv : v = 0
  · subst hv
    rw [intVal_zero]
    simp only [F64.mk, if_true, F64.toDec, Dec.ofBinary, dyc, Int.natAbs_zero, Nat.zero_mul]
    exact Dec.cmp_zero_zero ..
  · obtain ⟨m, e, r, p, q, o⟩ := mk_rep n v s
    rw [r, dyc_intVal n v s hv]
    have h5 : 0 < 5 ^ s := Nat.pow_pos (by decide)
    have hvx : v ≤ v * 5 ^ s := Nat.le_mul_of_pos_right _ h5
    by_cases he : 0 ≤ e
    · have hsplit : (e + s).toNat = e.toNat + s := by omega
      have hle : m * 2 ^ e.toNat ≤ v := by
        rw [← q]; exact Nat.mul_le_mul_left _ (Nat.pow_le_pow_right (by decide) (by omega))
      rw [F64.toDec_nonneg_exp n m e he (by omega)]
      refine Dec.cmp_zero_trans (Dec.cmp_normalize ..) (cmp_fin_scale n _ _ s 0 (by omega) ?_)
      have : ((0 : Int) + (s : Int)).toNat = s := by omega
      rw [this, ← q, hsplit, Nat.pow_add, show (10 : Nat) = 2 * 5 from rfl, Nat.mul_pow]
      ac_rfl
    · have he' : e < 0 := by omega
      generalize ha : (-e).toNat = a
      generalize hd : (e + s).toNat = d at q
      have hsd : s = a + d := by omega
      have hmv : m ≤ v := by rw [← q]; exact Nat.le_mul_of_pos_right _ (Nat.pow_pos (by decide))
      have hbound : m * 5 ^ a ≤ v * 5 ^ s :=
        Nat.mul_le_mul hmv (Nat.pow_le_pow_right (by decide) (by omega))
      rw [F64.toDec_neg_exp n m e he' (by rw [ha]; omega) (by unfold Dec.EMIN; omega), ha]
      refine Dec.cmp_zero_trans (Dec.cmp_normalize ..) (cmp_fin_scale n _ _ s e (by omega) ?_)
      rw [hd, ← q, hsd, Nat.pow_add, show (10 : Nat) = 2 * 5 from rfl, Nat.mul_pow]
      ac_rfl

-- −0.375 is the decimal −375·10^-3
example : IsDy (F64.mk true 3 (-3)).toDec (-3) 3 := isDy_toDec_mk true 3 3 (by decide) (by decide)
example : (F64.mk true 3 (-3)).toDec = .fin true 375 (-3) := by decide

theorem fok_mk_dy (n : Bool) (v s : Nat) (hv : v < 2 ^ 53) (hx : v * 5 ^ s ≤ Dec.MAXSIG) (hs : s ≤ 1074) :
    FOK (F64.mk n v (-(s : Int))) := by
  have h53 := F64.two53_le_MAXSIG
  obtain ⟨m, e, r, p, q, o⟩ := mk_rep n v s
  rw [r]
  have hmv : m ≤ v := by rw [← q]; exact Nat.le_mul_of_pos_right _ (Nat.pow_pos (by decide))
  have hne : ∀ b : Bool, F64.fin n m e ≠ .fin b 1 63 := by
    intro b heq
    simp only [F64.fin.injEq] at heq
    obtain ⟨_, rfl, rfl⟩ := heq
    have : 2 ^ 53 ≤ 2 ^ ((63 : Int) + (s : Int)).toNat := Nat.pow_le_pow_right (by decide) (by omega)
    omega
  refine ⟨⟨o, ⟨fun he => ?_, fun he => ⟨?_, by unfold Dec.EMIN; omega⟩⟩, hne false⟩, hne true, ?_⟩
  · have hle : m * 2 ^ e.toNat ≤ v := by
      rw [← q]; exact Nat.mul_le_mul_left _ (Nat.pow_le_pow_right (by decide) (by omega))
    omega
  · have : m * 5 ^ (-e).toNat ≤ v * 5 ^ s :=
      Nat.mul_le_mul hmv (Nat.pow_le_pow_right (by decide) (by omega))
    omega
  · simp only [F64Small]; omega

example : FOK (F64.mk true 3 (-3)) := fok_mk_dy true 3 3 (by decide) (by decide) (by decide)

/-! ## 6. the unary operations keep the grade -/

/-- an integer of magnitude at most `2^h` has every grade `⟨h, s⟩` -/
theorem dyF_int (g : Gr) (n : Bool) (q : Nat) (hq : q ≤ 2 ^ g.h) : DyF g (F64.mk n q 0) := by
  refine ⟨n, q * 2 ^ g.s, ?_, ?_⟩
  · rw [Nat.pow_add]; exact Nat.mul_le_mul_right _ hq
  · have := F64.mk_shift n q g.s 0
    have h2 : (0 : Int) - (g.s : Int) = -(g.s : Int) := by omega
    rw [h2] at this
    exact this.symm

/-- rounding an odd multiple of `2^-a` (`a > 0`) of magnitude at most `2^h` up or down stays within `2^h` -/
theorem rint_bound {m a h : Nat} (hodd : m % 2 = 1) (ha : 0 < a) (hm : m ≤ 2 ^ (h + a)) : m / 2 ^ a + 1 ≤ 2 ^ h := by
  have he : 2 ^ (h + a) = 2 * 2 ^ (h + a - 1) := by rw [← Nat.pow_succ']; congr 1; omega
  have hlt : m < 2 ^ h * 2 ^ a := by rw [← Nat.pow_add]; omega
  have := (Nat.div_lt_iff_lt_mul (Nat.pow_pos (by decide : 0 < 2))).mpr hlt
  omega

theorem ceil_floor_dyF (g : Gr) {f : F64} (hf : DyF g f) : DyF g f.ceil ∧ DyF g f.floor := by
  obtain ⟨n, v, hv, rfl⟩ := hf
  obtain ⟨m, e, r, p, q, o⟩ := mk_rep n v g.s
  by_cases hc : e ≥ 0 ∨ m = 0
  · have h1 : (F64.mk n v (-(g.s : Int))).ceil = F64.mk n v (-(g.s : Int)) := by
      rw [r]; simp only [F64.ceil, hc, if_true]
    have h2 : (F64.mk n v (-(g.s : Int))).floor = F64.mk n v (-(g.s : Int)) := by
      rw [r]; simp only [F64.floor, hc, if_true]
    rw [h1, h2]
    exact ⟨⟨n, v, hv, rfl⟩, ⟨n, v, hv, rfl⟩⟩
  · have he : e < 0 := by omega
    have hm0 : m ≠ 0 := fun h => hc (.inr h)
    have hodd : m % 2 = 1 := by
      rcases o with o | ⟨o, _⟩
      · exact o
      · exact absurd o hm0
    generalize ha : (-e).toNat = a
    generalize hd : (e + g.s).toNat = d at q
    have hsd : g.s = a + d := by omega
    have hma : m ≤ 2 ^ (g.h + a) := by
      have : 2 ^ (g.h + g.s) = 2 ^ (g.h + a) * 2 ^ d := by rw [← Nat.pow_add]; congr 1; omega
      rw [← q, this] at hv
      exact Nat.le_of_mul_le_mul_right hv (Nat.pow_pos (by decide))
    have hb := rint_bound hodd (by omega) hma
    rw [r]
    simp only [F64.ceil, F64.floor, hc, if_false, ha]
    constructor
    · split
      · exact dyF_int g _ _ (by omega)
      · exact dyF_int g _ _ hb
    · split
      · exact dyF_int g _ _ hb
      · exact dyF_int g _ _ (by omega)

theorem unClosed_dyF (g : Gr) : UnClosed (DyF g) := by
  refine ⟨?_, ?_, fun f hf => (ceil_floor_dyF g hf).1, fun f hf => (ceil_floor_dyF g hf).2⟩
  · rintro f ⟨n, v, hv, rfl⟩; exact ⟨!n, v, hv, neg_mk n v _⟩
  · rintro f ⟨n, v, hv, rfl⟩; exact ⟨false, v, hv, abs_mk n v _⟩

-- ceil(1.875) = 2 = 2^1 reaches the bound of grade ⟨1, 3⟩ (hence `≤` in `DyF`); floor(−1.875) = −2
example : (F64.mk false 15 (-3)).ceil = F64.mk false 16 (-3) ∧ (F64.mk true 15 (-3)).floor = F64.mk true 16 (-3) ∧
    DyF ⟨1, 3⟩ (F64.mk false 15 (-3)).ceil :=
  ⟨by decide, by decide, (unClosed_dyF ⟨1, 3⟩).ceil _ ⟨false, 15, by decide, rfl⟩⟩

/-! ## 7. the budget -/

theorem ten34_le_MAXSIG : 10 ^ 34 ≤ Dec.MAXSIG := by decide

/-- what the budget gives: the numerator fits in 53 bits, the decimal coefficient `v·5^s` fits decimal128, and the
    scale is far from the subnormal range -/
theorem Gr.OK.bounds {g : Gr} (hg : g.OK) {v : Nat} (hv : v ≤ 2 ^ (g.h + g.s)) :
    v < 2 ^ 53 ∧ v * 5 ^ g.s ≤ Dec.MAXSIG ∧ g.s ≤ 1074 := by
  obtain ⟨h1, h2⟩ := hg
  refine ⟨?_, ?_, by omega⟩
  · have : 2 ^ (g.h + g.s) < 2 ^ 53 := Nat.pow_lt_pow_right (by decide) (by omega)
    omega
  · have h3 : v * 5 ^ g.s ≤ 2 ^ (g.h + g.s) * 5 ^ g.s := Nat.mul_le_mul_right _ hv
    have h4 : 2 ^ (g.h + g.s) * 5 ^ g.s = 2 ^ g.h * 10 ^ g.s := by
      rw [Nat.pow_add, Nat.mul_assoc, ← Nat.mul_pow]
    have := ten34_le_MAXSIG
    omega

theorem Gr.OK.mono {g g' : Gr} (h : Gr.le g g') (hg : g'.OK) : g.OK := by
  obtain ⟨hh, hs⟩ := h
  obtain ⟨h1, h2⟩ := hg
  refine ⟨by omega, ?_⟩
  have : 2 ^ g.h * 10 ^ g.s ≤ 2 ^ g'.h * 10 ^ g'.s :=
    Nat.mul_le_mul (Nat.pow_le_pow_right (by decide) hh) (Nat.pow_le_pow_right (by decide) hs)
  omega

example : Gr.OK ⟨20, 10⟩ ∧ ¬ Gr.OK ⟨40, 13⟩ ∧ ¬ Gr.OK ⟨2, 34⟩ := by decide

/-- within the budget a dyadic float is a well-behaved number whose decimal has exactly its value -/
theorem DyF.fok {g : Gr} (hg : g.OK) {f : F64} (hf : DyF g f) : FOK f := by
  obtain ⟨n, v, hv, rfl⟩ := hf
  obtain ⟨b1, b2, b3⟩ := hg.bounds hv
  exact fok_mk_dy n v g.s b1 b2 b3

theorem DyF.isDy {g : Gr} (hg : g.OK) {f : F64} (hf : DyF g f) :
    ∃ n v, v ≤ 2 ^ (g.h + g.s) ∧ f = F64.mk n v (-(g.s : Int)) ∧ IsDy f.toDec (Dec.intVal n v) g.s := by
  obtain ⟨n, v, hv, rfl⟩ := hf
  obtain ⟨b1, b2, b3⟩ := hg.bounds hv
  exact ⟨n, v, hv, rfl, isDy_toDec_mk n v g.s b2 b3⟩

/-- `+` on graded floats within the budget of the result grade -/
theorem DyF.add {a b : Gr} {x y : F64} (hx : DyF a x) (hy : DyF b y) (hg : (gAdd a b).OK) : DyF (gAdd a b) (F64.add x y) := by
  have ha : Gr.le a ⟨max a.h b.h, max a.s b.s⟩ := ⟨Nat.le_max_left .., Nat.le_max_left ..⟩
  have hb : Gr.le b ⟨max a.h b.h, max a.s b.s⟩ := ⟨Nat.le_max_right .., Nat.le_max_right ..⟩
  obtain ⟨n1, v1, hv1, rfl⟩ := DyF.mono ha hx
  obtain ⟨n2, v2, hv2, rfl⟩ := DyF.mono hb hy
  simp only at hv1 hv2
  have hsum : v1 + v2 ≤ 2 ^ ((gAdd a b).h + (gAdd a b).s) := by
    have : 2 ^ ((gAdd a b).h + (gAdd a b).s) = 2 * 2 ^ (max a.h b.h + max a.s b.s) := by
      rw [← Nat.pow_succ']; simp only [gAdd]; congr 1; omega
    omega
  obtain ⟨b1, _, b3⟩ := hg.bounds hsum
  obtain ⟨n, w, e1, _, e3⟩ := add_dy n1 n2 v1 v2 (max a.s b.s) b3 b1
  exact ⟨n, w, by omega, e1⟩

theorem DyF.sub {a b : Gr} {x y : F64} (hx : DyF a x) (hy : DyF b y) (hg : (gAdd a b).OK) : DyF (gAdd a b) (F64.sub x y) := by
  unfold F64.sub
  exact DyF.add hx ((unClosed_dyF b).neg y hy) hg

theorem DyF.mul {a b : Gr} {x y : F64} (hx : DyF a x) (hy : DyF b y) (hg : (gMul a b).OK) : DyF (gMul a b) (F64.mul x y) := by
  obtain ⟨n1, v1, hv1, rfl⟩ := hx
  obtain ⟨n2, v2, hv2, rfl⟩ := hy
  have hprod : v1 * v2 ≤ 2 ^ ((gMul a b).h + (gMul a b).s) := by
    have : 2 ^ ((gMul a b).h + (gMul a b).s) = 2 ^ (a.h + a.s) * 2 ^ (b.h + b.s) := by
      rw [← Nat.pow_add]; simp only [gMul]; congr 1; omega
    rw [this]; exact Nat.mul_le_mul hv1 hv2
  obtain ⟨b1, _, b3⟩ := hg.bounds hprod
  exact ⟨n1 != n2, v1 * v2, hprod, mul_dy n1 n2 v1 v2 a.s b.s b3 b1⟩

example : DyF (gAdd ⟨0, 3⟩ ⟨1, 1⟩) (F64.add (F64.mk false 3 (-3)) (F64.mk false 3 (-1))) :=
  DyF.add ⟨false, 3, by decide, rfl⟩ ⟨false, 3, by decide, rfl⟩ (by decide)


end C14E
end Jmes
