/-
  Helpers for Jmes/Properties/C15C.lean, part 3: the ERROR half of the oracle theorem — the loops of the evaluator
  (projections, filters, `map`, `group_by`, `sort_by`, `max_by`, `min_by`) below `widen`, and the members of a
  multi-select hash / `let`.
-/
import Jmes.Proofs.C15CErrLemmas
set_option linter.unusedVariables false
namespace Jmes.C15C
open Jmes Invar

/-- error-half agreement of a sub-expression on every element -/
abbrev SimFnH (f : Val → Res Val) (g : Nat → Val → Res Val) : Prop :=
  ∀ (i : Nat) (x x' : Val), Conc x x' → ErrH (f x) (g i x')

/-- what an error outcome of `widen` over a map-ordered list says: the error set contains the loop's own categories,
    the extra ones, and every category of every sub-expression on every element; and every such outcome is a value
    or an error -/
theorem widen_err_facts {α} {t : ATag} {ws : List Val} {fs : List (Val → Res Val)} {extra cs0 cs : List Cat}
    (he : enum2 t ws = true) (h : widen (α := α) t ws fs extra (.err cs0) = .err cs) :
    (∀ c ∈ cs0, c ∈ cs) ∧ (∀ c ∈ extra, c ∈ cs) ∧
    (∀ x ∈ ws, ∀ f ∈ fs, ∀ cl, f x = .err cl → ∀ c ∈ cl, c ∈ cs) ∧ (∀ x ∈ ws, ∀ f ∈ fs, (f x).Settled) := by
  simp only [widen, he, if_true] at h
  split at h
  · cases h
  rename_i hu
  simp only [Res.err.injEq] at h
  subst h
  refine ⟨fun c hc => Cat.mem_dedup.mpr (by simp [hc]), fun c hc => Cat.mem_dedup.mpr (by simp [hc]),
    fun x hx f hf cl hcl c hc => Cat.mem_dedup.mpr ?_, fun x hx f hf => ?_⟩
  · simp only [List.mem_append, List.mem_flatMap]
    refine .inr ⟨x, hx, f, hf, ?_⟩
    rw [hcl]
    exact hc
  · cases hfx : f x with
    | ok v => trivial
    | err cl => trivial
    | _ => exact absurd (List.any_eq_true.mpr ⟨x, hx, List.any_eq_true.mpr ⟨f, hf, by simp [hfx]⟩⟩) hu

theorem widen_err_pos {α} {t : ATag} {ws : List Val} {fs : List (Val → Res Val)} {extra cs0 cs : List Cat}
    (he : enum2 t ws = false) (h : widen (α := α) t ws fs extra (.err cs0) = .err cs) : cs = cs0 := by
  simp only [widen, he, Bool.false_eq_true, if_false, Res.err.injEq] at h
  exact h.symm

/-- an error outcome of `widen` comes from an error outcome of the loop -/
theorem widen_err_inv {α} {t : ATag} {ws : List Val} {fs : List (Val → Res Val)} {extra cs : List Cat} {r : Res α}
    (h : widen t ws fs extra r = .err cs) : ∃ cs0, r = .err cs0 := by
  cases r with
  | err cs0 => exact ⟨cs0, rfl⟩
  | _ => simp [widen] at h

/-- **the shared core**: a loop over the elements `xs` (model, below `widen` over `ws ⊇ xs`) / `xs'` (run), followed
    by a continuation that does not fail -/
theorem loop_errH {β β' γ γ'} {D : β → β' → Prop} {t : ATag} {ws xs xs' : List Val} {fs : List (Val → Res Val)}
    {extra : List Cat} {h : Val → Res (List β)} {h' : Nat → Val → Res (List β')} {K : List β → Res γ}
    {K' : List β' → Res γ'}
    (hsub : ∀ x ∈ xs, x ∈ ws) (hp : ConcP xs xs') (hpos : enum2 t ws = false → ConcL xs xs')
    (hok : ∀ i x x', Conc x x' → SimG (All₂ D) (h x) (h' i x'))
    (herr : ∀ i x x', Conc x x' → ErrH (h x) (h' i x'))
    (hset : ∀ x, (∀ f ∈ fs, (f x).Settled) → (h x).Settled)
    (hcat : ∀ x cl, h x = .err cl → ∀ c ∈ cl, c ∈ extra ∨ ∃ f ∈ fs, ∃ cl', f x = .err cl' ∧ c ∈ cl')
    (hK : ∀ r cs, K r ≠ .err cs) {cs : List Cat}
    (hm : widen t ws fs extra (collect h xs >>= K) = .err cs) :
    ∃ c ∈ cs, (collectO h' 0 xs' >>= K') = .err [c] := by
  obtain ⟨cs1, h1⟩ := widen_err_inv hm
  cases hloop : collect h xs with
  | ok r => rw [hloop] at h1; exact absurd h1 (hK r cs1)
  | panic w => rw [hloop] at h1; cases h1
  | nondet => rw [hloop] at h1; cases h1
  | unmodelled w => rw [hloop] at h1; cases h1
  | err cs0 =>
    rw [hloop] at hm
    simp only [Res.err_bind] at hm
    cases he : enum2 t ws with
    | false =>
      have := widen_err_pos he hm
      subst this
      obtain ⟨c, hc, e⟩ := collect_err_pos 0 (fun i x x' _ hx => hok i x x' hx)
        (fun i x x' _ hx => herr i x x' hx) (hpos he) hloop
      exact ⟨c, hc, by rw [e]; rfl⟩
    | true =>
      obtain ⟨-, hextra, hmem, hsettled⟩ := widen_err_facts he hm
      obtain ⟨ys, hys, hl⟩ := concP_iff.mp hp
      obtain ⟨x0, hx0, e0⟩ := collect_err_exists hloop
      obtain ⟨y, hy, cl, hcl, c, hc, e⟩ := collect_err_perm (concL_iff.mp hl) 0
        (fun i z z' _ hz => hok i z z' hz) (fun i z z' _ hz => herr i z z' hz)
        (fun y hy => hset y (hsettled y (hsub y (hys.mem_iff.mp hy))))
        ⟨x0, hys.mem_iff.mpr hx0, cs0, e0⟩
      refine ⟨c, ?_, by rw [e]; rfl⟩
      rcases hcat y cl hcl c hc with hx | ⟨f, hf, cl', hcl', hc'⟩
      · exact hextra c hx
      · exact hmem y (hsub y (hys.mem_iff.mp hy)) f hf cl' hcl' c hc'

/-! ### the per-element steps -/

theorem mapPruneH_errH {f : Val → Res Val} {g : Nat → Val → Res Val} (hf : SimFnE f g) (hf' : SimFnH f g) :
    ∀ i x x', Conc x x' → ErrH (mapPruneH f x) (mapPruneH (g i) x') :=
  fun i x x' hx => ErrH.bind (hf i x x' hx) (hf' i x x' hx) fun _ _ _ => .pure

theorem mapPruneH_cat {f : Val → Res Val} {x : Val} {cl : List Cat} (h : mapPruneH f x = .err cl) : f x = .err cl :=
  mapPruneH_err.mp h

theorem mapAllH_errH {f : Val → Res Val} {g : Nat → Val → Res Val} (hf : SimFnE f g) (hf' : SimFnH f g) :
    ∀ i x x', Conc x x' → ErrH (mapAllH f x) (mapAllH (g i) x') :=
  fun i x x' hx => ErrH.bind (hf i x x' hx) (hf' i x x' hx) fun _ _ _ => .pure

theorem mapAllH_err {f : Val → Res Val} {x : Val} {cl : List Cat} : mapAllH f x = .err cl ↔ f x = .err cl := by
  simp only [mapAllH]
  cases f x <;> simp [Res.pure_eq]

theorem mapAllH_settled {f : Val → Res Val} {x : Val} (h : (f x).Settled) : (mapAllH f x).Settled := by
  simp only [mapAllH]
  cases hf : f x <;> rw [hf] at h <;> first | exact h | trivial

theorem filterH_errH {f : Val → Res Val} {g : Nat → Val → Res Val} (hf : SimFnE f g) (hf' : SimFnH f g) :
    ∀ i x x', Conc x x' → ErrH (filterH f x) (filterH (g i) x') :=
  fun i x x' hx => ErrH.bind (hf i x x' hx) (hf' i x x' hx) fun _ _ _ => .pure

theorem filterH_err {f : Val → Res Val} {x : Val} {cl : List Cat} : filterH f x = .err cl ↔ f x = .err cl := by
  simp only [filterH]
  cases f x <;> simp [Res.pure_eq]

theorem filterH_settled {f : Val → Res Val} {x : Val} (h : (f x).Settled) : (filterH f x).Settled := by
  simp only [filterH]
  cases hf : f x <;> rw [hf] at h <;> first | exact h | trivial

theorem filterMapH_errH {c f : Val → Res Val} {gc gf : Nat → Val → Res Val} (hc : SimFnE c gc) (hc' : SimFnH c gc)
    (hf : SimFnE f gf) (hf' : SimFnH f gf) :
    ∀ i x x', Conc x x' → ErrH (filterMapH c f x) (filterMapH (gc i) (gf i) x') := by
  intro i x x' hx
  refine ErrH.bind (hc i x x' hx) (hc' i x x' hx) fun b b' hb => ?_
  rw [conc_isTrue hb]
  cases isTrue b <;> simp only [if_true, Bool.false_eq_true, if_false]
  · exact .pure
  · exact mapPruneH_errH hf hf' i x x' hx

theorem filterMapH_cat {c f : Val → Res Val} {x : Val} {cl : List Cat} (h : filterMapH c f x = .err cl) :
    c x = .err cl ∨ f x = .err cl := by
  simp only [filterMapH] at h
  cases hc : c x with
  | ok b =>
    rw [hc] at h
    simp only [Res.ok_bind] at h
    split at h
    · exact .inr (mapPruneH_err.mp h)
    · cases h
  | err cl' => rw [hc] at h; simp only [Res.err_bind] at h; cases h; exact .inl rfl
  | panic w => rw [hc] at h; cases h
  | nondet => rw [hc] at h; cases h
  | unmodelled w => rw [hc] at h; cases h

theorem filterMapH_settled {c f : Val → Res Val} {x : Val} (h1 : (c x).Settled) (h2 : (f x).Settled) :
    (filterMapH c f x).Settled := by
  simp only [filterMapH]
  cases hc : c x with
  | ok b =>
    simp only [Res.ok_bind]
    split
    · exact mapPruneH_settled h2
    · trivial
  | err cl => trivial
  | panic w => rw [hc] at h1; exact h1
  | nondet => rw [hc] at h1; exact h1
  | unmodelled w => rw [hc] at h1; exact h1

theorem groupH_errH {f : Val → Res Val} {g : Nat → Val → Res Val} (hf : SimFnE f g) (hf' : SimFnH f g) :
    ∀ i x x', Conc x x' → ErrH (groupH f x) (groupH (g i) x') := by
  intro i x x' hx
  refine ErrH.bind (hf i x x' hx) (hf' i x x' hx) fun rv rv' hrv => ?_
  cases rv with
  | str s => simp only [Conc] at hrv; subst hrv; exact .pure
  | arr t xs => obtain ⟨t', xs', rfl, _⟩ := conc_arr hrv; exact .errType
  | obj kvs => obtain ⟨kvs', rfl, _⟩ := conc_obj hrv; exact .errType
  | null | bool _ | num _ | foreign _ => simp only [Conc] at hrv; subst hrv; exact .errType

theorem groupH_cat {f : Val → Res Val} {x : Val} {cl : List Cat} (h : groupH f x = .err cl) :
    cl = [Cat.invalidType] ∨ f x = .err cl := by
  simp only [groupH] at h
  cases hf : f x with
  | ok rv =>
    rw [hf] at h
    simp only [Res.ok_bind] at h
    cases rv <;> first | (cases h; exact .inl rfl) | cases h
  | err cl' => rw [hf] at h; simp only [Res.err_bind] at h; cases h; exact .inr rfl
  | panic w => rw [hf] at h; cases h
  | nondet => rw [hf] at h; cases h
  | unmodelled w => rw [hf] at h; cases h

theorem groupH_settled {f : Val → Res Val} {x : Val} (h : (f x).Settled) : (groupH f x).Settled := by
  simp only [groupH]
  cases hf : f x with
  | ok rv => cases rv <;> trivial
  | err cl => trivial
  | panic w => rw [hf] at h; exact h
  | nondet => rw [hf] at h; exact h
  | unmodelled w => rw [hf] at h; exact h

theorem res_bind_assoc {α β γ} (r : Res α) (f : α → Res β) (g : β → Res γ) :
    ((r >>= f) >>= g) = (r >>= fun a => f a >>= g) := by
  cases r <;> rfl

theorem pure_noErr {α β} (T : α → β) : ∀ r cs, (pure (T r) : Res β) ≠ .err cs := by
  intro r cs e; cases e

/-! ### the loops -/

theorem projectArray_errH {f : Val → Res Val} {g : Nat → Val → Res Val} (hf : SimFnE f g) (hf' : SimFnH f g)
    {v v' : Val} (h : Conc v v') : ErrH (projectArray f v) (projectArrayO g v') := by
  cases v with
  | arr t xs =>
    obtain ⟨t', xs', rfl, _, hp, _, _⟩ := conc_arr h
    intro cs e
    simp only [projectArray, mapPrune_eq_collect] at e
    simp only [projectArrayO, mapPruneO_eq_collect]
    refine loop_errH (fun x hx => hx) hp (fun he => ?_) (mapPruneH_sim hf) (mapPruneH_errH hf hf')
      (fun x hs => mapPruneH_settled (hs f (by simp)))
      (fun x cl hcl c hc => .inr ⟨f, by simp, cl, mapPruneH_err.mp hcl, hc⟩) (pure_noErr _) e
    obtain ⟨t'', xs'', e2, _, hl, _⟩ := conc_arr_pos h he
    cases e2; exact hl
  | obj kvs => obtain ⟨kvs', rfl, _⟩ := conc_obj h; exact .ok
  | null | bool _ | num _ | foreign _ | str _ => simp only [Conc] at h; subst h; exact .ok

theorem filterArray_errH {f : Val → Res Val} {g : Nat → Val → Res Val} (hf : SimFnE f g) (hf' : SimFnH f g)
    {v v' : Val} (h : Conc v v') : ErrH (filterArray f v) (filterArrayO g v') := by
  cases v with
  | arr t xs =>
    obtain ⟨t', xs', rfl, _, hp, _, _⟩ := conc_arr h
    intro cs e
    simp only [filterArray, filterLoop_eq_collect] at e
    simp only [filterArrayO, filterLoopO_eq_collect]
    refine loop_errH (fun x hx => hx) hp (fun he => ?_) (filterH_sim hf) (filterH_errH hf hf')
      (fun x hs => filterH_settled (hs f (by simp)))
      (fun x cl hcl c hc => .inr ⟨f, by simp, cl, filterH_err.mp hcl, hc⟩) (pure_noErr _) e
    obtain ⟨t'', xs'', e2, _, hl, _⟩ := conc_arr_pos h he
    cases e2; exact hl
  | obj kvs => obtain ⟨kvs', rfl, _⟩ := conc_obj h; exact .ok
  | null | bool _ | num _ | foreign _ | str _ => simp only [Conc] at h; subst h; exact .ok

theorem mapArray_errH {f : Val → Res Val} {g : Nat → Val → Res Val} (hf : SimFnE f g) (hf' : SimFnH f g)
    {v v' : Val} (h : Conc v v') : ErrH (mapArray f v) (mapArrayO g v') := by
  cases v with
  | arr t xs =>
    obtain ⟨t', xs', rfl, _, hp, _, _⟩ := conc_arr h
    intro cs e
    simp only [mapArray, mapAll_eq_collect] at e
    simp only [mapArrayO, mapAllO_eq_collect]
    refine loop_errH (fun x hx => hx) hp (fun he => ?_) (mapAllH_sim hf) (mapAllH_errH hf hf')
      (fun x hs => mapAllH_settled (hs f (by simp)))
      (fun x cl hcl c hc => .inr ⟨f, by simp, cl, mapAllH_err.mp hcl, hc⟩) (pure_noErr _) e
    obtain ⟨t'', xs'', e2, _, hl, _⟩ := conc_arr_pos h he
    cases e2; exact hl
  | obj kvs => obtain ⟨kvs', rfl, _⟩ := conc_obj h; exact .errType
  | null | bool _ | num _ | foreign _ | str _ => simp only [Conc] at h; subst h; exact .errType

theorem filterAndProjectArray_errH {c f : Val → Res Val} {gc gf : Nat → Val → Res Val} (hc : SimFnE c gc)
    (hc' : SimFnH c gc) (hf : SimFnE f gf) (hf' : SimFnH f gf) {v v' : Val} (h : Conc v v') :
    ErrH (filterAndProjectArray c f v) (filterAndProjectArrayO gc gf v') := by
  cases v with
  | arr t xs =>
    obtain ⟨t', xs', rfl, _, hp, _, _⟩ := conc_arr h
    intro cs e
    simp only [filterAndProjectArray, filterMapPrune_eq_collect] at e
    simp only [filterAndProjectArrayO, filterMapPruneO_eq_collect]
    refine loop_errH (fun x hx => hx) hp (fun he => ?_) (filterMapH_sim hc hf) (filterMapH_errH hc hc' hf hf')
      (fun x hs => filterMapH_settled (hs c (by simp)) (hs f (by simp)))
      (fun x cl hcl k hk => ?_) (pure_noErr _) e
    · obtain ⟨t'', xs'', e2, _, hl, _⟩ := conc_arr_pos h he
      cases e2; exact hl
    · rcases filterMapH_cat hcl with h1 | h1
      · exact .inr ⟨c, by simp, cl, h1, hk⟩
      · exact .inr ⟨f, by simp, cl, h1, hk⟩
  | obj kvs => obtain ⟨kvs', rfl, _⟩ := conc_obj h; exact .ok
  | null | bool _ | num _ | foreign _ | str _ => simp only [Conc] at h; subst h; exact .ok

theorem enum2_append_two {t : ATag} (l : List Val) (a b : Val) : enum2 t (l ++ [a, b]) = (t == .enum) := by
  simp [enum2]

theorem flattenAndProjectArray_errH {f : Val → Res Val} {g : Nat → Val → Res Val} (hf : SimFnE f g)
    (hf' : SimFnH f g) {v v' : Val} (h : Conc v v') :
    ErrH (flattenAndProjectArray f v) (flattenAndProjectArrayO g v') := by
  cases v with
  | arr t xs =>
    obtain ⟨t', xs', rfl, hne, hp, _, _⟩ := conc_arr h
    intro cs e
    simp only [flattenAndProjectArray, mapPrune_eq_collect] at e
    simp only [flattenAndProjectArrayO, mapPruneO_eq_collect]
    refine loop_errH (fun x hx => List.mem_append_left _ hx) (flattenForProject_concP hp) (fun he => ?_)
      (mapPruneH_sim hf) (mapPruneH_errH hf hf')
      (fun x hs => mapPruneH_settled (hs f (by simp)))
      (fun x cl hcl c hc => .inr ⟨f, by simp, cl, mapPruneH_err.mp hcl, hc⟩) (pure_noErr _) e
    rw [enum2_append_two] at he
    have ht : flattenTag t xs = .plain := by
      rcases flattenTag_cases t xs with h1 | h1
      · rw [h1] at he; cases he
      · exact h1
    have key := flattenTag_plain ht
    obtain ⟨t'', xs'', e2, _, hl, _⟩ := conc_arr_pos h key.1
    cases e2
    rw [flattenForProject_eq, flattenForProject_eq]
    exact flatMap_flatP1_concL hl key.2
  | obj kvs => obtain ⟨kvs', rfl, _⟩ := conc_obj h; exact .ok
  | null | bool _ | num _ | foreign _ | str _ => simp only [Conc] at h; subst h; exact .ok

theorem projectObject_errH (π : Oracle) {f : Val → Res Val} {g : Nat → Val → Res Val} (hf : SimFnE f g)
    (hf' : SimFnH f g) {v v' : Val} (h : Conc v v') : ErrH (projectObject f v) (projectObjectO π g v') := by
  cases v with
  | obj kvs =>
    intro cs e
    exact projectObject_err_any_order π h (fun i x x' _ hx => ⟨hf i x x' hx, hf' i x x' hx⟩) e
  | arr t xs => obtain ⟨t', xs', rfl, _⟩ := conc_arr h; exact .ok
  | null | bool _ | num _ | foreign _ | str _ => simp only [Conc] at h; subst h; exact .ok

theorem groupBy_errH {f : Val → Res Val} {g : Nat → Val → Res Val} (hf : SimFnE f g) (hf' : SimFnH f g)
    {v v' : Val} (h : Conc v v') : ErrH (groupBy f v) (groupByO g v') := by
  cases v with
  | arr t xs =>
    obtain ⟨t', xs', rfl, _, hp, _, _⟩ := conc_arr h
    intro cs e
    simp only [groupBy] at e
    simp only [groupByO, isEmpty_of_concP hp]
    cases hxe : xs.isEmpty with
    | true => rw [hxe] at e; cases e
    | false =>
      rw [hxe] at e
      simp only [Bool.false_eq_true, if_false] at e ⊢
      rw [groupLoop_eq] at e
      rw [groupLoopO_eq]
      rw [res_bind_assoc] at e ⊢
      refine loop_errH (fun x hx => hx) hp (fun he => ?_) (groupH_sim hf) (groupH_errH hf hf')
        (fun x hs => groupH_settled (hs f (by simp)))
        (fun x cl hcl c hc => ?_) (fun r cs e => by cases e) e
      · obtain ⟨t'', xs'', e2, _, hl, _⟩ := conc_arr_pos h he
        cases e2; exact hl
      · rcases groupH_cat hcl with rfl | h1
        · exact .inl hc
        · exact .inr ⟨f, by simp, cl, h1, hc⟩
  | obj kvs => obtain ⟨kvs', rfl, _⟩ := conc_obj h; exact .errType
  | null | bool _ | num _ | foreign _ | str _ => simp only [Conc] at h; subst h; exact .errType

/-! ### `sort_by`, `max_by`, `min_by`: the key scan -/

theorem keyOfVal_errH (b : Bool) (rv : Val) : ErrH (keyOfVal b rv) (keyOfVal b rv) := by
  intro cs e
  simp only [keyOfVal] at e
  have : cs = [Cat.invalidType] := by
    split at e
    · split at e <;> cases e; rfl
    · split at e <;> cases e; rfl
  subst this
  exact ⟨_, by simp, e⟩

theorem keyOfVal_outcome (b : Bool) (rv : Val) : (∃ k, keyOfVal b rv = .ok k) ∨ keyOfVal b rv = errType := by
  simp only [keyOfVal]
  split
  · split
    · exact .inl ⟨_, rfl⟩
    · exact .inr rfl
  · split
    · exact .inl ⟨_, rfl⟩
    · exact .inr rfl

/-- positional: the key scan in a fixed mode -/
theorem keysFrom_simG {f : Val → Res Val} {g : Nat → Val → Res Val} (hf : SimFnE f g) (b : Bool) :
    ∀ (i : Nat) {xs xs' : List Val}, ConcL xs xs' →
      SimG (fun a c : List Key => a = c) (keysFrom f b xs) (keysFromO g b i xs')
  | _, [], xs', hl => by simp only [ConcL] at hl; subst hl; exact SimG.ok rfl
  | i, x :: xs, xs', hl => by
    simp only [ConcL] at hl
    obtain ⟨x', t', hx, ht, rfl⟩ := hl
    rw [keysFrom_cons, keysFromO_cons]
    refine SimG.bind (hf i x x' hx) fun rv rv' hrv => ?_
    rw [conc_keyOfVal b hrv]
    refine SimG.bind (C := fun a c => a = c) (fun k hk => ⟨k, hk, rfl⟩) fun k k' e => ?_
    subst e
    exact SimG.bind (keysFrom_simG hf b (i + 1) ht) fun r r' e => by subst e; exact SimG.pure rfl

theorem keysFrom_errH {f : Val → Res Val} {g : Nat → Val → Res Val} (hf : SimFnE f g) (hf' : SimFnH f g) (b : Bool) :
    ∀ (i : Nat) {xs xs' : List Val}, ConcL xs xs' → ErrH (keysFrom f b xs) (keysFromO g b i xs')
  | _, [], xs', hl => by simp only [ConcL] at hl; subst hl; exact .ok
  | i, x :: xs, xs', hl => by
    simp only [ConcL] at hl
    obtain ⟨x', t', hx, ht, rfl⟩ := hl
    rw [keysFrom_cons, keysFromO_cons]
    refine ErrH.bind (hf i x x' hx) (hf' i x x' hx) fun rv rv' hrv => ?_
    rw [conc_keyOfVal b hrv]
    refine ErrH.bind (C := fun a c => a = c) (fun k hk => ⟨k, hk, rfl⟩) (keyOfVal_errH b rv) fun k k' e => ?_
    exact ErrH.bind (keysFrom_simG hf b (i + 1) ht) (keysFrom_errH hf hf' b (i + 1) ht) fun _ _ _ => .pure

/-- `keysOf` as: the first outcome decides the mode, then `keysFrom` in that mode -/
def modeOf (first : Val) : Res Bool :=
  match first with
  | .str _ => .ok true
  | _ => match toDecimal first with
    | some _ => .ok false
    | none => errType

theorem keysOf_eq (f : Val → Res Val) (x : Val) (xs : List Val) :
    keysOf f (x :: xs) = (f x >>= fun first => modeOf first >>= fun b => keysFrom f b (x :: xs)) := by
  simp only [keysOf]
  cases hfx : f x <;> simp only [Res.ok_bind, Res.err_bind, Res.panic_bind, Res.nondet_bind, Res.unmodelled_bind]
  rename_i first
  cases first with
  | str s =>
    simp only [modeOf, Res.ok_bind]
    rw [keysFrom_cons, hfx]
    simp only [Res.ok_bind, keyOfVal, if_true]
  | null | bool _ | num _ | arr _ _ | obj _ | foreign _ =>
    simp only [modeOf]
    cases hd : toDecimal _ with
    | none => rfl
    | some d =>
      simp only [Res.ok_bind]
      rw [keysFrom_cons, hfx]
      simp only [Res.ok_bind, keyOfVal, Bool.false_eq_true, if_false, hd]

theorem keysOfO_eq (g : Nat → Val → Res Val) (x : Val) (xs : List Val) :
    keysOfO g (x :: xs) = (g 0 x >>= fun first => modeOf first >>= fun b => keysFromO g b 0 (x :: xs)) := by
  simp only [keysOfO]
  cases hfx : g 0 x <;> simp only [Res.ok_bind, Res.err_bind, Res.panic_bind, Res.nondet_bind, Res.unmodelled_bind]
  rename_i first
  cases first with
  | str s =>
    simp only [modeOf, Res.ok_bind]
    rw [keysFromO_cons, hfx]
    simp only [Res.ok_bind, keyOfVal, if_true]
  | null | bool _ | num _ | arr _ _ | obj _ | foreign _ =>
    simp only [modeOf]
    cases hd : toDecimal _ with
    | none => rfl
    | some d =>
      simp only [Res.ok_bind]
      rw [keysFromO_cons, hfx]
      simp only [Res.ok_bind, keyOfVal, Bool.false_eq_true, if_false, hd]

theorem conc_modeOf {v v' : Val} (h : Conc v v') : modeOf v' = modeOf v := by
  cases v with
  | arr t xs => obtain ⟨t', xs', rfl, _⟩ := conc_arr h; rfl
  | obj kvs => obtain ⟨kvs', rfl, _⟩ := conc_obj h; rfl
  | _ => simp only [Conc] at h; subst h; rfl

theorem modeOf_errH (v : Val) : ErrH (modeOf v) (modeOf v) := by
  intro cs e
  have : cs = [Cat.invalidType] := by
    simp only [modeOf] at e
    split at e
    · cases e
    · split at e <;> cases e; rfl
  subst this
  exact ⟨_, by simp, e⟩

/-- positional error half of the key scan -/
theorem keysOf_errH_pos {f : Val → Res Val} {g : Nat → Val → Res Val} (hf : SimFnE f g) (hf' : SimFnH f g) :
    ∀ {xs xs' : List Val}, ConcL xs xs' → ErrH (keysOf f xs) (keysOfO g xs')
  | [], xs', hl => by simp only [ConcL] at hl; subst hl; exact .ok
  | x :: xs, xs', hl => by
    have hl0 := hl
    simp only [ConcL] at hl
    obtain ⟨x', t', hx, ht, rfl⟩ := hl
    rw [keysOf_eq, keysOfO_eq]
    refine ErrH.bind (hf 0 x x' hx) (hf' 0 x x' hx) fun rv rv' hrv => ?_
    rw [conc_modeOf hrv]
    refine ErrH.bind (C := fun a c => a = c) (fun k hk => ⟨k, hk, rfl⟩) (modeOf_errH rv) fun b b' e => ?_
    subst e
    exact keysFrom_errH hf hf' b 0 hl0

/-! any order -/

/-- the run's scan in a fixed mode: a value, or a single category among `S` -/
theorem keysFromO_outcome {g : Nat → Val → Res Val} {S : Cat → Prop} (hS : S Cat.invalidType) (b : Bool) :
    ∀ (i : Nat) (xs' : List Val),
      (∀ i, ∀ x' ∈ xs', (∃ v, g i x' = .ok v) ∨ ∃ c, S c ∧ g i x' = .err [c]) →
      (∃ ks, keysFromO g b i xs' = .ok ks) ∨ ∃ c, S c ∧ keysFromO g b i xs' = .err [c]
  | _, [], _ => .inl ⟨_, rfl⟩
  | i, x' :: xs', hall => by
    rw [keysFromO_cons]
    rcases hall i x' (by simp) with ⟨v, hv⟩ | ⟨c, hc, he⟩
    · rw [hv]
      simp only [Res.ok_bind]
      rcases keyOfVal_outcome b v with ⟨k, hk⟩ | hk
      · rw [hk]
        simp only [Res.ok_bind]
        rcases keysFromO_outcome hS b (i + 1) xs' (fun i z hz => hall i z (List.mem_cons_of_mem _ hz)) with
          ⟨ks, hks⟩ | ⟨c, hc, he⟩
        · rw [hks]; exact .inl ⟨_, rfl⟩
        · rw [he]; exact .inr ⟨c, hc, rfl⟩
      · rw [hk]; exact .inr ⟨_, hS, rfl⟩
    · rw [he]; exact .inr ⟨c, hc, rfl⟩

theorem keysOfO_outcome {g : Nat → Val → Res Val} {S : Cat → Prop} (hS : S Cat.invalidType) :
    ∀ (xs' : List Val), (∀ i, ∀ x' ∈ xs', (∃ v, g i x' = .ok v) ∨ ∃ c, S c ∧ g i x' = .err [c]) →
      (∃ ks b, keysOfO g xs' = .ok ks ∧ keysFromO g b 0 xs' = .ok ks) ∨ ∃ c, S c ∧ keysOfO g xs' = .err [c]
  | [], _ => .inl ⟨_, true, rfl, rfl⟩
  | x' :: xs', hall => by
    rw [keysOfO_eq]
    rcases hall 0 x' (by simp) with ⟨v, hv⟩ | ⟨c, hc, he⟩
    · rw [hv]
      simp only [Res.ok_bind]
      cases hm : modeOf v with
      | ok b =>
        simp only [Res.ok_bind]
        rcases keysFromO_outcome hS b 0 (x' :: xs') hall with ⟨ks, hks⟩ | ⟨c, hc, he⟩
        · exact .inl ⟨ks, b, hks, hks⟩
        · exact .inr ⟨c, hc, he⟩
      | err cl =>
        obtain ⟨c, hc, e⟩ := modeOf_errH v cl hm
        rw [hm] at e
        cases e
        have : c = Cat.invalidType := by
          simp only [modeOf] at hm
          split at hm
          · cases hm
          · split at hm <;> cases hm; rfl
        subst this
        exact .inr ⟨_, hS, rfl⟩
      | panic w => simp only [modeOf] at hm; split at hm <;> (try split at hm) <;> cases hm
      | nondet => simp only [modeOf] at hm; split at hm <;> (try split at hm) <;> cases hm
      | unmodelled w => simp only [modeOf] at hm; split at hm <;> (try split at hm) <;> cases hm
    · rw [he]; exact .inr ⟨c, hc, rfl⟩

/-- a successful scan of the run evaluated every element to a value whose key fits the mode -/
theorem keysFromO_ok_mem {g : Nat → Val → Res Val} {b : Bool} : ∀ (i : Nat) (xs' : List Val) {ks : List Key},
    keysFromO g b i xs' = .ok ks → ∀ x' ∈ xs', ∃ j rv' k, g j x' = .ok rv' ∧ keyOfVal b rv' = .ok k
  | _, [], _, _ => by intro x' hx'; cases hx'
  | i, y :: ys, ks, h => by
    rw [keysFromO_cons] at h
    obtain ⟨rv, h1, h⟩ := bind_eq_ok' h
    obtain ⟨k, h2, h⟩ := bind_eq_ok' h
    obtain ⟨rest, h3, h⟩ := bind_eq_ok' h
    intro x' hx'
    rcases List.mem_cons.mp hx' with rfl | hx'
    · exact ⟨i, rv, k, h1, h2⟩
    · exact keysFromO_ok_mem (i + 1) ys h3 x' hx'

theorem keysFrom_ok_of_all {f : Val → Res Val} {b : Bool} : ∀ (xs : List Val),
    (∀ x ∈ xs, ∃ rv k, f x = .ok rv ∧ keyOfVal b rv = .ok k) → ∃ ks, keysFrom f b xs = .ok ks
  | [], _ => ⟨_, rfl⟩
  | x :: xs, h => by
    obtain ⟨rv, k, h1, h2⟩ := h x (by simp)
    obtain ⟨ks, h3⟩ := keysFrom_ok_of_all xs (fun z hz => h z (List.mem_cons_of_mem _ hz))
    rw [keysFrom_cons]
    exact ⟨k :: ks, by simp only [h1, h2, h3, Res.ok_bind]; rfl⟩

/-- a successful `keysFrom` (either mode) is what `keysOf` computes -/
theorem keysOf_of_keysFrom {f : Val → Res Val} {b : Bool} {x : Val} {xs : List Val} {ks : List Key}
    (h : keysFrom f b (x :: xs) = .ok ks) : keysOf f (x :: xs) = .ok ks := by
  rw [keysOf_eq]
  have h0 := h
  rw [keysFrom_cons] at h
  obtain ⟨rv, h1, h⟩ := bind_eq_ok' h
  obtain ⟨k, h2, h⟩ := bind_eq_ok' h
  rw [h1]
  simp only [Res.ok_bind]
  have hm : modeOf rv = .ok b := by
    cases b
    · simp only [keyOfVal, Bool.false_eq_true, if_false] at h2
      cases hd : toDecimal rv with
      | none => rw [hd] at h2; cases h2
      | some d =>
        cases rv with
        | str s => simp [toDecimal] at hd
        | _ => simp only [modeOf, hd]
    · simp only [keyOfVal, if_true] at h2
      cases rv with
      | str s => rfl
      | _ => cases h2
  rw [hm]
  exact h0

/-- **the key scan of `sort_by` / `max_by` / `min_by` below `widen`**, followed by a continuation that does not
    fail: every run reports one category of the model's error set. In a map-ordered array the MODE of the scan
    (string or number keys) is fixed by whichever element comes first, so the invalid-type category (always in the
    model's set) may be reported at a different element. -/
theorem keys_loop_errH {γ γ'} {t : ATag} {xs xs' : List Val} {f : Val → Res Val} {g : Nat → Val → Res Val}
    {K : List Key → Res γ} {K' : List Key → Res γ'} (hf : SimFnE f g) (hf' : SimFnH f g)
    (hp : ConcP xs xs') (hpos : enum2 t xs = false → ConcL xs xs') (hK : ∀ r cs, K r ≠ .err cs) {cs : List Cat}
    (hm : widen t xs [f] [Cat.invalidType] (keysOf f xs >>= K) = .err cs) :
    ∃ c ∈ cs, (keysOfO g xs' >>= K') = .err [c] := by
  obtain ⟨cs1, h1⟩ := widen_err_inv hm
  cases hloop : keysOf f xs with
  | ok r => rw [hloop] at h1; exact absurd h1 (hK r cs1)
  | panic w => rw [hloop] at h1; cases h1
  | nondet => rw [hloop] at h1; cases h1
  | unmodelled w => rw [hloop] at h1; cases h1
  | err cs0 =>
    rw [hloop] at hm
    simp only [Res.err_bind] at hm
    cases he : enum2 t xs with
    | false =>
      have := widen_err_pos he hm
      subst this
      obtain ⟨c, hc, e⟩ := keysOf_errH_pos hf hf' (hpos he) _ hloop
      exact ⟨c, hc, by rw [e]; rfl⟩
    | true =>
      obtain ⟨-, hextra, hmem, hsettled⟩ := widen_err_facts he hm
      -- every run-side element outcome is a value or a single category of `cs`
      have hall : ∀ i, ∀ x' ∈ xs', (∃ v, g i x' = .ok v) ∨ ∃ c, c ∈ cs ∧ g i x' = .err [c] := by
        intro i x' hx'
        obtain ⟨x, hx, cx⟩ := concP_mem_right hp x' hx'
        have hs := hsettled x hx f (by simp)
        cases hfx : f x with
        | ok v => obtain ⟨v', e, _⟩ := hf i x x' cx v hfx; exact .inl ⟨v', e⟩
        | err cl =>
          obtain ⟨c, hc, e⟩ := hf' i x x' cx cl hfx
          exact .inr ⟨c, hmem x hx f (by simp) cl hfx c hc, e⟩
        | panic w => rw [hfx] at hs; exact hs.elim
        | nondet => rw [hfx] at hs; exact hs.elim
        | unmodelled w => rw [hfx] at hs; exact hs.elim
      rcases keysOfO_outcome (S := fun c => c ∈ cs) (hextra _ (by simp)) xs' hall with ⟨ks, b, hk, hkb⟩ | ⟨c, hc, e⟩
      · -- the run's scan succeeded: then so does the model's, in any order
        exfalso
        have hmodel : ∀ x ∈ xs, ∃ rv k, f x = .ok rv ∧ keyOfVal b rv = .ok k := by
          intro x hx
          obtain ⟨x', hx', cx⟩ := concP_mem_left hp x hx
          obtain ⟨j, rv', k, h1, h2⟩ := keysFromO_ok_mem 0 xs' hkb x' hx'
          have hs := hsettled x hx f (by simp)
          cases hfx : f x with
          | ok v =>
            obtain ⟨v', e, cv⟩ := hf j x x' cx v hfx
            rw [h1] at e; cases e
            exact ⟨v, k, rfl, by rw [← conc_keyOfVal b cv]; exact h2⟩
          | err cl =>
            obtain ⟨c, hc, e⟩ := hf' j x x' cx cl hfx
            rw [h1] at e; cases e
          | panic w => rw [hfx] at hs; exact hs.elim
          | nondet => rw [hfx] at hs; exact hs.elim
          | unmodelled w => rw [hfx] at hs; exact hs.elim
        obtain ⟨ks2, hks2⟩ := keysFrom_ok_of_all xs hmodel
        cases xs with
        | nil => simp [keysOf] at hloop
        | cons x0 rest => rw [keysOf_of_keysFrom hks2] at hloop; cases hloop
      · exact ⟨c, hc, by rw [e]; rfl⟩

theorem sortArrayBy_errH {f : Val → Res Val} {g : Nat → Val → Res Val} (hf : SimFnE f g) (hf' : SimFnH f g)
    {v v' : Val} (h : Conc v v') : ErrH (sortArrayBy f v) (sortArrayByO g v') := by
  cases v with
  | arr t xs =>
    obtain ⟨t', xs', rfl, _, hp, _, _⟩ := conc_arr h
    intro cs e
    simp only [sortArrayBy] at e
    simp only [sortArrayByO, isEmpty_of_concP hp]
    cases hxe : xs.isEmpty with
    | true => rw [hxe] at e; cases e
    | false =>
      rw [hxe] at e
      simp only [Bool.false_eq_true, if_false] at e ⊢
      refine keys_loop_errH hf hf' hp (fun he => ?_) (fun r cs e => by split at e <;> cases e) e
      obtain ⟨t'', xs'', e2, _, hl, _⟩ := conc_arr_pos h he
      cases e2; exact hl
  | obj kvs => obtain ⟨kvs', rfl, _⟩ := conc_obj h; exact .errType
  | null | bool _ | num _ | foreign _ | str _ => simp only [Conc] at h; subst h; exact .errType

theorem arrayPickBy_errH (better : Key → Key → Bool) {f : Val → Res Val} {g : Nat → Val → Res Val}
    (hf : SimFnE f g) (hf' : SimFnH f g) {v v' : Val} (h : Conc v v') :
    ErrH (arrayPickBy better f v) (arrayPickByO better g v') := by
  cases v with
  | arr t xs =>
    obtain ⟨t', xs', rfl, _, hp, _, _⟩ := conc_arr h
    cases xs with
    | nil => exact .ok
    | cons x0 rest =>
      cases xs' with
      | nil => have := hp.length; simp at this
      | cons x0' rest' =>
        intro cs e
        simp only [arrayPickBy] at e
        simp only [arrayPickByO]
        refine keys_loop_errH hf hf' hp (fun he => ?_)
          (fun r cs e => by split at e <;> (try split at e) <;> cases e) e
        obtain ⟨t'', xs'', e2, _, hl, _⟩ := conc_arr_pos h he
        cases e2; exact hl
  | obj kvs => obtain ⟨kvs', rfl, _⟩ := conc_obj h; exact .errType
  | null | bool _ | num _ | foreign _ | str _ => simp only [Conc] at h; subst h; exact .errType

/-! ### the members of a multi-select hash / `let` -/

/-- a member outcome of the model and of the run, error half included -/
abbrev MemberSimX (o o' : Bytes × Res Val) : Prop := o.1 = o'.1 ∧ SimE o.2 o'.2 ∧ ErrH o.2 o'.2

theorem combineAll_err_exists : ∀ (os : List (Bytes × Res Val)) (cs : List Cat), combineAll os = .err cs →
    ∃ o ∈ os, ∃ cl, o.2 = .err cl
  | [], cs, h => by simp [combineAll] at h
  | (k, r) :: rest, cs, h => by
    simp only [combineAll] at h
    cases hr : r with
    | err cl => subst hr; exact ⟨_, List.mem_cons_self, cl, rfl⟩
    | ok v =>
      rw [hr] at h
      cases hacc : combineAll rest with
      | err cs' =>
        obtain ⟨o, ho, cl, hcl⟩ := combineAll_err_exists rest cs' hacc
        exact ⟨o, List.mem_cons_of_mem _ ho, cl, hcl⟩
      | ok kvs => rw [hacc] at h; cases h
      | panic w => rw [hacc] at h; cases h
      | nondet => rw [hacc] at h; cases h
      | unmodelled w => rw [hacc] at h; cases h
    | panic w => rw [hr] at h; cases hacc : combineAll rest <;> rw [hacc] at h <;> cases h
    | nondet => rw [hr] at h; cases hacc : combineAll rest <;> rw [hacc] at h <;> cases h
    | unmodelled w => rw [hr] at h; cases hacc : combineAll rest <;> rw [hacc] at h <;> cases h

theorem firstFailure_fails {S : Cat → Prop} : ∀ (os : List (Bytes × Res Val)) (acc : List (Bytes × Val)),
    (∀ o ∈ os, (∃ v, o.2 = .ok v) ∨ ∃ c, S c ∧ o.2 = .err [c]) → (∃ o ∈ os, ∃ c, o.2 = .err [c]) →
    ∃ c, S c ∧ firstFailure os acc = .err [c]
  | [], _, _, hex => by obtain ⟨_, ho, _⟩ := hex; cases ho
  | (k, r) :: rest, acc, hall, hex => by
    simp only [firstFailure]
    rcases hall (k, r) (by simp) with ⟨v, hv⟩ | ⟨c, hc, he⟩
    · simp only at hv
      subst hv
      simp only [Res.ok_bind]
      have hex' : ∃ o ∈ rest, ∃ c, o.2 = .err [c] := by
        obtain ⟨o, ho, c, hoc⟩ := hex
        rcases List.mem_cons.mp ho with rfl | ho
        · cases hoc
        · exact ⟨o, ho, c, hoc⟩
      exact firstFailure_fails rest _ (fun o ho => hall o (List.mem_cons_of_mem _ ho)) hex'
    · simp only at he
      subst he
      exact ⟨c, hc, rfl⟩

/-- **error half for a member map**: the model's error set contains the category of the first failure under every
    order of evaluation -/
theorem members_errH {os os' os'' : List (Bytes × Res Val)} (hrel : All₂ MemberSimX os os') (hp : os''.Perm os') :
    ErrH (combineAll os) (firstFailure os'' []) := by
  intro cs h
  obtain ⟨hset, hcs⟩ := combineAll_err os cs h
  obtain ⟨o0, ho0, cl0, hcl0⟩ := combineAll_err_exists os cs h
  have hall : ∀ o'' ∈ os'', (∃ v, o''.2 = .ok v) ∨ ∃ c, c ∈ cs ∧ o''.2 = .err [c] := by
    intro o'' ho''
    obtain ⟨o, ho, _, hs, he⟩ := hrel.mem_right o'' (hp.mem_iff.mp ho'')
    have hst := hset o ho
    cases ho2 : o.2 with
    | ok v => obtain ⟨v', e, _⟩ := hs v ho2; exact .inl ⟨v', e⟩
    | err cl =>
      obtain ⟨c, hc, e⟩ := he cl ho2
      exact .inr ⟨c, (hcs c).mpr ⟨o, ho, cl, ho2, hc⟩, e⟩
    | panic w => rw [ho2] at hst; exact hst.elim
    | nondet => rw [ho2] at hst; exact hst.elim
    | unmodelled w => rw [ho2] at hst; exact hst.elim
  obtain ⟨o0', ho0', _, _, he0⟩ := hrel.mem_left o0 ho0
  obtain ⟨c0, _, e0⟩ := he0 cl0 hcl0
  obtain ⟨c, hc, e⟩ := firstFailure_fails (S := fun c => c ∈ cs) os'' [] hall ⟨o0', hp.mem_iff.mpr ho0', c0, e0⟩
  exact ⟨c, hc, e⟩

end Jmes.C15C
