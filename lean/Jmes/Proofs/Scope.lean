/-
  Lexical scoping helpers for C19.

  Part 1: `objLookup` / `objInsert` / append lemmas (environments are association lists, new bindings are prepended).
  Part 2: the exact characterisation of `ievalFields` succeeding.
  Part 3: capture-avoiding substitution of a value for a variable, `INode.subst`, and the substitution lemma
          `ieval_subst` (mutual structural recursion over the nested inductive `INode`).
-/
import Jmes.Proofs.Refine
import Jmes.Proofs.Order
namespace Jmes

/-! ## Part 1: association lists -/

theorem objLookup_objInsert (x k : Bytes) (v : Val) : ∀ l : List (Bytes × Val),
    objLookup x (objInsert k v l) = if x = k then some v else objLookup x l
  | [] => by simp [objInsert, objLookup]
  | (k', v') :: rest => by
    simp only [objInsert]
    by_cases h1 : k = k'
    · subst h1
      simp only [if_true, objLookup]
      split <;> rfl
    · simp only [h1, if_false]
      by_cases h2 : bytesLt k k' = true
      · simp only [h2, if_true, objLookup]
      · rw [if_neg h2]
        simp only [objLookup, objLookup_objInsert x k v rest]
        by_cases h3 : x = k
        · subst h3
          simp [h1]
        · simp [h3]

/-- folding `objInsert` over a raw association list (head inserted last) -/
def insertAll (kvs : List (Bytes × Val)) : List (Bytes × Val) :=
  kvs.foldr (fun kv acc => objInsert kv.1 kv.2 acc) []

@[simp] theorem insertAll_nil : insertAll [] = [] := rfl
@[simp] theorem insertAll_cons (k : Bytes) (v : Val) (kvs : List (Bytes × Val)) :
    insertAll ((k, v) :: kvs) = objInsert k v (insertAll kvs) := rfl

/-- looking a key up in the sorted object = looking it up in the raw list (first occurrence wins) -/
theorem objLookup_insertAll (x : Bytes) : ∀ kvs : List (Bytes × Val), objLookup x (insertAll kvs) = objLookup x kvs
  | [] => rfl
  | (k, v) :: kvs => by
    simp only [insertAll_cons, objLookup_objInsert, objLookup, objLookup_insertAll x kvs]

theorem objLookup_append (x : Bytes) : ∀ (bs env : List (Bytes × Val)),
    objLookup x (bs ++ env) = (match objLookup x bs with | some v => some v | none => objLookup x env)
  | [], env => rfl
  | (k, v) :: bs, env => by
    simp only [List.cons_append, objLookup]
    by_cases h : x = k
    · simp [h]
    · simp only [h, if_false]
      exact objLookup_append x bs env

theorem objLookup_eq_none_iff (x : Bytes) : ∀ kvs : List (Bytes × Val),
    objLookup x kvs = none ↔ x ∉ kvs.map Prod.fst
  | [] => by simp [objLookup]
  | (k, v) :: kvs => by
    simp only [objLookup, List.map_cons, List.mem_cons, not_or]
    by_cases h : x = k
    · simp [h]
    · simp [h, objLookup_eq_none_iff x kvs]

theorem objLookup_of_mem_nodup {x : Bytes} {v : Val} : ∀ {kvs : List (Bytes × Val)},
    (kvs.map Prod.fst).Nodup → (x, v) ∈ kvs → objLookup x kvs = some v
  | [], _, h => by simp at h
  | (k, w) :: kvs, hnd, h => by
    simp only [List.map_cons, List.nodup_cons] at hnd
    simp only [objLookup]
    simp only [List.mem_cons, Prod.mk.injEq] at h
    by_cases hx : x = k
    · subst hx
      simp only [if_true]
      rcases h with h | h
      · rw [h.2]
      · exact absurd (List.mem_map.mpr ⟨(x, v), h, rfl⟩) hnd.1
    · simp only [hx, if_false]
      rcases h with h | h
      · exact absurd h.1 hx
      · exact objLookup_of_mem_nodup hnd.2 h

/-! ### `objInsert` keeps an object key-sorted -/

/-- strictly key-sorted (hence duplicate-free) member list -/
def KeySorted (kvs : List (Bytes × Val)) : Prop := kvs.Pairwise (fun a b => bytesLt a.1 b.1 = true)

theorem mem_objInsert {p : Bytes × Val} {k : Bytes} {v : Val} : ∀ {l : List (Bytes × Val)},
    p ∈ objInsert k v l → p = (k, v) ∨ p ∈ l
  | [], h => by simp [objInsert] at h; exact Or.inl h
  | (k', v') :: rest, h => by
    simp only [objInsert] at h
    split at h
    · simp only [List.mem_cons] at h ⊢
      rcases h with h | h
      · exact Or.inl h
      · exact Or.inr (Or.inr h)
    · split at h
      · simp only [List.mem_cons] at h ⊢
        exact h
      · simp only [List.mem_cons] at h ⊢
        rcases h with h | h
        · exact Or.inr (Or.inl h)
        · rcases mem_objInsert h with h | h
          · exact Or.inl h
          · exact Or.inr (Or.inr h)

theorem KeySorted_objInsert (k : Bytes) (v : Val) : ∀ {l : List (Bytes × Val)}, KeySorted l → KeySorted (objInsert k v l)
  | [], _ => by simp [objInsert, KeySorted]
  | (k', v') :: rest, h => by
    unfold KeySorted at h ⊢
    rw [List.pairwise_cons] at h
    simp only [objInsert]
    by_cases h1 : k = k'
    · subst h1
      simp only [if_true]
      exact List.pairwise_cons.mpr ⟨h.1, h.2⟩
    · simp only [h1, if_false]
      by_cases h2 : bytesLt k k' = true
      · simp only [h2, if_true]
        refine List.pairwise_cons.mpr ⟨?_, List.pairwise_cons.mpr h⟩
        intro p hp
        rcases List.mem_cons.mp hp with hp | hp
        · subst hp; exact h2
        · exact bytesLt_trans h2 (h.1 p hp)
      · simp only [h2]
        refine List.pairwise_cons.mpr ⟨?_, KeySorted_objInsert k v h.2⟩
        intro p hp
        rcases mem_objInsert hp with hp | hp
        · subst hp
          rcases bytesLt_total k k' with h3 | h3 | h3
          · exact absurd h3 h2
          · exact absurd h3 h1
          · exact h3
        · exact h.1 p hp

theorem KeySorted_insertAll : ∀ kvs : List (Bytes × Val), KeySorted (insertAll kvs)
  | [] => List.Pairwise.nil
  | (k, v) :: kvs => KeySorted_objInsert k v (KeySorted_insertAll kvs)

/-! ## Part 2: when does `ievalFields` succeed, and with what -/

/-- every binding expression of `vars` evaluates (at `cur`, in `env`) to the value paired with its name in `kvs` -/
inductive EvalAll (root cur : Val) (env : Env) : List (Bytes × INode) → List (Bytes × Val) → Prop where
  | nil : EvalAll root cur env [] []
  | cons {k : Bytes} {n : INode} {v : Val} {vars : List (Bytes × INode)} {kvs : List (Bytes × Val)} :
      ieval root n cur env = .ok v → EvalAll root cur env vars kvs → EvalAll root cur env ((k, n) :: vars) ((k, v) :: kvs)

theorem EvalAll.names {root cur : Val} {env : Env} {vars : List (Bytes × INode)} {kvs : List (Bytes × Val)}
    (h : EvalAll root cur env vars kvs) : kvs.map Prod.fst = vars.map Prod.fst := by
  induction h with
  | nil => rfl
  | cons _ _ ih => simp [ih]

theorem combineUnordered_ok_iff (acc : Res (List (Bytes × Val))) (k : Bytes) (r : Res Val) (bs : List (Bytes × Val)) :
    combineUnordered acc k r = .ok bs ↔ ∃ kvs v, acc = .ok kvs ∧ r = .ok v ∧ bs = objInsert k v kvs := by
  cases acc <;> cases r <;> simp [combineUnordered, eq_comm]

/-- `ievalFields` succeeds exactly when every member expression succeeds in the *given* environment and current
    value; the result is the `objInsert`-fold of the (name, value) pairs -/
theorem ievalFields_ok_iff (root : Val) : ∀ (vars : List (Bytes × INode)) (cur : Val) (env : Env) (bs : List (Bytes × Val)),
    ievalFields root vars cur env = .ok bs ↔ ∃ kvs, EvalAll root cur env vars kvs ∧ bs = insertAll kvs
  | [], cur, env, bs => by
    simp only [ievalFields, Res.ok.injEq]
    constructor
    · intro h; exact ⟨[], .nil, h.symm⟩
    · rintro ⟨kvs, h, rfl⟩; cases h; rfl
  | (k, n) :: rest, cur, env, bs => by
    simp only [ievalFields, combineUnordered_ok_iff]
    constructor
    · rintro ⟨kvs', v, h1, h2, rfl⟩
      obtain ⟨kvs, hk, rfl⟩ := (ievalFields_ok_iff root rest cur env kvs').mp h1
      exact ⟨(k, v) :: kvs, .cons h2 hk, rfl⟩
    · rintro ⟨kvs, h, rfl⟩
      cases h with
      | cons h2 hk =>
        rename_i v kvs
        exact ⟨insertAll kvs, v, (ievalFields_ok_iff root rest cur env _).mpr ⟨kvs, hk, rfl⟩, h2, rfl⟩

/-- the names bound by a successful `ievalFields` are exactly the names of `vars` -/
theorem ievalFields_lookup_none {root : Val} {vars : List (Bytes × INode)} {cur : Val} {env : Env}
    {bs : List (Bytes × Val)} (h : ievalFields root vars cur env = .ok bs) (x : Bytes) :
    objLookup x bs = none ↔ x ∉ vars.map Prod.fst := by
  obtain ⟨kvs, hk, rfl⟩ := (ievalFields_ok_iff root vars cur env bs).mp h
  rw [objLookup_insertAll, objLookup_eq_none_iff, hk.names]

/-! ## Part 3: substitution -/

/-- does the binding list (re)bind `x`? -/
def bindsName (x : Bytes) (vars : List (Bytes × INode)) : Bool := vars.any (fun p => p.1 == x)

theorem bindsName_iff (x : Bytes) (vars : List (Bytes × INode)) : bindsName x vars = true ↔ x ∈ vars.map Prod.fst := by
  simp only [bindsName, List.any_eq_true, beq_iff_eq, List.mem_map]

mutual
/-- replace the free occurrences of `$x` by the literal `v`: substitution goes into the binding expressions of
    every `let` (they are evaluated in the outer scope) and stops at the body of a `let` that rebinds `x` -/
def INode.subst (x : Bytes) (v : Val) : INode → INode
  | .lit w => .lit w
  | .current => .current
  | .root => .root
  | .field k => .field k
  | .variable y => if y = x then .lit v else .variable y
  | .binop op l r => .binop op (l.subst x v) (r.subst x v)
  | .and l r => .and (l.subst x v) (r.subst x v)
  | .or l r => .or (l.subst x v) (r.subst x v)
  | .not c => .not (c.subst x v)
  | .negate c => .negate (c.subst x v)
  | .assertNumber c => .assertNumber (c.subst x v)
  | .call f args => .call f (substList x v args)
  | .defineVariables vars child =>
    .defineVariables (substFields x v vars) (if bindsName x vars then child else child.subst x v)
  | .filter c f => .filter (c.subst x v) (f.subst x v)
  | .filterCurrent f => .filterCurrent (f.subst x v)
  | .filterAndProject l f r => .filterAndProject (l.subst x v) (f.subst x v) (r.subst x v)
  | .filterAndProjectCurrent f c => .filterAndProjectCurrent (f.subst x v) (c.subst x v)
  | .flatten c => .flatten (c.subst x v)
  | .flattenCurrent => .flattenCurrent
  | .flattenAndProject l r => .flattenAndProject (l.subst x v) (r.subst x v)
  | .flattenAndProjectCurrent c => .flattenAndProjectCurrent (c.subst x v)
  | .index c i => .index (c.subst x v) i
  | .indexCurrent i => .indexCurrent i
  | .smallIndexCurrent i => .smallIndexCurrent i
  | .objectValues c => .objectValues (c.subst x v)
  | .objectValuesCurrent => .objectValuesCurrent
  | .pipe l r => .pipe (l.subst x v) (r.subst x v)
  | .projectArray l r => .projectArray (l.subst x v) (r.subst x v)
  | .projectArrayCurrent c => .projectArrayCurrent (c.subst x v)
  | .projectObject l r => .projectObject (l.subst x v) (r.subst x v)
  | .projectObjectCurrent c => .projectObjectCurrent (c.subst x v)
  | .pruneArray c => .pruneArray (c.subst x v)
  | .pruneArrayCurrent => .pruneArrayCurrent
  | .selectArray c fs => .selectArray (c.subst x v) (substList x v fs)
  | .selectArrayCurrent fs => .selectArrayCurrent (substList x v fs)
  | .selectArraySingle c f => .selectArraySingle (c.subst x v) (f.subst x v)
  | .selectArraySingleCurrent f => .selectArraySingleCurrent (f.subst x v)
  | .selectObject c fs => .selectObject (c.subst x v) (substFields x v fs)
  | .selectObjectCurrent fs => .selectObjectCurrent (substFields x v fs)
  | .selectObjectSingle c k f => .selectObjectSingle (c.subst x v) k (f.subst x v)
  | .selectObjectSingleCurrent k f => .selectObjectSingleCurrent k (f.subst x v)
  | .slice c a b => .slice (c.subst x v) a b
  | .sliceCurrent a b => .sliceCurrent a b
  | .sliceStep c a b s => .sliceStep (c.subst x v) a b s
  | .sliceStepCurrent a b s => .sliceStepCurrent a b s
  | .groupBy a e => .groupBy (a.subst x v) (e.subst x v)
  | .map e a => .map (e.subst x v) (a.subst x v)
  | .maxBy a e => .maxBy (a.subst x v) (e.subst x v)
  | .minBy a e => .minBy (a.subst x v) (e.subst x v)
  | .sortBy a e => .sortBy (a.subst x v) (e.subst x v)
  | .merge args => .merge (substList x v args)
  | .notNull args => .notNull (substList x v args)
  | .zip args => .zip (substList x v args)
def substList (x : Bytes) (v : Val) : List INode → List INode
  | [] => []
  | n :: ns => n.subst x v :: substList x v ns
def substFields (x : Bytes) (v : Val) : List (Bytes × INode) → List (Bytes × INode)
  | [] => []
  | (k, n) :: rest => (k, n.subst x v) :: substFields x v rest
end

theorem isSlice_subst (x : Bytes) (v : Val) (n : INode) : (n.subst x v).isSlice = n.isSlice := by
  cases n <;> simp only [INode.subst, INode.isSlice]
  · rename_i y
    by_cases h : y = x <;> simp only [h, if_true, if_false]


/-! ### the substitution lemma -/

mutual
/-- **Substitution lemma.**  If the environment binds `x` to `v`, every free occurrence of `$x` in `n` — however deep
    inside projections, filters, pipes, multi-selects, expression references or the binding expressions of inner
    lets — may be replaced by the literal `v` without changing the outcome. -/
theorem ieval_subst (root : Val) (x : Bytes) (v : Val) : (n : INode) → (cur : Val) → (env : Env) →
    env.get x = some v → ieval root (n.subst x v) cur env = ieval root n cur env
  | .lit w, cur, env, h => by simp only [INode.subst]
  | .current, cur, env, h => by simp only [INode.subst]
  | .root, cur, env, h => by simp only [INode.subst]
  | .field k, cur, env, h => by simp only [INode.subst]
  | .flattenCurrent, cur, env, h => by simp only [INode.subst]
  | .indexCurrent i, cur, env, h => by simp only [INode.subst]
  | .smallIndexCurrent i, cur, env, h => by simp only [INode.subst]
  | .objectValuesCurrent, cur, env, h => by simp only [INode.subst]
  | .pruneArrayCurrent, cur, env, h => by simp only [INode.subst]
  | .sliceCurrent a b, cur, env, h => by simp only [INode.subst]
  | .sliceStepCurrent a b s, cur, env, h => by simp only [INode.subst]
  | .variable y, cur, env, h => by
    simp only [INode.subst]
    by_cases hy : y = x
    · subst hy
      simp only [if_true, ieval, h]
    · simp only [hy, if_false]
  | .binop op l r, cur, env, h => by
    simp only [INode.subst, ieval, fun cc => ieval_subst root x v l cc env h, fun cc => ieval_subst root x v r cc env h]
  | .and l r, cur, env, h => by
    simp only [INode.subst, ieval, fun cc => ieval_subst root x v l cc env h, fun cc => ieval_subst root x v r cc env h]
  | .or l r, cur, env, h => by
    simp only [INode.subst, ieval, fun cc => ieval_subst root x v l cc env h, fun cc => ieval_subst root x v r cc env h]
  | .not c, cur, env, h => by
    simp only [INode.subst, ieval, fun cc => ieval_subst root x v c cc env h]
  | .negate c, cur, env, h => by
    simp only [INode.subst, ieval, fun cc => ieval_subst root x v c cc env h]
  | .assertNumber c, cur, env, h => by
    simp only [INode.subst, ieval, fun cc => ieval_subst root x v c cc env h]
  | .call f args, cur, env, h => by
    simp only [INode.subst, ieval, fun cc => ievalList_subst root x v args cc env h]
  | .filter c f, cur, env, h => by
    simp only [INode.subst, ieval, fun cc => ieval_subst root x v c cc env h, fun cc => ieval_subst root x v f cc env h]
  | .filterCurrent f, cur, env, h => by
    simp only [INode.subst, ieval, fun cc => ieval_subst root x v f cc env h]
  | .filterAndProject l f r, cur, env, h => by
    simp only [INode.subst, ieval, fun cc => ieval_subst root x v l cc env h, fun cc => ieval_subst root x v f cc env h, fun cc => ieval_subst root x v r cc env h]
  | .filterAndProjectCurrent f c, cur, env, h => by
    simp only [INode.subst, ieval, fun cc => ieval_subst root x v f cc env h, fun cc => ieval_subst root x v c cc env h]
  | .flatten c, cur, env, h => by
    simp only [INode.subst, ieval, fun cc => ieval_subst root x v c cc env h]
  | .flattenAndProject l r, cur, env, h => by
    simp only [INode.subst, ieval, fun cc => ieval_subst root x v l cc env h, fun cc => ieval_subst root x v r cc env h]
  | .flattenAndProjectCurrent c, cur, env, h => by
    simp only [INode.subst, ieval, fun cc => ieval_subst root x v c cc env h]
  | .index c i, cur, env, h => by
    simp only [INode.subst, ieval, fun cc => ieval_subst root x v c cc env h]
  | .objectValues c, cur, env, h => by
    simp only [INode.subst, ieval, fun cc => ieval_subst root x v c cc env h]
  | .pipe l r, cur, env, h => by
    simp only [INode.subst, ieval, fun cc => ieval_subst root x v l cc env h, fun cc => ieval_subst root x v r cc env h]
  | .projectArray l r, cur, env, h => by
    simp only [INode.subst, ieval, isSlice_subst, fun cc => ieval_subst root x v l cc env h, fun cc => ieval_subst root x v r cc env h]
  | .projectArrayCurrent c, cur, env, h => by
    simp only [INode.subst, ieval, fun cc => ieval_subst root x v c cc env h]
  | .projectObject l r, cur, env, h => by
    simp only [INode.subst, ieval, fun cc => ieval_subst root x v l cc env h, fun cc => ieval_subst root x v r cc env h]
  | .projectObjectCurrent c, cur, env, h => by
    simp only [INode.subst, ieval, fun cc => ieval_subst root x v c cc env h]
  | .pruneArray c, cur, env, h => by
    simp only [INode.subst, ieval, fun cc => ieval_subst root x v c cc env h]
  | .selectArray c fs, cur, env, h => by
    simp only [INode.subst, ieval, fun cc => ieval_subst root x v c cc env h, fun cc => ievalList_subst root x v fs cc env h]
  | .selectArrayCurrent fs, cur, env, h => by
    simp only [INode.subst, ieval, fun cc => ievalList_subst root x v fs cc env h]
  | .selectArraySingle c f, cur, env, h => by
    simp only [INode.subst, ieval, fun cc => ieval_subst root x v c cc env h, fun cc => ieval_subst root x v f cc env h]
  | .selectArraySingleCurrent f, cur, env, h => by
    simp only [INode.subst, ieval, fun cc => ieval_subst root x v f cc env h]
  | .selectObject c fs, cur, env, h => by
    simp only [INode.subst, ieval, fun cc => ieval_subst root x v c cc env h, fun cc => ievalFields_subst root x v fs cc env h]
  | .selectObjectCurrent fs, cur, env, h => by
    simp only [INode.subst, ieval, fun cc => ievalFields_subst root x v fs cc env h]
  | .selectObjectSingle c k f, cur, env, h => by
    simp only [INode.subst, ieval, fun cc => ieval_subst root x v c cc env h, fun cc => ieval_subst root x v f cc env h]
  | .selectObjectSingleCurrent k f, cur, env, h => by
    simp only [INode.subst, ieval, fun cc => ieval_subst root x v f cc env h]
  | .slice c a b, cur, env, h => by
    simp only [INode.subst, ieval, fun cc => ieval_subst root x v c cc env h]
  | .sliceStep c a b s, cur, env, h => by
    simp only [INode.subst, ieval, fun cc => ieval_subst root x v c cc env h]
  | .groupBy a e, cur, env, h => by
    simp only [INode.subst, ieval, fun cc => ieval_subst root x v a cc env h, fun cc => ieval_subst root x v e cc env h]
  | .map e a, cur, env, h => by
    simp only [INode.subst, ieval, fun cc => ieval_subst root x v e cc env h, fun cc => ieval_subst root x v a cc env h]
  | .maxBy a e, cur, env, h => by
    simp only [INode.subst, ieval, fun cc => ieval_subst root x v a cc env h, fun cc => ieval_subst root x v e cc env h]
  | .minBy a e, cur, env, h => by
    simp only [INode.subst, ieval, fun cc => ieval_subst root x v a cc env h, fun cc => ieval_subst root x v e cc env h]
  | .sortBy a e, cur, env, h => by
    simp only [INode.subst, ieval, fun cc => ieval_subst root x v a cc env h, fun cc => ieval_subst root x v e cc env h]
  | .merge args, cur, env, h => by
    simp only [INode.subst, ieval, fun cc acc => ievalMerge_subst root x v args cc env acc h]
  | .notNull args, cur, env, h => by
    simp only [INode.subst, ieval, fun cc => ievalNotNull_subst root x v args cc env h]
  | .zip args, cur, env, h => by
    simp only [INode.subst, ieval, fun cc => ievalZip_subst root x v args cc env h]
  | .defineVariables vars child, cur, env, h => by
    simp only [INode.subst, ieval, ievalFields_subst root x v vars cur env h]
    cases hb : ievalFields root vars cur env with
    | ok bs =>
      simp only [Res.ok_bind]
      cases hn : bindsName x vars with
      | true => simp only [if_true]
      | false =>
        simp only [Bool.false_eq_true, if_false]
        apply ieval_subst root x v child cur (bs ++ env)
        have hnone : objLookup x bs = none := by
          rw [ievalFields_lookup_none hb, ← bindsName_iff, hn]
          simp
        simp only [Env.get] at h ⊢
        rw [objLookup_append, hnone]
        exact h
    | err c => rfl
    | panic w => rfl
    | nondet => rfl
    | unmodelled w => rfl
theorem ievalList_subst (root : Val) (x : Bytes) (v : Val) : (ns : List INode) → (cur : Val) → (env : Env) →
    env.get x = some v → ievalList root (substList x v ns) cur env = ievalList root ns cur env
  | [], cur, env, h => by simp only [substList]
  | n :: ns, cur, env, h => by
    simp only [substList, ievalList, ieval_subst root x v n cur env h, ievalList_subst root x v ns cur env h]
theorem ievalFields_subst (root : Val) (x : Bytes) (v : Val) : (fs : List (Bytes × INode)) → (cur : Val) → (env : Env) →
    env.get x = some v → ievalFields root (substFields x v fs) cur env = ievalFields root fs cur env
  | [], cur, env, h => by simp only [substFields]
  | (k, n) :: rest, cur, env, h => by
    simp only [substFields, ievalFields, ieval_subst root x v n cur env h, ievalFields_subst root x v rest cur env h]
theorem ievalMerge_subst (root : Val) (x : Bytes) (v : Val) : (ns : List INode) → (cur : Val) → (env : Env) →
    (acc : List (Bytes × Val)) →
    env.get x = some v → ievalMerge root (substList x v ns) cur env acc = ievalMerge root ns cur env acc
  | [], cur, env, acc, h => by simp only [substList]
  | n :: ns, cur, env, acc, h => by
    simp only [substList, ievalMerge, ieval_subst root x v n cur env h,
      fun acc => ievalMerge_subst root x v ns cur env acc h]
theorem ievalNotNull_subst (root : Val) (x : Bytes) (v : Val) : (ns : List INode) → (cur : Val) → (env : Env) →
    env.get x = some v → ievalNotNull root (substList x v ns) cur env = ievalNotNull root ns cur env
  | [], cur, env, h => by simp only [substList]
  | n :: ns, cur, env, h => by
    simp only [substList, ievalNotNull, ieval_subst root x v n cur env h, ievalNotNull_subst root x v ns cur env h]
theorem ievalZip_subst (root : Val) (x : Bytes) (v : Val) : (ns : List INode) → (cur : Val) → (env : Env) →
    env.get x = some v → ievalZip root (substList x v ns) cur env = ievalZip root ns cur env
  | [], cur, env, h => by simp only [substList]
  | n :: ns, cur, env, h => by
    simp only [substList, ievalZip, ieval_subst root x v n cur env h, ievalZip_subst root x v ns cur env h]
end


/-! ### the evaluator only looks names up: extensionally equal environments are interchangeable -/

theorem get_append_congr {env env' : Env} (h : ∀ y, env.get y = env'.get y) (bs : List (Bytes × Val)) :
    ∀ y, Env.get (bs ++ env) y = Env.get (bs ++ env') y := by
  intro y
  have := h y
  simp only [Env.get] at this ⊢
  rw [objLookup_append, objLookup_append, this]

mutual
theorem ieval_env_ext (root : Val) : (n : INode) → (cur : Val) → (env env' : Env) →
    (∀ y, env.get y = env'.get y) → ieval root n cur env = ieval root n cur env'
  | .lit w, cur, env, env', h => by simp only [ieval]
  | .current, cur, env, env', h => by simp only [ieval]
  | .root, cur, env, env', h => by simp only [ieval]
  | .field k, cur, env, env', h => by simp only [ieval]
  | .flattenCurrent, cur, env, env', h => by simp only [ieval]
  | .indexCurrent i, cur, env, env', h => by simp only [ieval]
  | .smallIndexCurrent i, cur, env, env', h => by simp only [ieval]
  | .objectValuesCurrent, cur, env, env', h => by simp only [ieval]
  | .pruneArrayCurrent, cur, env, env', h => by simp only [ieval]
  | .sliceCurrent a b, cur, env, env', h => by simp only [ieval]
  | .sliceStepCurrent a b s, cur, env, env', h => by simp only [ieval]
  | .variable y, cur, env, env', h => by simp only [ieval, h y]
  | .binop op l r, cur, env, env', h => by
    simp only [ieval, fun cc => ieval_env_ext root l cc env env' h, fun cc => ieval_env_ext root r cc env env' h]
  | .and l r, cur, env, env', h => by
    simp only [ieval, fun cc => ieval_env_ext root l cc env env' h, fun cc => ieval_env_ext root r cc env env' h]
  | .or l r, cur, env, env', h => by
    simp only [ieval, fun cc => ieval_env_ext root l cc env env' h, fun cc => ieval_env_ext root r cc env env' h]
  | .not c, cur, env, env', h => by
    simp only [ieval, fun cc => ieval_env_ext root c cc env env' h]
  | .negate c, cur, env, env', h => by
    simp only [ieval, fun cc => ieval_env_ext root c cc env env' h]
  | .assertNumber c, cur, env, env', h => by
    simp only [ieval, fun cc => ieval_env_ext root c cc env env' h]
  | .call f args, cur, env, env', h => by
    simp only [ieval, fun cc => ievalList_env_ext root args cc env env' h]
  | .filter c f, cur, env, env', h => by
    simp only [ieval, fun cc => ieval_env_ext root c cc env env' h, fun cc => ieval_env_ext root f cc env env' h]
  | .filterCurrent f, cur, env, env', h => by
    simp only [ieval, fun cc => ieval_env_ext root f cc env env' h]
  | .filterAndProject l f r, cur, env, env', h => by
    simp only [ieval, fun cc => ieval_env_ext root l cc env env' h, fun cc => ieval_env_ext root f cc env env' h, fun cc => ieval_env_ext root r cc env env' h]
  | .filterAndProjectCurrent f c, cur, env, env', h => by
    simp only [ieval, fun cc => ieval_env_ext root f cc env env' h, fun cc => ieval_env_ext root c cc env env' h]
  | .flatten c, cur, env, env', h => by
    simp only [ieval, fun cc => ieval_env_ext root c cc env env' h]
  | .flattenAndProject l r, cur, env, env', h => by
    simp only [ieval, fun cc => ieval_env_ext root l cc env env' h, fun cc => ieval_env_ext root r cc env env' h]
  | .flattenAndProjectCurrent c, cur, env, env', h => by
    simp only [ieval, fun cc => ieval_env_ext root c cc env env' h]
  | .index c i, cur, env, env', h => by
    simp only [ieval, fun cc => ieval_env_ext root c cc env env' h]
  | .objectValues c, cur, env, env', h => by
    simp only [ieval, fun cc => ieval_env_ext root c cc env env' h]
  | .pipe l r, cur, env, env', h => by
    simp only [ieval, fun cc => ieval_env_ext root l cc env env' h, fun cc => ieval_env_ext root r cc env env' h]
  | .projectArray l r, cur, env, env', h => by
    simp only [ieval, fun cc => ieval_env_ext root l cc env env' h, fun cc => ieval_env_ext root r cc env env' h]
  | .projectArrayCurrent c, cur, env, env', h => by
    simp only [ieval, fun cc => ieval_env_ext root c cc env env' h]
  | .projectObject l r, cur, env, env', h => by
    simp only [ieval, fun cc => ieval_env_ext root l cc env env' h, fun cc => ieval_env_ext root r cc env env' h]
  | .projectObjectCurrent c, cur, env, env', h => by
    simp only [ieval, fun cc => ieval_env_ext root c cc env env' h]
  | .pruneArray c, cur, env, env', h => by
    simp only [ieval, fun cc => ieval_env_ext root c cc env env' h]
  | .selectArray c fs, cur, env, env', h => by
    simp only [ieval, fun cc => ieval_env_ext root c cc env env' h, fun cc => ievalList_env_ext root fs cc env env' h]
  | .selectArrayCurrent fs, cur, env, env', h => by
    simp only [ieval, fun cc => ievalList_env_ext root fs cc env env' h]
  | .selectArraySingle c f, cur, env, env', h => by
    simp only [ieval, fun cc => ieval_env_ext root c cc env env' h, fun cc => ieval_env_ext root f cc env env' h]
  | .selectArraySingleCurrent f, cur, env, env', h => by
    simp only [ieval, fun cc => ieval_env_ext root f cc env env' h]
  | .selectObject c fs, cur, env, env', h => by
    simp only [ieval, fun cc => ieval_env_ext root c cc env env' h, fun cc => ievalFields_env_ext root fs cc env env' h]
  | .selectObjectCurrent fs, cur, env, env', h => by
    simp only [ieval, fun cc => ievalFields_env_ext root fs cc env env' h]
  | .selectObjectSingle c k f, cur, env, env', h => by
    simp only [ieval, fun cc => ieval_env_ext root c cc env env' h, fun cc => ieval_env_ext root f cc env env' h]
  | .selectObjectSingleCurrent k f, cur, env, env', h => by
    simp only [ieval, fun cc => ieval_env_ext root f cc env env' h]
  | .slice c a b, cur, env, env', h => by
    simp only [ieval, fun cc => ieval_env_ext root c cc env env' h]
  | .sliceStep c a b s, cur, env, env', h => by
    simp only [ieval, fun cc => ieval_env_ext root c cc env env' h]
  | .groupBy a e, cur, env, env', h => by
    simp only [ieval, fun cc => ieval_env_ext root a cc env env' h, fun cc => ieval_env_ext root e cc env env' h]
  | .map e a, cur, env, env', h => by
    simp only [ieval, fun cc => ieval_env_ext root e cc env env' h, fun cc => ieval_env_ext root a cc env env' h]
  | .maxBy a e, cur, env, env', h => by
    simp only [ieval, fun cc => ieval_env_ext root a cc env env' h, fun cc => ieval_env_ext root e cc env env' h]
  | .minBy a e, cur, env, env', h => by
    simp only [ieval, fun cc => ieval_env_ext root a cc env env' h, fun cc => ieval_env_ext root e cc env env' h]
  | .sortBy a e, cur, env, env', h => by
    simp only [ieval, fun cc => ieval_env_ext root a cc env env' h, fun cc => ieval_env_ext root e cc env env' h]
  | .merge args, cur, env, env', h => by
    simp only [ieval, fun cc acc => ievalMerge_env_ext root args cc env env' acc h]
  | .notNull args, cur, env, env', h => by
    simp only [ieval, fun cc => ievalNotNull_env_ext root args cc env env' h]
  | .zip args, cur, env, env', h => by
    simp only [ieval, fun cc => ievalZip_env_ext root args cc env env' h]
  | .defineVariables vars child, cur, env, env', h => by
    simp only [ieval, ievalFields_env_ext root vars cur env env' h]
    apply Res.bind_congr
    intro bs
    exact ieval_env_ext root child cur (bs ++ env) (bs ++ env') (get_append_congr h bs)
theorem ievalList_env_ext (root : Val) : (ns : List INode) → (cur : Val) → (env env' : Env) →
    (∀ y, env.get y = env'.get y) → ievalList root ns cur env = ievalList root ns cur env'
  | [], cur, env, env', h => by simp only [ievalList]
  | n :: ns, cur, env, env', h => by
    simp only [ievalList, ieval_env_ext root n cur env env' h, ievalList_env_ext root ns cur env env' h]
theorem ievalFields_env_ext (root : Val) : (fs : List (Bytes × INode)) → (cur : Val) → (env env' : Env) →
    (∀ y, env.get y = env'.get y) → ievalFields root fs cur env = ievalFields root fs cur env'
  | [], cur, env, env', h => by simp only [ievalFields]
  | (k, n) :: rest, cur, env, env', h => by
    simp only [ievalFields, ieval_env_ext root n cur env env' h, ievalFields_env_ext root rest cur env env' h]
theorem ievalMerge_env_ext (root : Val) : (ns : List INode) → (cur : Val) → (env env' : Env) →
    (acc : List (Bytes × Val)) →
    (∀ y, env.get y = env'.get y) → ievalMerge root ns cur env acc = ievalMerge root ns cur env' acc
  | [], cur, env, env', acc, h => by simp only [ievalMerge]
  | n :: ns, cur, env, env', acc, h => by
    simp only [ievalMerge, ieval_env_ext root n cur env env' h,
      fun acc => ievalMerge_env_ext root ns cur env env' acc h]
theorem ievalNotNull_env_ext (root : Val) : (ns : List INode) → (cur : Val) → (env env' : Env) →
    (∀ y, env.get y = env'.get y) → ievalNotNull root ns cur env = ievalNotNull root ns cur env'
  | [], cur, env, env', h => by simp only [ievalNotNull]
  | n :: ns, cur, env, env', h => by
    simp only [ievalNotNull, ieval_env_ext root n cur env env' h, ievalNotNull_env_ext root ns cur env env' h]
theorem ievalZip_env_ext (root : Val) : (ns : List INode) → (cur : Val) → (env env' : Env) →
    (∀ y, env.get y = env'.get y) → ievalZip root ns cur env = ievalZip root ns cur env'
  | [], cur, env, env', h => by simp only [ievalZip]
  | n :: ns, cur, env, env', h => by
    simp only [ievalZip, ieval_env_ext root n cur env env' h, ievalZip_env_ext root ns cur env env' h]
end

/-! ### substitution removes the dependence on the binding -/

mutual
/-- **Substitution lemma, strong form.**  After substituting `v` for `$x`, the binding of `x` is no longer consulted:
    the substituted expression may be evaluated in any environment `env'` that agrees with `env` on all *other*
    names (for instance `env` with the binding of `x` removed, or shadowed by something else). -/
theorem ieval_subst_gen (root : Val) (x : Bytes) (v : Val) : (n : INode) → (cur : Val) → (env env' : Env) →
    env.get x = some v → (∀ y, y ≠ x → env'.get y = env.get y) →
    ieval root (n.subst x v) cur env' = ieval root n cur env
  | .lit w, cur, env, env', h, h' => by simp only [INode.subst, ieval]
  | .current, cur, env, env', h, h' => by simp only [INode.subst, ieval]
  | .root, cur, env, env', h, h' => by simp only [INode.subst, ieval]
  | .field k, cur, env, env', h, h' => by simp only [INode.subst, ieval]
  | .flattenCurrent, cur, env, env', h, h' => by simp only [INode.subst, ieval]
  | .indexCurrent i, cur, env, env', h, h' => by simp only [INode.subst, ieval]
  | .smallIndexCurrent i, cur, env, env', h, h' => by simp only [INode.subst, ieval]
  | .objectValuesCurrent, cur, env, env', h, h' => by simp only [INode.subst, ieval]
  | .pruneArrayCurrent, cur, env, env', h, h' => by simp only [INode.subst, ieval]
  | .sliceCurrent a b, cur, env, env', h, h' => by simp only [INode.subst, ieval]
  | .sliceStepCurrent a b s, cur, env, env', h, h' => by simp only [INode.subst, ieval]
  | .variable y, cur, env, env', h, h' => by
    simp only [INode.subst]
    by_cases hy : y = x
    · subst hy
      simp only [if_true, ieval, h]
    · simp only [hy, if_false, ieval, h' y hy]
  | .binop op l r, cur, env, env', h, h' => by
    simp only [INode.subst, ieval, fun cc => ieval_subst_gen root x v l cc env env' h h', fun cc => ieval_subst_gen root x v r cc env env' h h']
  | .and l r, cur, env, env', h, h' => by
    simp only [INode.subst, ieval, fun cc => ieval_subst_gen root x v l cc env env' h h', fun cc => ieval_subst_gen root x v r cc env env' h h']
  | .or l r, cur, env, env', h, h' => by
    simp only [INode.subst, ieval, fun cc => ieval_subst_gen root x v l cc env env' h h', fun cc => ieval_subst_gen root x v r cc env env' h h']
  | .not c, cur, env, env', h, h' => by
    simp only [INode.subst, ieval, fun cc => ieval_subst_gen root x v c cc env env' h h']
  | .negate c, cur, env, env', h, h' => by
    simp only [INode.subst, ieval, fun cc => ieval_subst_gen root x v c cc env env' h h']
  | .assertNumber c, cur, env, env', h, h' => by
    simp only [INode.subst, ieval, fun cc => ieval_subst_gen root x v c cc env env' h h']
  | .call f args, cur, env, env', h, h' => by
    simp only [INode.subst, ieval, fun cc => ievalList_subst_gen root x v args cc env env' h h']
  | .filter c f, cur, env, env', h, h' => by
    simp only [INode.subst, ieval, fun cc => ieval_subst_gen root x v c cc env env' h h', fun cc => ieval_subst_gen root x v f cc env env' h h']
  | .filterCurrent f, cur, env, env', h, h' => by
    simp only [INode.subst, ieval, fun cc => ieval_subst_gen root x v f cc env env' h h']
  | .filterAndProject l f r, cur, env, env', h, h' => by
    simp only [INode.subst, ieval, fun cc => ieval_subst_gen root x v l cc env env' h h', fun cc => ieval_subst_gen root x v f cc env env' h h', fun cc => ieval_subst_gen root x v r cc env env' h h']
  | .filterAndProjectCurrent f c, cur, env, env', h, h' => by
    simp only [INode.subst, ieval, fun cc => ieval_subst_gen root x v f cc env env' h h', fun cc => ieval_subst_gen root x v c cc env env' h h']
  | .flatten c, cur, env, env', h, h' => by
    simp only [INode.subst, ieval, fun cc => ieval_subst_gen root x v c cc env env' h h']
  | .flattenAndProject l r, cur, env, env', h, h' => by
    simp only [INode.subst, ieval, fun cc => ieval_subst_gen root x v l cc env env' h h', fun cc => ieval_subst_gen root x v r cc env env' h h']
  | .flattenAndProjectCurrent c, cur, env, env', h, h' => by
    simp only [INode.subst, ieval, fun cc => ieval_subst_gen root x v c cc env env' h h']
  | .index c i, cur, env, env', h, h' => by
    simp only [INode.subst, ieval, fun cc => ieval_subst_gen root x v c cc env env' h h']
  | .objectValues c, cur, env, env', h, h' => by
    simp only [INode.subst, ieval, fun cc => ieval_subst_gen root x v c cc env env' h h']
  | .pipe l r, cur, env, env', h, h' => by
    simp only [INode.subst, ieval, fun cc => ieval_subst_gen root x v l cc env env' h h', fun cc => ieval_subst_gen root x v r cc env env' h h']
  | .projectArray l r, cur, env, env', h, h' => by
    simp only [INode.subst, ieval, isSlice_subst, fun cc => ieval_subst_gen root x v l cc env env' h h', fun cc => ieval_subst_gen root x v r cc env env' h h']
  | .projectArrayCurrent c, cur, env, env', h, h' => by
    simp only [INode.subst, ieval, fun cc => ieval_subst_gen root x v c cc env env' h h']
  | .projectObject l r, cur, env, env', h, h' => by
    simp only [INode.subst, ieval, fun cc => ieval_subst_gen root x v l cc env env' h h', fun cc => ieval_subst_gen root x v r cc env env' h h']
  | .projectObjectCurrent c, cur, env, env', h, h' => by
    simp only [INode.subst, ieval, fun cc => ieval_subst_gen root x v c cc env env' h h']
  | .pruneArray c, cur, env, env', h, h' => by
    simp only [INode.subst, ieval, fun cc => ieval_subst_gen root x v c cc env env' h h']
  | .selectArray c fs, cur, env, env', h, h' => by
    simp only [INode.subst, ieval, fun cc => ieval_subst_gen root x v c cc env env' h h', fun cc => ievalList_subst_gen root x v fs cc env env' h h']
  | .selectArrayCurrent fs, cur, env, env', h, h' => by
    simp only [INode.subst, ieval, fun cc => ievalList_subst_gen root x v fs cc env env' h h']
  | .selectArraySingle c f, cur, env, env', h, h' => by
    simp only [INode.subst, ieval, fun cc => ieval_subst_gen root x v c cc env env' h h', fun cc => ieval_subst_gen root x v f cc env env' h h']
  | .selectArraySingleCurrent f, cur, env, env', h, h' => by
    simp only [INode.subst, ieval, fun cc => ieval_subst_gen root x v f cc env env' h h']
  | .selectObject c fs, cur, env, env', h, h' => by
    simp only [INode.subst, ieval, fun cc => ieval_subst_gen root x v c cc env env' h h', fun cc => ievalFields_subst_gen root x v fs cc env env' h h']
  | .selectObjectCurrent fs, cur, env, env', h, h' => by
    simp only [INode.subst, ieval, fun cc => ievalFields_subst_gen root x v fs cc env env' h h']
  | .selectObjectSingle c k f, cur, env, env', h, h' => by
    simp only [INode.subst, ieval, fun cc => ieval_subst_gen root x v c cc env env' h h', fun cc => ieval_subst_gen root x v f cc env env' h h']
  | .selectObjectSingleCurrent k f, cur, env, env', h, h' => by
    simp only [INode.subst, ieval, fun cc => ieval_subst_gen root x v f cc env env' h h']
  | .slice c a b, cur, env, env', h, h' => by
    simp only [INode.subst, ieval, fun cc => ieval_subst_gen root x v c cc env env' h h']
  | .sliceStep c a b s, cur, env, env', h, h' => by
    simp only [INode.subst, ieval, fun cc => ieval_subst_gen root x v c cc env env' h h']
  | .groupBy a e, cur, env, env', h, h' => by
    simp only [INode.subst, ieval, fun cc => ieval_subst_gen root x v a cc env env' h h', fun cc => ieval_subst_gen root x v e cc env env' h h']
  | .map e a, cur, env, env', h, h' => by
    simp only [INode.subst, ieval, fun cc => ieval_subst_gen root x v e cc env env' h h', fun cc => ieval_subst_gen root x v a cc env env' h h']
  | .maxBy a e, cur, env, env', h, h' => by
    simp only [INode.subst, ieval, fun cc => ieval_subst_gen root x v a cc env env' h h', fun cc => ieval_subst_gen root x v e cc env env' h h']
  | .minBy a e, cur, env, env', h, h' => by
    simp only [INode.subst, ieval, fun cc => ieval_subst_gen root x v a cc env env' h h', fun cc => ieval_subst_gen root x v e cc env env' h h']
  | .sortBy a e, cur, env, env', h, h' => by
    simp only [INode.subst, ieval, fun cc => ieval_subst_gen root x v a cc env env' h h', fun cc => ieval_subst_gen root x v e cc env env' h h']
  | .merge args, cur, env, env', h, h' => by
    simp only [INode.subst, ieval, fun cc acc => ievalMerge_subst_gen root x v args cc env env' acc h h']
  | .notNull args, cur, env, env', h, h' => by
    simp only [INode.subst, ieval, fun cc => ievalNotNull_subst_gen root x v args cc env env' h h']
  | .zip args, cur, env, env', h, h' => by
    simp only [INode.subst, ieval, fun cc => ievalZip_subst_gen root x v args cc env env' h h']
  | .defineVariables vars child, cur, env, env', h, h' => by
    simp only [INode.subst, ieval, ievalFields_subst_gen root x v vars cur env env' h h']
    cases hb : ievalFields root vars cur env with
    | ok bs =>
      simp only [Res.ok_bind]
      have hy : ∀ y, y ≠ x → Env.get (bs ++ env') y = Env.get (bs ++ env) y := by
        intro y hy
        have := h' y hy
        simp only [Env.get] at this ⊢
        rw [objLookup_append, objLookup_append, this]
      cases hn : bindsName x vars with
      | true =>
        simp only [if_true]
        apply ieval_env_ext
        intro y
        by_cases hyx : y = x
        · subst hyx
          have hsome : objLookup y bs ≠ none := by
            rw [Ne, ievalFields_lookup_none hb, ← bindsName_iff, hn]
            simp
          simp only [Env.get]
          rw [objLookup_append, objLookup_append]
          cases hl : objLookup y bs with
          | none => exact absurd hl hsome
          | some w => rfl
        · exact hy y hyx
      | false =>
        simp only [Bool.false_eq_true, if_false]
        apply ieval_subst_gen root x v child cur (bs ++ env) (bs ++ env') _ hy
        have hnone : objLookup x bs = none := by
          rw [ievalFields_lookup_none hb, ← bindsName_iff, hn]
          simp
        simp only [Env.get] at h ⊢
        rw [objLookup_append, hnone]
        exact h
    | err c => rfl
    | panic w => rfl
    | nondet => rfl
    | unmodelled w => rfl
theorem ievalList_subst_gen (root : Val) (x : Bytes) (v : Val) : (ns : List INode) → (cur : Val) → (env env' : Env) →
    env.get x = some v → (∀ y, y ≠ x → env'.get y = env.get y) →
    ievalList root (substList x v ns) cur env' = ievalList root ns cur env
  | [], cur, env, env', h, h' => by simp only [substList, ievalList]
  | n :: ns, cur, env, env', h, h' => by
    simp only [substList, ievalList, ieval_subst_gen root x v n cur env env' h h',
      ievalList_subst_gen root x v ns cur env env' h h']
theorem ievalFields_subst_gen (root : Val) (x : Bytes) (v : Val) : (fs : List (Bytes × INode)) → (cur : Val) →
    (env env' : Env) → env.get x = some v → (∀ y, y ≠ x → env'.get y = env.get y) →
    ievalFields root (substFields x v fs) cur env' = ievalFields root fs cur env
  | [], cur, env, env', h, h' => by simp only [substFields, ievalFields]
  | (k, n) :: rest, cur, env, env', h, h' => by
    simp only [substFields, ievalFields, ieval_subst_gen root x v n cur env env' h h',
      ievalFields_subst_gen root x v rest cur env env' h h']
theorem ievalMerge_subst_gen (root : Val) (x : Bytes) (v : Val) : (ns : List INode) → (cur : Val) → (env env' : Env) →
    (acc : List (Bytes × Val)) → env.get x = some v → (∀ y, y ≠ x → env'.get y = env.get y) →
    ievalMerge root (substList x v ns) cur env' acc = ievalMerge root ns cur env acc
  | [], cur, env, env', acc, h, h' => by simp only [substList, ievalMerge]
  | n :: ns, cur, env, env', acc, h, h' => by
    simp only [substList, ievalMerge, ieval_subst_gen root x v n cur env env' h h',
      fun acc => ievalMerge_subst_gen root x v ns cur env env' acc h h']
theorem ievalNotNull_subst_gen (root : Val) (x : Bytes) (v : Val) : (ns : List INode) → (cur : Val) → (env env' : Env) →
    env.get x = some v → (∀ y, y ≠ x → env'.get y = env.get y) →
    ievalNotNull root (substList x v ns) cur env' = ievalNotNull root ns cur env
  | [], cur, env, env', h, h' => by simp only [substList, ievalNotNull]
  | n :: ns, cur, env, env', h, h' => by
    simp only [substList, ievalNotNull, ieval_subst_gen root x v n cur env env' h h',
      ievalNotNull_subst_gen root x v ns cur env env' h h']
theorem ievalZip_subst_gen (root : Val) (x : Bytes) (v : Val) : (ns : List INode) → (cur : Val) → (env env' : Env) →
    env.get x = some v → (∀ y, y ≠ x → env'.get y = env.get y) →
    ievalZip root (substList x v ns) cur env' = ievalZip root ns cur env
  | [], cur, env, env', h, h' => by simp only [substList, ievalZip]
  | n :: ns, cur, env, env', h, h' => by
    simp only [substList, ievalZip, ieval_subst_gen root x v n cur env env' h h',
      ievalZip_subst_gen root x v ns cur env env' h h']
end

end Jmes
