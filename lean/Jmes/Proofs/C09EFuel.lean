/-
  C09, fifth wave — THE FUEL IS NEVER EXHAUSTED.

  `forT guard body n s` / `forBrkT body n s` (Jmes/Proofs/C09CTick.lean) stop silently when their counter `n` runs
  out.  For a Go loop with a real counter (`for k := 0; k < i; k++`, `for _, x := range a`) that is the Go semantics.
  But several mirrors of a Go `for cond { … }` / `for { … }` loop pass as the counter "a bound that is never reached"
  (`len(s)`, `len(s) + 1`): if that bound WERE reached, the mirror would return early where Go goes on, and both the
  result and the cost theorems would be about a different loop.

  This file proves, for each such loop and AT THE FUEL ITS CALL SITE PASSES, that the loop is left through its own
  guard / `break` / `return`, never through the counter:

    * for `forT g b n s`: the final state `s'` has `g s' = false`              (`forT_exits_of_measure`)
      and result and cost are the same for every larger counter                (`forT_fuel_irrelevant`);
    * for `forBrkT b n s`: the outcome is `.brk _`                             (`forBrkT_brk_of_measure`).

  Where running to the end of the counter IS the Go semantics (the naive `strings.Index` / `strings.LastIndex` over
  the `len(s) + 1` candidate offsets, `strings.Replace`'s `for i := 0; i < n; i++`, `for i < n` of `split`, the
  `range` loop of `join`) the theorem says so and states what the counter's end means.

  One loop CAN exhaust its fuel: `countLoopT` with an EMPTY separator (`countLoopT_empty_exhausts`); no call site passes
  one (`stringsCountT` answers `len(substr) == 0` before the loop, `split` takes its empty-separator branch).

  Not here: the lexer (`C09CTickLex.lean`, another file), and the array loops of `C09CTickArr*.lean`, whose counters are
  all real Go counters (`range` over an array: `rangeT`, `rangeBrkT`; `for i := 0; i < count; i++` of `zip`).
-/
import Jmes.Proofs.C09CTickStr2
import Jmes.Proofs.C09CTickSplit2
set_option linter.unusedSimpArgs false
set_option linter.unusedVariables false
namespace Jmes.C09E
open Jmes Jmes.C09C

/-! ## Generic lemmas -/

/-- A guarded loop whose guard implies `μ > 0` and whose body decreases `μ`, run with a counter `n ≥ μ(start)`, is left
    because its GUARD fails: the final state does not satisfy the guard.  (With `n < μ(start)` the loop may be cut
    short by the counter with the guard still true: see the `example` below.) -/
theorem forT_exits_of_measure {σ : Type} (g : σ → Bool) (b : σ → T σ) (μ : σ → Nat)
    (hg : ∀ s, g s = true → 0 < μ s) (hb : ∀ s, g s = true → μ (b s).1 < μ s) :
    ∀ (n : Nat) (s : σ), μ s ≤ n → g (forT g b n s).1 = false := by
  intro n
  induction n with
  | zero =>
    intro s h
    cases hgs : g s with
    | false => rw [forT_zero]; exact hgs
    | true => have := hg s hgs; omega
  | succ n ih =>
    intro s h
    cases hgs : g s with
    | false => rw [forT_stop g b _ s hgs]; exact hgs
    | true =>
      rw [forT_succ_fst g b n s hgs]
      have := hb s hgs
      exact ih _ (by omega)

/-- … and then the counter is irrelevant altogether: every counter `≥ μ(start)` gives the same result AND the same
    cost.  "The bound is never reached" as an equation. -/
theorem forT_fuel_irrelevant {σ : Type} (g : σ → Bool) (b : σ → T σ) (μ : σ → Nat)
    (hg : ∀ s, g s = true → 0 < μ s) (hb : ∀ s, g s = true → μ (b s).1 < μ s) :
    ∀ (n m : Nat) (s : σ), μ s ≤ n → μ s ≤ m → forT g b n s = forT g b m s := by
  intro n
  induction n with
  | zero =>
    intro m s h1 _
    cases hgs : g s with
    | false => rw [forT_stop g b _ s hgs, forT_stop g b _ s hgs]
    | true => have := hg s hgs; omega
  | succ n ih =>
    intro m s h1 h2
    cases hgs : g s with
    | false => rw [forT_stop g b _ s hgs, forT_stop g b _ s hgs]
    | true =>
      have h3 := hg s hgs
      have h4 := hb s hgs
      cases m with
      | zero => omega
      | succ m =>
        apply T.ext
        · rw [forT_succ_fst g b n s hgs, forT_succ_fst g b m s hgs, ih m _ (by omega) (by omega)]
        · rw [forT_succ_snd g b n s hgs, forT_succ_snd g b m s hgs, ih m _ (by omega) (by omega)]

/-- the hypothesis `μ s ≤ n` matters: with a counter of 1 the counting loop over "ab" is cut short, guard still true -/
example : (fun (p : Bytes × Nat) => decide (p.1.length > 0))
    (forT (fun (p : Bytes × Nat) => decide (p.1.length > 0))
      (fun p => pure (p.1.drop (decodeRune p.1).2, p.2 + 1)) 1 ([0x61, 0x62], 0)).1 = true := by decide

/-- A loop with `break`/`return` whose body, when it does not leave, decreases `μ`, run with a counter `n > μ(start)`,
    is left through its `break`/`return`: the outcome is `.brk _`, never "the counter ran out". -/
theorem forBrkT_brk_of_measure {σ : Type} (b : σ → T (Ctl σ)) (μ : σ → Nat)
    (hb : ∀ s s', (b s).1 = .next s' → μ s' < μ s) :
    ∀ (n : Nat) (s : σ), μ s < n → ∃ st, (forBrkT b n s).1 = .brk st := by
  intro n
  induction n with
  | zero => intro s h; omega
  | succ n ih =>
    intro s h
    rw [forBrkT_succ_fst]
    cases hbs : (b s).1 with
    | brk st => exact ⟨st, rfl⟩
    | next s' =>
      have := hb s s' hbs
      exact ih s' (by omega)

/-- a loop body that never breaks runs its counter out: the outcome is `.next _` -/
theorem forBrkT_next_of_no_brk {σ : Type} (b : σ → T (Ctl σ)) (P : σ → Prop)
    (hb : ∀ s, P s → ∃ s', (b s).1 = .next s' ∧ P s') :
    ∀ (n : Nat) (s : σ), P s → ∃ st, (forBrkT b n s).1 = .next st := by
  intro n
  induction n with
  | zero => intro s _; exact ⟨s, rfl⟩
  | succ n ih =>
    intro s h
    obtain ⟨s', h1, h2⟩ := hb s h
    rw [forBrkT_succ_fst, h1]
    exact ih s' h2

/-! ## `utf8.RuneCountInString` — `runeCountT`, fuel `len(s)` -/

/-- the guard of the counting loop of `runeCountT` -/
abbrev runeCountGuard : Bytes × Nat → Bool := fun p => decide (p.1.length > 0)
/-- the body of the counting loop of `runeCountT` -/
abbrev runeCountBody : Bytes × Nat → T (Bytes × Nat) := fun p => pure (p.1.drop (decodeRune p.1).2, p.2 + 1)

/-- `runeCountT` IS this loop at fuel `len(s)` (definitional) -/
theorem runeCountT_def (s : Bytes) :
    runeCountT s = (do let r ← forT runeCountGuard runeCountBody s.length (s, 0); pure r.2) := rfl

theorem runeCount_measure :
    (∀ p : Bytes × Nat, runeCountGuard p = true → 0 < p.1.length) ∧
    (∀ p : Bytes × Nat, runeCountGuard p = true → (runeCountBody p).1.1.length < p.1.length) := by
  refine ⟨fun p h => by simpa using h, fun p h => ?_⟩
  have hl : 0 < p.1.length := by simpa using h
  have hne : p.1 ≠ [] := by intro c; rw [c] at hl; simp at hl
  have := C09.decodeRune_pos p.1 hne
  simp only [pure_fst, List.length_drop]; omega

/-- the counting loop of `utf8.RuneCountInString`, at the fuel `len(s)` that `runeCountT` passes, ends because the
    string is exhausted (its guard `i < len(s)` fails), not because the counter ran out -/
theorem runeCountT_exits_by_guard (s : Bytes) :
    runeCountGuard (forT runeCountGuard runeCountBody s.length (s, 0)).1 = false :=
  forT_exits_of_measure runeCountGuard runeCountBody (fun p => p.1.length) runeCount_measure.1 runeCount_measure.2
    s.length (s, 0) (Nat.le_refl _)

/-- the same, read off the state: nothing of the string is left -/
theorem runeCountT_exhausts (s : Bytes) : (forT runeCountGuard runeCountBody s.length (s, 0)).1.1 = [] := by
  have := runeCountT_exits_by_guard s
  simp only [decide_eq_false_iff_not, Nat.not_lt, Nat.le_zero_eq] at this
  exact List.eq_nil_of_length_eq_zero this

/-- every larger fuel gives the same count at the same cost -/
theorem runeCountT_fuel_irrelevant (s : Bytes) (f : Nat) (h : s.length ≤ f) :
    forT runeCountGuard runeCountBody f (s, 0) = forT runeCountGuard runeCountBody s.length (s, 0) :=
  forT_fuel_irrelevant runeCountGuard runeCountBody (fun p => p.1.length) runeCount_measure.1 runeCount_measure.2
    f s.length (s, 0) h (Nat.le_refl _)

/-- "hé": two iterations of a fuel of three, the string is exhausted -/
example : forT runeCountGuard runeCountBody 3 ([0x68, 0xC3, 0xA9], 0) = ⟨([], 2), 2⟩ := by decide

/-! ## `reverse` — `revStrLoopT` (functions.go:96 `for len(s) > 0`), fuel `len(s)` from `revStrT` -/

theorem revStr_measure :
    (∀ st : Bytes × Bytes, decide (st.1.length > 0) = true → 0 < st.1.length) ∧
    (∀ st : Bytes × Bytes, decide (st.1.length > 0) = true → (revStrBody st).1.1.length < st.1.length) := by
  refine ⟨fun p h => by simpa using h, fun p h => ?_⟩
  obtain ⟨s, b⟩ := p
  have hl : 0 < s.length := by simpa using h
  have hne : s ≠ [] := by intro c; rw [c] at hl; simp at hl
  have := C09.decodeLastRune_pos s hne
  rw [revStrBody_eq]
  simp only [mk_fst, List.length_take]
  omega

/-- functions.go:96 at the fuel `len(s)` that `revStrT` passes (and at every larger one): the loop ends with `s`
    exhausted, i.e. because its guard `len(s) > 0` fails -/
theorem revStrLoopT_exits_by_guard (f : Nat) (s b : Bytes) (h : s.length ≤ f) : (revStrLoopT f s b).1.1 = [] := by
  have := forT_exits_of_measure (fun (st : Bytes × Bytes) => decide (st.1.length > 0)) revStrBody
    (fun st => st.1.length) revStr_measure.1 revStr_measure.2 f (s, b) h
  simp only [decide_eq_false_iff_not, Nat.not_lt, Nat.le_zero_eq] at this
  exact List.eq_nil_of_length_eq_zero this

/-- every fuel `≥ len(s)` gives the same builder at the same cost -/
theorem revStrLoopT_fuel_irrelevant (f : Nat) (s b : Bytes) (h : s.length ≤ f) :
    revStrLoopT f s b = revStrLoopT s.length s b :=
  forT_fuel_irrelevant (fun (st : Bytes × Bytes) => decide (st.1.length > 0)) revStrBody
    (fun st => st.1.length) revStr_measure.1 revStr_measure.2 f s.length (s, b) h (Nat.le_refl _)

/-- the call site: `revStrT` runs the loop at fuel `len(s)` -/
theorem revStrT_loop_exits (s : Bytes) : (revStrLoopT s.length s []).1.1 = [] :=
  revStrLoopT_exits_by_guard s.length s [] (Nat.le_refl _)

example : revStrLoopT 3 [0x68, 0xC3, 0xA9] [] = ⟨([], [0xC3, 0xA9, 0x68]), 2 + 3⟩ := by decide

/-! ## `pad_*` — `padFillT` (string.go:562 / :630 `for n > 0`), fuel `n` -/

/-- the fill loop at the fuel `n` that `padFillT` passes ends with `n = 0`, i.e. because its guard `n > 0` fails -/
theorem padFillT_exits_by_guard (n : Nat) (p b : Bytes) : (padFillT n p b).1.1 = 0 := by
  unfold padFillT; rw [padFillLoop p n n b (Nat.le_refl _)]

example : (padFillT 3 [0x2E] [0x61]).1.1 = 0 := padFillT_exits_by_guard _ _ _

/-! ## the search of `find_*` — `findIndexLoopT`, fuel `len(s) + 1` -/

/-- `findIndexLoopT` (the naive `strings.Index` of `C09CTickStr.lean`, whose body also leaves at the end of the
    string) at its fuel `len(s) + 1` always leaves through its body (a match, or the end of the string): the outcome is
    `.brk _` for EVERY subject, pattern and start offset -/
theorem findIndexLoopT_brk (p : Bytes) (off : Nat) (s : Bytes) : ∃ st, (findIndexLoopT p off s).1 = .brk st := by
  unfold findIndexLoopT
  apply forBrkT_brk_of_measure (findIndexBody p) (fun st => st.2.1.length) _ _ _ (by simp)
  intro st st' h
  unfold findIndexBody at h
  split at h
  · cases h
  · split at h
    · cases h
    · rename_i b t heq
      simp only [pure_fst] at h
      injection h with h
      subst h
      rw [heq]; simp

example : (findIndexLoopT [0x7A] 0 [0x61, 0x62]).1 = .brk (2, [], none) := by rfl

/-- `findLastIndexLoopT` has no guard and no `break`: its counter `len(s) + 1` IS the Go semantics (the model's
    `lastIndexOfAux` visits every one of the `len(s) + 1` candidate offsets).  The counter ends exactly when the
    candidates do: the final state is offset `off + len(s) + 1` with nothing of the string left. -/
theorem findLastIndexLoopT_runs_all (p : Bytes) : ∀ (s : Bytes) (off : Nat) (best : Option Nat),
    (findLastIndexLoopT p off s best).1.1 = off + s.length + 1 ∧ (findLastIndexLoopT p off s best).1.2.1 = [] := by
  intro s
  induction s with
  | nil =>
    intro off best
    unfold findLastIndexLoopT
    rw [forT_succ_fst _ _ _ _ rfl]
    simp [findLastIndexBody, forT]
  | cons b t ih =>
    intro off best
    unfold findLastIndexLoopT at ih ⊢
    rw [List.length_cons, forT_succ_fst _ _ _ _ rfl]
    have e : findLastIndexBody p (off, b :: t, best)
        = ⟨(off + 1, t, if p.isPrefixOf (b :: t) then some off else best), 0⟩ := rfl
    rw [e, mk_fst]
    have := ih (off + 1) (if p.isPrefixOf (b :: t) then some off else best)
    refine ⟨?_, this.2⟩
    rw [this.1]; omega

example : (findLastIndexLoopT [0x61] 0 [0x61, 0x62, 0x61] none).1 = (4, [], some 2) := by decide

/-! ## `strings.Index` of `split` / `replace` — `stringsIndexLoopT`, fuel `len(s) + 1` -/

/-- `stringsIndexLoopT` is `for i := 0; i <= len(s); i++ { if HasPrefix(s[i:], p) { return i } }; return -1`: a REAL
    counter.  `.next` (the counter ran out) is Go's `return -1`, and it happens only after every one of the
    `len(s) + 1` candidate offsets has been examined: the final state is offset `off + len(s) + 1`, nothing left. -/
theorem stringsIndexLoopT_next (p : Bytes) : ∀ (s : Bytes) (off : Nat) (st : Nat × Bytes),
    (stringsIndexLoopT p off s).1 = .next st → st = (off + s.length + 1, []) ∧ indexOfAux off s p = none := by
  intro s
  induction s with
  | nil =>
    intro off st h
    have hs := (stringsIndexLoopT_spec p [] off).1
    unfold stringsIndexLoopT at h
    rw [forBrkT_succ_fst] at h
    unfold stringsIndexBody at h
    cases hp : p.isPrefixOf ([] : Bytes)
    · simp only [hp, Bool.false_eq_true, if_false, pure_fst, forBrkT] at h
      injection h with h
      rw [Utf8.indexOfAux_eq, hp]
      exact ⟨by rw [← h]; rfl, by simp⟩
    · simp [hp] at h
  | cons a t ih =>
    intro off st h
    unfold stringsIndexLoopT at h ih
    rw [List.length_cons, forBrkT_succ_fst] at h
    unfold stringsIndexBody at h
    cases hp : p.isPrefixOf (a :: t)
    · simp only [hp, Bool.false_eq_true, if_false, pure_fst, List.tail_cons] at h
      have := ih (off + 1) st h
      rw [Utf8.indexOfAux_eq, hp]
      refine ⟨?_, by simpa using this.2⟩
      rw [this.1, List.length_cons]
      simp only [Prod.mk.injEq, and_true]; omega
    · simp [hp] at h

/-- … and conversely a search that finds nothing does run its counter out (`.next`), a search that finds a match leaves
    by `return` (`.brk`) -/
theorem stringsIndexLoopT_outcome (p : Bytes) (s : Bytes) (off : Nat) :
    (indexOfAux off s p = none → ∃ st, (stringsIndexLoopT p off s).1 = .next st) ∧
    (∀ k, indexOfAux off s p = some k → ∃ st, (stringsIndexLoopT p off s).1 = .brk st) := by
  have h := (stringsIndexLoopT_spec p s off).1
  cases hr : (stringsIndexLoopT p off s).1 with
  | next st =>
    rw [hr] at h; simp only [stringsIndexAnswer] at h
    exact ⟨fun _ => ⟨st, rfl⟩, fun k hk => (by rw [hk] at h; cases h)⟩
  | brk st =>
    rw [hr] at h; simp only [stringsIndexAnswer] at h
    exact ⟨fun hn => (by rw [hn] at h; cases h), fun k _ => ⟨st, rfl⟩⟩

example : (stringsIndexLoopT [0x7A] 0 [0x61, 0x62]).1 = .next (3, []) := by rfl
example : (stringsIndexLoopT [0x62] 0 [0x61, 0x62]).1 = .brk (1, [0x62]) := by rfl

/-! ## `strings.Count` — `countLoopT` (`for { … }`), fuel `len(s) + 1` from `countT` -/

/-- the loop of `strings.Count` for a NON-EMPTY separator, at the fuel `len(s) + 1` that `countT` passes, is left by its
    `return n` (`.brk`), never by the counter.  (`C09C.countLoopT_brk` at the call site's fuel.) -/
theorem countT_loop_brk (s p : Bytes) (hp : p ≠ []) : ∃ st, (countLoopT p (s.length + 1) 0 s).1 = .brk st :=
  countLoopT_brk p hp (s.length + 1) 0 s (Nat.lt_succ_self _)

/-- hence `countT` reads its answer off a `.brk` state -/
theorem countT_loop_brk' (s p : Bytes) (hp : p ≠ []) :
    ∃ st, (countLoopT p (s.length + 1) 0 s).1 = .brk st ∧ (countT s p).1 = st.1 := by
  obtain ⟨st, h⟩ := countT_loop_brk s p hp
  refine ⟨st, h, ?_⟩
  simp only [countT, bind_fst, pure_fst, h, splitCtlSt]

example : (countLoopT [2] 6 0 [1, 2, 1, 2, 1]).1 = .brk (2, [1]) := by rfl

/-- THE FUEL CAN BE EXHAUSTED by `countLoopT` with an EMPTY separator: `Index(s, "")` is `0`, `s` never shrinks, every
    fuel runs out (Go's generic loop would not terminate either — which is why `strings.Count` answers
    `len(substr) == 0` before the loop).  No call site passes an empty separator: `stringsCountT` tests
    `p.length = 0` first (`stringsCountT_never_empty_loop`), `splitT`/`splitCountT` call `splitSepT` (and with it
    `countT`) only after `p.isEmpty` was false. -/
theorem countLoopT_empty_exhausts : ∀ (f n : Nat) (s : Bytes), (countLoopT [] f n s).1 = .next (n + f, s) := by
  intro f
  induction f with
  | zero => intro n s; rfl
  | succ f ih =>
    intro n s
    unfold countLoopT at ih ⊢
    have hi : indexOf s [] = some 0 := by
      unfold indexOf; rw [Utf8.indexOfAux_eq]; simp
    rw [forBrkT_succ_fst, countBody_eq, mk_fst, hi]
    simp only [List.length_nil, Nat.add_zero, List.drop_zero]
    rw [ih]
    congr 2; omega

example : (countLoopT [] 2 0 [1]).1 = .next (2, [1]) := countLoopT_empty_exhausts 2 0 [1]

/-- `stringsCountT` (both cases of `strings.Count`): with an empty separator no loop over candidates is run at all
    (only the rune count, whose loop ends by its guard: `runeCountT_exits_by_guard`); with a non-empty one it is
    `countT`, whose loop ends by `return` (`countT_loop_brk`) -/
theorem stringsCountT_never_empty_loop (s p : Bytes) :
    (p = [] → stringsCountT s p = (do let l ← runeCountT s; pure (l + 1))) ∧
    (p ≠ [] → stringsCountT s p = countT s p ∧ ∃ st, (countLoopT p (s.length + 1) 0 s).1 = .brk st) := by
  refine ⟨fun h => by subst h; rfl, fun h => ⟨stringsCountT_sep s p h, countT_loop_brk s p h⟩⟩

/-! ## `split` — `splitLoopT` (string.go:869 / :963 `for i < n { … break … }`), counter `n` from `splitSepT`

  A REAL counter (`i < n` is the Go loop condition).  With the clamped `n ≤ strings.Count(s, p)` that `splitSepT`
  passes, `strings.Index` always finds a separator: the loop is left because `i` reaches `n`, the `break` is dead
  code on this path.  (Without the clamp — `splitSepNoClampT` — it is the `break` that ends the loop.) -/

/-- with `n ≤ Count(s, p)` the split loop runs its counter out: every `strings.Index` finds a separator -/
theorem splitLoopT_next_of_le (p : Bytes) : ∀ (n f : Nat) (s : Bytes) (r : List Bytes), n ≤ countGo f s p →
    ∃ st, (splitLoopT p n s r).1 = .next st := by
  intro n
  induction n with
  | zero => intro f s r _; exact ⟨(s, r), rfl⟩
  | succ n ih =>
    intro f s r h
    cases f with
    | zero => simp [countGo] at h
    | succ f =>
      simp only [countGo] at h
      unfold splitLoopT at ih ⊢
      rw [forBrkT_succ_fst, splitBody_eq, mk_fst]
      cases hi : indexOf s p with
      | none => rw [hi] at h; simp at h
      | some j =>
        rw [hi] at h
        simp only at h ⊢
        exact ih f _ _ (by omega)

/-- the call site: `splitSepT` passes the clamped count `splitSepN s p count ≤ Count(s, p)`, so the loop string.go:869 /
    :963 ends by its loop condition `i < n`, for no count and for every count -/
theorem splitSepT_loop_next (s p : Bytes) (hp : p ≠ []) (count : Option Nat) :
    ∃ st, (splitLoopT p (splitSepN s p count) s []).1 = .next st := by
  apply splitLoopT_next_of_le p _ (s.length + 1) s []
  rw [countGo_eq s p hp]
  unfold splitSepN
  cases count with
  | none => exact Nat.le_refl _
  | some n => simp only; split <;> omega

/-- beyond the separators present the loop is left by `break` -/
theorem splitLoopT_brk_of_gt (p : Bytes) (hp : p ≠ []) : ∀ (n f : Nat) (s : Bytes) (r : List Bytes),
    s.length < f → countGo f s p < n → ∃ st, (splitLoopT p n s r).1 = .brk st := by
  intro n
  induction n with
  | zero => intro f s r _ h; omega
  | succ n ih =>
    intro f s r hf h
    cases f with
    | zero => omega
    | succ f =>
      simp only [countGo] at h
      unfold splitLoopT at ih ⊢
      rw [forBrkT_succ_fst, splitBody_eq, mk_fst]
      cases hi : indexOf s p with
      | none => exact ⟨_, rfl⟩
      | some j =>
        rw [hi] at h
        simp only at h ⊢
        have h1 := indexOf_add_le s p j hi
        have h2 := C09.length_pos_of_ne_nil hp
        exact ih f _ _ (by rw [List.length_drop]; omega) (by omega)

example : (splitLoopT [2] 2 [1, 2, 1, 2, 1] []).1 = .next ([1], [[1], [1]]) := by rfl
example : (splitLoopT [2] 5 [1, 2, 1, 2, 1] []).1 = .brk ([1], [[1], [1]]) := by rfl

/-! ## `strings.Replace` — `replaceLoopT` (`for i := 0; i < n; i++`), counter `n` from `stringsReplaceT`

  A REAL counter.  The mirror's body has an extra exit (`.brk`) where Go's `Index` would return `-1` and
  `s[start:j]` would panic; with the clamped `n ≤ Count(s, old)` that exit is never taken: the outcome is `.next`. -/

/-- non-empty `old`, `k ≤ Count(s[start:], old)`: the loop runs its counter out, the panic exit is never taken -/
theorem replaceLoopT_sep_next (s old new : Bytes) (hp : old ≠ []) : ∀ (k f i start : Nat) (b : Bytes),
    k ≤ countGo f (s.drop start) old →
    ∃ st, (replaceLoopT s old new k (i, start, b)).1 = .next st ∧ st.1 = i + k := by
  intro k
  induction k with
  | zero => intro f i start b _; exact ⟨(i, start, b), rfl, rfl⟩
  | succ k ih =>
    intro f i start b h
    cases f with
    | zero => simp [countGo] at h
    | succ f =>
      simp only [countGo] at h
      unfold replaceLoopT at ih ⊢
      rw [forBrkT_succ_fst, replaceBody_sep s old new hp, mk_fst]
      cases hi : indexOf (s.drop start) old with
      | none => rw [hi] at h; simp at h
      | some j =>
        rw [hi] at h
        simp only at h ⊢
        obtain ⟨st, h1, h2⟩ := ih f (i + 1) (start + j + old.length) (b ++ (s.drop start).take j ++ new) (by
          rw [Nat.add_assoc, ← List.drop_drop]; omega)
        exact ⟨st, h1, by omega⟩

/-- empty `old`: the body has no exit at all, the loop runs its counter out -/
theorem replaceLoopT_empty_next (s new : Bytes) : ∀ (k i start : Nat) (b : Bytes),
    ∃ st, (replaceLoopT s [] new k (i, start, b)).1 = .next st ∧ st.1 = i + k := by
  intro k
  induction k with
  | zero => intro i start b; exact ⟨(i, start, b), rfl, rfl⟩
  | succ k ih =>
    intro i start b
    unfold replaceLoopT at ih ⊢
    rw [forBrkT_succ_fst]
    cases i with
    | zero =>
      rw [replaceBody_empty_first, mk_fst]
      simp only
      obtain ⟨st, h1, h2⟩ := ih 1 start (b ++ new)
      exact ⟨st, h1, by omega⟩
    | succ i =>
      rw [replaceBody_empty_next, mk_fst]
      simp only
      obtain ⟨st, h1, h2⟩ := ih (i + 1 + 1) _ _
      exact ⟨st, h1, by omega⟩

/-- the call site: `stringsReplaceT` passes `replaceClamp (Count(s, old)) n`; with that counter the loop of
    `strings.Replace` performs exactly that many iterations and is never left through the mirror's panic exit -/
theorem stringsReplaceT_loop_next (s old new : Bytes) (n : Option Nat) :
    ∃ st, (replaceLoopT s old new (replaceClamp (stringsCountT s old).1 n) (0, 0, [])).1 = .next st ∧
      st.1 = replaceClamp (stringsCountT s old).1 n := by
  by_cases hp : old = []
  · subst hp
    obtain ⟨st, h1, h2⟩ := replaceLoopT_empty_next s new (replaceClamp (stringsCountT s []).1 n) 0 0 []
    exact ⟨st, h1, by omega⟩
  · rw [stringsCountT_sep s old hp, countT_fst s old hp]
    obtain ⟨st, h1, h2⟩ := replaceLoopT_sep_next s old new hp (replaceClamp (Cost.occurrences s old) n)
      (s.length + 1) 0 0 [] (by
        rw [List.drop_zero, countGo_eq s old hp]; exact replaceClamp_le _ _)
    exact ⟨st, h1, by omega⟩

example : (replaceLoopT [1, 2, 1, 2, 1] [2] [7] 2 (0, 0, [])).1 = .next (2, 4, [1, 7, 1, 7]) := by rfl
/-- without the clamp (count 3 > 2 occurrences) the mirror's exit IS taken — in Go this is the `s[start:j]` panic
    that the clamp of `strings.Replace` exists to prevent -/
example : (replaceLoopT [1, 2, 1, 2, 1] [2] [7] 3 (0, 0, [])).1 = .brk (2, 4, [1, 7, 1, 7]) := by rfl

/-! ## `join` — `joinLoopT` (string.go:488 `for _, i := range a[1:]`), counter `len(a) - 1`

  A REAL counter (`range`).  `.next`: every element was a string and was written; `.brk`: a non-string was met and
  the function returned the type error. -/

/-- the `range` loop of `join` runs to its end exactly when all remaining elements are strings -/
theorem joinLoopT_next_iff (s : Bytes) (rest : List Val) (b : Bytes) :
    (∃ st, (joinLoopT s rest b).1 = .next st) ↔ (allStrings rest).isSome = true := by
  have h := (joinLoop s rest b).1
  cases hr : (joinLoopT s rest b).1 with
  | next st =>
    rw [hr] at h; simp only [joinOut] at h
    cases ha : allStrings rest with
    | none => rw [ha] at h; simp at h
    | some ss => simp
  | brk st =>
    rw [hr] at h; simp only [joinOut] at h
    cases ha : allStrings rest with
    | none => simp
    | some ss => rw [ha] at h; simp at h

example : ∃ st, (joinLoopT [0x2D] [.str [0x61], .str [0x62]] []).1 = .next st :=
  (joinLoopT_next_iff _ _ _).2 (by decide)

end Jmes.C09E
