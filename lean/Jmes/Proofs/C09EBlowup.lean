/-
  C09, fourth wave — the first sentence of C09 ("time and memory bounded by a low-order polynomial in the length of
  the expression, the size of the document and the size of the result") is FALSE, with no integer involved: the family

      @ | [@,@] | [] | [@,@] | [] | … | [@,@] | []          (k stages, 9 bytes each)

  doubles the length of an array at every stage (`[@,@]` shares its two references, `[]` copies them): the k-th member
  costs at least `2^k` ticks in the instrumented evaluator — the inner loop of `flatten`, array.go:543 — while the
  expression has `1 + 6k` nodes and the document is a one-element array.  With `| length(@)` appended the result is a
  number of `k/3` digits.  Go (current /repo), document `[1]`: k = 20 (191 bytes) 0.13 s / 168 MB, k = 22 0.40 s /
  655 MB, k = 24 (227 bytes) 3.3 s / 3 GB.  This is the known finding KF05 (`[@,@] | … | @ == @`) in a form where the
  work is in a loop this development instruments; it is inherent to the language (values are shared, `flatten`
  copies) and there is nothing to repair: what holds instead is `ievalT_cost` — the ticks are linear in the sizes of
  the INTERMEDIATE values.
-/
import Jmes.Proofs.C09EFrag
set_option linter.unusedSimpArgs false
set_option linter.unusedVariables false
namespace Jmes.C09E
open Jmes Jmes.C09C

/-- `@ | [@,@] | [] | … | [@,@] | []` with `k` stages, as the parser builds it (pipes nest to the left) -/
def dblChain : Nat → INode
  | 0 => .current
  | k + 1 => .pipe (.pipe (dblChain k) (.selectArrayCurrent [.current, .current])) .flattenCurrent

/-- an array of `2^k` copies of `true` -/
def dblVal (k : Nat) : Val := .arr .plain (List.replicate (2 ^ k) (.bool true))

theorem dbl_filter (n : Nat) :
    (List.replicate n (Val.bool true)).filter (fun y => !y.isNull) = List.replicate n (Val.bool true) := by
  rw [List.filter_eq_self]
  intro a ha
  rw [List.eq_of_mem_replicate ha]; rfl

theorem dbl_flatten (k : Nat) : flatten (.arr .plain [dblVal k, dblVal k]) = dblVal (k + 1) := by
  simp only [flatten, dblVal, flattenElems, dbl_filter, List.append_nil, List.replicate_append_replicate]
  have e : 2 ^ k + 2 ^ k = 2 ^ (k + 1) := by rw [Nat.pow_succ]; omega
  rw [e]
  simp [flattenTag, enum2]

/-- the value of the `k`-th member on `[true]`: an array of `2^k` elements -/
theorem dblChain_value (root : Val) (env : Env) : ∀ k, ieval root (dblChain k) (dblVal 0) env = .ok (dblVal k)
  | 0 => by simp only [dblChain, ieval]
  | k + 1 => by
    have e : (dblVal k).isNull = false := rfl
    simp only [dblChain, ieval, dblChain_value root env k, Res.ok_bind, Res.pure_eq, ievalList, e, Bool.false_eq_true,
      if_false, dbl_flatten]

theorem dbl_innerCount (k : Nat) : flattenInnerCount [dblVal k, dblVal k] = 2 ^ (k + 1) := by
  simp only [flattenInnerCount, dblVal, List.length_replicate]
  rw [Nat.pow_succ]; omega

/-- THE LOWER BOUND: the `k`-th member of the family costs at least `2^k` ticks on the one-element document `[true]` -/
theorem dblChain_cost_ge (root : Val) (env : Env) : ∀ k, 2 ^ k ≤ (ievalT root (dblChain k) (dblVal 0) env).2
  | 0 => by simp [dblChain, ievalT]
  | k + 1 => by
    have hv : ieval root (.pipe (dblChain k) (.selectArrayCurrent [.current, .current])) (dblVal 0) env
        = .ok (.arr .plain [dblVal k, dblVal k]) := by
      have e : (dblVal k).isNull = false := rfl
      simp only [ieval, dblChain_value root env k, Res.ok_bind, Res.pure_eq, ievalList, e, Bool.false_eq_true, if_false]
    have hc : (ievalT root (dblChain (k + 1)) (dblVal 0) env).2
        = (ievalT root (.pipe (dblChain k) (.selectArrayCurrent [.current, .current])) (dblVal 0) env).2
          + (1 + (flattenT (.arr .plain [dblVal k, dblVal k])).2) + 1 := by
      rw [dblChain, ievalT, chg_snd, bindR_snd, ievalT_fst, hv, onOk_ok, ievalT, chg_snd, okT_snd]; omega
    rw [hc, flattenT_snd, dbl_innerCount]
    omega

/-- … while the expression has `1 + 6k` nodes -/
theorem dblChain_nsize : ∀ k, nsize (dblChain k) = 1 + 6 * k
  | 0 => rfl
  | k + 1 => by simp only [dblChain, nsize, nsizeL, dblChain_nsize k]; omega

/-- no polynomial in the size of the expression and of the document bounds the ticks: for every degree `d` and
    constant `c` some member of the family costs more than `c · (nodes + size of the document)^d` -/
theorem no_polynomial_bound (root : Val) (env : Env) (c d : Nat) :
    ∃ k, c * (nsize (dblChain k) + vsize (dblVal 0)) ^ d < (ievalT root (dblChain k) (dblVal 0) env).2 := by
  -- 2^k eventually exceeds c * (8k + 8)^d
  have key : ∀ d c : Nat, ∃ k0, ∀ k, k0 ≤ k → c * (8 * k + 8) ^ d < 2 ^ k := by
    intro d
    induction d with
    | zero =>
      intro c
      refine ⟨c, fun k hk => ?_⟩
      have := Nat.lt_two_pow_self (n := k)
      simp only [Nat.pow_zero, Nat.mul_one]; omega
    | succ d ih =>
      intro c
      -- split 2^k = 2^(k/2) * 2^(k - k/2): the first factor pays for degree d (induction), the second for one more
      obtain ⟨k1, h1⟩ := ih (c * 8 ^ d * 8)
      refine ⟨2 * k1 + 16, fun k hk => ?_⟩
      have hm : k1 ≤ k / 2 := by omega
      have h2 := h1 (k / 2) hm
      have h3 : 8 * k + 8 ≤ 2 * (8 * (k / 2) + 8) := by omega
      have h4 : (8 * k + 8) ^ d ≤ (2 * (8 * (k / 2) + 8)) ^ d := Nat.pow_le_pow_left h3 d
      have h5 : (2 * (8 * (k / 2) + 8)) ^ d = 2 ^ d * (8 * (k / 2) + 8) ^ d := Nat.mul_pow _ _ _
      have h6 : 8 * k + 8 ≤ 2 ^ (k - k / 2) := by
        have : k / 2 ≤ k - k / 2 := by omega
        have h7 : 2 ^ (k / 2) ≤ 2 ^ (k - k / 2) := Nat.pow_le_pow_right (by omega) this
        have h8 : ∀ m : Nat, 8 ≤ m → 16 * m + 24 ≤ 2 ^ m := by
          intro m hm8
          induction m with
          | zero => omega
          | succ m ihm =>
            by_cases h9 : m = 7
            · subst h9; decide
            · have := ihm (by omega); rw [Nat.pow_succ]; omega
        have := h8 (k / 2) (by omega)
        omega
      have h9 : 2 ^ k = 2 ^ (k / 2) * 2 ^ (k - k / 2) := by rw [← Nat.pow_add]; congr 1; omega
      rw [Nat.pow_succ, h9]
      have hd : 2 ^ d ≤ 8 ^ d := Nat.pow_le_pow_left (by omega) d
      calc c * ((8 * k + 8) ^ d * (8 * k + 8))
          ≤ c * ((2 ^ d * (8 * (k / 2) + 8) ^ d) * (8 * k + 8)) := by
            apply Nat.mul_le_mul_left; apply Nat.mul_le_mul_right; rw [← h5]; exact h4
        _ ≤ c * ((8 ^ d * (8 * (k / 2) + 8) ^ d) * (8 * k + 8)) := by
            apply Nat.mul_le_mul_left; apply Nat.mul_le_mul_right; exact Nat.mul_le_mul_right _ hd
        _ ≤ (c * 8 ^ d * 8 * (8 * (k / 2) + 8) ^ d) * (8 * k + 8) := by
            have : c * (8 ^ d * (8 * (k / 2) + 8) ^ d * (8 * k + 8))
                = c * 8 ^ d * (8 * (k / 2) + 8) ^ d * (8 * k + 8) := by
              simp only [Nat.mul_assoc]
            rw [this]
            apply Nat.mul_le_mul_right
            have : c * 8 ^ d * 8 * (8 * (k / 2) + 8) ^ d = c * 8 ^ d * (8 * (k / 2) + 8) ^ d * 8 := by
              simp only [Nat.mul_assoc, Nat.mul_comm 8]
            rw [this]; exact Nat.le_mul_of_pos_right _ (by omega)
        _ < 2 ^ (k / 2) * 2 ^ (k - k / 2) := by
            exact Nat.mul_lt_mul_of_lt_of_le h2 h6 (by omega)
  obtain ⟨k0, hk0⟩ := key d c
  refine ⟨k0, ?_⟩
  have h1 := hk0 k0 (Nat.le_refl _)
  have h2 := dblChain_cost_ge root env k0
  have e : nsize (dblChain k0) + vsize (dblVal 0) = 6 * k0 + 3 := by
    rw [dblChain_nsize]; simp only [dblVal, vsize, vsizeL, Nat.pow_zero, List.replicate_one]; omega
  rw [e]
  have h3 : c * (6 * k0 + 3) ^ d ≤ c * (8 * k0 + 8) ^ d :=
    Nat.mul_le_mul_left _ (Nat.pow_le_pow_left (by omega) d)
  exact Nat.lt_of_le_of_lt h3 (Nat.lt_of_lt_of_le h1 h2)

/-- the text `@|[@,@]|[]` parses to the first member of the family -/
example : (match Parser.parse [0x40, 0x7C, 0x5B, 0x40, 0x2C, 0x40, 0x5D, 0x7C, 0x5B, 0x5D] with
    | .ok (.pipe (.pipe .current (.selectArrayCurrent [.current, .current])) .flattenCurrent) => true
    | _ => false) = true := by decide +kernel

/-- 20 stages (181 bytes of expression): more than a million ticks on `[true]` -/
example (root : Val) (env : Env) : 1000000 ≤ (ievalT root (dblChain 20) (dblVal 0) env).2 :=
  Nat.le_trans (by decide) (dblChain_cost_ge root env 20)


/-! ## KF05 itself: `@ | [@,@] | … | [@,@] | @ == @` -/

/-- the value of `k` stages `| [@,@]` on `true`: a full binary tree of depth `k` whose two branches are SHARED in Go -/
def pairTree : Nat → Val
  | 0 => .bool true
  | k + 1 => .arr .plain [pairTree k, pairTree k]

/-- `@ | [@,@] | … | [@,@]` with `k` stages -/
def selChain : Nat → INode
  | 0 => .current
  | k + 1 => .pipe (selChain k) (.selectArrayCurrent [.current, .current])

/-- the ticks of the deep comparison of the tree with itself: every leaf is reached -/
def pairEqCost : Nat → Nat
  | 0 => 1
  | k + 1 => 3 + 2 * pairEqCost k

theorem pairTree_equalT : ∀ k, equalT (pairTree k) (pairTree k) = ⟨true, pairEqCost k⟩
  | 0 => by rfl
  | k + 1 => by
    have ih := pairTree_equalT k
    apply T.ext
    · simp only [pairTree, equalT, equalLT, if_true, chg_fst, andT_fst, ih, pure_fst, Bool.and_self]
    · simp only [pairTree, equalT, equalLT, if_true, chg_snd, andT, ih, pure_fst, pure_snd, pairEqCost]
      omega

theorem pairEqCost_ge : ∀ k, 2 ^ k ≤ pairEqCost k
  | 0 => by decide
  | k + 1 => by have := pairEqCost_ge k; simp only [pairEqCost, Nat.pow_succ]; omega

theorem pairTree_notNull : ∀ k, (pairTree k).isNull = false
  | 0 => rfl
  | _ + 1 => rfl

theorem pairTree_hasEnum2 : ∀ k, (pairTree k).hasEnum2 = false
  | 0 => rfl
  | k + 1 => by simp [pairTree, Val.hasEnum2, Val.hasEnum2L, pairTree_hasEnum2 k]

theorem selChain_value (root : Val) (env : Env) : ∀ k, ieval root (selChain k) (.bool true) env = .ok (pairTree k)
  | 0 => by simp only [selChain, ieval, pairTree]
  | k + 1 => by
    simp only [selChain, ieval, selChain_value root env k, Res.ok_bind, Res.pure_eq, ievalList, pairTree_notNull,
      Bool.false_eq_true, if_false, pairTree]

/-- KF05 in the tick model: `@|[@,@]|…|[@,@]|@ == @` (`k` stages, `4 + 4k` nodes, document `true`, result `true`)
    costs at least `2^k` ticks — all of them in `equal` (compare.go:39), which follows both shared branches -/
theorem kf05_cost_ge (root : Val) (env : Env) (k : Nat) :
    ieval root (.pipe (selChain k) (.binop .eq .current .current)) (.bool true) env = .ok (.bool true) ∧
    2 ^ k ≤ (ievalT root (.pipe (selChain k) (.binop .eq .current .current)) (.bool true) env).2 := by
  have hv := selChain_value root env k
  have he := pairTree_equalT k
  have hge := pairEqCost_ge k
  refine ⟨?_, ?_⟩
  · have e1 : equal (pairTree k) (pairTree k) = true := by rw [← equalT_fst, he]
    have e2 := pairTree_hasEnum2 k
    simp only [ieval, hv, Res.ok_bind, applyBinOp, equalR, e1, e2, Bool.or_self, Bool.false_eq_true, if_false,
      Res.pure_eq]
  · simp only [ievalT, chg_snd, bindR_snd, ievalT_fst, hv, onOk_ok, pure_fst, pure_snd, ieval, applyBinOpT, eqOpT,
      bind_snd, he, mk_snd, chg_fst]
    omega

example (root : Val) (env : Env) : 1000000 ≤
    (ievalT root (.pipe (selChain 20) (.binop .eq .current .current)) (.bool true) env).2 :=
  Nat.le_trans (by decide) (kf05_cost_ge root env 20).2

end Jmes.C09E
