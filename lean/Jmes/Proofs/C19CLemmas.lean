/-
  Helpers for C19C: which references does the evaluator reach?

  Part 1: the outcome predicate `Und` ("an undefined-variable error, or an outcome the model does not settle"),
          `Cat.dedup` membership, inversion of `>>=`.
  Part 2: `widen`: forward (`widen_bind_und`) and inversion (`widen_bind_inv`).
  Part 3: the loops (`mapPrune`, `mapAll`, `filterLoop`, `filterMapPrune`, `keysOf`, `groupLoop`): a failing element after
          a prefix that is processed without failure makes the loop fail the same way, and conversely an error of the loop
          is the error of its first failing element (`LoopSpec`).
  Part 4: `Visits`, and the forward / inversion lemma of every higher-order value-level function; on a map-ordered
          list a loop that succeeds has processed every element (`…_ok_all`), so any failing element is visited
          (`Visits.any`, `VProj.any`, …).
  Part 5: ordered member lists (`ievalList`, `ievalMerge`, `ievalNotNull`, `ievalZip`) and map-ordered member lists
          (`combineUnordered`, `ievalFields`): forward lemmas.
  Part 6: the relation `Reaches'`, `Reaches.toReaches'`, and the forward theorem `Reaches'.und`.
  Part 7: the backward (completeness) theorem `reaches'_of_undefined`, by mutual structural recursion.
-/
import Jmes.Proofs.C19BLemmas
namespace Jmes.C19C
open Jmes

/-! ## Part 1: outcomes -/

/-- the outcome is an undefined-variable error — or the model does not settle it (it depends on Go's map iteration
    order, `nondet`, or the model declines, `unmodelled`).  Never `ok`, never a panic. -/
def Und {α} (r : Res α) : Prop :=
  match r with
  | .err cs => Cat.undefinedVariable ∈ cs
  | .nondet => True
  | .unmodelled _ => True
  | _ => False

example : Und (Res.err [Cat.invalidType, Cat.undefinedVariable] : Res Val) := by simp [Und]
example : ¬ Und (Res.err [Cat.invalidType] : Res Val) := by simp [Und]
example : ¬ Und (Res.ok Val.null) := id
example : ¬ Und (Res.panic "x" : Res Val) := id

/-- not a panic -/
abbrev NP {α} (r : Res α) : Prop := Sat (fun _ => True) r

theorem Und.bind {α β} {x : Res α} (f : α → Res β) (h : Und x) : Und (x >>= f) := by
  cases x <;> first | exact h | trivial

theorem Und.not_ok {α} {r : Res α} (h : Und r) (v : α) : r ≠ .ok v := by
  intro e; subst e; exact h

theorem Und.err_mem {α} {r : Res α} (h : Und r) {cs : List Cat} (e : r = .err cs) : Cat.undefinedVariable ∈ cs := by
  subst e; exact h

theorem und_err {α} {cs : List Cat} (h : Cat.undefinedVariable ∈ cs) : Und (Res.err cs : Res α) := h

/-- a settled `Und` outcome is an error that lists undefined-variable -/
theorem Und.settled {α} {r : Res α} (h : Und r) (hs : (∃ v, r = .ok v) ∨ ∃ cs, r = .err cs) :
    ∃ cs, r = .err cs ∧ Cat.undefinedVariable ∈ cs := by
  rcases hs with ⟨v, e⟩ | ⟨cs, e⟩
  · exact absurd e (h.not_ok v)
  · exact ⟨cs, e, h.err_mem e⟩

theorem mem_dedup {c : Cat} : ∀ {l : List Cat}, c ∈ Cat.dedup l ↔ c ∈ l
  | [] => Iff.rfl
  | d :: l => by
    simp only [Cat.dedup]
    split
    · rename_i hc
      rw [mem_dedup (l := l), List.mem_cons]
      constructor
      · exact Or.inr
      · rintro (rfl | h)
        · simpa using hc
        · exact h
    · rw [List.mem_cons, List.mem_cons, mem_dedup (l := l)]

theorem bind_err_cases {α β} {x : Res α} {f : α → Res β} {cs : List Cat} (h : (x >>= f) = .err cs) :
    x = .err cs ∨ ∃ a, x = .ok a ∧ f a = .err cs := by
  cases x with
  | ok a => exact Or.inr ⟨a, rfl, h⟩
  | err c => left; simp only [Res.err_bind, Res.err.injEq] at h; rw [h]
  | panic w => cases h
  | nondet => cases h
  | unmodelled w => cases h

theorem bind_ok_cases {α β} {x : Res α} {f : α → Res β} {b : β} (h : (x >>= f) = .ok b) :
    ∃ a, x = .ok a ∧ f a = .ok b := by
  cases x with
  | ok a => exact ⟨a, rfl, h⟩
  | err c => cases h
  | panic w => cases h
  | nondet => cases h
  | unmodelled w => cases h

theorem not_uv_errType : Cat.undefinedVariable ∉ [Cat.invalidType] := by decide

/-! ## Part 2: `widen` -/

/-- `widen` keeps an `Und` outcome `Und` -/
theorem widen_und {α} (wt : ATag) (ws : List Val) (fs : List (Val → Res Val)) (extra : List Cat) {r : Res α}
    (h : Und r) : Und (widen wt ws fs extra r) := by
  cases r with
  | err cs =>
    simp only [widen]
    split
    · split
      · trivial
      · show Cat.undefinedVariable ∈ _
        rw [mem_dedup]
        exact List.mem_append_left _ (List.mem_append_left _ h)
    · exact h
  | ok a => exact h
  | panic w => exact h
  | nondet => exact h
  | unmodelled w => exact h

/-- on a map-ordered list, a failing loop is widened by the outcome of *every* element: if some element's outcome is
    `Und`, so is the widened outcome -/
theorem widen_und_any {α} (wt : ATag) (ws : List Val) (fs : List (Val → Res Val)) (extra : List Cat) {r : Res α}
    {g : Val → Res Val} {y : Val} (hen : enum2 wt ws = true) (hy : y ∈ ws) (hg : g ∈ fs) (hgy : Und (g y))
    (hnok : ∀ a, r ≠ .ok a) (hnp : NP r) : Und (widen wt ws fs extra r) := by
  cases r with
  | err cs =>
    simp only [widen, hen, if_true]
    split
    · trivial
    · rename_i hany
      show Cat.undefinedVariable ∈ _
      rw [mem_dedup]
      apply List.mem_append_right
      rw [List.mem_flatMap]
      refine ⟨y, hy, ?_⟩
      rw [List.mem_flatMap]
      refine ⟨g, hg, ?_⟩
      cases hgy' : g y with
      | err c => rw [hgy'] at hgy; exact hgy
      | ok a => rw [hgy'] at hgy; exact hgy.elim
      | panic w => rw [hgy'] at hgy; exact hgy.elim
      | nondet =>
        exfalso; apply hany
        rw [List.any_eq_true]; refine ⟨y, hy, ?_⟩
        rw [List.any_eq_true]; exact ⟨g, hg, by rw [hgy']⟩
      | unmodelled w =>
        exfalso; apply hany
        rw [List.any_eq_true]; refine ⟨y, hy, ?_⟩
        rw [List.any_eq_true]; exact ⟨g, hg, by rw [hgy']⟩
  | ok a => exact absurd rfl (hnok a)
  | panic w => exact hnp.elim
  | nondet => trivial
  | unmodelled w => trivial

/-- the two together, for the shape `widen … (loop >>= k)` every higher-order function has -/
theorem widen_bind_und {α β} (wt : ATag) (ws : List Val) (fs : List (Val → Res Val)) (extra : List Cat) {L : Res β}
    (k : β → Res α) {g : Val → Res Val} {y : Val} (hg : g ∈ fs) (hgy : Und (g y)) (hnp : NP L)
    (h : Und L ∨ (enum2 wt ws = true ∧ y ∈ ws ∧ ∀ b, L ≠ .ok b)) : Und (widen wt ws fs extra (L >>= k)) := by
  rcases h with h | ⟨hen, hy, hnok⟩
  · exact widen_und _ _ _ _ (h.bind k)
  · apply widen_und_any wt ws fs extra hen hy hg hgy
    · intro a e
      cases L with
      | ok b => exact hnok b rfl
      | err c => cases e
      | panic w => cases e
      | nondet => cases e
      | unmodelled w => cases e
    · cases L with
      | ok b => exact absurd rfl (hnok b)
      | err c => trivial
      | panic w => exact hnp.elim
      | nondet => trivial
      | unmodelled w => trivial

theorem widen_err_inv {α} {wt : ATag} {ws : List Val} {fs : List (Val → Res Val)} {extra : List Cat} {r : Res α}
    {cs : List Cat} (h : widen wt ws fs extra r = .err cs) :
    ∃ cs0, r = .err cs0 ∧ (cs = cs0 ∨ (enum2 wt ws = true ∧
      cs = Cat.dedup (cs0 ++ extra ++ ws.flatMap (fun x => fs.flatMap (fun f => match f x with | .err c => c | _ => []))))) := by
  cases r with
  | err cs0 =>
    refine ⟨cs0, rfl, ?_⟩
    simp only [widen] at h
    split at h
    · rename_i hen
      split at h
      · cases h
      · right; exact ⟨hen, (Res.err.inj h).symm⟩
    · left; exact (Res.err.inj h).symm
  | ok a => cases h
  | panic w => cases h
  | nondet => cases h
  | unmodelled w => cases h

/-- inversion: an undefined-variable category in the outcome of `widen … (loop >>= k)` (where `k` itself never fails and
    `extra` does not list the category) comes from the loop's own error, or — on a map-ordered list — from the error
    of some element under one of the functions -/
theorem widen_bind_inv {α β} {wt : ATag} {ws : List Val} {fs : List (Val → Res Val)} {extra : List Cat} {L : Res β}
    {k : β → Res α} {cs : List Cat} (hk : ∀ b c, k b ≠ .err c) (hex : Cat.undefinedVariable ∉ extra)
    (h : widen wt ws fs extra (L >>= k) = .err cs) (hu : Cat.undefinedVariable ∈ cs) :
    ∃ cs0, L = .err cs0 ∧ (Cat.undefinedVariable ∈ cs0 ∨
      (enum2 wt ws = true ∧ ∃ y ∈ ws, ∃ g ∈ fs, ∃ c, g y = .err c ∧ Cat.undefinedVariable ∈ c)) := by
  obtain ⟨cs0, h0, hcs⟩ := widen_err_inv h
  rcases bind_err_cases h0 with hL | ⟨b, _, hb⟩
  · refine ⟨cs0, hL, ?_⟩
    rcases hcs with rfl | ⟨hen, rfl⟩
    · exact Or.inl hu
    · rw [mem_dedup, List.mem_append, List.mem_append] at hu
      rcases hu with (hu | hu) | hu
      · exact Or.inl hu
      · exact absurd hu hex
      · right
        refine ⟨hen, ?_⟩
        rw [List.mem_flatMap] at hu
        obtain ⟨y, hy, hu⟩ := hu
        rw [List.mem_flatMap] at hu
        obtain ⟨g, hg, hu⟩ := hu
        refine ⟨y, hy, g, hg, ?_⟩
        cases hgy : g y with
        | err c => rw [hgy] at hu; exact ⟨c, rfl, hu⟩
        | ok a => rw [hgy] at hu; cases hu
        | panic w => rw [hgy] at hu; cases hu
        | nondet => rw [hgy] at hu; cases hu
        | unmodelled w => rw [hgy] at hu; cases hu
  · exact absurd hb (hk b cs0)

/-! ## Part 3: the loops -/

/-- every element of the prefix is processed without failure -/
def AllOk (f : Val → Res Val) (pre : List Val) : Prop := ∀ z ∈ pre, ∃ v, f z = .ok v

/-- filter-and-project: on every element of the prefix the predicate evaluates, and where it is truthy so does the
    right-hand side -/
def AllOk2 (c f : Val → Res Val) (pre : List Val) : Prop :=
  ∀ z ∈ pre, ∃ b, c z = .ok b ∧ (isTrue b = true → ∃ v, f z = .ok v)

theorem AllOk.nil (f : Val → Res Val) : AllOk f [] := fun _ h => by cases h
theorem AllOk.cons {f : Val → Res Val} {z v : Val} {pre : List Val} (hz : f z = .ok v) (h : AllOk f pre) :
    AllOk f (z :: pre) := by
  intro w hw
  rcases List.mem_cons.mp hw with rfl | hw
  · exact ⟨v, hz⟩
  · exact h w hw
theorem AllOk2.nil (c f : Val → Res Val) : AllOk2 c f [] := fun _ h => by cases h

/-- what the node-level proofs need to know of a loop `L` that applies `f` to the elements of `xs` from left to right:
    `okPre pre` says that the loop gets through the prefix `pre` -/
structure LoopSpec {β} (f : Val → Res Val) (okPre : List Val → Prop) (xs : List Val) (L : Res β) : Prop where
  /-- a failing element after a good prefix: the loop fails the same way -/
  fwd : ∀ pre y post, xs = pre ++ y :: post → okPre pre → Und (f y) → Und L
  /-- an undefined-variable error of the loop is the error of its first failing element -/
  bwd : ∀ cs, L = .err cs → Cat.undefinedVariable ∈ cs →
    ∃ pre y post, xs = pre ++ y :: post ∧ okPre pre ∧ f y = .err cs
  /-- no panic unless the function panics -/
  np : (∀ z, NP (f z)) → NP L

/-! ### `mapPrune` -/

set_option linter.unusedVariables false

theorem mapPrune_fwd {f : Val → Res Val} {y : Val} (post : List Val) (hy : Und (f y)) :
    ∀ pre, AllOk f pre → Und (mapPrune f (pre ++ y :: post))
  | [], _ => by
    simp only [List.nil_append, mapPrune]
    exact hy.bind _
  | z :: pre, h => by
    obtain ⟨v, hz⟩ := h z List.mem_cons_self
    simp only [List.cons_append, mapPrune, hz, Res.ok_bind]
    exact (mapPrune_fwd post hy pre (fun w hw => h w (List.mem_cons_of_mem _ hw))).bind _

theorem mapPrune_bwd {f : Val → Res Val} {cs : List Cat} :
    ∀ xs, mapPrune f xs = .err cs → ∃ pre y post, xs = pre ++ y :: post ∧ AllOk f pre ∧ f y = .err cs
  | [], h => by cases h
  | x :: xs, h => by
    simp only [mapPrune] at h
    rcases bind_err_cases h with h1 | ⟨p, h1, h2⟩
    · exact ⟨[], x, xs, rfl, AllOk.nil f, h1⟩
    · rcases bind_err_cases h2 with h3 | ⟨rest, _, h4⟩
      · obtain ⟨pre, y, post, rfl, hp, hy⟩ := mapPrune_bwd xs h3
        exact ⟨x :: pre, y, post, rfl, AllOk.cons h1 hp, hy⟩
      · cases h4

theorem mapPrune_spec (f : Val → Res Val) (xs : List Val) : LoopSpec f (AllOk f) xs (mapPrune f xs) where
  fwd := fun pre y post e hp hy => e ▸ mapPrune_fwd post hy pre hp
  bwd := fun _ h _ => mapPrune_bwd xs h
  np := fun hf => mapPrune_sat hf xs

/-! ### `mapAll` -/

theorem mapAll_fwd {f : Val → Res Val} {y : Val} (post : List Val) (hy : Und (f y)) :
    ∀ pre, AllOk f pre → Und (mapAll f (pre ++ y :: post))
  | [], _ => by
    simp only [List.nil_append, mapAll]
    exact hy.bind _
  | z :: pre, h => by
    obtain ⟨v, hz⟩ := h z List.mem_cons_self
    simp only [List.cons_append, mapAll, hz, Res.ok_bind]
    exact (mapAll_fwd post hy pre (fun w hw => h w (List.mem_cons_of_mem _ hw))).bind _

theorem mapAll_bwd {f : Val → Res Val} {cs : List Cat} :
    ∀ xs, mapAll f xs = .err cs → ∃ pre y post, xs = pre ++ y :: post ∧ AllOk f pre ∧ f y = .err cs
  | [], h => by cases h
  | x :: xs, h => by
    simp only [mapAll] at h
    rcases bind_err_cases h with h1 | ⟨p, h1, h2⟩
    · exact ⟨[], x, xs, rfl, AllOk.nil f, h1⟩
    · rcases bind_err_cases h2 with h3 | ⟨rest, _, h4⟩
      · obtain ⟨pre, y, post, rfl, hp, hy⟩ := mapAll_bwd xs h3
        exact ⟨x :: pre, y, post, rfl, AllOk.cons h1 hp, hy⟩
      · cases h4

theorem mapAll_spec (f : Val → Res Val) (xs : List Val) : LoopSpec f (AllOk f) xs (mapAll f xs) where
  fwd := fun pre y post e hp hy => e ▸ mapAll_fwd post hy pre hp
  bwd := fun _ h _ => mapAll_bwd xs h
  np := fun hf => mapAll_sat hf xs

/-! ### `filterLoop` -/

theorem filterLoop_fwd {f : Val → Res Val} {y : Val} (post : List Val) (hy : Und (f y)) :
    ∀ pre, AllOk f pre → Und (filterLoop f (pre ++ y :: post))
  | [], _ => by
    simp only [List.nil_append, filterLoop]
    exact hy.bind _
  | z :: pre, h => by
    obtain ⟨v, hz⟩ := h z List.mem_cons_self
    simp only [List.cons_append, filterLoop, hz, Res.ok_bind]
    exact (filterLoop_fwd post hy pre (fun w hw => h w (List.mem_cons_of_mem _ hw))).bind _

theorem filterLoop_bwd {f : Val → Res Val} {cs : List Cat} :
    ∀ xs, filterLoop f xs = .err cs → ∃ pre y post, xs = pre ++ y :: post ∧ AllOk f pre ∧ f y = .err cs
  | [], h => by cases h
  | x :: xs, h => by
    simp only [filterLoop] at h
    rcases bind_err_cases h with h1 | ⟨p, h1, h2⟩
    · exact ⟨[], x, xs, rfl, AllOk.nil f, h1⟩
    · rcases bind_err_cases h2 with h3 | ⟨rest, _, h4⟩
      · obtain ⟨pre, y, post, rfl, hp, hy⟩ := filterLoop_bwd xs h3
        exact ⟨x :: pre, y, post, rfl, AllOk.cons h1 hp, hy⟩
      · cases h4

theorem filterLoop_spec (f : Val → Res Val) (xs : List Val) : LoopSpec f (AllOk f) xs (filterLoop f xs) where
  fwd := fun pre y post e hp hy => e ▸ filterLoop_fwd post hy pre hp
  bwd := fun _ h _ => filterLoop_bwd xs h
  np := fun hf => filterLoop_sat hf xs

/-! ### `filterMapPrune` (two functions: not a `LoopSpec`) -/

theorem filterMapPrune_cons_ok {c f : Val → Res Val} {z b : Val} (xs : List Val) (hc : c z = .ok b)
    (hf : isTrue b = true → ∃ v, f z = .ok v) :
    ∃ k : List Val → Res (List Val), filterMapPrune c f (z :: xs) = (filterMapPrune c f xs >>= k) ∧ ∀ l c', k l ≠ .err c' := by
  cases hb : isTrue b with
  | false =>
    refine ⟨fun l => .ok l, ?_, fun l c' e => by cases e⟩
    simp only [filterMapPrune, hc, Res.ok_bind, hb, Bool.false_eq_true, if_false, Res.bind_ok]
  | true =>
    obtain ⟨v, hv⟩ := hf hb
    refine ⟨fun rest => pure (if v.isNull then rest else v :: rest), ?_, fun l c' e => by cases e⟩
    simp only [filterMapPrune, hc, Res.ok_bind, hb, if_true, hv]

/-- the predicate fails on `y` -/
theorem filterMapPrune_fwd_pred {c f : Val → Res Val} {y : Val} (post : List Val) (hy : Und (c y)) :
    ∀ pre, AllOk2 c f pre → Und (filterMapPrune c f (pre ++ y :: post))
  | [], _ => by
    simp only [List.nil_append, filterMapPrune]
    exact hy.bind _
  | z :: pre, h => by
    obtain ⟨b, hz, hb⟩ := h z List.mem_cons_self
    obtain ⟨k, hk, _⟩ := filterMapPrune_cons_ok (pre ++ y :: post) hz hb
    rw [List.cons_append, hk]
    exact (filterMapPrune_fwd_pred post hy pre (fun w hw => h w (List.mem_cons_of_mem _ hw))).bind _

/-- the predicate is truthy on `y` and the right-hand side fails -/
theorem filterMapPrune_fwd_rhs {c f : Val → Res Val} {y b : Val} (post : List Val) (hc : c y = .ok b)
    (hb : isTrue b = true) (hy : Und (f y)) :
    ∀ pre, AllOk2 c f pre → Und (filterMapPrune c f (pre ++ y :: post))
  | [], _ => by
    simp only [List.nil_append, filterMapPrune, hc, Res.ok_bind, hb, if_true]
    exact hy.bind _
  | z :: pre, h => by
    obtain ⟨b', hz, hb'⟩ := h z List.mem_cons_self
    obtain ⟨k, hk, _⟩ := filterMapPrune_cons_ok (pre ++ y :: post) hz hb'
    rw [List.cons_append, hk]
    exact (filterMapPrune_fwd_rhs post hc hb hy pre (fun w hw => h w (List.mem_cons_of_mem _ hw))).bind _

theorem filterMapPrune_bwd {c f : Val → Res Val} {cs : List Cat} :
    ∀ xs, filterMapPrune c f xs = .err cs → ∃ pre y post, xs = pre ++ y :: post ∧ AllOk2 c f pre ∧
      (c y = .err cs ∨ ∃ b, c y = .ok b ∧ isTrue b = true ∧ f y = .err cs)
  | [], h => by cases h
  | x :: xs, h => by
    have hcons : ∀ {b : Val}, c x = .ok b → (isTrue b = true → ∃ v, f x = .ok v) →
        filterMapPrune c f xs = .err cs → ∃ pre y post, x :: xs = pre ++ y :: post ∧ AllOk2 c f pre ∧
          (c y = .err cs ∨ ∃ b, c y = .ok b ∧ isTrue b = true ∧ f y = .err cs) := by
      intro b hc hf h3
      obtain ⟨pre, y, post, rfl, hp, hy⟩ := filterMapPrune_bwd xs h3
      refine ⟨x :: pre, y, post, rfl, ?_, hy⟩
      intro w hw
      rcases List.mem_cons.mp hw with rfl | hw
      · exact ⟨b, hc, hf⟩
      · exact hp w hw
    simp only [filterMapPrune] at h
    rcases bind_err_cases h with h1 | ⟨b, h1, h2⟩
    · exact ⟨[], x, xs, rfl, AllOk2.nil c f, Or.inl h1⟩
    · cases hb : isTrue b with
      | false =>
        simp only [hb, Bool.false_eq_true, if_false] at h2
        exact hcons h1 (fun e => by rw [hb] at e; cases e) h2
      | true =>
        simp only [hb, if_true] at h2
        rcases bind_err_cases h2 with h3 | ⟨p, h3, h4⟩
        · exact ⟨[], x, xs, rfl, AllOk2.nil c f, Or.inr ⟨b, h1, hb, h3⟩⟩
        · rcases bind_err_cases h4 with h5 | ⟨rest, _, h6⟩
          · exact hcons h1 (fun _ => ⟨p, h3⟩) h5
          · cases h6

/-! ### `keysFrom` / `keysOf` -/

theorem keysFrom_fwd {f : Val → Res Val} {y : Val} (isStr : Bool) (post : List Val) (hy : Und (f y)) :
    ∀ pre ks, keysFrom f isStr pre = .ok ks → Und (keysFrom f isStr (pre ++ y :: post))
  | [], _, _ => by
    simp only [List.nil_append, keysFrom]
    exact hy.bind _
  | z :: pre, ks, h => by
    simp only [keysFrom] at h
    obtain ⟨rv, h1, h2⟩ := bind_ok_cases h
    obtain ⟨k, h3, h4⟩ := bind_ok_cases h2
    obtain ⟨rest, h5, _⟩ := bind_ok_cases h4
    simp only [List.cons_append, keysFrom, h1, Res.ok_bind, h3]
    exact (keysFrom_fwd isStr post hy pre rest h5).bind _

theorem keysFrom_bwd {f : Val → Res Val} {cs : List Cat} (isStr : Bool) (hu : Cat.undefinedVariable ∈ cs) :
    ∀ xs, keysFrom f isStr xs = .err cs →
      ∃ pre y post ks, xs = pre ++ y :: post ∧ keysFrom f isStr pre = .ok ks ∧ f y = .err cs
  | [], h => by cases h
  | x :: xs, h => by
    simp only [keysFrom] at h
    rcases bind_err_cases h with h1 | ⟨rv, h1, h2⟩
    · exact ⟨[], x, xs, [], rfl, rfl, h1⟩
    · rcases bind_err_cases h2 with h3 | ⟨k, h3, h4⟩
      · exfalso
        split at h3
        · split at h3
          · cases h3
          · cases h3; exact not_uv_errType hu
        · split at h3
          · cases h3
          · cases h3; exact not_uv_errType hu
      · rcases bind_err_cases h4 with h5 | ⟨rest, _, h6⟩
        · obtain ⟨pre, y, post, ks, rfl, hp, hy⟩ := keysFrom_bwd isStr hu xs h5
          refine ⟨x :: pre, y, post, k :: ks, rfl, ?_, hy⟩
          simp only [keysFrom, h1, Res.ok_bind, h3, hp, Res.pure_eq]
        · cases h6

/-- the loop gets through the prefix: its keys exist and are all of one kind -/
def KeysOk (f : Val → Res Val) (pre : List Val) : Prop := ∃ ks, keysOf f pre = .ok ks

theorem keysOf_fwd {f : Val → Res Val} {y : Val} (post : List Val) (hy : Und (f y)) :
    ∀ pre, KeysOk f pre → Und (keysOf f (pre ++ y :: post))
  | [], _ => by
    simp only [List.nil_append, keysOf]
    exact hy.bind _
  | z :: pre, ⟨ks, h⟩ => by
    simp only [keysOf] at h
    obtain ⟨first, h1, h2⟩ := bind_ok_cases h
    simp only [List.cons_append, keysOf, h1, Res.ok_bind]
    split
    · obtain ⟨rest, h3, _⟩ := bind_ok_cases h2
      exact (keysFrom_fwd true post hy pre rest h3).bind _
    · rename_i hns
      split
      · rename_i htd
        split at h2
        · exact (hns _ rfl).elim
        · rw [htd] at h2; cases h2
      · rename_i d htd
        split at h2
        · exact (hns _ rfl).elim
        · rw [htd] at h2
          obtain ⟨rest, h3, _⟩ := bind_ok_cases h2
          exact (keysFrom_fwd false post hy pre rest h3).bind _

theorem keysOf_bwd {f : Val → Res Val} {cs : List Cat} (hu : Cat.undefinedVariable ∈ cs) :
    ∀ xs, keysOf f xs = .err cs → ∃ pre y post, xs = pre ++ y :: post ∧ KeysOk f pre ∧ f y = .err cs
  | [], h => by cases h
  | x :: xs, h => by
    simp only [keysOf] at h
    rcases bind_err_cases h with h1 | ⟨first, h1, h2⟩
    · exact ⟨[], x, xs, rfl, ⟨[], rfl⟩, h1⟩
    · split at h2
      · rename_i s
        rcases bind_err_cases h2 with h3 | ⟨rest, _, h4⟩
        · obtain ⟨pre, y, post, ks, rfl, hp, hy⟩ := keysFrom_bwd true hu xs h3
          refine ⟨x :: pre, y, post, rfl, ⟨Key.s s :: ks, ?_⟩, hy⟩
          simp only [keysOf, h1, Res.ok_bind, hp, Res.pure_eq]
        · cases h4
      · rename_i hns
        split at h2
        · cases h2; exact absurd hu not_uv_errType
        · rename_i d htd
          rcases bind_err_cases h2 with h3 | ⟨rest, _, h4⟩
          · obtain ⟨pre, y, post, ks, rfl, hp, hy⟩ := keysFrom_bwd false hu xs h3
            refine ⟨x :: pre, y, post, rfl, ⟨Key.n d :: ks, ?_⟩, hy⟩
            simp only [keysOf, h1, Res.ok_bind]
            cases first with
            | str s => exact (hns s rfl).elim
            | _ => simp only [htd, hp, Res.ok_bind, Res.pure_eq]
          · cases h4

theorem keysOf_spec (f : Val → Res Val) (xs : List Val) : LoopSpec f (KeysOk f) xs (keysOf f xs) where
  fwd := fun pre y post e hp hy => e ▸ keysOf_fwd post hy pre hp
  bwd := fun _ h hu => keysOf_bwd hu xs h
  np := fun hf => keysOf_sat hf xs

/-! ### `groupLoop` -/

/-- the loop gets through the prefix: every key is a string -/
def GroupOk (f : Val → Res Val) (pre : List Val) : Prop := ∃ acc, groupLoop f pre [] = .ok acc

theorem groupLoop_fwd {f : Val → Res Val} {y : Val} (post : List Val) (hy : Und (f y)) :
    ∀ pre acc acc', groupLoop f pre acc = .ok acc' → Und (groupLoop f (pre ++ y :: post) acc)
  | [], _, _, _ => by
    simp only [List.nil_append, groupLoop]
    exact hy.bind _
  | z :: pre, acc, acc', h => by
    simp only [groupLoop] at h
    obtain ⟨rv, h1, h2⟩ := bind_ok_cases h
    simp only [List.cons_append, groupLoop, h1, Res.ok_bind]
    split
    · exact groupLoop_fwd post hy pre _ acc' h2
    · rename_i hns
      split at h2
      · exact (hns _ rfl).elim
      · cases h2

theorem groupLoop_bwd {f : Val → Res Val} {cs : List Cat} (hu : Cat.undefinedVariable ∈ cs) :
    ∀ xs acc, groupLoop f xs acc = .err cs →
      ∃ pre y post acc', xs = pre ++ y :: post ∧ groupLoop f pre acc = .ok acc' ∧ f y = .err cs
  | [], _, h => by cases h
  | x :: xs, acc, h => by
    simp only [groupLoop] at h
    rcases bind_err_cases h with h1 | ⟨rv, h1, h2⟩
    · exact ⟨[], x, xs, acc, rfl, rfl, h1⟩
    · split at h2
      · obtain ⟨pre, y, post, acc', rfl, hp, hy⟩ := groupLoop_bwd hu xs _ h2
        refine ⟨x :: pre, y, post, acc', rfl, ?_, hy⟩
        simp only [groupLoop, h1, Res.ok_bind, hp]
      · cases h2; exact absurd hu not_uv_errType

theorem groupLoop_spec (f : Val → Res Val) (xs : List Val) : LoopSpec f (GroupOk f) xs (groupLoop f xs []) where
  fwd := fun pre y post e ⟨acc', hp⟩ hy => e ▸ groupLoop_fwd post hy pre [] acc' hp
  bwd := fun _ h hu =>
    let ⟨pre, y, post, acc', e, hp, hy⟩ := groupLoop_bwd hu xs [] h
    ⟨pre, y, post, e, ⟨acc', hp⟩, hy⟩
  np := fun hf => groupLoop_sat hf xs []

/-! ## Part 4: which elements does a loop visit? -/

/-- **`y` is an element the loop over `xs` gets to.**  Either (ordered) `y` sits at some position of `xs` and the loop
    gets through everything before it (`okPre`) — this is sound whatever the order is —, or (map-ordered) the list the
    failure is widened over, `ws`, was produced by ranging over a Go map (`en = enum2 t ws`: tagged `enum`, at least
    two elements: any element may come first), the loop fails (`bad`), and `y` is *any* element of `ws`. -/
def Visits (okPre : List Val → Prop) (xs : List Val) (en : Bool) (ws : List Val) (bad : Prop) (y : Val) : Prop :=
  (∃ pre post, xs = pre ++ y :: post ∧ okPre pre) ∨ (en = true ∧ y ∈ ws ∧ bad)

/-- the first element is always visited -/
theorem Visits.head {okPre : List Val → Prop} (h : okPre []) (y : Val) (post : List Val) (en : Bool) (ws : List Val)
    (bad : Prop) : Visits okPre (y :: post) en ws bad y := Or.inl ⟨[], post, rfl, h⟩

theorem Visits.mem {okPre : List Val → Prop} {xs ws : List Val} {en : Bool} {bad : Prop} {y : Val}
    (h : Visits okPre xs en ws bad y) : y ∈ xs ∨ y ∈ ws := by
  rcases h with ⟨pre, post, rfl, _⟩ | ⟨_, h, _⟩
  · exact Or.inl (List.mem_append_right _ List.mem_cons_self)
  · exact Or.inr h

theorem Visits.ne_nil {okPre : List Val → Prop} {xs : List Val} {en : Bool} {bad : Prop} {y : Val}
    (h : Visits okPre xs en xs bad y) : xs ≠ [] := by
  intro e; subst e
  rcases h.mem with h | h <;> cases h

/-- nothing is visited in an empty list -/
example (okPre : List Val → Prop) (en : Bool) (bad : Prop) (y : Val) : ¬ Visits okPre [] en [] bad y :=
  fun h => h.ne_nil rfl

theorem loop_und {α β} {f : Val → Res Val} {okPre : List Val → Prop} {xs : List Val} {L : Res β}
    (spec : LoopSpec f okPre xs L) (wt : ATag) (ws : List Val) (fs : List (Val → Res Val)) (extra : List Cat)
    (k : β → Res α) {y : Val} (hg : f ∈ fs) (hv : Visits okPre xs (enum2 wt ws) ws (∀ b, L ≠ .ok b) y)
    (hy : Und (f y)) (hnp : ∀ z, NP (f z)) : Und (widen wt ws fs extra (L >>= k)) := by
  apply widen_bind_und wt ws fs extra k hg hy (spec.np hnp)
  rcases hv with ⟨pre, post, e, hp⟩ | h
  · exact Or.inl (spec.fwd pre y post e hp hy)
  · exact Or.inr h

theorem loop_inv {α β} {f : Val → Res Val} {okPre : List Val → Prop} {xs : List Val} {L : Res β}
    (spec : LoopSpec f okPre xs L) {wt : ATag} {ws : List Val} {extra : List Cat} {k : β → Res α} {cs : List Cat}
    (hk : ∀ b c, k b ≠ .err c) (hex : Cat.undefinedVariable ∉ extra)
    (h : widen wt ws [f] extra (L >>= k) = .err cs) (hu : Cat.undefinedVariable ∈ cs) :
    ∃ y cs', Visits okPre xs (enum2 wt ws) ws (∀ b, L ≠ .ok b) y ∧ f y = .err cs' ∧ Cat.undefinedVariable ∈ cs' := by
  obtain ⟨cs0, hL, h'⟩ := widen_bind_inv hk hex h hu
  rcases h' with hu0 | ⟨hen, y, hy, g, hg, c, hgy, huc⟩
  · obtain ⟨pre, y, post, e, hp, hy⟩ := spec.bwd cs0 hL hu0
    exact ⟨y, cs0, Or.inl ⟨pre, post, e, hp⟩, hy, hu0⟩
  · rw [List.mem_singleton] at hg
    subst hg
    exact ⟨y, c, Or.inr ⟨hen, hy, by rw [hL]; intro b e; cases e⟩, hgy, huc⟩

theorem not_uv_nil : Cat.undefinedVariable ∉ ([] : List Cat) := by simp

section hof
variable {f c : Val → Res Val}

/-! ### projections -/

theorem projectArray_und {t : ATag} {xs : List Val} {y : Val}
    (hv : Visits (AllOk f) xs (enum2 t xs) xs (∀ b, mapPrune f xs ≠ .ok b) y) (hy : Und (f y)) (hnp : ∀ z, NP (f z)) :
    Und (projectArray f (.arr t xs)) := by
  simp only [projectArray]
  exact loop_und (mapPrune_spec f xs) t xs [f] [] _ (List.mem_singleton.mpr rfl) hv hy hnp

theorem projectArray_inv {v : Val} {cs : List Cat} (h : projectArray f v = .err cs) (hu : Cat.undefinedVariable ∈ cs) :
    ∃ t xs y cs', v = .arr t xs ∧ Visits (AllOk f) xs (enum2 t xs) xs (∀ b, mapPrune f xs ≠ .ok b) y ∧
      f y = .err cs' ∧ Cat.undefinedVariable ∈ cs' := by
  cases v with
  | arr t xs =>
    simp only [projectArray] at h
    obtain ⟨y, cs', hv, hy, hu'⟩ := loop_inv (mapPrune_spec f xs) (fun b c e => by cases e) not_uv_nil h hu
    exact ⟨t, xs, y, cs', rfl, hv, hy, hu'⟩
  | _ => cases h

theorem projectObject_und {kvs : List (Bytes × Val)} {y : Val}
    (hv : Visits (AllOk f) (kvs.map Prod.snd) (enum2 .enum (kvs.map Prod.snd)) (kvs.map Prod.snd)
      (∀ b, mapPrune f (kvs.map Prod.snd) ≠ .ok b) y) (hy : Und (f y)) (hnp : ∀ z, NP (f z)) :
    Und (projectObject f (.obj kvs)) := by
  simp only [projectObject]
  exact loop_und (mapPrune_spec f _) .enum _ [f] [] _ (List.mem_singleton.mpr rfl) hv hy hnp

theorem projectObject_inv {v : Val} {cs : List Cat} (h : projectObject f v = .err cs) (hu : Cat.undefinedVariable ∈ cs) :
    ∃ kvs y cs', v = .obj kvs ∧ Visits (AllOk f) (kvs.map Prod.snd) (enum2 .enum (kvs.map Prod.snd)) (kvs.map Prod.snd)
      (∀ b, mapPrune f (kvs.map Prod.snd) ≠ .ok b) y ∧ f y = .err cs' ∧ Cat.undefinedVariable ∈ cs' := by
  cases v with
  | obj kvs =>
    simp only [projectObject] at h
    obtain ⟨y, cs', hv, hy, hu'⟩ := loop_inv (mapPrune_spec f _) (fun b c e => by cases e) not_uv_nil h hu
    exact ⟨kvs, y, cs', rfl, hv, hy, hu'⟩
  | _ => cases h

theorem flattenAndProjectArray_und {t : ATag} {xs : List Val} {y : Val}
    (hv : Visits (AllOk f) (flattenForProject xs) (enum2 (flattenTag t xs) (flattenForProject xs ++ [.null, .null]))
      (flattenForProject xs ++ [.null, .null]) (∀ b, mapPrune f (flattenForProject xs) ≠ .ok b) y)
    (hy : Und (f y)) (hnp : ∀ z, NP (f z)) : Und (flattenAndProjectArray f (.arr t xs)) := by
  simp only [flattenAndProjectArray]
  exact loop_und (mapPrune_spec f _) _ _ [f] [] _ (List.mem_singleton.mpr rfl) hv hy hnp

theorem flattenAndProjectArray_inv {v : Val} {cs : List Cat} (h : flattenAndProjectArray f v = .err cs)
    (hu : Cat.undefinedVariable ∈ cs) :
    ∃ t xs y cs', v = .arr t xs ∧
      Visits (AllOk f) (flattenForProject xs) (enum2 (flattenTag t xs) (flattenForProject xs ++ [.null, .null]))
        (flattenForProject xs ++ [.null, .null]) (∀ b, mapPrune f (flattenForProject xs) ≠ .ok b) y ∧
      f y = .err cs' ∧ Cat.undefinedVariable ∈ cs' := by
  cases v with
  | arr t xs =>
    simp only [flattenAndProjectArray] at h
    obtain ⟨y, cs', hv, hy, hu'⟩ := loop_inv (mapPrune_spec f _) (fun b c e => by cases e) not_uv_nil h hu
    exact ⟨t, xs, y, cs', rfl, hv, hy, hu'⟩
  | _ => cases h

/-! ### filter -/

theorem filterArray_und {t : ATag} {xs : List Val} {y : Val}
    (hv : Visits (AllOk f) xs (enum2 t xs) xs (∀ b, filterLoop f xs ≠ .ok b) y) (hy : Und (f y)) (hnp : ∀ z, NP (f z)) :
    Und (filterArray f (.arr t xs)) := by
  simp only [filterArray]
  exact loop_und (filterLoop_spec f xs) t xs [f] [] _ (List.mem_singleton.mpr rfl) hv hy hnp

theorem filterArray_inv {v : Val} {cs : List Cat} (h : filterArray f v = .err cs) (hu : Cat.undefinedVariable ∈ cs) :
    ∃ t xs y cs', v = .arr t xs ∧ Visits (AllOk f) xs (enum2 t xs) xs (∀ b, filterLoop f xs ≠ .ok b) y ∧
      f y = .err cs' ∧ Cat.undefinedVariable ∈ cs' := by
  cases v with
  | arr t xs =>
    simp only [filterArray] at h
    obtain ⟨y, cs', hv, hy, hu'⟩ := loop_inv (filterLoop_spec f xs) (fun b c e => by cases e) not_uv_nil h hu
    exact ⟨t, xs, y, cs', rfl, hv, hy, hu'⟩
  | _ => cases h

/-! ### map -/

theorem mapArray_und {t : ATag} {xs : List Val} {y : Val}
    (hv : Visits (AllOk f) xs (enum2 t xs) xs (∀ b, mapAll f xs ≠ .ok b) y) (hy : Und (f y)) (hnp : ∀ z, NP (f z)) :
    Und (mapArray f (.arr t xs)) := by
  simp only [mapArray]
  exact loop_und (mapAll_spec f xs) t xs [f] [] _ (List.mem_singleton.mpr rfl) hv hy hnp

theorem mapArray_inv {v : Val} {cs : List Cat} (h : mapArray f v = .err cs) (hu : Cat.undefinedVariable ∈ cs) :
    ∃ t xs y cs', v = .arr t xs ∧ Visits (AllOk f) xs (enum2 t xs) xs (∀ b, mapAll f xs ≠ .ok b) y ∧
      f y = .err cs' ∧ Cat.undefinedVariable ∈ cs' := by
  cases v with
  | arr t xs =>
    simp only [mapArray] at h
    obtain ⟨y, cs', hv, hy, hu'⟩ := loop_inv (mapAll_spec f xs) (fun b c e => by cases e) not_uv_nil h hu
    exact ⟨t, xs, y, cs', rfl, hv, hy, hu'⟩
  | _ => cases h <;> exact absurd hu not_uv_errType

/-! ### sort_by, max_by, min_by -/

theorem sortArrayBy_und {t : ATag} {xs : List Val} {y : Val}
    (hv : Visits (KeysOk f) xs (enum2 t xs) xs (∀ b, keysOf f xs ≠ .ok b) y) (hy : Und (f y)) (hnp : ∀ z, NP (f z)) :
    Und (sortArrayBy f (.arr t xs)) := by
  have hne : xs.isEmpty = false := by
    cases xs with
    | nil => exact absurd rfl hv.ne_nil
    | cons _ _ => rfl
  simp only [sortArrayBy, hne, Bool.false_eq_true, if_false]
  exact loop_und (keysOf_spec f xs) t xs [f] _ _ (List.mem_singleton.mpr rfl) hv hy hnp

theorem sortArrayBy_inv {v : Val} {cs : List Cat} (h : sortArrayBy f v = .err cs) (hu : Cat.undefinedVariable ∈ cs) :
    ∃ t xs y cs', v = .arr t xs ∧ Visits (KeysOk f) xs (enum2 t xs) xs (∀ b, keysOf f xs ≠ .ok b) y ∧
      f y = .err cs' ∧ Cat.undefinedVariable ∈ cs' := by
  cases v with
  | arr t xs =>
    simp only [sortArrayBy] at h
    split at h
    · cases h
    · obtain ⟨y, cs', hv, hy, hu'⟩ := loop_inv (keysOf_spec f xs)
        (fun b c e => by split at e <;> cases e) not_uv_errType h hu
      exact ⟨t, xs, y, cs', rfl, hv, hy, hu'⟩
  | _ => cases h <;> exact absurd hu not_uv_errType

theorem arrayPickBy_und (better : Key → Key → Bool) {t : ATag} {xs : List Val} {y : Val}
    (hv : Visits (KeysOk f) xs (enum2 t xs) xs (∀ b, keysOf f xs ≠ .ok b) y) (hy : Und (f y)) (hnp : ∀ z, NP (f z)) :
    Und (arrayPickBy better f (.arr t xs)) := by
  cases xs with
  | nil => exact absurd rfl hv.ne_nil
  | cons x0 rest =>
    simp only [arrayPickBy]
    exact loop_und (keysOf_spec f (x0 :: rest)) t _ [f] _ _ (List.mem_singleton.mpr rfl) hv hy hnp

theorem arrayPickBy_inv (better : Key → Key → Bool) {v : Val} {cs : List Cat} (h : arrayPickBy better f v = .err cs)
    (hu : Cat.undefinedVariable ∈ cs) :
    ∃ t xs y cs', v = .arr t xs ∧ Visits (KeysOk f) xs (enum2 t xs) xs (∀ b, keysOf f xs ≠ .ok b) y ∧
      f y = .err cs' ∧ Cat.undefinedVariable ∈ cs' := by
  cases v with
  | arr t xs =>
    cases xs with
    | nil => cases h
    | cons x0 rest =>
      simp only [arrayPickBy] at h
      obtain ⟨y, cs', hv, hy, hu'⟩ := loop_inv (keysOf_spec f (x0 :: rest))
        (fun b c e => by split at e <;> first | cases e | (split at e <;> cases e)) not_uv_errType h hu
      exact ⟨t, _, y, cs', rfl, hv, hy, hu'⟩
  | _ => cases h <;> exact absurd hu not_uv_errType

/-! ### group_by -/

theorem groupBy_und {t : ATag} {xs : List Val} {y : Val}
    (hv : Visits (GroupOk f) xs (enum2 t xs) xs (∀ b, groupLoop f xs [] ≠ .ok b) y) (hy : Und (f y))
    (hnp : ∀ z, NP (f z)) : Und (groupBy f (.arr t xs)) := by
  have hne : xs.isEmpty = false := by
    cases xs with
    | nil => exact absurd rfl hv.ne_nil
    | cons _ _ => rfl
  simp only [groupBy, hne, Bool.false_eq_true, if_false]
  exact loop_und (groupLoop_spec f xs) t xs [f] _ _ (List.mem_singleton.mpr rfl) hv hy hnp

theorem groupBy_inv {v : Val} {cs : List Cat} (h : groupBy f v = .err cs) (hu : Cat.undefinedVariable ∈ cs) :
    ∃ t xs y cs', v = .arr t xs ∧ Visits (GroupOk f) xs (enum2 t xs) xs (∀ b, groupLoop f xs [] ≠ .ok b) y ∧
      f y = .err cs' ∧ Cat.undefinedVariable ∈ cs' := by
  cases v with
  | arr t xs =>
    simp only [groupBy] at h
    split at h
    · cases h
    · obtain ⟨y, cs', hv, hy, hu'⟩ := loop_inv (groupLoop_spec f xs) (fun b c e => by cases e) not_uv_errType h hu
      exact ⟨t, xs, y, cs', rfl, hv, hy, hu'⟩
  | _ => cases h <;> exact absurd hu not_uv_errType

/-! ### filter-and-project: the predicate `c` on every element, the right-hand side `f` where the predicate is truthy -/

theorem filterAndProjectArray_und_pred {t : ATag} {xs : List Val} {y : Val}
    (hv : Visits (AllOk2 c f) xs (enum2 t xs) xs (∀ b, filterMapPrune c f xs ≠ .ok b) y) (hy : Und (c y))
    (hc : ∀ z, NP (c z)) (hf : ∀ z, NP (f z)) : Und (filterAndProjectArray c f (.arr t xs)) := by
  simp only [filterAndProjectArray]
  apply widen_bind_und t xs [c, f] [] _ List.mem_cons_self hy (filterMapPrune_sat hf hc xs)
  rcases hv with ⟨pre, post, e, hp⟩ | h
  · exact Or.inl (e ▸ filterMapPrune_fwd_pred post hy pre hp)
  · exact Or.inr h

theorem filterAndProjectArray_und_rhs {t : ATag} {xs : List Val} {y : Val}
    (hv : Visits (fun pre => AllOk2 c f pre ∧ ∃ b, c y = .ok b ∧ isTrue b = true) xs (enum2 t xs) xs
      (∀ b, filterMapPrune c f xs ≠ .ok b) y) (hy : Und (f y))
    (hc : ∀ z, NP (c z)) (hf : ∀ z, NP (f z)) : Und (filterAndProjectArray c f (.arr t xs)) := by
  simp only [filterAndProjectArray]
  apply widen_bind_und t xs [c, f] [] _ (List.mem_cons_of_mem _ List.mem_cons_self) hy (filterMapPrune_sat hf hc xs)
  rcases hv with ⟨pre, post, e, hp, b, hcy, hb⟩ | h
  · exact Or.inl (e ▸ filterMapPrune_fwd_rhs post hcy hb hy pre hp)
  · exact Or.inr h

theorem filterAndProjectArray_inv {v : Val} {cs : List Cat} (h : filterAndProjectArray c f v = .err cs)
    (hu : Cat.undefinedVariable ∈ cs) :
    ∃ t xs y cs', v = .arr t xs ∧ Cat.undefinedVariable ∈ cs' ∧
      ((Visits (AllOk2 c f) xs (enum2 t xs) xs (∀ b, filterMapPrune c f xs ≠ .ok b) y ∧ c y = .err cs') ∨
       (Visits (fun pre => AllOk2 c f pre ∧ ∃ b, c y = .ok b ∧ isTrue b = true) xs (enum2 t xs) xs
          (∀ b, filterMapPrune c f xs ≠ .ok b) y ∧ f y = .err cs')) := by
  cases v with
  | arr t xs =>
    simp only [filterAndProjectArray] at h
    obtain ⟨cs0, hL, h'⟩ := widen_bind_inv (fun b c e => by cases e) not_uv_nil h hu
    have hbad : ∀ b, filterMapPrune c f xs ≠ .ok b := by rw [hL]; intro b e; cases e
    rcases h' with hu0 | ⟨hen, y, hy, g, hg, c', hgy, huc⟩
    · obtain ⟨pre, y, post, e, hp, hy⟩ := filterMapPrune_bwd xs hL
      refine ⟨t, xs, y, cs0, rfl, hu0, ?_⟩
      rcases hy with hy | ⟨b, hcy, hb, hy⟩
      · exact Or.inl ⟨Or.inl ⟨pre, post, e, hp⟩, hy⟩
      · exact Or.inr ⟨Or.inl ⟨pre, post, e, hp, b, hcy, hb⟩, hy⟩
    · refine ⟨t, xs, y, c', rfl, huc, ?_⟩
      simp only [List.mem_cons, List.not_mem_nil, or_false] at hg
      rcases hg with rfl | rfl
      · exact Or.inl ⟨Or.inr ⟨hen, hy, hbad⟩, hgy⟩
      · exact Or.inr ⟨Or.inr ⟨hen, hy, hbad⟩, hgy⟩
  | _ => cases h

end hof


/-! ### map-ordered lists: *any* element is visited

  On a map-ordered list the loop fails as soon as *some* element fails (a loop that succeeds has processed every
  element), so the side condition "the loop fails" of the map-ordered clause of `Visits` follows from the failure of `y`
  itself.  (Not so for the two phantom cases: the nulls appended by flatten-and-project, and elements of a
  filter-and-project whose predicate is falsy.) -/

theorem mapPrune_ok_all {f : Val → Res Val} : ∀ xs b, mapPrune f xs = .ok b → AllOk f xs
  | [], _, _ => AllOk.nil f
  | x :: xs, b, h => by
    simp only [mapPrune] at h
    obtain ⟨p, h1, h2⟩ := bind_ok_cases h
    obtain ⟨rest, h3, _⟩ := bind_ok_cases h2
    exact AllOk.cons h1 (mapPrune_ok_all xs rest h3)

theorem mapAll_ok_all {f : Val → Res Val} : ∀ xs b, mapAll f xs = .ok b → AllOk f xs
  | [], _, _ => AllOk.nil f
  | x :: xs, b, h => by
    simp only [mapAll] at h
    obtain ⟨p, h1, h2⟩ := bind_ok_cases h
    obtain ⟨rest, h3, _⟩ := bind_ok_cases h2
    exact AllOk.cons h1 (mapAll_ok_all xs rest h3)

theorem filterLoop_ok_all {f : Val → Res Val} : ∀ xs b, filterLoop f xs = .ok b → AllOk f xs
  | [], _, _ => AllOk.nil f
  | x :: xs, b, h => by
    simp only [filterLoop] at h
    obtain ⟨p, h1, h2⟩ := bind_ok_cases h
    obtain ⟨rest, h3, _⟩ := bind_ok_cases h2
    exact AllOk.cons h1 (filterLoop_ok_all xs rest h3)

theorem keysFrom_ok_all {f : Val → Res Val} (isStr : Bool) : ∀ xs b, keysFrom f isStr xs = .ok b → AllOk f xs
  | [], _, _ => AllOk.nil f
  | x :: xs, b, h => by
    simp only [keysFrom] at h
    obtain ⟨rv, h1, h2⟩ := bind_ok_cases h
    obtain ⟨k, _, h4⟩ := bind_ok_cases h2
    obtain ⟨rest, h5, _⟩ := bind_ok_cases h4
    exact AllOk.cons h1 (keysFrom_ok_all isStr xs rest h5)

theorem keysOf_ok_all {f : Val → Res Val} : ∀ xs b, keysOf f xs = .ok b → AllOk f xs
  | [], _, _ => AllOk.nil f
  | x :: xs, b, h => by
    simp only [keysOf] at h
    obtain ⟨first, h1, h2⟩ := bind_ok_cases h
    apply AllOk.cons h1
    split at h2
    · obtain ⟨rest, h3, _⟩ := bind_ok_cases h2
      exact keysFrom_ok_all true xs rest h3
    · split at h2
      · cases h2
      · obtain ⟨rest, h3, _⟩ := bind_ok_cases h2
        exact keysFrom_ok_all false xs rest h3

theorem groupLoop_ok_all {f : Val → Res Val} : ∀ xs acc b, groupLoop f xs acc = .ok b → AllOk f xs
  | [], _, _, _ => AllOk.nil f
  | x :: xs, acc, b, h => by
    simp only [groupLoop] at h
    obtain ⟨rv, h1, h2⟩ := bind_ok_cases h
    apply AllOk.cons h1
    split at h2
    · exact groupLoop_ok_all xs _ b h2
    · cases h2

theorem filterMapPrune_ok_all {c f : Val → Res Val} : ∀ xs b, filterMapPrune c f xs = .ok b → AllOk2 c f xs
  | [], _, _ => AllOk2.nil c f
  | x :: xs, b, h => by
    simp only [filterMapPrune] at h
    obtain ⟨bv, h1, h2⟩ := bind_ok_cases h
    have hcons : ∀ {b'}, (isTrue bv = true → ∃ v, f x = .ok v) → filterMapPrune c f xs = .ok b' →
        AllOk2 c f (x :: xs) := by
      intro b' hf h3 w hw
      rcases List.mem_cons.mp hw with rfl | hw
      · exact ⟨bv, h1, hf⟩
      · exact filterMapPrune_ok_all xs b' h3 w hw
    cases hb : isTrue bv with
    | false =>
      simp only [hb, Bool.false_eq_true, if_false] at h2
      exact hcons (fun e => by rw [hb] at e; cases e) h2
    | true =>
      simp only [hb, if_true] at h2
      obtain ⟨p, h3, h4⟩ := bind_ok_cases h2
      obtain ⟨rest, h5, _⟩ := bind_ok_cases h4
      exact hcons (fun _ => ⟨p, h3⟩) h5

/-- on a map-ordered list, any element on which `f` fails is visited -/
theorem Visits.any {β} {okPre : List Val → Prop} {xs : List Val} {en : Bool} {L : Res β} {f : Val → Res Val} {y : Val}
    (hall : ∀ b, L = .ok b → AllOk f xs) (hen : en = true) (hy : y ∈ xs) (hny : ∀ v, f y ≠ .ok v) :
    Visits okPre xs en xs (∀ b, L ≠ .ok b) y :=
  Or.inr ⟨hen, hy, fun b e => let ⟨v, hv⟩ := hall b e y hy; hny v hv⟩

/-! ## Part 5: member lists -/

/-! ### ordered: arguments, multi-select list members -/

theorem ievalList_und {root : Val} {a : INode} {cur : Val} {env : Env} (post : List INode)
    (ha : Und (ieval root a cur env)) :
    ∀ pre vs, ievalList root pre cur env = .ok vs → Und (ievalList root (pre ++ a :: post) cur env)
  | [], _, _ => by
    simp only [List.nil_append, ievalList]
    exact ha.bind _
  | n :: pre, vs, h => by
    simp only [ievalList] at h
    obtain ⟨v, h1, h2⟩ := bind_ok_cases h
    obtain ⟨vs', h3, _⟩ := bind_ok_cases h2
    simp only [List.cons_append, ievalList, h1, Res.ok_bind]
    exact (ievalList_und post ha pre vs' h3).bind _

theorem ievalMerge_und {root : Val} {a : INode} {cur : Val} {env : Env} (post : List INode)
    (ha : Und (ieval root a cur env)) :
    ∀ pre acc acc', ievalMerge root pre cur env acc = .ok acc' → Und (ievalMerge root (pre ++ a :: post) cur env acc)
  | [], _, _, _ => by
    simp only [List.nil_append, ievalMerge]
    exact ha.bind _
  | n :: pre, acc, acc', h => by
    simp only [ievalMerge] at h
    obtain ⟨v, h1, h2⟩ := bind_ok_cases h
    simp only [List.cons_append, ievalMerge, h1, Res.ok_bind]
    cases v with
    | obj kvs => exact ievalMerge_und post ha pre _ acc' h2
    | _ => cases h2

theorem ievalNotNull_und {root : Val} {a : INode} {cur : Val} {env : Env} (post : List INode)
    (ha : Und (ieval root a cur env)) :
    ∀ pre, ievalNotNull root pre cur env = .ok .null → Und (ievalNotNull root (pre ++ a :: post) cur env)
  | [], _ => by
    simp only [List.nil_append, ievalNotNull]
    exact ha.bind _
  | n :: pre, h => by
    simp only [ievalNotNull] at h
    obtain ⟨v, h1, h2⟩ := bind_ok_cases h
    simp only [List.cons_append, ievalNotNull, h1, Res.ok_bind]
    cases hv : v.isNull with
    | true =>
      simp only [hv, if_true] at h2 ⊢
      exact ievalNotNull_und post ha pre h2
    | false =>
      simp only [hv, Bool.false_eq_true, if_false, Res.pure_eq, Res.ok.injEq] at h2
      subst h2
      cases hv

theorem ievalZip_und {root : Val} {a : INode} {cur : Val} {env : Env} (post : List INode)
    (ha : Und (ieval root a cur env)) :
    ∀ pre vs, ievalZip root pre cur env = .ok vs → Und (ievalZip root (pre ++ a :: post) cur env)
  | [], _, _ => by
    simp only [List.nil_append, ievalZip]
    exact ha.bind _
  | n :: pre, vs, h => by
    simp only [ievalZip] at h
    obtain ⟨v, h1, h2⟩ := bind_ok_cases h
    simp only [List.cons_append, ievalZip, h1, Res.ok_bind]
    cases v with
    | arr t xs =>
      obtain ⟨vs', h3, _⟩ := bind_ok_cases h2
      exact (ievalZip_und post ha pre vs' h3).bind _
    | _ => cases h2

/-! ### map-ordered: members of a multi-select hash, bindings of a `let` -/

theorem combineUnordered_und_right {acc : Res (List (Bytes × Val))} {r : Res Val} (k : Bytes) (ha : NP acc)
    (hr : Und r) : Und (combineUnordered acc k r) := by
  cases acc <;> cases r <;> simp only [combineUnordered] <;>
    first
    | exact ha.elim | exact hr.elim | trivial | exact hr
    | (show Cat.undefinedVariable ∈ _; rw [mem_dedup]; exact List.mem_append_right _ hr)

theorem combineUnordered_und_left {acc : Res (List (Bytes × Val))} {r : Res Val} (k : Bytes) (ha : Und acc)
    (hr : NP r) : Und (combineUnordered acc k r) := by
  cases acc <;> cases r <;> simp only [combineUnordered] <;>
    first
    | exact ha.elim | exact hr.elim | trivial | exact ha
    | (show Cat.undefinedVariable ∈ _; rw [mem_dedup]; exact List.mem_append_left _ ha)

theorem combineUnordered_inv {acc : Res (List (Bytes × Val))} {r : Res Val} {k : Bytes} {cs : List Cat}
    (h : combineUnordered acc k r = .err cs) (hu : Cat.undefinedVariable ∈ cs) :
    (∃ a, acc = .err a ∧ Cat.undefinedVariable ∈ a) ∨ (∃ b, r = .err b ∧ Cat.undefinedVariable ∈ b) := by
  cases acc <;> cases r <;> simp only [combineUnordered] at h <;> try (cases h; done)
  · cases h; exact Or.inr ⟨_, rfl, hu⟩
  · cases h; exact Or.inl ⟨_, rfl, hu⟩
  · cases h
    rw [mem_dedup, List.mem_append] at hu
    rcases hu with hu | hu
    · exact Or.inl ⟨_, rfl, hu⟩
    · exact Or.inr ⟨_, rfl, hu⟩

/-- any member whose outcome is `Und` makes the whole member list `Und` (Go ranges over a map of sub-expressions and
    stops at the first failure: it may be this one) -/
theorem ievalFields_und {root : Val} {k : Bytes} {e : INode} {cur : Val} {env : Env}
    (he : Und (ieval root e cur env)) :
    ∀ fs : List (Bytes × INode), (k, e) ∈ fs → Und (ievalFields root fs cur env)
  | [], h => by cases h
  | (k', n) :: rest, h => by
    simp only [ievalFields]
    rcases List.mem_cons.mp h with h | h
    · cases h
      exact combineUnordered_und_right k (ievalFields_sat root rest cur env) he
    · exact combineUnordered_und_left k' (ievalFields_und he rest h) (ieval_sat root n cur env)

/-! ## Part 6: the relation -/

/-- the function a loop applies to each element: evaluate `r` with the element as current value, in `env` -/
abbrev evalOn (root : Val) (r : INode) (env : Env) : Val → Res Val := fun v => ieval root r v env

/-- `y` is an element the projection loop (`mapPrune`) over the array `.arr t xs` gets to -/
abbrev VProj (f : Val → Res Val) (t : ATag) (xs : List Val) (y : Val) : Prop :=
  Visits (AllOk f) xs (enum2 t xs) xs (∀ b, mapPrune f xs ≠ .ok b) y
/-- … the flatten-and-project loop: the elements are those of the flattened list; on a map-ordered input the model
    widens the failure over the flattened list *extended by two nulls* -/
abbrev VFlat (f : Val → Res Val) (t : ATag) (xs : List Val) (y : Val) : Prop :=
  Visits (AllOk f) (flattenForProject xs) (enum2 (flattenTag t xs) (flattenForProject xs ++ [.null, .null]))
    (flattenForProject xs ++ [.null, .null]) (∀ b, mapPrune f (flattenForProject xs) ≠ .ok b) y
/-- … the filter loop -/
abbrev VFilter (f : Val → Res Val) (t : ATag) (xs : List Val) (y : Val) : Prop :=
  Visits (AllOk f) xs (enum2 t xs) xs (∀ b, filterLoop f xs ≠ .ok b) y
/-- … the loop of `map` -/
abbrev VMap (f : Val → Res Val) (t : ATag) (xs : List Val) (y : Val) : Prop :=
  Visits (AllOk f) xs (enum2 t xs) xs (∀ b, mapAll f xs ≠ .ok b) y
/-- … the key loop of `sort_by` / `max_by` / `min_by`: the keys before `y` exist and are of one kind -/
abbrev VKeys (f : Val → Res Val) (t : ATag) (xs : List Val) (y : Val) : Prop :=
  Visits (KeysOk f) xs (enum2 t xs) xs (∀ b, keysOf f xs ≠ .ok b) y
/-- … the loop of `group_by`: the keys before `y` are strings -/
abbrev VGroup (f : Val → Res Val) (t : ATag) (xs : List Val) (y : Val) : Prop :=
  Visits (GroupOk f) xs (enum2 t xs) xs (∀ b, groupLoop f xs [] ≠ .ok b) y
/-- … the filter-and-project loop, for the predicate -/
abbrev VFapPred (c f : Val → Res Val) (t : ATag) (xs : List Val) (y : Val) : Prop :=
  Visits (AllOk2 c f) xs (enum2 t xs) xs (∀ b, filterMapPrune c f xs ≠ .ok b) y
/-- … the filter-and-project loop, for the right-hand side: in the ordered case the predicate is truthy on `y` -/
abbrev VFapRhs (c f : Val → Res Val) (t : ATag) (xs : List Val) (y : Val) : Prop :=
  Visits (fun pre => AllOk2 c f pre ∧ ∃ b, c y = .ok b ∧ isTrue b = true) xs (enum2 t xs) xs
    (∀ b, filterMapPrune c f xs ≠ .ok b) y


section any
variable {f c : Val → Res Val} {t : ATag} {xs : List Val} {y : Val}

theorem VProj.any (hen : enum2 t xs = true) (hy : y ∈ xs) (hf : Und (f y)) : VProj f t xs y :=
  Visits.any (mapPrune_ok_all xs) hen hy hf.not_ok
theorem VFilter.any (hen : enum2 t xs = true) (hy : y ∈ xs) (hf : Und (f y)) : VFilter f t xs y :=
  Visits.any (filterLoop_ok_all xs) hen hy hf.not_ok
theorem VMap.any (hen : enum2 t xs = true) (hy : y ∈ xs) (hf : Und (f y)) : VMap f t xs y :=
  Visits.any (mapAll_ok_all xs) hen hy hf.not_ok
theorem VKeys.any (hen : enum2 t xs = true) (hy : y ∈ xs) (hf : Und (f y)) : VKeys f t xs y :=
  Visits.any (keysOf_ok_all xs) hen hy hf.not_ok
theorem VGroup.any (hen : enum2 t xs = true) (hy : y ∈ xs) (hf : Und (f y)) : VGroup f t xs y :=
  Visits.any (fun b => groupLoop_ok_all xs [] b) hen hy hf.not_ok
/-- flatten-and-project: any element of the flattened list (the two appended nulls are not covered) -/
theorem VFlat.any (hen : flattenTag t xs = .enum) (hy : y ∈ flattenForProject xs) (hf : Und (f y)) : VFlat f t xs y :=
  Or.inr ⟨by simp [enum2, hen], List.mem_append_left _ hy,
    fun b e => let ⟨v, hv⟩ := mapPrune_ok_all _ b e y hy; hf.not_ok v hv⟩
theorem VFapPred.any (hen : enum2 t xs = true) (hy : y ∈ xs) (hc : Und (c y)) : VFapPred c f t xs y :=
  Or.inr ⟨hen, hy, fun b e => let ⟨bv, hv, _⟩ := filterMapPrune_ok_all xs b e y hy; hc.not_ok bv hv⟩
/-- filter-and-project, right-hand side: any element whose predicate is truthy -/
theorem VFapRhs.any {bv : Val} (hen : enum2 t xs = true) (hy : y ∈ xs) (hc : c y = .ok bv) (hb : isTrue bv = true)
    (hf : Und (f y)) : VFapRhs c f t xs y :=
  Or.inr ⟨hen, hy, fun b e => by
    obtain ⟨bv', hv, hfv⟩ := filterMapPrune_ok_all xs b e y hy
    rw [hc] at hv
    cases hv
    obtain ⟨v, hv⟩ := hfv hb
    exact hf.not_ok v hv⟩

/-- the first element is always visited (whatever the order: if another element comes first and fails, the outcome is
    an error all the same — the model then widens) -/
theorem VProj.head (post : List Val) : VProj f t (y :: post) y := Visits.head (AllOk.nil f) _ _ _ _ _
theorem VFilter.head (post : List Val) : VFilter f t (y :: post) y := Visits.head (AllOk.nil f) _ _ _ _ _
theorem VMap.head (post : List Val) : VMap f t (y :: post) y := Visits.head (AllOk.nil f) _ _ _ _ _
theorem VKeys.head (post : List Val) : VKeys f t (y :: post) y := Visits.head ⟨[], rfl⟩ _ _ _ _ _
theorem VGroup.head (post : List Val) : VGroup f t (y :: post) y := Visits.head ⟨[], rfl⟩ _ _ _ _ _
theorem VFapPred.head (post : List Val) : VFapPred c f t (y :: post) y := Visits.head (AllOk2.nil c f) _ _ _ _ _

end any

/-- `Reaches' root x n cur env`: **evaluating `n` on `cur` in `env` gets to a reference `$x`** — before anything else
    fails for sure.  Extends `Reaches` (the strict evaluation path) by: later arguments and multi-select members (the
    earlier ones evaluate), any member of a multi-select hash and any binding of a `let` (Go ranges over a map), the
    member of the one-member forms on a non-null value, and per-element constructors for every loop — projection
    right-hand sides, filter predicates, `&e` bodies — on the elements the loop `Visits`. -/
inductive Reaches' (root : Val) (x : Bytes) : INode → Val → Env → Prop
  | var {cur env} : Reaches' root x (.variable x) cur env
  | binopL {op l r cur env} : Reaches' root x l cur env → Reaches' root x (.binop op l r) cur env
  | binopR {op l r cur env a} : ieval root l cur env = .ok a → Reaches' root x r cur env →
      Reaches' root x (.binop op l r) cur env
  | andL {l r cur env} : Reaches' root x l cur env → Reaches' root x (.and l r) cur env
  | andR {l r cur env a} : ieval root l cur env = .ok a → isTrue a = true → Reaches' root x r cur env →
      Reaches' root x (.and l r) cur env
  | orL {l r cur env} : Reaches' root x l cur env → Reaches' root x (.or l r) cur env
  | orR {l r cur env a} : ieval root l cur env = .ok a → isTrue a = false → Reaches' root x r cur env →
      Reaches' root x (.or l r) cur env
  | not {c cur env} : Reaches' root x c cur env → Reaches' root x (.not c) cur env
  | negate {c cur env} : Reaches' root x c cur env → Reaches' root x (.negate c) cur env
  | assertNumber {c cur env} : Reaches' root x c cur env → Reaches' root x (.assertNumber c) cur env
  /-- any argument of an eager builtin, the earlier ones evaluate -/
  | callArg {f pre a post cur env vs} : ievalList root pre cur env = .ok vs → Reaches' root x a cur env →
      Reaches' root x (.call f (pre ++ a :: post)) cur env
  /-- any binding of a `let` (n bindings: a Go map of sub-expressions) -/
  | letBind {vars k e child cur env} : (k, e) ∈ vars → Reaches' root x e cur env →
      Reaches' root x (.defineVariables vars child) cur env
  | letBody {vars child cur env bs} : ievalFields root vars cur env = .ok bs → x ∉ vars.map Prod.fst →
      Reaches' root x child cur (bs ++ env) → Reaches' root x (.defineVariables vars child) cur env
  | pipeL {l r cur env} : Reaches' root x l cur env → Reaches' root x (.pipe l r) cur env
  | pipeR {l r cur env a} : ieval root l cur env = .ok a → Reaches' root x r a env → Reaches' root x (.pipe l r) cur env
  /- the strict sub-node -/
  | filter {c f cur env} : Reaches' root x c cur env → Reaches' root x (.filter c f) cur env
  | filterAndProject {l f r cur env} : Reaches' root x l cur env → Reaches' root x (.filterAndProject l f r) cur env
  | flatten {c cur env} : Reaches' root x c cur env → Reaches' root x (.flatten c) cur env
  | flattenAndProject {l r cur env} : Reaches' root x l cur env → Reaches' root x (.flattenAndProject l r) cur env
  | index {c i cur env} : Reaches' root x c cur env → Reaches' root x (.index c i) cur env
  | objectValues {c cur env} : Reaches' root x c cur env → Reaches' root x (.objectValues c) cur env
  | projectArray {l r cur env} : Reaches' root x l cur env → Reaches' root x (.projectArray l r) cur env
  | projectObject {l r cur env} : Reaches' root x l cur env → Reaches' root x (.projectObject l r) cur env
  | pruneArray {c cur env} : Reaches' root x c cur env → Reaches' root x (.pruneArray c) cur env
  | selectArray {c fs cur env} : Reaches' root x c cur env → Reaches' root x (.selectArray c fs) cur env
  | selectArraySingle {c f cur env} : Reaches' root x c cur env → Reaches' root x (.selectArraySingle c f) cur env
  | selectArraySingleCurrent {f cur env} : Reaches' root x f cur env → Reaches' root x (.selectArraySingleCurrent f) cur env
  | selectObject {c fs cur env} : Reaches' root x c cur env → Reaches' root x (.selectObject c fs) cur env
  | selectObjectSingle {c k f cur env} : Reaches' root x c cur env → Reaches' root x (.selectObjectSingle c k f) cur env
  | selectObjectSingleCurrent {k f cur env} : Reaches' root x f cur env →
      Reaches' root x (.selectObjectSingleCurrent k f) cur env
  | slice {c a b cur env} : Reaches' root x c cur env → Reaches' root x (.slice c a b) cur env
  | sliceStep {c a b s cur env} : Reaches' root x c cur env → Reaches' root x (.sliceStep c a b s) cur env
  | groupBy {a e cur env} : Reaches' root x a cur env → Reaches' root x (.groupBy a e) cur env
  | map {e a cur env} : Reaches' root x a cur env → Reaches' root x (.map e a) cur env
  | maxBy {a e cur env} : Reaches' root x a cur env → Reaches' root x (.maxBy a e) cur env
  | minBy {a e cur env} : Reaches' root x a cur env → Reaches' root x (.minBy a e) cur env
  | sortBy {a e cur env} : Reaches' root x a cur env → Reaches' root x (.sortBy a e) cur env
  /- ordered member lists: any member, the earlier ones get through -/
  | mergeArg {pre a post cur env acc} : ievalMerge root pre cur env [] = .ok acc → Reaches' root x a cur env →
      Reaches' root x (.merge (pre ++ a :: post)) cur env
  | notNullArg {pre a post cur env} : ievalNotNull root pre cur env = .ok .null → Reaches' root x a cur env →
      Reaches' root x (.notNull (pre ++ a :: post)) cur env
  | zipArg {pre a post cur env vs} : ievalZip root pre cur env = .ok vs → Reaches' root x a cur env →
      Reaches' root x (.zip (pre ++ a :: post)) cur env
  | selectArrayMem {c pre e post cur env a vs} : ieval root c cur env = .ok a → a.isNull = false →
      ievalList root pre a env = .ok vs → Reaches' root x e a env →
      Reaches' root x (.selectArray c (pre ++ e :: post)) cur env
  | selectArrayCurrentMem {pre e post cur env vs} : cur.isNull = false → ievalList root pre cur env = .ok vs →
      Reaches' root x e cur env → Reaches' root x (.selectArrayCurrent (pre ++ e :: post)) cur env
  | selectArraySingleMem {c f cur env a} : ieval root c cur env = .ok a → a.isNull = false →
      Reaches' root x f a env → Reaches' root x (.selectArraySingle c f) cur env
  /- map-ordered member lists: any member -/
  | selectObjectMem {c fs k e cur env a} : ieval root c cur env = .ok a → a.isNull = false → (k, e) ∈ fs →
      Reaches' root x e a env → Reaches' root x (.selectObject c fs) cur env
  | selectObjectCurrentMem {fs k e cur env} : cur.isNull = false → (k, e) ∈ fs → Reaches' root x e cur env →
      Reaches' root x (.selectObjectCurrent fs) cur env
  | selectObjectSingleMem {c k f cur env a} : ieval root c cur env = .ok a → a.isNull = false →
      Reaches' root x f a env → Reaches' root x (.selectObjectSingle c k f) cur env
  /- loops: the sub-expression on an element the loop visits -/
  | projectArrayElem {l r cur env t xs y} : ieval root l cur env = .ok (.arr t xs) → VProj (evalOn root r env) t xs y →
      Reaches' root x r y env → Reaches' root x (.projectArray l r) cur env
  /-- a slice of a string is projected as a whole -/
  | projectArrayStr {l r cur env s} : ieval root l cur env = .ok (.str s) → l.isSlice = true →
      Reaches' root x r (.str s) env → Reaches' root x (.projectArray l r) cur env
  | projectArrayCurrentElem {r env t xs y} : VProj (evalOn root r env) t xs y → Reaches' root x r y env →
      Reaches' root x (.projectArrayCurrent r) (.arr t xs) env
  | projectObjectElem {l r cur env kvs y} : ieval root l cur env = .ok (.obj kvs) →
      VProj (evalOn root r env) .enum (kvs.map Prod.snd) y → Reaches' root x r y env →
      Reaches' root x (.projectObject l r) cur env
  | projectObjectCurrentElem {r env kvs y} : VProj (evalOn root r env) .enum (kvs.map Prod.snd) y →
      Reaches' root x r y env → Reaches' root x (.projectObjectCurrent r) (.obj kvs) env
  | flattenAndProjectElem {l r cur env t xs y} : ieval root l cur env = .ok (.arr t xs) →
      VFlat (evalOn root r env) t xs y → Reaches' root x r y env → Reaches' root x (.flattenAndProject l r) cur env
  | flattenAndProjectCurrentElem {r env t xs y} : VFlat (evalOn root r env) t xs y → Reaches' root x r y env →
      Reaches' root x (.flattenAndProjectCurrent r) (.arr t xs) env
  | filterPred {c f cur env t xs y} : ieval root c cur env = .ok (.arr t xs) → VFilter (evalOn root f env) t xs y →
      Reaches' root x f y env → Reaches' root x (.filter c f) cur env
  | filterCurrentPred {f env t xs y} : VFilter (evalOn root f env) t xs y → Reaches' root x f y env →
      Reaches' root x (.filterCurrent f) (.arr t xs) env
  | filterAndProjectPred {l f r cur env t xs y} : ieval root l cur env = .ok (.arr t xs) →
      VFapPred (evalOn root f env) (evalOn root r env) t xs y → Reaches' root x f y env →
      Reaches' root x (.filterAndProject l f r) cur env
  | filterAndProjectRhs {l f r cur env t xs y} : ieval root l cur env = .ok (.arr t xs) →
      VFapRhs (evalOn root f env) (evalOn root r env) t xs y → Reaches' root x r y env →
      Reaches' root x (.filterAndProject l f r) cur env
  | filterAndProjectCurrentPred {f r env t xs y} : VFapPred (evalOn root f env) (evalOn root r env) t xs y →
      Reaches' root x f y env → Reaches' root x (.filterAndProjectCurrent f r) (.arr t xs) env
  | filterAndProjectCurrentRhs {f r env t xs y} : VFapRhs (evalOn root f env) (evalOn root r env) t xs y →
      Reaches' root x r y env → Reaches' root x (.filterAndProjectCurrent f r) (.arr t xs) env
  | mapElem {e a cur env t xs y} : ieval root a cur env = .ok (.arr t xs) → VMap (evalOn root e env) t xs y →
      Reaches' root x e y env → Reaches' root x (.map e a) cur env
  | sortByElem {a e cur env t xs y} : ieval root a cur env = .ok (.arr t xs) → VKeys (evalOn root e env) t xs y →
      Reaches' root x e y env → Reaches' root x (.sortBy a e) cur env
  | maxByElem {a e cur env t xs y} : ieval root a cur env = .ok (.arr t xs) → VKeys (evalOn root e env) t xs y →
      Reaches' root x e y env → Reaches' root x (.maxBy a e) cur env
  | minByElem {a e cur env t xs y} : ieval root a cur env = .ok (.arr t xs) → VKeys (evalOn root e env) t xs y →
      Reaches' root x e y env → Reaches' root x (.minBy a e) cur env
  | groupByElem {a e cur env t xs y} : ieval root a cur env = .ok (.arr t xs) → VGroup (evalOn root e env) t xs y →
      Reaches' root x e y env → Reaches' root x (.groupBy a e) cur env

/-- every `Reaches` derivation is a `Reaches'` derivation -/
theorem Reaches.toReaches' {root : Val} {x : Bytes} {n : INode} {cur : Val} {env : Env}
    (h : Reaches root x n cur env) : Reaches' root x n cur env := by
  induction h with
  | var => exact .var
  | binopL _ ih => exact .binopL ih
  | binopR hl _ ih => exact .binopR hl ih
  | andL _ ih => exact .andL ih
  | andR hl ht _ ih => exact .andR hl ht ih
  | orL _ ih => exact .orL ih
  | orR hl ht _ ih => exact .orR hl ht ih
  | not _ ih => exact .not ih
  | negate _ ih => exact .negate ih
  | assertNumber _ ih => exact .assertNumber ih
  | callHd _ ih => exact .callArg (pre := []) rfl ih
  | letBind _ ih => exact .letBind List.mem_cons_self ih
  | letBody hb hnm _ ih => exact .letBody hb hnm ih
  | pipeL _ ih => exact .pipeL ih
  | pipeR hl _ ih => exact .pipeR hl ih
  | filter _ ih => exact .filter ih
  | filterAndProject _ ih => exact .filterAndProject ih
  | flatten _ ih => exact .flatten ih
  | flattenAndProject _ ih => exact .flattenAndProject ih
  | index _ ih => exact .index ih
  | objectValues _ ih => exact .objectValues ih
  | projectArray _ ih => exact .projectArray ih
  | projectObject _ ih => exact .projectObject ih
  | pruneArray _ ih => exact .pruneArray ih
  | selectArray _ ih => exact .selectArray ih
  | selectArraySingle _ ih => exact .selectArraySingle ih
  | selectArraySingleCurrent _ ih => exact .selectArraySingleCurrent ih
  | selectObject _ ih => exact .selectObject ih
  | selectObjectSingle _ ih => exact .selectObjectSingle ih
  | selectObjectSingleCurrent _ ih => exact .selectObjectSingleCurrent ih
  | slice _ ih => exact .slice ih
  | sliceStep _ ih => exact .sliceStep ih
  | groupBy _ ih => exact .groupBy ih
  | map _ ih => exact .map ih
  | maxBy _ ih => exact .maxBy ih
  | minBy _ ih => exact .minBy ih
  | sortBy _ ih => exact .sortBy ih
  | mergeHd _ ih => exact .mergeArg (pre := []) rfl ih
  | notNullHd _ ih => exact .notNullArg (pre := []) rfl ih
  | zipHd _ ih => exact .zipArg (pre := []) rfl ih

theorem np_evalOn (root : Val) (r : INode) (env : Env) : ∀ z, NP (evalOn root r env z) :=
  fun z => ieval_sat root r z env

set_option linter.unusedSimpArgs false in
/-- **Forward: a reached reference without a binding.**  If evaluating `n` gets to a reference `$x` and `x` has no
    binding, the outcome is an error that lists undefined-variable — or it is one the model does not settle (`nondet`
    when a map-ordered enumeration is involved, `unmodelled`).  It is never a value and never a panic. -/
theorem Reaches'.und {root : Val} {x : Bytes} {n : INode} {cur : Val} {env : Env} (h : Reaches' root x n cur env) :
    env.get x = none → Und (ieval root n cur env) := by
  induction h with
  | var => intro hx; simp only [ieval, hx]; exact List.mem_singleton.mpr rfl
  | letBody hb hnm _ ih =>
    intro hx
    simp only [ieval, hb, Res.ok_bind]
    apply ih
    simp only [Env.get] at hx ⊢
    rw [objLookup_append, (ievalFields_lookup_none hb x).mpr hnm]
    exact hx
  | letBind hm _ ih => intro hx; simp only [ieval]; exact (ievalFields_und (ih hx) _ hm).bind _
  | binopR hl _ ih => intro hx; simp only [ieval, hl, Res.ok_bind]; exact (ih hx).bind _
  | pipeR hl _ ih => intro hx; simp only [ieval, hl, Res.ok_bind]; exact ih hx
  | andR hl ht _ ih | orR hl ht _ ih =>
    intro hx
    simp only [ieval, hl, Res.ok_bind, ht, Bool.not_true, Bool.false_eq_true, if_false, if_true]
    exact ih hx
  | callArg hp _ ih => intro hx; simp only [ieval]; exact (ievalList_und _ (ih hx) _ _ hp).bind _
  | mergeArg hp _ ih => intro hx; simp only [ieval]; exact (ievalMerge_und _ (ih hx) _ _ _ hp).bind _
  | notNullArg hp _ ih => intro hx; simp only [ieval]; exact ievalNotNull_und _ (ih hx) _ hp
  | zipArg hp _ ih => intro hx; simp only [ieval]; exact (ievalZip_und _ (ih hx) _ _ hp).bind _
  | selectArrayMem hc hn hp _ ih =>
    intro hx
    simp only [ieval, hc, Res.ok_bind, hn, Bool.false_eq_true, if_false]
    exact (ievalList_und _ (ih hx) _ _ hp).bind _
  | selectArrayCurrentMem hn hp _ ih =>
    intro hx
    simp only [ieval, hn, Bool.false_eq_true, if_false]
    exact (ievalList_und _ (ih hx) _ _ hp).bind _
  | selectArraySingleMem hc hn _ ih | selectObjectSingleMem hc hn _ ih =>
    intro hx
    simp only [ieval, hc, Res.ok_bind, hn, Bool.false_eq_true, if_false]
    exact (ih hx).bind _
  | selectObjectMem hc hn hm _ ih =>
    intro hx
    simp only [ieval, hc, Res.ok_bind, hn, Bool.false_eq_true, if_false]
    exact (ievalFields_und (ih hx) _ hm).bind _
  | selectObjectCurrentMem hn hm _ ih =>
    intro hx
    simp only [ieval, hn, Bool.false_eq_true, if_false]
    exact (ievalFields_und (ih hx) _ hm).bind _
  | projectArrayElem hl hv _ ih =>
    intro hx; simp only [ieval, hl, Res.ok_bind]; exact projectArray_und hv (ih hx) (np_evalOn _ _ _)
  | projectArrayStr hl hs _ ih =>
    intro hx; simp only [ieval, hl, Res.ok_bind, hs, if_true]; exact ih hx
  | projectArrayCurrentElem hv _ ih =>
    intro hx; simp only [ieval]; exact projectArray_und hv (ih hx) (np_evalOn _ _ _)
  | projectObjectElem hl hv _ ih =>
    intro hx; simp only [ieval, hl, Res.ok_bind]; exact projectObject_und hv (ih hx) (np_evalOn _ _ _)
  | projectObjectCurrentElem hv _ ih =>
    intro hx; simp only [ieval]; exact projectObject_und hv (ih hx) (np_evalOn _ _ _)
  | flattenAndProjectElem hl hv _ ih =>
    intro hx; simp only [ieval, hl, Res.ok_bind]; exact flattenAndProjectArray_und hv (ih hx) (np_evalOn _ _ _)
  | flattenAndProjectCurrentElem hv _ ih =>
    intro hx; simp only [ieval]; exact flattenAndProjectArray_und hv (ih hx) (np_evalOn _ _ _)
  | filterPred hl hv _ ih =>
    intro hx; simp only [ieval, hl, Res.ok_bind]; exact filterArray_und hv (ih hx) (np_evalOn _ _ _)
  | filterCurrentPred hv _ ih =>
    intro hx; simp only [ieval]; exact filterArray_und hv (ih hx) (np_evalOn _ _ _)
  | filterAndProjectPred hl hv _ ih =>
    intro hx; simp only [ieval, hl, Res.ok_bind]
    exact filterAndProjectArray_und_pred hv (ih hx) (np_evalOn _ _ _) (np_evalOn _ _ _)
  | filterAndProjectRhs hl hv _ ih =>
    intro hx; simp only [ieval, hl, Res.ok_bind]
    exact filterAndProjectArray_und_rhs hv (ih hx) (np_evalOn _ _ _) (np_evalOn _ _ _)
  | filterAndProjectCurrentPred hv _ ih =>
    intro hx; simp only [ieval]
    exact filterAndProjectArray_und_pred hv (ih hx) (np_evalOn _ _ _) (np_evalOn _ _ _)
  | filterAndProjectCurrentRhs hv _ ih =>
    intro hx; simp only [ieval]
    exact filterAndProjectArray_und_rhs hv (ih hx) (np_evalOn _ _ _) (np_evalOn _ _ _)
  | mapElem hl hv _ ih =>
    intro hx; simp only [ieval, hl, Res.ok_bind]; exact mapArray_und hv (ih hx) (np_evalOn _ _ _)
  | sortByElem hl hv _ ih =>
    intro hx; simp only [ieval, hl, Res.ok_bind]; exact sortArrayBy_und hv (ih hx) (np_evalOn _ _ _)
  | maxByElem hl hv _ ih =>
    intro hx; simp only [ieval, hl, Res.ok_bind]; exact arrayPickBy_und _ hv (ih hx) (np_evalOn _ _ _)
  | minByElem hl hv _ ih =>
    intro hx; simp only [ieval, hl, Res.ok_bind]; exact arrayPickBy_und _ hv (ih hx) (np_evalOn _ _ _)
  | groupByElem hl hv _ ih =>
    intro hx; simp only [ieval, hl, Res.ok_bind]; exact groupBy_und hv (ih hx) (np_evalOn _ _ _)
  | _ _ ih => intro hx; simp only [ieval]; exact (ih hx).bind _

/-! ## Part 7: backward — an undefined-variable error comes from a reached reference -/

/-- the statement for a node: wherever it is evaluated, an undefined-variable category in its error is explained by
    a reached reference without a binding -/
def Back (root : Val) (n : INode) : Prop :=
  ∀ cur env cs, ieval root n cur env = .err cs → Cat.undefinedVariable ∈ cs →
    ∃ x, Reaches' root x n cur env ∧ env.get x = none

def BackList (root : Val) (ns : List INode) : Prop :=
  ∀ cur env cs, ievalList root ns cur env = .err cs → Cat.undefinedVariable ∈ cs →
    ∃ x pre a post vs, ns = pre ++ a :: post ∧ ievalList root pre cur env = .ok vs ∧
      Reaches' root x a cur env ∧ env.get x = none

def BackFields (root : Val) (fs : List (Bytes × INode)) : Prop :=
  ∀ cur env cs, ievalFields root fs cur env = .err cs → Cat.undefinedVariable ∈ cs →
    ∃ x k e, (k, e) ∈ fs ∧ Reaches' root x e cur env ∧ env.get x = none

def BackMerge (root : Val) (ns : List INode) : Prop :=
  ∀ cur env acc cs, ievalMerge root ns cur env acc = .err cs → Cat.undefinedVariable ∈ cs →
    ∃ x pre a post acc', ns = pre ++ a :: post ∧ ievalMerge root pre cur env acc = .ok acc' ∧
      Reaches' root x a cur env ∧ env.get x = none

def BackNotNull (root : Val) (ns : List INode) : Prop :=
  ∀ cur env cs, ievalNotNull root ns cur env = .err cs → Cat.undefinedVariable ∈ cs →
    ∃ x pre a post, ns = pre ++ a :: post ∧ ievalNotNull root pre cur env = .ok .null ∧
      Reaches' root x a cur env ∧ env.get x = none

def BackZip (root : Val) (ns : List INode) : Prop :=
  ∀ cur env cs, ievalZip root ns cur env = .err cs → Cat.undefinedVariable ∈ cs →
    ∃ x pre a post vs, ns = pre ++ a :: post ∧ ievalZip root pre cur env = .ok vs ∧
      Reaches' root x a cur env ∧ env.get x = none

section back
variable {root : Val}

/-! ### generic shapes -/

theorem back_closed {n : INode} (hfv : n.fv = []) : Back root n := by
  intro cur env cs h hu
  exact absurd hu ((ieval_noUV root n cur env (by rw [hfv]; intro x hx; cases hx)).err_pe h)

theorem back_bind {c n : INode} (F : Val → Env → Val → Res Val)
    (hn : ∀ cur env, ieval root n cur env = (ieval root c cur env >>= F cur env))
    (hk : ∀ x cur env, Reaches' root x c cur env → Reaches' root x n cur env)
    (hF : ∀ cur env a cs, ieval root c cur env = .ok a → F cur env a = .err cs → Cat.undefinedVariable ∈ cs →
      ∃ x, Reaches' root x n cur env ∧ env.get x = none)
    (ih : Back root c) : Back root n := by
  intro cur env cs h hu
  rw [hn] at h
  rcases bind_err_cases h with h1 | ⟨a, h1, h2⟩
  · obtain ⟨x, hr, hx⟩ := ih cur env cs h1 hu
    exact ⟨x, hk _ _ _ hr, hx⟩
  · exact hF cur env a cs h1 h2 hu

/-- a strict sub-node followed by a value-level function that never reports undefined-variable -/
theorem back_strict {c n : INode} (F : Val → Env → Val → Res Val)
    (hn : ∀ cur env, ieval root n cur env = (ieval root c cur env >>= F cur env))
    (hF : ∀ cur env a, NoUV (F cur env a))
    (hk : ∀ x cur env, Reaches' root x c cur env → Reaches' root x n cur env)
    (ih : Back root c) : Back root n :=
  back_bind F hn hk (fun cur env a _ _ h2 hu => absurd hu ((hF cur env a).err_pe h2)) ih

/-! ### element level: the higher-order functions -/

theorem back_projectArray {r : INode} {env : Env} {a : Val} {cs : List Cat} (ih : Back root r)
    (h : projectArray (evalOn root r env) a = .err cs) (hu : Cat.undefinedVariable ∈ cs) :
    ∃ x t xs y, a = .arr t xs ∧ VProj (evalOn root r env) t xs y ∧ Reaches' root x r y env ∧ env.get x = none := by
  obtain ⟨t, xs, y, cs', e, hv, hy, hu'⟩ := projectArray_inv h hu
  obtain ⟨x, hr, hx⟩ := ih y env cs' hy hu'
  exact ⟨x, t, xs, y, e, hv, hr, hx⟩

theorem back_projectObject {r : INode} {env : Env} {a : Val} {cs : List Cat} (ih : Back root r)
    (h : projectObject (evalOn root r env) a = .err cs) (hu : Cat.undefinedVariable ∈ cs) :
    ∃ x kvs y, a = .obj kvs ∧ VProj (evalOn root r env) .enum (kvs.map Prod.snd) y ∧ Reaches' root x r y env ∧
      env.get x = none := by
  obtain ⟨kvs, y, cs', e, hv, hy, hu'⟩ := projectObject_inv h hu
  obtain ⟨x, hr, hx⟩ := ih y env cs' hy hu'
  exact ⟨x, kvs, y, e, hv, hr, hx⟩

theorem back_flattenAndProject {r : INode} {env : Env} {a : Val} {cs : List Cat} (ih : Back root r)
    (h : flattenAndProjectArray (evalOn root r env) a = .err cs) (hu : Cat.undefinedVariable ∈ cs) :
    ∃ x t xs y, a = .arr t xs ∧ VFlat (evalOn root r env) t xs y ∧ Reaches' root x r y env ∧ env.get x = none := by
  obtain ⟨t, xs, y, cs', e, hv, hy, hu'⟩ := flattenAndProjectArray_inv h hu
  obtain ⟨x, hr, hx⟩ := ih y env cs' hy hu'
  exact ⟨x, t, xs, y, e, hv, hr, hx⟩

theorem back_filterArray {r : INode} {env : Env} {a : Val} {cs : List Cat} (ih : Back root r)
    (h : filterArray (evalOn root r env) a = .err cs) (hu : Cat.undefinedVariable ∈ cs) :
    ∃ x t xs y, a = .arr t xs ∧ VFilter (evalOn root r env) t xs y ∧ Reaches' root x r y env ∧ env.get x = none := by
  obtain ⟨t, xs, y, cs', e, hv, hy, hu'⟩ := filterArray_inv h hu
  obtain ⟨x, hr, hx⟩ := ih y env cs' hy hu'
  exact ⟨x, t, xs, y, e, hv, hr, hx⟩

theorem back_mapArray {r : INode} {env : Env} {a : Val} {cs : List Cat} (ih : Back root r)
    (h : mapArray (evalOn root r env) a = .err cs) (hu : Cat.undefinedVariable ∈ cs) :
    ∃ x t xs y, a = .arr t xs ∧ VMap (evalOn root r env) t xs y ∧ Reaches' root x r y env ∧ env.get x = none := by
  obtain ⟨t, xs, y, cs', e, hv, hy, hu'⟩ := mapArray_inv h hu
  obtain ⟨x, hr, hx⟩ := ih y env cs' hy hu'
  exact ⟨x, t, xs, y, e, hv, hr, hx⟩

theorem back_sortArrayBy {r : INode} {env : Env} {a : Val} {cs : List Cat} (ih : Back root r)
    (h : sortArrayBy (evalOn root r env) a = .err cs) (hu : Cat.undefinedVariable ∈ cs) :
    ∃ x t xs y, a = .arr t xs ∧ VKeys (evalOn root r env) t xs y ∧ Reaches' root x r y env ∧ env.get x = none := by
  obtain ⟨t, xs, y, cs', e, hv, hy, hu'⟩ := sortArrayBy_inv h hu
  obtain ⟨x, hr, hx⟩ := ih y env cs' hy hu'
  exact ⟨x, t, xs, y, e, hv, hr, hx⟩

theorem back_arrayPickBy (better : Key → Key → Bool) {r : INode} {env : Env} {a : Val} {cs : List Cat}
    (ih : Back root r) (h : arrayPickBy better (evalOn root r env) a = .err cs) (hu : Cat.undefinedVariable ∈ cs) :
    ∃ x t xs y, a = .arr t xs ∧ VKeys (evalOn root r env) t xs y ∧ Reaches' root x r y env ∧ env.get x = none := by
  obtain ⟨t, xs, y, cs', e, hv, hy, hu'⟩ := arrayPickBy_inv better h hu
  obtain ⟨x, hr, hx⟩ := ih y env cs' hy hu'
  exact ⟨x, t, xs, y, e, hv, hr, hx⟩

theorem back_groupByV {r : INode} {env : Env} {a : Val} {cs : List Cat} (ih : Back root r)
    (h : Jmes.groupBy (evalOn root r env) a = .err cs) (hu : Cat.undefinedVariable ∈ cs) :
    ∃ x t xs y, a = .arr t xs ∧ VGroup (evalOn root r env) t xs y ∧ Reaches' root x r y env ∧ env.get x = none := by
  obtain ⟨t, xs, y, cs', e, hv, hy, hu'⟩ := groupBy_inv h hu
  obtain ⟨x, hr, hx⟩ := ih y env cs' hy hu'
  exact ⟨x, t, xs, y, e, hv, hr, hx⟩

theorem back_filterAndProjectV {f r : INode} {env : Env} {a : Val} {cs : List Cat} (ihf : Back root f)
    (ihr : Back root r) (h : filterAndProjectArray (evalOn root f env) (evalOn root r env) a = .err cs)
    (hu : Cat.undefinedVariable ∈ cs) :
    ∃ x t xs y, a = .arr t xs ∧ env.get x = none ∧
      ((VFapPred (evalOn root f env) (evalOn root r env) t xs y ∧ Reaches' root x f y env) ∨
       (VFapRhs (evalOn root f env) (evalOn root r env) t xs y ∧ Reaches' root x r y env)) := by
  obtain ⟨t, xs, y, cs', e, hu', hv⟩ := filterAndProjectArray_inv h hu
  rcases hv with ⟨hv, hy⟩ | ⟨hv, hy⟩
  · obtain ⟨x, hr, hx⟩ := ihf y env cs' hy hu'
    exact ⟨x, t, xs, y, e, hx, Or.inl ⟨hv, hr⟩⟩
  · obtain ⟨x, hr, hx⟩ := ihr y env cs' hy hu'
    exact ⟨x, t, xs, y, e, hx, Or.inr ⟨hv, hr⟩⟩

/-! ### the nodes -/

theorem back_variable (y : Bytes) : Back root (.variable y) := by
  intro cur env cs h hu
  simp only [ieval] at h
  cases hg : env.get y with
  | some v => rw [hg] at h; cases h
  | none => exact ⟨y, .var, hg⟩

theorem back_binop {op : BinOp} {l r : INode} (ihl : Back root l) (ihr : Back root r) : Back root (.binop op l r) := by
  intro cur env cs h hu
  simp only [ieval] at h
  rcases bind_err_cases h with h1 | ⟨a, h1, h2⟩
  · obtain ⟨x, hr, hx⟩ := ihl cur env cs h1 hu
    exact ⟨x, .binopL hr, hx⟩
  · rcases bind_err_cases h2 with h3 | ⟨b, _, h4⟩
    · obtain ⟨x, hr, hx⟩ := ihr cur env cs h3 hu
      exact ⟨x, .binopR h1 hr, hx⟩
    · exact absurd hu ((applyBinOp_uv op a b).err_pe h4)

theorem back_and {l r : INode} (ihl : Back root l) (ihr : Back root r) : Back root (.and l r) := by
  intro cur env cs h hu
  simp only [ieval] at h
  rcases bind_err_cases h with h1 | ⟨a, h1, h2⟩
  · obtain ⟨x, hr, hx⟩ := ihl cur env cs h1 hu
    exact ⟨x, .andL hr, hx⟩
  · cases ht : isTrue a with
    | false => simp only [ht, Bool.not_false, if_true] at h2; cases h2
    | true =>
      simp only [ht, Bool.not_true, Bool.false_eq_true, if_false] at h2
      obtain ⟨x, hr, hx⟩ := ihr cur env cs h2 hu
      exact ⟨x, .andR h1 ht hr, hx⟩

theorem back_or {l r : INode} (ihl : Back root l) (ihr : Back root r) : Back root (.or l r) := by
  intro cur env cs h hu
  simp only [ieval] at h
  rcases bind_err_cases h with h1 | ⟨a, h1, h2⟩
  · obtain ⟨x, hr, hx⟩ := ihl cur env cs h1 hu
    exact ⟨x, .orL hr, hx⟩
  · cases ht : isTrue a with
    | true => simp only [ht, if_true] at h2; cases h2
    | false =>
      simp only [ht, Bool.false_eq_true, if_false] at h2
      obtain ⟨x, hr, hx⟩ := ihr cur env cs h2 hu
      exact ⟨x, .orR h1 ht hr, hx⟩

theorem back_pipe {l r : INode} (ihl : Back root l) (ihr : Back root r) : Back root (.pipe l r) := by
  intro cur env cs h hu
  simp only [ieval] at h
  rcases bind_err_cases h with h1 | ⟨a, h1, h2⟩
  · obtain ⟨x, hr, hx⟩ := ihl cur env cs h1 hu
    exact ⟨x, .pipeL hr, hx⟩
  · obtain ⟨x, hr, hx⟩ := ihr a env cs h2 hu
    exact ⟨x, .pipeR h1 hr, hx⟩

theorem back_not {c : INode} (ih : Back root c) : Back root (.not c) :=
  back_strict (fun _ _ a => pure (.bool (!isTrue a))) (fun _ _ => by simp only [ieval]) (fun _ _ _ => Sat.pure _)
    (fun _ _ _ => .not) ih
theorem back_negate {c : INode} (ih : Back root c) : Back root (.negate c) :=
  back_strict (fun _ _ a => pure (negateVal a)) (fun _ _ => by simp only [ieval]) (fun _ _ _ => Sat.pure _)
    (fun _ _ _ => .negate) ih
theorem back_assertNumber {c : INode} (ih : Back root c) : Back root (.assertNumber c) :=
  back_strict (fun _ _ a => pure (if isNumber a then a else .null)) (fun _ _ => by simp only [ieval])
    (fun _ _ _ => Sat.pure _) (fun _ _ _ => .assertNumber) ih
theorem back_flatten {c : INode} (ih : Back root c) : Back root (.flatten c) :=
  back_strict (fun _ _ a => pure (Jmes.flatten a)) (fun _ _ => by simp only [ieval]) (fun _ _ _ => Sat.pure _)
    (fun _ _ _ => .flatten) ih
theorem back_objectValues {c : INode} (ih : Back root c) : Back root (.objectValues c) :=
  back_strict (fun _ _ a => pure (Jmes.objectValues a)) (fun _ _ => by simp only [ieval]) (fun _ _ _ => Sat.pure _)
    (fun _ _ _ => .objectValues) ih
theorem back_pruneArray {c : INode} (ih : Back root c) : Back root (.pruneArray c) :=
  back_strict (fun _ _ a => pure (Jmes.pruneArray a)) (fun _ _ => by simp only [ieval]) (fun _ _ _ => Sat.pure _)
    (fun _ _ _ => .pruneArray) ih
theorem back_index {c : INode} {i : Int} (ih : Back root c) : Back root (.index c i) :=
  back_strict (fun _ _ a => Jmes.index a i) (fun _ _ => by simp only [ieval]) (fun _ _ a => index_uv a i)
    (fun _ _ _ => .index) ih
theorem back_slice {c : INode} {a b : Int} (ih : Back root c) : Back root (.slice c a b) :=
  back_strict (fun _ _ v => Jmes.slice v a b) (fun _ _ => by simp only [ieval]) (fun _ _ v => slice_uv v a b)
    (fun _ _ _ => .slice) ih
theorem back_sliceStep {c : INode} {a b s : Int} (ih : Back root c) : Back root (.sliceStep c a b s) :=
  back_strict (fun _ _ v => Jmes.sliceStep v a b s) (fun _ _ => by simp only [ieval])
    (fun _ _ v => sliceStep_uv v a b s) (fun _ _ _ => .sliceStep) ih
theorem back_selectArraySingleCurrent {f : INode} (ih : Back root f) : Back root (.selectArraySingleCurrent f) :=
  back_strict (fun _ _ v => pure (.arr .plain [v])) (fun _ _ => by simp only [ieval]) (fun _ _ _ => Sat.pure _)
    (fun _ _ _ => .selectArraySingleCurrent) ih
theorem back_selectObjectSingleCurrent {k : Bytes} {f : INode} (ih : Back root f) :
    Back root (.selectObjectSingleCurrent k f) :=
  back_strict (fun _ _ v => pure (.obj [(k, v)])) (fun _ _ => by simp only [ieval]) (fun _ _ _ => Sat.pure _)
    (fun _ _ _ => .selectObjectSingleCurrent) ih

theorem back_call {f : Fn} {args : List INode} (ih : BackList root args) : Back root (.call f args) := by
  intro cur env cs h hu
  simp only [ieval] at h
  rcases bind_err_cases h with h1 | ⟨vs, _, h2⟩
  · obtain ⟨x, pre, a, post, vs, rfl, hp, hr, hx⟩ := ih cur env cs h1 hu
    exact ⟨x, .callArg hp hr, hx⟩
  · exact absurd hu ((applyFn_uv f vs).err_pe h2)

theorem back_defineVariables {vars : List (Bytes × INode)} {child : INode} (ihv : BackFields root vars)
    (ihc : Back root child) : Back root (.defineVariables vars child) := by
  intro cur env cs h hu
  simp only [ieval] at h
  rcases bind_err_cases h with h1 | ⟨bs, h1, h2⟩
  · obtain ⟨x, k, e, hm, hr, hx⟩ := ihv cur env cs h1 hu
    exact ⟨x, .letBind hm hr, hx⟩
  · obtain ⟨x, hr, hx⟩ := ihc cur (bs ++ env) cs h2 hu
    rw [Env.get_append] at hx
    cases hl : objLookup x bs with
    | some w => rw [hl] at hx; cases hx
    | none =>
      rw [hl] at hx
      exact ⟨x, .letBody h1 ((ievalFields_lookup_none h1 x).mp hl) hr, hx⟩

theorem back_filter {c f : INode} (ihc : Back root c) (ihf : Back root f) : Back root (.filter c f) := by
  intro cur env cs h hu
  simp only [ieval] at h
  rcases bind_err_cases h with h1 | ⟨a, h1, h2⟩
  · obtain ⟨x, hr, hx⟩ := ihc cur env cs h1 hu
    exact ⟨x, .filter hr, hx⟩
  · obtain ⟨x, t, xs, y, rfl, hv, hr, hx⟩ := back_filterArray ihf h2 hu
    exact ⟨x, .filterPred h1 hv hr, hx⟩

theorem back_filterCurrent {f : INode} (ihf : Back root f) : Back root (.filterCurrent f) := by
  intro cur env cs h hu
  simp only [ieval] at h
  obtain ⟨x, t, xs, y, rfl, hv, hr, hx⟩ := back_filterArray ihf h hu
  exact ⟨x, .filterCurrentPred hv hr, hx⟩

theorem back_filterAndProject {l f r : INode} (ihl : Back root l) (ihf : Back root f) (ihr : Back root r) :
    Back root (.filterAndProject l f r) := by
  intro cur env cs h hu
  simp only [ieval] at h
  rcases bind_err_cases h with h1 | ⟨a, h1, h2⟩
  · obtain ⟨x, hr, hx⟩ := ihl cur env cs h1 hu
    exact ⟨x, .filterAndProject hr, hx⟩
  · obtain ⟨x, t, xs, y, rfl, hx, hv⟩ := back_filterAndProjectV ihf ihr h2 hu
    rcases hv with ⟨hv, hr⟩ | ⟨hv, hr⟩
    · exact ⟨x, .filterAndProjectPred h1 hv hr, hx⟩
    · exact ⟨x, .filterAndProjectRhs h1 hv hr, hx⟩

theorem back_filterAndProjectCurrent {f r : INode} (ihf : Back root f) (ihr : Back root r) :
    Back root (.filterAndProjectCurrent f r) := by
  intro cur env cs h hu
  simp only [ieval] at h
  obtain ⟨x, t, xs, y, rfl, hx, hv⟩ := back_filterAndProjectV ihf ihr h hu
  rcases hv with ⟨hv, hr⟩ | ⟨hv, hr⟩
  · exact ⟨x, .filterAndProjectCurrentPred hv hr, hx⟩
  · exact ⟨x, .filterAndProjectCurrentRhs hv hr, hx⟩

theorem back_flattenAndProjectN {l r : INode} (ihl : Back root l) (ihr : Back root r) :
    Back root (.flattenAndProject l r) := by
  intro cur env cs h hu
  simp only [ieval] at h
  rcases bind_err_cases h with h1 | ⟨a, h1, h2⟩
  · obtain ⟨x, hr, hx⟩ := ihl cur env cs h1 hu
    exact ⟨x, .flattenAndProject hr, hx⟩
  · obtain ⟨x, t, xs, y, rfl, hv, hr, hx⟩ := back_flattenAndProject ihr h2 hu
    exact ⟨x, .flattenAndProjectElem h1 hv hr, hx⟩

theorem back_flattenAndProjectCurrent {r : INode} (ihr : Back root r) : Back root (.flattenAndProjectCurrent r) := by
  intro cur env cs h hu
  simp only [ieval] at h
  obtain ⟨x, t, xs, y, rfl, hv, hr, hx⟩ := back_flattenAndProject ihr h hu
  exact ⟨x, .flattenAndProjectCurrentElem hv hr, hx⟩

theorem back_projectArrayN {l r : INode} (ihl : Back root l) (ihr : Back root r) : Back root (.projectArray l r) := by
  intro cur env cs h hu
  simp only [ieval] at h
  rcases bind_err_cases h with h1 | ⟨a, h1, h2⟩
  · obtain ⟨x, hr, hx⟩ := ihl cur env cs h1 hu
    exact ⟨x, .projectArray hr, hx⟩
  · have harr : projectArray (evalOn root r env) a = .err cs →
        ∃ x, Reaches' root x (.projectArray l r) cur env ∧ env.get x = none := by
      intro h3
      obtain ⟨x, t, xs, y, rfl, hv, hr, hx⟩ := back_projectArray ihr h3 hu
      exact ⟨x, .projectArrayElem h1 hv hr, hx⟩
    cases a with
    | str s =>
      cases hs : l.isSlice with
      | true =>
        simp only [hs, if_true] at h2
        obtain ⟨x, hr, hx⟩ := ihr (.str s) env cs h2 hu
        exact ⟨x, .projectArrayStr h1 hs hr, hx⟩
      | false =>
        simp only [hs, Bool.false_eq_true, if_false] at h2
        exact harr h2
    | _ => exact harr h2

theorem back_projectArrayCurrent {r : INode} (ihr : Back root r) : Back root (.projectArrayCurrent r) := by
  intro cur env cs h hu
  simp only [ieval] at h
  obtain ⟨x, t, xs, y, rfl, hv, hr, hx⟩ := back_projectArray ihr h hu
  exact ⟨x, .projectArrayCurrentElem hv hr, hx⟩

theorem back_projectObjectN {l r : INode} (ihl : Back root l) (ihr : Back root r) : Back root (.projectObject l r) := by
  intro cur env cs h hu
  simp only [ieval] at h
  rcases bind_err_cases h with h1 | ⟨a, h1, h2⟩
  · obtain ⟨x, hr, hx⟩ := ihl cur env cs h1 hu
    exact ⟨x, .projectObject hr, hx⟩
  · obtain ⟨x, kvs, y, rfl, hv, hr, hx⟩ := back_projectObject ihr h2 hu
    exact ⟨x, .projectObjectElem h1 hv hr, hx⟩

theorem back_projectObjectCurrent {r : INode} (ihr : Back root r) : Back root (.projectObjectCurrent r) := by
  intro cur env cs h hu
  simp only [ieval] at h
  obtain ⟨x, kvs, y, rfl, hv, hr, hx⟩ := back_projectObject ihr h hu
  exact ⟨x, .projectObjectCurrentElem hv hr, hx⟩

theorem back_selectArray {c : INode} {fs : List INode} (ihc : Back root c) (ihfs : BackList root fs) :
    Back root (.selectArray c fs) := by
  intro cur env cs h hu
  simp only [ieval] at h
  rcases bind_err_cases h with h1 | ⟨a, h1, h2⟩
  · obtain ⟨x, hr, hx⟩ := ihc cur env cs h1 hu
    exact ⟨x, .selectArray hr, hx⟩
  · cases hn : a.isNull with
    | true => simp only [hn, if_true] at h2; cases h2
    | false =>
      simp only [hn, Bool.false_eq_true, if_false] at h2
      rcases bind_err_cases h2 with h3 | ⟨vs, _, h4⟩
      · obtain ⟨x, pre, e, post, vs, rfl, hp, hr, hx⟩ := ihfs a env cs h3 hu
        exact ⟨x, .selectArrayMem h1 hn hp hr, hx⟩
      · cases h4

theorem back_selectArrayCurrent {fs : List INode} (ihfs : BackList root fs) : Back root (.selectArrayCurrent fs) := by
  intro cur env cs h hu
  simp only [ieval] at h
  cases hn : cur.isNull with
  | true => simp only [hn, if_true] at h; cases h
  | false =>
    simp only [hn, Bool.false_eq_true, if_false] at h
    rcases bind_err_cases h with h3 | ⟨vs, _, h4⟩
    · obtain ⟨x, pre, e, post, vs, rfl, hp, hr, hx⟩ := ihfs cur env cs h3 hu
      exact ⟨x, .selectArrayCurrentMem hn hp hr, hx⟩
    · cases h4

theorem back_selectArraySingle {c f : INode} (ihc : Back root c) (ihf : Back root f) :
    Back root (.selectArraySingle c f) := by
  intro cur env cs h hu
  simp only [ieval] at h
  rcases bind_err_cases h with h1 | ⟨a, h1, h2⟩
  · obtain ⟨x, hr, hx⟩ := ihc cur env cs h1 hu
    exact ⟨x, .selectArraySingle hr, hx⟩
  · cases hn : a.isNull with
    | true => simp only [hn, if_true] at h2; cases h2
    | false =>
      simp only [hn, Bool.false_eq_true, if_false] at h2
      rcases bind_err_cases h2 with h3 | ⟨v, _, h4⟩
      · obtain ⟨x, hr, hx⟩ := ihf a env cs h3 hu
        exact ⟨x, .selectArraySingleMem h1 hn hr, hx⟩
      · cases h4

theorem back_selectObject {c : INode} {fs : List (Bytes × INode)} (ihc : Back root c) (ihfs : BackFields root fs) :
    Back root (.selectObject c fs) := by
  intro cur env cs h hu
  simp only [ieval] at h
  rcases bind_err_cases h with h1 | ⟨a, h1, h2⟩
  · obtain ⟨x, hr, hx⟩ := ihc cur env cs h1 hu
    exact ⟨x, .selectObject hr, hx⟩
  · cases hn : a.isNull with
    | true => simp only [hn, if_true] at h2; cases h2
    | false =>
      simp only [hn, Bool.false_eq_true, if_false] at h2
      rcases bind_err_cases h2 with h3 | ⟨kvs, _, h4⟩
      · obtain ⟨x, k, e, hm, hr, hx⟩ := ihfs a env cs h3 hu
        exact ⟨x, .selectObjectMem h1 hn hm hr, hx⟩
      · cases h4

theorem back_selectObjectCurrent {fs : List (Bytes × INode)} (ihfs : BackFields root fs) :
    Back root (.selectObjectCurrent fs) := by
  intro cur env cs h hu
  simp only [ieval] at h
  cases hn : cur.isNull with
  | true => simp only [hn, if_true] at h; cases h
  | false =>
    simp only [hn, Bool.false_eq_true, if_false] at h
    rcases bind_err_cases h with h3 | ⟨kvs, _, h4⟩
    · obtain ⟨x, k, e, hm, hr, hx⟩ := ihfs cur env cs h3 hu
      exact ⟨x, .selectObjectCurrentMem hn hm hr, hx⟩
    · cases h4

theorem back_selectObjectSingle {c : INode} {k : Bytes} {f : INode} (ihc : Back root c) (ihf : Back root f) :
    Back root (.selectObjectSingle c k f) := by
  intro cur env cs h hu
  simp only [ieval] at h
  rcases bind_err_cases h with h1 | ⟨a, h1, h2⟩
  · obtain ⟨x, hr, hx⟩ := ihc cur env cs h1 hu
    exact ⟨x, .selectObjectSingle hr, hx⟩
  · cases hn : a.isNull with
    | true => simp only [hn, if_true] at h2; cases h2
    | false =>
      simp only [hn, Bool.false_eq_true, if_false] at h2
      rcases bind_err_cases h2 with h3 | ⟨v, _, h4⟩
      · obtain ⟨x, hr, hx⟩ := ihf a env cs h3 hu
        exact ⟨x, .selectObjectSingleMem h1 hn hr, hx⟩
      · cases h4

theorem back_groupBy {a e : INode} (iha : Back root a) (ihe : Back root e) : Back root (.groupBy a e) := by
  intro cur env cs h hu
  simp only [ieval] at h
  rcases bind_err_cases h with h1 | ⟨v, h1, h2⟩
  · obtain ⟨x, hr, hx⟩ := iha cur env cs h1 hu
    exact ⟨x, .groupBy hr, hx⟩
  · obtain ⟨x, t, xs, y, rfl, hv, hr, hx⟩ := back_groupByV ihe h2 hu
    exact ⟨x, .groupByElem h1 hv hr, hx⟩

theorem back_map {e a : INode} (ihe : Back root e) (iha : Back root a) : Back root (.map e a) := by
  intro cur env cs h hu
  simp only [ieval] at h
  rcases bind_err_cases h with h1 | ⟨v, h1, h2⟩
  · obtain ⟨x, hr, hx⟩ := iha cur env cs h1 hu
    exact ⟨x, .map hr, hx⟩
  · obtain ⟨x, t, xs, y, rfl, hv, hr, hx⟩ := back_mapArray ihe h2 hu
    exact ⟨x, .mapElem h1 hv hr, hx⟩

theorem back_maxBy {a e : INode} (iha : Back root a) (ihe : Back root e) : Back root (.maxBy a e) := by
  intro cur env cs h hu
  simp only [ieval] at h
  rcases bind_err_cases h with h1 | ⟨v, h1, h2⟩
  · obtain ⟨x, hr, hx⟩ := iha cur env cs h1 hu
    exact ⟨x, .maxBy hr, hx⟩
  · obtain ⟨x, t, xs, y, rfl, hv, hr, hx⟩ := back_arrayPickBy _ ihe h2 hu
    exact ⟨x, .maxByElem h1 hv hr, hx⟩

theorem back_minBy {a e : INode} (iha : Back root a) (ihe : Back root e) : Back root (.minBy a e) := by
  intro cur env cs h hu
  simp only [ieval] at h
  rcases bind_err_cases h with h1 | ⟨v, h1, h2⟩
  · obtain ⟨x, hr, hx⟩ := iha cur env cs h1 hu
    exact ⟨x, .minBy hr, hx⟩
  · obtain ⟨x, t, xs, y, rfl, hv, hr, hx⟩ := back_arrayPickBy _ ihe h2 hu
    exact ⟨x, .minByElem h1 hv hr, hx⟩

theorem back_sortBy {a e : INode} (iha : Back root a) (ihe : Back root e) : Back root (.sortBy a e) := by
  intro cur env cs h hu
  simp only [ieval] at h
  rcases bind_err_cases h with h1 | ⟨v, h1, h2⟩
  · obtain ⟨x, hr, hx⟩ := iha cur env cs h1 hu
    exact ⟨x, .sortBy hr, hx⟩
  · obtain ⟨x, t, xs, y, rfl, hv, hr, hx⟩ := back_sortArrayBy ihe h2 hu
    exact ⟨x, .sortByElem h1 hv hr, hx⟩

theorem back_merge {args : List INode} (ih : BackMerge root args) : Back root (.merge args) := by
  intro cur env cs h hu
  simp only [ieval] at h
  rcases bind_err_cases h with h1 | ⟨kvs, _, h2⟩
  · obtain ⟨x, pre, a, post, acc', rfl, hp, hr, hx⟩ := ih cur env [] cs h1 hu
    exact ⟨x, .mergeArg hp hr, hx⟩
  · cases h2

theorem back_notNull {args : List INode} (ih : BackNotNull root args) : Back root (.notNull args) := by
  intro cur env cs h hu
  simp only [ieval] at h
  obtain ⟨x, pre, a, post, rfl, hp, hr, hx⟩ := ih cur env cs h hu
  exact ⟨x, .notNullArg hp hr, hx⟩

theorem back_zip {args : List INode} (ih : BackZip root args) : Back root (.zip args) := by
  intro cur env cs h hu
  simp only [ieval] at h
  rcases bind_err_cases h with h1 | ⟨vs, _, h2⟩
  · obtain ⟨x, pre, a, post, vs, rfl, hp, hr, hx⟩ := ih cur env cs h1 hu
    exact ⟨x, .zipArg hp hr, hx⟩
  · rcases bind_err_cases h2 with h3 | ⟨cols, _, h4⟩
    · exact absurd hu ((zipArgs_uv vs).err_pe h3)
    · cases cols <;> cases h4

/-! ### the member lists -/

theorem backList_nil : BackList root [] := by
  intro cur env cs h hu
  simp only [ievalList] at h
  cases h

theorem backList_cons {n : INode} {ns : List INode} (ih1 : Back root n) (ih2 : BackList root ns) :
    BackList root (n :: ns) := by
  intro cur env cs h hu
  simp only [ievalList] at h
  rcases bind_err_cases h with h1 | ⟨v, h1, h2⟩
  · obtain ⟨x, hr, hx⟩ := ih1 cur env cs h1 hu
    exact ⟨x, [], n, ns, [], rfl, rfl, hr, hx⟩
  · rcases bind_err_cases h2 with h3 | ⟨vs, _, h4⟩
    · obtain ⟨x, pre, a, post, vs, rfl, hp, hr, hx⟩ := ih2 cur env cs h3 hu
      refine ⟨x, n :: pre, a, post, v :: vs, rfl, ?_, hr, hx⟩
      simp only [ievalList, h1, hp, Res.ok_bind, Res.pure_eq]
    · cases h4

theorem backFields_nil : BackFields root [] := by
  intro cur env cs h hu
  simp only [ievalFields] at h
  cases h

theorem backFields_cons {k : Bytes} {n : INode} {rest : List (Bytes × INode)} (ih1 : Back root n)
    (ih2 : BackFields root rest) : BackFields root ((k, n) :: rest) := by
  intro cur env cs h hu
  simp only [ievalFields] at h
  rcases combineUnordered_inv h hu with ⟨a, ha, hua⟩ | ⟨b, hb, hub⟩
  · obtain ⟨x, k', e, hm, hr, hx⟩ := ih2 cur env a ha hua
    exact ⟨x, k', e, List.mem_cons_of_mem _ hm, hr, hx⟩
  · obtain ⟨x, hr, hx⟩ := ih1 cur env b hb hub
    exact ⟨x, k, n, List.mem_cons_self, hr, hx⟩

theorem backMerge_nil : BackMerge root [] := by
  intro cur env acc cs h hu
  simp only [ievalMerge] at h
  cases h

theorem backMerge_cons {n : INode} {ns : List INode} (ih1 : Back root n) (ih2 : BackMerge root ns) :
    BackMerge root (n :: ns) := by
  intro cur env acc cs h hu
  simp only [ievalMerge] at h
  rcases bind_err_cases h with h1 | ⟨v, h1, h2⟩
  · obtain ⟨x, hr, hx⟩ := ih1 cur env cs h1 hu
    exact ⟨x, [], n, ns, acc, rfl, rfl, hr, hx⟩
  · cases v with
    | obj kvs =>
      obtain ⟨x, pre, a, post, acc', rfl, hp, hr, hx⟩ := ih2 cur env _ cs h2 hu
      refine ⟨x, n :: pre, a, post, acc', rfl, ?_, hr, hx⟩
      simp only [ievalMerge, h1, Res.ok_bind, hp]
    | _ => cases h2 <;> exact absurd hu not_uv_errType

theorem backNotNull_nil : BackNotNull root [] := by
  intro cur env cs h hu
  simp only [ievalNotNull] at h
  cases h

theorem backNotNull_cons {n : INode} {ns : List INode} (ih1 : Back root n) (ih2 : BackNotNull root ns) :
    BackNotNull root (n :: ns) := by
  intro cur env cs h hu
  simp only [ievalNotNull] at h
  rcases bind_err_cases h with h1 | ⟨v, h1, h2⟩
  · obtain ⟨x, hr, hx⟩ := ih1 cur env cs h1 hu
    exact ⟨x, [], n, ns, rfl, rfl, hr, hx⟩
  · cases hn : v.isNull with
    | false => simp only [hn, Bool.false_eq_true, if_false] at h2; cases h2
    | true =>
      simp only [hn, if_true] at h2
      obtain ⟨x, pre, a, post, rfl, hp, hr, hx⟩ := ih2 cur env cs h2 hu
      refine ⟨x, n :: pre, a, post, rfl, ?_, hr, hx⟩
      simp only [ievalNotNull, h1, Res.ok_bind, hn, if_true, hp]

theorem backZip_nil : BackZip root [] := by
  intro cur env cs h hu
  simp only [ievalZip] at h
  cases h

theorem backZip_cons {n : INode} {ns : List INode} (ih1 : Back root n) (ih2 : BackZip root ns) :
    BackZip root (n :: ns) := by
  intro cur env cs h hu
  simp only [ievalZip] at h
  rcases bind_err_cases h with h1 | ⟨v, h1, h2⟩
  · obtain ⟨x, hr, hx⟩ := ih1 cur env cs h1 hu
    exact ⟨x, [], n, ns, [], rfl, rfl, hr, hx⟩
  · cases v with
    | arr t xs =>
      rcases bind_err_cases h2 with h3 | ⟨vs, _, h4⟩
      · obtain ⟨x, pre, a, post, vs, rfl, hp, hr, hx⟩ := ih2 cur env cs h3 hu
        refine ⟨x, n :: pre, a, post, .arr t xs :: vs, rfl, ?_, hr, hx⟩
        simp only [ievalZip, h1, Res.ok_bind, hp, Res.pure_eq]
      · cases h4
    | _ => cases h2 <;> exact absurd hu not_uv_errType

end back

/-! ### tying the knot -/

mutual
/-- **Backward (completeness).**  If evaluating `n` fails and undefined-variable is among the reported categories, then
    the evaluation gets to a reference `$x` that has no binding. -/
theorem reaches'_back (root : Val) : (n : INode) → Back root n
  | .lit _ => back_closed (by simp only [INode.fv])
  | .current => back_closed (by simp only [INode.fv])
  | .root => back_closed (by simp only [INode.fv])
  | .field _ => back_closed (by simp only [INode.fv])
  | .variable y => back_variable y
  | .binop _ l r => back_binop (reaches'_back root l) (reaches'_back root r)
  | .and l r => back_and (reaches'_back root l) (reaches'_back root r)
  | .or l r => back_or (reaches'_back root l) (reaches'_back root r)
  | .not c => back_not (reaches'_back root c)
  | .negate c => back_negate (reaches'_back root c)
  | .assertNumber c => back_assertNumber (reaches'_back root c)
  | .call _ args => back_call (reaches'_backList root args)
  | .defineVariables vars child => back_defineVariables (reaches'_backFields root vars) (reaches'_back root child)
  | .filter c f => back_filter (reaches'_back root c) (reaches'_back root f)
  | .filterCurrent f => back_filterCurrent (reaches'_back root f)
  | .filterAndProject l f r => back_filterAndProject (reaches'_back root l) (reaches'_back root f) (reaches'_back root r)
  | .filterAndProjectCurrent f c => back_filterAndProjectCurrent (reaches'_back root f) (reaches'_back root c)
  | .flatten c => back_flatten (reaches'_back root c)
  | .flattenCurrent => back_closed (by simp only [INode.fv])
  | .flattenAndProject l r => back_flattenAndProjectN (reaches'_back root l) (reaches'_back root r)
  | .flattenAndProjectCurrent c => back_flattenAndProjectCurrent (reaches'_back root c)
  | .index c _ => back_index (reaches'_back root c)
  | .indexCurrent _ => back_closed (by simp only [INode.fv])
  | .smallIndexCurrent _ => back_closed (by simp only [INode.fv])
  | .objectValues c => back_objectValues (reaches'_back root c)
  | .objectValuesCurrent => back_closed (by simp only [INode.fv])
  | .pipe l r => back_pipe (reaches'_back root l) (reaches'_back root r)
  | .projectArray l r => back_projectArrayN (reaches'_back root l) (reaches'_back root r)
  | .projectArrayCurrent c => back_projectArrayCurrent (reaches'_back root c)
  | .projectObject l r => back_projectObjectN (reaches'_back root l) (reaches'_back root r)
  | .projectObjectCurrent c => back_projectObjectCurrent (reaches'_back root c)
  | .pruneArray c => back_pruneArray (reaches'_back root c)
  | .pruneArrayCurrent => back_closed (by simp only [INode.fv])
  | .selectArray c fs => back_selectArray (reaches'_back root c) (reaches'_backList root fs)
  | .selectArrayCurrent fs => back_selectArrayCurrent (reaches'_backList root fs)
  | .selectArraySingle c f => back_selectArraySingle (reaches'_back root c) (reaches'_back root f)
  | .selectArraySingleCurrent f => back_selectArraySingleCurrent (reaches'_back root f)
  | .selectObject c fs => back_selectObject (reaches'_back root c) (reaches'_backFields root fs)
  | .selectObjectCurrent fs => back_selectObjectCurrent (reaches'_backFields root fs)
  | .selectObjectSingle c _ f => back_selectObjectSingle (reaches'_back root c) (reaches'_back root f)
  | .selectObjectSingleCurrent _ f => back_selectObjectSingleCurrent (reaches'_back root f)
  | .slice c _ _ => back_slice (reaches'_back root c)
  | .sliceCurrent _ _ => back_closed (by simp only [INode.fv])
  | .sliceStep c _ _ _ => back_sliceStep (reaches'_back root c)
  | .sliceStepCurrent _ _ _ => back_closed (by simp only [INode.fv])
  | .groupBy a e => back_groupBy (reaches'_back root a) (reaches'_back root e)
  | .map e a => back_map (reaches'_back root e) (reaches'_back root a)
  | .maxBy a e => back_maxBy (reaches'_back root a) (reaches'_back root e)
  | .minBy a e => back_minBy (reaches'_back root a) (reaches'_back root e)
  | .sortBy a e => back_sortBy (reaches'_back root a) (reaches'_back root e)
  | .merge args => back_merge (reaches'_backMerge root args)
  | .notNull args => back_notNull (reaches'_backNotNull root args)
  | .zip args => back_zip (reaches'_backZip root args)
theorem reaches'_backList (root : Val) : (ns : List INode) → BackList root ns
  | [] => backList_nil
  | n :: ns => backList_cons (reaches'_back root n) (reaches'_backList root ns)
theorem reaches'_backFields (root : Val) : (fs : List (Bytes × INode)) → BackFields root fs
  | [] => backFields_nil
  | (_, n) :: rest => backFields_cons (reaches'_back root n) (reaches'_backFields root rest)
theorem reaches'_backMerge (root : Val) : (ns : List INode) → BackMerge root ns
  | [] => backMerge_nil
  | n :: ns => backMerge_cons (reaches'_back root n) (reaches'_backMerge root ns)
theorem reaches'_backNotNull (root : Val) : (ns : List INode) → BackNotNull root ns
  | [] => backNotNull_nil
  | n :: ns => backNotNull_cons (reaches'_back root n) (reaches'_backNotNull root ns)
theorem reaches'_backZip (root : Val) : (ns : List INode) → BackZip root ns
  | [] => backZip_nil
  | n :: ns => backZip_cons (reaches'_back root n) (reaches'_backZip root ns)
end

/-- **Backward (completeness)**, spelled out: if `ieval root n cur env = .err cs` and undefined-variable is in `cs`, then
    `Reaches' root x n cur env` for some `x` that `env` does not bind. -/
theorem reaches'_of_undefined (root : Val) (n : INode) (cur : Val) (env : Env) (cs : List Cat)
    (h : ieval root n cur env = .err cs) (hu : Cat.undefinedVariable ∈ cs) :
    ∃ x, Reaches' root x n cur env ∧ env.get x = none :=
  reaches'_back root n cur env cs h hu

end Jmes.C19C
