/-
  C11 (third wave), core of the renaming theorem for the WHOLE evaluator.

  `renV f` (from `C11BRenameLemmas`) renames every code point of every string and object key of a value;
  here: `renN f` renames an expression node the same way (literals, field names, multi-select keys; variable
  names are left alone), `renE f` renames the values bound in an environment, `mapO` transports an outcome.

  A renaming is a strictly monotone `f : Nat → Nat` on code points (`Mono f`).  No non-trivial renaming can send ALL
  scalar values to scalar values (a strictly increasing self-map of a finite chain is the identity), so the theorem
  is relative to the strings that CAN be renamed: `rnB f s` — `s` is valid UTF-8 and the renamed code points are scalar
  values (`C11R.Renamable`, as a `Bool`).  `RnV f v`: every string and key in `v` can be renamed.  On such strings
  `renB f` is an order embedding for Go's `<` (`bytesLt`) and injective — all the evaluator asks of strings outside
  the string builtins.

  The theorems are proved as a logical relation `RR P g r r'` between the outcome `r` of the original run and the
  outcome `r'` of the renamed run: `r' = mapO g r` (same error categories, nondet ↦ nondet, values renamed) AND every
  value of `r` satisfies the invariant `P` (it can be renamed again).

  This file: definitions + the value-level facts every other `C11C*` file uses.
-/
import Jmes.Properties.C11B
namespace Jmes.C11C
open Jmes Jmes.Utf8 Jmes.C11 Jmes.C11S Jmes.C11R Jmes.C11V Jmes.Invar

/-! ## strings that can be renamed -/

/-- `s` can be renamed by `f`: valid UTF-8, and every renamed code point is a scalar value -/
def rnB (f : Nat → Nat) (s : Bytes) : Bool := validUTF8 s && (decodeAll s).all (fun c => isScalar (f c))

theorem rnB_iff {f : Nat → Nat} {s : Bytes} : rnB f s = true ↔ Renamable f s := by
  unfold rnB
  constructor
  · intro h
    simp only [Bool.and_eq_true, List.all_eq_true] at h
    obtain ⟨h1, h2⟩ := Utf8.validUTF8_decode s h.1
    refine ⟨decodeAll s, h1, ?_, h2⟩
    intro c hc
    obtain ⟨a, ha, rfl⟩ := List.mem_map.1 hc
    exact h.2 a ha
  · rintro ⟨cs, h1, h2, rfl⟩
    simp only [Bool.and_eq_true, List.all_eq_true]
    refine ⟨Utf8.validUTF8_encodeAll cs h1, ?_⟩
    rw [Utf8.decodeAll_encodeAll cs h1]
    intro c hc
    exact h2 (f c) (List.mem_map.2 ⟨c, hc, rfl⟩)

/-- the working form: the code points of `s`, and what `renB` does to it -/
theorem rn_cases {f : Nat → Nat} {s : Bytes} (h : rnB f s = true) :
    ∃ cs, Scalars cs ∧ Scalars (cs.map f) ∧ s = encodeAll cs ∧ renB f s = encodeAll (cs.map f) := by
  obtain ⟨cs, h1, h2, rfl⟩ := rnB_iff.1 h
  exact ⟨cs, h1, h2, rfl, renB_encodeAll f cs h1⟩

theorem rnB_enc {f : Nat → Nat} {cs : List Nat} (h : Scalars cs) (h' : Scalars (cs.map f)) :
    rnB f (encodeAll cs) = true := rnB_iff.2 (Renamable.mk h h')

theorem rnB_valid {f : Nat → Nat} {s : Bytes} (h : rnB f s = true) : validUTF8 s = true := by
  unfold rnB at h; simp only [Bool.and_eq_true] at h; exact h.1

@[simp] theorem rnB_nil (f : Nat → Nat) : rnB f [] = true := rfl

theorem encodeAll_inj {as bs : List Nat} (ha : Scalars as) (hb : Scalars bs) (e : encodeAll as = encodeAll bs) :
    as = bs := by
  rw [← Utf8.decodeAll_encodeAll as ha, ← Utf8.decodeAll_encodeAll bs hb, e]

/-- on renamable strings the renaming is injective -/
theorem renB_inj {f : Nat → Nat} (hm : Mono f) {a b : Bytes} (ha : rnB f a = true) (hb : rnB f b = true)
    (e : renB f a = renB f b) : a = b := by
  obtain ⟨as, h1, h2, rfl, ea⟩ := rn_cases ha
  obtain ⟨bs, h3, h4, rfl, eb⟩ := rn_cases hb
  rw [ea, eb] at e
  rw [map_inj hm.toInj as bs (encodeAll_inj h2 h4 e)]

theorem renB_eq_iff {f : Nat → Nat} (hm : Mono f) {a b : Bytes} (ha : rnB f a = true) (hb : rnB f b = true) :
    renB f a = renB f b ↔ a = b :=
  ⟨renB_inj hm ha hb, fun e => by rw [e]⟩

theorem renB_beq {f : Nat → Nat} (hm : Mono f) {a b : Bytes} (ha : rnB f a = true) (hb : rnB f b = true) :
    (renB f a == renB f b) = (a == b) := by
  by_cases h : a = b
  · subst h; rw [beq_self_eq_true, beq_self_eq_true]
  · have : renB f a ≠ renB f b := fun e => h (renB_inj hm ha hb e)
    rw [beq_false_of_ne this, beq_false_of_ne h]

theorem renB_decEq {f : Nat → Nat} (hm : Mono f) {a b : Bytes} (ha : rnB f a = true) (hb : rnB f b = true) :
    decide (renB f a = renB f b) = decide (a = b) := by
  by_cases h : a = b
  · subst h; simp
  · have : renB f a ≠ renB f b := fun e => h (renB_inj hm ha hb e)
    simp [h, this]

/-- … and an order embedding for Go's `<` on strings -/
theorem renB_lt {f : Nat → Nat} (hm : Mono f) {a b : Bytes} (ha : rnB f a = true) (hb : rnB f b = true) :
    bytesLt (renB f a) (renB f b) = bytesLt a b :=
  bytesLt_renB hm (rnB_iff.1 ha) (rnB_iff.1 hb)

theorem renB_isEmpty {f : Nat → Nat} {s : Bytes} (h : rnB f s = true) : (renB f s).isEmpty = s.isEmpty := by
  obtain ⟨cs, _, _, rfl, e⟩ := rn_cases h
  rw [e]
  cases cs with
  | nil => rfl
  | cons c cs =>
    rw [Utf8.isEmpty_encodeAll _ (by simp), Utf8.isEmpty_encodeAll _ (by simp)]

/-- the renamed string can be renamed back … at least it is valid UTF-8 -/
theorem renB_valid (f : Nat → Nat) (s : Bytes) : validUTF8 (renB f s) = true := C11S.validUTF8_encodeAll_any _

/-! ## values that can be renamed -/

mutual
/-- every string inside the value (string values and, at any depth, object keys) can be renamed -/
def RnV (f : Nat → Nat) : Val → Bool
  | .str s => rnB f s
  | .arr _ xs => RnVL f xs
  | .obj kvs => RnVF f kvs
  | _ => true
def RnVL (f : Nat → Nat) : List Val → Bool
  | [] => true
  | v :: vs => RnV f v && RnVL f vs
def RnVF (f : Nat → Nat) : List (Bytes × Val) → Bool
  | [] => true
  | (k, v) :: kvs => rnB f k && RnV f v && RnVF f kvs
end

theorem rnVL_iff {f : Nat → Nat} : ∀ {xs : List Val}, RnVL f xs = true ↔ ∀ x ∈ xs, RnV f x = true
  | [] => by simp [RnVL]
  | x :: xs => by simp [RnVL, rnVL_iff (xs := xs)]

theorem rnVF_iff {f : Nat → Nat} : ∀ {kvs : List (Bytes × Val)},
    RnVF f kvs = true ↔ ∀ kv ∈ kvs, rnB f kv.1 = true ∧ RnV f kv.2 = true
  | [] => by simp [RnVF]
  | (k, x) :: kvs => by simp [RnVF, rnVF_iff (kvs := kvs), and_assoc]

theorem rn_arr {f : Nat → Nat} {t : ATag} {xs : List Val} : RnV f (.arr t xs) = true ↔ RnVL f xs = true := by
  simp [RnV]
theorem rn_obj {f : Nat → Nat} {kvs : List (Bytes × Val)} : RnV f (.obj kvs) = true ↔ RnVF f kvs = true := by
  simp [RnV]
theorem rn_str {f : Nat → Nat} {s : Bytes} : RnV f (.str s) = true ↔ rnB f s = true := by simp [RnV]
@[simp] theorem rn_null {f : Nat → Nat} : RnV f .null = true := rfl
@[simp] theorem rn_bool {f : Nat → Nat} {b : Bool} : RnV f (.bool b) = true := rfl
@[simp] theorem rn_num {f : Nat → Nat} {n : Num} : RnV f (.num n) = true := rfl
@[simp] theorem rn_foreign {f : Nat → Nat} {n : Nat} : RnV f (.foreign n) = true := rfl
@[simp] theorem rnVL_nil {f : Nat → Nat} : RnVL f [] = true := rfl
@[simp] theorem rnVF_nil {f : Nat → Nat} : RnVF f [] = true := rfl
theorem rnVL_cons {f : Nat → Nat} {x : Val} {xs : List Val} :
    RnVL f (x :: xs) = true ↔ RnV f x = true ∧ RnVL f xs = true := by simp [RnVL]
theorem rnVF_cons {f : Nat → Nat} {k : Bytes} {x : Val} {kvs : List (Bytes × Val)} :
    RnVF f ((k, x) :: kvs) = true ↔ rnB f k = true ∧ RnV f x = true ∧ RnVF f kvs = true := by
  simp [RnVF, and_assoc]

theorem rnVL_append {f : Nat → Nat} {xs ys : List Val} (hx : RnVL f xs = true) (hy : RnVL f ys = true) :
    RnVL f (xs ++ ys) = true :=
  rnVL_iff.mpr fun z hz => by
    rcases List.mem_append.mp hz with h | h
    · exact rnVL_iff.mp hx z h
    · exact rnVL_iff.mp hy z h

theorem rnVL_sub {f : Nat → Nat} {xs ys : List Val} (h : RnVL f xs = true) (hsub : ∀ y ∈ ys, y ∈ xs) :
    RnVL f ys = true :=
  rnVL_iff.mpr fun y hy => rnVL_iff.mp h y (hsub y hy)

theorem rnVL_filter {f : Nat → Nat} {xs : List Val} (q : Val → Bool) (h : RnVL f xs = true) :
    RnVL f (xs.filter q) = true :=
  rnVL_sub h fun _ hy => (List.mem_filter.mp hy).1

theorem rn_getD {f : Nat → Nat} {xs : List Val} (h : RnVL f xs = true) (i : Nat) :
    RnV f (xs.getD i .null) = true := by
  rw [List.getD_eq_getElem?_getD]
  cases hi : xs[i]? with
  | none => rfl
  | some v => exact rnVL_iff.mp h v (List.mem_of_getElem? hi)

mutual
/-- a value that can be renamed is valid UTF-8 throughout -/
theorem rn_valid {f : Nat → Nat} : ∀ {v : Val}, RnV f v = true → v.Valid = true
  | .str _, h => valid_str.mpr (rnB_valid (rn_str.mp h))
  | .arr _ xs, h => valid_arr.mpr (rnL_valid (rn_arr.mp h))
  | .obj kvs, h => valid_obj.mpr (rnF_valid (rn_obj.mp h))
  | .null, _ => rfl
  | .bool _, _ => rfl
  | .num _, _ => rfl
  | .foreign _, _ => rfl
theorem rnL_valid {f : Nat → Nat} : ∀ {xs : List Val}, RnVL f xs = true → Val.ValidL xs = true
  | [], _ => rfl
  | x :: xs, h => validL_cons.mpr ⟨rn_valid (rnVL_cons.mp h).1, rnL_valid (rnVL_cons.mp h).2⟩
theorem rnF_valid {f : Nat → Nat} : ∀ {kvs : List (Bytes × Val)}, RnVF f kvs = true → Val.ValidF kvs = true
  | [], _ => rfl
  | (k, x) :: kvs, h =>
    validF_cons.mpr ⟨rnB_valid (rnVF_cons.mp h).1, rn_valid (rnVF_cons.mp h).2.1, rnF_valid (rnVF_cons.mp h).2.2⟩
end

/-! ## outcomes -/

/-- transport the value of an outcome; every other outcome (error categories, panic, nondet, unmodelled) unchanged -/
def mapO {α β} (g : α → β) : Res α → Res β
  | .ok a => .ok (g a)
  | .err c => .err c
  | .panic w => .panic w
  | .nondet => .nondet
  | .unmodelled w => .unmodelled w

@[simp] theorem mapO_ok {α β} (g : α → β) (a : α) : mapO g (.ok a) = .ok (g a) := rfl
@[simp] theorem mapO_err {α β} (g : α → β) (c : List Cat) : mapO g (.err c : Res α) = .err c := rfl
@[simp] theorem mapO_nondet {α β} (g : α → β) : mapO g (.nondet : Res α) = .nondet := rfl
@[simp] theorem mapO_panic {α β} (g : α → β) (w : String) : mapO g (.panic w : Res α) = .panic w := rfl
@[simp] theorem mapO_unmodelled {α β} (g : α → β) (w : String) : mapO g (.unmodelled w : Res α) = .unmodelled w := rfl

theorem mapRes_eq_mapO (g : Val → Val) (r : Res Val) : mapRes g r = mapO g r := by cases r <;> rfl

/-- **the relation between the original run `r` and the renamed run `r'`**: the renamed run has the renamed outcome,
    and a value of the original run satisfies the invariant `P` -/
structure RR {α β} (P : α → Prop) (g : α → β) (r : Res α) (r' : Res β) : Prop where
  eq : r' = mapO g r
  inv : ∀ a, r = .ok a → P a

theorem RR.ok {α β} {P : α → Prop} {g : α → β} {a : α} (h : P a) : RR P g (.ok a) (.ok (g a)) :=
  ⟨rfl, fun _ e => by cases e; exact h⟩
theorem RR.pure {α β} {P : α → Prop} {g : α → β} {a : α} (h : P a) : RR P g (pure a) (pure (g a)) := RR.ok h
theorem RR.err {α β} {P : α → Prop} {g : α → β} (c : List Cat) : RR P g (.err c) (.err c) :=
  ⟨rfl, fun _ e => by cases e⟩
theorem RR.errType {α β} {P : α → Prop} {g : α → β} : RR P g (errType : Res α) (errType : Res β) := RR.err _
theorem RR.errValue {α β} {P : α → Prop} {g : α → β} : RR P g (errValue : Res α) (errValue : Res β) := RR.err _
theorem RR.nondet {α β} {P : α → Prop} {g : α → β} : RR P g (.nondet) (.nondet) :=
  ⟨rfl, fun _ e => by cases e⟩
theorem RR.panic {α β} {P : α → Prop} {g : α → β} (w : String) : RR P g (.panic w) (.panic w) :=
  ⟨rfl, fun _ e => by cases e⟩
theorem RR.unmodelled {α β} {P : α → Prop} {g : α → β} (w : String) : RR P g (.unmodelled w) (.unmodelled w) :=
  ⟨rfl, fun _ e => by cases e⟩

/-- the relation is compatible with sequencing -/
theorem RR.bind {α α' β β'} {P : α → Prop} {g : α → α'} {Q : β → Prop} {h : β → β'} {r : Res α} {r' : Res α'}
    {k : α → Res β} {k' : α' → Res β'} (hr : RR P g r r') (hk : ∀ a, P a → RR Q h (k a) (k' (g a))) :
    RR Q h (r >>= k) (r' >>= k') := by
  obtain ⟨e, inv⟩ := hr
  subst e
  cases r with
  | ok a => exact hk a (inv a rfl)
  | err c => exact RR.err c
  | panic w => exact RR.panic w
  | nondet => exact RR.nondet
  | unmodelled w => exact RR.unmodelled w

theorem RR.mono {α β} {P Q : α → Prop} {g : α → β} {r : Res α} {r' : Res β} (h : RR P g r r')
    (hpq : ∀ a, P a → Q a) : RR Q g r r' :=
  ⟨h.eq, fun a e => hpq a (h.inv a e)⟩

/-- change of the transport function where it matters -/
theorem RR.congr {α β} {P : α → Prop} {g g' : α → β} {r : Res α} {r' : Res β} (h : RR P g r r')
    (hg : ∀ a, P a → g a = g' a) : RR P g' r r' := by
  refine ⟨?_, h.inv⟩
  rw [h.eq]
  cases r with
  | ok a => simp only [mapO_ok]; rw [hg a (h.inv a rfl)]
  | _ => rfl

/-- an outcome whose value (if any) is unaffected by the renaming -/
theorem RR.same {r : Res Val} {f : Nat → Nat} (h : ∀ v, r = .ok v → RnV f v = true ∧ renV f v = v) :
    RR (fun v => RnV f v = true) (renV f) r r := by
  refine ⟨?_, fun a e => (h a e).1⟩
  cases r with
  | ok a => simp only [mapO_ok]; rw [(h a rfl).2]
  | _ => rfl

/-- values -/
abbrev RRV (f : Nat → Nat) (r r' : Res Val) : Prop := RR (fun v => RnV f v = true) (renV f) r r'
/-- lists of values -/
abbrev RRL (f : Nat → Nat) (r r' : Res (List Val)) : Prop := RR (fun vs => RnVL f vs = true) (renVL f) r r'
/-- a pair of sub-expression evaluators (original, renamed) -/
abbrev FnRel (f : Nat → Nat) (k k' : Val → Res Val) : Prop := ∀ x, RnV f x = true → RRV f (k x) (k' (renV f x))

/-! ## renaming a node -/

mutual
/-- rename an expression node: literals, field names and multi-select keys are renamed; variable names, numbers
    (indices, slice bounds) and the shape are untouched -/
def renN (f : Nat → Nat) : INode → INode
  | .lit v => .lit (renV f v)
  | .current => .current
  | .root => .root
  | .field k => .field (renB f k)
  | .variable name => .variable name
  | .binop op l r => .binop op (renN f l) (renN f r)
  | .and l r => .and (renN f l) (renN f r)
  | .or l r => .or (renN f l) (renN f r)
  | .not c => .not (renN f c)
  | .negate c => .negate (renN f c)
  | .assertNumber c => .assertNumber (renN f c)
  | .call fn args => .call fn (renNL f args)
  | .defineVariables vars child => .defineVariables (renNF f false vars) (renN f child)
  | .filter c p => .filter (renN f c) (renN f p)
  | .filterCurrent p => .filterCurrent (renN f p)
  | .filterAndProject l p r => .filterAndProject (renN f l) (renN f p) (renN f r)
  | .filterAndProjectCurrent p c => .filterAndProjectCurrent (renN f p) (renN f c)
  | .flatten c => .flatten (renN f c)
  | .flattenCurrent => .flattenCurrent
  | .flattenAndProject l r => .flattenAndProject (renN f l) (renN f r)
  | .flattenAndProjectCurrent c => .flattenAndProjectCurrent (renN f c)
  | .index c i => .index (renN f c) i
  | .indexCurrent i => .indexCurrent i
  | .smallIndexCurrent i => .smallIndexCurrent i
  | .objectValues c => .objectValues (renN f c)
  | .objectValuesCurrent => .objectValuesCurrent
  | .pipe l r => .pipe (renN f l) (renN f r)
  | .projectArray l r => .projectArray (renN f l) (renN f r)
  | .projectArrayCurrent c => .projectArrayCurrent (renN f c)
  | .projectObject l r => .projectObject (renN f l) (renN f r)
  | .projectObjectCurrent c => .projectObjectCurrent (renN f c)
  | .pruneArray c => .pruneArray (renN f c)
  | .pruneArrayCurrent => .pruneArrayCurrent
  | .selectArray c fs => .selectArray (renN f c) (renNL f fs)
  | .selectArrayCurrent fs => .selectArrayCurrent (renNL f fs)
  | .selectArraySingle c p => .selectArraySingle (renN f c) (renN f p)
  | .selectArraySingleCurrent p => .selectArraySingleCurrent (renN f p)
  | .selectObject c fs => .selectObject (renN f c) (renNF f true fs)
  | .selectObjectCurrent fs => .selectObjectCurrent (renNF f true fs)
  | .selectObjectSingle c k p => .selectObjectSingle (renN f c) (renB f k) (renN f p)
  | .selectObjectSingleCurrent k p => .selectObjectSingleCurrent (renB f k) (renN f p)
  | .slice c a b => .slice (renN f c) a b
  | .sliceCurrent a b => .sliceCurrent a b
  | .sliceStep c a b s => .sliceStep (renN f c) a b s
  | .sliceStepCurrent a b s => .sliceStepCurrent a b s
  | .groupBy a e => .groupBy (renN f a) (renN f e)
  | .map e a => .map (renN f e) (renN f a)
  | .maxBy a e => .maxBy (renN f a) (renN f e)
  | .minBy a e => .minBy (renN f a) (renN f e)
  | .sortBy a e => .sortBy (renN f a) (renN f e)
  | .merge args => .merge (renNL f args)
  | .notNull args => .notNull (renNL f args)
  | .zip args => .zip (renNL f args)
def renNL (f : Nat → Nat) : List INode → List INode
  | [] => []
  | n :: ns => renN f n :: renNL f ns
/-- members of a multi-select hash (`keys = true`: the keys are renamed) or bindings of a `let` (`keys = false`: the
    variable names stay) -/
def renNF (f : Nat → Nat) (keys : Bool) : List (Bytes × INode) → List (Bytes × INode)
  | [] => []
  | (k, n) :: rest => ((if keys then renB f k else k), renN f n) :: renNF f keys rest
end

/-- the values bound in an environment are renamed, the variable names are not -/
def renE (f : Nat → Nat) (env : Env) : Env := env.map (fun kv => (kv.1, renV f kv.2))

/-- the bound values can be renamed -/
def RnE (f : Nat → Nat) (env : Env) : Bool := env.all (fun kv => RnV f kv.2)

theorem rnE_iff {f : Nat → Nat} {env : Env} : RnE f env = true ↔ ∀ kv ∈ env, RnV f kv.2 = true := by
  simp [RnE]

theorem rnE_append {f : Nat → Nat} {xs ys : Env} (hx : RnE f xs = true) (hy : RnE f ys = true) :
    RnE f (xs ++ ys) = true :=
  rnE_iff.mpr fun z hz => by
    rcases List.mem_append.mp hz with h | h
    · exact rnE_iff.mp hx z h
    · exact rnE_iff.mp hy z h

theorem renE_append (f : Nat → Nat) (xs ys : Env) : renE f (xs ++ ys) = renE f xs ++ renE f ys := by
  unfold renE; rw [List.map_append]

/-- looking a variable up in the renamed environment -/
theorem envGet_ren (f : Nat → Nat) (name : Bytes) : ∀ env : Env,
    Env.get (renE f env) name = (Env.get env name).map (renV f)
  | [] => rfl
  | (k, v) :: rest => by
    simp only [renE, Env.get, List.map_cons, objLookup]
    split
    · rfl
    · exact envGet_ren f name rest

theorem rn_envGet {f : Nat → Nat} {env : Env} (h : RnE f env = true) {name : Bytes} {v : Val}
    (hl : Env.get env name = some v) : RnV f v = true :=
  rnE_iff.mp h (name, v) (objLookup_mem hl)

/-! ## what the renaming does not touch -/

theorem renV_null (f : Nat → Nat) : renV f .null = .null := by rw [renV]
theorem renV_bool (f : Nat → Nat) (b : Bool) : renV f (.bool b) = .bool b := by rw [renV]
theorem renV_num (f : Nat → Nat) (n : Num) : renV f (.num n) = .num n := by rw [renV]
theorem renV_foreign (f : Nat → Nat) (n : Nat) : renV f (.foreign n) = .foreign n := by rw [renV]
theorem renV_str (f : Nat → Nat) (s : Bytes) : renV f (.str s) = .str (renB f s) := by rw [renV]
theorem renV_arr (f : Nat → Nat) (t : ATag) (xs : List Val) : renV f (.arr t xs) = .arr t (renVL f xs) := by rw [renV]
theorem renV_obj (f : Nat → Nat) (kvs : List (Bytes × Val)) : renV f (.obj kvs) = .obj (renVF f kvs) := by rw [renV]
theorem renVL_nil (f : Nat → Nat) : renVL f [] = [] := by rw [renVL]
theorem renVL_cons (f : Nat → Nat) (x : Val) (xs : List Val) : renVL f (x :: xs) = renV f x :: renVL f xs := by
  rw [renVL]
theorem renVF_nil (f : Nat → Nat) : renVF f [] = [] := by rw [renVF]
theorem renVF_cons (f : Nat → Nat) (k : Bytes) (x : Val) (kvs : List (Bytes × Val)) :
    renVF f ((k, x) :: kvs) = (renB f k, renV f x) :: renVF f kvs := by rw [renVF]

theorem renVL_length (f : Nat → Nat) (xs : List Val) : (renVL f xs).length = xs.length := by
  rw [renVL_eq_map, List.length_map]
theorem renVF_length (f : Nat → Nat) (xs : List (Bytes × Val)) : (renVF f xs).length = xs.length := by
  rw [renVF_eq_map, List.length_map]
theorem renVL_append (f : Nat → Nat) (xs ys : List Val) : renVL f (xs ++ ys) = renVL f xs ++ renVL f ys := by
  simp only [renVL_eq_map, List.map_append]
theorem renVL_isEmpty (f : Nat → Nat) (xs : List Val) : (renVL f xs).isEmpty = xs.isEmpty := by
  cases xs <;> simp [renVL]
theorem renVF_isEmpty (f : Nat → Nat) (xs : List (Bytes × Val)) : (renVF f xs).isEmpty = xs.isEmpty := by
  cases xs with
  | nil => simp [renVF]
  | cons kv xs => obtain ⟨k, v⟩ := kv; simp [renVF]

theorem isNull_ren (f : Nat → Nat) (v : Val) : (renV f v).isNull = v.isNull := by
  cases v <;> simp only [renV] <;> rfl

/-- a renamed value is null exactly when the value is -/
theorem renV_eq_null {f : Nat → Nat} {v : Val} : renV f v = .null ↔ v = .null := by
  cases v <;> simp [renV]

theorem toDecimal_ren (f : Nat → Nat) (v : Val) : toDecimal (renV f v) = toDecimal v := by
  cases v <;> simp only [renV] <;> rfl
theorem toFloat_ren (f : Nat → Nat) (v : Val) : toFloat (renV f v) = toFloat v := by
  cases v <;> simp only [renV] <;> rfl
theorem toInt_ren (f : Nat → Nat) (v : Val) : toInt (renV f v) = toInt v := by
  cases v <;> simp only [renV] <;> rfl
theorem isNumber_ren (f : Nat → Nat) (v : Val) : isNumber (renV f v) = isNumber v := by
  cases v <;> simp only [renV] <;> rfl
theorem intArg_ren (f : Nat → Nat) (v : Val) : intArg (renV f v) = intArg v := by
  unfold intArg; rw [toInt_ren, toDecimal_ren]
theorem toFloatPair_ren (f : Nat → Nat) (x y : Val) : toFloatPair (renV f x) (renV f y) = toFloatPair x y := by
  unfold toFloatPair; rw [toFloat_ren, toFloat_ren]

/-- a number is its own renaming -/
theorem renV_of_toDecimal {f : Nat → Nat} {v : Val} {d : Dec} (h : toDecimal v = some d) : renV f v = v := by
  cases v <;> first | rfl | (simp [toDecimal] at h) | (rw [renV])

theorem isTrue_ren {f : Nat → Nat} {v : Val} (h : RnV f v = true) : isTrue (renV f v) = isTrue v := by
  cases v with
  | str s => simp only [renV, isTrue]; rw [renB_isEmpty (rn_str.mp h)]
  | arr t xs => simp only [renV, isTrue]; rw [renVL_isEmpty]
  | obj kvs => simp only [renV, isTrue]; rw [renVF_isEmpty]
  | _ => simp only [renV]

mutual
theorem hasEnum2_ren (f : Nat → Nat) : ∀ v : Val, (renV f v).hasEnum2 = v.hasEnum2
  | .arr t xs => by
    simp only [renV, Val.hasEnum2]; rw [renVL_length, hasEnum2L_ren f xs]
  | .obj kvs => by simp only [renV, Val.hasEnum2]; exact hasEnum2F_ren f kvs
  | .null => by simp only [renV]
  | .bool _ => by simp only [renV]
  | .str _ => by simp only [renV, Val.hasEnum2]
  | .num _ => by simp only [renV]
  | .foreign _ => by simp only [renV]
theorem hasEnum2L_ren (f : Nat → Nat) : ∀ xs : List Val, Val.hasEnum2L (renVL f xs) = Val.hasEnum2L xs
  | [] => by simp only [renVL]
  | x :: xs => by simp only [renVL, Val.hasEnum2L]; rw [hasEnum2_ren f x, hasEnum2L_ren f xs]
theorem hasEnum2F_ren (f : Nat → Nat) : ∀ xs : List (Bytes × Val), Val.hasEnum2F (renVF f xs) = Val.hasEnum2F xs
  | [] => by simp only [renVF]
  | (k, x) :: xs => by simp only [renVF, Val.hasEnum2F]; rw [hasEnum2_ren f x, hasEnum2F_ren f xs]
end

theorem enum2_ren (f : Nat → Nat) (t : ATag) (xs : List Val) : enum2 t (renVL f xs) = enum2 t xs := by
  unfold enum2; rw [renVL_length]

/-! ## objects: lookup and insertion commute with the renaming of keys -/

theorem objLookup_ren {f : Nat → Nat} (hm : Mono f) {k : Bytes} (hk : rnB f k = true) :
    ∀ {kvs : List (Bytes × Val)}, RnVF f kvs = true →
      objLookup (renB f k) (renVF f kvs) = (objLookup k kvs).map (renV f)
  | [], _ => by simp only [renVF, objLookup, Option.map_none]
  | (k', v) :: rest, h => by
    have h' := rnVF_cons.mp h
    simp only [renVF, objLookup]
    by_cases e : k = k'
    · subst e; simp
    · have : renB f k ≠ renB f k' := fun e' => e (renB_inj hm hk h'.1 e')
      simp only [e, this, if_false]
      exact objLookup_ren hm hk h'.2.2

theorem rn_objLookup {f : Nat → Nat} {kvs : List (Bytes × Val)} (h : RnVF f kvs = true) {k : Bytes} {v : Val}
    (hl : objLookup k kvs = some v) : RnV f v = true :=
  (rnVF_iff.mp h (k, v) (objLookup_mem hl)).2

theorem objInsert_ren {f : Nat → Nat} (hm : Mono f) {k : Bytes} (hk : rnB f k = true) (v : Val) :
    ∀ {kvs : List (Bytes × Val)}, RnVF f kvs = true →
      objInsert (renB f k) (renV f v) (renVF f kvs) = renVF f (objInsert k v kvs)
  | [], _ => by simp only [renVF, objInsert]
  | (k', v') :: rest, h => by
    have h' := rnVF_cons.mp h
    simp only [renVF, objInsert]
    rw [renB_lt hm hk h'.1]
    by_cases e : k = k'
    · subst e; simp [renVF]
    · have : renB f k ≠ renB f k' := fun e' => e (renB_inj hm hk h'.1 e')
      simp only [e, this, if_false]
      split
      · simp only [renVF]
      · simp only [renVF]; rw [objInsert_ren hm hk v h'.2.2]

theorem rnVF_objInsert {f : Nat → Nat} {k : Bytes} {v : Val} (hk : rnB f k = true) (hv : RnV f v = true) :
    ∀ {kvs : List (Bytes × Val)}, RnVF f kvs = true → RnVF f (objInsert k v kvs) = true
  | [], _ => rnVF_cons.mpr ⟨hk, hv, rfl⟩
  | (k', v') :: rest, h => by
    have h' := rnVF_cons.mp h
    simp only [objInsert]
    split
    · exact rnVF_cons.mpr ⟨hk, hv, h'.2.2⟩
    · split
      · exact rnVF_cons.mpr ⟨hk, hv, h⟩
      · exact rnVF_cons.mpr ⟨h'.1, h'.2.1, rnVF_objInsert hk hv h'.2.2⟩

/-- the accumulation loop of `merge` -/
theorem foldInsert_ren {f : Nat → Nat} (hm : Mono f) : ∀ {kvs acc : List (Bytes × Val)}, RnVF f kvs = true →
    RnVF f acc = true →
    (renVF f kvs).foldl (fun a kv => objInsert kv.1 kv.2 a) (renVF f acc)
      = renVF f (kvs.foldl (fun a kv => objInsert kv.1 kv.2 a) acc) ∧
    RnVF f (kvs.foldl (fun a kv => objInsert kv.1 kv.2 a) acc) = true
  | [], _, _, ha => ⟨by simp only [renVF, List.foldl_nil], ha⟩
  | (k, v) :: rest, acc, h, ha => by
    have h' := rnVF_cons.mp h
    simp only [renVF, List.foldl_cons]
    rw [objInsert_ren hm h'.1 v ha]
    exact foldInsert_ren hm h'.2.2 (rnVF_objInsert h'.1 h'.2.1 ha)

/-- insertion under an unrenamed key (the bindings of `let`: variable names stay) -/
theorem objInsert_renVals (f : Nat → Nat) (k : Bytes) (v : Val) : ∀ kvs : List (Bytes × Val),
    objInsert k (renV f v) (renE f kvs) = renE f (objInsert k v kvs)
  | [] => rfl
  | (k', v') :: rest => by
    simp only [renE, List.map_cons, objInsert]
    split
    · rfl
    · split
      · rfl
      · simp only [List.map_cons]
        have := objInsert_renVals f k v rest
        simp only [renE] at this
        rw [this]

theorem rnE_objInsert {f : Nat → Nat} {k : Bytes} {v : Val} (hv : RnV f v = true) :
    ∀ {kvs : List (Bytes × Val)}, RnE f kvs = true → RnE f (objInsert k v kvs) = true
  | [], _ => by simp [RnE, objInsert, hv]
  | (k', v') :: rest, h => by
    have h1 : RnV f v' = true ∧ RnE f rest = true := by simpa [RnE] using h
    simp only [objInsert]
    split
    · simp [RnE, hv]; simpa [RnE] using h1.2
    · split
      · simp [RnE, hv, h1.1]; simpa [RnE] using h1.2
      · have := rnE_objInsert (k := k) hv h1.2
        simp [RnE, h1.1]; simpa [RnE] using this

/-! ## equality of values -/

mutual
/-- JMESPath `==` does not see the renaming -/
theorem equal_ren {f : Nat → Nat} (hm : Mono f) : ∀ (x y : Val), RnV f x = true → RnV f y = true →
    equal (renV f x) (renV f y) = equal x y
  | .null, y, _, _ => by simp only [renV, equal]; exact isNull_ren f y
  | .bool a, y, _, _ => by cases y <;> simp only [renV, equal]
  | .str a, y, hx, hy => by
    cases y with
    | str b => simp only [renV, equal]; exact renB_beq hm (rn_str.mp hx) (rn_str.mp hy)
    | _ => simp only [renV, equal]
  | .num n, y, _, _ => by
    simp only [renV, equal]
    rw [toDecimal_ren]
  | .arr t xs, y, hx, hy => by
    cases y with
    | arr u ys => simp only [renV, equal]; exact equalL_ren hm xs ys (rn_arr.mp hx) (rn_arr.mp hy)
    | _ => simp only [renV, equal]
  | .obj xs, y, hx, hy => by
    cases y with
    | obj ys =>
      simp only [renV, equal]
      rw [renVF_length, renVF_length, equalF_ren hm xs ys (rn_obj.mp hx) (rn_obj.mp hy)]
    | _ => simp only [renV, equal]
  | .foreign _, y, _, _ => by simp only [renV, equal]
theorem equalL_ren {f : Nat → Nat} (hm : Mono f) : ∀ (xs ys : List Val), RnVL f xs = true → RnVL f ys = true →
    equalL (renVL f xs) (renVL f ys) = equalL xs ys
  | [], [], _, _ => by simp only [renVL, equalL]
  | [], _ :: _, _, _ => by simp only [renVL, equalL]
  | _ :: _, [], _, _ => by simp only [renVL, equalL]
  | x :: xs, y :: ys, hx, hy => by
    simp only [renVL, equalL]
    rw [equal_ren hm x y (rnVL_cons.mp hx).1 (rnVL_cons.mp hy).1,
      equalL_ren hm xs ys (rnVL_cons.mp hx).2 (rnVL_cons.mp hy).2]
theorem equalF_ren {f : Nat → Nat} (hm : Mono f) : ∀ (xs ys : List (Bytes × Val)), RnVF f xs = true →
    RnVF f ys = true → equalF (renVF f xs) (renVF f ys) = equalF xs ys
  | [], _, _, _ => by simp only [renVF, equalF]
  | (k, x) :: xs, ys, hx, hy => by
    have hx' := rnVF_cons.mp hx
    simp only [renVF, equalF]
    rw [objLookup_ren hm hx'.1 hy, equalF_ren hm xs ys hx'.2.2 hy]
    cases hl : objLookup k ys with
    | none => rfl
    | some y =>
      simp only [Option.map_some]
      rw [equal_ren hm x y hx'.2.1 (rn_objLookup hy hl)]
end

theorem equalR_ren {f : Nat → Nat} (hm : Mono f) {x y : Val} (hx : RnV f x = true) (hy : RnV f y = true) :
    equalR (renV f x) (renV f y) = equalR x y := by
  unfold equalR; rw [hasEnum2_ren, hasEnum2_ren, equal_ren hm x y hx hy]

/-! ## `renN` keeps the shape -/

theorem isSlice_ren (f : Nat → Nat) (n : INode) : (renN f n).isSlice = n.isSlice := by
  cases n <;> simp only [renN] <;> rfl

/-! ## lists of strings -/

theorem allStrings_ren (f : Nat → Nat) : ∀ xs : List Val,
    allStrings (renVL f xs) = (allStrings xs).map (List.map (renB f))
  | [] => by simp only [renVL, allStrings]; rfl
  | x :: xs => by
    cases x <;> simp only [renVL, renV, allStrings, Option.map_none]
    rw [allStrings_ren f xs]
    cases allStrings xs <;> rfl

theorem allStrings_rn {f : Nat → Nat} : ∀ {xs : List Val} {ss : List Bytes}, RnVL f xs = true →
    allStrings xs = some ss → ∀ s ∈ ss, rnB f s = true
  | [], ss, _, h => by cases h; intro s hs; cases hs
  | x :: xs, ss, hx, h => by
    cases x <;> simp only [allStrings] at h <;> try (cases h)
    rename_i s
    cases h' : allStrings xs with
    | none => rw [h'] at h; cases h
    | some ss' =>
      rw [h'] at h; cases h
      intro a ha
      rcases List.mem_cons.1 ha with rfl | ha
      · exact rn_str.mp (rnVL_cons.mp hx).1
      · exact allStrings_rn (rnVL_cons.mp hx).2 h' a ha

theorem allDecimals_ren (f : Nat → Nat) : ∀ xs : List Val, allDecimals (renVL f xs) = allDecimals xs
  | [] => by simp only [renVL]
  | x :: xs => by simp only [renVL, allDecimals]; rw [toDecimal_ren, allDecimals_ren f xs]

/-- an array of numbers is its own renaming -/
theorem renVL_of_allDecimals {f : Nat → Nat} : ∀ {xs : List Val} {ds : List Dec}, allDecimals xs = some ds →
    renVL f xs = xs
  | [], _, _ => by simp only [renVL]
  | x :: xs, ds, h => by
    simp only [allDecimals] at h
    cases hd : toDecimal x with
    | none => rw [hd] at h; cases h
    | some d =>
      rw [hd] at h
      cases hr : allDecimals xs with
      | none => rw [hr] at h; cases h
      | some ds' =>
        simp only [renVL]
        rw [renV_of_toDecimal hd, renVL_of_allDecimals hr]

theorem rn_strs {f : Nat → Nat} {t : ATag} {ss : List Bytes} (h : ∀ s ∈ ss, rnB f s = true) :
    RnV f (.arr t (ss.map Val.str)) = true := by
  refine rn_arr.mpr (rnVL_iff.mpr ?_)
  intro x hx
  obtain ⟨s, hs, rfl⟩ := List.mem_map.1 hx
  exact rn_str.mpr (h s hs)

theorem rn_strsToArr {f : Nat → Nat} {ss : List Bytes} (h : ∀ s ∈ ss, rnB f s = true) :
    RnV f (strsToArr ss) = true := rn_strs h

/-! ## `widen` (the error categories of a loop over a map-ordered array) -/

/-- an outcome that is neither a value nor an error -/
def unsettled (r : Res Val) : Bool := match r with | .ok _ => false | .err _ => false | _ => true
/-- the categories of an error outcome -/
def catsOf (r : Res Val) : List Cat := match r with | .err c => c | _ => []

theorem unsettled_mapO (g : Val → Val) (r : Res Val) : unsettled (mapO g r) = unsettled r := by cases r <;> rfl
theorem catsOf_mapO (g : Val → Val) (r : Res Val) : catsOf (mapO g r) = catsOf r := by cases r <;> rfl

theorem widen_err {α} (t : ATag) (xs : List Val) (fs : List (Val → Res Val)) (extra cs : List Cat) :
    (widen t xs fs extra (.err cs) : Res α) =
      if enum2 t xs then
        if xs.any (fun x => fs.any (fun k => unsettled (k x))) then .nondet
        else .err (Cat.dedup (cs ++ extra ++ xs.flatMap (fun x => fs.flatMap (fun k => catsOf (k x)))))
      else .err cs := rfl

theorem any_renVL (f : Nat → Nat) (p q : Val → Bool) : ∀ xs : List Val, (∀ x ∈ xs, q (renV f x) = p x) →
    (renVL f xs).any q = xs.any p
  | [], _ => by simp only [renVL, List.any_nil]
  | x :: xs, h => by
    simp only [renVL, List.any_cons]
    rw [h x List.mem_cons_self, any_renVL f p q xs (fun y hy => h y (List.mem_cons_of_mem _ hy))]

theorem all_renVL (f : Nat → Nat) (p q : Val → Bool) : ∀ xs : List Val, (∀ x ∈ xs, q (renV f x) = p x) →
    (renVL f xs).all q = xs.all p
  | [], _ => by simp only [renVL, List.all_nil]
  | x :: xs, h => by
    simp only [renVL, List.all_cons]
    rw [h x List.mem_cons_self, all_renVL f p q xs (fun y hy => h y (List.mem_cons_of_mem _ hy))]

theorem flatMap_renVL {γ} (f : Nat → Nat) (p q : Val → List γ) : ∀ xs : List Val, (∀ x ∈ xs, q (renV f x) = p x) →
    (renVL f xs).flatMap q = xs.flatMap p
  | [], _ => by simp only [renVL, List.flatMap_nil]
  | x :: xs, h => by
    simp only [renVL, List.flatMap_cons]
    rw [h x List.mem_cons_self, flatMap_renVL f p q xs (fun y hy => h y (List.mem_cons_of_mem _ hy))]

/-- `widen` relates the two runs when the loop outcomes and the sub-expression evaluators do -/
theorem widen_rr {α β} {P : α → Prop} {g : α → β} {f : Nat → Nat} (t : ATag) {xs : List Val}
    (hxs : RnVL f xs = true) {ps : List ((Val → Res Val) × (Val → Res Val))}
    (hps : ∀ p ∈ ps, FnRel f p.1 p.2) (extra : List Cat) {r : Res α} {r' : Res β} (h : RR P g r r') :
    RR P g (widen t xs (ps.map Prod.fst) extra r) (widen t (renVL f xs) (ps.map Prod.snd) extra r') := by
  obtain ⟨e, inv⟩ := h
  subst e
  cases r with
  | ok a => exact ⟨rfl, inv⟩
  | panic w => exact RR.panic w
  | nondet => exact RR.nondet
  | unmodelled w => exact RR.unmodelled w
  | err cs =>
    have key : ∀ x ∈ xs, ∀ (qs : List ((Val → Res Val) × (Val → Res Val))), (∀ p ∈ qs, FnRel f p.1 p.2) →
        ((qs.map Prod.snd).any (fun k => unsettled (k (renV f x))) = (qs.map Prod.fst).any (fun k => unsettled (k x))) ∧
        ((qs.map Prod.snd).flatMap (fun k => catsOf (k (renV f x))) = (qs.map Prod.fst).flatMap (fun k => catsOf (k x))) := by
      intro x hx qs
      induction qs with
      | nil => intro _; exact ⟨rfl, rfl⟩
      | cons q qs ih =>
        intro hq
        have h1 := (hq q List.mem_cons_self x (rnVL_iff.mp hxs x hx)).eq
        obtain ⟨i1, i2⟩ := ih (fun p hp => hq p (List.mem_cons_of_mem _ hp))
        simp only [List.map_cons, List.any_cons, List.flatMap_cons]
        rw [h1, unsettled_mapO, catsOf_mapO, i1, i2]
        exact ⟨rfl, rfl⟩
    simp only [mapO_err, widen_err, enum2_ren]
    rw [any_renVL f _ _ xs (fun x hx => (key x hx ps hps).1), flatMap_renVL f _ _ xs (fun x hx => (key x hx ps hps).2)]
    split
    · split
      · exact RR.nondet
      · exact RR.err _
    · exact RR.err _

/-! ## which builtins the renaming commutes with -/

/-- the eager builtins that are NOT equivariant: `lower`/`upper` (case mapping is not monotone-invariant), `to_number`
    (reads digits), `to_string` (writes JSON punctuation and escapes), `type` (returns a fixed ASCII word), and the
    forms with a built-in, unrenamed character set: `trim(s)`, `trim_left(s)`, `trim_right(s)` (Unicode white space)
    and `pad_left(s, w)`, `pad_right(s, w)` (U+0020) -/
def fnOK : Fn → Bool
  | .lower | .upper | .toNumber | .toString | .type
  | .trimSpace | .trimSpaceLeft | .trimSpaceRight | .padSpaceLeft | .padSpaceRight => false
  | _ => true

/-- `trim(s, cut)`, `trim_left(s, cut)`, `trim_right(s, cut)` fall back to the white-space set when `cut` is empty:
    the cutset argument must be a non-empty string -/
def cutOK : Fn → List Val → Bool
  | .trim, [_, .str p] => !p.isEmpty
  | .trimLeft, [_, .str p] => !p.isEmpty
  | .trimRight, [_, .str p] => !p.isEmpty
  | .trim, _ => false
  | .trimLeft, _ => false
  | .trimRight, _ => false
  | _, _ => true

end Jmes.C11C
