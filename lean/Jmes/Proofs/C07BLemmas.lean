/-
  The abstract heap machine of C06 / C07 with threads that are *strategies* (deterministic programs) instead of fixed
  operation lists.  Core Lean only; the only import is the old machine `Jmes.Properties.C07` (for `Op`, `Heap`, `upd`,
  `Dom`, `step`, `Writes`, `Accesses`, `proj`), no Jmes model import.

  A program (`Prog V R`) is a function from the answers it has received so far (newest first; a read is answered with
  the content of the cell, a write / an allocation with `none`) to its next action: issue an operation, or return a
  result.  Nothing about the sequence of operations is fixed in advance: the next operation, the address it goes to
  and the value it stores may all depend on everything the program has read so far.

  `solo p h n`          the state (heap, log of operations with their answers) after `n` steps of `p` run alone from `h`
  `stepC`, `runC`       the concurrent machine: a schedule is a list of thread ids, `runC` executes it step by step
  `DisciplinedOn P h p` at every step of its SOLO run from `h`, `p` writes only cells it allocated itself, reads only
                        cells of `P` or cells it allocated itself, and allocates outside `P` and outside its own cells
  `Separate h p q`      the solo runs of `p` and `q` from `h` never allocate the same cell
  `Inv`, `Inv.next`     the simulation invariant relating the concurrent machine to all the solo runs at once
  `solo_congr`          sequential counterpart: a disciplined program behaves identically from every heap that agrees
                        with `h` on `P`
-/
import Jmes.Properties.C07

deriving instance DecidableEq for Jmes.C07.Op

namespace Jmes.C07B
open Jmes.C07 (Loc Heap Op upd Dom step Writes Accesses upd_other upd_same proj)

variable {V R : Type}

/-- the next action of a program: issue an operation, or finish with a result -/
inductive Act (V R : Type) where
  | op (o : Op V)
  | ret (r : R)
  deriving DecidableEq

/-- A program: next action as a function of the answers received so far (newest first). -/
abbrev Prog (V R : Type) := List (Option V) → Act V R

/-- one executed operation together with the answer the machine gave -/
structure Ev (V : Type) where
  op : Op V
  res : Option V

/-- the machine's answer to an operation executed on heap `g` -/
def answer (g : Heap V) : Op V → Option V
  | .read l => g l
  | .write _ _ => none
  | .alloc _ _ => none

/-- what the program has observed: the answers of its log -/
def obs (log : List (Ev V)) : List (Option V) := log.map Ev.res

/-- the operations of a log -/
def opsOf (log : List (Ev V)) : List (Op V) := log.map Ev.op

/-- the cells allocated in a log -/
def owned : List (Ev V) → List Loc
  | [] => []
  | ⟨.alloc l _, _⟩ :: es => l :: owned es
  | ⟨.read _, _⟩ :: es => owned es
  | ⟨.write _ _, _⟩ :: es => owned es

/-- state of one program: the heap it runs on and its log (newest first) -/
structure TS (V : Type) where
  heap : Heap V
  log : List (Ev V)

def soloStep (p : Prog V R) (s : TS V) : TS V :=
  match p (obs s.log) with
  | .ret _ => s
  | .op o => ⟨step s.heap o, ⟨o, answer s.heap o⟩ :: s.log⟩

/-- `n` steps of `p` run alone from `h` (a finished program stays where it is) -/
def solo (p : Prog V R) (h : Heap V) : Nat → TS V
  | 0 => ⟨h, []⟩
  | n + 1 => soloStep p (solo p h n)

/-- the result a program has returned, if it has finished -/
def resultOf (p : Prog V R) (log : List (Ev V)) : Option R :=
  match p (obs log) with
  | .ret r => some r
  | .op _ => none

/-! ## the concurrent machine -/

/-- configuration: the one shared heap, each thread's log, and the global trace (newest first) -/
structure Conf (V : Type) where
  heap : Heap V
  log : Nat → List (Ev V)
  trace : List (Nat × Op V)

def init (h : Heap V) : Conf V := ⟨h, fun _ => [], []⟩

/-- thread `i` takes one step on the shared heap -/
def stepC (progs : Nat → Prog V R) (i : Nat) (c : Conf V) : Conf V :=
  match progs i (obs (c.log i)) with
  | .ret _ => c
  | .op o => ⟨step c.heap o, fun j => if j = i then ⟨o, answer c.heap o⟩ :: c.log i else c.log j, (i, o) :: c.trace⟩

/-- execute a schedule (a list of thread ids: who moves next) -/
def runC (progs : Nat → Prog V R) : Conf V → List Nat → Conf V
  | c, [] => c
  | c, i :: s => runC progs (stepC progs i c) s

theorem runC_append (progs : Nat → Prog V R) : ∀ (s t : List Nat) (c : Conf V),
    runC progs c (s ++ t) = runC progs (runC progs c s) t
  | [], _, _ => rfl
  | i :: s, t, c => by simp only [List.cons_append, runC]; exact runC_append progs s t _

/-! ## the discipline -/

/-- what a thread that owns `own` may do when the shared read-only cells are `P` -/
def Allowed (P : Loc → Prop) (own : List Loc) : Op V → Prop
  | .read l => P l ∨ l ∈ own
  | .write l _ => l ∈ own
  | .alloc l _ => ¬ P l ∧ l ∉ own

/-- `p`, run ALONE from `h`, is disciplined at every step (a property of the solo run only) -/
def DisciplinedOn (P : Loc → Prop) (h : Heap V) (p : Prog V R) : Prop :=
  ∀ n o, p (obs (solo p h n).log) = .op o → Allowed P (owned (solo p h n).log) o

/-- the shared read-only domain is everything that exists in `h` -/
abbrev Disciplined (h : Heap V) (p : Prog V R) : Prop := DisciplinedOn (Dom h) h p

/-- the solo runs of `p` and `q` never allocate the same cell -/
def Separate (h : Heap V) (p q : Prog V R) : Prop :=
  ∀ n m l, l ∈ owned (solo p h n).log → l ∉ owned (solo q h m).log

/-- thread-distinct allocation, as a property of the solo runs -/
def AllocDisjoint (h : Heap V) (progs : Nat → Prog V R) : Prop :=
  ∀ i j, i ≠ j → Separate h (progs i) (progs j)

/-! ## one step -/

theorem step_of_writes {o : Op V} {l : Loc} (g g' : Heap V) (hw : Writes o l) : step g o l = step g' o l := by
  cases o with
  | read _ => cases hw
  | write l' v => cases hw; simp [step]
  | alloc l' v => cases hw; simp [step]

theorem step_of_not_writes {o : Op V} {l : Loc} (g : Heap V) (hw : ¬ Writes o l) : step g o l = g l := by
  cases o with
  | read _ => rfl
  | write l' v => exact upd_other g v (fun e => hw e)
  | alloc l' v => exact upd_other g v (fun e => hw e)

theorem step_congr {o : Op V} {l : Loc} {g g' : Heap V} (h : g l = g' l) : step g o l = step g' o l := by
  by_cases hw : Writes o l
  · exact step_of_writes g g' hw
  · rw [step_of_not_writes g hw, step_of_not_writes g' hw, h]

theorem step_dom {o : Op V} {l : Loc} {g : Heap V} (h : g l ≠ none) : step g o l ≠ none := by
  cases o with
  | read _ => exact h
  | write l' v =>
    by_cases e : l = l'
    · subst e; simp [step]
    · simp only [step, upd_other g v e]; exact h
  | alloc l' v =>
    by_cases e : l = l'
    · subst e; simp [step]
    · simp only [step, upd_other g v e]; exact h

theorem step_writes_dom {o : Op V} {l : Loc} (g : Heap V) (hw : Writes o l) : step g o l ≠ none := by
  cases o with
  | read _ => cases hw
  | write l' v => cases hw; simp [step]
  | alloc l' v => cases hw; simp [step]

theorem owned_mono {l : Loc} (e : Ev V) {log : List (Ev V)} (h : l ∈ owned log) : l ∈ owned (e :: log) := by
  obtain ⟨o, r⟩ := e
  cases o with
  | read _ => exact h
  | write _ _ => exact h
  | alloc l' v => exact List.mem_cons_of_mem _ h

theorem owned_cons_cases {l : Loc} {o : Op V} {r : Option V} {log : List (Ev V)}
    (h : l ∈ owned (⟨o, r⟩ :: log)) : Writes o l ∨ l ∈ owned log := by
  cases o with
  | read _ => exact Or.inr h
  | write _ _ => exact Or.inr h
  | alloc l' v =>
    rcases List.mem_cons.mp h with e | h'
    · exact Or.inl e
    · exact Or.inr h'

/-- an allowed store lands in a cell the thread owns afterwards -/
theorem stores_owned {P : Loc → Prop} {o : Op V} {r : Option V} {log : List (Ev V)} {l : Loc}
    (ha : Allowed P (owned log) o) (hw : Writes o l) : l ∈ owned (⟨o, r⟩ :: log) := by
  cases o with
  | read _ => cases hw
  | write l' v => cases hw; exact ha
  | alloc l' v => cases hw; exact List.mem_cons_self

/-- an allowed operation touches only `P` and cells the thread owns afterwards -/
theorem accesses_owned {P : Loc → Prop} {o : Op V} {r : Option V} {log : List (Ev V)} {l : Loc}
    (ha : Allowed P (owned log) o) (hacc : Accesses o l) : P l ∨ l ∈ owned (⟨o, r⟩ :: log) := by
  cases o with
  | read l' =>
    cases hacc
    rcases ha with h1 | h1
    · exact Or.inl h1
    · exact Or.inr h1
  | write l' v => cases hacc; exact Or.inr ha
  | alloc l' v => cases hacc; exact Or.inr List.mem_cons_self

/-- an allowed store never lands in `P` -/
theorem stores_notP {P : Loc → Prop} {o : Op V} {own : List Loc} {l : Loc}
    (ha : Allowed P own o) (hown : ∀ l ∈ own, ¬ P l) (hw : Writes o l) : ¬ P l := by
  cases o with
  | read _ => cases hw
  | write l' v => cases hw; exact hown _ ha
  | alloc l' v => cases hw; exact ha.1

/-! ## solo runs -/

section solo
variable {P : Loc → Prop} {h : Heap V} {p : Prog V R}

theorem solo_succ_ret {n : Nat} {r : R} (hp : p (obs (solo p h n).log) = .ret r) : solo p h (n + 1) = solo p h n := by
  simp only [solo, soloStep, hp]

theorem solo_succ_op {n : Nat} {o : Op V} (hp : p (obs (solo p h n).log) = .op o) :
    solo p h (n + 1) = ⟨step (solo p h n).heap o, ⟨o, answer (solo p h n).heap o⟩ :: (solo p h n).log⟩ := by
  simp only [solo, soloStep, hp]

/-- once a program has returned, further steps change nothing -/
theorem solo_stable {n : Nat} {r : R} (hp : p (obs (solo p h n).log) = .ret r) : ∀ m, solo p h (n + m) = solo p h n
  | 0 => rfl
  | m + 1 => by
    have ih := solo_stable hp m
    show soloStep p (solo p h (n + m)) = _
    rw [ih]; simp only [soloStep, hp]

theorem solo_owned_mono {n : Nat} {l : Loc} (hl : l ∈ owned (solo p h n).log) : ∀ m, l ∈ owned (solo p h (n + m)).log
  | 0 => hl
  | m + 1 => by
    have ih := solo_owned_mono hl m
    cases hp : p (obs (solo p h (n + m)).log) with
    | ret r => rw [show n + (m + 1) = (n + m) + 1 from rfl, solo_succ_ret hp]; exact ih
    | op o => rw [show n + (m + 1) = (n + m) + 1 from rfl, solo_succ_op hp]; exact owned_mono _ ih

/-- a disciplined program never allocates inside `P` -/
theorem solo_owned_notP (hd : DisciplinedOn P h p) : ∀ n l, l ∈ owned (solo p h n).log → ¬ P l
  | 0, _, hl => by cases hl
  | n + 1, l, hl => by
    cases hp : p (obs (solo p h n).log) with
    | ret r => rw [solo_succ_ret hp] at hl; exact solo_owned_notP hd n l hl
    | op o =>
      rw [solo_succ_op hp] at hl
      rcases owned_cons_cases hl with hw | h'
      · exact stores_notP (hd n o hp) (solo_owned_notP hd n) hw
      · exact solo_owned_notP hd n l h'

/-- a disciplined program changes only cells it allocated -/
theorem solo_untouched (hd : DisciplinedOn P h p) : ∀ n l, l ∉ owned (solo p h n).log → (solo p h n).heap l = h l
  | 0, _, _ => rfl
  | n + 1, l, hl => by
    cases hp : p (obs (solo p h n).log) with
    | ret r => rw [solo_succ_ret hp] at hl ⊢; exact solo_untouched hd n l hl
    | op o =>
      rw [solo_succ_op hp] at hl ⊢
      have hw : ¬ Writes o l := fun hw => hl (stores_owned (hd n o hp) hw)
      show step _ o l = _
      rw [step_of_not_writes _ hw]
      exact solo_untouched hd n l (fun h' => hl (owned_mono _ h'))

/-- … in particular it leaves `P` alone -/
theorem solo_frame (hd : DisciplinedOn P h p) (n : Nat) (l : Loc) (hl : P l) : (solo p h n).heap l = h l :=
  solo_untouched hd n l (fun h' => solo_owned_notP hd n l h' hl)

/-- the cells a program allocated exist -/
theorem solo_own_dom : ∀ n l, l ∈ owned (solo p h n).log → (solo p h n).heap l ≠ none
  | 0, _, hl => by cases hl
  | n + 1, l, hl => by
    cases hp : p (obs (solo p h n).log) with
    | ret r => rw [solo_succ_ret hp] at hl ⊢; exact solo_own_dom n l hl
    | op o =>
      rw [solo_succ_op hp] at hl ⊢
      rcases owned_cons_cases hl with hw | h'
      · exact step_writes_dom _ hw
      · exact step_dom (solo_own_dom n l h')

/-- footprint of the whole solo log: stores go to own cells, every access goes to `P` or own cells -/
theorem solo_footprint (hd : DisciplinedOn P h p) : ∀ n, ∀ o ∈ opsOf (solo p h n).log, ∀ l,
    (Writes o l → l ∈ owned (solo p h n).log) ∧ (Accesses o l → P l ∨ l ∈ owned (solo p h n).log)
  | 0, _, ho, _ => by cases ho
  | n + 1, o, ho, l => by
    cases hp : p (obs (solo p h n).log) with
    | ret r => rw [solo_succ_ret hp] at ho ⊢; exact solo_footprint hd n o ho l
    | op o' =>
      rw [solo_succ_op hp] at ho ⊢
      simp only [opsOf, List.map_cons, List.mem_cons] at ho
      rcases ho with e | ho
      · subst e
        exact ⟨fun hw => stores_owned (hd n o hp) hw, fun ha => accesses_owned (hd n o hp) ha⟩
      · have ih := solo_footprint hd n o ho l
        refine ⟨fun hw => owned_mono _ (ih.1 hw), fun ha => ?_⟩
        rcases ih.2 ha with h1 | h1
        · exact Or.inl h1
        · exact Or.inr (owned_mono _ h1)

/-- **Sequential simulation.**  A program that is disciplined when run alone from `h` does exactly the same thing from
    every heap `g` that agrees with `h` on `P`: same log (same operations, same answers), same content of its own
    cells, and everything it did not allocate is left as it was in `g`. -/
theorem solo_congr {g : Heap V} (hd : DisciplinedOn P h p) (hag : ∀ l, P l → g l = h l) : ∀ n,
    (solo p g n).log = (solo p h n).log ∧
    (∀ l, l ∈ owned (solo p h n).log → (solo p g n).heap l = (solo p h n).heap l) ∧
    (∀ l, l ∉ owned (solo p h n).log → (solo p g n).heap l = g l)
  | 0 => ⟨rfl, fun _ hl => (by cases hl), fun _ _ => rfl⟩
  | n + 1 => by
    obtain ⟨ih1, ih2, ih3⟩ := solo_congr hd hag n
    cases hp : p (obs (solo p h n).log) with
    | ret r =>
      have hp' : p (obs (solo p g n).log) = .ret r := by rw [ih1]; exact hp
      rw [solo_succ_ret hp, solo_succ_ret hp']; exact ⟨ih1, ih2, ih3⟩
    | op o =>
      have hp' : p (obs (solo p g n).log) = .op o := by rw [ih1]; exact hp
      have ha := hd n o hp
      rw [solo_succ_op hp, solo_succ_op hp']
      have hans : answer (solo p g n).heap o = answer (solo p h n).heap o := by
        cases o with
        | read l =>
          simp only [answer]
          rcases ha with h1 | h1
          · rw [ih3 l (fun h' => solo_owned_notP hd n l h' h1), hag l h1, solo_frame hd n l h1]
          · exact ih2 l h1
        | write _ _ => rfl
        | alloc _ _ => rfl
      refine ⟨by simp only [hans, ih1], ?_, ?_⟩
      · intro l hl
        show step _ o l = step _ o l
        rcases owned_cons_cases hl with hw | h'
        · exact step_of_writes _ _ hw
        · exact step_congr (ih2 l h')
      · intro l hl
        have hw : ¬ Writes o l := fun hw => hl (stores_owned ha hw)
        show step _ o l = _
        rw [step_of_not_writes _ hw]
        exact ih3 l (fun h' => hl (owned_mono _ h'))

end solo

/-! ## the concurrent invariant -/

def bump (k : Nat → Nat) (i : Nat) : Nat → Nat := fun j => if j = i then k j + 1 else k j

/-- The concurrent configuration `c` corresponds to the solo runs: thread `i` has made `k i` steps. -/
structure Inv (h : Heap V) (progs : Nat → Prog V R) (k : Nat → Nat) (c : Conf V) : Prop where
  /-- every thread has exactly the log of its solo run -/
  log_eq : ∀ i, c.log i = (solo (progs i) h (k i)).log
  /-- the shared cells are as in `h` -/
  shared : ∀ l, Dom h l → c.heap l = h l
  /-- every thread's own cells hold what they hold in its solo run -/
  own_eq : ∀ i l, l ∈ owned (c.log i) → c.heap l = (solo (progs i) h (k i)).heap l
  /-- the global trace restricted to a thread is that thread's log -/
  trace_eq : ∀ i, proj i c.trace = opsOf (c.log i)
  /-- nothing exists but the shared cells and the threads' own cells -/
  dom_sub : ∀ l, c.heap l ≠ none → Dom h l ∨ ∃ i, l ∈ owned (c.log i)

theorem Inv.start (h : Heap V) (progs : Nat → Prog V R) : Inv h progs (fun _ => 0) (init h) :=
  ⟨fun _ => rfl, fun _ _ => rfl, fun _ _ hl => (by cases hl), fun _ => rfl, fun _ hl => Or.inl hl⟩

theorem stepC_ret {progs : Nat → Prog V R} {i : Nat} {c : Conf V} {r : R}
    (hp : progs i (obs (c.log i)) = .ret r) : stepC progs i c = c := by
  simp only [stepC, hp]

theorem stepC_op {progs : Nat → Prog V R} {i : Nat} {c : Conf V} {o : Op V}
    (hp : progs i (obs (c.log i)) = .op o) : stepC progs i c =
      ⟨step c.heap o, fun j => if j = i then ⟨o, answer c.heap o⟩ :: c.log i else c.log j, (i, o) :: c.trace⟩ := by
  simp only [stepC, hp]

/-- one step of thread `i` preserves the invariant, provided what it stores to is not a cell another thread owns -/
theorem Inv.next_of {h : Heap V} {progs : Nat → Prog V R} (hd : ∀ i, Disciplined h (progs i))
    {k : Nat → Nat} {c : Conf V} (inv : Inv h progs k c) (i : Nat)
    (hsep : ∀ o, progs i (obs (c.log i)) = .op o → ∀ j, j ≠ i → ∀ l, Writes o l → l ∉ owned (c.log j)) :
    Inv h progs (bump k i) (stepC progs i c) := by
  have hlog := inv.log_eq i
  cases hp : progs i (obs (c.log i)) with
  | ret r =>
    have hp' : progs i (obs (solo (progs i) h (k i)).log) = .ret r := by rw [← hlog]; exact hp
    have hk : ∀ j, solo (progs j) h (bump k i j) = solo (progs j) h (k j) := by
      intro j
      by_cases e : j = i
      · subst e; simp only [bump, if_true]; exact solo_succ_ret hp'
      · simp only [bump, if_neg e]
    rw [stepC_ret hp]
    exact ⟨fun j => by rw [hk j]; exact inv.log_eq j, inv.shared, fun j l hl => by rw [hk j]; exact inv.own_eq j l hl,
      inv.trace_eq, inv.dom_sub⟩
  | op o =>
    have hp' : progs i (obs (solo (progs i) h (k i)).log) = .op o := by rw [← hlog]; exact hp
    have ha : Allowed (Dom h) (owned (solo (progs i) h (k i)).log) o := hd i _ o hp'
    have hki : solo (progs i) h (bump k i i) =
        ⟨step (solo (progs i) h (k i)).heap o, ⟨o, answer (solo (progs i) h (k i)).heap o⟩ :: (solo (progs i) h (k i)).log⟩ := by
      simp only [bump, if_true]; exact solo_succ_op hp'
    have hkj : ∀ j, j ≠ i → solo (progs j) h (bump k i j) = solo (progs j) h (k j) := by
      intro j e; simp only [bump, if_neg e]
    -- the answer is the one of the solo run
    have hans : answer c.heap o = answer (solo (progs i) h (k i)).heap o := by
      cases o with
      | read l =>
        simp only [answer]
        rcases ha with h1 | h1
        · rw [inv.shared l h1, solo_frame (hd i) _ l h1]
        · exact inv.own_eq i l (by rw [hlog]; exact h1)
      | write _ _ => rfl
      | alloc _ _ => rfl
    -- a store of thread `i` lands in a cell thread `i` owns in its solo run one step later
    have hstore : ∀ l, Writes o l → l ∈ owned (solo (progs i) h (k i + 1)).log := by
      intro l hw; rw [solo_succ_op hp']; exact stores_owned ha hw
    rw [stepC_op hp]
    refine ⟨?_, ?_, ?_, ?_, ?_⟩
    · intro j
      by_cases e : j = i
      · subst e; simp only [if_true, hki, hans, hlog]
      · simp only [if_neg e, hkj j e]; exact inv.log_eq j
    · intro l hl
      show step c.heap o l = h l
      rw [step_of_not_writes _ (fun hw => solo_owned_notP (hd i) _ l (hstore l hw) hl)]
      exact inv.shared l hl
    · intro j l hl
      by_cases e : j = i
      · subst e
        simp only [if_true] at hl
        rw [hki]
        show step c.heap o l = step _ o l
        rcases owned_cons_cases hl with hw | h'
        · exact step_of_writes _ _ hw
        · exact step_congr (inv.own_eq j l h')
      · simp only [if_neg e] at hl
        rw [hkj j e]
        show step c.heap o l = _
        rw [step_of_not_writes _ (fun hw => hsep o hp j e l hw hl)]
        exact inv.own_eq j l hl
    · intro j
      by_cases e : j = i
      · subst e; simp only [proj, if_true, opsOf, List.map_cons]
        have := inv.trace_eq j; simp only [opsOf] at this; rw [this]
      · simp only [proj, if_neg (Ne.symm e), if_neg e]; exact inv.trace_eq j
    · intro l hl
      by_cases hw : Writes o l
      · refine Or.inr ⟨i, ?_⟩
        simp only [if_true]
        exact stores_owned (r := answer c.heap o) (by rw [hlog]; exact ha) hw
      · have hl' : c.heap l ≠ none := by
          have : step c.heap o l = c.heap l := step_of_not_writes _ hw
          rw [← this]; exact hl
        rcases inv.dom_sub l hl' with h1 | ⟨j, hj⟩
        · exact Or.inl h1
        · refine Or.inr ⟨j, ?_⟩
          by_cases e : j = i
          · subst e; simp only [if_true]; exact owned_mono _ hj
          · simp only [if_neg e]; exact hj

/-- one step of any thread preserves the invariant (thread-distinct allocation) -/
theorem Inv.next {h : Heap V} {progs : Nat → Prog V R} (hd : ∀ i, Disciplined h (progs i))
    (hdisj : AllocDisjoint h progs) {k : Nat → Nat} {c : Conf V} (inv : Inv h progs k c) (i : Nat) :
    Inv h progs (bump k i) (stepC progs i c) := by
  apply inv.next_of hd i
  intro o hp j e l hw hl
  have hp' : progs i (obs (solo (progs i) h (k i)).log) = .op o := by rw [← inv.log_eq i]; exact hp
  have hstore : l ∈ owned (solo (progs i) h (k i + 1)).log := by
    rw [solo_succ_op hp']; exact stores_owned (hd i _ o hp') hw
  exact hdisj i j (Ne.symm e) _ (k j) l hstore (by rw [← inv.log_eq j]; exact hl)

/-- the invariant holds along every schedule; thread `i` has made `count i` steps -/
theorem Inv.sched {h : Heap V} {progs : Nat → Prog V R} (hd : ∀ i, Disciplined h (progs i))
    (hdisj : AllocDisjoint h progs) : ∀ (s : List Nat) {k : Nat → Nat} {c : Conf V}, Inv h progs k c →
    Inv h progs (fun i => k i + s.count i) (runC progs c s)
  | [], k, c, inv => by
    have hk : (fun i => k i + ([] : List Nat).count i) = k := by funext i; simp
    rw [hk]; exact inv
  | j :: s, k, c, inv => by
    have := Inv.sched hd hdisj s (inv.next hd hdisj j)
    have hk : (fun i => bump k j i + s.count i) = (fun i => k i + (j :: s).count i) := by
      funext i
      by_cases e : i = j
      · subst e; simp [bump]; omega
      · have : (j == i) = false := by simp [Ne.symm e]
        simp [bump, e, List.count_cons, this]
    rw [hk] at this
    exact this

theorem inv_of_sched {h : Heap V} {progs : Nat → Prog V R} (hd : ∀ i, Disciplined h (progs i))
    (hdisj : AllocDisjoint h progs) (s : List Nat) :
    Inv h progs (fun i => s.count i) (runC progs (init h) s) := by
  have := Inv.sched hd hdisj s (Inv.start h progs)
  simpa using this

/-! ## the allocator's contract instead of thread-distinct allocation -/

/-- the threads' current allocations are pairwise disjoint -/
def OwnDisjoint (c : Conf V) : Prop := ∀ i j, i ≠ j → ∀ l, l ∈ owned (c.log i) → l ∉ owned (c.log j)

/-- along the schedule, every allocation takes a cell that is free at that moment (what an allocator guarantees) -/
def FreshAllocs (progs : Nat → Prog V R) : Conf V → List Nat → Prop
  | _, [] => True
  | c, i :: s => (∀ l v, progs i (obs (c.log i)) = .op (.alloc l v) → c.heap l = none) ∧
      FreshAllocs progs (stepC progs i c) s

/-- one step, when the allocation (if it is one) is fresh -/
theorem Inv.next_fresh {h : Heap V} {progs : Nat → Prog V R} (hd : ∀ i, Disciplined h (progs i))
    {k : Nat → Nat} {c : Conf V} (inv : Inv h progs k c) (hdis : OwnDisjoint c) (i : Nat)
    (hfr : ∀ l v, progs i (obs (c.log i)) = .op (.alloc l v) → c.heap l = none) :
    Inv h progs (bump k i) (stepC progs i c) ∧ OwnDisjoint (stepC progs i c) := by
  have hsep : ∀ o, progs i (obs (c.log i)) = .op o → ∀ j, j ≠ i → ∀ l, Writes o l → l ∉ owned (c.log j) := by
    intro o hp j e l hw hl
    have hp' : progs i (obs (solo (progs i) h (k i)).log) = .op o := by rw [← inv.log_eq i]; exact hp
    have ha := hd i _ o hp'
    cases o with
    | read _ => cases hw
    | write l' v =>
      cases hw
      exact hdis i j (Ne.symm e) l (by rw [inv.log_eq i]; exact ha) hl
    | alloc l' v =>
      cases hw
      have h1 := hfr l v hp
      have h2 := inv.own_eq j l hl
      rw [h1] at h2
      exact solo_own_dom _ l (by rw [← inv.log_eq j]; exact hl) h2.symm
  refine ⟨inv.next_of hd i hsep, ?_⟩
  cases hp : progs i (obs (c.log i)) with
  | ret r => rw [stepC_ret hp]; exact hdis
  | op o =>
    rw [stepC_op hp]
    intro a b hab l hla hlb
    simp only at hla hlb
    by_cases ea : a = i
    · have eb : b ≠ i := fun eb => hab (ea.trans eb.symm)
      rw [if_pos ea] at hla; rw [if_neg eb] at hlb
      rcases owned_cons_cases hla with hw | h'
      · exact hsep o hp b eb l hw hlb
      · exact hdis i b (Ne.symm eb) l h' hlb
    · rw [if_neg ea] at hla
      by_cases eb : b = i
      · rw [if_pos eb] at hlb
        rcases owned_cons_cases hlb with hw | h'
        · exact hsep o hp a ea l hw hla
        · exact hdis a i ea l hla h'
      · rw [if_neg eb] at hlb; exact hdis a b hab l hla hlb

theorem Inv.sched_fresh {h : Heap V} {progs : Nat → Prog V R} (hd : ∀ i, Disciplined h (progs i)) :
    ∀ (s : List Nat) {k : Nat → Nat} {c : Conf V}, Inv h progs k c → OwnDisjoint c → FreshAllocs progs c s →
    Inv h progs (fun i => k i + s.count i) (runC progs c s) ∧ OwnDisjoint (runC progs c s)
  | [], k, c, inv, hdis, _ => by
    have hk : (fun i => k i + ([] : List Nat).count i) = k := by funext i; simp
    rw [hk]; exact ⟨inv, hdis⟩
  | j :: s, k, c, inv, hdis, hfr => by
    obtain ⟨inv', hdis'⟩ := inv.next_fresh hd hdis j hfr.1
    have := Inv.sched_fresh hd s inv' hdis' hfr.2
    have hk : (fun i => bump k j i + s.count i) = (fun i => k i + (j :: s).count i) := by
      funext i
      by_cases e : i = j
      · subst e; simp [bump]; omega
      · have : (j == i) = false := by simp [Ne.symm e]
        simp [bump, e, List.count_cons, this]
    rw [hk] at this
    exact this

theorem inv_of_fresh {h : Heap V} {progs : Nat → Prog V R} (hd : ∀ i, Disciplined h (progs i))
    (s : List Nat) (hfr : FreshAllocs progs (init h) s) :
    Inv h progs (fun i => s.count i) (runC progs (init h) s) ∧ OwnDisjoint (runC progs (init h) s) := by
  have := Inv.sched_fresh hd s (Inv.start h progs) (fun _ _ _ _ hl => by cases hl) hfr
  simpa using this

/-! ## checking the hypotheses of concrete programs by computation -/

def Act.isRet : Act V R → Bool
  | .ret _ => true
  | .op _ => false

def allowedB (sh : Loc → Bool) (own : List Loc) : Op V → Bool
  | .read l => sh l || own.contains l
  | .write l _ => own.contains l
  | .alloc l _ => !sh l && !own.contains l

/-- `p` has finished after `N` solo steps and each of these steps was allowed -/
def checkDisc (sh : Loc → Bool) (p : Prog V R) (h : Heap V) (N : Nat) : Bool :=
  (p (obs (solo p h N).log)).isRet &&
  (List.range N).all (fun n => match p (obs (solo p h n).log) with
    | .ret _ => true
    | .op o => allowedB sh (owned (solo p h n).log) o)

theorem allowedB_sound {P : Loc → Prop} {sh : Loc → Bool} (hsh : ∀ l, sh l = true ↔ P l) {own : List Loc} {o : Op V}
    (hb : allowedB sh own o = true) : Allowed P own o := by
  cases o with
  | read l =>
    simp only [allowedB, Bool.or_eq_true, List.contains_iff_mem] at hb
    rcases hb with h1 | h1
    · exact Or.inl ((hsh l).mp h1)
    · exact Or.inr h1
  | write l v =>
    simp only [allowedB, List.contains_iff_mem] at hb
    exact hb
  | alloc l v =>
    simp only [allowedB, Bool.and_eq_true, Bool.not_eq_true'] at hb
    refine ⟨fun hp => ?_, ?_⟩
    · have := (hsh l).mpr hp; rw [hb.1] at this; cases this
    · intro hm
      have : own.contains l = true := by simpa using hm
      rw [hb.2] at this; cases this

theorem finished_of_isRet {p : Prog V R} {h : Heap V} {N : Nat} (hr : (p (obs (solo p h N).log)).isRet = true) :
    ∃ r, p (obs (solo p h N).log) = .ret r := by
  cases hp : p (obs (solo p h N).log) with
  | ret r => exact ⟨r, rfl⟩
  | op o => rw [hp] at hr; cases hr

theorem checkDisc_sound {P : Loc → Prop} {sh : Loc → Bool} (hsh : ∀ l, sh l = true ↔ P l) {p : Prog V R} {h : Heap V}
    {N : Nat} (hc : checkDisc sh p h N = true) : DisciplinedOn P h p := by
  simp only [checkDisc, Bool.and_eq_true, List.all_eq_true, List.mem_range] at hc
  obtain ⟨r, hr⟩ := finished_of_isRet hc.1
  intro n o hp
  by_cases hn : n < N
  · have := hc.2 n hn
    rw [hp] at this
    exact allowedB_sound hsh this
  · have : solo p h n = solo p h N := by
      have := solo_stable hr (n - N)
      rwa [show N + (n - N) = n by omega] at this
    rw [this, hr] at hp; cases hp

/-- `checkDisc` with the shared domain `Dom h` -/
theorem disciplined_of_check {p : Prog V R} {h : Heap V} (N : Nat)
    (hc : checkDisc (fun l => (h l).isSome) p h N = true) : Disciplined h p :=
  checkDisc_sound (P := Dom h) (fun l => by simp [Dom, Option.isSome_iff_ne_none]) hc

/-- everything a finished program ever allocates is in its final log -/
theorem owned_sub_final {p : Prog V R} {h : Heap V} {N : Nat} {r : R} (hr : p (obs (solo p h N).log) = .ret r)
    (n : Nat) (l : Loc) (hl : l ∈ owned (solo p h n).log) : l ∈ owned (solo p h N).log := by
  by_cases hn : n ≤ N
  · have := solo_owned_mono hl (N - n)
    rwa [show n + (N - n) = N by omega] at this
  · have := solo_stable hr (n - N)
    rw [show N + (n - N) = n by omega] at this
    rwa [this] at hl

/-- two finished programs whose final allocation lists are disjoint are separate -/
theorem separate_of_final {p q : Prog V R} {h : Heap V} (N M : Nat)
    (hp : (p (obs (solo p h N).log)).isRet = true) (hq : (q (obs (solo q h M).log)).isRet = true)
    (hdis : ∀ l ∈ owned (solo p h N).log, l ∉ owned (solo q h M).log) : Separate h p q := by
  obtain ⟨r, hr⟩ := finished_of_isRet hp
  obtain ⟨r', hr'⟩ := finished_of_isRet hq
  intro n m l hl hl'
  exact hdis l (owned_sub_final hr n l hl) (owned_sub_final hr' m l hl')

/-! ## families of threads given by a finite list -/

/-- the program that returns at once -/
def idleProg (r : R) : Prog V R := fun _ => .ret r

theorem solo_idle (r : R) (h : Heap V) (n : Nat) : solo (idleProg (V := V) r) h n = ⟨h, []⟩ := by
  have := solo_stable (p := idleProg (V := V) r) (h := h) (n := 0) (r := r) rfl n
  rwa [Nat.zero_add] at this

theorem idle_disciplined (P : Loc → Prop) (h : Heap V) (r : R) : DisciplinedOn P h (idleProg r) := by
  intro n o hp; cases hp

theorem Separate.symm {h : Heap V} {p q : Prog V R} (hs : Separate h p q) : Separate h q p :=
  fun n m l hl hl' => hs m n l hl' hl

theorem idle_separate (h : Heap V) (r : R) (q : Prog V R) : Separate h (idleProg r) q := by
  intro n m l hl
  rw [solo_idle] at hl; cases hl

/-- thread `i` runs the `i`-th program of the list; all other threads are idle -/
def ofList (ps : List (Prog V R)) (r : R) : Nat → Prog V R := fun i => (ps[i]?).getD (idleProg r)

theorem ofList_lt {ps : List (Prog V R)} {r : R} {i : Nat} (hi : i < ps.length) : ofList ps r i = ps[i] := by
  simp [ofList, List.getElem?_eq_getElem hi]

theorem ofList_ge {ps : List (Prog V R)} {r : R} {i : Nat} (hi : ¬ i < ps.length) : ofList ps r i = idleProg r := by
  simp [ofList, List.getElem?_eq_none (Nat.le_of_not_lt hi)]

theorem ofList_disciplined {h : Heap V} {ps : List (Prog V R)} (r : R) (hps : ∀ p ∈ ps, Disciplined h p) :
    ∀ i, Disciplined h (ofList ps r i) := by
  intro i
  by_cases hi : i < ps.length
  · rw [ofList_lt hi]; exact hps _ (List.getElem_mem hi)
  · rw [ofList_ge hi]; exact idle_disciplined _ h r

theorem ofList_separate {h : Heap V} {ps : List (Prog V R)} (r : R) (hps : ps.Pairwise (Separate h)) :
    AllocDisjoint h (ofList ps r) := by
  intro i j hne
  by_cases hi : i < ps.length
  · by_cases hj : j < ps.length
    · rw [ofList_lt hi, ofList_lt hj]
      rw [List.pairwise_iff_getElem] at hps
      rcases Nat.lt_or_gt_of_ne hne with hlt | hlt
      · exact hps i j hi hj hlt
      · exact (hps j i hj hi hlt).symm
    · rw [ofList_ge hj]; exact (idle_separate h r _).symm
  · rw [ofList_ge hi]; exact idle_separate h r _

end Jmes.C07B
