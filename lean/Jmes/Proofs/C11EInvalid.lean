/-
  C11E (helper, reviewer item 3) — strings that are NOT valid UTF-8, at TEXT level.

  Every earlier C11 statement is about `encodeAll cs` with `Scalars cs`, i.e. about valid UTF-8.  Here the document
  string is an arbitrary byte list `s : Bytes` (no `validUTF8` hypothesis).  Go's `utf8.DecodeRuneInString` turns each
  byte that does not start a well-formed sequence into ONE U+FFFD of size 1; `steps s` is the list of these decoding
  steps (code point, the bytes it consumed).  Positions, lengths and widths count STEPS.
-/
import Jmes.Properties.C11C
import Jmes.Properties.C09
import Jmes.Proofs.C03DString
namespace Jmes.C11E.Inv
open Jmes Jmes.Utf8
set_option linter.unusedSimpArgs false

/-! ## 0. decoding steps of an arbitrary byte string -/

/-- the decoding steps of `s` (fuel = length): the code point of each `utf8.DecodeRuneInString` step, paired with the
    bytes that step consumed -/
def stepsAux : Nat → Bytes → List (Nat × Bytes)
  | 0, _ => []
  | _, [] => []
  | fuel + 1, s => ((decodeRune s).1, s.take (decodeRune s).2) :: stepsAux fuel (s.drop (decodeRune s).2)

/-- the decoding steps of `s` -/
def steps (s : Bytes) : List (Nat × Bytes) := stepsAux s.length s

/-- "a", an invalid byte FF, "é", a truncated "é" (C3 alone): 5 bytes, 4 positions -/
def bad : Bytes := [0x61, 0xFF, 0xC3, 0xA9, 0xC3]

example : steps bad = [(0x61, [0x61]), (0xFFFD, [0xFF]), (0xE9, [0xC3, 0xA9]), (0xFFFD, [0xC3])] := by decide

theorem stepsAux_nil (fuel : Nat) : stepsAux fuel [] = [] := by cases fuel <;> rfl

theorem stepsAux_succ (fuel : Nat) (s : Bytes) (h : s ≠ []) :
    stepsAux (fuel + 1) s = ((decodeRune s).1, s.take (decodeRune s).2) :: stepsAux fuel (s.drop (decodeRune s).2) := by
  cases s with
  | nil => exact absurd rfl h
  | cons b bs => rfl

theorem stepsAux_fst : ∀ (fuel : Nat) (s : Bytes), (stepsAux fuel s).map Prod.fst = decodeAllAux fuel s := by
  intro fuel
  induction fuel with
  | zero => intro s; rfl
  | succ f ih =>
    intro s
    by_cases hne : s = []
    · subst hne; rfl
    · rw [stepsAux_succ _ _ hne, decodeAllAux_succ _ _ hne, List.map_cons, ih]

theorem stepsAux_snd : ∀ (fuel : Nat) (s : Bytes), (stepsAux fuel s).map Prod.snd = runePiecesAux fuel s := by
  intro fuel
  induction fuel with
  | zero => intro s; rfl
  | succ f ih =>
    intro s
    by_cases hne : s = []
    · subst hne; rfl
    · rw [stepsAux_succ _ _ hne, runePiecesAux_succ _ _ hne, List.map_cons, ih]

/-- **the code points of `s` are the first components of its decoding steps** -/
theorem steps_fst (s : Bytes) : (steps s).map Prod.fst = decodeAll s := stepsAux_fst _ _

/-- **the pieces `runePieces s` (what `split(s, '')` returns) are the second components of the decoding steps** -/
theorem steps_snd (s : Bytes) : (steps s).map Prod.snd = runePieces s := stepsAux_snd _ _

/-- the number of decoding steps is what `length` reports -/
theorem steps_length (s : Bytes) : (steps s).length = runeCount s := by
  unfold runeCount; rw [← steps_fst, List.length_map]

theorem decodeAll_nil : decodeAll [] = [] := rfl
theorem steps_nil : steps [] = [] := rfl

/-- one decoding step of a non-empty string -/
theorem decodeAll_cons (s : Bytes) (h : s ≠ []) :
    decodeAll s = (decodeRune s).1 :: decodeAll (s.drop (decodeRune s).2) := by
  have hp := C09.decodeRune_pos s h
  have hl := C09.length_pos_of_ne_nil h
  unfold decodeAll
  obtain ⟨k, hk⟩ : ∃ k, s.length = k + 1 := ⟨s.length - 1, by omega⟩
  rw [hk, decodeAllAux_succ _ _ h]
  congr 1
  apply C09.decodeAllAux_fuel
  · rw [List.length_drop]; omega
  · exact Nat.le_refl _

theorem zip_fst_snd {α β : Type} : ∀ l : List (α × β), l = (l.map Prod.fst).zip (l.map Prod.snd)
  | [] => rfl
  | (a, b) :: l => by rw [List.map_cons, List.map_cons, List.zip_cons_cons, ← zip_fst_snd l]

/-- the steps pair the code points with the pieces -/
theorem steps_eq_zip (s : Bytes) : steps s = (decodeAll s).zip (runePieces s) := by
  rw [← steps_fst, ← steps_snd]; exact zip_fst_snd _

/-- **one decoding step**: the first step of a non-empty `s` is `decodeRune s` with the bytes it consumed, the other
    steps are those of the rest -/
theorem steps_cons (s : Bytes) (h : s ≠ []) :
    steps s = ((decodeRune s).1, s.take (decodeRune s).2) :: steps (s.drop (decodeRune s).2) := by
  rw [steps_eq_zip, steps_eq_zip, decodeAll_cons s h, C03D.StrGo.runePieces_cons s h, List.zip_cons_cons]

/-- a decoding step is ill-formed: it yields U+FFFD and consumes one byte -/
def Inval (s : Bytes) : Prop := (decodeRune s).1 = RuneError ∧ (decodeRune s).2 = 1

instance (s : Bytes) : Decidable (Inval s) := inferInstanceAs (Decidable (_ ∧ _))

/-- every decoding step consumes between 1 and 4 bytes -/
theorem decodeRune_le4 (s : Bytes) : (decodeRune s).2 ≤ 4 := by
  by_cases hne : s = []
  · subst hne; decide
  · by_cases hv : Inval s
    · rw [hv.2]; omega
    · obtain ⟨_, _, hk⟩ := decodeRune_valid s hne hv
      rw [hk]; exact encodeRune_length_le _

/-- a continuation byte (80..BF) never starts a well-formed sequence: one U+FFFD, one byte -/
theorem decodeRune_cont (x : Nat) (rest : Bytes) (h : isCont x = true) :
    decodeRune (x :: rest) = (RuneError, 1) := by
  have hx := (isCont_iff x).1 h
  have a1 : ¬ x < 0x80 := by omega
  have a2 : ¬ (0xC2 ≤ x ∧ x ≤ 0xDF) := by omega
  have a3 : ¬ (0xE0 ≤ x ∧ x ≤ 0xEF) := by omega
  have a4 : ¬ (0xF0 ≤ x ∧ x ≤ 0xF4) := by omega
  simp only [decodeRune, a1, a2, a3, a4, if_false]

/-- a single byte ≥ 0x80 is ill-formed on its own -/
theorem decodeRune_single_high (x : Nat) (h : ¬ x < 0x80) : decodeRune [x] = (RuneError, 1) := by
  simp only [decodeRune, h, if_false]
  repeat' split
  all_goals rfl

/-- what follows a step does not matter once the step fits in the prefix `a` -/
theorem decodeRune_append_le (a b : Bytes) (ha : a ≠ []) (h : (decodeRune (a ++ b)).2 ≤ a.length) :
    decodeRune (a ++ b) = decodeRune a := by
  have hab : a ++ b ≠ [] := by simp [ha]
  by_cases hv : Inval (a ++ b)
  · have hva : Inval a := by
      apply Classical.byContradiction; intro hva
      obtain ⟨hs, he, hk⟩ := decodeRune_valid a ha hva
      have e : decodeRune (a ++ b) = decodeRune a := by
        conv => lhs; rw [he, List.append_assoc, decodeRune_encodeRune _ hs]
        rw [← hk]
      apply hva; unfold Inval; rw [← e]; exact hv
    exact Prod.ext (by rw [hv.1, hva.1]) (by rw [hv.2, hva.2])
  · obtain ⟨hs, he, hk⟩ := decodeRune_valid (a ++ b) hab hv
    generalize hr : (decodeRune (a ++ b)).1 = r at hs he hk
    generalize hkk : (decodeRune (a ++ b)).2 = k at h he hk
    have ea : a = encodeRune r ++ a.drop k := by
      have t1 : (a ++ b).take k = encodeRune r := by
        conv => lhs; rw [he]
        rw [hk]; exact List.take_left
      rw [List.take_append_of_le_length h] at t1
      rw [← t1, List.take_append_drop]
    rw [Prod.ext_iff]; simp only [hr, hkk]
    rw [ea, decodeRune_encodeRune _ hs]
    exact ⟨rfl, hk⟩

/-- no decoding step that starts inside `a` reaches into `b` -/
def NoSpan (a b : Bytes) : Prop := ∀ k, k < a.length → (decodeRune (a.drop k ++ b)).2 ≤ a.length - k

theorem NoSpan.drop {a b : Bytes} (h : NoSpan a b) (j : Nat) : NoSpan (a.drop j) b := by
  intro k hk
  rw [List.length_drop] at hk ⊢
  rw [List.drop_drop]
  have := h (j + k) (by omega)
  omega

/-- **decoding a concatenation**: when no step crosses the cut, the steps of `a ++ b` are those of `a` followed by
    those of `b` -/
theorem steps_append_aux : ∀ (n : Nat) (a b : Bytes), a.length ≤ n → NoSpan a b → steps (a ++ b) = steps a ++ steps b := by
  intro n
  induction n with
  | zero =>
    intro a b hn _
    have : a = [] := List.eq_nil_of_length_eq_zero (by omega)
    subst this; rfl
  | succ n ih =>
    intro a b hn h
    by_cases ha : a = []
    · subst ha; rfl
    · have hl := C09.length_pos_of_ne_nil ha
      have h0 := h 0 (by omega)
      rw [List.drop_zero, Nat.sub_zero] at h0
      have e := decodeRune_append_le a b ha h0
      have hp := C09.decodeRune_pos a ha
      rw [steps_cons (a ++ b) (by simp [ha]), steps_cons a ha, e, List.take_append_of_le_length (C09.decodeRune_le a),
        List.drop_append_of_le_length (C09.decodeRune_le a),
        ih _ b (by rw [List.length_drop]; omega) (h.drop _)]
      rfl

theorem steps_append (a b : Bytes) (h : NoSpan a b) : steps (a ++ b) = steps a ++ steps b :=
  steps_append_aux _ a b (Nat.le_refl _) h

theorem decodeAll_append (a b : Bytes) (h : NoSpan a b) : decodeAll (a ++ b) = decodeAll a ++ decodeAll b := by
  rw [← steps_fst, steps_append a b h, List.map_append, steps_fst, steps_fst]

theorem runePieces_append (a b : Bytes) (h : NoSpan a b) : runePieces (a ++ b) = runePieces a ++ runePieces b := by
  rw [← steps_snd, steps_append a b h, List.map_append, steps_snd, steps_snd]

theorem noSpan_nil (a : Bytes) : NoSpan a [] := by
  intro k _
  rw [List.append_nil]
  have := C09.decodeRune_le (a.drop k)
  rwa [List.length_drop] at this

/-- a cut in front of a byte that is not a continuation byte (anything but 80..BF) is never crossed: a well-formed
    sequence continues with continuation bytes only -/
theorem noSpan_runeStart (a : Bytes) (b0 : Nat) (b' : Bytes) (hb : isCont b0 = false) : NoSpan a (b0 :: b') := by
  intro k hk
  apply Classical.byContradiction; intro hgt
  have hne : a.drop k ++ b0 :: b' ≠ [] := by simp
  have hlen : (a.drop k).length = a.length - k := List.length_drop
  have hv : ¬ Inval (a.drop k ++ b0 :: b') := by
    intro hv; rw [hv.2] at hgt; omega
  obtain ⟨hs, he, hkk⟩ := decodeRune_valid _ hne hv
  generalize (decodeRune (a.drop k ++ b0 :: b')).1 = r at hs he hkk
  generalize (decodeRune (a.drop k ++ b0 :: b')).2 = sz at hgt he hkk
  obtain ⟨e0, t, het, _, ht⟩ := encodeRune_shape r hs
  have g1 : (a.drop k ++ b0 :: b')[(a.drop k).length]? = some b0 := by
    rw [List.getElem?_append_right (Nat.le_refl _)]; simp
  rw [he, het] at g1
  rw [het, List.length_cons] at hkk
  obtain ⟨j, hj⟩ : ∃ j, (a.drop k).length = j + 1 := ⟨(a.drop k).length - 1, by omega⟩
  rw [hj, List.cons_append, List.getElem?_cons_succ, List.getElem?_append_left (by omega)] at g1
  have := ht b0 (List.mem_of_getElem? g1)
  rw [hb] at this; exact absurd this (by decide)

/-- inside a run of continuation bytes every step is one ill-formed byte -/
theorem noSpan_cont (c b : Bytes) (hc : ∀ x ∈ c, isCont x = true) : NoSpan c b := by
  intro k hk
  have : c.drop k = c[k] :: c.drop (k + 1) := List.drop_eq_getElem_cons hk
  rw [this, List.cons_append, decodeRune_cont _ _ (hc _ (List.getElem_mem hk))]
  show 1 ≤ _; omega

/-- a cut after three continuation bytes is never crossed (a step has at most four bytes, the first of which is not
    a continuation byte) -/
theorem noSpan_cont3 (u c b : Bytes) (hc : ∀ x ∈ c, isCont x = true) (h3 : 3 ≤ c.length) : NoSpan (u ++ c) b := by
  intro k hk
  rw [List.length_append] at hk ⊢
  by_cases hku : k < u.length
  · have := decodeRune_le4 ((u ++ c).drop k ++ b); omega
  · have e : (u ++ c).drop k = c.drop (k - u.length) := by
      rw [List.drop_append, List.drop_eq_nil_of_le (by omega), List.nil_append]
    have := noSpan_cont c b hc (k - u.length) (by omega)
    rw [e]; omega

/-! ## 1. the LAST decoding step: `utf8.DecodeLastRuneInString` agrees with decoding forwards -/

theorem isCont_of_not_runeStart {x : Nat} (h : ¬ runeStart x = true) : isCont x = true := by
  unfold runeStart at h; simpa using h

theorem isCont_false_of_runeStart {x : Nat} (h : runeStart x = true) : isCont x = false := by
  unfold runeStart at h; simpa using h

theorem runeStart_false_of_isCont {x : Nat} (h : isCont x = true) : runeStart x = false := by
  unfold runeStart; simp [h]

theorem isCont_false_of_lt {x : Nat} (h : x < 0x80) : isCont x = false := by
  unfold isCont; simp; omega

theorem steps_single_low (x : Nat) (h : x < 0x80) : steps [x] = [(x, [x])] := by
  have e : decodeRune [x] = (x, 1) := by simp [decodeRune, h]
  rw [steps_cons [x] (by simp), e]; rfl

theorem steps_single_high (x : Nat) (h : ¬ x < 0x80) : steps [x] = [(RuneError, [x])] := by
  rw [steps_cons [x] (by simp), decodeRune_single_high x h]; rfl

/-- where the backwards scan of `DecodeLastRuneInString` stops, by the bytes before the last one -/
theorem tail_cases (t : Bytes) :
    (∃ u h c, t = u ++ h :: c ∧ runeStart h = true ∧ (∀ x ∈ c, isCont x = true) ∧ c.length ≤ 2) ∨
    ((∀ x ∈ t, isCont x = true) ∧ t.length ≤ 2) ∨
    (∃ u c1 c2 c3, t = u ++ [c1, c2, c3] ∧ isCont c1 = true ∧ isCont c2 = true ∧ isCont c3 = true) := by
  obtain ⟨r, rfl⟩ : ∃ r, t = List.reverse r := ⟨t.reverse, by simp⟩
  match r with
  | [] => exact .inr (.inl ⟨by simp, by simp⟩)
  | a :: r =>
    by_cases ha : runeStart a = true
    · exact .inl ⟨r.reverse, a, [], by simp, ha, by simp, by simp⟩
    · have ha' := isCont_of_not_runeStart ha
      match r with
      | [] => exact .inr (.inl ⟨by simpa using ha', by simp⟩)
      | b :: r =>
        by_cases hb : runeStart b = true
        · exact .inl ⟨r.reverse, b, [a], by simp, hb, by simpa using ha', by simp⟩
        · have hb' := isCont_of_not_runeStart hb
          match r with
          | [] => exact .inr (.inl ⟨by simp [ha', hb'], by simp⟩)
          | c :: r =>
            by_cases hc : runeStart c = true
            · exact .inl ⟨r.reverse, c, [b, a], by simp, hc, by simp [ha', hb'], by simp⟩
            · have hc' := isCont_of_not_runeStart hc
              exact .inr (.inr ⟨r.reverse, c, b, a, by simp, hc', hb', ha'⟩)

theorem dl_low (t : Bytes) (last : Nat) (h : last < 0x80) : decodeLastRune (t ++ [last]) = (last, 1) := by
  have g1 := getD_append_back t [last] 1 (by simp) 0
  have := dlr1 (t ++ [last]) (by simp) (by rw [g1]; simpa using h)
  rw [this, g1]; rfl

theorem dl_found (u : Bytes) (h : Nat) (c : Bytes) (last : Nat) (hh : runeStart h = true)
    (hc : ∀ x ∈ c, isCont x = true) (hl : c.length ≤ 2) (hlast : ¬ last < 0x80) :
    decodeLastRune (u ++ h :: (c ++ [last]))
      = if (decodeRune (h :: (c ++ [last]))).2 ≠ c.length + 2 then (RuneError, 1)
        else decodeRune (h :: (c ++ [last])) := by
  match c, hl with
  | [], _ =>
    have g1 := getD_append_back u [h, last] 1 (by simp) 0
    have g2 := getD_append_back u [h, last] 2 (by simp) 0
    have d2 := drop_append_back u [h, last] 2 (by simp)
    have hn : (u ++ [h, last]).length ≠ 0 := by simp
    have h2 : 2 ≤ (u ++ [h, last]).length := by simp
    simp only [List.length_cons, List.length_nil] at g1 g2 d2
    simp only [Nat.add_sub_cancel, Nat.sub_self, List.getD_cons_zero, List.getD_cons_succ, List.drop_zero,
      Nat.reduceAdd, Nat.reduceSub] at g1 g2 d2
    unfold decodeLastRune
    simp only [List.nil_append, hn, g1, g2, d2, hlast, h2, hh, and_self, if_true, if_false, List.length_nil]
    have e : ∀ k, ((u ++ [h, last]).length - 2 + k ≠ (u ++ [h, last]).length) ↔ k ≠ 0 + 2 := by
      intro k; simp <;> omega
    simp only [e]
  | [c1], _ =>
    have hc1 := runeStart_false_of_isCont (hc c1 (by simp))
    have g1 := getD_append_back u [h, c1, last] 1 (by simp) 0
    have g2 := getD_append_back u [h, c1, last] 2 (by simp) 0
    have g3 := getD_append_back u [h, c1, last] 3 (by simp) 0
    have d3 := drop_append_back u [h, c1, last] 3 (by simp)
    have hn : (u ++ [h, c1, last]).length ≠ 0 := by simp
    have h2 : 2 ≤ (u ++ [h, c1, last]).length := by simp
    have h3 : 3 ≤ (u ++ [h, c1, last]).length := by simp
    simp only [List.length_cons, List.length_nil] at g1 g2 g3 d3
    simp only [Nat.add_sub_cancel, Nat.sub_self, List.getD_cons_zero, List.getD_cons_succ, List.drop_zero,
      Nat.reduceAdd, Nat.reduceSub] at g1 g2 g3 d3
    unfold decodeLastRune
    simp only [List.cons_append, List.nil_append, hn, g1, g2, g3, d3, hlast, h2, h3, hh, hc1, and_self, and_false,
      Bool.false_eq_true, if_true, if_false, List.length_cons, List.length_nil]
    have e : ∀ k, ((u ++ [h, c1, last]).length - 3 + k ≠ (u ++ [h, c1, last]).length) ↔ k ≠ 0 + 1 + 2 := by
      intro k; simp <;> omega
    simp only [e]
  | [c1, c2], _ =>
    have hc1 := runeStart_false_of_isCont (hc c1 (by simp))
    have hc2 := runeStart_false_of_isCont (hc c2 (by simp))
    have g1 := getD_append_back u [h, c1, c2, last] 1 (by simp) 0
    have g2 := getD_append_back u [h, c1, c2, last] 2 (by simp) 0
    have g3 := getD_append_back u [h, c1, c2, last] 3 (by simp) 0
    have g4 := getD_append_back u [h, c1, c2, last] 4 (by simp) 0
    have d4 := drop_append_back u [h, c1, c2, last] 4 (by simp)
    have hn : (u ++ [h, c1, c2, last]).length ≠ 0 := by simp
    have h2 : 2 ≤ (u ++ [h, c1, c2, last]).length := by simp
    have h3 : 3 ≤ (u ++ [h, c1, c2, last]).length := by simp
    have h4 : 4 ≤ (u ++ [h, c1, c2, last]).length := by simp
    simp only [List.length_cons, List.length_nil] at g1 g2 g3 g4 d4
    simp only [Nat.add_sub_cancel, Nat.sub_self, List.getD_cons_zero, List.getD_cons_succ, List.drop_zero,
      Nat.reduceAdd, Nat.reduceSub] at g1 g2 g3 g4 d4
    unfold decodeLastRune
    simp only [List.cons_append, List.nil_append, hn, g1, g2, g3, g4, d4, hlast, h2, h3, h4, hh, hc1, hc2, and_self,
      and_false, Bool.false_eq_true, if_true, if_false, List.length_cons, List.length_nil]
    have e : ∀ k, ((u ++ [h, c1, c2, last]).length - 4 + k ≠ (u ++ [h, c1, c2, last]).length)
        ↔ k ≠ 0 + 1 + 1 + 2 := by
      intro k; simp <;> omega
    simp only [e]

/-- no rune start among the (at most two) bytes before the last one, and nothing before them -/
theorem dl_short (t : Bytes) (last : Nat) (ht : ∀ x ∈ t, isCont x = true) (hl : t.length ≤ 2) (hlast : ¬ last < 0x80) :
    decodeLastRune (t ++ [last]) = (RuneError, 1) := by
  match t, hl with
  | [], _ =>
    unfold decodeLastRune
    simp [hlast, decodeRune_single_high last hlast]
  | [c1], _ =>
    have hc1 := runeStart_false_of_isCont (ht c1 (by simp))
    unfold decodeLastRune
    simp [hlast, hc1, decodeRune_cont c1 [last] (ht c1 (by simp))]
  | [c1, c2], _ =>
    have hc1 := runeStart_false_of_isCont (ht c1 (by simp))
    have hc2 := runeStart_false_of_isCont (ht c2 (by simp))
    unfold decodeLastRune
    simp [hlast, hc1, hc2, decodeRune_cont c1 [c2, last] (ht c1 (by simp))]

/-- three continuation bytes before the last byte: the scan gives up -/
theorem dl_far (u : Bytes) (c1 c2 c3 last : Nat) (h1 : isCont c1 = true) (h2 : isCont c2 = true)
    (h3 : isCont c3 = true) (hlast : ¬ last < 0x80) :
    decodeLastRune (u ++ [c1, c2, c3, last]) = (RuneError, 1) := by
  have r1 := runeStart_false_of_isCont h1
  have r2 := runeStart_false_of_isCont h2
  have r3 := runeStart_false_of_isCont h3
  have g1 := getD_append_back u [c1, c2, c3, last] 1 (by simp) 0
  have g2 := getD_append_back u [c1, c2, c3, last] 2 (by simp) 0
  have g3 := getD_append_back u [c1, c2, c3, last] 3 (by simp) 0
  have g4 := getD_append_back u [c1, c2, c3, last] 4 (by simp) 0
  have hn : (u ++ [c1, c2, c3, last]).length ≠ 0 := by simp
  simp only [List.length_cons, List.length_nil] at g1 g2 g3 g4
  simp only [Nat.sub_self, List.getD_cons_zero, List.getD_cons_succ, Nat.reduceAdd, Nat.reduceSub] at g1 g2 g3 g4
  unfold decodeLastRune
  simp only [hn, g1, g2, g3, g4, hlast, r1, r2, r3, and_false, Bool.false_eq_true, if_false]
  by_cases h5 : 5 ≤ (u ++ [c1, c2, c3, last]).length
  · simp only [h5, if_true]
    have := decodeRune_le4 (List.drop ((u ++ [c1, c2, c3, last]).length - 5) (u ++ [c1, c2, c3, last]))
    have hne : (u ++ [c1, c2, c3, last]).length - 5 +
        (decodeRune (List.drop ((u ++ [c1, c2, c3, last]).length - 5) (u ++ [c1, c2, c3, last]))).2
          ≠ (u ++ [c1, c2, c3, last]).length := by omega
    simp only [hne, ne_eq, not_false_eq_true, if_true]
  · have hu : u = [] := by
      apply List.eq_nil_of_length_eq_zero
      have : (u ++ [c1, c2, c3, last]).length = u.length + 4 := by simp
      omega
    subst hu
    simp [decodeRune_cont c1 _ h1]

/-- **`utf8.DecodeLastRuneInString` is the last step of decoding forwards — for ANY bytes.**  A non-empty `s` splits
    as `pre ++ p` where `p` is the last piece of the forward decoding (`steps s = steps pre ++ [(r, p)]`) and decoding
    from the end returns exactly that step: the code point `r` and the size `|p|`. -/
theorem last_step (s : Bytes) (hs : s ≠ []) :
    ∃ pre p r, s = pre ++ p ∧ p ≠ [] ∧ decodeLastRune s = (r, p.length) ∧ steps s = steps pre ++ [(r, p)] := by
  obtain ⟨t, last, rfl⟩ : ∃ t last, s = t ++ [last] :=
    ⟨s.dropLast, s.getLast hs, (List.dropLast_concat_getLast hs).symm⟩
  by_cases hlast : last < 0x80
  · refine ⟨t, [last], last, rfl, by simp, dl_low t last hlast, ?_⟩
    rw [steps_append t [last] (noSpan_runeStart t last [] (isCont_false_of_lt hlast)), steps_single_low last hlast]
  · rcases tail_cases t with ⟨u, h, c, rfl, hh, hc, hl⟩ | ⟨ht, hl⟩ | ⟨u, c1, c2, c3, rfl, h1, h2, h3⟩
    · have hsplit : steps (u ++ h :: c ++ [last]) = steps u ++ steps (h :: (c ++ [last])) := by
        rw [List.append_assoc, List.cons_append]
        exact steps_append u _ (noSpan_runeStart u h _ (isCont_false_of_runeStart hh))
      have hdl := dl_found u h c last hh hc hl hlast
      have hle := C09.decodeRune_le (h :: (c ++ [last]))
      simp only [List.length_cons, List.length_append, List.length_nil] at hle
      by_cases hsz : (decodeRune (h :: (c ++ [last]))).2 = c.length + 2
      · refine ⟨u, h :: (c ++ [last]), (decodeRune (h :: (c ++ [last]))).1, by simp, by simp, ?_, ?_⟩
        · rw [List.append_assoc, List.cons_append, hdl]
          simp only [hsz, ne_eq, not_true_eq_false, if_false]
          rw [Prod.ext_iff]; simp [hsz]
        · rw [hsplit, steps_cons (h :: (c ++ [last])) (by simp), hsz]
          have e1 : (h :: (c ++ [last])).take (c.length + 2) = h :: (c ++ [last]) :=
            List.take_of_length_le (by simp)
          have e2 : (h :: (c ++ [last])).drop (c.length + 2) = [] :=
            List.drop_eq_nil_of_le (by simp)
          rw [e1, e2, steps_nil]
      · refine ⟨u ++ h :: c, [last], RuneError, by simp, by simp, ?_, ?_⟩
        · rw [List.append_assoc, List.cons_append, hdl]
          simp only [hsz, ne_eq, not_false_eq_true, if_true]; rfl
        · have hns : NoSpan (h :: c) [last] := by
            intro k hk
            match k with
            | 0 =>
              simp only [List.drop_zero, List.cons_append, List.length_cons, Nat.sub_zero]
              omega
            | k + 1 =>
              simp only [List.drop_succ_cons, List.length_cons] at hk ⊢
              have := noSpan_cont c [last] hc k (by omega)
              omega
          have e : steps (h :: (c ++ [last])) = steps (h :: c) ++ [(RuneError, [last])] := by
            rw [← List.cons_append, steps_append _ _ hns, steps_single_high last hlast]
          rw [hsplit, e, ← List.append_assoc,
            ← steps_append u (h :: c) (noSpan_runeStart u h c (isCont_false_of_runeStart hh))]
    · refine ⟨t, [last], RuneError, rfl, by simp, dl_short t last ht hl hlast, ?_⟩
      rw [steps_append t [last] (noSpan_cont t _ ht), steps_single_high last hlast]
    · refine ⟨u ++ [c1, c2, c3], [last], RuneError, rfl, by simp, ?_, ?_⟩
      · have := dl_far u c1 c2 c3 last h1 h2 h3 hlast
        simpa using this
      · rw [steps_append _ [last] (noSpan_cont3 u [c1, c2, c3] _ (by simp [h1, h2, h3]) (by simp)),
          steps_single_high last hlast]

example : decodeLastRune bad = (0xFFFD, 1) ∧ decodeLastRune [0x61, 0xC3, 0xA9] = (0xE9, 2) := by decide

/-! ## 2. what a decoding step looks like -/

/-- a decoding step `(r, p)`: `p` is not empty, `r` is a scalar value, and EITHER `p` is the well-formed encoding of
    `r` OR `p` is a single ill-formed byte and `r` is U+FFFD -/
def StepOK (st : Nat × Bytes) : Prop :=
  st.2 ≠ [] ∧ isScalar st.1 = true ∧ (st.2 = encodeRune st.1 ∨ (st.1 = RuneError ∧ ∃ b, st.2 = [b]))

theorem first_stepOK (s : Bytes) (h : s ≠ []) : StepOK ((decodeRune s).1, s.take (decodeRune s).2) := by
  have hp := C09.decodeRune_pos s h
  have hl := C09.length_pos_of_ne_nil h
  have hne : s.take (decodeRune s).2 ≠ [] := by
    intro e; have := congrArg List.length e
    rw [List.length_take, List.length_nil] at this; omega
  by_cases hv : Inval s
  · refine ⟨hne, by rw [hv.1]; decide, .inr ⟨hv.1, ?_⟩⟩
    rw [hv.2]
    match s, h with
    | b :: t, _ => exact ⟨b, rfl⟩
  · obtain ⟨h1, h2, h3⟩ := decodeRune_valid s h hv
    refine ⟨hne, h1, .inl ?_⟩
    show s.take (decodeRune s).2 = encodeRune (decodeRune s).1
    conv => lhs; arg 2; rw [h2]
    rw [h3]; exact List.take_left

/-- **every decoding step of every byte string** consumes at least one byte and yields a scalar value; it is either a
    well-formed encoding (`piece = encodeRune r`) or ONE ill-formed byte read as U+FFFD -/
theorem steps_ok : ∀ (n : Nat) (s : Bytes), s.length ≤ n → ∀ st ∈ steps s, StepOK st := by
  intro n
  induction n with
  | zero =>
    intro s h st hst
    have : s = [] := List.eq_nil_of_length_eq_zero (by omega)
    subst this; cases hst
  | succ n ih =>
    intro s h st hst
    by_cases hne : s = []
    · subst hne; cases hst
    · have hp := C09.decodeRune_pos s hne
      rw [steps_cons s hne, List.mem_cons] at hst
      rcases hst with rfl | hst
      · exact first_stepOK s hne
      · exact ih _ (by rw [List.length_drop]; omega) st hst

theorem stepOK_of_mem {s : Bytes} {st : Nat × Bytes} (h : st ∈ steps s) : StepOK st := steps_ok _ s (Nat.le_refl _) st h

/-- the code points of ANY byte string are scalar values (ill-formed bytes were replaced by U+FFFD) -/
theorem scalars_decodeAll (s : Bytes) : Scalars (decodeAll s) := by
  intro c hc
  rw [← steps_fst, List.mem_map] at hc
  obtain ⟨st, hst, rfl⟩ := hc
  exact (stepOK_of_mem hst).2.1

/-- every piece is non-empty (each step consumes at least one byte) -/
theorem pieces_ne_nil (s : Bytes) : ∀ p ∈ runePieces s, p ≠ [] := by
  intro p hp
  rw [← steps_snd, List.mem_map] at hp
  obtain ⟨st, hst, rfl⟩ := hp
  exact (stepOK_of_mem hst).1

/-- **the pieces concatenate back to `s`**: decoding loses no byte -/
theorem pieces_flatten (s : Bytes) : (runePieces s).flatten = s := by
  have e : ∀ l : List Bytes, l.flatten = l.foldr (· ++ ·) [] := by
    intro l
    induction l with
    | nil => rfl
    | cons a l ih => rw [List.flatten_cons, List.foldr_cons, ih]
  rw [e]; exact C03D.StrGo.runePieces_concat _ s (Nat.le_refl _)

/-- the number of bytes of `s` is the sum of the sizes of its pieces, each between 1 and 4 -/
theorem piece_length_le4 (s : Bytes) : ∀ p ∈ runePieces s, 1 ≤ p.length ∧ p.length ≤ 4 := by
  intro p hp
  rw [← steps_snd, List.mem_map] at hp
  obtain ⟨st, hst, rfl⟩ := hp
  obtain ⟨h1, _, h3⟩ := stepOK_of_mem hst
  refine ⟨C09.length_pos_of_ne_nil h1, ?_⟩
  rcases h3 with e | ⟨_, b, e⟩
  · rw [e]; exact encodeRune_length_le _
  · rw [e]; simp

example : runePieces bad = [[0x61], [0xFF], [0xC3, 0xA9], [0xC3]] ∧ decodeAll bad = [0x61, 0xFFFD, 0xE9, 0xFFFD] := by
  decide

/-- decoding an encoding followed by anything: the code points, then the code points of the rest -/
theorem steps_encodeAll_append : ∀ (cs : List Nat), Scalars cs → ∀ b : Bytes,
    steps (encodeAll cs ++ b) = cs.map (fun c => (c, encodeRune c)) ++ steps b := by
  intro cs
  induction cs with
  | nil => intro _ b; rfl
  | cons c cs ih =>
    intro h b
    rw [encodeAll_cons, List.append_assoc,
      steps_cons _ (by have := encodeRune_ne_nil c; intro e; exact this (List.append_eq_nil_iff.1 e).1),
      decodeRune_encodeRune c h.head, List.take_left, List.drop_left, ih h.tail]
    rfl

theorem decodeAll_encodeAll_append (cs : List Nat) (h : Scalars cs) (b : Bytes) :
    decodeAll (encodeAll cs ++ b) = cs ++ decodeAll b := by
  rw [← steps_fst, steps_encodeAll_append cs h, List.map_append, List.map_map, steps_fst]
  congr 1
  exact List.map_id' _

/-- **re-encoding the code points** of `s` gives `s` back exactly when `s` is valid UTF-8; otherwise each ill-formed
    byte has become `EF BF BD` -/
theorem reencode_eq_iff (s : Bytes) : encodeAll (decodeAll s) = s ↔ validUTF8 s = true := by
  constructor
  · intro h; rw [← h]; exact validUTF8_encodeAll _ (scalars_decodeAll s)
  · intro h; exact (validUTF8_decode s h).2.symm

/-- piecewise: the re-encoding replaces each piece by the encoding of its code point — the piece itself when it is
    well formed, `EF BF BD` when it is an ill-formed byte -/
theorem reencode_pieces (s : Bytes) :
    encodeAll (decodeAll s) = ((steps s).map (fun st => encodeRune st.1)).flatten ∧
    ∀ st ∈ steps s, encodeRune st.1 = st.2 ∨ (encodeRune st.1 = [0xEF, 0xBF, 0xBD] ∧ ∃ b, st.2 = [b]) := by
  constructor
  · rw [← steps_fst, encodeAll, List.flatMap_def, List.map_map]; rfl
  · intro st hst
    obtain ⟨_, _, h3⟩ := stepOK_of_mem hst
    rcases h3 with e | ⟨e, hb⟩
    · exact .inl e.symm
    · exact .inr ⟨by rw [e]; decide, hb⟩

example : encodeAll (decodeAll bad) = [0x61, 0xEF, 0xBF, 0xBD, 0xC3, 0xA9, 0xEF, 0xBF, 0xBD] := by decide

/-- a byte that occurs in no well-formed UTF-8 sequence: C0, C1, F5..FF -/
def NeverByte (x : Nat) : Prop := x = 0xC0 ∨ x = 0xC1 ∨ 0xF5 ≤ x

theorem decodeRune_never (x : Nat) (rest : Bytes) (h : NeverByte x) : decodeRune (x :: rest) = (RuneError, 1) := by
  have a1 : ¬ x < 0x80 := by unfold NeverByte at h; omega
  have a2 : ¬ (0xC2 ≤ x ∧ x ≤ 0xDF) := by unfold NeverByte at h; omega
  have a3 : ¬ (0xE0 ≤ x ∧ x ≤ 0xEF) := by unfold NeverByte at h; omega
  have a4 : ¬ (0xF0 ≤ x ∧ x ≤ 0xF4) := by unfold NeverByte at h; omega
  simp only [decodeRune, a1, a2, a3, a4, if_false]

/-- **an ill-formed byte is exactly ONE position, wherever it stands**: inserting a byte `x` that occurs in no
    well-formed sequence between ANY two byte strings `a` and `b` leaves the steps of `a` and of `b` as they are and
    adds the one step `(U+FFFD, [x])` between them -/
theorem steps_insert_never (a b : Bytes) (x : Nat) (h : NeverByte x) :
    steps (a ++ x :: b) = steps a ++ (RuneError, [x]) :: steps b := by
  have hx : isCont x = false := by
    unfold isCont; unfold NeverByte at h; simp; omega
  rw [steps_append a (x :: b) (noSpan_runeStart a x b hx), steps_cons (x :: b) (by simp), decodeRune_never x b h]
  rfl

/-- … so it adds exactly one to the length -/
theorem length_insert_never (a b : Bytes) (x : Nat) (h : NeverByte x) :
    (decodeAll (a ++ x :: b)).length = (decodeAll a).length + 1 + (decodeAll b).length := by
  rw [← steps_fst, steps_insert_never a b x h, List.map_append, List.length_append, List.map_cons, List.length_cons,
    steps_fst, steps_fst]
  omega

example : (decodeAll ([0xE2, 0x82] ++ 0xFF :: [0xAC])).length = 2 + 1 + 1 := length_insert_never _ _ _ (.inr (.inr (by decide)))

/-- a surrogate written in three bytes (ED A0 80) is three ill-formed bytes, a truncated four-byte sequence
    (F0 90 80) likewise -/
example : decodeAll [0xF0, 0x90, 0x80, 0x61, 0xED, 0xA0, 0x80]
    = [0xFFFD, 0xFFFD, 0xFFFD, 0x61, 0xFFFD, 0xFFFD, 0xFFFD] := by decide

/-! ## 3. `reverse`, slices, `split`, padding, `find_first` / `find_last` on arbitrary bytes (value level) -/

theorem ok_str {a b : Bytes} (h : a = b) : (Res.ok (Val.str a) : Res Val) = .ok (.str b) := by rw [h]

/-- the last step, as the functions use it: cutting off `(decodeLastRune s).2` bytes removes exactly the last code
    point of the forward decoding -/
theorem decodeAll_last (s : Bytes) (hs : s ≠ []) :
    decodeAll s = decodeAll (s.take (s.length - (decodeLastRune s).2)) ++ [(decodeLastRune s).1] := by
  obtain ⟨pre, p, r, rfl, _, hd, hst⟩ := last_step s hs
  rw [hd]
  have e : (pre ++ p).take ((pre ++ p).length - p.length) = pre := by
    rw [List.length_append, Nat.add_sub_cancel]; exact List.take_left
  simp only [e]
  rw [← steps_fst, hst, List.map_append, steps_fst]; rfl

/-- `reverse` on ANY byte string: the code points of the forward decoding, in reverse order, re-encoded -/
theorem reverseRunes_any : ∀ (n : Nat) (s : Bytes), s.length ≤ n →
    reverseRunes n s = encodeAll (decodeAll s).reverse := by
  intro n
  induction n with
  | zero =>
    intro s h
    have : s = [] := List.eq_nil_of_length_eq_zero (by omega)
    subst this; rfl
  | succ n ih =>
    intro s h
    by_cases hne : s = []
    · subst hne; rfl
    · have hp := C09.decodeLastRune_pos s hne
      rw [reverseRunes_succ _ _ hne, ih _ (by rw [List.length_take]; omega)]
      conv => rhs; rw [decodeAll_last s hne]
      rw [List.reverse_append, List.reverse_singleton, List.singleton_append, encodeAll_cons]

/-- **`reverse(s)` for ANY string `s`** (valid UTF-8 or not): the code points of `s` — an ill-formed byte counting as
    one U+FFFD — in reverse order -/
theorem reverse_any (s : Bytes) : reverse (.str s) = .ok (.str (encodeAll (decodeAll s).reverse)) := by
  show Res.ok (Val.str (reverseRunes s.length s)) = _
  rw [reverseRunes_any _ s (Nat.le_refl _)]

example : reverse (.str bad) = .ok (.str [0xEF, 0xBF, 0xBD, 0xC3, 0xA9, 0xEF, 0xBF, 0xBD, 0x61]) := by
  rw [reverse_any]; exact ok_str (by decide)

/-- `length(s)` for ANY string: the number of decoding steps -/
theorem length_any (s : Bytes) : length (.str s) = .ok (.num (.int .i64 (decodeAll s).length)) := rfl

/-- the reverse of any string has as many code points as the string -/
theorem runeCount_reverse_any (s : Bytes) : runeCount (encodeAll (decodeAll s).reverse) = runeCount s := by
  rw [runeCount_encodeAll _ (scalars_decodeAll s).reverse, List.length_reverse]; rfl

/-- reversing twice re-encodes: `reverse(reverse(s))` is `s` with every ill-formed byte replaced by `EF BF BD` -/
theorem reverse_reverse_any (s : Bytes) :
    reverse (.str (encodeAll (decodeAll s).reverse)) = .ok (.str (encodeAll (decodeAll s))) := by
  rw [reverse_any, decodeAll_encodeAll _ (scalars_decodeAll s).reverse, List.reverse_reverse]

/-! ### walking forwards -/

theorem steps_dropRunes : ∀ (k : Nat) (s : Bytes), steps (dropRunes k s) = (steps s).drop k := by
  intro k
  induction k with
  | zero => intro s; rfl
  | succ k ih =>
    intro s
    by_cases hne : s = []
    · subst hne; rw [dropRunes_nil]; rfl
    · rw [dropRunes_succ _ _ hne, ih, steps_cons s hne, List.drop_succ_cons]

theorem decodeAll_dropRunes (k : Nat) (s : Bytes) : decodeAll (dropRunes k s) = (decodeAll s).drop k := by
  rw [← steps_fst, steps_dropRunes, List.map_drop, steps_fst]

theorem runePieces_dropRunes (k : Nat) (s : Bytes) : runePieces (dropRunes k s) = (runePieces s).drop k := by
  rw [← steps_snd, steps_dropRunes, List.map_drop, steps_snd]

/-- `dropRunes k` removes the first `k` pieces -/
theorem dropRunes_pieces (k : Nat) (s : Bytes) : dropRunes k s = ((runePieces s).drop k).flatten := by
  rw [← runePieces_dropRunes, pieces_flatten]

/-- the first `m` pieces, as a prefix -/
theorem take_runesLen_pieces : ∀ (m : Nat) (s : Bytes), s.take (runesLen m s) = ((runePieces s).take m).flatten := by
  intro m
  induction m with
  | zero => intro s; simp [runesLen]
  | succ m ih =>
    intro s
    by_cases hne : s = []
    · subst hne; rw [runesLen_nil]; rfl
    · rw [runesLen_succ _ _ hne, C03D.StrGo.runePieces_cons s hne, List.take_succ_cons, List.flatten_cons, ← ih,
        List.take_add]

/-- the pieces a step-1 slice selects: pieces `a ≤ i < b` for the clamped bounds -/
def subPieces (ps : List Bytes) (start stop : Int) : List Bytes :=
  match clamp1 ps.length start stop with
  | none => []
  | some (a, b) => (ps.drop a.toNat).take (b - a).toNat

/-- **a step-1 slice `s[a:b]` of ANY string**: the bounds are clamped against the number of PIECES (decoding steps)
    and the result is the concatenation of the selected pieces — the ORIGINAL bytes, an ill-formed byte being one
    position and copied as it is -/
theorem slice_any (s : Bytes) (start stop : Int) :
    slice (.str s) start stop = .ok (.str (subPieces (runePieces s) start stop).flatten) := by
  unfold slice subPieces
  simp only [C09.runePieces_length]
  cases clamp1 (↑(runeCount s)) start stop with
  | none => rfl
  | some ab =>
    obtain ⟨a, b⟩ := ab
    simp only [take_runesLen_pieces, runePieces_dropRunes]

/-- `bad[1:3]`: the ill-formed byte FF and "é" -/
example : slice (.str bad) 1 3 = .ok (.str [0xFF, 0xC3, 0xA9]) := by rw [slice_any]; exact ok_str (by decide)
/-- `bad[-1:]`: the truncated sequence C3 is the last position -/
example : slice (.str bad) (-1) (2 ^ 63 - 1) = .ok (.str [0xC3]) := by rw [slice_any]; exact ok_str (by decide)

theorem walkFwd_any (step : Nat) (hstep : 1 ≤ step) (n : Nat) : ∀ s : Bytes,
    walkFwd step n s = encodeAll ((List.range n).map (fun i => (decodeAll s).getD (i * step) RuneError)) := by
  induction n with
  | zero => intro s; rfl
  | succ n ih =>
    intro s
    rw [walkFwd_succ, encodeAll_range_succ, ih, decodeAll_dropRunes]
    by_cases hne : s = []
    · subst hne
      have e : decodeRune [] = (RuneError, 0) := rfl
      rw [e]; simp [decodeAll_nil]
    · rw [decodeAll_cons s hne]
      simp only [Nat.zero_mul, List.getD_cons_zero]
      congr 2
      apply List.map_congr_left
      intro i _
      have e : (i + 1) * step = (step - 1 + i * step) + 1 := by rw [Nat.succ_mul]; omega
      rw [e, List.getD_eq_getElem?_getD, List.getD_eq_getElem?_getD, List.getElem?_drop,
        List.getElem?_cons_succ]

/-! ### walking backwards -/

theorem decodeAll_dropLastRunes : ∀ (k : Nat) (s : Bytes),
    (decodeAll (dropLastRunes k s)).reverse = (decodeAll s).reverse.drop k := by
  intro k
  induction k with
  | zero => intro s; rfl
  | succ k ih =>
    intro s
    by_cases hne : s = []
    · subst hne; rw [dropLastRunes_nil]; rfl
    · rw [dropLastRunes_succ _ _ hne, ih]
      conv => rhs; rw [decodeAll_last s hne]
      rw [List.reverse_append, List.reverse_singleton, List.singleton_append, List.drop_succ_cons]

theorem walkBwd_any (step : Nat) (hstep : 1 ≤ step) (n : Nat) : ∀ s : Bytes,
    walkBwd step n s = encodeAll ((List.range n).map (fun i => (decodeAll s).reverse.getD (i * step) RuneError)) := by
  induction n with
  | zero => intro s; rfl
  | succ n ih =>
    intro s
    rw [walkBwd_succ, encodeAll_range_succ, ih, decodeAll_dropLastRunes]
    by_cases hne : s = []
    · subst hne
      have e : decodeLastRune [] = (RuneError, 0) := rfl
      rw [e]; simp [decodeAll_nil]
    · conv => rhs; rw [decodeAll_last s hne]
      rw [List.reverse_append, List.reverse_singleton, List.singleton_append]
      simp only [Nat.zero_mul, List.getD_cons_zero]
      congr 2
      apply List.map_congr_left
      intro i _
      have e : (i + 1) * step = (step - 1 + i * step) + 1 := by rw [Nat.succ_mul]; omega
      rw [e, List.getD_eq_getElem?_getD, List.getD_eq_getElem?_getD, List.getElem?_drop,
        List.getElem?_cons_succ]

/-- **a stepped slice `s[a:b:c]` of ANY string** re-encodes the selected CODE POINTS of `decodeAll s` (so a selected
    ill-formed byte comes out as `EF BF BD`); positions are positions of `decodeAll s` -/
theorem sliceStep_any (s : Bytes) (start stop step : Int) (hstep : step ≠ 0) :
    sliceStep (.str s) start stop step
      = .ok (.str (encodeAll (C11.stepCodepointsRaw (decodeAll s) start stop step))) := by
  unfold sliceStep C11.stepCodepointsRaw
  have hl : runeCount s = (decodeAll s).length := rfl
  simp only [hl]
  cases clampStep (↑(decodeAll s).length) start stop step with
  | none => rfl
  | some an =>
    obtain ⟨a, n⟩ := an
    by_cases hpos : step > 0
    · have h1 : 1 ≤ step.toNat := by omega
      simp only [hpos, if_true, walkFwd_any _ h1, decodeAll_dropRunes, getD_drop]
    · have h1 : 1 ≤ (-step).toNat := by omega
      simp only [hpos, if_false, walkBwd_any _ h1, decodeAll_dropLastRunes, getD_drop]

/-- … at the positions `a, a + step, a + 2·step, …` (`step` a non-zero Go `int`, fewer than 2^63 code points) -/
theorem sliceStep_any_positions (s : Bytes) (start stop step : Int) (hs : step ≠ 0) (hmin : -2 ^ 63 ≤ step)
    (hlen : (decodeAll s).length < 2 ^ 63) :
    sliceStep (.str s) start stop step
      = .ok (.str (encodeAll (C11.stepCodepoints (decodeAll s) start stop step))) := by
  rw [sliceStep_any s start stop step hs, C11.stepCodepointsRaw_positions _ start stop step hs hmin hlen]
  rfl

/-- `bad[::2]` = positions 0 and 2: "a", "é";  `bad[::-1]` = all four positions backwards, the two ill-formed bytes
    re-encoded as U+FFFD -/
example : sliceStep (.str bad) 0 (2 ^ 63 - 1) 2 = .ok (.str [0x61, 0xC3, 0xA9]) := by
  rw [sliceStep_any _ _ _ _ (by decide)]; exact ok_str (by decide)
example : sliceStep (.str bad) (2 ^ 63 - 1) (-(2 ^ 63)) (-1)
    = .ok (.str [0xEF, 0xBF, 0xBD, 0xC3, 0xA9, 0xEF, 0xBF, 0xBD, 0x61]) := by
  rw [sliceStep_any _ _ _ _ (by decide)]; exact ok_str (by decide)

/-! ### `split` on the empty separator -/

/-- **`split(s, '')` of ANY string**: one element per decoding step — the pieces `runePieces s`, original bytes, an
    ill-formed byte being an element of its own -/
theorem split_empty_sep_any (s : Bytes) : split (.str s) (.str []) = .ok (strsToArr (runePieces s)) := by
  by_cases h : s = []
  · subst h; rfl
  · have e : s.isEmpty = false := by cases s <;> simp_all
    show (if s.isEmpty = true then _ else _) = _
    rw [e]; rfl

example : split (.str bad) (.str []) = .ok (.arr .plain [.str [0x61], .str [0xFF], .str [0xC3, 0xA9], .str [0xC3]]) := by
  rw [split_empty_sep_any]; rfl

/-! ### padding -/

theorem runeCount_encodeRune (c : Nat) (hc : isScalar c = true) : runeCount (encodeRune c) = 1 := by
  have := Utf8.runeCount_encodeAll [c] (Scalars.cons hc Scalars.nil)
  rwa [encodeAll_singleton] at this

/-- what `pad_left` / `pad_right` return on ANY subject `s`, for a pad character `c` and a width `w` above the number of
    code points of `s`: `w - runeCount s` pad characters are added on the chosen side, the bytes of `s` are untouched -/
theorem padWith_any (left : Bool) (s : Bytes) (c : Nat) (hc : isScalar c = true) (w : Int) (hw : 0 ≤ w)
    (hlim : w - runeCount s ≤ padLimit) (orig : Val) :
    padWith left s w (encodeRune c) orig =
      if w ≤ runeCount s then .ok orig
      else .ok (.str (if left then encodeAll (List.replicate (w - runeCount s).toNat c) ++ s
                      else s ++ encodeAll (List.replicate (w - runeCount s).toNat c))) := by
  unfold padWith
  simp only [runeCount_encodeRune c hc]
  have a1 : ¬ w < 0 := by omega
  by_cases hle : w ≤ runeCount s
  · have a2 : w - (runeCount s : Int) ≤ 0 := by omega
    simp [a1, a2, hle]
  · have a2 : ¬ (w - (runeCount s : Int) ≤ 0) := by omega
    have a3 : ¬ ((w - (runeCount s : Int)).toNat > padLimit) := by omega
    simp only [a1, a2, a3, hle, if_false, ne_eq, not_true_eq_false, C11.pad_string]

/-- the first byte of a well-formed encoding is not a continuation byte -/
theorem encodeAll_head (c : Nat) (cs : List Nat) (hc : isScalar c = true) :
    ∃ b0 t, encodeAll (c :: cs) = b0 :: t ∧ isCont b0 = false := by
  obtain ⟨b0, t, e, h0, _⟩ := encodeRune_shape c hc
  exact ⟨b0, t ++ encodeAll cs, by rw [encodeAll_cons, e]; rfl, h0⟩

/-- **the padded string has exactly `w` code points — for ANY subject**: its code points are the pad characters
    followed (or preceded) by the code points of `s`; the pad characters do not merge with ill-formed bytes of `s` -/
theorem decodeAll_padded (left : Bool) (s : Bytes) (c : Nat) (hc : isScalar c = true) (n : Nat) :
    decodeAll (if left then encodeAll (List.replicate n c) ++ s else s ++ encodeAll (List.replicate n c))
      = if left then List.replicate n c ++ decodeAll s else decodeAll s ++ List.replicate n c := by
  have hr : Scalars (List.replicate n c) := Scalars.replicate hc n
  cases left with
  | true => simp only [if_true]; exact decodeAll_encodeAll_append _ hr s
  | false =>
    simp only [Bool.false_eq_true, if_false]
    match n with
    | 0 => simp [encodeAll_nil]
    | n + 1 =>
      obtain ⟨b0, t, e, h0⟩ := encodeAll_head c (List.replicate n c) hc
      rw [decodeAll_append]
      · congr 1; exact decodeAll_encodeAll _ hr
      · rw [List.replicate_succ, e]; exact noSpan_runeStart s b0 t h0

theorem runeCount_padded (left : Bool) (s : Bytes) (c : Nat) (hc : isScalar c = true) (w : Int)
    (hw : runeCount s < w) :
    runeCount (if left then encodeAll (List.replicate (w - runeCount s).toNat c) ++ s
               else s ++ encodeAll (List.replicate (w - runeCount s).toNat c)) = w.toNat := by
  unfold runeCount at hw ⊢
  rw [decodeAll_padded left s c hc]
  cases left <;> simp <;> omega

/-- `pad_left(bad, 6, 'x')`: `bad` has 4 positions (5 bytes), so TWO `x` are added -/
example : padWith true bad 6 [0x78] (.str bad) = .ok (.str ([0x78, 0x78] ++ bad)) := by
  have := padWith_any true bad 0x78 (by decide) 6 (by decide) (by decide) (.str bad)
  rw [show encodeRune 0x78 = [0x78] from rfl] at this
  rw [this]; rfl

/-! ### `find_first` / `find_last` -/

theorem isPrefixOf_head {p s : Bytes} (h : p <+: s) {b0 : Nat} {t : Bytes} (hp : p = b0 :: t) :
    ∃ t', s = b0 :: t' := by
  obtain ⟨r, rfl⟩ := h
  exact ⟨t ++ r, by rw [hp]; rfl⟩

/-- **a match never starts inside a code point.**  If the pattern `p` starts with a byte that is not a continuation
    byte (true of every non-empty valid UTF-8 pattern) and occurs in `s` at byte offset `off`, then `off` is a boundary
    between decoding steps of `s`: the steps of `s` are those of the bytes before `off` followed by those from `off`
    on.  So the number reported, `runeCount (s.take off)`, is the number of pieces of `s` wholly before the match —
    each ill-formed byte before the match counting ONE. -/
theorem match_at_boundary (s p : Bytes) (off : Nat) (b0 : Nat) (t : Bytes) (hp : p = b0 :: t)
    (hb : isCont b0 = false) (hm : p <+: s.drop off) :
    steps s = steps (s.take off) ++ steps (s.drop off) := by
  obtain ⟨t', e⟩ := isPrefixOf_head hm hp
  conv => lhs; rw [← List.take_append_drop off s]
  apply steps_append
  rw [e]; exact noSpan_runeStart _ b0 t' hb

/-- `find_first(s, p)` on ANY subject, `p` starting with a non-continuation byte: the code point position of the
    first occurrence — `null` when there is none -/
theorem findFirst_any (s p : Bytes) (b0 : Nat) (t : Bytes) (hp : p = b0 :: t) (hb : isCont b0 = false) :
    findFirst (.str s) (.str p) =
      (match indexOf s p with
      | none => .ok .null
      | some off => .ok (.num (.int .i64 (decodeAll (s.take off)).length))) ∧
    ∀ off, indexOf s p = some off →
      decodeAll s = decodeAll (s.take off) ++ decodeAll (s.drop off) ∧
      runePieces s = runePieces (s.take off) ++ runePieces (s.drop off) := by
  constructor
  · have hpe : p.isEmpty = false := by rw [hp]; rfl
    by_cases hs : s = []
    · subst hs
      have : indexOf [] p = none := by rw [hp]; rfl
      rw [this]; rfl
    · have hse : s.isEmpty = false := by cases s <;> simp_all
      show (if (s.isEmpty || p.isEmpty) = true then _ else _) = _
      rw [hse, hpe]
      cases indexOf s p <;> rfl
  · intro off h
    obtain ⟨_, hm, _⟩ := C11.indexOf_spec s p off h
    have := match_at_boundary s p off b0 t hp hb hm
    exact ⟨by rw [← steps_fst, this, List.map_append, steps_fst, steps_fst],
           by rw [← steps_snd, this, List.map_append, steps_snd, steps_snd]⟩

/-- `find_last(s, p)` likewise -/
theorem findLast_any (s p : Bytes) (b0 : Nat) (t : Bytes) (hp : p = b0 :: t) (hb : isCont b0 = false) :
    findLast (.str s) (.str p) =
      (match lastIndexOf s p with
      | none => .ok .null
      | some off => .ok (.num (.int .i64 (decodeAll (s.take off)).length))) ∧
    ∀ off, lastIndexOf s p = some off →
      decodeAll s = decodeAll (s.take off) ++ decodeAll (s.drop off) ∧
      runePieces s = runePieces (s.take off) ++ runePieces (s.drop off) := by
  constructor
  · have hpe : p.isEmpty = false := by rw [hp]; rfl
    by_cases hs : s = []
    · subst hs
      have : lastIndexOf [] p = none := by rw [hp]; rfl
      rw [this]; rfl
    · have hse : s.isEmpty = false := by cases s <;> simp_all
      show (if (s.isEmpty || p.isEmpty) = true then _ else _) = _
      rw [hse, hpe]
      cases lastIndexOf s p <;> rfl
  · intro off h
    obtain ⟨_, hm, _⟩ := C11.lastIndexOf_spec s p off h
    have := match_at_boundary s p off b0 t hp hb hm
    exact ⟨by rw [← steps_fst, this, List.map_append, steps_fst, steps_fst],
           by rw [← steps_snd, this, List.map_append, steps_snd, steps_snd]⟩

/-- "é" in `bad` = 61 FF C3 A9 C3: byte offset 2, position 2 ("a" and the ill-formed FF before it count one each) -/
example : indexOf bad [0xC3, 0xA9] = some 2 ∧
    findFirst (.str bad) (.str [0xC3, 0xA9]) = .ok (.num (.int .i64 2)) := ⟨by decide, by
  rw [(findFirst_any bad [0xC3, 0xA9] 0xC3 [0xA9] rfl (by decide)).1]; rfl⟩

/-- what the hypothesis on the pattern excludes: a pattern that starts with a continuation byte (not valid UTF-8, so not
    writable in an expression) can match INSIDE a code point — "A9" is found in "é" = C3 A9 at byte offset 1, and
    the prefix C3 counts as one (ill-formed) position -/
example : findFirst (.str [0xC3, 0xA9]) (.str [0xA9]) = .ok (.num (.int .i64 1)) := by rfl

/-! ## 4. TEXT level: `search` on expression text, the document being a string of ARBITRARY bytes

  Each expression text below is the printing of a concrete parse tree; `C17B.text` (through `C04G.parse_complete`) gives
  `search text d = evaluate (erase tree) d`.  For expressions with a numeric parameter or a literal the tree is
  parameterised by the TOKEN (an integer token for slice bounds, a JSON literal for a width, a raw string literal for a
  pad character or a pattern); the hypotheses `WellPrec …` and `C17B.Lexes e …` say that `e` is a text whose tokens are
  the tree's, and are discharged by `decide` for every concrete text (examples follow each theorem). -/

open Jmes.Grammar

def tCur : Token := ⟨.current, Ex.bs "@"⟩
def fnTok (s : String) : Token := ⟨.unquotedIdentifier, Ex.bs s⟩
/-- `f(x)` -/
def call1 (f : String) (x : PTree) : PTree := .call (fnTok f) [x]
/-- `f(@, lit)` -/
def call2 (f : String) (t : Token) : PTree := .call (fnTok f) [.atom tCur, .atom t]
/-- `f(@, lit1, lit2)` -/
def call3 (f : String) (t1 t2 : Token) : PTree := .call (fnTok f) [.atom tCur, .atom t1, .atom t2]
/-- `@[a:b:c]` -/
def sliceT (a b : Option Token) (c : Option (Option Token)) : PTree := .slice (.atom tCur) a b c .icur

/-! ### (a) `length(@)` -/

/-- **`length(@)` on ANY string** is the number of decoding steps: each ill-formed byte counts exactly one -/
theorem length_text (s : Bytes) :
    search (Ex.bs "length(@)") (.str s) = .ok (.num (.int .i64 (decodeAll s).length)) := by
  rw [(C17B.text (t := call1 "length" (.atom tCur)) (by decide) (by decide)).2]
  rfl

/-- the same number, said with the pieces: `s` is the concatenation of `length(s)` non-empty pieces, one per step -/
theorem length_text_pieces (s : Bytes) :
    search (Ex.bs "length(@)") (.str s) = .ok (.num (.int .i64 (runePieces s).length)) ∧
    (runePieces s).flatten = s ∧ (∀ p ∈ runePieces s, 1 ≤ p.length ∧ p.length ≤ 4) ∧
    decodeAll s = (steps s).map Prod.fst ∧ runePieces s = (steps s).map Prod.snd ∧
    ∀ st ∈ steps s, StepOK st := by
  refine ⟨?_, pieces_flatten s, piece_length_le4 s, (steps_fst s).symm, (steps_snd s).symm,
    fun st h => stepOK_of_mem h⟩
  rw [length_text, C09.runePieces_length]; rfl

/-- 5 bytes, 4 positions -/
example : search (Ex.bs "length(@)") (.str bad) = .ok (.num (.int .i64 4)) := by rw [length_text]; rfl

/-! ### (c) `reverse(@)` -/

/-- **`reverse(@)` on ANY string**: the code points of the forward decoding, reversed and re-encoded -/
theorem reverse_text (s : Bytes) :
    search (Ex.bs "reverse(@)") (.str s) = .ok (.str (encodeAll (decodeAll s).reverse)) := by
  rw [(C17B.text (t := call1 "reverse" (.atom tCur)) (by decide) (by decide)).2]
  exact reverse_any s

example : search (Ex.bs "reverse(@)") (.str bad)
    = .ok (.str [0xEF, 0xBF, 0xBD, 0xC3, 0xA9, 0xEF, 0xBF, 0xBD, 0x61]) := by
  rw [reverse_text]; exact ok_str (by decide)

theorem eval_call1_call1 (f g : Fn) (d : Val) :
    evaluate (.call f [.call g [.current]]) d = (applyFn g [d] >>= fun v => applyFn f [v]) := by
  simp [evaluate, ieval, ievalList, Res.bind_assoc]

/-- **`length(reverse(@)) = length(@)` for ALL strings**, valid UTF-8 or not -/
theorem length_reverse_text (s : Bytes) :
    search (Ex.bs "length(reverse(@))") (.str s) = search (Ex.bs "length(@)") (.str s) := by
  rw [length_text, (C17B.text (t := call1 "length" (call1 "reverse" (.atom tCur))) (by decide) (by decide)).2]
  show evaluate (.call .length [.call .reverse [.current]]) (.str s) = _
  rw [eval_call1_call1]
  show (reverse (.str s) >>= fun v => applyFn .length [v]) = _
  rw [reverse_any]
  show length (.str _) = _
  rw [length_any, decodeAll_encodeAll _ (scalars_decodeAll s).reverse, List.length_reverse]

/-- **`reverse(reverse(@))` on ANY string** is the re-encoding of its code points: `s` with every ill-formed byte
    replaced by `EF BF BD` (see `reencode_pieces`) -/
theorem reverse_reverse_text (s : Bytes) :
    search (Ex.bs "reverse(reverse(@))") (.str s) = .ok (.str (encodeAll (decodeAll s))) := by
  rw [(C17B.text (t := call1 "reverse" (call1 "reverse" (.atom tCur))) (by decide) (by decide)).2]
  show evaluate (.call .reverse [.call .reverse [.current]]) (.str s) = _
  rw [eval_call1_call1]
  show (reverse (.str s) >>= fun v => applyFn .reverse [v]) = _
  rw [reverse_any]
  exact reverse_reverse_any s

/-- for VALID UTF-8 reversing twice is the identity … -/
theorem reverse_reverse_text_valid (s : Bytes) (h : validUTF8 s = true) :
    search (Ex.bs "reverse(reverse(@))") (.str s) = .ok (.str s) := by
  rw [reverse_reverse_text, (reencode_eq_iff s).2 h]

/-- … and ONLY for valid UTF-8 -/
theorem reverse_reverse_text_iff (s : Bytes) :
    search (Ex.bs "reverse(reverse(@))") (.str s) = .ok (.str s) ↔ validUTF8 s = true := by
  rw [reverse_reverse_text, ← reencode_eq_iff]
  constructor
  · intro h; injection h with h; injection h
  · intro h; rw [h]

/-- the counterexample: `bad` (5 bytes) comes back as 9 bytes, FF and the lone C3 having become `EF BF BD` -/
example : search (Ex.bs "reverse(reverse(@))") (.str bad)
      = .ok (.str [0x61, 0xEF, 0xBF, 0xBD, 0xC3, 0xA9, 0xEF, 0xBF, 0xBD]) ∧
    search (Ex.bs "reverse(reverse(@))") (.str bad) ≠ .ok (.str bad) := by
  refine ⟨by rw [reverse_reverse_text]; exact ok_str (by decide), ?_⟩
  rw [Ne, reverse_reverse_text_iff]; decide

/-! ### (b) slices `@[a:b]`, `@[a:b:c]` -/

theorem slice_str_shape (s : Bytes) (a b : Int) : ∃ r, slice (.str s) a b = .ok (.str r) := ⟨_, slice_any s a b⟩

theorem sliceStep_str_shape (s : Bytes) (a b c : Int) : ∃ r, sliceStep (.str s) a b c = .ok (.str r) := by
  unfold sliceStep
  simp only []
  split
  · exact ⟨_, rfl⟩
  · split <;> exact ⟨_, rfl⟩

/-- the text of a slice of `@`, applied to a string, computes the value-level slice of that string (the projection that
    a slice opens does not map over a string) -/
theorem slice_text (a b : Option Token) (c : Option (Option Token)) (e : Bytes)
    (hwp : WellPrec (sliceT a b c)) (hl : C17B.Lexes e (Grammar.flatten (sliceT a b c))) (s : Bytes) :
    search e (.str s) = C17B.sliceVal a b c (.str s) := by
  rw [(C17B.text hwp hl).2]
  show ieval (.str s) (C17B.Opener.node0 (.slice a b c) .current) (.str s) [] = _
  rw [C17B.Opener.ieval_node0]
  show C17B.Opener.sem0 (.slice a b c) (.str s) [] (.str s) = _
  unfold C17B.Opener.sem0
  simp only []
  have : ∃ r, C17B.sliceVal a b c (.str s) = .ok (.str r) := by
    unfold C17B.sliceVal
    simp only []
    split
    · exact slice_str_shape s _ _
    · exact sliceStep_str_shape s _ _ _
  obtain ⟨r, hr⟩ := this
  rw [hr]; rfl

/-- **`@[a:b]` on ANY string** (`ta`, `tb` the integer tokens of the bounds `ia`, `ib`): the bounds are clamped against the
    number of pieces of `s` (`clamp1`, inside `subPieces`) and the result is the concatenation of pieces `a ≤ i < b` —
    the original bytes; an ill-formed byte is one position and is copied unchanged -/
theorem slice1_text (ta tb : Token) (ia ib : Int) (ha : intOf ta = some ia) (hb : intOf tb = some ib) (e : Bytes)
    (hwp : WellPrec (sliceT (some ta) (some tb) none))
    (hl : C17B.Lexes e (Grammar.flatten (sliceT (some ta) (some tb) none))) (s : Bytes) :
    search e (.str s) = .ok (.str (subPieces (runePieces s) ia ib).flatten) := by
  rw [slice_text _ _ _ e hwp hl s]
  simp only [C17B.sliceVal, Option.bind, ha, hb, Option.getD, if_true]
  exact slice_any s ia ib

/-- `@[1:3]` of `bad`: positions 1 and 2 — the ill-formed byte FF and "é" -/
example : search (Ex.bs "@[1:3]") (.str bad) = .ok (.str [0xFF, 0xC3, 0xA9]) := by
  rw [slice1_text (Ex.int "1") (Ex.int "3") 1 3 (by decide) (by decide) _ (by decide) (by decide)]
  exact ok_str (by decide)

/-- open-ended forms `@[a:]` and `@[:b]` -/
theorem slice_from_text (ta : Token) (ia : Int) (ha : intOf ta = some ia) (e : Bytes)
    (hwp : WellPrec (sliceT (some ta) none none))
    (hl : C17B.Lexes e (Grammar.flatten (sliceT (some ta) none none))) (s : Bytes) :
    search e (.str s) = .ok (.str (subPieces (runePieces s) ia maxInt).flatten) := by
  rw [slice_text _ _ _ e hwp hl s]
  simp only [C17B.sliceVal, Option.bind, ha, Option.getD, if_true]
  exact slice_any s ia _

theorem slice_to_text (tb : Token) (ib : Int) (hb : intOf tb = some ib) (e : Bytes)
    (hwp : WellPrec (sliceT none (some tb) none))
    (hl : C17B.Lexes e (Grammar.flatten (sliceT none (some tb) none))) (s : Bytes) :
    search e (.str s) = .ok (.str (subPieces (runePieces s) 0 ib).flatten) := by
  rw [slice_text _ _ _ e hwp hl s]
  simp only [C17B.sliceVal, Option.bind, hb, Option.getD, if_true]
  exact slice_any s 0 ib

/-- `@[-1:]` of `bad`: the last position is the truncated sequence C3 -/
example : search (Ex.bs "@[-1:]") (.str bad) = .ok (.str [0xC3]) := by
  rw [slice_from_text (Ex.int "-1") (-1) (by decide) _ (by decide) (by decide)]
  exact ok_str (by decide)

/-- **`@[a:b:c]` on ANY string**, `c ∉ {0, 1}` (`tc` the integer token of the step; absent bounds default to the ends
    in the direction of the step): the selected CODE POINTS of `decodeAll s`, re-encoded — a selected ill-formed
    byte comes out as `EF BF BD` -/
theorem sliceStep_text (a b : Option Token) (tc : Token) (ic : Int) (hc : intOf tc = some ic) (h0 : ic ≠ 0)
    (h1 : ic ≠ 1) (e : Bytes) (hwp : WellPrec (sliceT a b (some (some tc))))
    (hl : C17B.Lexes e (Grammar.flatten (sliceT a b (some (some tc))))) (s : Bytes) :
    search e (.str s) = .ok (.str (encodeAll (C11.stepCodepointsRaw (decodeAll s)
      ((a.bind intOf).getD (if ic < 0 then maxInt else 0))
      ((b.bind intOf).getD (if ic < 0 then minInt else maxInt)) ic))) := by
  rw [slice_text _ _ _ e hwp hl s]
  simp only [C17B.sliceVal, Option.bind, hc, Option.getD, h1, if_false]
  exact sliceStep_any s _ _ ic h0

/-- `@[::2]` of `bad`: positions 0 and 2;  `@[::-1]`: all four positions backwards, re-encoded (= `reverse(@)`) -/
example : search (Ex.bs "@[::2]") (.str bad) = .ok (.str [0x61, 0xC3, 0xA9]) := by
  rw [sliceStep_text none none (Ex.int "2") 2 (by decide) (by decide) (by decide) _ (by decide) (by decide)]
  exact ok_str (by decide)
example : search (Ex.bs "@[::-1]") (.str bad) = .ok (.str [0xEF, 0xBF, 0xBD, 0xC3, 0xA9, 0xEF, 0xBF, 0xBD, 0x61]) := by
  rw [sliceStep_text none none (Ex.int "-1") (-1) (by decide) (by decide) (by decide) _ (by decide) (by decide)]
  exact ok_str (by decide)

/-! ### (f) `split(@, '')` -/

def tEmptyStr : Token := ⟨.stringLiteral, Ex.bs "''"⟩

/-- **`split(@, '')` on ANY string**: the array of the pieces `runePieces s` — one element per decoding step, original
    bytes (an ill-formed byte is an element of its own); their concatenation is `s` and there are `length(s)` of them -/
theorem split_empty_text (s : Bytes) :
    search (Ex.bs "split(@, '')") (.str s) = .ok (strsToArr (runePieces s)) ∧
    (runePieces s).flatten = s ∧ (runePieces s).length = (decodeAll s).length := by
  refine ⟨?_, pieces_flatten s, C09.runePieces_length s⟩
  rw [(C17B.text (t := call2 "split" tEmptyStr) (by decide) (by decide)).2]
  exact split_empty_sep_any s

example : search (Ex.bs "split(@, '')") (.str bad)
    = .ok (.arr .plain [.str [0x61], .str [0xFF], .str [0xC3, 0xA9], .str [0xC3]]) := by
  rw [(split_empty_text bad).1]; rfl

/-! ### (e) `pad_left(@, w, 'c')`, `pad_right(@, w, 'c')` -/

theorem erase_pad (left : Bool) (tw tp : Token) (wv pv : Val) (h1 : atomNode tw = some (.lit wv))
    (h2 : atomNode tp = some (.lit pv)) :
    erase (call3 (if left then "pad_left" else "pad_right") tw tp)
      = .call (if left then .padLeft else .padRight) [.current, .lit wv, .lit pv] := by
  cases left
  · have : Parser.lookupBuiltin (fnTok "pad_right").value = some (.fixed 2 3
        (fun a => if a.length = 2 then .call .padSpaceRight a else .call .padRight a)) := rfl
    simp only [call3, erase, this, eraseL, h1, h2, callNode, Option.getD, Bool.false_eq_true, if_false]
    rfl
  · have : Parser.lookupBuiltin (fnTok "pad_left").value = some (.fixed 2 3
        (fun a => if a.length = 2 then .call .padSpaceLeft a else .call .padLeft a)) := rfl
    simp only [call3, erase, this, eraseL, h1, h2, callNode, Option.getD, if_true]
    rfl

theorem eval_pad (left : Bool) (wv pv d : Val) :
    evaluate (.call (if left then .padLeft else .padRight) [.current, .lit wv, .lit pv]) d
      = if left then padLeft d wv pv else padRight d wv pv := by
  cases left <;> simp [evaluate, ieval, ievalList, applyFn]

/-- **`pad_left(@, w, 'c')` / `pad_right(@, w, 'c')` on ANY string** (`tw` a literal token denoting a value `wv` that the
    integer coercion reads as `w ≥ 0`; `tp` a literal token denoting the one-code-point string `c`): a subject that
    already has `w` code points or more — ill-formed bytes counting one each — is returned unchanged; otherwise exactly
    `w - length(s)` pad characters are added, the bytes of `s` are untouched, and the result has exactly `w` code
    points -/
theorem pad_text (left : Bool) (tw tp : Token) (wv : Val) (w : Int) (c : Nat)
    (h1 : atomNode tw = some (.lit wv)) (hw : intArg wv = .ok w) (h2 : atomNode tp = some (.lit (.str (encodeRune c))))
    (hc : isScalar c = true) (e : Bytes)
    (hwp : WellPrec (call3 (if left then "pad_left" else "pad_right") tw tp))
    (hl : C17B.Lexes e (Grammar.flatten (call3 (if left then "pad_left" else "pad_right") tw tp)))
    (s : Bytes) (hw0 : 0 ≤ w) (hlim : w - runeCount s ≤ padLimit) :
    search e (.str s) =
      (if w ≤ runeCount s then .ok (.str s)
       else .ok (.str (if left then encodeAll (List.replicate (w - runeCount s).toNat c) ++ s
                       else s ++ encodeAll (List.replicate (w - runeCount s).toNat c)))) ∧
    (runeCount s < w →
      runeCount (if left then encodeAll (List.replicate (w - runeCount s).toNat c) ++ s
                 else s ++ encodeAll (List.replicate (w - runeCount s).toNat c)) = w.toNat) := by
  refine ⟨?_, runeCount_padded left s c hc w⟩
  rw [(C17B.text hwp hl).2, erase_pad left tw tp _ _ h1 h2, eval_pad]
  have := padWith_any left s c hc w hw0 hlim (.str s)
  cases left
  · simp only [Bool.false_eq_true, if_false] at this ⊢
    rw [← this]
    simp only [padRight, strArg, hw, Res.ok_bind, Res.bind]
  · simp only [if_true] at this ⊢
    rw [← this]
    simp only [padLeft, strArg, hw, Res.ok_bind, Res.bind]

def tSix : Token := ⟨.jsonLiteral, Ex.bs "`6`"⟩
def tX : Token := ⟨.stringLiteral, Ex.bs "'x'"⟩

/-- ``pad_left(@, `6`, 'x')`` of `bad` (4 positions in 5 bytes): TWO `x` are added in front (a byte count would add one);
    ``pad_right(@, `6`, 'x')``: two `x` behind — the truncated sequence C3 at the end of `bad` stays one position -/
example : search (Ex.bs "pad_left(@, `6`, 'x')") (.str bad) = .ok (.str ([0x78, 0x78] ++ bad)) := by
  have := (pad_text true tSix tX (.num (.jnum [0x36])) 6 0x78 rfl (C11B.intArg_jnum (by decide)) rfl (by decide)
    (Ex.bs "pad_left(@, `6`, 'x')") (by decide) (by decide +kernel) bad (by decide) (by decide)).1
  rw [this]; exact ok_str (by decide)
example : search (Ex.bs "pad_right(@, `6`, 'x')") (.str bad) = .ok (.str (bad ++ [0x78, 0x78])) := by
  have := (pad_text false tSix tX (.num (.jnum [0x36])) 6 0x78 rfl (C11B.intArg_jnum (by decide)) rfl (by decide)
    (Ex.bs "pad_right(@, `6`, 'x')") (by decide) (by decide +kernel) bad (by decide) (by decide)).1
  rw [this]; exact ok_str (by decide)

/-! ### (d) `find_first(@, 'p')`, `find_last(@, 'p')` -/

theorem erase_find (last : Bool) (tp : Token) (pv : Val) (h : atomNode tp = some (.lit pv)) :
    erase (call2 (if last then "find_last" else "find_first") tp)
      = .call (if last then .findLast else .findFirst) [.current, .lit pv] := by
  cases last
  · have : Parser.lookupBuiltin (fnTok "find_first").value = some (.fixed 2 4 (fun a => match a.length with
        | 2 => .call .findFirst a | 3 => .call .findFirstFrom a | _ => .call .findFirstBetween a)) := rfl
    simp only [call2, erase, this, eraseL, h, callNode, Option.getD, Bool.false_eq_true, if_false]
    rfl
  · have : Parser.lookupBuiltin (fnTok "find_last").value = some (.fixed 2 4 (fun a => match a.length with
        | 2 => .call .findLast a | 3 => .call .findLastFrom a | _ => .call .findLastBetween a)) := rfl
    simp only [call2, erase, this, eraseL, h, callNode, Option.getD, if_true]
    rfl

theorem eval_find (last : Bool) (pv d : Val) :
    evaluate (.call (if last then .findLast else .findFirst) [.current, .lit pv]) d
      = if last then findLast d pv else findFirst d pv := by
  cases last <;> simp [evaluate, ieval, ievalList, applyFn]

/-- **`find_first(@, 'p')` on ANY string**, `tp` a literal token denoting a pattern `p` whose first byte is not a
    continuation byte (every non-empty literal of an expression: the lexer only lets valid UTF-8 through).  When `p`
    first occurs at byte offset `off`, the answer is the number of code points of the bytes before `off`; `off` is
    always a boundary between decoding steps of `s` (second part), so this is the number of pieces of `s` that lie
    before the match, each ill-formed byte among them counting one. -/
theorem find_first_text (tp : Token) (p : Bytes) (b0 : Nat) (t : Bytes) (h : atomNode tp = some (.lit (.str p)))
    (hp : p = b0 :: t) (hb : isCont b0 = false) (e : Bytes) (hwp : WellPrec (call2 "find_first" tp))
    (hl : C17B.Lexes e (Grammar.flatten (call2 "find_first" tp))) (s : Bytes) :
    search e (.str s) =
      (match indexOf s p with
       | none => .ok .null
       | some off => .ok (.num (.int .i64 (decodeAll (s.take off)).length))) ∧
    ∀ off, indexOf s p = some off →
      decodeAll s = decodeAll (s.take off) ++ decodeAll (s.drop off) ∧
      runePieces s = runePieces (s.take off) ++ runePieces (s.drop off) := by
  refine ⟨?_, (findFirst_any s p b0 t hp hb).2⟩
  have he := erase_find false tp _ h
  have hv := eval_find false (.str p) (.str s)
  simp only [Bool.false_eq_true, if_false] at he hv
  rw [(C17B.text hwp hl).2, he, hv]
  exact (findFirst_any s p b0 t hp hb).1

/-- `find_last(@, 'p')` likewise, with the LAST occurrence -/
theorem find_last_text (tp : Token) (p : Bytes) (b0 : Nat) (t : Bytes) (h : atomNode tp = some (.lit (.str p)))
    (hp : p = b0 :: t) (hb : isCont b0 = false) (e : Bytes) (hwp : WellPrec (call2 "find_last" tp))
    (hl : C17B.Lexes e (Grammar.flatten (call2 "find_last" tp))) (s : Bytes) :
    search e (.str s) =
      (match lastIndexOf s p with
       | none => .ok .null
       | some off => .ok (.num (.int .i64 (decodeAll (s.take off)).length))) ∧
    ∀ off, lastIndexOf s p = some off →
      decodeAll s = decodeAll (s.take off) ++ decodeAll (s.drop off) ∧
      runePieces s = runePieces (s.take off) ++ runePieces (s.drop off) := by
  refine ⟨?_, (findLast_any s p b0 t hp hb).2⟩
  have he := erase_find true tp _ h
  have hv := eval_find true (.str p) (.str s)
  simp only [if_true] at he hv
  rw [(C17B.text hwp hl).2, he, hv]
  exact (findLast_any s p b0 t hp hb).1

/-- stated with a split of the subject: if `s = pre ++ rest`, the first match is at byte offset `|pre|`, the answer
    is the number of code points of `pre` — and `decodeAll (pre ++ rest) = decodeAll pre ++ decodeAll rest` -/
theorem find_first_text_split (tp : Token) (p : Bytes) (b0 : Nat) (t : Bytes)
    (h : atomNode tp = some (.lit (.str p))) (hp : p = b0 :: t) (hb : isCont b0 = false) (e : Bytes)
    (hwp : WellPrec (call2 "find_first" tp)) (hl : C17B.Lexes e (Grammar.flatten (call2 "find_first" tp)))
    (pre rest : Bytes) (hi : indexOf (pre ++ rest) p = some pre.length) :
    search e (.str (pre ++ rest)) = .ok (.num (.int .i64 (decodeAll pre).length)) ∧
    decodeAll (pre ++ rest) = decodeAll pre ++ decodeAll rest := by
  obtain ⟨h1, h2⟩ := find_first_text tp p b0 t h hp hb e hwp hl (pre ++ rest)
  have := (h2 _ hi).1
  rw [hi] at h1
  simp only [List.take_left, List.drop_left] at h1 this
  exact ⟨h1, this⟩

def tEacute : Token := ⟨.stringLiteral, 0x27 :: 0xC3 :: 0xA9 :: [0x27]⟩
/-- the text `find_first(@, 'é')` (UTF-8: the `é` is the two bytes C3 A9) -/
def findEacute : Bytes := Ex.bs "find_first(@, '" ++ [0xC3, 0xA9] ++ Ex.bs "')"

/-- `find_first(@, 'é')` on `bad` = 61 FF C3 A9 C3: the match is at byte offset 2 and the answer is 2 — "a" and the
    ill-formed byte FF before it count one position each -/
example : search findEacute (.str bad) = .ok (.num (.int .i64 2)) := by
  have := (find_first_text tEacute [0xC3, 0xA9] 0xC3 [0xA9] rfl rfl (by decide) findEacute (by decide)
    (by decide +kernel) bad).1
  rw [this]; rfl

/-- an ill-formed multi-byte prefix before the match: E2 82 (a truncated "€") is TWO positions, so "é" is found at
    position 2 although it is at byte offset 2 as well; with the complete "€" = E2 82 AC it is at position 1, byte offset 3 -/
example : search findEacute (.str [0xE2, 0x82, 0xC3, 0xA9]) = .ok (.num (.int .i64 2)) ∧
    search findEacute (.str [0xE2, 0x82, 0xAC, 0xC3, 0xA9]) = .ok (.num (.int .i64 1)) := by
  have h := fun s => (find_first_text tEacute [0xC3, 0xA9] 0xC3 [0xA9] rfl rfl (by decide) findEacute (by decide)
    (by decide +kernel) s).1
  rw [h, h]; exact ⟨rfl, rfl⟩

end Jmes.C11E.Inv
