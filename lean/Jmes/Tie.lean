/-
  Tie #1 (DESIGN.md §2.4): the facts regenerated from /repo's working tree on every run
  (Jmes/Generated/*.lean, written by harness/cmd/facts) agree with the hand-written model and with the
  recorded expectations.  A changed binding power, a new write to shared memory, a changed error mapping or a
  changed numeric type switch breaks one of these proof obligations before any random input has to hit it.
  The tag in brackets lists the properties an obligation serves.
-/
import Jmes.Generated.Tables
import Jmes.Generated.Effects
import Jmes.Model.Api
namespace Jmes.Tie
open Jmes.Generated

def tokOfName : String → Option TokenType
  | "UnknownToken" => some .unknown
  | "EndToken" => some .«end»
  | "OpenBraceToken" => some .openBrace
  | "CloseBraceToken" => some .closeBrace
  | "OpenParenToken" => some .openParen
  | "CloseParenToken" => some .closeParen
  | "OpenSqBraceToken" => some .openSqBrace
  | "CloseSqBraceToken" => some .closeSqBrace
  | "AddToken" => some .add
  | "AndToken" => some .and
  | "ArrayWildcardToken" => some .arrayWildcard
  | "AssignToken" => some .assign
  | "AsteriskToken" => some .asterisk
  | "ColonToken" => some .colon
  | "CommaToken" => some .comma
  | "DivideToken" => some .divide
  | "DotToken" => some .dot
  | "EqualToken" => some .equal
  | "FilterToken" => some .filter
  | "FlattenToken" => some .flatten
  | "InToken" => some .«in»
  | "GreaterToken" => some .greater
  | "GreaterOrEqualToken" => some .greaterOrEqual
  | "IntegerDivideToken" => some .integerDivide
  | "LessToken" => some .less
  | "LessOrEqualToken" => some .lessOrEqual
  | "LetToken" => some .«let»
  | "ModuloToken" => some .modulo
  | "MultiplyToken" => some .multiply
  | "NotToken" => some .not
  | "NotEqualToken" => some .notEqual
  | "ObjectWildcardToken" => some .objectWildcard
  | "OrToken" => some .or
  | "PipeToken" => some .pipe
  | "SubtractToken" => some .subtract
  | "CurrentToken" => some .current
  | "ExpressionToken" => some .expression
  | "IntegerLiteralToken" => some .integerLiteral
  | "JSONLiteralToken" => some .jsonLiteral
  | "QuotedIdentifierToken" => some .quotedIdentifier
  | "RootToken" => some .root
  | "UnquotedIdentifierToken" => some .unquotedIdentifier
  | "StringLiteralToken" => some .stringLiteral
  | "VariableToken" => some .variable
  | _ => none

/-- equal as sets: the order of the cases of a Go type switch / rune switch carries no meaning -/
def sameSet {α} [BEq α] (a b : List α) : Bool := a.all (b.contains ·) && b.all (a.contains ·)

def allTokens : List TokenType := [.unknown, .«end», .openBrace, .closeBrace, .openParen, .closeParen, .openSqBrace, .closeSqBrace, .add, .and, .arrayWildcard, .assign, .asterisk, .colon, .comma, .divide, .dot, .equal, .filter, .flatten, .«in», .greater, .greaterOrEqual, .integerDivide, .less, .lessOrEqual, .«let», .modulo, .multiply, .not, .notEqual, .objectWildcard, .or, .pipe, .subtract, .current, .expression, .integerLiteral, .jsonLiteral, .quotedIdentifier, .root, .unquotedIdentifier, .stringLiteral, .variable]

set_option maxRecDepth 100000

/-- [C01, C04, C10] every row of Go's `precedence` switch is the model's binding power -/
theorem precedence_rows :
    precedenceTable.all (fun r => match tokOfName r.1 with
      | some t => precedence t == r.2
      | none => false) = true := by decide

/-- [C01, C04, C10] …and every token the Go switch does not list has binding power 0 in the model -/
theorem precedence_default :
    allTokens.all (fun t => precedenceTable.any (fun r => tokOfName r.1 == some t) || precedence t == 0) = true := by decide

/-- [C01, C17] one projection power, used by every call of `parser.projection` -/
theorem projection_power :
    (Generated.projectionPrecedence == Jmes.projectionPrecedence
      && projectionCalls.all (fun c => c.2 == "projectionPrecedence")) = true := by decide

/-- [C04] the token kinds of token.go are exactly the model's -/
theorem token_kinds : (tokenTypes.map tokOfName == allTokens.map some) = true := by decide

/-- shape of a Go argument parser -/
def argShape : String → Option (Nat × Option Nat × Nat)   -- (min, max, special: 0 none, 1 exp, 2 map, 3 var)
  | "function1Arg" => some (1, some 1, 0)
  | "function1To2Arg" => some (1, some 2, 0)
  | "function2Arg" => some (2, some 2, 0)
  | "function2To3Arg" => some (2, some 3, 0)
  | "function2To4Arg" => some (2, some 4, 0)
  | "function3To4Arg" => some (3, some 4, 0)
  | "function2ExpArg" => some (2, some 2, 1)
  | "function2MapArg" => some (2, some 2, 2)
  | "functionVarArg" => some (1, none, 3)
  | _ => none

def specShape : Parser.ArgSpec → Nat × Option Nat × Nat
  | .fixed mn mx _ => (mn, some mx, 0)
  | .expArg _ => (2, some 2, 1)
  | .mapArg _ => (2, some 2, 2)
  | .varArg _ => (1, none, 3)

/-- [C02, C08] the builtin table: same names in the same order, same arity class for each -/
theorem builtin_names : (builtins.map (fun r => r.2.1) == Parser.builtinTable.map (·.1)) = true := by decide

/-- [C02, C08] arity classes -/
theorem builtin_arities :
    builtins.all (fun r => match Parser.lookupBuiltin r.2.1, argShape r.2.2.1 with
      | some spec, some sh => specShape spec == sh
      | _, _ => false) = true := by decide

/-- name of the Go node type the model's constructor mirrors -/
def nodeName : INode → String
  | .call f _ => (match f with
    | .abs => "AbsNode" | .avg => "AvgNode" | .ceil => "CeilNode" | .contains => "ContainsNode" | .endsWith => "EndsWithNode"
    | .findFirst => "FindFirstNode" | .findFirstBetween => "FindFirstBetweenNode" | .findFirstFrom => "FindFirstFromNode"
    | .findLast => "FindLastNode" | .findLastBetween => "FindLastBetweenNode" | .findLastFrom => "FindLastFromNode"
    | .floor => "FloorNode" | .fromItems => "FromItemsNode" | .items => "ItemsNode" | .join => "JoinNode" | .keys => "KeysNode"
    | .length => "LengthNode" | .lower => "LowerNode" | .max => "MaxNode" | .min => "MinNode" | .padLeft => "PadLeftNode"
    | .padRight => "PadRightNode" | .padSpaceLeft => "PadSpaceLeftNode" | .padSpaceRight => "PadSpaceRightNode"
    | .replace => "ReplaceNode" | .replaceCount => "ReplaceCountNode" | .reverse => "ReverseNode" | .sort => "SortNode"
    | .split => "SplitNode" | .splitCount => "SplitCountNode" | .startsWith => "StartsWithNode" | .sum => "SumNode"
    | .toArray => "ToArrayNode" | .toNumber => "ToNumberNode" | .toString => "ToStringNode" | .trim => "TrimNode"
    | .trimLeft => "TrimLeftNode" | .trimRight => "TrimRightNode" | .trimSpace => "TrimSpaceNode"
    | .trimSpaceLeft => "TrimSpaceLeftNode" | .trimSpaceRight => "TrimSpaceRightNode" | .type => "TypeNode"
    | .upper => "UpperNode" | .values => "ValuesNode")
  | .groupBy .. => "GroupByNode" | .map .. => "MapNode" | .maxBy .. => "MaxByNode" | .minBy .. => "MinByNode"
  | .sortBy .. => "SortByNode" | .merge .. => "MergeNode" | .notNull .. => "NotNullNode" | .zip .. => "ZipNode"
  | _ => "?"

/-- the nodes the model builds for each accepted argument count -/
def builtNodes : Parser.ArgSpec → List String
  | .fixed mn mx mk => (List.range (mx + 1 - mn)).map (fun i => nodeName (mk (List.replicate (mn + i) .current)))
  | .expArg mk => [nodeName (mk .current .current)]
  | .mapArg mk => [nodeName (mk .current .current)]
  | .varArg mk => [nodeName (mk [.current])]

/-- [C02] for every builtin and every accepted argument count the model builds the node Go builds
    (Go's source lists them by increasing count, except that `trim…`/`pad…`/`split`/`replace` list the short form
    first as well — compared as sets in source order) -/
theorem builtin_nodes :
    builtins.all (fun r => match Parser.lookupBuiltin r.2.1 with
      | some spec => (builtNodes spec).all (fun n => r.2.2.2.contains n) && r.2.2.2.all (fun n => (builtNodes spec).contains n)
      | none => false) = true := by decide

/-- [C08] the error-mapping functions and every `Is` method are the recorded ones … -/
theorem parse_error_map : (parseErrorMap == [
  ("InvalidFunctionArgumentError", "invalidTypeError"),
  ("InvalidFunctionCallError", "invalidFunctionCallError"),
  ("InvalidSliceStepError", "invalidSliceStepError"),
  ("UnknownFunctionError", "unknownFunctionError"),
  ("<fallback>", "invalidExpressionError")]) = true := by decide

/-- [C08] evaluateError as recorded -/
theorem evaluate_error_map : (evaluateErrorMap == [
  ("ErrInvalidType", "invalidTypeError"),
  ("ErrInvalidValue", "invalidValueError"),
  ("ErrInfinity", "infinityError"),
  ("ErrNotANumber", "notANumberError"),
  ("UndefinedVariableError", "undefinedVariableError"),
  ("<fallback>", "evaluationFailedError")]) = true := by decide

/-- [C08] every Is method as recorded -/
theorem is_table : (isTable == [
  ("evaluator", "InvalidTypeError", "ErrInvalidType"),
  ("evaluator", "UndefinedVariableError", "ErrUndefinedVariable"),
  ("evaluator", "fromItemsKeyTypeError", "ErrInvalidValue"),
  ("evaluator", "fromItemsLengthError", "ErrInvalidValue"),
  ("evaluator", "integerConversionError", "ErrInvalidValue"),
  ("evaluator", "negativeIntegerError", "ErrInvalidValue"),
  ("evaluator", "padLengthError", "ErrInvalidValue"),
  ("jmespath", "evaluationFailedError", "ErrEvaluationFailed"),
  ("jmespath", "infinityError", "ErrNotANumber"),
  ("jmespath", "invalidExpressionError", "ErrSyntax"),
  ("jmespath", "invalidFunctionCallError", "ErrInvalidArity"),
  ("jmespath", "invalidSliceStepError", "ErrInvalidValue"),
  ("jmespath", "invalidTypeError", "ErrInvalidType"),
  ("jmespath", "invalidValueError", "ErrInvalidValue"),
  ("jmespath", "notANumberError", "ErrNotANumber"),
  ("jmespath", "undefinedVariableError", "ErrUndefinedVariable"),
  ("jmespath", "unknownFunctionError", "ErrUnknownFunction")]) = true := by decide

/-- which public sentinel an error type of package jmespath matches -/
def sentinelCat : String → Option Cat
  | "ErrSyntax" => some .syntax | "ErrInvalidArity" => some .arity | "ErrUnknownFunction" => some .unknownFunction
  | "ErrInvalidType" => some .invalidType | "ErrInvalidValue" => some .invalidValue | "ErrNotANumber" => some .notANumber
  | "ErrUndefinedVariable" => some .undefinedVariable | "ErrEvaluationFailed" => some .evaluationFailed
  | _ => none

def publicCat (ty : String) : Option Cat :=
  match isTable.find? (fun r => r.1 == "jmespath" && r.2.1 == ty) with
  | some r => sentinelCat r.2.2
  | none => none

def perrGoName : PErr → String
  | .invalidFunctionArgument => "InvalidFunctionArgumentError"
  | .invalidFunctionCall => "InvalidFunctionCallError"
  | .invalidSliceStep => "InvalidSliceStepError"
  | .unknownFunction => "UnknownFunctionError"
  | _ => "<fallback>"

/-- [C08] … and composing Go's `parseError` with the `Is` methods gives the model's `parseCat` for every parser error -/
theorem parse_cat_tie :
    [PErr.lex .invalidRune, .lex .unexpectedEnd, .lex (.unexpectedRune 0), .unexpectedToken, .invalidFunctionArgument,
     .invalidFunctionCall, .invalidSliceStep, .unknownFunction, .invalidIndex, .invalidJSONLiteral, .invalidQuotedString].all
      (fun e => match parseErrorMap.find? (fun r => r.1 == perrGoName e) with
        | some r => publicCat r.2 == some (parseCat e)
        | none => false) = true := by decide

/-- [C08] every public error type matches exactly one sentinel, and the evaluator's categories map as the model says -/
theorem evaluate_cat_tie :
    (evaluateErrorMap.map (fun r => publicCat r.2)
      == [some Cat.invalidType, some .invalidValue, some .notANumber, some .notANumber, some .undefinedVariable,
          some .evaluationFailed]) = true := by decide

/-- [C05, C14] the numeric type switches list the recorded kinds and call the recorded conversions: in particular the
    `json.Number`, integer and decimal cases of `toDecimal` call no float-typed function -/
theorem kind_cases : sameSet kindCases [
  ("toDecimal", ["decimal128.Decimal"], []),
  ("toDecimal", ["json.Number"], ["decimal128.Parse", "v.String"]),
  ("toDecimal", ["float32"], ["decimal128.FromFloat32"]),
  ("toDecimal", ["float64"], ["decimal128.FromFloat64"]),
  ("toDecimal", ["int8"], ["decimal128.FromInt32", "int32"]),
  ("toDecimal", ["int16"], ["decimal128.FromInt32", "int32"]),
  ("toDecimal", ["int32"], ["decimal128.FromInt32"]),
  ("toDecimal", ["int64"], ["decimal128.FromInt64"]),
  ("toDecimal", ["int"], ["decimal128.FromInt64", "int64"]),
  ("toDecimal", ["uint8"], ["decimal128.FromUint32", "uint32"]),
  ("toDecimal", ["uint16"], ["decimal128.FromUint32", "uint32"]),
  ("toDecimal", ["uint32"], ["decimal128.FromUint32"]),
  ("toDecimal", ["uint64"], ["decimal128.FromUint64"]),
  ("toDecimal", ["uint"], ["decimal128.FromUint64", "uint64"]),
  ("toFloat", ["float32"], ["float64"]),
  ("toFloat", ["float64"], []),
  ("toFloat", ["default"], []),
  ("toFloatPair", ["float32"], ["float64"]),
  ("toFloatPair", ["float64"], []),
  ("toFloatPair", ["default"], []),
  ("toFloatPair", ["float32"], ["float64"]),
  ("toFloatPair", ["float64"], []),
  ("toFloatPair", ["default"], []),
  ("toInt", ["decimal128.Decimal"], ["v.IsNaN", "v.Int64", "decimal128.FromInt64(i).Equal", "decimal128.FromInt64", "int"]),
  ("toInt", ["json.Number"], ["v.Int64", "decimal128.Parse", "v.String", "toInt", "v.Float64", "int"]),
  ("toInt", ["float32"], ["float64", "math.Floor", "float64", "int"]),
  ("toInt", ["float64"], ["math.Floor", "int"]),
  ("toInt", ["int8"], ["int"]),
  ("toInt", ["int16"], ["int"]),
  ("toInt", ["int32"], ["int"]),
  ("toInt", ["int64"], ["int"]),
  ("toInt", ["int"], []),
  ("toInt", ["uint8"], ["int"]),
  ("toInt", ["uint16"], ["int"]),
  ("toInt", ["uint32"], ["int"]),
  ("toInt", ["uint64"], ["int"]),
  ("toInt", ["uint"], ["int"]),
  ("isNumber", ["decimal128.Decimal"], []),
  ("isNumber", ["json.Number"], []),
  ("isNumber", ["float32"], []),
  ("isNumber", ["float64"], []),
  ("isNumber", ["int8"], []),
  ("isNumber", ["int16"], []),
  ("isNumber", ["int32"], []),
  ("isNumber", ["int64"], []),
  ("isNumber", ["int"], []),
  ("isNumber", ["uint8"], []),
  ("isNumber", ["uint16"], []),
  ("isNumber", ["uint32"], []),
  ("isNumber", ["uint64"], []),
  ("isNumber", ["uint"], []),
  ("isTrue", ["nil"], []),
  ("isTrue", ["[]any"], ["len"]),
  ("isTrue", ["map[string]any"], ["len"]),
  ("isTrue", ["bool"], []),
  ("isTrue", ["float32", "float64", "int8", "int16", "int32", "int64", "int", "uint8", "uint16", "uint32", "uint64", "uint", "decimal128.Decimal"], []),
  ("isTrue", ["string"], ["len"]),
  ("isTrue", ["json.Number"], ["len"]),
  ("typeName", ["[]any"], []),
  ("typeName", ["map[string]any"], []),
  ("typeName", ["bool"], []),
  ("typeName", ["decimal128.Decimal", "json.Number", "float32", "float64", "int8", "int16", "int32", "int64", "int", "uint8", "uint16", "uint32", "uint64", "uint"], []),
  ("typeName", ["string"], []),
  ("typeName", ["nil"], []),
  ("toNumber", ["decimal128.Decimal", "json.Number", "float32", "float64", "int8", "int16", "int32", "int64", "int", "uint8", "uint16", "uint32", "uint64", "uint"], []),
  ("toNumber", ["string"], ["isJSONNumber", "d.UnmarshalJSON", "[]byte"])] = true := by decide

/-- [C12] the node types a string slice is recognised by -/
theorem slice_nodes : (sliceNodes == ["SliceNode", "SliceCurrentNode", "SliceStepNode", "SliceStepCurrentNode"]) = true := by decide

/-! ### effects -/

def privatePart (p : String × String) : Bool :=
  p.1 == "alloc" || p.1 == "makeSlice" || p.1 == "makeMap" || p.1 == "fresh" || p.1 == "const" || p.1 == "zero"
  || p.1 == "scalar" || p.1 == "copy" || p.1 == "initGlobal"
  || (p.1 == "perCall" && (p.2 == "*lexer.Token" || p.2 == "*lexer.Lexer" || p.2 == "*parser.parser"
        || p.2 == "*parser.writeVisitor" || p.2 == "*evaluator.evaluator" || p.2 == "*strings.Builder"))
  -- the Swap methods of the two sort helpers write through the slices the helper was built from (next theorem)
  || (p.1 == "param" && (p.2 == "evaluator.sortByString" || p.2 == "evaluator.sortByNumber"))

/-- [C06, C07] every store, map update, append, copy, delete, clear and in-place sort of the four packages writes
    memory that the call itself allocated (or per-call parser/lexer state, or a package variable during init):
    nothing is written through a parameter of type `any`, `[]any`, `map[string]any`, `parser.Node`, `*Expression`
    or `*variableScope`, nor through anything loaded from one -/
theorem effects_private : effects.all (fun e => e.root.all privatePart) = true := by decide

/-- [C06, C07, C13] the sort helpers are built from `slices.Clone` / `make` only -/
theorem sort_helpers_fresh :
    (effects.filter (fun e => e.kind == "fieldInit:*evaluator.sortByString" || e.kind == "fieldInit:*evaluator.sortByNumber")).all
      (fun e => e.root.all (fun p => p.1 == "fresh" || p.1 == "makeSlice")) = true := by decide

/-- [C06, C07] package-level state: the recorded error sentinels and `indentBytes`, all written during init only
    (`effects_private` accepts stores to globals only with the `initGlobal` tag) -/
theorem globals_recorded : (globals == [
  ("jmespath", "ErrEvaluationFailed", "*error"),
  ("jmespath", "ErrInvalidArity", "*error"),
  ("jmespath", "ErrInvalidType", "*error"),
  ("jmespath", "ErrInvalidValue", "*error"),
  ("jmespath", "ErrNotANumber", "*error"),
  ("jmespath", "ErrSyntax", "*error"),
  ("jmespath", "ErrUndefinedVariable", "*error"),
  ("jmespath", "ErrUnknownFunction", "*error"),
  ("evaluator", "ErrInfinity", "*error"),
  ("evaluator", "ErrInvalidType", "*error"),
  ("evaluator", "ErrInvalidValue", "*error"),
  ("evaluator", "ErrNotANumber", "*error"),
  ("evaluator", "ErrUndefinedVariable", "*error"),
  ("lexer", "errInvalidRune", "*error"),
  ("lexer", "errUnexpectedEndOfExpression", "*error"),
  ("parser", "indentBytes", "*[]byte")]) = true := by decide

/-- [C07] no goroutine is started by the library -/
theorem no_go_statements : (goStatements == []) = true := by decide

/-- [C06] a compiled expression holds the AST and nothing else -/
theorem expression_fields : (expressionFields == [("node", "parser.Node")]) = true := by decide


/-! ### lexer -/

/-- [C04, C10, C16] the rune switch of `Lexer.Next` and the character-class conditions of its scanning helpers are the
    recorded ones (any added, removed or reordered case or look-ahead breaks this) -/
theorem lexer_cases_recorded : sameSet lexerCases [
  ([34], [], [], ["quotedIdentifier"]),
  ([36], [], [], ["variable"]),
  ([37], [], ["ModuloToken"], []),
  ([38], [38], ["AndToken", "ExpressionToken"], []),
  ([39], [], [], ["stringLiteral"]),
  ([40], [], ["OpenParenToken"], []),
  ([41], [], ["CloseParenToken"], []),
  ([42], [], ["AsteriskToken"], []),
  ([43], [], ["AddToken"], []),
  ([44], [], ["CommaToken"], []),
  ([45], [48, 57], ["SubtractToken"], ["numberLiteral"]),
  ([46], [42], ["ObjectWildcardToken", "DotToken"], []),
  ([47], [47], ["IntegerDivideToken", "DivideToken"], []),
  ([58], [], ["ColonToken"], []),
  ([60], [61], ["LessOrEqualToken", "LessToken"], []),
  ([61], [61], ["EqualToken", "AssignToken"], []),
  ([62], [61], ["GreaterOrEqualToken", "GreaterToken"], []),
  ([64], [], ["CurrentToken"], []),
  ([91], [42, 93, 63, 93], ["ArrayWildcardToken", "FilterToken", "FlattenToken", "OpenSqBraceToken"], []),
  ([93], [], ["CloseSqBraceToken"], []),
  ([96], [], [], ["jsonLiteral"]),
  ([123], [], ["OpenBraceToken"], []),
  ([124], [124], ["OrToken", "PipeToken"], []),
  ([125], [], ["CloseBraceToken"], []),
  ([215], [], ["MultiplyToken"], []),
  ([247], [], ["DivideToken"], []),
  ([8722], [], ["SubtractToken"], []),
  ([], [], [], ["r == '!'"]),
  ([], [61], ["NotEqualToken", "NotToken"], []),
  ([], [], [], ["r >= '0' && r <= '9'"]),
  ([], [], [], ["numberLiteral"]),
  ([], [], [], ["r >= 'A' && r <= 'Z' || r >= 'a' && r <= 'z' || r == '_'"]),
  ([], [], [], ["unquotedIdentifier"])] = true := by decide

/-- [C04, C16] conditions of the scanning helpers as recorded -/
theorem lexer_conds_recorded : sameSet lexerConds [
  ("numberLiteral", "err == nil && (r >= '0' && r <= '9')"),
  ("unquotedIdentifier", "err == nil && (r >= '0' && r <= '9' || r >= 'A' && r <= 'Z' || r >= 'a' && r <= 'z' || r == '_')"),
  ("unquotedIdentifier", "case \"in\""),
  ("unquotedIdentifier", "case \"let\""),
  ("variable", "err != nil || !(r >= 'A' && r <= 'Z' || r >= 'a' && r <= 'z' || r == '_')"),
  ("variable", "err == nil && (r >= '0' && r <= '9' || r >= 'A' && r <= 'Z' || r >= 'a' && r <= 'z' || r == '_')"),
  ("jsonLiteral", "err != nil"),
  ("jsonLiteral", "r == '`'"),
  ("jsonLiteral", "r == '\\\\'"),
  ("jsonLiteral", "err != nil"),
  ("quotedIdentifier", "err != nil"),
  ("quotedIdentifier", "r == '\"'"),
  ("quotedIdentifier", "r == '\\\\'"),
  ("quotedIdentifier", "err != nil"),
  ("stringLiteral", "err != nil"),
  ("stringLiteral", "r == '\\''"),
  ("stringLiteral", "r == '\\\\'"),
  ("stringLiteral", "err != nil"),
  ("decodeRune", "sz == 0"),
  ("decodeRune", "r == utf8.RuneError && sz == 1")] = true := by decide

/-- inputs that exercise every case of the switch: (input, token type, token length) -/
def lexProbes : List (Bytes × TokenType × Nat) := [
  ([37, 97], TokenType.modulo, 1),
  ([40, 97], TokenType.openParen, 1),
  ([41, 97], TokenType.closeParen, 1),
  ([42, 97], TokenType.asterisk, 1),
  ([43, 97], TokenType.add, 1),
  ([44, 97], TokenType.comma, 1),
  ([58, 97], TokenType.colon, 1),
  ([64, 97], TokenType.current, 1),
  ([93, 97], TokenType.closeSqBrace, 1),
  ([123, 97], TokenType.openBrace, 1),
  ([125, 97], TokenType.closeBrace, 1),
  ([195, 151, 97], TokenType.multiply, 2),
  ([195, 183, 97], TokenType.divide, 2),
  ([226, 136, 146, 97], TokenType.subtract, 3),
  ([38, 38, 97], TokenType.and, 2),
  ([38, 97], TokenType.expression, 1),
  ([46, 42, 97], TokenType.objectWildcard, 2),
  ([46, 97], TokenType.dot, 1),
  ([47, 47, 97], TokenType.integerDivide, 2),
  ([47, 97], TokenType.divide, 1),
  ([60, 61, 97], TokenType.lessOrEqual, 2),
  ([60, 97], TokenType.less, 1),
  ([61, 61, 97], TokenType.equal, 2),
  ([61, 97], TokenType.assign, 1),
  ([62, 61, 97], TokenType.greaterOrEqual, 2),
  ([62, 97], TokenType.greater, 1),
  ([124, 124, 97], TokenType.or, 2),
  ([124, 97], TokenType.pipe, 1),
  ([33, 61, 97], TokenType.notEqual, 2),
  ([33, 97], TokenType.not, 1),
  ([91, 42, 93, 97], TokenType.arrayWildcard, 3),
  ([91, 63, 97], TokenType.filter, 2),
  ([91, 93, 97], TokenType.flatten, 2),
  ([91, 97], TokenType.openSqBrace, 1),
  ([91, 42, 97], TokenType.openSqBrace, 1),
  ([45, 97], TokenType.subtract, 1),
  ([45, 49, 50, 97], TokenType.integerLiteral, 3),
  ([49, 50, 97], TokenType.integerLiteral, 2),
  ([48], TokenType.integerLiteral, 1),
  ([36], TokenType.root, 1),
  ([36, 46], TokenType.root, 1),
  ([36, 97, 49, 95, 32], TokenType.variable, 4),
  ([36, 49], TokenType.root, 1),
  ([97, 98, 99, 95, 57, 32], TokenType.unquotedIdentifier, 5),
  ([95, 120], TokenType.unquotedIdentifier, 2),
  ([105, 110, 32], TokenType.«in», 2),
  ([108, 101, 116, 32], TokenType.«let», 3),
  ([108, 101, 116, 115], TokenType.unquotedIdentifier, 4),
  ([105, 110, 110], TokenType.unquotedIdentifier, 3),
  ([34, 97, 92, 34, 98, 34, 32], TokenType.quotedIdentifier, 6),
  ([39, 97, 92, 39, 98, 39, 32], TokenType.stringLiteral, 6),
  ([96, 97, 92, 96, 98, 96, 32], TokenType.jsonLiteral, 6)]

/-- [C04, C10, C16] on every probe the model's `lexToken` produces that token with that extent -/
theorem lexer_model_probes :
    lexProbes.all (fun p => match lexToken p.1 with
      | .ok (t, n) => t.type == p.2.1 && n == p.2.2 && t.value == p.1.take p.2.2
      | .error _ => false) = true := by decide

/-- [C04] every token type the Go switch can produce is produced by the model on a probe starting with a rune of that case -/
theorem lexer_cases_covered :
    lexerCases.all (fun row => row.2.2.1.all (fun name =>
      lexProbes.any (fun p => tokOfName name == some p.2.1))) = true := by decide

end Jmes.Tie
