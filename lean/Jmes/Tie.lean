-- all tie modules (not part of the `Jmes` root: each is built and attributed separately by bin/vf)
import Jmes.Tie.Tokens
import Jmes.Tie.Builtins
import Jmes.Tie.Errors
import Jmes.Tie.Kinds
import Jmes.Tie.Effects
import Jmes.Tie.Lexer
import Jmes.Tie.Shape
