/-
  Mirror of /repo/internal/evaluator/slice.go. `start`, `stop`, `step` are Go `int`s (64-bit): the model works on
  `Int` with an explicit `wrap64` where the Go code can overflow (`step * -1`).
-/
import Jmes.Model.Object
namespace Jmes
open Res

def MaxInt : Int := 2 ^ 63 - 1
def MinInt : Int := -(2 ^ 63)

def wrap64 (i : Int) : Int := (i + 2 ^ 63) % 2 ^ 64 - 2 ^ 63

/-- clamp of `slice` (step 1): `none` = empty result, else `(start, stop)` with `0 ≤ start`, `stop ≤ l` -/
def clamp1 (l start stop : Int) : Option (Int × Int) :=
  let start? : Option Int :=
    if start < 0 then (if start < -l then some 0 else some (start + l))
    else if start ≥ l then none else some start
  match start? with
  | none => none
  | some start =>
    let stop? : Option Int :=
      if stop < 0 then (if stop < -l then none else some (stop + l))
      else if stop ≥ l then some l else some stop
    match stop? with
    | none => none
    | some stop => some (start, stop)

/-- clamp of `sliceStep`: `none` = empty result, else `(start, n)`: first index and number of elements -/
def clampStep (l start stop step : Int) : Option (Int × Int) :=
  if step > 0 then
    let start? : Option Int :=
      if start < 0 then (if start < -l then some 0 else some (start + l))
      else if start ≥ l then none else some start
    match start? with
    | none => none
    | some start =>
      let stop? : Option Int :=
        if stop < 0 then (if stop < -l then none else some (stop + l))
        else if stop > l then some l else some stop
      match stop? with
      | none => none
      | some stop =>
        if start ≥ stop then none
        else
          let c := stop - start
          let n := Int.tdiv c step
          some (start, if Int.tmod c step > 0 then n + 1 else n)
  else
    let start? : Option Int :=
      if start < 0 then (if start < -l then none else some (start + l))
      else if start ≥ l then some (l - 1) else some start
    match start? with
    | none => none
    | some start =>
      let stop? : Option Int :=
        if stop < 0 then (if stop < -l then some (-1) else some (stop + l))
        else if stop ≥ l then none else some stop
      match stop? with
      | none => none
      | some stop =>
        if start ≤ stop then none
        else
          let s := wrap64 (step * -1)
          let c := start - stop
          let n := Int.tdiv c s
          some (start, if Int.tmod c s > 0 then n + 1 else n)

/-- `r[i] = a[start + i*step]` for `i < n` -/
def pickStep (xs : List Val) (start step : Int) : Nat → List Val
  | 0 => []
  | n + 1 => xs.getD start.toNat .null :: pickStep xs (start + step) step n

def dropRunes : Nat → Bytes → Bytes
  | 0, s => s
  | n + 1, s => match s with
    | [] => []
    | _ => dropRunes n (s.drop (decodeRune s).2)

/-- total byte length of the first `n` runes of `s` -/
def runesLen : Nat → Bytes → Nat
  | 0, _ => 0
  | n + 1, s => match s with
    | [] => 0
    | _ => let sz := (decodeRune s).2; sz + runesLen n (s.drop sz)

def dropLastRunes : Nat → Bytes → Bytes
  | 0, s => s
  | n + 1, s => match s with
    | [] => []
    | _ => dropLastRunes n (s.take (s.length - (decodeLastRune s).2))

/-- forward walk of the string branch of `sliceStep`: take a rune, skip `step-1` (or to the end) -/
def walkFwd (step : Nat) : Nat → Bytes → Bytes
  | 0, _ => []
  | n + 1, s =>
    let (r, sz) := decodeRune s
    encodeRune r ++ walkFwd step n (dropRunes (step - 1) (s.drop sz))

def walkBwd (step : Nat) : Nat → Bytes → Bytes
  | 0, _ => []
  | n + 1, s =>
    let (r, sz) := decodeLastRune s
    encodeRune r ++ walkBwd step n (dropLastRunes (step - 1) (s.take (s.length - sz)))

def slice (v : Val) (start stop : Int) : Res Val :=
  match v with
  | .arr t xs =>
    match clamp1 xs.length start stop with
    | none => .ok (.arr .plain [])
    | some (a, b) =>
      if a ≥ b then .ok (.arr .plain [])
      else if enum2 t xs then .nondet
      else .ok (.arr .plain ((xs.drop a.toNat).take (b - a).toNat))
  | .str s =>
    match clamp1 (runeCount s) start stop with
    | none => .ok (.str [])
    | some (a, b) =>
      let s' := dropRunes a.toNat s
      .ok (.str (s'.take (runesLen (b - a).toNat s')))
  | _ => .ok .null

def sliceStep (v : Val) (start stop step : Int) : Res Val :=
  match v with
  | .arr t xs =>
    match clampStep xs.length start stop step with
    | none => .ok (.arr .plain [])
    | some (a, n) =>
      if enum2 t xs then .nondet
      else .ok (.arr .plain (pickStep xs a step n.toNat))
  | .str s =>
    let l : Int := runeCount s
    match clampStep l start stop step with
    | none => .ok (.str [])
    | some (a, n) =>
      if step > 0 then .ok (.str (walkFwd step.toNat n.toNat (dropRunes a.toNat s)))
      else .ok (.str (walkBwd (-step).toNat n.toNat (dropLastRunes (l - 1 - a).toNat s)))
  | _ => .ok .null

end Jmes
