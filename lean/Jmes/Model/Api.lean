/-
  Mirror of /repo/jmespath.go and errors.go: `Compile`, `Search`, the two error-mapping functions.
-/
import Jmes.Model.Parser
import Jmes.Model.Eval
namespace Jmes

/-- `parseError`: which public sentinel a parser error matches under `errors.Is` -/
def parseCat : PErr → Cat
  | .invalidFunctionArgument => .invalidType
  | .invalidFunctionCall => .arity
  | .invalidSliceStep => .invalidValue
  | .unknownFunction => .unknownFunction
  | _ => .syntax

/-- `Compile` -/
def compile (expr : Bytes) : Except PErr INode := Parser.parse expr

/-- `Search` / `Compile` followed by `Expression.Search` -/
def search (expr : Bytes) (data : Val) : Res Val :=
  match Parser.parse expr with
  | .error .fuel => .unmodelled "parser fuel"
  | .error e => .err [parseCat e]
  | .ok n => evaluate n data

end Jmes
