/-
  Mirror of /repo/internal/parser (parser.go, precedence.go).

  The Go parser pulls tokens from the lexer on demand with two tokens of look-ahead (`curr`, `next`); a lexical
  error surfaces when the offending token would be pulled.  The model pre-lexes (`lexAll`) and keeps the same
  window over the token list, so errors surface at the same moment.

  Recursion is bounded by explicit fuel (`Parser.fuelFor`).
-/
import Jmes.Model.Lexer
import Jmes.Model.Literal
import Jmes.Model.Node
import Jmes.Model.Number
namespace Jmes

inductive PErr where
  | lex (e : LexErr)
  | unexpectedToken
  | invalidFunctionArgument      -- → invalid-type
  | invalidFunctionCall          -- → invalid-arity
  | invalidSliceStep             -- → invalid-value
  | unknownFunction              -- → unknown-function
  | invalidIndex
  | invalidJSONLiteral
  | invalidQuotedString
  | fuel                         -- model artefact: recursion budget exhausted
  deriving Repr, DecidableEq

/-- precedence.go -/
def precedence : TokenType → Nat
  | .pipe => 2
  | .or => 3
  | .and => 4
  | .equal | .greater | .greaterOrEqual | .less | .lessOrEqual | .notEqual => 5
  | .add | .subtract => 6
  | .asterisk | .divide | .integerDivide | .modulo | .multiply => 7
  | .flatten => 8
  | .filter => 10
  | .dot | .objectWildcard => 11
  | .not => 12
  | .arrayWildcard | .openSqBrace => 13
  | _ => 0

/-- binding power at which the right-hand side of every projection is parsed -/
def projectionPrecedence : Nat := 9

structure PState where
  curr : Token
  next : Token
  rest : List Token
  lexErr : Option LexErr
  deriving Repr

abbrev PM := StateT PState (Except PErr)

namespace Parser

def fail {α} (e : PErr) : PM α := fun _ => .error e

/-- `lex.Next` -/
def pull : PM Token := fun s =>
  match s.rest with
  | t :: r => .ok (t, { s with rest := r })
  | [] => match s.lexErr with
    | some e => .error (.lex e)
    | none => .ok (⟨.end, []⟩, s)

def advance : PM Unit := do
  let s ← get
  set { s with curr := s.next }
  let t ← pull
  modify fun s => { s with next := t }

def advance2 : PM Unit := do
  let c ← pull
  modify fun s => { s with curr := c }
  let t ← pull
  modify fun s => { s with next := t }

def currType : PM TokenType := do return (← get).curr.type
def nextType : PM TokenType := do return (← get).next.type
def currValue : PM Bytes := do return (← get).curr.value

def binOpOf : TokenType → Option BinOp
  | .add => some .add
  | .subtract => some .sub
  | .asterisk | .multiply => some .mul
  | .divide => some .div
  | .integerDivide => some .idiv
  | .modulo => some .mod
  | .equal => some .eq
  | .notEqual => some .ne
  | .less => some .lt
  | .lessOrEqual => some .le
  | .greater => some .gt
  | .greaterOrEqual => some .ge
  | _ => none

def assocInsert (k : Bytes) (v : INode) : List (Bytes × INode) → List (Bytes × INode)
  | [] => [(k, v)]
  | (k', v') :: rest =>
    if k = k' then (k, v) :: rest
    else if bytesLt k k' then (k, v) :: (k', v') :: rest
    else (k', v') :: assocInsert k v rest

def bytesOfString (s : String) : Bytes := s.toUTF8.toList.map UInt8.toNat

inductive ArgSpec where
  | fixed (min max : Nat) (mk : List INode → INode)
  | varArg (mk : List INode → INode)
  | expArg (mk : INode → INode → INode)     -- f(array, &expr)
  | mapArg (mk : INode → INode → INode)     -- map(&expr, array)

def callN (f : Fn) : List INode → INode := fun args => .call f args

/-- the `switch name` of `parser.function`: builtin name (as bytes) and how its arguments are parsed -/
def builtinTable : List (Bytes × ArgSpec) := [
  -- abs
  ([0x61, 0x62, 0x73], .fixed 1 1 (callN .abs)),
  -- avg
  ([0x61, 0x76, 0x67], .fixed 1 1 (callN .avg)),
  -- ceil
  ([0x63, 0x65, 0x69, 0x6C], .fixed 1 1 (callN .ceil)),
  -- contains
  ([0x63, 0x6F, 0x6E, 0x74, 0x61, 0x69, 0x6E, 0x73], .fixed 2 2 (callN .contains)),
  -- ends_with
  ([0x65, 0x6E, 0x64, 0x73, 0x5F, 0x77, 0x69, 0x74, 0x68], .fixed 2 2 (callN .endsWith)),
  -- find_first
  ([0x66, 0x69, 0x6E, 0x64, 0x5F, 0x66, 0x69, 0x72, 0x73, 0x74], .fixed 2 4 (fun a => match a.length with
      | 2 => .call .findFirst a | 3 => .call .findFirstFrom a | _ => .call .findFirstBetween a)),
  -- find_last
  ([0x66, 0x69, 0x6E, 0x64, 0x5F, 0x6C, 0x61, 0x73, 0x74], .fixed 2 4 (fun a => match a.length with
      | 2 => .call .findLast a | 3 => .call .findLastFrom a | _ => .call .findLastBetween a)),
  -- floor
  ([0x66, 0x6C, 0x6F, 0x6F, 0x72], .fixed 1 1 (callN .floor)),
  -- from_items
  ([0x66, 0x72, 0x6F, 0x6D, 0x5F, 0x69, 0x74, 0x65, 0x6D, 0x73], .fixed 1 1 (callN .fromItems)),
  -- group_by
  ([0x67, 0x72, 0x6F, 0x75, 0x70, 0x5F, 0x62, 0x79], .expArg .groupBy),
  -- items
  ([0x69, 0x74, 0x65, 0x6D, 0x73], .fixed 1 1 (callN .items)),
  -- join
  ([0x6A, 0x6F, 0x69, 0x6E], .fixed 2 2 (callN .join)),
  -- keys
  ([0x6B, 0x65, 0x79, 0x73], .fixed 1 1 (callN .keys)),
  -- length
  ([0x6C, 0x65, 0x6E, 0x67, 0x74, 0x68], .fixed 1 1 (callN .length)),
  -- lower
  ([0x6C, 0x6F, 0x77, 0x65, 0x72], .fixed 1 1 (callN .lower)),
  -- map
  ([0x6D, 0x61, 0x70], .mapArg .map),
  -- max
  ([0x6D, 0x61, 0x78], .fixed 1 1 (callN .max)),
  -- max_by
  ([0x6D, 0x61, 0x78, 0x5F, 0x62, 0x79], .expArg .maxBy),
  -- merge
  ([0x6D, 0x65, 0x72, 0x67, 0x65], .varArg .merge),
  -- min
  ([0x6D, 0x69, 0x6E], .fixed 1 1 (callN .min)),
  -- min_by
  ([0x6D, 0x69, 0x6E, 0x5F, 0x62, 0x79], .expArg .minBy),
  -- not_null
  ([0x6E, 0x6F, 0x74, 0x5F, 0x6E, 0x75, 0x6C, 0x6C], .varArg .notNull),
  -- pad_left
  ([0x70, 0x61, 0x64, 0x5F, 0x6C, 0x65, 0x66, 0x74], .fixed 2 3 (fun a => if a.length = 2 then .call .padSpaceLeft a else .call .padLeft a)),
  -- pad_right
  ([0x70, 0x61, 0x64, 0x5F, 0x72, 0x69, 0x67, 0x68, 0x74], .fixed 2 3 (fun a => if a.length = 2 then .call .padSpaceRight a else .call .padRight a)),
  -- replace
  ([0x72, 0x65, 0x70, 0x6C, 0x61, 0x63, 0x65], .fixed 3 4 (fun a => if a.length = 3 then .call .replace a else .call .replaceCount a)),
  -- reverse
  ([0x72, 0x65, 0x76, 0x65, 0x72, 0x73, 0x65], .fixed 1 1 (callN .reverse)),
  -- sort
  ([0x73, 0x6F, 0x72, 0x74], .fixed 1 1 (callN .sort)),
  -- sort_by
  ([0x73, 0x6F, 0x72, 0x74, 0x5F, 0x62, 0x79], .expArg .sortBy),
  -- split
  ([0x73, 0x70, 0x6C, 0x69, 0x74], .fixed 2 3 (fun a => if a.length = 2 then .call .split a else .call .splitCount a)),
  -- starts_with
  ([0x73, 0x74, 0x61, 0x72, 0x74, 0x73, 0x5F, 0x77, 0x69, 0x74, 0x68], .fixed 2 2 (callN .startsWith)),
  -- sum
  ([0x73, 0x75, 0x6D], .fixed 1 1 (callN .sum)),
  -- to_array
  ([0x74, 0x6F, 0x5F, 0x61, 0x72, 0x72, 0x61, 0x79], .fixed 1 1 (callN .toArray)),
  -- to_number
  ([0x74, 0x6F, 0x5F, 0x6E, 0x75, 0x6D, 0x62, 0x65, 0x72], .fixed 1 1 (callN .toNumber)),
  -- to_string
  ([0x74, 0x6F, 0x5F, 0x73, 0x74, 0x72, 0x69, 0x6E, 0x67], .fixed 1 1 (callN .toString)),
  -- trim
  ([0x74, 0x72, 0x69, 0x6D], .fixed 1 2 (fun a => if a.length = 1 then .call .trimSpace a else .call .trim a)),
  -- trim_left
  ([0x74, 0x72, 0x69, 0x6D, 0x5F, 0x6C, 0x65, 0x66, 0x74], .fixed 1 2 (fun a => if a.length = 1 then .call .trimSpaceLeft a else .call .trimLeft a)),
  -- trim_right
  ([0x74, 0x72, 0x69, 0x6D, 0x5F, 0x72, 0x69, 0x67, 0x68, 0x74], .fixed 1 2 (fun a => if a.length = 1 then .call .trimSpaceRight a else .call .trimRight a)),
  -- type
  ([0x74, 0x79, 0x70, 0x65], .fixed 1 1 (callN .type)),
  -- upper
  ([0x75, 0x70, 0x70, 0x65, 0x72], .fixed 1 1 (callN .upper)),
  -- values
  ([0x76, 0x61, 0x6C, 0x75, 0x65, 0x73], .fixed 1 1 (callN .values)),
  -- zip
  ([0x7A, 0x69, 0x70], .varArg .zip)]

def lookupBuiltin (name : Bytes) : Option ArgSpec :=
  (builtinTable.find? (fun e => e.1 == name)).map (·.2)

/-- `parser.index(child)`: `(node, project)`; `child = none` is Go's nil child (the `…CurrentNode` forms) -/
def indexP (child : Option INode) : PM (INode × Bool) := do
  let mkSlice (start stop : Int) : INode := match child with
    | none => .sliceCurrent start stop
    | some c => .slice c start stop
  let atoi : PM Int := do
    match parseInt64 (← currValue) with
    | some i => pure i
    | none => fail .invalidIndex
  -- start
  let mut haveStart := false
  let mut start : Int := 0
  if (← currType) == .integerLiteral then
    start ← atoi
    let nt ← nextType
    if nt == .closeSqBrace then
      advance2
      match child with
      | none =>
        if 0 ≤ start ∧ start ≤ 255 then return (.smallIndexCurrent start.toNat, false)
        else return (.indexCurrent start, false)
      | some c => return (.index c start, false)
    else if nt == .colon then advance2
    else fail .unexpectedToken
    haveStart := true
  else if (← currType) == .colon then advance
  else fail .unexpectedToken
  -- stop
  let mut haveStop := false
  let mut stop : Int := MaxIntP
  if (← currType) == .integerLiteral then
    stop ← atoi
    let nt ← nextType
    if nt == .closeSqBrace then
      advance2
      return (mkSlice start stop, true)
    else if nt == .colon then advance2
    else fail .unexpectedToken
    haveStop := true
  else if (← currType) == .closeSqBrace then
    advance
    return (mkSlice start MaxIntP, true)
  else if (← currType) == .colon then advance
  else fail .unexpectedToken
  -- step
  let mut step : Int := 1
  if (← currType) == .integerLiteral then
    if (← nextType) != .closeSqBrace then fail .unexpectedToken
    step ← atoi
    if step = 0 then fail .invalidSliceStep
    if step < 0 then
      if !haveStart then start := MaxIntP
      if !haveStop then stop := MinIntP
    advance2
  else if (← currType) == .closeSqBrace then advance
  else fail .unexpectedToken
  if step = 1 then return (mkSlice start stop, true)
  else match child with
    | none => return (.sliceStepCurrent start stop step, true)
    | some c => return (.sliceStep c start stop step, true)
where
  MaxIntP : Int := 2 ^ 63 - 1
  MinIntP : Int := -(2 ^ 63)

mutual
/-- `parser.expression(prec)` -/
def expression : Nat → Nat → PM INode
  | 0, _ => fail .fuel
  | fuel + 1, prec => do
    let node ← primaryExpression fuel
    exprLoop fuel node prec

/-- the `for newPrec > prec` loop of `parser.expression` -/
def exprLoop : Nat → INode → Nat → PM INode
  | 0, _, _ => fail .fuel
  | fuel + 1, node, prec => do
    let t ← currType
    let newPrec := precedence t
    if newPrec ≤ prec then return node
    match binOpOf t with
    | some op =>
      advance
      let right ← expression fuel newPrec
      exprLoop fuel (.binop op node right) prec
    | none =>
      match t with
      | .and =>
        advance
        let right ← expression fuel newPrec
        exprLoop fuel (.and node right) prec
      | .or =>
        advance
        let right ← expression fuel newPrec
        exprLoop fuel (.or node right) prec
      | .pipe =>
        advance
        let right ← expression fuel newPrec
        exprLoop fuel (.pipe node right) prec
      | .arrayWildcard =>
        advance
        let right ← projection fuel projectionPrecedence
        exprLoop fuel (match right with | none => .pruneArray node | some r => .projectArray node r) prec
      | .dot =>
        match (← nextType) with
        | .arrayWildcard =>
          advance2
          exprLoop fuel (.selectArraySingle node .objectValuesCurrent) prec
        | .openBrace =>
          advance2
          let n ← selectObject fuel (some node)
          exprLoop fuel n prec
        | .openSqBrace =>
          advance2
          let n ← selectArray fuel (some node)
          exprLoop fuel n prec
        | .quotedIdentifier | .unquotedIdentifier =>
          advance
          let right ← expression fuel newPrec
          exprLoop fuel (.pipe node right) prec
        | _ => fail .unexpectedToken
      | .filter =>
        advance
        let f ← filterP fuel
        let right ← projection fuel projectionPrecedence
        exprLoop fuel (match right with | none => .filter node f | some r => .filterAndProject node f r) prec
      | .flatten =>
        advance
        let right ← projection fuel projectionPrecedence
        exprLoop fuel (match right with | none => .flatten node | some r => .flattenAndProject node r) prec
      | .objectWildcard =>
        advance
        let right ← projection fuel projectionPrecedence
        exprLoop fuel (match right with | none => .objectValues node | some r => .projectObject node r) prec
      | .openSqBrace =>
        advance
        let (n, project) ← indexP (some node)
        if project then
          let right ← projection fuel projectionPrecedence
          exprLoop fuel (.projectArray n (right.getD .current)) prec
        else exprLoop fuel n prec
      | _ => return node

/-- `parser.filter()` -/
def filterP : Nat → PM INode
  | 0 => fail .fuel
  | fuel + 1 => do
    let node ← expression fuel 1
    if (← currType) != .closeSqBrace then fail .unexpectedToken
    advance
    return node

/-- the argument parsers `function1Arg` … `function3To4Arg`: between `min` and `max` arguments -/
def fnArgs : Nat → Nat → Nat → List INode → PM (List INode)
  | 0, _, _, _ => fail .fuel
  | fuel + 1, min, max, acc => do
    let arg ← expression fuel 1
    let acc := acc ++ [arg]
    let i := acc.length
    let t ← currType
    if i < min then
      if t == .closeParen then fail .invalidFunctionCall
      if t != .comma then fail .unexpectedToken
      advance
      fnArgs fuel min max acc
    else if i < max then
      if t == .closeParen then
        advance
        return acc
      if t != .comma then fail .unexpectedToken
      advance
      fnArgs fuel min max acc
    else
      if t == .comma then fail .invalidFunctionCall
      if t != .closeParen then fail .unexpectedToken
      advance
      return acc

/-- `functionVarArg` -/
def fnVarArgs : Nat → List INode → PM (List INode)
  | 0, _ => fail .fuel
  | fuel + 1, acc => do
    let arg ← expression fuel 1
    let acc := acc ++ [arg]
    let t ← currType
    if t == .comma then
      advance
      fnVarArgs fuel acc
    else if t == .closeParen then
      advance
      return acc
    else fail .unexpectedToken

/-- `parser.function()` -/
def function : Nat → PM INode
  | 0 => fail .fuel
  | fuel + 1 => do
    let name ← currValue
    advance2
    match lookupBuiltin name with
    | none => fail .unknownFunction
    | some spec =>
      if (← currType) == .closeParen then fail .invalidFunctionCall
      match spec with
      | .fixed min max mk =>
        let args ← fnArgs fuel min max []
        return mk args
      | .varArg mk =>
        let args ← fnVarArgs fuel []
        return mk args
      | .expArg mk =>
        let arg1 ← expression fuel 1
        let t ← currType
        if t == .closeParen then fail .invalidFunctionCall
        if t != .comma then fail .unexpectedToken
        if (← nextType) != .expression then fail .invalidFunctionArgument
        advance2
        let arg2 ← expression fuel 1
        let t ← currType
        if t == .comma then fail .invalidFunctionCall
        if t != .closeParen then fail .unexpectedToken
        advance
        return mk arg1 arg2
      | .mapArg mk =>
        if (← currType) != .expression then fail .invalidFunctionArgument
        advance
        let arg1 ← expression fuel 1
        let t ← currType
        if t == .closeParen then fail .invalidFunctionCall
        if t != .comma then fail .unexpectedToken
        advance
        let arg2 ← expression fuel 1
        let t ← currType
        if t == .comma then fail .invalidFunctionCall
        if t != .closeParen then fail .unexpectedToken
        advance
        return mk arg1 arg2

/-- `parser.let()` -/
def letP : Nat → List (Bytes × INode) → PM INode
  | 0, _ => fail .fuel
  | fuel + 1, vars => do
    if (← currType) != .variable then fail .unexpectedToken
    if (← nextType) != .assign then fail .unexpectedToken
    let name ← currValue
    advance2
    let node ← expression fuel 1
    let vars := assocInsert name node vars
    let t ← currType
    if t == .in then
      advance
      let child ← expression fuel 1
      return .defineVariables vars child
    else
      if t != .comma then fail .unexpectedToken
      advance
      letP fuel vars

/-- `parser.primaryExpression()` -/
def primaryExpression : Nat → PM INode
  | 0 => fail .fuel
  | fuel + 1 => do
    let s ← get
    match s.curr.type with
    | .add =>
      advance
      let child ← expression fuel (precedence .multiply)
      return .assertNumber child
    | .subtract =>
      advance
      let child ← expression fuel (precedence .multiply)
      return .negate child
    | .arrayWildcard =>
      advance
      let child ← projection fuel projectionPrecedence
      return (match child with | none => .pruneArrayCurrent | some c => .projectArrayCurrent c)
    | .asterisk =>
      advance
      let child ← projection fuel projectionPrecedence
      return (match child with | none => .objectValuesCurrent | some c => .projectObjectCurrent c)
    | .current =>
      advance
      return .current
    | .filter =>
      advance
      let f ← filterP fuel
      let child ← projection fuel projectionPrecedence
      return (match child with | none => .filterCurrent f | some c => .filterAndProjectCurrent f c)
    | .flatten =>
      advance
      let child ← projection fuel projectionPrecedence
      return (match child with | none => .flattenCurrent | some c => .flattenAndProjectCurrent c)
    | .jsonLiteral =>
      match parseJSONLiteral s.curr.value with
      | none => fail .invalidJSONLiteral
      | some v =>
        advance
        return .lit v
    | .let =>
      advance
      letP fuel []
    | .not =>
      advance
      let child ← expression fuel (precedence .not)
      return .not child
    | .openParen =>
      advance
      let node ← expression fuel 1
      if (← currType) != .closeParen then fail .unexpectedToken
      advance
      return node
    | .openBrace =>
      advance
      selectObject fuel none
    | .openSqBrace =>
      advance
      let t ← currType
      if t == .integerLiteral || t == .colon then
        let (n, project) ← indexP none
        if project then
          let right ← projection fuel projectionPrecedence
          return .projectArray n (right.getD .current)
        else return n
      else selectArray fuel none
    | .quotedIdentifier =>
      match parseQuotedIdentifier s.curr.value with
      | none => fail .invalidQuotedString
      | some k =>
        advance
        return .field k
    | .root =>
      advance
      return .root
    | .stringLiteral =>
      let v := parseStringLiteral s.curr.value
      advance
      return .lit (.str v)
    | .unquotedIdentifier =>
      if s.next.type == .openParen then function fuel
      else
        advance
        return .field s.curr.value
    | .variable =>
      advance
      return .variable s.curr.value
    | _ => fail .unexpectedToken

/-- `parser.projection(prec)`: the right-hand side of a projection — the implicit current node followed by
    selectors, continued by the ordinary operator loop at power `prec`; `none` when no selector follows. -/
def projection : Nat → Nat → PM (Option INode)
  | 0, _ => fail .fuel
  | fuel + 1, prec => do
    let s ← get
    match s.curr.type with
    | .dot =>
      match s.next.type with
      | .arrayWildcard =>
        advance2
        let n ← exprLoop fuel (.selectArraySingleCurrent .objectValuesCurrent) prec
        return some n
      | .openBrace =>
        advance2
        let n ← selectObject fuel none
        let n ← exprLoop fuel n prec
        return some n
      | .openSqBrace =>
        advance2
        let n ← selectArray fuel none
        let n ← exprLoop fuel n prec
        return some n
      | .quotedIdentifier | .unquotedIdentifier =>
        advance
        let n ← expression fuel prec
        return some n
      | _ => fail .unexpectedToken
    | .arrayWildcard | .filter =>
      let n ← primaryExpression fuel
      let n ← exprLoop fuel n prec
      return some n
    | .objectWildcard =>
      advance
      let child ← projection fuel projectionPrecedence
      let n ← exprLoop fuel (match child with | none => .objectValuesCurrent | some c => .projectObjectCurrent c) prec
      return some n
    | .openSqBrace =>
      advance
      let (n, project) ← indexP none
      if project then
        let right ← projection fuel projectionPrecedence
        let n ← exprLoop fuel (.projectArray n (right.getD .current)) prec
        return some n
      else
        let n ← exprLoop fuel n prec
        return some n
    | _ => return none

/-- `parser.selectArray(child)` -/
def selectArray : Nat → Option INode → PM INode
  | 0, _ => fail .fuel
  | fuel + 1, child => selectArrayLoop fuel child []

def selectArrayLoop : Nat → Option INode → List INode → PM INode
  | 0, _, _ => fail .fuel
  | fuel + 1, child, fields => do
    let f ← expression fuel 1
    match (← currType) with
    | .comma =>
      advance
      selectArrayLoop fuel child (fields ++ [f])
    | .closeSqBrace =>
      advance
      if fields.isEmpty then
        return (match child with | none => .selectArraySingleCurrent f | some c => .selectArraySingle c f)
      else
        return (match child with
          | none => .selectArrayCurrent (fields ++ [f])
          | some c => .selectArray c (fields ++ [f]))
    | _ => fail .unexpectedToken

/-- `parser.selectObject(child)` -/
def selectObject : Nat → Option INode → PM INode
  | 0, _ => fail .fuel
  | fuel + 1, child => selectObjectLoop fuel child []

def selectObjectLoop : Nat → Option INode → List (Bytes × INode) → PM INode
  | 0, _, _ => fail .fuel
  | fuel + 1, child, fields => do
    let s ← get
    let key ← (match s.curr.type with
      | .quotedIdentifier => (match parseQuotedIdentifier s.curr.value with
        | none => fail .invalidQuotedString
        | some k => pure k)
      | .unquotedIdentifier => pure s.curr.value
      | _ => fail .unexpectedToken : PM Bytes)
    if s.next.type != .colon then fail .unexpectedToken
    advance2
    let f ← expression fuel 1
    match (← currType) with
    | .comma =>
      advance
      selectObjectLoop fuel child (assocInsert key f fields)
    | .closeBrace =>
      advance
      if fields.isEmpty then
        return (match child with
          | none => .selectObjectSingleCurrent key f
          | some c => .selectObjectSingle c key f)
      else
        return (match child with
          | none => .selectObjectCurrent (assocInsert key f fields)
          | some c => .selectObject c (assocInsert key f fields))
    | _ => fail .unexpectedToken
end

/-- enough fuel for every input: each recursive call of the mutual block is preceded by consuming a token or
    is one of a bounded number of calls between two consumptions -/
def fuelFor (ntokens : Nat) : Nat := 8 * ntokens + 32

/-- `parser.Parse(expression)` -/
def parse (expr : Bytes) : Except PErr INode :=
  let (ts, e) := lexAll expr
  -- the two initial `lex.Next` calls
  let init : Except PErr PState :=
    match ts with
    | t0 :: t1 :: rest => .ok ⟨t0, t1, rest, e⟩
    | [t0] => (match e with
      | some err => .error (.lex err)
      | none => .ok ⟨t0, ⟨.end, []⟩, [], none⟩)
    | [] => (match e with
      | some err => .error (.lex err)
      | none => .ok ⟨⟨.end, []⟩, ⟨.end, []⟩, [], none⟩)
  match init with
  | .error err => .error err
  | .ok st =>
    match (do
      let node ← expression (fuelFor ts.length) 1
      if (← currType) != .end then fail .unexpectedToken
      return node : PM INode).run st with
    | .ok (n, _) => .ok n
    | .error err => .error err

end Parser
end Jmes
