/-
  Mirror of `parseJSONLiteral`, `parseQuotedIdentifier`, `parseStringLiteral` (parser.go).
  The argument is the whole token including its delimiters.
-/
import Jmes.Model.Json
namespace Jmes

/-- `s[1:len(s)-1]` -/
def stripDelims (s : Bytes) : Bytes := (s.drop 1).take (s.length - 2)

/-- `strings.ReplaceAll(v, "\\`", "`")` -/
def unescapeBackticks : Bytes → Bytes
  | 0x5C :: 0x60 :: t => 0x60 :: unescapeBackticks t
  | b :: t => b :: unescapeBackticks t
  | [] => []

/-- `parseJSONLiteral`: `none` = invalidJSONLiteralError -/
def parseJSONLiteral (s : Bytes) : Option Val :=
  let v := unescapeBackticks (stripDelims s)
  if v.isEmpty then none else Json.decode v

/-- split at the first backslash that is not the last byte: `(before, after)`;
    `none` when there is no such backslash (`i == -1 || i+1 == len(v)`) -/
def splitAtBackslash : Bytes → Bytes → Option (Bytes × Bytes)
  | [], _ => none
  | [_], _ => none
  | b :: c :: t, acc => if b = 0x5C then some (acc, c :: t) else splitAtBackslash (c :: t) (acc ++ [b])

/-- the loop of `parseStringLiteral`; `v` starts just after a backslash -/
def stringLiteralLoop : Nat → Bytes → Bytes → Bytes
  | 0, _, acc => acc
  | _, [], acc => acc
  | fuel + 1, c :: v, acc =>
    let acc := if c = 0x27 then acc ++ [0x27] else if c = 0x5C then acc ++ [0x5C] else acc ++ [0x5C, c]
    match splitAtBackslash v [] with
    | none => acc ++ v
    | some (pre, post) => stringLiteralLoop fuel post (acc ++ pre)

/-- `parseStringLiteral` (never fails) -/
def parseStringLiteral (s : Bytes) : Bytes :=
  let v := stripDelims s
  match splitAtBackslash v [] with
  | none => v
  | some (pre, post) => stringLiteralLoop (v.length + 1) post pre

/-- the loop of `parseQuotedIdentifier`; `none` = invalidQuotedStringError -/
def quotedLoop : Nat → Bytes → Bytes → Option Bytes
  | 0, _, _ => none
  | _, [], _ => none
  | fuel + 1, c :: v, acc =>
    let cont (v : Bytes) (acc : Bytes) : Option Bytes :=
      match splitAtBackslash v [] with
      | none => some (acc ++ v)
      | some (pre, post) => quotedLoop fuel post (acc ++ pre)
    if c = 0x22 then cont v (acc ++ [0x22])
    else if c = 0x2F then cont v (acc ++ [0x2F])
    else if c = 0x5C then cont v (acc ++ [0x5C])
    else if c = 0x62 then cont v (acc ++ [0x08])
    else if c = 0x66 then cont v (acc ++ [0x0C])
    else if c = 0x6E then cont v (acc ++ [0x0A])
    else if c = 0x72 then cont v (acc ++ [0x0D])
    else if c = 0x74 then cont v (acc ++ [0x09])
    else if c = 0x75 then
      match Json.hex4 v with
      | none => none
      | some (r, v') =>
        if Json.isSurrogate r then
          match v' with
          | 0x5C :: 0x75 :: v'' =>
            (match Json.hex4 v'' with
             | none => none
             | some (r2, v3) =>
               -- FX28: an escape pair that is not a high surrogate followed by a low one is rejected (it used to
               -- decode to U+FFFD and swallow the second escape)
               if Json.utf16Decode r r2 = 0xFFFD then none
               else cont v3 (acc ++ encodeRune (Json.utf16Decode r r2)))
          | _ => none
        else cont v' (acc ++ encodeRune r)
    else none

/-- `parseQuotedIdentifier` -/
def parseQuotedIdentifier (s : Bytes) : Option Bytes :=
  let v := stripDelims s
  if v.any (· < 0x20) then none
  else match splitAtBackslash v [] with
    | none => some v
    | some (pre, post) => quotedLoop (v.length + 1) post pre

end Jmes
