/-
  Mirror of /repo/internal/lexer (token.go, lexer.go).
-/
import Jmes.Basic.Bytes
namespace Jmes

inductive TokenType where
  | unknown | «end»
  | openBrace | closeBrace | openParen | closeParen | openSqBrace | closeSqBrace
  | add | and | arrayWildcard | assign | asterisk | colon | comma | divide | dot | equal | filter | flatten
  | «in» | greater | greaterOrEqual | integerDivide | less | lessOrEqual | «let» | modulo | multiply | not
  | notEqual | objectWildcard | or | pipe | subtract
  | current | expression | integerLiteral | jsonLiteral | quotedIdentifier | root | unquotedIdentifier
  | stringLiteral | variable
  deriving Repr, DecidableEq, Inhabited

structure Token where
  type : TokenType
  value : Bytes := []
  deriving Repr, DecidableEq, Inhabited

inductive LexErr where
  | invalidRune | unexpectedEnd | unexpectedRune (r : Nat)
  deriving Repr, DecidableEq

/-- `Lexer.decodeRune(pos)` on the remaining input -/
def lexDecode (s : Bytes) : Except LexErr (Nat × Nat) :=
  let (r, sz) := decodeRune s
  if sz = 0 then .error .unexpectedEnd
  else if r = RuneError ∧ sz = 1 then .error .invalidRune
  else .ok (r, sz)

@[inline] def isDigitR (r : Nat) : Bool := 0x30 ≤ r && r ≤ 0x39
@[inline] def isAlphaR (r : Nat) : Bool := (0x41 ≤ r && r ≤ 0x5A) || (0x61 ≤ r && r ≤ 0x7A) || r == 0x5F
@[inline] def isWsR (r : Nat) : Bool := r == 0x09 || r == 0x0A || r == 0x0D || r == 0x20

/-- length (in bytes) of the maximal prefix of runes satisfying `p` -/
def spanRunes (p : Nat → Bool) : Nat → Bytes → Nat
  | 0, _ => 0
  | fuel + 1, s =>
    match lexDecode s with
    | .ok (r, sz) => if p r then sz + spanRunes p fuel (s.drop sz) else 0
    | .error _ => 0

/-- scan a delimited token body (`jsonLiteral`, `quotedIdentifier`, `stringLiteral`): returns the number of
    bytes consumed including the closing delimiter -/
def scanDelim (delim : Nat) : Nat → Bytes → Nat → Except LexErr Nat
  | 0, _, _ => .error .unexpectedEnd
  | fuel + 1, s, n =>
    match lexDecode s with
    | .error e => .error e
    | .ok (r, sz) =>
      if r = delim then .ok (n + sz)
      else if r = 0x5C then
        match lexDecode (s.drop sz) with
        | .error e => .error e
        | .ok (_, sz2) => scanDelim delim fuel (s.drop (sz + sz2)) (n + sz + sz2)
      else scanDelim delim fuel (s.drop sz) (n + sz)

/-- the rune after the first one, if it decodes -/
def peek (s : Bytes) (sz : Nat) : Option (Nat × Nat) :=
  match lexDecode (s.drop sz) with
  | .ok p => some p
  | .error _ => none

/-- `Lexer.Next` on the remaining input (whitespace already skipped, input non-empty): the token and the number
    of bytes it spans -/
def lexToken (s : Bytes) : Except LexErr (Token × Nat) :=
  match lexDecode s with
  | .error e => .error e
  | .ok (r, sz) =>
    let tok (t : TokenType) (n : Nat) : Except LexErr (Token × Nat) := .ok (⟨t, s.take n⟩, n)
    let two (c : Nat) (t2 t1 : TokenType) : Except LexErr (Token × Nat) :=
      match peek s sz with
      | some (nr, nsz) => if nr = c then tok t2 (sz + nsz) else tok t1 sz
      | none => tok t1 sz
    if r = 0x22 then
      (match scanDelim 0x22 (s.length + 1) (s.drop sz) sz with
       | .ok n => tok .quotedIdentifier n
       | .error e => .error e)
    else if r = 0x24 then
      (match peek s sz with
       | some (nr, nsz) =>
         if isAlphaR nr then
           let n := sz + nsz + spanRunes (fun r => isAlphaR r || isDigitR r) s.length (s.drop (sz + nsz))
           tok .variable n
         else tok .root sz
       | none => tok .root sz)
    else if r = 0x25 then tok .modulo sz
    else if r = 0x26 then two 0x26 .and .expression
    else if r = 0x27 then
      (match scanDelim 0x27 (s.length + 1) (s.drop sz) sz with
       | .ok n => tok .stringLiteral n
       | .error e => .error e)
    else if r = 0x28 then tok .openParen sz
    else if r = 0x29 then tok .closeParen sz
    else if r = 0x2A then tok .asterisk sz
    else if r = 0x2B then tok .add sz
    else if r = 0x2C then tok .comma sz
    else if r = 0x2D then
      (match peek s sz with
       | some (nr, nsz) =>
         if isDigitR nr then tok .integerLiteral (sz + nsz + spanRunes isDigitR s.length (s.drop (sz + nsz)))
         else tok .subtract sz
       | none => tok .subtract sz)
    else if r = 0x2E then two 0x2A .objectWildcard .dot
    else if r = 0x2F then two 0x2F .integerDivide .divide
    else if r = 0x3A then tok .colon sz
    else if r = 0x3C then two 0x3D .lessOrEqual .less
    else if r = 0x3D then two 0x3D .equal .assign
    else if r = 0x3E then two 0x3D .greaterOrEqual .greater
    else if r = 0x40 then tok .current sz
    else if r = 0x5B then
      (match peek s sz with
       | some (nr, nsz) =>
         if nr = 0x2A then
           (match peek s (sz + nsz) with
            | some (nnr, nnsz) => if nnr = 0x5D then tok .arrayWildcard (sz + nsz + nnsz) else tok .openSqBrace sz
            | none => tok .openSqBrace sz)
         else if nr = 0x3F then tok .filter (sz + nsz)
         else if nr = 0x5D then tok .flatten (sz + nsz)
         else tok .openSqBrace sz
       | none => tok .openSqBrace sz)
    else if r = 0x5D then tok .closeSqBrace sz
    else if r = 0x60 then
      (match scanDelim 0x60 (s.length + 1) (s.drop sz) sz with
       | .ok n => tok .jsonLiteral n
       | .error e => .error e)
    else if r = 0x7B then tok .openBrace sz
    else if r = 0x7C then two 0x7C .or .pipe
    else if r = 0x7D then tok .closeBrace sz
    else if r = 0xD7 then tok .multiply sz
    else if r = 0xF7 then tok .divide sz
    else if r = 0x2212 then tok .subtract sz
    else if r = 0x21 then two 0x3D .notEqual .not
    else if isDigitR r then tok .integerLiteral (sz + spanRunes isDigitR s.length (s.drop sz))
    else if isAlphaR r then
      let n := sz + spanRunes (fun r => isAlphaR r || isDigitR r) s.length (s.drop sz)
      let v := s.take n
      let t := if v = [0x69, 0x6E] then TokenType.in else if v = [0x6C, 0x65, 0x74] then TokenType.let
               else TokenType.unquotedIdentifier
      .ok (⟨t, v⟩, n)
    else .error (.unexpectedRune r)

/-- skip whitespace as the loop at the top of `Next` does: stops at a decoding error (reported by `Next`) -/
def skipWsLex : Nat → Bytes → Bytes
  | 0, s => s
  | fuel + 1, s =>
    match s with
    | [] => []
    | _ =>
      match lexDecode s with
      | .ok (r, sz) => if isWsR r then skipWsLex fuel (s.drop sz) else s
      | .error _ => s

/-- The whole token stream the parser can pull: tokens up to and including `end`, or up to the first lexical
    error. Fuel = input length + 1. -/
def lexAllAux : Nat → Bytes → List Token × Option LexErr
  | 0, _ => ([], some .unexpectedEnd)
  | fuel + 1, s =>
    match skipWsLex s.length s with
    | [] => ([⟨.end, []⟩], none)
    | s' =>
      match lexToken s' with
      | .error e => ([], some e)
      | .ok (t, n) =>
        let (ts, e) := lexAllAux fuel (s'.drop (max n 1))
        (t :: ts, e)

def lexAll (s : Bytes) : List Token × Option LexErr := lexAllAux (s.length + 1) s

end Jmes
