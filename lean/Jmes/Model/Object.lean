/-
  Mirror of /repo/internal/evaluator/object.go. Go's `range m` order is unspecified: every array produced by
  ranging over a map is tagged `enum` (the model lists members in key order).
-/
import Jmes.Model.Array
namespace Jmes
open Res

def field (k : Bytes) (v : Val) : Val :=
  match v with
  | .obj kvs => (objLookup k kvs).getD .null
  | _ => .null

/-- `objectValues(v)`: the member values (nulls omitted) of an object, else null -/
def objectValues (v : Val) : Val :=
  match v with
  | .obj kvs => .arr .enum ((kvs.map Prod.snd).filter (fun x => !x.isNull))
  | _ => .null

def projectObject (f : Val → Res Val) (v : Val) : Res Val :=
  match v with
  | .obj kvs =>
    let vs := kvs.map Prod.snd
    widen .enum vs [f] [] do
      let r ← mapPrune f vs
      pure (.arr .enum r)
  | _ => .ok .null

def values (v : Val) : Res Val :=
  match v with
  | .obj kvs => .ok (.arr .enum (kvs.map Prod.snd))
  | _ => errType

def keys (v : Val) : Res Val :=
  match v with
  | .obj kvs => .ok (.arr .enum (kvs.map (fun kv => Val.str kv.1)))
  | _ => errType

def items (v : Val) : Res Val :=
  match v with
  | .obj kvs => .ok (.arr .enum (kvs.map (fun kv => Val.arr .plain [Val.str kv.1, kv.2])))
  | _ => errType

/-- the loop of `fromItems` -/
def fromItemsLoop : List Val → List (Bytes × Val) → Res (List (Bytes × Val))
  | [], acc => .ok acc
  | .arr t ia :: rest, acc =>
    match ia with
    | [k, v] =>
      if enum2 t ia then .nondet
      else (match k with
        | .str s => fromItemsLoop rest (objInsert s v acc)
        | _ => errValue)
    | _ => errValue
  | _ :: _, _ => errType

def pairKey : Val → Option Bytes
  | .arr _ [.str s, _] => some s
  | _ => none

def hasDupKeys : List Bytes → Bool
  | [] => false
  | k :: ks => ks.contains k || hasDupKeys ks

def fromItems (v : Val) : Res Val :=
  match v with
  | .arr t xs =>
    match fromItemsLoop xs [] with
    | .ok kvs => if enum2 t xs && hasDupKeys (xs.filterMap pairKey) then .nondet else .ok (.obj kvs)
    | .err cs => if enum2 t xs then .err (Cat.dedup (cs ++ [Cat.invalidType, Cat.invalidValue])) else .err cs
    | .panic w => .panic w
    | .nondet => .nondet
    | .unmodelled w => .unmodelled w
  | _ => errType

/-- append `v` to the group `s` (groups are kept as a key-sorted association list of element lists) -/
def groupInsert (s : Bytes) (v : Val) : List (Bytes × List Val) → List (Bytes × List Val)
  | [] => [(s, [v])]
  | (k, g) :: rest =>
    if s = k then (k, g ++ [v]) :: rest
    else if bytesLt s k then (s, [v]) :: (k, g) :: rest
    else (k, g) :: groupInsert s v rest

def groupLoop (f : Val → Res Val) : List Val → List (Bytes × List Val) → Res (List (Bytes × List Val))
  | [], acc => .ok acc
  | v :: rest, acc => do
    let rv ← f v
    match rv with
    | .str s => groupLoop f rest (groupInsert s v acc)
    | _ => errType

def groupBy (f : Val → Res Val) (v : Val) : Res Val :=
  match v with
  | .arr t xs =>
    if xs.isEmpty then .ok .null
    else widen t xs [f] [Cat.invalidType] do
      let gs ← groupLoop f xs []
      pure (.obj (gs.map (fun kg => (kg.1, Val.arr t.derived kg.2))))
  | _ => errType

end Jmes
