/-
  Mirror of /repo/internal/evaluator/string.go, with the pieces of Go's `strings`/`unicode` packages it uses.
-/
import Jmes.Model.Slice
namespace Jmes
open Res

/-! ### pieces of package strings -/

/-- `strings.Index(s, p)`: byte offset of the first occurrence, `none` if absent -/
def indexOfAux : Nat → Bytes → Bytes → Option Nat
  | off, s, p =>
    if p.isPrefixOf s then some off
    else match s with
      | [] => none
      | _ :: t => indexOfAux (off + 1) t p
def indexOf (s p : Bytes) : Option Nat := indexOfAux 0 s p

/-- `strings.LastIndex(s, p)` -/
def lastIndexOfAux : Nat → Bytes → Bytes → Option Nat → Option Nat
  | off, s, p, best =>
    let best' := if p.isPrefixOf s then some off else best
    match s with
    | [] => best'
    | _ :: t => lastIndexOfAux (off + 1) t p best'
def lastIndexOf (s p : Bytes) : Option Nat := lastIndexOfAux 0 s p none

def hasPrefix (s p : Bytes) : Bool := p.isPrefixOf s
def hasSuffix (s p : Bytes) : Bool := p.length ≤ s.length && s.drop (s.length - p.length) == p

/-- split `s` into its runes' byte sequences (`utf8.DecodeRuneInString` steps) -/
def runePiecesAux : Nat → Bytes → List Bytes
  | 0, _ => []
  | _, [] => []
  | fuel + 1, s => let sz := (decodeRune s).2; s.take sz :: runePiecesAux fuel (s.drop sz)
def runePieces (s : Bytes) : List Bytes := runePiecesAux s.length s

/-- `strings.Replace(s, old, new, n)` for non-empty `old`; `n = none` means all -/
def replaceAux : Nat → Bytes → Bytes → Bytes → Option Nat → Bytes
  | 0, s, _, _, _ => s
  | fuel + 1, s, old, new, n =>
    if n = some 0 then s
    else match s with
      | [] => []
      | b :: t =>
        if old.isPrefixOf s then new ++ replaceAux fuel (s.drop old.length) old new (n.map (· - 1))
        else b :: replaceAux fuel t old new n

/-- `strings.Replace` with empty `old`: `new` is inserted before each rune and at the end, up to `n` times -/
def replaceEmptyAux : List Bytes → Bytes → Option Nat → Bytes
  | [], new, n => if n = some 0 then [] else new
  | p :: ps, new, n =>
    if n = some 0 then p ++ (ps.foldr (· ++ ·) [])
    else new ++ p ++ replaceEmptyAux ps new (n.map (· - 1))

def stringsReplace (s old new : Bytes) (n : Option Nat) : Bytes :=
  if old.isEmpty then replaceEmptyAux (runePieces s) new n
  else replaceAux (s.length + 1) s old new n

/-- split on a non-empty separator, at most `n` times (`none` = no limit) -/
def splitAux : Nat → Bytes → Bytes → Option Nat → Bytes → List Bytes
  | 0, s, _, _, cur => [cur ++ s]
  | fuel + 1, s, p, n, cur =>
    if n = some 0 then [cur ++ s]
    else match s with
      | [] => [cur]
      | b :: t =>
        if p.isPrefixOf s then cur :: splitAux fuel (s.drop p.length) p (n.map (· - 1)) []
        else splitAux fuel t p n (cur ++ [b])

def splitOn (s p : Bytes) (n : Option Nat) : List Bytes := splitAux (s.length + 1) s p n []

/-- split into code points, at most `n` splits -/
def splitRunes (s : Bytes) (n : Option Nat) : List Bytes :=
  let ps := runePieces s
  match n with
  | none => ps
  | some k => if k + 1 ≥ ps.length then ps else ps.take k ++ [(ps.drop k).foldr (· ++ ·) []]

/-- `unicode.IsSpace` -/
def isSpaceRune (r : Nat) : Bool :=
  r == 0x09 || r == 0x0A || r == 0x0B || r == 0x0C || r == 0x0D || r == 0x20 || r == 0x85 || r == 0xA0 ||
  r == 0x1680 || (0x2000 ≤ r && r ≤ 0x200A) || r == 0x2028 || r == 0x2029 || r == 0x202F || r == 0x205F || r == 0x3000

/-- drop leading runes satisfying `p` (`strings.TrimLeftFunc`) -/
def trimLeftBy (p : Nat → Bool) : Nat → Bytes → Bytes
  | 0, s => s
  | _, [] => []
  | fuel + 1, s =>
    let (r, sz) := decodeRune s
    if p r then trimLeftBy p fuel (s.drop sz) else s

/-- drop trailing runes satisfying `p` (`strings.TrimRightFunc`) -/
def trimRightBy (p : Nat → Bool) : Nat → Bytes → Bytes
  | 0, s => s
  | _, [] => []
  | fuel + 1, s =>
    let (r, sz) := decodeLastRune s
    if p r then trimRightBy p fuel (s.take (s.length - sz)) else s

def trimLeftF (p : Nat → Bool) (s : Bytes) : Bytes := trimLeftBy p s.length s
def trimRightF (p : Nat → Bool) (s : Bytes) : Bytes := trimRightBy p s.length s

def inCutset (cut : Bytes) : Nat → Bool := fun r => (decodeAll cut).contains r

/-! ### simple case mapping on the modelled alphabets (`none`: outside what the model covers) -/

def caseless (r : Nat) : Bool :=
  (0x2000 ≤ r && r ≤ 0x206F) || (0x3000 ≤ r && r ≤ 0x303F) || (0x4E00 ≤ r && r ≤ 0x9FFF) ||
  (0x1F300 ≤ r && r ≤ 0x1FAFF) || r == 0xFFFD || r == 0x20AC || (0x0300 ≤ r && r ≤ 0x036F && r != 0x0345) ||
  r == 0xD7 || r == 0xF7 || r == 0xDF || (0xA0 ≤ r && r ≤ 0xB4) || (0xB6 ≤ r && r ≤ 0xBF)

def lowerRune (r : Nat) : Option Nat :=
  if r < 0x80 then some (if 0x41 ≤ r ∧ r ≤ 0x5A then r + 32 else r)
  else if 0xC0 ≤ r ∧ r ≤ 0xDE ∧ r ≠ 0xD7 then some (r + 32)
  else if 0xE0 ≤ r ∧ r ≤ 0xFF then some r
  else if r = 0xB5 then some r
  else if 0x391 ≤ r ∧ r ≤ 0x3A9 ∧ r ≠ 0x3A2 then some (r + 32)
  else if 0x3B1 ≤ r ∧ r ≤ 0x3C9 then some r
  else if 0x410 ≤ r ∧ r ≤ 0x42F then some (r + 32)
  else if 0x400 ≤ r ∧ r ≤ 0x40F then some (r + 80)
  else if 0x430 ≤ r ∧ r ≤ 0x45F then some r
  else if caseless r then some r
  else none

def upperRune (r : Nat) : Option Nat :=
  if r < 0x80 then some (if 0x61 ≤ r ∧ r ≤ 0x7A then r - 32 else r)
  else if 0xE0 ≤ r ∧ r ≤ 0xFE ∧ r ≠ 0xF7 then some (r - 32)
  else if r = 0xFF then some 0x178
  else if 0xC0 ≤ r ∧ r ≤ 0xDE then some r
  else if r = 0xB5 then some 0x39C
  else if 0x3B1 ≤ r ∧ r ≤ 0x3C9 ∧ r ≠ 0x3C2 then some (r - 32)
  else if r = 0x3C2 then some 0x3A3
  else if 0x391 ≤ r ∧ r ≤ 0x3A9 ∧ r ≠ 0x3A2 then some r
  else if 0x430 ≤ r ∧ r ≤ 0x44F then some (r - 32)
  else if 0x450 ≤ r ∧ r ≤ 0x45F then some (r - 80)
  else if 0x400 ≤ r ∧ r ≤ 0x42F then some r
  else if caseless r then some r
  else none

def mapRunes (f : Nat → Option Nat) : List Nat → Option (List Nat)
  | [] => some []
  | r :: rs => match f r with
    | none => none
    | some r' => (mapRunes f rs).map (r' :: ·)

/-- `strings.ToLower` / `strings.ToUpper` (`strings.Map` re-encodes, turning invalid bytes into U+FFFD) -/
def caseMap (f : Nat → Option Nat) (s : Bytes) : Res Val :=
  if s.all (· < 0x80) then .ok (.str (s.map (fun b => (f b).getD b)))
  else match mapRunes f (decodeAll s) with
    | some rs => .ok (.str (encodeAll rs))
    | none => .unmodelled "case mapping outside the modelled alphabets"

/-! ### string.go -/

def strArg (v : Val) : Res Bytes :=
  match v with
  | .str s => .ok s
  | _ => errType

/-- the recurring `toInt` block: a number that is an integer, else invalid-type / invalid-value -/
def intArg (v : Val) : Res Int :=
  match toInt v with
  | .int i => .ok i
  | .notNum => errType
  | .notInt => (match toDecimal v with
    | none => errType
    | some _ => errValue)
  | .panic => .panic "Decimal(NaN).Int64()"
  | .unmodelled => .unmodelled "strconv.ParseFloat on a hexadecimal literal"

def startsWith (value pre : Val) : Res Val := do
  let s ← strArg value
  let p ← strArg pre
  pure (.bool (hasPrefix s p))

def endsWith (value suf : Val) : Res Val := do
  let s ← strArg value
  let p ← strArg suf
  pure (.bool (hasSuffix s p))

def runeIndexVal (s : Bytes) (byteOff : Nat) : Val :=
  .num (.int .i64 (runeCount (s.take byteOff)))

def findFirst (value sub : Val) : Res Val := do
  let s ← strArg value
  let p ← strArg sub
  if s.isEmpty || p.isEmpty then pure .null
  else match indexOf s p with
    | none => pure .null
    | some r => pure (runeIndexVal s r)

def findLast (value sub : Val) : Res Val := do
  let s ← strArg value
  let p ← strArg sub
  if s.isEmpty || p.isEmpty then pure .null
  else match lastIndexOf s p with
    | none => pure .null
    | some r => pure (runeIndexVal s r)

/-- byte offset of the `i`-th rune; `none` when the string ends first (`sz == 0` in the Go loop) -/
def runeOffset : Nat → Bytes → Nat → Option Nat
  | 0, _, acc => some acc
  | i + 1, s, acc => match s with
    | [] => none
    | _ => let sz := (decodeRune s).2; runeOffset i (s.drop sz) (acc + sz)

/-- conversion of the `start` argument: `none` = the function returns null -/
def startOffset (s : Bytes) (i : Int) : Option Nat :=
  if i < 0 then some 0
  else if i > s.length then none
  else runeOffset i.toNat s 0

/-- conversion of the `finish` argument -/
def finishOffset (s : Bytes) (j : Int) : Option Nat :=
  if j < 0 then none
  else if j > s.length then some s.length
  else some ((runeOffset j.toNat s 0).getD s.length)

def findFrom (last : Bool) (value sub start : Val) : Res Val := do
  let s ← strArg value
  let p ← strArg sub
  let i ← intArg start
  match startOffset s i with
  | none => pure .null
  | some i =>
    match (if last then lastIndexOf (s.drop i) p else indexOf (s.drop i) p) with
    | none => pure .null
    | some r => pure (runeIndexVal s (r + i))

def findBetween (last : Bool) (value sub start finish : Val) : Res Val := do
  let s ← strArg value
  let p ← strArg sub
  let i ← (match toInt start with
    | .int i => (.ok i : Res Int)
    | .notNum => errType
    | .notInt =>
      (match toInt finish with
       | .notNum => errType
       | .panic => .panic "Decimal(NaN).Int64()"
       | .unmodelled => .unmodelled "strconv.ParseFloat on a hexadecimal literal"
       | _ => (match toDecimal start with
         | none => errType
         | some _ => errValue))
    | .panic => .panic "Decimal(NaN).Int64()"
    | .unmodelled => .unmodelled "strconv.ParseFloat on a hexadecimal literal")
  let j ← intArg finish
  match startOffset s i with
  | none => pure .null
  | some i => do
    match finishOffset s j with
    | none => pure .null
    | some j =>
      if i > j then pure .null
      else
        let w := (s.drop i).take (j - i)
        match (if last then lastIndexOf w p else indexOf w p) with
        | none => pure .null
        | some r => pure (runeIndexVal s (r + i))

def findFirstFrom := findFrom false
def findLastFrom := findFrom true
def findFirstBetween := findBetween false
def findLastBetween := findBetween true

def joinStrs (sep : Bytes) : List Bytes → Bytes
  | [] => []
  | [s] => s
  | s :: rest => s ++ sep ++ joinStrs sep rest

def join (sep value : Val) : Res Val :=
  match value with
  | .arr t xs =>
    match sep with
    | .str s =>
      (match allStrings xs with
       | some ss => if enum2 t xs then .nondet else .ok (.str (joinStrs s ss))
       | none => errType)
    | _ => errType
  | _ => errType

/-- largest padding the model will materialise -/
def padLimit : Nat := 100000

def padWith (left : Bool) (s : Bytes) (w : Int) (p : Bytes) (orig : Val) : Res Val :=
  if w < 0 then errValue
  else if runeCount p ≠ 1 then errValue
  else
    let n := w - runeCount s
    if n ≤ 0 then .ok orig
    else if n.toNat > padLimit then .unmodelled "padding wider than the model materialises"
    else
      let pad := (List.replicate n.toNat p).foldr (· ++ ·) []
      .ok (.str (if left then pad ++ s else s ++ pad))

def padLeft (value width pad : Val) : Res Val := do
  let s ← strArg value
  let p ← strArg pad
  let w ← intArg width
  padWith true s w p value

def padRight (value width pad : Val) : Res Val := do
  let s ← strArg value
  let p ← strArg pad
  let w ← intArg width
  padWith false s w p value

def padSpaceLeft (value width : Val) : Res Val := do
  let s ← strArg value
  let w ← intArg width
  padWith true s w [0x20] value

def padSpaceRight (value width : Val) : Res Val := do
  let s ← strArg value
  let w ← intArg width
  padWith false s w [0x20] value

def replace (value old new : Val) : Res Val := do
  let s ← strArg value
  let po ← strArg old
  let pn ← strArg new
  pure (.str (stringsReplace s po pn none))

def replaceCount (value old new count : Val) : Res Val := do
  let s ← strArg value
  let po ← strArg old
  let pn ← strArg new
  let n ← intArg count
  if n < 0 then errValue
  else pure (.str (stringsReplace s po pn (some n.toNat)))

def strsToArr (ss : List Bytes) : Val := .arr .plain (ss.map Val.str)

def split (value sep : Val) : Res Val := do
  let s ← strArg value
  let p ← strArg sep
  if s.isEmpty then pure (.arr .plain [])
  else if p.isEmpty then pure (strsToArr (splitRunes s none))
  else pure (strsToArr (splitOn s p none))

def splitCount (value sep count : Val) : Res Val := do
  let s ← strArg value
  let p ← strArg sep
  let n ← intArg count
  if n < 0 then errValue
  else if n = 0 then pure (.arr .plain [.str s])
  else if s.isEmpty then pure (.arr .plain [])
  else if p.isEmpty then pure (strsToArr (splitRunes s (some n.toNat)))
  else pure (strsToArr (splitOn s p (some n.toNat)))

def trimSpaceS (s : Bytes) : Bytes := trimRightF isSpaceRune (trimLeftF isSpaceRune s)

def trim (value cut : Val) : Res Val := do
  let s ← strArg value
  let p ← strArg cut
  if p.isEmpty then pure (.str (trimSpaceS s))
  else pure (.str (trimRightF (inCutset p) (trimLeftF (inCutset p) s)))

def trimLeft (value cut : Val) : Res Val := do
  let s ← strArg value
  let p ← strArg cut
  if p.isEmpty then pure (.str (trimLeftF isSpaceRune s))
  else pure (.str (trimLeftF (inCutset p) s))

def trimRight (value cut : Val) : Res Val := do
  let s ← strArg value
  let p ← strArg cut
  if p.isEmpty then pure (.str (trimRightF isSpaceRune s))
  else pure (.str (trimRightF (inCutset p) s))

def trimSpace (value : Val) : Res Val := do
  let s ← strArg value
  pure (.str (trimSpaceS s))

def trimSpaceLeft (value : Val) : Res Val := do
  let s ← strArg value
  pure (.str (trimLeftF isSpaceRune s))

def trimSpaceRight (value : Val) : Res Val := do
  let s ← strArg value
  pure (.str (trimRightF isSpaceRune s))

end Jmes
