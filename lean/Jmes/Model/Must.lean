/-
  Mirror of /repo/jmespath.go `MustCompile` and of the two-step use `Compile` + `(*Expression).Search`.
  (Tie: `Jmes.Tie.entry_point_calls` — the entry points call `parser.Parse` / `evaluator.Evaluate` and nothing else.)
-/
import Jmes.Model.Api
namespace Jmes

/-- `MustCompile`: the compiled node, or a panic where `Compile` returns an error -/
def mustCompile (expr : Bytes) : Res INode :=
  match Parser.parse expr with
  | .error .fuel => .unmodelled "parser fuel"
  | .error _ => .panic "jmespath.MustCompile: invalid expression"
  | .ok n => .ok n

/-- `(*Expression).Search` on an expression obtained from `Compile` -/
def exprSearch (n : INode) (data : Val) : Res Val := evaluate n data

end Jmes
