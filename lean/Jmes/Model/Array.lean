/-
  Mirror of /repo/internal/evaluator/array.go (the parts that do not need the evaluator take the
  sub-expression as a function `f : Val → Res Val`).
-/
import Jmes.Model.Compare
namespace Jmes
open Res

/-- tag of an array derived element-wise from an array tagged `t` -/
def ATag.derived : ATag → ATag
  | .enum => .enum
  | _ => .plain

def enum2 (t : ATag) (xs : List Val) : Bool := t == .enum && xs.length ≥ 2

def Cat.dedup : List Cat → List Cat
  | [] => []
  | c :: cs => if cs.contains c then Cat.dedup cs else c :: Cat.dedup cs

/-- When Go iterates over a map-ordered list and stops at the first failing element, which error it reports
    depends on the order: widen an error outcome to every category some element could produce. -/
def widen {α} (t : ATag) (xs : List Val) (fs : List (Val → Res Val)) (extra : List Cat) (r : Res α) : Res α :=
  match r with
  | .err cs =>
    if enum2 t xs then
      -- an element whose own outcome is not settled (it depends on another enumeration order, or the model declines)
      -- may be the first one to fail under another order, with a category the model cannot name
      if xs.any (fun x => fs.any (fun f => match f x with | .ok _ => false | .err _ => false | _ => true)) then .nondet
      else .err (Cat.dedup (cs ++ extra ++ xs.flatMap (fun x => fs.flatMap (fun f => match f x with | .err c => c | _ => []))))
    else .err cs
  | r => r

/-- `index(v, i)` -/
def index (v : Val) (i : Int) : Res Val :=
  match v with
  | .arr t xs =>
    let l : Int := xs.length
    let j := if i < 0 then i + l else i
    if j < 0 ∨ j ≥ l then .ok .null
    else if enum2 t xs then .nondet
    else .ok (xs.getD j.toNat .null)
  | _ => .ok .null

/-- `flatten(v)` -/
def flattenElems : List Val → List Val
  | [] => []
  | .arr _ ys :: rest => ys.filter (fun y => !y.isNull) ++ flattenElems rest
  | .null :: rest => flattenElems rest
  | x :: rest => x :: flattenElems rest

def flattenTag (t : ATag) (xs : List Val) : ATag :=
  if enum2 t xs || xs.any (fun x => match x with | .arr t' ys => enum2 t' ys | _ => false) then .enum else .plain

def flatten (v : Val) : Val :=
  match v with
  | .arr t xs => .arr (flattenTag t xs) (flattenElems xs)
  | _ => .null

/-- `pruneArray(v)`: the array itself when it holds no null, else a fresh array of the non-null elements -/
def pruneArray (v : Val) : Val :=
  match v with
  | .arr t xs => if xs.any Val.isNull then .arr t.derived (xs.filter (fun x => !x.isNull)) else .arr t xs
  | _ => .null

/-- apply `f` to every element, dropping null results (the loop of `projectArray`) -/
def mapPrune (f : Val → Res Val) : List Val → Res (List Val)
  | [] => .ok []
  | x :: xs => do
    let p ← f x
    let rest ← mapPrune f xs
    pure (if p.isNull then rest else p :: rest)

def projectArray (f : Val → Res Val) (v : Val) : Res Val :=
  match v with
  | .arr t xs => widen t xs [f] [] do
    let r ← mapPrune f xs
    pure (.arr t.derived r)
  | _ => .ok .null

/-- the loop of `filter` -/
def filterLoop (c : Val → Res Val) : List Val → Res (List Val)
  | [] => .ok []
  | x :: xs => do
    let b ← c x
    let rest ← filterLoop c xs
    pure (if isTrue b && !x.isNull then x :: rest else rest)

def filterArray (c : Val → Res Val) (v : Val) : Res Val :=
  match v with
  | .arr t xs => widen t xs [c] [] do
    let r ← filterLoop c xs
    pure (.arr t.derived r)
  | _ => .ok .null

/-- the loop of `filterAndProjectArray` -/
def filterMapPrune (c f : Val → Res Val) : List Val → Res (List Val)
  | [] => .ok []
  | x :: xs => do
    let b ← c x
    if isTrue b then
      let p ← f x
      let rest ← filterMapPrune c f xs
      pure (if p.isNull then rest else p :: rest)
    else filterMapPrune c f xs

def filterAndProjectArray (c f : Val → Res Val) (v : Val) : Res Val :=
  match v with
  | .arr t xs => widen t xs [c, f] [] do
    let r ← filterMapPrune c f xs
    pure (.arr t.derived r)
  | _ => .ok .null

/-- elements visited by `flattenAndProjectArray`: one level of flattening, nulls kept (they are projected) -/
def flattenForProject : List Val → List Val
  | [] => []
  | .arr _ ys :: rest => ys ++ flattenForProject rest
  | x :: rest => x :: flattenForProject rest

def flattenAndProjectArray (f : Val → Res Val) (v : Val) : Res Val :=
  match v with
  | .arr t xs => widen (flattenTag t xs) (flattenForProject xs ++ [.null, .null]) [f] [] do
    let r ← mapPrune f (flattenForProject xs)
    pure (.arr (flattenTag t xs) r)
  | _ => .ok .null

def mapAll (f : Val → Res Val) : List Val → Res (List Val)
  | [] => .ok []
  | x :: xs => do
    let p ← f x
    let rest ← mapAll f xs
    pure (p :: rest)

def mapArray (f : Val → Res Val) (v : Val) : Res Val :=
  match v with
  | .arr t xs => widen t xs [f] [] do
    let r ← mapAll f xs
    pure (.arr t.derived r)
  | _ => errType

/-! ### keys for sort_by / max_by / min_by -/

inductive Key where
  | s (b : Bytes)
  | n (d : Dec)
  deriving Repr

/-- evaluate the key expression on the first element to pick string or number mode, then on the others,
    each of which must be of that kind -/
def keysFrom (f : Val → Res Val) (isStr : Bool) : List Val → Res (List Key)
  | [] => .ok []
  | x :: xs => do
    let rv ← f x
    let k ← (if isStr then
        (match rv with
          | .str s => (.ok (Key.s s) : Res Key)
          | _ => errType)
      else
        (match toDecimal rv with
          | some d => .ok (Key.n d)
          | none => errType))
    let rest ← keysFrom f isStr xs
    pure (k :: rest)

def keysOf (f : Val → Res Val) : List Val → Res (List Key)
  | [] => .ok []
  | x :: xs => do
    let first ← f x
    match first with
    | .str s => do
      let rest ← keysFrom f true xs
      pure (Key.s s :: rest)
    | _ =>
      match toDecimal first with
      | none => errType
      | some d => do
        let rest ← keysFrom f false xs
        pure (Key.n d :: rest)

/-- strict "less" of the sort_by comparators (`by[i] < by[j]`, `decimal128.Compare(…) < 0`) -/
def Key.lt : Key → Key → Bool
  | .s a, .s b => bytesLt a b
  | .n a, .n b => Dec.compare a b < 0
  | _, _ => false

/-- strict "greater" as used by max_by (`s > strMax`, `d.Cmp(numMax).Greater()`) -/
def Key.gtMax : Key → Key → Bool
  | .s a, .s b => bytesLt b a
  | .n a, .n b => Dec.greater a b
  | _, _ => false

def Key.ltMin : Key → Key → Bool
  | .s a, .s b => bytesLt a b
  | .n a, .n b => Dec.less a b
  | _, _ => false

/-- the scan of `arrayMaxBy`/`arrayMinBy`: keep the first extremal element -/
def pickBy (better : Key → Key → Bool) : Val → Key → List (Val × Key) → Val
  | best, _, [] => best
  | best, bk, (v, k) :: rest => if better k bk then pickBy better v k rest else pickBy better best bk rest

/-- for a map-ordered input: is there exactly one element whose key is extremal? -/
def uniqueExtremum (better : Key → Key → Bool) (ks : List Key) : Bool :=
  (ks.filter (fun k => ks.all (fun k' => !better k' k))).length ≤ 1

def arrayPickBy (better : Key → Key → Bool) (f : Val → Res Val) (v : Val) : Res Val :=
  match v with
  | .arr t xs =>
    match xs with
    | [] => .ok .null
    | x0 :: rest => widen t xs [f] [Cat.invalidType] do
      let ks ← keysOf f (x0 :: rest)
      match ks with
      | [] => .ok .null
      | k0 :: krest =>
        if enum2 t xs && !uniqueExtremum better ks then .nondet
        else .ok (pickBy better x0 k0 (rest.zip krest))
  | _ => errType

def arrayMaxBy := arrayPickBy Key.gtMax
def arrayMinBy := arrayPickBy Key.ltMin

/-- `sort.Stable` by key: specified as the (unique) stable sort, `List.mergeSort` -/
def sortByKeys (xs : List Val) (ks : List Key) : List Val :=
  ((xs.zip ks).mergeSort (fun a b => !Key.lt b.2 a.2)).map Prod.fst

def keysDistinct (ks : List Key) : Bool :=
  match ks with
  | [] => true
  | k :: rest => rest.all (fun k' => Key.lt k k' || Key.lt k' k) && keysDistinct rest

def sortArrayBy (f : Val → Res Val) (v : Val) : Res Val :=
  match v with
  | .arr t xs =>
    if xs.isEmpty then .ok v
    else widen t xs [f] [Cat.invalidType] do
      let ks ← keysOf f xs
      if enum2 t xs && !keysDistinct ks then .nondet
      else .ok (.arr .plain (sortByKeys xs ks))
  | _ => errType

/-! ### max / min / sort -/

def allStrings : List Val → Option (List Bytes)
  | [] => some []
  | .str s :: rest => (allStrings rest).map (s :: ·)
  | _ => none

def allDecimals : List Val → Option (List Dec)
  | [] => some []
  | v :: rest => match toDecimal v with
    | none => none
    | some d => (allDecimals rest).map (d :: ·)

def maxStr : Bytes → List Bytes → Bytes
  | m, [] => m
  | m, s :: rest => if bytesLt m s then maxStr s rest else maxStr m rest

def minStr : Bytes → List Bytes → Bytes
  | m, [] => m
  | m, s :: rest => if bytesLt s m then minStr s rest else minStr m rest

def maxDec : Dec → List Dec → Dec
  | m, [] => m
  | m, d :: rest => if Dec.greater d m then maxDec d rest else maxDec m rest

def minDec : Dec → List Dec → Dec
  | m, [] => m
  | m, d :: rest => if Dec.less d m then minDec d rest else minDec m rest

/-- a NaN among the numbers makes the scan order-dependent -/
def decsOrderFree (ds : List Dec) : Bool := !ds.any Dec.isNaN

def arrayMax (v : Val) : Res Val :=
  match v with
  | .arr t xs =>
    match xs with
    | [] => .ok .null
    | .str s :: rest => (match allStrings rest with
      | some ss => .ok (.str (maxStr s ss))
      | none => errType)
    | x :: rest => (match allDecimals (x :: rest) with
      | some (d :: ds) => if enum2 t xs && !decsOrderFree (d :: ds) then .nondet else .ok (.num (.dec (maxDec d ds)))
      | _ => errType)
  | _ => errType

def arrayMin (v : Val) : Res Val :=
  match v with
  | .arr t xs =>
    match xs with
    | [] => .ok .null
    | .str s :: rest => (match allStrings rest with
      | some ss => .ok (.str (minStr s ss))
      | none => errType)
    | x :: rest => (match allDecimals (x :: rest) with
      | some (d :: ds) => if enum2 t xs && !decsOrderFree (d :: ds) then .nondet else .ok (.num (.dec (minDec d ds)))
      | _ => errType)
  | _ => errType

/-- are two adjacent elements of a sorted list equal in value but different as values (their relative order
    after an unstable sort is then unspecified)? -/
def hasAmbiguousTie : List (Val × Dec) → Bool
  | (v1, d1) :: (v2, d2) :: rest =>
    (Dec.compare d1 d2 == 0 && !Val.same v1 v2) || hasAmbiguousTie ((v2, d2) :: rest)
  | _ => false

def sortArray (v : Val) : Res Val :=
  match v with
  | .arr _ xs =>
    match xs with
    | [] => .ok v
    | .str _ :: _ => (match allStrings xs with
      | some ss => .ok (.arr .plain ((ss.mergeSort (fun a b => !bytesLt b a)).map Val.str))
      | none => errType)
    | _ => (match allDecimals xs with
      | some ds =>
        let sorted := (xs.zip ds).mergeSort (fun a b => Dec.compare a.2 b.2 ≤ 0)
        if hasAmbiguousTie sorted then .nondet else .ok (.arr .plain (sorted.map Prod.fst))
      | none => errType)
  | _ => errType

end Jmes
