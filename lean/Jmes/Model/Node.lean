/-
  Mirror of /repo/internal/parser/node.go: one constructor per Go node type that the evaluator treats
  differently (all fused forms are kept). The six literal node types collapse into `lit`; the builtins whose
  evaluation is "evaluate every argument left to right, then call the Go function" share `call`.
-/
import Jmes.Model.Value
namespace Jmes

inductive BinOp where
  | add | sub | mul | div | idiv | mod | eq | ne | lt | le | gt | ge
  deriving Repr, DecidableEq, Inhabited

/-- eager fixed-arity builtins (one tag per Go node type) -/
inductive Fn where
  | abs | avg | ceil | contains | endsWith
  | findFirst | findFirstBetween | findFirstFrom | findLast | findLastBetween | findLastFrom
  | floor | fromItems | items | join | keys | length | lower | max | min
  | padLeft | padRight | padSpaceLeft | padSpaceRight
  | replace | replaceCount | reverse | sort | split | splitCount | startsWith | sum
  | toArray | toNumber | toString | trim | trimLeft | trimRight | trimSpace | trimSpaceLeft | trimSpaceRight
  | type | upper | values
  deriving Repr, DecidableEq, Inhabited

inductive INode where
  | lit (v : Val)
  | current
  | root
  | field (k : Bytes)
  | variable (name : Bytes)
  | binop (op : BinOp) (l r : INode)
  | and (l r : INode)
  | or (l r : INode)
  | not (c : INode)
  | negate (c : INode)
  | assertNumber (c : INode)
  | call (f : Fn) (args : List INode)
  | defineVariables (vars : List (Bytes × INode)) (child : INode)
  | filter (c f : INode)
  | filterCurrent (f : INode)
  | filterAndProject (l f r : INode)
  | filterAndProjectCurrent (f c : INode)
  | flatten (c : INode)
  | flattenCurrent
  | flattenAndProject (l r : INode)
  | flattenAndProjectCurrent (c : INode)
  | index (c : INode) (i : Int)
  | indexCurrent (i : Int)
  | smallIndexCurrent (i : Nat)
  | objectValues (c : INode)
  | objectValuesCurrent
  | pipe (l r : INode)
  | projectArray (l r : INode)
  | projectArrayCurrent (c : INode)
  | projectObject (l r : INode)
  | projectObjectCurrent (c : INode)
  | pruneArray (c : INode)
  | pruneArrayCurrent
  | selectArray (c : INode) (fs : List INode)
  | selectArrayCurrent (fs : List INode)
  | selectArraySingle (c f : INode)
  | selectArraySingleCurrent (f : INode)
  | selectObject (c : INode) (fs : List (Bytes × INode))
  | selectObjectCurrent (fs : List (Bytes × INode))
  | selectObjectSingle (c : INode) (k : Bytes) (f : INode)
  | selectObjectSingleCurrent (k : Bytes) (f : INode)
  | slice (c : INode) (start stop : Int)
  | sliceCurrent (start stop : Int)
  | sliceStep (c : INode) (start stop step : Int)
  | sliceStepCurrent (start stop step : Int)
  | groupBy (a e : INode)
  | map (e a : INode)
  | maxBy (a e : INode)
  | minBy (a e : INode)
  | sortBy (a e : INode)
  | merge (args : List INode)
  | notNull (args : List INode)
  | zip (args : List INode)
  deriving Repr, Inhabited

/-- `isProjectNode` of project.go -/
def INode.isProject : INode → Bool
  | .filterAndProject .. | .filterAndProjectCurrent .. | .flattenAndProject .. | .flattenAndProjectCurrent ..
  | .projectArray .. | .projectArrayCurrent .. => true
  | _ => false

/-- `isSliceNode` of slice.go -/
def INode.isSlice : INode → Bool
  | .slice .. | .sliceCurrent .. | .sliceStep .. | .sliceStepCurrent .. => true
  | _ => false

end Jmes
