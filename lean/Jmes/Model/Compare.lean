/-
  Mirror of /repo/internal/evaluator/compare.go.
-/
import Jmes.Model.Number
namespace Jmes

mutual
/-- does the value contain an array whose element order came from ranging over a Go map (≥ 2 elements)? -/
def Val.hasEnum2 : Val → Bool
  | .arr t xs => (t == .enum && xs.length ≥ 2) || Val.hasEnum2L xs
  | .obj kvs => Val.hasEnum2F kvs
  | _ => false
def Val.hasEnum2L : List Val → Bool
  | [] => false
  | v :: vs => v.hasEnum2 || Val.hasEnum2L vs
def Val.hasEnum2F : List (Bytes × Val) → Bool
  | [] => false
  | (_, v) :: kvs => v.hasEnum2 || Val.hasEnum2F kvs
end

mutual
/-- `equal(x, y)` -/
def equal : Val → Val → Bool
  | .null, y => y.isNull
  | .bool a, .bool b => a == b
  | .bool _, _ => false
  | .str a, .str b => a == b
  | .str _, _ => false
  | .num n, y =>
    match toDecimal (.num n) with
    | some xd => (match toDecimal y with
      | some yd => xd.equal yd
      | none => false)
    | none => false
  | .arr _ xs, .arr _ ys => equalL xs ys
  | .arr _ _, _ => false
  | .obj xs, .obj ys => xs.length == ys.length && equalF xs ys
  | .obj _, _ => false
  | .foreign _, _ => false
/-- element-wise, same length -/
def equalL : List Val → List Val → Bool
  | [], [] => true
  | x :: xs, y :: ys => equal x y && equalL xs ys
  | _, _ => false
/-- every member of the left object is found, equal, in the right one -/
def equalF : List (Bytes × Val) → List (Bytes × Val) → Bool
  | [], _ => true
  | (k, x) :: xs, ys =>
    (match objLookup k ys with
     | some y => equal x y
     | none => false) && equalF xs ys
end

/-- `==` as the evaluator uses it: declines when a map-ordered array is involved -/
def equalR (x y : Val) : Res Bool :=
  if x.hasEnum2 || y.hasEnum2 then .nondet else .ok (equal x y)

def isTrue : Val → Bool
  | .null => false
  | .arr _ xs => !xs.isEmpty
  | .obj kvs => !kvs.isEmpty
  | .bool b => b
  | .str s => !s.isEmpty
  | .num (.jnum t) => !t.isEmpty
  | .num _ => true
  | .foreign _ => true

/-- the four ordering operators: `null` unless both sides are numbers -/
def cmpOp (f : Dec → Dec → Bool) (x y : Val) : Val :=
  match toDecimal x with
  | none => .null
  | some xd => match toDecimal y with
    | none => .null
    | some yd => .bool (f xd yd)

def less := cmpOp Dec.less
def lessOrEqual := cmpOp Dec.lessEq
def greater := cmpOp Dec.greater
def greaterOrEqual := cmpOp Dec.greaterEq

/-- is `b` a contiguous sub-list of `a` (strings.Contains) -/
def bytesContains (a b : Bytes) : Bool :=
  match a with
  | [] => b.isEmpty
  | _ :: t => b.isPrefixOf a || bytesContains t b

def contains (x y : Val) : Res Val :=
  match x with
  | .str s => (match y with
    | .str p => .ok (.bool (bytesContains s p))
    | _ => .ok (.bool false))
  | .arr _ xs =>
    if Val.hasEnum2L xs || y.hasEnum2 then .nondet
    else .ok (.bool (xs.any (fun xi => equal xi y)))
  | _ => errType

end Jmes
