/-
  Values the evaluator works on (Go `any` holding nil, bool, string, the numeric kinds, `[]any`,
  `map[string]any`, or something foreign) and evaluation outcomes.
-/
import Jmes.Basic.Bytes
import Jmes.Basic.Dec
import Jmes.Basic.DecText
import Jmes.Basic.F64
namespace Jmes

inductive IntKind where
  | i8 | i16 | i32 | i64 | int | u8 | u16 | u32 | u64 | uint
  deriving Repr, DecidableEq, Inhabited

inductive Num where
  | jnum (text : Bytes)          -- json.Number
  | dec (d : Dec)                -- decimal128.Decimal
  | int (k : IntKind) (v : Int)  -- int8 … uint
  | f64 (f : F64)
  | f32 (f : F64)                -- a float32 (its exact value)
  deriving Repr, DecidableEq, Inhabited

/-- How an array came to be: `plain`, a nil slice (`[]any(nil)`, always empty), or the result of ranging over a
    Go map, whose element order is unspecified (`enum`). -/
inductive ATag where
  | plain | nil | enum
  deriving Repr, DecidableEq, Inhabited

inductive Val where
  | null
  | bool (b : Bool)
  | str (s : Bytes)
  | num (n : Num)
  | arr (t : ATag) (xs : List Val)
  | obj (kvs : List (Bytes × Val))    -- sorted by key, keys unique
  | foreign (t : Nat)                 -- any other Go value
  deriving Repr, Inhabited

/-- public error categories (the eight sentinels of errors.go) -/
inductive Cat where
  | syntax | arity | unknownFunction | invalidType | invalidValue | notANumber | undefinedVariable | evaluationFailed
  deriving Repr, DecidableEq, Inhabited

/-- outcome of an evaluation step. `err` carries the *set* of categories the Go code may report
    (more than one only where Go ranges over a map of sub-expressions); `nondet` = the result depends on Go map
    iteration order; `unmodelled` = the model declines (e.g. float formatting). -/
inductive Res (α : Type) where
  | ok (a : α)
  | err (cs : List Cat)
  | panic (why : String)
  | nondet
  | unmodelled (why : String)
  deriving Repr, Inhabited

namespace Res
@[inline] def bind {α β} (r : Res α) (f : α → Res β) : Res β :=
  match r with
  | .ok a => f a
  | .err c => .err c
  | .panic w => .panic w
  | .nondet => .nondet
  | .unmodelled w => .unmodelled w

instance : Monad Res where
  pure := .ok
  bind := bind

@[inline] def err1 {α} (c : Cat) : Res α := .err [c]
end Res

/-- lexicographic order on byte strings = Go's `<` on strings -/
def bytesLt : Bytes → Bytes → Bool
  | [], [] => false
  | [], _ :: _ => true
  | _ :: _, [] => false
  | a :: as, b :: bs => if a < b then true else if a > b then false else bytesLt as bs

def bytesCmp (a b : Bytes) : Int := if bytesLt a b then -1 else if a = b then 0 else 1

/-- insert / replace in a key-sorted association list -/
def objInsert (k : Bytes) (v : Val) : List (Bytes × Val) → List (Bytes × Val)
  | [] => [(k, v)]
  | (k', v') :: rest =>
    if k = k' then (k, v) :: rest
    else if bytesLt k k' then (k, v) :: (k', v') :: rest
    else (k', v') :: objInsert k v rest

def objLookup (k : Bytes) : List (Bytes × Val) → Option Val
  | [] => none
  | (k', v) :: rest => if k = k' then some v else objLookup k rest

def objOfList (kvs : List (Bytes × Val)) : List (Bytes × Val) :=
  kvs.foldl (fun acc kv => objInsert kv.1 kv.2 acc) []

namespace Val
def isNull : Val → Bool | .null => true | _ => false

mutual
/-- structural identity (same Go value, same representation) -/
def same : Val → Val → Bool
  | .null, .null => true
  | .bool a, .bool b => a == b
  | .str a, .str b => a == b
  | .num a, .num b => decide (a = b)
  | .arr t xs, .arr u ys => t == u && sameL xs ys
  | .obj xs, .obj ys => sameF xs ys
  | .foreign a, .foreign b => a == b
  | _, _ => false
def sameL : List Val → List Val → Bool
  | [], [] => true
  | x :: xs, y :: ys => same x y && sameL xs ys
  | _, _ => false
def sameF : List (Bytes × Val) → List (Bytes × Val) → Bool
  | [], [] => true
  | (k, x) :: xs, (l, y) :: ys => k == l && same x y && sameF xs ys
  | _, _ => false
end
end Val

end Jmes
